/-
C08 — Particle kinematics satisfy their definitions; missing data gives NaN.

Property theorems only.  They are about the eleven method bodies GENERATED from the current text of
`src/sparkx/Particle.py` (`Gen/Kinematics.lean`: `angular_momentum, rapidity, p_abs, pT_abs, phi, theta,
pseudorapidity, spacetime_rapidity, proper_time, mass_from_energy_momentum, mT`), so every statement is
re-checked against what the code says on each run.  The same generated text runs at `Float` in the driver
(correspondence with the real class) and is instantiated here at `XReal` = ℝ ∪ {nan}
(`Lemmas/Kinematics.lean`: `nan` = any non-finite float; `log x` for `x ≤ 0`, `sqrt` of a negative,
`arccos` outside [-1,1], `x/0` are `nan`; comparisons with `nan` are false; `atan2 y x = Complex.arg (x+iy)`).

Reading of the English:
* "a required input is unset" : some attribute in `required m` (the inputs of the quantity's DEFINITION,
  written by hand in `Core/Kinematics.lean`) has the value `nan`.  (a) `nan_total` holds for ANY carrier
  whose `isnan nan = true` — Float included if `Float.isNaN (0/0)` is granted — and `guard_table` is the
  finite fact about the extracted (guard set, used set) pairs.
* identities: each is stated for an ARBITRARY attribute record in which only the inputs of that quantity
  are assumed finite — all other slots may hold anything, in particular be unset.
* "away from the regulated singular directions": hypotheses `1e-9 < |E - |pz||`, `1e-9 < |p - |pz||`,
  `1e-6 < pT`, exactly as in the quantifier; the theorems show the regulator branches are then not taken.
* `m^2 = E^2 - p^2` is stated for PDG codes outside the documented massless list (for those the method
  returns 0 by documented design: `mass_massless`).
* unphysical inputs: `|z| ≥ t` raises (`ValueError` is the only class the two methods can raise:
  `raises_documented`); `|pz| > E` gives `nan` for `0 ≤ E` (`rapidity_unphysical`, `mT_unphysical`,
  `mass_unphysical`).  Read literally for negative `E` the clause is FALSE of the code
  (`Props/C08/NegE.lean`: `C08_unphysical_rapidity_full_false`, witness E = -2, pz = 1; a monitor, not a gating obligation): there `y = artanh(pz/E)` is defined and
  the code returns it (`NegE.rapidity_def_signed`), consistently with `mT`/`mass_from_energy_momentum`, whose
  documented condition is `|E| ≥ |pz|`.  The full statement stays visible as
  `C08_unphysical_rapidity_full`; `C08_unphysical_rapidity_partial` is proved under `0 ≤ E`.
Not covered by these theorems: IEEE rounding/overflow (sampled by the correspondence and the oracle).
-/
import SparkxVerif.Lemmas.Kinematics

open SparkxVerif.Kin SparkxVerif.Kin.XReal SparkxVerif.Gen.Kin

namespace SparkxVerif.C08

/-! ## (a) missing data gives NaN — never a number, never an exception -/

/-- finite table fact about the pairs extracted from the CURRENT source: every attribute a method's
body reads is tested by its leading NaN guard, and the guard tests exactly the inputs of the definition -/
theorem guard_table (m : Method) : used m ⊆ guarded m ∧ guarded m = required m := by
  cases m <;> decide

/-- unset input ⇒ the method returns NaN (so: not a number, not an exception) — any carrier with `isnan nan` -/
theorem nan_total {α : Type} [KOps α] (hnan : KOps.isnan (KOps.nan : α) = true)
    (m : Method) (a : Attrs α) (k : Attr) (hk : k ∈ required m) (hu : a.get k = KOps.nan) :
    run m a = Res.val KOps.nan := by
  cases m <;> simp [required] at hk <;> rcases hk with rfl | hk <;>
    (try rcases hk with rfl | hk) <;> (try rcases hk with rfl | hk) <;> (try rcases hk with rfl | hk) <;>
    (try rcases hk with rfl | hk) <;> (try subst hk) <;>
    simp only [Attrs.get] at hu <;>
    simp [run, angular_momentum, rapidity, p_abs, pT_abs, phi, theta, pseudorapidity, spacetime_rapidity,
      proper_time, mass_from_energy_momentum, mT, hu, hnan]

/-- the same at the real-number instance, spelled out: the result is `val nan`, hence neither finite nor `raise` -/
theorem nan_total_real (m : Method) (a : Attrs XReal) (k : Attr) (hk : k ∈ required m) (hu : a.get k = nan) :
    run m a = Res.val nan ∧ ¬ (run m a).isFin ∧ run m a ≠ Res.raise := by
  have h := nan_total (α := XReal) rfl m a k hk hu
  rw [h]; exact ⟨rfl, id, by intro h'; cases h'⟩

/-! ## (b) the defining identities -/

section identities
variable (a : Attrs XReal) {t x y z E px py pz : ℝ}

/-- `pT^2 = px^2 + py^2` (and `pT ≥ 0`, finite) -/
theorem pT_sq (hx : a.px = fin px) (hy : a.py = fin py) :
    ∃ v, pT_abs a = .val (fin v) ∧ 0 ≤ v ∧ v ^ 2 = px ^ 2 + py ^ 2 :=
  ⟨_, pT_val a hx hy, Real.sqrt_nonneg _, Real.sq_sqrt (by positivity)⟩

/-- `p^2 = pT^2 + pz^2` for the values the two methods return -/
theorem p_sq (hx : a.px = fin px) (hy : a.py = fin py) (hz : a.pz = fin pz) :
    ∃ p v, p_abs a = .val (fin p) ∧ pT_abs a = .val (fin v) ∧ 0 ≤ p ∧ p ^ 2 = v ^ 2 + pz ^ 2 := by
  refine ⟨_, _, p_val a hx hy hz, pT_val a hx hy, Real.sqrt_nonneg _, ?_⟩
  rw [Real.sq_sqrt (by positivity), Real.sq_sqrt (by positivity)]

/-- `phi = atan2(py,px) ∈ (-π, π]` and it is the polar angle of `(px,py)`; needs `pT > 1e-6` -/
theorem phi_def (hx : a.px = fin px) (hy : a.py = fin py) (hT : 1e-6 < pT px py) :
    ∃ φ, phi a = .val (fin φ) ∧ φ = Complex.arg ⟨px, py⟩ ∧ φ ∈ Set.Ioc (-Real.pi) Real.pi ∧
      px = pT px py * Real.cos φ ∧ py = pT px py * Real.sin φ := by
  refine ⟨_, phi_val a hx hy (not_lt.mpr hT.le), rfl, ?_⟩
  have := arg_polar px py
  simpa [pT, pow_two] using this

/-- `cos(theta) = pz/p`, `theta ∈ [0, π]` -/
theorem theta_def (hx : a.px = fin px) (hy : a.py = fin py) (hz : a.pz = fin pz) (hp : pabs px py pz ≠ 0) :
    ∃ θ, theta a = .val (fin θ) ∧ 0 ≤ θ ∧ θ ≤ Real.pi ∧ Real.cos θ = pz / pabs px py pz := by
  refine ⟨_, theta_val a hx hy hz hp, Real.arccos_nonneg _, Real.arccos_le_pi _, ?_⟩
  have hle := abs_pz_le_pabs px py pz
  have hpos : 0 < pabs px py pz := lt_of_le_of_ne (Real.sqrt_nonneg _) (Ne.symm hp)
  unfold pabs at hpos hle ⊢
  apply Real.cos_arccos
  · rw [le_div_iff₀ hpos]; linarith [neg_abs_le pz]
  · rw [div_le_iff₀ hpos]; linarith [le_abs_self pz]

/-- `y = artanh(pz/E)` for a physical four-momentum (`|pz| < E`) away from the regulated band -/
theorem rapidity_def (hE : a.E = fin E) (hz : a.pz = fin pz) (hphys : |pz| < E)
    (hreg : 1e-9 < |E - (|pz|)|) :
    rapidity a = .val (fin (Real.artanh (pz / E))) := by
  have hE0 : 0 < E := lt_of_le_of_lt (abs_nonneg _) hphys
  have hd : 1e-9 < E - |pz| := by rwa [abs_of_pos (by linarith)] at hreg
  have h1 := neg_abs_le pz
  have h2 := le_abs_self pz
  have hm : ¬ |E - pz| < 1e-10 := by
    rw [abs_of_pos (by linarith)]; intro h; norm_num at h hd; linarith
  have hm0 : E - pz ≠ 0 := by linarith
  have hp0 : E + pz ≠ 0 := by linarith
  have hphys' : |pz| < |E| := by rwa [abs_of_pos hE0]
  rw [rapidity_val_nonneg a hE hz hE0.le hm, if_pos ((ratio_pos_iff hm0 hp0).mpr hphys'),
    artanh_div hE0.ne' hphys']

/-- `eta = artanh(pz/p)` -/
theorem pseudorapidity_def (hx : a.px = fin px) (hy : a.py = fin py) (hz : a.pz = fin pz)
    (hreg : 1e-9 < |pabs px py pz - (|pz|)|) :
    pseudorapidity a = .val (fin (Real.artanh (pz / pabs px py pz))) := by
  have hle := abs_pz_le_pabs px py pz
  have hd : 1e-9 < pabs px py pz - |pz| := by rwa [abs_of_nonneg (by linarith)] at hreg
  have hp0 : 0 < pabs px py pz := by linarith [abs_nonneg pz]
  have hphys : |pz| < |pabs px py pz| := by rw [abs_of_pos hp0]; linarith
  have h1 := neg_abs_le pz
  have h2 := le_abs_self pz
  have hm : ¬ |pabs px py pz - pz| < 1e-10 := by
    rw [abs_of_pos (by linarith)]; intro h; norm_num at h hd; linarith
  have hm0 : pabs px py pz - pz ≠ 0 := by linarith
  have hpp0 : pabs px py pz + pz ≠ 0 := by linarith
  unfold pabs at *
  rw [eta_val a hx hy hz hm, if_pos ((ratio_pos_iff hm0 hpp0).mpr hphys), artanh_div hp0.ne' hphys]

/-- `eta = -ln tan(theta/2)` -/
theorem pseudorapidity_eq_neg_log_tan_half_theta (hx : a.px = fin px) (hy : a.py = fin py) (hz : a.pz = fin pz)
    (hreg : 1e-9 < |pabs px py pz - (|pz|)|) :
    ∃ θ, theta a = .val (fin θ) ∧ pseudorapidity a = .val (fin (-Real.log (Real.tan (θ / 2)))) := by
  have hle := abs_pz_le_pabs px py pz
  have hd : 1e-9 < pabs px py pz - |pz| := by rwa [abs_of_nonneg (by linarith)] at hreg
  have hp0 : 0 < pabs px py pz := by linarith [abs_nonneg pz]
  have h1 := neg_abs_le pz
  have h2 := le_abs_self pz
  have hlt1 : pz / pabs px py pz < 1 := by rw [div_lt_one hp0]; norm_num at hd; linarith
  have hgt1 : -1 < pz / pabs px py pz := by rw [lt_div_iff₀ hp0]; norm_num at hd; linarith
  refine ⟨_, theta_val a hx hy hz hp0.ne', ?_⟩
  rw [pseudorapidity_def a hx hy hz hreg]
  change _ = Res.val (fin (-Real.log (Real.tan (Real.arccos (pz / pabs px py pz) / 2))))
  rw [neg_log_tan_half (Real.arccos_pos.mpr hlt1) (Real.arccos_lt_pi.mpr hgt1),
    Real.cos_arccos hgt1.le hlt1.le]

/-- `mT^2 = E^2 - pz^2` -/
theorem mT_sq (hE : a.E = fin E) (hz : a.pz = fin pz) (hphys : |pz| ≤ |E|) :
    ∃ m, mT a = .val (fin m) ∧ 0 ≤ m ∧ m ^ 2 = E ^ 2 - pz ^ 2 := by
  refine ⟨Real.sqrt (E ^ 2 - pz ^ 2), by rw [mT_val a hE hz, if_pos hphys], Real.sqrt_nonneg _, Real.sq_sqrt ?_⟩
  nlinarith [sq_abs E, sq_abs pz, abs_nonneg pz, abs_nonneg E]

/-- `m^2 = E^2 - p^2` (PDG code outside the documented massless list, or unset) -/
theorem mass_sq (hE : a.E = fin E) (hx : a.px = fin px) (hy : a.py = fin py) (hz : a.pz = fin pz)
    (hpdg : pdgIn a.pdg [22, 21, 12, -12, 14, -14, 16, -16, 18, -18] = false)
    (hphys : pabs px py pz ≤ |E|) :
    ∃ m, mass_from_energy_momentum a = .val (fin m) ∧ 0 ≤ m ∧ m ^ 2 = E ^ 2 - (px ^ 2 + py ^ 2 + pz ^ 2) := by
  have hp0 : 0 ≤ pabs px py pz := Real.sqrt_nonneg _
  have hsq : pabs px py pz ^ 2 = px ^ 2 + py ^ 2 + pz ^ 2 := Real.sq_sqrt (by positivity)
  have hnn : 0 ≤ E ^ 2 - (px ^ 2 + py ^ 2 + pz ^ 2) := by
    rw [← hsq]; nlinarith [sq_abs E, abs_nonneg E]
  refine ⟨Real.sqrt (E ^ 2 - (px ^ 2 + py ^ 2 + pz ^ 2)), ?_, Real.sqrt_nonneg _, Real.sq_sqrt hnn⟩
  unfold pabs at *
  have hphys' : |Real.sqrt (px ^ 2 + py ^ 2 + pz ^ 2)| ≤ |E| := by rwa [abs_of_nonneg hp0]
  simp [mass_from_energy_momentum, p_val a hx hy hz, hE, hx, hy, hz, hpdg, hphys', ← pow_two, hsq, hnn]

/-- documented exception: listed massless species get mass 0 -/
theorem mass_massless (hE : a.E = fin E) (hx : a.px = fin px) (hy : a.py = fin py) (hz : a.pz = fin pz)
    (hpdg : pdgIn a.pdg [22, 21, 12, -12, 14, -14, 16, -16, 18, -18] = true) :
    mass_from_energy_momentum a = .val (fin 0) := by
  simp [mass_from_energy_momentum, hE, hx, hy, hz, hpdg]

/-- `tau^2 = t^2 - z^2` -/
theorem proper_time_sq (ht : a.t = fin t) (hz : a.z = fin z) (hphys : |z| < t) :
    ∃ τ, proper_time a = .val (fin τ) ∧ 0 ≤ τ ∧ τ ^ 2 = t ^ 2 - z ^ 2 := by
  have ht0 : 0 < t := lt_of_le_of_lt (abs_nonneg _) hphys
  have hnn : 0 ≤ t ^ 2 - z ^ 2 := by nlinarith [sq_abs z, abs_nonneg z]
  refine ⟨Real.sqrt (t ^ 2 - z ^ 2), ?_, Real.sqrt_nonneg _, Real.sq_sqrt hnn⟩
  simp [proper_time, ht, hz, hphys, hnn, ← pow_two]

/-- `eta_s = artanh(z/t)` -/
theorem spacetime_rapidity_def (ht : a.t = fin t) (hz : a.z = fin z) (hphys : |z| < t) :
    spacetime_rapidity a = .val (fin (Real.artanh (z / t))) := by
  have ht0 : 0 < t := lt_of_le_of_lt (abs_nonneg _) hphys
  have h := abs_lt.mp hphys
  have hm0 : t - z ≠ 0 := by linarith
  have hpos : 0 < (t + z) / (t - z) := div_pos (by linarith) (by linarith)
  rw [artanh_div ht0.ne' (by rwa [abs_of_pos ht0])]
  simp [spacetime_rapidity, ht, hz, hphys, hm0, hpos]

/-- `L = r × p` -/
theorem angular_momentum_def (h1 : a.x = fin x) (h2 : a.y = fin y) (h3 : a.z = fin z)
    (hx : a.px = fin px) (hy : a.py = fin py) (hz : a.pz = fin pz) :
    angular_momentum a = .vec (fin (y * pz - z * py)) (fin (z * px - x * pz)) (fin (x * py - y * px)) := by
  simp [angular_momentum, cross3, h1, h2, h3, hx, hy, hz]

end identities

/-! ## (c) reflection `pz ↦ -pz` and azimuthal rotation -/

section symmetry
variable (a : Attrs XReal) {t x y z E px py pz : ℝ}

/-- reflection `pz ↦ -pz` -/
noncomputable def reflect (a : Attrs XReal) : Attrs XReal := { a with pz := -a.pz }

/-- `y` changes sign under `pz ↦ -pz` (NaN ↦ NaN in the unphysical region) -/
theorem rapidity_odd (hE : a.E = fin E) (hz : a.pz = fin pz) (hE0 : 0 ≤ E) (hreg : 1e-9 < |E - (|pz|)|) :
    rapidity (reflect a) = Res.neg (rapidity a) := by
  have hm : 1e-9 < |E - pz| := by
    have := abs_abs_sub_abs_le_abs_sub E pz; rw [abs_of_nonneg hE0] at this; linarith
  have hp : 1e-9 < |E + pz| := by
    have := abs_abs_sub_abs_le_abs_sub E (-pz); rw [abs_neg, sub_neg_eq_add, abs_of_nonneg hE0] at this; linarith
  have hlit : (1e-10 : ℝ) < 1e-9 := by norm_num
  have hm0 : E - pz ≠ 0 := by intro h; rw [h] at hm; norm_num at hm
  have hp0 : E + pz ≠ 0 := by intro h; rw [h] at hp; norm_num at hp
  have hz' : (reflect a).pz = fin (-pz) := by simp [reflect, hz]
  have hE' : (reflect a).E = fin E := hE
  rw [rapidity_val_nonneg (reflect a) hE' hz' hE0 (by rw [sub_neg_eq_add]; intro h; linarith),
    rapidity_val_nonneg a hE hz hE0 (by intro h; linarith)]
  have hinv : (E + -pz) / (E - -pz) = ((E + pz) / (E - pz))⁻¹ := by
    rw [inv_div, sub_neg_eq_add]; rfl
  rw [hinv]
  by_cases hr : 0 < (E + pz) / (E - pz)
  · rw [if_pos hr, if_pos (inv_pos.mpr hr), Real.log_inv]; simp [Res.neg]
  · rw [if_neg hr, if_neg (by rwa [inv_pos])]; rfl

/-- `eta` changes sign under `pz ↦ -pz` -/
theorem pseudorapidity_odd (hx : a.px = fin px) (hy : a.py = fin py) (hz : a.pz = fin pz)
    (hreg : 1e-9 < |pabs px py pz - (|pz|)|) :
    pseudorapidity (reflect a) = Res.neg (pseudorapidity a) := by
  have hz' : (reflect a).pz = fin (-pz) := by simp [reflect, hz]
  have hpe : pabs px py (-pz) = pabs px py pz := by simp [pabs]
  have hle := abs_pz_le_pabs px py pz
  have hd : 1e-9 < pabs px py pz - |pz| := by rwa [abs_of_nonneg (by linarith)] at hreg
  have hp0 : 0 < pabs px py pz := by linarith [abs_nonneg pz]
  have hlt : |pz / pabs px py pz| < 1 := by
    rw [abs_div, abs_of_pos hp0, div_lt_one hp0]; norm_num at hd; linarith
  rw [pseudorapidity_def (reflect a) (pz := -pz) hx hy hz' (by rw [hpe, abs_neg]; exact hreg),
    pseudorapidity_def a hx hy hz hreg, hpe, neg_div, artanh_neg' _ hlt]
  rfl

noncomputable def rotate (α : ℝ) (x y px py : ℝ) (a : Attrs XReal) : Attrs XReal :=
  { a with
    x := fin (x * Real.cos α - y * Real.sin α), y := fin (x * Real.sin α + y * Real.cos α),
    px := fin (px * Real.cos α - py * Real.sin α), py := fin (px * Real.sin α + py * Real.cos α) }

/-- the methods other than `phi` and `angular_momentum` -/
def azimuthallyInvariant : List Method :=
  [.rapidity, .p_abs, .pT_abs, .theta, .pseudorapidity, .spacetime_rapidity, .proper_time,
   .mass_from_energy_momentum, .mT]

/-- only `phi` changes under an azimuthal rotation (I): every other scalar is unchanged,
for ANY values of the remaining attributes (finite or not) -/
theorem rotation_invariant (α : ℝ) (hx : a.px = fin px) (hy : a.py = fin py)
    (m : Method) (hm : m ∈ azimuthallyInvariant) :
    run m (rotate α x y px py a) = run m a := by
  have e := rot_sq α px py
  have e' : (px * Real.cos α - py * Real.sin α) * (px * Real.cos α - py * Real.sin α) +
      (px * Real.sin α + py * Real.cos α) * (px * Real.sin α + py * Real.cos α) = px * px + py * py := by
    rw [← pow_two, ← pow_two, e]; ring
  simp [azimuthallyInvariant] at hm
  rcases hm with rfl | rfl | rfl | rfl | rfl | rfl | rfl | rfl | rfl
  · rfl
  · cases hz : a.pz <;> simp [run, p_abs, rotate, hx, hy, hz, e']
  · simp [run, pT_abs, rotate, hx, hy, e']
  · cases hz : a.pz <;> simp [run, theta, p_abs, rotate, hx, hy, hz, e']
  · cases hz : a.pz <;> simp [run, pseudorapidity, p_abs, rotate, hx, hy, hz, e']
  · rfl
  · rfl
  · cases hz : a.pz <;> cases hE : a.E <;> simp [run, mass_from_energy_momentum, p_abs, rotate, hx, hy, hz, hE, e']
  · rfl

/-- only `phi` changes (II): `phi` is shifted by `α` (as an angle, i.e. modulo 2π) -/
theorem rotation_phi (α : ℝ) (hx : a.px = fin px) (hy : a.py = fin py) (hT : 1e-6 < pT px py) :
    ∃ φ φ', phi a = .val (fin φ) ∧ phi (rotate α x y px py a) = .val (fin φ') ∧
      (φ' : Real.Angle) = (φ : Real.Angle) + (α : Real.Angle) := by
  have hx' : (rotate α x y px py a).px = fin (px * Real.cos α - py * Real.sin α) := rfl
  have hy' : (rotate α x y px py a).py = fin (px * Real.sin α + py * Real.cos α) := rfl
  have hT' : ¬ Real.sqrt ((px * Real.cos α - py * Real.sin α) ^ 2 + (px * Real.sin α + py * Real.cos α) ^ 2) < 1e-6 := by
    rw [rot_sq]; exact not_lt.mpr hT.le
  refine ⟨_, _, phi_val a hx hy (not_lt.mpr hT.le), phi_val _ hx' hy' hT', ?_⟩
  have hne : (⟨px, py⟩ : ℂ) ≠ 0 := by
    intro h
    have h1 : px = 0 := congrArg Complex.re h
    have h2 : py = 0 := congrArg Complex.im h
    rw [pT, h1, h2] at hT; norm_num at hT
  have hrot : (⟨px * Real.cos α - py * Real.sin α, px * Real.sin α + py * Real.cos α⟩ : ℂ)
      = ⟨px, py⟩ * (Real.Angle.cos (α : Real.Angle) + Real.Angle.sin (α : Real.Angle) * Complex.I) := by
    apply Complex.ext <;> simp [Real.Angle.cos_coe, Real.Angle.sin_coe, Complex.cos_ofReal_re, Complex.sin_ofReal_re]
  have hne2 : ((Real.Angle.cos (α : Real.Angle) : ℂ) + Real.Angle.sin (α : Real.Angle) * Complex.I) ≠ 0 := by
    intro h
    have h1 := congrArg Complex.re h
    have h2 := congrArg Complex.im h
    simp [Real.Angle.cos_coe, Real.Angle.sin_coe, Complex.cos_ofReal_re, Complex.sin_ofReal_re] at h1 h2
    have := Real.sin_sq_add_cos_sq α
    rw [h1, h2] at this; norm_num at this
  rw [hrot, Complex.arg_mul_coe_angle hne hne2, Complex.arg_cos_add_sin_mul_I_coe_angle]

/-- only `phi` changes (III): `L_z` is unchanged when position and momentum are rotated together -/
theorem rotation_Lz (α : ℝ) (h1 : a.x = fin x) (h2 : a.y = fin y) (h3 : a.z = fin z)
    (hx : a.px = fin px) (hy : a.py = fin py) (hz : a.pz = fin pz) :
    ∃ Lx Ly Lx' Ly' Lz, angular_momentum a = .vec (fin Lx) (fin Ly) (fin Lz) ∧
      angular_momentum (rotate α x y px py a) = .vec (fin Lx') (fin Ly') (fin Lz) ∧
      Lx' = Lx * Real.cos α - Ly * Real.sin α ∧ Ly' = Lx * Real.sin α + Ly * Real.cos α := by
  refine ⟨y * pz - z * py, z * px - x * pz, _, _, x * py - y * px, ?_, ?_, rfl, rfl⟩
  · simp [angular_momentum, cross3, h1, h2, h3, hx, hy, hz]
  · simp [angular_momentum, cross3, rotate, h3, hz]
    refine ⟨by ring, by ring, ?_⟩
    have := Real.sin_sq_add_cos_sq α
    linear_combination (x * py - y * px) * this

end symmetry

/-! ## (d) unphysical inputs -/

section unphysical
variable (a : Attrs XReal) {t x y z E px py pz : ℝ}

/-- `|pz| > E ≥ 0` away from the regulated band: the rapidity is NaN, never a finite number -/
theorem rapidity_unphysical (hE : a.E = fin E) (hz : a.pz = fin pz) (h0 : 0 ≤ E) (hun : E < |pz|)
    (hreg : 1e-9 < |E - (|pz|)|) : rapidity a = .val nan := by
  have hd : 1e-9 < |pz| - E := by rwa [abs_of_neg (by linarith), neg_sub] at hreg
  have hun' : |E| < |pz| := by rwa [abs_of_nonneg h0]
  have hm0 : E - pz ≠ 0 := by
    intro h; have : E = pz := by linarith
    rw [this] at hun'; exact lt_irrefl _ hun'
  have hp0 : E + pz ≠ 0 := by
    intro h; have : E = -pz := by linarith
    rw [this, abs_neg] at hun'; exact lt_irrefl _ hun'
  have hm : ¬ |E - pz| < 1e-10 := by
    have := abs_abs_sub_abs_le_abs_sub E pz
    rw [abs_of_nonneg h0, abs_of_neg (by linarith)] at this
    intro h; norm_num at h hd; linarith
  rw [rapidity_val_nonneg a hE hz h0 hm, if_neg]
  rw [ratio_pos_iff hm0 hp0]; exact not_lt.mpr hun'.le

/-- `|pz| > |E|`: NaN -/
theorem mT_unphysical (hE : a.E = fin E) (hz : a.pz = fin pz) (hun : |E| < |pz|) : mT a = .val nan := by
  rw [mT_val a hE hz, if_neg (not_le.mpr hun)]

/-- `|p| > |E|`: NaN -/
theorem mass_unphysical (hE : a.E = fin E) (hx : a.px = fin px) (hy : a.py = fin py) (hz : a.pz = fin pz)
    (hpdg : pdgIn a.pdg [22, 21, 12, -12, 14, -14, 16, -16, 18, -18] = false)
    (hun : |E| < pabs px py pz) : mass_from_energy_momentum a = .val nan := by
  have hp0 : 0 ≤ pabs px py pz := Real.sqrt_nonneg _
  unfold pabs at *
  have hun' : ¬ |Real.sqrt (px ^ 2 + py ^ 2 + pz ^ 2)| ≤ |E| := by rw [abs_of_nonneg hp0]; exact not_le.mpr hun
  simp [mass_from_energy_momentum, p_val a hx hy hz, hE, hx, hy, hz, hpdg, hun']

/-- `|z| ≥ t`: the documented exception, never a value -/
theorem proper_time_unphysical (ht : a.t = fin t) (hz : a.z = fin z) (hun : t ≤ |z|) :
    proper_time a = .raise := by
  simp [proper_time, ht, hz, not_lt.mpr hun]

/-- `|z| ≥ t`: the documented exception, never a value -/
theorem spacetime_rapidity_unphysical (ht : a.t = fin t) (hz : a.z = fin z) (hun : t ≤ |z|) :
    spacetime_rapidity a = .raise := by
  simp [spacetime_rapidity, ht, hz, not_lt.mpr hun]

/-- the only exception class that occurs in the eleven methods (extracted) is `ValueError`, in these two -/
theorem raises_documented (m : Method) :
    raisesOf m = if m = .proper_time ∨ m = .spacetime_rapidity then ["ValueError"] else [] := by
  cases m <;> decide

end unphysical

/-- the unphysical-input clause read literally (`|pz| > E` for EVERY real `E`, negative included) -/
def C08_unphysical_rapidity_full : Prop :=
  ∀ (a : Attrs XReal) (E pz : ℝ), a.E = fin E → a.pz = fin pz → E < |pz| → 1e-9 < |E - (|pz|)| →
    ¬ (rapidity a).isFin

/-- the clause restricted to `0 ≤ E` (four-momenta) -/
theorem C08_unphysical_rapidity_partial :
    ∀ (a : Attrs XReal) (E pz : ℝ), a.E = fin E → a.pz = fin pz → 0 ≤ E → E < |pz| → 1e-9 < |E - (|pz|)| →
    ¬ (rapidity a).isFin := by
  intro a E pz hE hz h0 hun hreg
  rw [rapidity_unphysical a hE hz h0 hun hreg]; exact id

/-! ## non-vacuity: the hypotheses are met by a concrete, non-trivial particle -/

/-- t=5, r=(1,2,3), E=5, p=(1,2,3), a pion; `pdg`, `t`, `x..z` play no role for the momentum quantities -/
noncomputable def sample : Attrs XReal := ⟨fin 5, fin 1, fin 2, fin 3, fin 5, fin 1, fin 2, fin 3, some 211⟩

theorem sample_pabs_gt : 3 + 1e-9 < pabs 1 2 3 := by
  unfold pabs; rw [Real.lt_sqrt (by norm_num)]; norm_num

example : 1e-6 < pT 1 2 := by
  unfold pT; rw [Real.lt_sqrt (by norm_num)]; norm_num
example : (1e-9 : ℝ) < |5 - (|(3 : ℝ)|)| := by norm_num
example : (1e-9 : ℝ) < |pabs 1 2 3 - (|(3 : ℝ)|)| := by
  have := sample_pabs_gt
  rw [abs_of_pos (show (0 : ℝ) < 3 by norm_num), abs_of_pos (by linarith)]; linarith
example : rapidity sample = .val (fin (Real.artanh (3 / 5))) :=
  rapidity_def sample rfl rfl (by norm_num) (by norm_num)
example : ∃ φ, phi sample = .val (fin φ) ∧ φ = Complex.arg ⟨1, 2⟩ ∧ φ ∈ Set.Ioc (-Real.pi) Real.pi ∧
    (1 : ℝ) = pT 1 2 * Real.cos φ ∧ (2 : ℝ) = pT 1 2 * Real.sin φ :=
  phi_def sample rfl rfl (by unfold pT; rw [Real.lt_sqrt (by norm_num)]; norm_num)
example : pseudorapidity sample = .val (fin (Real.artanh (3 / pabs 1 2 3))) :=
  pseudorapidity_def sample rfl rfl rfl (by
    have := sample_pabs_gt
    rw [abs_of_pos (show (0 : ℝ) < 3 by norm_num), abs_of_pos (by linarith)]; linarith)
example : ∃ m, mass_from_energy_momentum sample = .val (fin m) ∧ 0 ≤ m ∧ m ^ 2 = 5 ^ 2 - (1 ^ 2 + 2 ^ 2 + 3 ^ 2) :=
  mass_sq sample rfl rfl rfl rfl (by decide) (by
    unfold pabs; rw [abs_of_pos (by norm_num), Real.sqrt_le_left (by norm_num)]; norm_num)
example : proper_time sample = .val (fin (Real.sqrt (5 ^ 2 - 3 ^ 2))) := by
  obtain ⟨τ, h, -, -⟩ := proper_time_sq sample (t := 5) (z := 3) rfl rfl (by norm_num)
  simp [proper_time, sample, ← pow_two]
  norm_num
/-- a particle with `E` unset: momentum-only quantities are still defined, `E`-dependent ones are NaN -/
noncomputable def sampleNoE : Attrs XReal := { sample with E := nan }
example : pT_abs sampleNoE = .val (fin (pT 1 2)) := pT_val sampleNoE rfl rfl
example : rapidity sampleNoE = .val nan := (nan_total_real .rapidity sampleNoE .E (by decide) rfl).1
example : mT sampleNoE = .val nan := (nan_total_real .mT sampleNoE .E (by decide) rfl).1
/-- unphysical: `|pz| > E ≥ 0` and `|z| ≥ t` -/
noncomputable def sampleBad : Attrs XReal := { sample with E := fin 2, t := fin 3 }
example : rapidity sampleBad = .val nan := rapidity_unphysical sampleBad rfl rfl (by norm_num) (by norm_num) (by norm_num)
example : proper_time sampleBad = .raise := proper_time_unphysical sampleBad (t := 3) (z := 3) rfl rfl (by norm_num)

end SparkxVerif.C08
