/-
C06 — written files read back to the same data; re-writing is a fixpoint.

Objects.  `Wr.OscarObj` / `Wr.JetObj` (Core/Writer.lean) are what an `Oscar` / `Jetscape` object holds;
`writeOscarK` / `writeJetscapeK` mirror `print_particle_lists_to_file` and branch on the tables regenerated from the
source (`Gen/WriterTables.lean`: format strings, `format_map`, column orders, event-number rule, end-line rule);
`Rd.readOscar` / `Rd.readJetscape` are the shared reader model R; `oscarOfLoaded` / `jetOfLoaded` are the constructors.

Parameters (DESIGN §2.3).  `c : Codec V` is Python's `float()/int()` and `'%g'/'%.9g'/'%d' %`; contract
`Hidem c : fmt s (parse (castOf s) (fmt s v)) = fmt s v`.  `obs : String → LineF` is what the loaders observe on a line;
the theorems assume `ObsOK` (every written line is observed as what it is meant to be: the classification lemma, NOT
proved here — the driver evaluates the real `analyse` on the bytes of every written file and checks it) and, for the
fixpoint, that an end line which already carries the number `i` is left alone by `_event_footer` (`hsub`, checked
likewise).  `Props/C06/Text.lean` discharges `ObsOK`, the format sniffing and `hsub` for the real `analyse` on the written
TEXT (`C06_oscar_text`, `C06_jetscape_text`) from one formatting contract `Wr.FmtContract` and decidable side conditions on
the copied lines.

Histories.  `Tagged R` is the specification side: the events held, each tagged with the position in the input file of
the event it came from (ghost `origin`); `runTagged ops` applies ANY list of filter steps (`Op.part p` for every
particle-level filter and argument, `Op.evcut q` for every event-removing cut) — the theorems quantify over all of them.

Partial.  For Oscar the theorems exclude histories that remove every event (`runTagged ops tg ≠ []`): the writer then
emits the three header lines only, which no Oscar reader accepts (`oscar_nothing_left_not_readable`); the full
statement is `C06_oscar_full`.  JETSCAPE has no such exclusion.
-/
import SparkxVerif.Lemmas.WriterVals

set_option linter.unusedSimpArgs false
set_option linter.unusedVariables false

namespace SparkxVerif.C06
open SparkxVerif.Rd SparkxVerif.Wr SparkxVerif.Gen.WriterTables

variable {R V : Type}

/-! ### tie T : what the code says now -/

/-- the writer rules the theorems below are about (false on the unrepaired tree: `stored` labels, `byLabel` end
lines, "Event 0") -/
theorem rules_repaired :
    oscarLabelMulti = .pos 0 ∧ oscarLabelSingle = .pos 0 ∧ oscarFooterRule = .own ∧ footerSubstIndex = some 2
      ∧ zeroNeedsNoOrigin = true ∧ extFirstEventOnly = false ∧ oscarHasOrigin = true ∧ cutsKeepMetadata = true
      ∧ originFromLoader = true ∧ jetscapeLabelMulti = .pos 1 ∧ jetscapeLabelSingle = .pos 1 := by decide

/-- column `j` written = column `j` read, same cast, `%d` exactly on the integer columns (all fixed formats) -/
theorem columns_match_reader :
    oscarColsBase.map (fun ca => readMapOscar2013.lookup ca.2) = (List.range' 0 12).map some
      ∧ fmtOscar2013.map castOf = oscarColsBase.map (·.1)
      ∧ (∀ k, k ≤ 2 → (oscarColsBase ++ oscarColsExt ++ oscarColsOpt.take k).map (fun ca => readMapExtended.lookup ca.2)
            = (List.range' 0 (20 + k)).map some)
      ∧ (∀ k, k ≤ 2 → (fmtExtended20 ++ List.replicate k fmtExtensionSpec).map castOf
            = (oscarColsBase ++ oscarColsExt ++ oscarColsOpt.take k).map (·.1))
      ∧ jetscapeCols.map (fun ca => readMapJetscape.lookup ca.2) = (List.range' 0 7).map some
      ∧ fmtJetscape.map castOf = jetscapeCols.map (·.1) :=
  ⟨t_read_2013, t_pair_2013, t_read_ext, t_pair_ext, t_read_jet, t_pair_jet⟩

/-- every column an ASCII header can name has a `format_map` entry, read back with `Particle`'s cast for it
(fails with the witnesses `E`, `t_last_coll` while `format_map` is keyed by `p0`, `time_last_coll`) -/
theorem format_map_total : ∀ a ∈ attrMap.map (·.2), (formatMap.lookup a).map castOf = some (readCast a) := t_format_map

/-! ### the state of an object as loaded -/

/-- `Oscar(file, …)`: the constructor leaves the invariant, with the tags = the loader's record of the events kept.
(The hypotheses are what the readers deliver for a loadable file — C01/C02 — and what `oscar_read_written` delivers
for a written one.) -/
theorem inv_init (vals : PLine → List V) (n : Nat) (L : Loaded) (f : FileF) (kept : List Nat) (fmt : Fmt)
    (hfmt : L.fmt = some fmt) (hne : L.events ≠ []) (hk : kept.length = L.events.length)
    (hnum : L.numEvents = L.events.length) (hc : ∃ first, L.counts = .arr2d (relabelRows first 0 L.events))
    (hlt : ∀ k ∈ kept, k < L.footers.length) (hcols : ∀ ev ∈ L.events, ∀ p ∈ ev, (vals p).length = n) :
    ∃ o, oscarOfLoaded L f kept = .ok o ∧ Inv vals n o (kept.zip L.events)
      ∧ o.endLines = L.footers ∧ o.fmt = fmt ∧ o.attrs = L.customAttrs ∧ o.header = (f.lines.take 3).map (·.raw) := by
  refine ⟨_, by simp only [oscarOfLoaded, hfmt, originFromLoader, oscarHasOrigin, ↓reduceIte]; rfl, ?_, rfl, rfl, rfl,
    rfl⟩
  have hz1 : (kept.zip L.events).map (·.1) = kept := by
    rw [List.map_fst_zip]; omega
  have hz2 : (kept.zip L.events).map (·.2) = L.events := by
    rw [List.map_snd_zip]; omega
  refine ⟨?_, hz2.symm, hz1.symm, hz1.symm, ?_, hc, ?_, ?_⟩
  · intro h
    have := congrArg List.length h
    simp only [List.length_zip, List.length_nil] at this
    have : L.events.length = 0 := by omega
    exact hne (List.eq_nil_of_length_eq_zero this)
  · simp only [hnum, List.length_zip]; congr 1; omega
  · intro t ht; exact hlt t.1 (List.of_mem_zip ht).1
  · intro t ht; exact hcols t.2 (List.of_mem_zip ht).2

/-! ### C06 for Oscar -/

/-- a row read back and formatted again is the same row (`H_idem` lifted to rows; instances below) -/
def RowRT (c : Codec V) (specs : List Spec) (n : Nat) (vals2 : PLine → List V) : Prop :=
  ∀ (ln : Nat) (vs : List V), vs.length = n →
    cellsOf c specs (vals2 ⟨ln, cellsOf c specs vs⟩) = cellsOf c specs vs ∧ (vals2 ⟨ln, cellsOf c specs vs⟩).length = n

theorem rowRT_oscar2013 (c : Codec V) (hid : Hidem c) (attrs : List String) (custom : List Spec) :
    RowRT c (specsOf .oscar2013 custom 12) 12 (oscarValsD c .oscar2013 attrs) :=
  fun ln vs h => oscar2013_roundtrip c hid attrs custom ln vs h

theorem rowRT_extended (c : Codec V) (hid : Hidem c) (attrs : List String) (custom : List Spec) (k : Nat) (hk : k ≤ 2) :
    RowRT c (specsOf .extended custom (20 + k)) (20 + k) (oscarValsD c .extended attrs) :=
  fun ln vs h => extended_roundtrip c hid attrs custom ln k hk vs h

theorem rowRT_ascii (c : Codec V) (hid : Hidem c) (attrs : List String) (custom : List Spec) (hnd : attrs.Nodup)
    (hsub : ∀ a ∈ attrs, a ∈ attrMap.map (·.2)) (hc : oscarCustom .ascii attrs = .ok custom) :
    RowRT c (specsOf .ascii custom attrs.length) attrs.length (oscarValsD c .ascii attrs) :=
  fun ln vs h => ascii_roundtrip c hid attrs custom ln hnd hsub hc vs h

theorem rowRT_jetscape (c : Codec V) (hid : Hidem c) : RowRT c fmtJetscape 7 (jetValsD c) :=
  fun ln vs h => jet_roundtrip c hid ln vs h

theorem rows_of_strip (c : Codec V) (specs : List Spec) (n : Nat) (vals : R → List V) (vals2 : PLine → List V)
    (hrt : RowRT c specs n vals2) (events : List (List R)) (hcols : ∀ ev ∈ events, ∀ r ∈ ev, (vals r).length = n)
    (evs : List (List PLine)) (hs : strip evs = events.map (fun ev => ev.map (fun r => cellsOf c specs (vals r)))) :
    ∀ ev ∈ evs, ∀ p ∈ ev, cellsOf c specs (vals2 p) = p.toks ∧ (vals2 p).length = n := by
  intro ev hev p hp
  have h1 : ev.map (·.toks) ∈ strip evs := by simp only [strip, List.mem_map]; exact ⟨ev, hev, rfl⟩
  rw [hs] at h1
  simp only [List.mem_map] at h1
  obtain ⟨ev0, hev0, he⟩ := h1
  have h2 : p.toks ∈ ev.map (·.toks) := by simp only [List.mem_map]; exact ⟨p, hp, rfl⟩
  rw [← he] at h2
  simp only [List.mem_map] at h2
  obtain ⟨r, hr, hrp⟩ := h2
  have := hrt p.lineNo (vals r) (hcols ev0 hev0 r hr)
  rw [hrp] at this
  exact this

/-- **C06, Oscar (all loads, all filter histories that leave an event).**
Let `o0` be an Oscar object as loaded (`Inv … o0 tg0`: whole file, one event, a range, with or without constructor
filters — `tg0` pairs every held event with its position in the input file) and `ops` ANY history of filter methods
after which at least one event is left.  Then the bookkeeping succeeds (`o0.run ops = ok o`), the writer succeeds and
writes `lines`, and for every observation `obs` of those lines (hypotheses `ObsOK`, `hfmt`, `hsub`):

* *read ∘ write*: the reader accepts the file; it returns exactly the held events (`tg`), every particle as the cells
  `fmt(spec_j, value_j)` of its columns — so the numbers read back are `parse ∘ fmt` of the originals, column by
  column; one event per held event with the same per-event counts; and as end lines **each held event's own end line**
  (`o0.endLines[tag]`, tag = position in the input file of the event it came from) carrying its new number;
* *fixpoint*: the object `Oscar(written file)` is built, and writing it (with any `vals2` satisfying `RowRT`, e.g. the
  real `_particle_as_list ∘ Particle` under `Hidem`, see `rowRT_*`) gives the same lines again. -/
theorem C06_oscar_partial (c : Codec V) (vals : R → List V) (vals2 : PLine → List V) (custom : List Spec) (n : Nat)
    (o0 : OscarObj R) (tg0 : Tagged R) (hinv : Inv vals n o0 tg0)
    (hfmt0 : o0.fmt = .oscar2013 ∨ o0.fmt = .extended ∨ o0.fmt = .ascii)
    (hcustom : oscarCustom o0.fmt o0.attrs = .ok custom) (hlen : (specsOf o0.fmt custom n).length = n)
    (hrt : RowRT c (specsOf o0.fmt custom n) n vals2)
    (h0 h1 h2 : String) (hh : o0.header = [h0, h1, h2])
    (ops : List (Op R)) (hleft : runTagged ops tg0 ≠ []) :
    ∃ o, o0.run ops = .ok o ∧
      let tg := runTagged ops tg0
      let specs := specsOf o0.fmt custom n
      let lines := oscarSpecLines c vals custom n o
      writeOscarK c vals o = .ok lines ∧
      ∀ (obs : String → LineF) (nl : Bool), ObsOK obs o0.fmt o0.attrs false lines →
        oscarFormat (obs h0) = .ok (o0.fmt, o0.attrs) →
        (∀ i, i < tg.length → substLabel 2 i (footOf o i) = footOf o i) →
        let f2 : FileF := ⟨lines.map (fun t => obs t.text), nl⟩
        ∃ L o2, readOscar f2 .all none = .ok L
          ∧ strip L.events = tg.map (fun t => t.2.map (fun r => cellsOf c specs (vals r)))
          ∧ L.numEvents = tg.length
          ∧ L.counts = .arr2d (relabelRows 0 0 (tg.map (·.2)))
          ∧ L.fmt = some o0.fmt ∧ L.customAttrs = o0.attrs
          ∧ L.footers = (List.range' 0 tg.length).map
              (fun (i : Nat) => substLabel 2 (i : Int) (o0.endLines.getD ((tg.map (·.1)).getD i 0) ""))
          ∧ oscarOfLoaded L f2 (keptIndices f2 .all none) = .ok o2
          ∧ writeOscarK c vals2 o2 = .ok lines := by
  obtain ⟨o, hrun, hi, e1, e2, e3, e4⟩ := run_inv vals n ops o0 tg0 hinv hleft
  have wf : OscarWF vals custom n o :=
    inv_wf vals custom n o _ hi (by rw [e2]; exact hfmt0) (by rw [e2, e3]; exact hcustom) (by rw [e2]; exact hlen)
  refine ⟨o, hrun, ?_⟩
  intro tg specs lines
  have hw := writeOscarK_ok c vals custom n o wf
  refine ⟨hw, ?_⟩
  intro obs nl hobs hfmt hsub f2
  have hlenT : o.events.length = tg.length := by rw [hi.events]; simp [tg]
  rw [← e2, ← e3] at hobs hfmt
  have hh' : o.header = [h0, h1, h2] := by rw [e4]; exact hh
  obtain ⟨L, o2, hr, ho2, hfix⟩ := oscar_write_fixpoint c vals custom n o wf h0 h1 h2 hh' obs nl hobs hfmt
    (fun i hi' => hsub i (by omega))
  obtain ⟨evs, hr', hs⟩ := oscar_read_written c vals custom n o wf h0 h1 h2 hh' obs nl hobs hfmt
  have hL : L = _ := Except.ok.inj (hr.symm.trans hr')
  have hev2 : o2.events = evs := by
    have := ho2
    simp only [hL, oscarOfLoaded, originFromLoader, oscarHasOrigin, ↓reduceIte, Except.ok.injEq] at this
    rw [← this]
  have hrows := rows_of_strip c (specsOf o.fmt custom n) n vals vals2 (by rw [e2]; exact hrt) o.events wf.cols evs hs
  obtain ⟨_, hfx⟩ := hfix vals2 (by rw [hev2]; exact hrows)
  refine ⟨L, o2, hr, ?_, ?_, ?_, ?_, ?_, ?_, ho2, ?_⟩
  · rw [hL]; simp only; rw [hs, hi.events]; simp [specs, e2, tg, List.map_map, Function.comp_def]
  · rw [hL]; simp only; rw [hlenT]
  · rw [hL]; simp only; rw [hi.events]
  · rw [hL]; simp only; rw [e2]
  · rw [hL]; simp only; rw [e3]
  · rw [hL]; simp only; rw [hlenT]
    apply List.map_congr_left
    intro i _
    simp only [footOf, hi.origin, e1, tg]
  · rw [hfx, hw]

/-- the full statement (no exclusion); not provable for the Oscar format — see `oscar_nothing_left_not_readable` -/
def C06_oscar_full : Prop :=
  ∀ (V R : Type) (c : Codec V) (vals : R → List V) (custom : List Spec) (n : Nat) (o0 : OscarObj R) (tg0 : Tagged R),
    Inv vals n o0 tg0 → ∀ ops : List (Op R), ∃ o lines, o0.run ops = .ok o ∧ writeOscarK c vals o = .ok lines ∧
      ∀ (obs : String → LineF) (nl : Bool), ObsOK obs o0.fmt o0.attrs false lines →
        ∃ L, readOscar ⟨lines.map (fun t => obs t.text), nl⟩ .all none = .ok L
          ∧ L.numEvents = (runTagged ops tg0).length

/-- witness for the exclusion: a file consisting of the three header lines (what is written when no event is
left) is rejected by the Oscar reader as soon as its last line is not an `# event …` line -/
theorem oscar_nothing_left_not_readable (l0 l1 l2 : LineF) (nl : Bool) (fmt : Fmt) (attrs : List String)
    (hf : oscarFormat l0 = .ok (fmt, attrs)) (hf1 : fmt ≠ .extendedIC) (hf2 : fmt ≠ .extendedPhotons)
    (h : (l2.toks.getD 0 "" == "#" && l2.toks.contains "event") = false) :
    readOscar ⟨[l0, l1, l2], nl⟩ .all none = .error .type := by
  have hfe : (fmt == Fmt.extendedIC || fmt == Fmt.extendedPhotons) = false := by cases fmt <;> simp_all
  have hnum : oscarNumEvents ⟨[l0, l1, l2], nl⟩ = .error .type := by
    simp only [oscarNumEvents, lastLine, List.getLast?_cons_cons, List.getLast?_singleton, List.length_cons,
      List.length_nil, bind, Except.bind]
    have h3 : ¬ (0 + 1 + 1 + 1 < 2) := by omega
    simp only [h3, ↓reduceIte, h, Bool.false_eq_true]
  simp [readOscar, validSel, hf, hfe, hnum, bind, Except.bind, pure, Except.pure]

/-! ### C06 for JETSCAPE (no exclusion) -/

/-- **C06, JETSCAPE (all loads, ALL filter histories).**  For a Jetscape object as loaded and any history of filter
methods (also one that removes every event: the object then holds the placeholder event `[[]]`, which is written as
`Event 1 … 0` and read back as the same placeholder): the writer succeeds; the reader accepts the file and returns
the held events (cells = `fmt` of the values, column by column), one event per held event, the same per-event counts,
numbers 1, 2, …; the trailer (`sigmaGen`) and first line are the original ones; and writing the re-read object gives
the same lines. -/
theorem C06_jetscape (c : Codec V) (vals : R → List V) (vals2 : PLine → List V) (j0 : JetObj R) (wf0 : JetWF vals j0)
    (hrt : RowRT c fmtJetscape 7 vals2) (partons : Bool)
    (hdef : j0.defStr = if partons then "N_partons" else "N_hadrons")
    (hstrip : pyStrip j0.lastLine = j0.lastLine) (ops : List (Op R)) :
    ∃ j, j0.run ops = .ok j ∧ j.events = ops.foldl (fun e op => applyOp op e) j0.events ∧
      let lines := jetSpecLines c vals j
      writeJetscapeK c vals j = .ok lines ∧
      ∀ (obs : String → LineF) (nl : Bool), ObsOK obs .oscar2013 [] partons lines →
        let f2 : FileF := ⟨lines.map (fun t => obs t.text), nl⟩
        ∃ L j2, readJetscape f2 .all partons none = .ok L
          ∧ strip L.events = j.events.map (fun ev => ev.map (fun r => cellsOf c fmtJetscape (vals r)))
          ∧ L.numEvents = j.events.length
          ∧ L.counts = .arr2d (relabelRows 1 0 j.events)
          ∧ jetOfLoaded L f2 partons = .ok j2
          ∧ j2.lastLine = j0.lastLine ∧ j2.headerLine = j0.headerLine
          ∧ writeJetscapeK c vals2 j2 = .ok lines := by
  obtain ⟨j, hrun, wf, hev, d1, d2, d3⟩ := jet_run_wf vals ops j0 wf0
  refine ⟨j, hrun, hev, ?_⟩
  intro lines
  have hw := writeJetscapeK_ok c vals j wf
  refine ⟨hw, ?_⟩
  intro obs nl hobs f2
  obtain ⟨L, j2, hr, hj2, hl1, hl2, hfix⟩ := jet_write_fixpoint c vals j wf obs partons nl (by rw [d1]; exact hdef) hobs
    (by rw [d3]; exact hstrip)
  obtain ⟨evs, hr', hs⟩ := jet_read_written c vals j wf obs partons nl hobs
  have hL : L = _ := Except.ok.inj (hr.symm.trans hr')
  have hcols7 : ∀ ev ∈ j.events, ∀ r ∈ ev, (vals r).length = 7 := by
    intro ev hev' r hr''; have := wf.cols ev hev' r hr''; simpa [fmtJetscape] using this
  have hrows := rows_of_strip c fmtJetscape 7 vals vals2 hrt j.events hcols7 evs hs
  have hev2 : j2.events = evs := by
    have := hj2
    simp only [hL, jetOfLoaded] at this
    split at this
    · simp only [Except.ok.injEq] at this; rw [← this]
    · simp at this
  obtain ⟨_, hfx⟩ := hfix vals2 (by
    rw [hev2]; intro ev hev' p hp
    have := hrows ev hev' p hp
    exact ⟨this.1, by rw [this.2]; rfl⟩)
  refine ⟨L, j2, hr, ?_, ?_, ?_, hj2, by rw [hl1, d3], by rw [hl2, d2], by rw [hfx, hw]⟩
  · rw [hL]; exact hs
  · rw [hL]
  · rw [hL]

/-! ### the hypotheses are satisfiable, the conclusions non-trivial (concrete objects) -/

section examples

/-- a codec on strings: values are their own text (`%g` of a number already printed is the same text) -/
def idCodec : Codec String := { parse := fun _ t => t, fmt := fun _ v => v }

example : Hidem idCodec := fun _ _ => rfl

/-- an Oscar2013 object holding events 1 and 3 of a four-event file (event 2 was removed by a cut) -/
def exRow (k : String) : List String := [k, "0", "0", "0", "0.138", "1", "0", "0", "1", "211", "7", "1"]

def exObj : OscarObj (List String) :=
  { events := [[exRow "1.5"], []], numEvents := 2, counts := .arr2d [(0, 1), (1, 0)], fmt := .oscar2013, attrs := [],
    endLines := ["# event 0 end 0 impact 0.0", "# event 1 end 0 impact 1.0", "# event 2 end 0 impact 2.0",
                 "# event 3 end 0 impact 3.0"],
    lastEndNoNL := false, origin := [1, 3], impactIdx := [1, 3],
    header := ["#!OSCAR2013 particle_lists t x y z mass p0 px py pz pdg ID charge", "# Units: …", "# SMASH"] }

example : Inv (fun r => r) 12 exObj [(1, [exRow "1.5"]), (3, [])] :=
  ⟨by simp, rfl, rfl, rfl, rfl, ⟨0, rfl⟩, by decide, by decide⟩

/-- the event-removing cut keeps the tags (ghost origins) of the survivors: events 1 and 3 of the file -/
example : runTagged [Op.evcut (fun ev => ev.length < 2)]
    [(0, [exRow "a", exRow "b"]), (1, [exRow "1.5"]), (2, [exRow "c", exRow "d"]), (3, ([] : List (List String)))]
    = [(1, [exRow "1.5"]), (3, [])] := by decide

/-- what is written: both events with their OWN end lines (impact 1.0 and 3.0), numbered 0 and 1 -/
example : (writeOscarK idCodec (fun r => r) exObj).toOption.map (fun ls => ls.map (·.kind)) =
    some [.hdr, .hdr, .hdr, .out 0 1, .part (exRow "1.5"), .endl 0, .out 1 0, .endl 1] := by decide

end examples

end SparkxVerif.C06
