/-
C09 — Histogram bins count exactly the values in [left, right).

Property theorems only (helper lemmas: `Lemmas/Histogram.lean`).  The model (`Core/Histogram.lean`) is
the one the driver runs at `Float` against the real `sparkx.Histogram`; here it is instantiated at an
arbitrary linearly ordered field `K`.  `sqrt` is a parameter (`np.sqrt`), constrained only where the
statement needs `sqrt x · sqrt x = x`.

How the English is rendered:
* "after any sequence of add_value calls … all interleavings of filling and scaling": `bin_content`
  quantifies over every list of calls built from `add_value` (scalar / list, no / scalar / list weight,
  NaN anywhere), `scale_histogram` (number / list, valid or rejected), `statistical_error`,
  `add_histogram`, from the freshly constructed object; `bin_content_from` is the same from any
  well-shaped state (so also after `make_density`, whose effect is `density`).
* "content of bin i equals the (weighted) number of added values v with edge_i ≤ v < edge_{i+1}":
  `closedContent` / `closedRaw` (Core) = Σ over the fills (v, w) of the calls since the last
  `add_histogram` with `inBin edges i v` of `w · Π (factors of later scale calls)`; `in_bin_iff` says
  `inBin` is literally `edge_i ≤ v ∧ v < edge_{i+1}`.
-/
import SparkxVerif.Lemmas.Histogram
import Mathlib.Tactic.NormNum
import Mathlib.Data.Rat.Defs
import Mathlib.Algebra.Order.Field.Rat

set_option linter.unusedSectionVars false

namespace SparkxVerif.C09
open SparkxVerif.Hist

section field
variable {K : Type} [Field K] [LinearOrder K] [IsStrictOrderedRing K]

/-- `inBin edges i v` is `edge_i ≤ v < edge_{i+1}` -/
theorem in_bin_iff (edges : List K) (i : Nat) (hi : i + 1 < edges.length) (v : K) :
    inBin edges i v = true ↔ edges[i] ≤ v ∧ v < edges[i + 1] := by
  rw [inBin_iff]
  have h1 : edges[i]? = some edges[i] := List.getElem?_eq_getElem (by omega)
  have h2 : edges[i + 1]? = some edges[i + 1] := List.getElem?_eq_getElem hi
  constructor
  · rintro ⟨a, b, ha, hb, h⟩
    rw [h1] at ha; rw [h2] at hb
    simp only [Option.some.injEq] at ha hb
    subst ha; subst hb; exact h
  · intro h; exact ⟨_, _, h1, h2, h⟩

/-- **C09, bin contents.** For every strictly increasing list of edges and every history of
`add_value` / `scale_histogram` / `statistical_error` / `add_histogram` calls on a new histogram
(including calls that raise), bin `i` of the current histogram holds
`Σ_{fills (v,w) since the last add_histogram, edge_i ≤ v < edge_{i+1}} w · Π later scale factors`,
and its raw count holds `Σ w` over the same fills. -/
theorem bin_content (sqrt : K → K) (edges : List K) (hne : edges ≠ []) (hsort : edges.Pairwise (· < ·))
    (ops : List (Op K)) (hops : ∀ op ∈ ops, FillScale op ∨ op = .addHist)
    (i : Nat) (hi : i < edges.length - 1) :
    cell (run sqrt (init edges) ops).hist i
        = closedContent edges (edges.length - 1) i (sinceLastAddHist ops) ∧
    cell (run sqrt (init edges) ops).raw i = closedRaw edges i (sinceLastAddHist ops) := by
  obtain ⟨_, _, _, h⟩ := run_fragment sqrt ops (init_shape edges hne) (s := init edges) hsort hops
  obtain ⟨h1, h2⟩ := h i hi
  rw [(init_cell edges i).1] at h1
  rw [(init_cell edges i).2] at h2
  constructor
  · rw [h1]; simp [init]
  · rw [h2]; simp [init]

/-- the same from any well-shaped state `s` with increasing edges (e.g. the state after `make_density`):
the old content is multiplied by the later scale factors, the new fills are added on top; the shape and
the binning are kept. -/
theorem bin_content_from (sqrt : K → K) (s : State K) (hs : Shape s) (hsort : s.edges.Pairwise (· < ·))
    (ops : List (Op K)) (hops : ∀ op ∈ ops, FillScale op) (i : Nat) (hi : i < s.nBins) :
    Shape (run sqrt s ops) ∧ (run sqrt s ops).edges = s.edges ∧
    cell (run sqrt s ops).hist i
        = cell s.hist i * scaleProd s.nBins i ops + closedContent s.edges s.nBins i ops ∧
    cell (run sqrt s ops).raw i = cell s.raw i + closedRaw s.edges i ops := by
  have h := run_cstep sqrt ops hs hsort hops
  exact ⟨h.shape, h.edges, h.hist i hi, h.raw i hi⟩

/-- one `add_value(v, weight=w)`: bin `i` grows by `w` exactly when `edge_i ≤ v < edge_{i+1}` -/
theorem add_value_bin (sqrt : K → K) (s : State K) (hs : Shape s) (hsort : s.edges.Pairwise (· < ·))
    (v w : K) (i : Nat) (hi : i < s.nBins) :
    cell (step sqrt s (.fill (some v) (some (some w)))).1.hist i
      = cell s.hist i + (if inBin s.edges i v = true then w else 0) :=
  (fillCore_cell hs hsort v w i hi).1

/-- values outside `[first edge, last edge)` — in particular the last edge itself — change nothing -/
theorem outside_noop (sqrt : K → K) (s : State K) (hs : Shape s) (hsort : s.edges.Pairwise (· < ·))
    (v : K) (w : Option K) (a b : K) (ha : s.edges[0]? = some a) (hb : s.edges[s.nBins]? = some b)
    (hout : v < a ∨ b ≤ v) :
    step sqrt s (.fill (some v) (w.map some)) = (s, none) := by
  have hpw := List.pairwise_iff_getElem.mp hsort
  have hlen := hs.edges
  have hcore : ∀ x : K, fillCore s v x = s := by
    intro x
    unfold fillCore
    simp only
    rw [if_pos]
    rcases hout with h | h
    · left
      apply digitize_eq_zero_of_lt
      intro e he
      obtain ⟨j, hj, rfl⟩ := List.mem_iff_getElem.mp he
      have h0 : s.edges[0]'(by omega) = a := by
        have := List.getElem?_eq_getElem (l := s.edges) (i := 0) (by omega)
        rw [this] at ha; exact Option.some.inj ha
      rcases Nat.eq_zero_or_pos j with rfl | hjp
      · rw [h0]; exact h
      · exact lt_trans (h0 ▸ h) (hpw 0 j (by omega) hj hjp)
    · right
      have : digitize s.edges v = s.edges.length := by
        apply digitize_eq_length_of_le
        intro e he
        obtain ⟨j, hj, rfl⟩ := List.mem_iff_getElem.mp he
        have hn : s.edges[s.nBins]'(by omega) = b := by
          have := List.getElem?_eq_getElem (l := s.edges) (i := s.nBins) (by omega)
          rw [this] at hb; exact Option.some.inj hb
        rcases Nat.lt_or_ge j s.nBins with hjl | hjl
        · exact le_trans (le_of_lt (hpw j s.nBins hj (by omega) hjl)) (hn ▸ h)
        · have : j = s.nBins := by omega
          subst this; rw [hn]; exact h
      omega
  cases w with
  | none => simp [step, fill, hcore]
  | some w => simp [step, fill, hcore]

/-- a NaN value is rejected and nothing changes; the same for a list / array containing a NaN -/
theorem nan_rejected (sqrt : K → K) (s : State K) :
    (∀ w, step sqrt s (.fill none w) = (s, some .value)) ∧
    (∀ vs w, none ∈ vs → step sqrt s (.fillList vs w) = (s, some .value)) := by
  constructor
  · intro w
    cases w with
    | none => rfl
    | some w => cases w <;> rfl
  · intro vs w hmem
    have hn : allSome vs = none := by
      induction vs with
      | nil => simp at hmem
      | cons x xs ih =>
        cases x with
        | none => rfl
        | some x =>
          have : none ∈ xs := by simpa using hmem
          simp [allSome, ih this]
    cases w with
    | none => simp [step, fillList, hn]
    | scalar w => rfl
    | list ws =>
      simp only [step, fillList, hn]
      split <;> rfl

/-- bin centres, widths and bounds agree with the edges -/
theorem geometry (edges : List K) (i : Nat) (hi : i + 1 < edges.length) :
    (centers edges)[i]? = some ((edges[i] + edges[i + 1]) / 2) ∧
    (widths edges)[i]? = some (edges[i + 1] - edges[i]) ∧
    (boundsLeft edges)[i]? = some edges[i] ∧
    (boundsRight edges)[i]? = some edges[i + 1] ∧
    (centers edges).length = edges.length - 1 ∧ (widths edges).length = edges.length - 1 ∧
    (boundsLeft edges).length = edges.length - 1 ∧ (boundsRight edges).length = edges.length - 1 := by
  refine ⟨centers_getElem? edges i hi, widths_getElem? edges i hi, ?_, ?_, centers_length edges,
    widths_length edges, by simp [boundsLeft], by simp [boundsRight]⟩
  · simp only [boundsLeft, List.getElem?_dropLast]
    rw [if_pos (by omega)]; exact List.getElem?_eq_getElem (by omega)
  · simp only [boundsRight, List.getElem?_tail]
    exact List.getElem?_eq_getElem hi

/-- uniform binning `(lo, hi, n)`: the edges `lo + i·(hi−lo)/n` are strictly increasing (so every
theorem here applies to them), start at `lo`, and all widths are `(hi−lo)/n` -/
theorem uniform_edges (lo hi : K) (h : lo < hi) (n : Nat) (hn : 0 < n) :
    (linspace lo hi n).Pairwise (· < ·) ∧ (linspace lo hi n).length = n + 1 ∧
    ∀ x ∈ widths (linspace lo hi n), x = (hi - lo) / n := by
  have hstep : 0 < (hi - lo) / (n : K) := div_pos (by linarith) (by exact_mod_cast hn)
  refine ⟨?_, by simp [linspace], ?_⟩
  · unfold linspace
    rw [List.pairwise_map]
    refine List.Pairwise.imp ?_ List.pairwise_lt_range
    intro a b hab
    have : (a : K) < (b : K) := by exact_mod_cast hab
    nlinarith
  · intro x hx
    obtain ⟨i, hi', rfl⟩ := List.mem_iff_getElem.mp hx
    have hlen : (linspace lo hi n).length = n + 1 := by simp [linspace]
    rw [widths_length] at hi'
    have := widths_getElem? (linspace lo hi n) i (by omega)
    rw [List.getElem?_eq_getElem (by rw [widths_length]; omega)] at this
    rw [Option.some.inj this]
    simp only [linspace, List.getElem_map, List.getElem_range]
    push_cast
    ring

/-- `scale_histogram(c)`, `c ≥ 0`: contents and errors of the current histogram are multiplied by `c`,
raw counts and the earlier histograms are untouched -/
theorem scale_spec (sqrt : K → K) (s : State K) (hs : Shape s) (c : K) (hc : 0 ≤ c) :
    let r := step sqrt s (.scale c)
    r.2 = none ∧ lastRow r.1.hist = (lastRow s.hist).map (· * c) ∧
    lastRow r.1.err = (lastRow s.err).map (· * c) ∧ r.1.raw = s.raw ∧
    r.1.hist.dropLast = s.hist.dropLast ∧ r.1.err.dropLast = s.err.dropLast := by
  simp only [step, scale, zero_eq, not_lt.mpr hc, if_false]
  exact ⟨trivial, lastRow_modifyLast _ (hs.hist.ne_nil hs.nh), lastRow_modifyLast _ (hs.err.ne_nil hs.nh), trivial,
    dropLast_modifyLast _ _, dropLast_modifyLast _ _⟩

/-- `scale_histogram([c_0, …])` with one non-negative factor per bin: bin `i` and its error are multiplied
by `c_i`, raw counts untouched -/
theorem scale_list_spec (sqrt : K → K) (s : State K) (hs : Shape s) (cs : List K)
    (hc : ∀ c ∈ cs, 0 ≤ c) (hl : cs.length = s.nBins) :
    let r := step sqrt s (.scaleList cs)
    r.2 = none ∧ lastRow r.1.hist = mulRow (lastRow s.hist) cs ∧
    lastRow r.1.err = mulRow (lastRow s.err) cs ∧ r.1.raw = s.raw ∧
    r.1.hist.dropLast = s.hist.dropLast ∧ r.1.err.dropLast = s.err.dropLast := by
  simp only [step, scaleList_eq hs cs hc hl]
  exact ⟨trivial, lastRow_modifyLast _ (hs.hist.ne_nil hs.nh), lastRow_modifyLast _ (hs.err.ne_nil hs.nh), trivial,
    dropLast_modifyLast _ _, dropLast_modifyLast _ _⟩

/-- a negative factor is rejected and nothing changes -/
theorem scale_negative_rejected (sqrt : K → K) (s : State K) (c : K) (hc : c < 0) :
    step sqrt s (.scale c) = (s, some .value) := by
  simp [step, scale, hc]

/-- `statistical_error()`: the error of every bin of every histogram becomes the square root of its content
(contents untouched); with `sqrt x · sqrt x = x` on `x ≥ 0` its square is the content -/
theorem stat_err_spec (sqrt : K → K) (s : State K) (hs : Shape s) :
    let r := step sqrt s .statErr
    r.2 = none ∧ r.1.err = s.hist.map (fun row => row.map sqrt) ∧ r.1.hist = s.hist ∧ r.1.raw = s.raw ∧
    ((∀ x : K, 0 ≤ x → sqrt x * sqrt x = x) →
      ∀ (h i : Nat) (x : K), (s.hist[h]?.bind (fun (row : List K) => row[i]?)) = some x → 0 ≤ x →
        ∃ e, (r.1.err[h]?.bind (fun (row : List K) => row[i]?)) = some e ∧ e * e = x) := by
  simp only [step, statErr_eq sqrt hs]
  refine ⟨trivial, trivial, trivial, trivial, ?_⟩
  intro hsq h i x hx hx0
  refine ⟨sqrt x, ?_, hsq x hx0⟩
  simp only [List.getElem?_map]
  cases hrow : s.hist[h]? with
  | none => simp [hrow] at hx
  | some row =>
    simp only [hrow, Option.bind_some] at hx
    simp [hx]

/-- **C09, density.** On a current histogram of positive total content `make_density()` succeeds, bin `i`
becomes `content_i / (total · width_i)` and the integral `Σ_i content_i · width_i` over the binned range is 1 -/
theorem density (sqrt : K → K) (s : State K) (hs : Shape s) (hsort : s.edges.Pairwise (· < ·))
    (hpos : 0 < (lastRow s.hist).sum) :
    let r := step sqrt s .makeDensity
    r.2 = none ∧ Shape r.1 ∧ r.1.edges = s.edges ∧
    (∀ i, i < s.nBins →
      cell r.1.hist i = cell s.hist i / ((lastRow s.hist).sum * (widths s.edges).getD i 1)) ∧
    (List.zipWith (· * ·) (lastRow r.1.hist) (widths r.1.edges)).sum = 1 := by
  obtain ⟨h1, h2, h3, _, h5, h6⟩ := makeDensity_spec sqrt hs hsort hpos
  refine ⟨h1, h2, h3, ?_, ?_⟩
  · intro i hi
    have hl := hs.hist.lastRow_length hs.nh
    have hwl : (widths s.edges).length = s.nBins := by rw [widths_length, hs.edges]; omega
    show (lastRow (makeDensity sqrt s).1.hist).getD i 0 = _
    rw [h5, getD_mulRow _ _ _ (by simp [hl, hwl])]
    have hw : (widths s.edges)[i]? = some ((widths s.edges)[i]'(by omega)) := List.getElem?_eq_getElem (by omega)
    have hmem : (widths s.edges)[i]'(by omega) ∈ widths s.edges := List.getElem_mem _
    have hwpos := widths_pos hsort _ hmem
    simp only [cell, List.getD_eq_getElem?_getD, List.getElem?_map, hw, Option.map_some, Option.getD_some]
    field_simp
  · show (List.zipWith (· * ·) (lastRow (makeDensity sqrt s).1.hist) (widths (makeDensity sqrt s).1.edges)).sum = 1
    rw [h3]; exact h6

/-- an empty current histogram has no density: `make_density()` raises and changes nothing -/
theorem density_zero_rejected (sqrt : K → K) (s : State K) (hs : Shape s) (hsort : s.edges.Pairwise (· < ·))
    (hz : (lastRow s.hist).sum = 0) : step sqrt s .makeDensity = (s, some .value) :=
  makeDensity_zero sqrt hs hsort hz

end field

/-! ### Witness for the defect repaired by proposed_fixes/C09-1 (monitor, not part of the property):
the former `make_density` (scalar factor `1/Σ content`) on edges `[0,1,3]` with one value in each bin
gives the integral `3/2`. -/

theorem legacy_density_witness :
    let s := (makeDensityLegacy (fun x : ℚ => x)
      (run (fun x => x) (init [0, 1, 3]) [.fill (some (1/2)) none, .fill (some 2) none])).1
    (List.zipWith (· * ·) (lastRow s.hist) (widths s.edges)).sum = 3 / 2 := by
  decide +kernel

/-! ### Non-vacuity: the hypotheses are satisfiable and the statements say something on a concrete history -/

example : ([0, 1, 3] : List ℚ).Pairwise (· < ·) ∧ Shape (init ([0, 1, 3] : List ℚ)) :=
  ⟨by decide, init_shape _ (by simp)⟩

/-- edges `[0,1,3]`; fill 1 (on the inner edge → bin 1) with weight 2, scale by 3, fill `[0, 3, 1/2]`
(3 = last edge is ignored), `add_histogram`, fill 2 with weight 5, scale per bin by `[1, 1/2]`:
bin 1 of the current histogram is `5/2`, its raw count `5`. -/
example :
    let ops : List (Op ℚ) := [.fill (some 1) (some (some 2)), .scale 3,
      .fillList [some 0, some 3, some (1/2)] .none, .addHist, .fill (some 2) (some (some 5)),
      .scaleList [1, 1/2]]
    cell (run (fun x => x) (init [0, 1, 3]) ops).hist 1 = 5 / 2 ∧
    closedContent ([0, 1, 3] : List ℚ) 2 1 (sinceLastAddHist ops) = 5 / 2 ∧
    closedRaw ([0, 1, 3] : List ℚ) 1 (sinceLastAddHist ops) = 5 := by
  decide +kernel

/-- the density statement on a concrete state: contents `[1, 3]` on widths `[1, 2]` become `[1/4, 3/8]` -/
example :
    let s := run (fun x : ℚ => x) (init [0, 1, 3]) [.fill (some 0) none, .fill (some 2) (some (some 3))]
    0 < (lastRow s.hist).sum ∧ lastRow (step (fun x => x) s .makeDensity).1.hist = [1/4, 3/8] := by
  decide +kernel

end SparkxVerif.C09
