/-
C17, tie T — the property theorems of `Props/C17.lean` restated about the functions REGENERATED from the current
text of `src/sparkx/Lattice3D.py` (`Gen/Lattice.lean`, namespace `Gen.Lattice3D`), through the equalities
`generated = model` of `Lemmas/LatticeGen.lean`.  Nothing here mentions the hand-written model in its conclusion
except where a model function is the specification side (`Lat.at?`, `IsLowerCorner`, `IsNearest`, `Lat.target`).

Python ints are `Int` in the generated functions; an index the property talks about is the cast of a natural
number, and the theorems say so (`r = (i : Int)`), i.e. the generated searches never answer a negative index.
-/
import SparkxVerif.Props.C17
import SparkxVerif.Lemmas.LatticeGen

set_option linter.unusedSectionVars false
set_option linter.unnecessarySeqFocus false

namespace SparkxVerif.C17
open SparkxVerif.Lattice SparkxVerif.LatticeGen SparkxVerif.LatticeGen.Lat'
open SparkxVerif.Gen

/-! ## 1. index searches -/

section axis
variable {α : Type} [LinearOrder α]

/-- **lower corner, generated `__get_index`** (doubles with NaN): it answers the Python int `r` exactly when `r`
is a natural number `i`, the point is a number and node `i` is the lower corner of the cell containing it -/
theorem gen_lower_corner {xs : List α} (hs : Increasing xs) (v : XVal α) (r : Int) :
    Lattice3D.getIndex v (xs.map XVal.num) = .ok r ↔
      ∃ (i : Nat) (a : α), r = (i : Int) ∧ v = .num a ∧ IsLowerCorner xs a i := by
  rw [getIndex_gen]
  cases h : getIndex (xs.map XVal.num) v with
  | error e =>
    simp only [Except.map, reduceCtorEq, false_iff]
    rintro ⟨i, a, -, ha, hc⟩
    have := (lower_corner hs v i).2 ⟨a, ha, hc⟩
    rw [h] at this; cases this
  | ok n =>
    simp only [Except.map, Except.ok.injEq]
    constructor
    · rintro rfl
      obtain ⟨a, ha, hc⟩ := (lower_corner hs v n).1 h
      exact ⟨n, a, rfl, ha, hc⟩
    · rintro ⟨i, a, rfl, ha, hc⟩
      have := (lower_corner hs v i).2 ⟨a, ha, hc⟩
      rw [h] at this
      injection this with this
      rw [this]; rfl

/-- **reported, not wrapped, generated `__get_index`** -/
theorem gen_no_cell_is_reported {xs : List α} (hs : Increasing xs) (hne : xs ≠ []) (v : XVal α)
    (h : ¬ ∃ a i, v = .num a ∧ IsLowerCorner xs a i) :
    Lattice3D.getIndex v (xs.map XVal.num) = .error .value := by
  rw [getIndex_gen, no_cell_is_reported hs hne v h]; rfl

/-- every point of `[first node, last node]` gets its unique cell from the generated `__get_index` -/
theorem gen_inside_gets_its_cell {xs : List α} (hs : Increasing xs) (hne : xs ≠ []) (v : α)
    (h1 : xs[0]'(List.length_pos_iff.2 hne) ≤ v)
    (h2 : v ≤ xs[xs.length - 1]'(Nat.sub_lt (List.length_pos_iff.2 hne) Nat.one_pos)) :
    ∃ i : Nat, Lattice3D.getIndex v xs = .ok (i : Int) ∧ IsLowerCorner xs v i ∧
      ∀ j, IsLowerCorner xs v j → j = i := by
  obtain ⟨i, hi, hc, hu⟩ := inside_gets_its_cell hs hne v h1 h2
  exact ⟨i, by rw [getIndex_gen, hi]; rfl, hc, hu⟩

omit [LinearOrder α] in
/-- **negative indices, generated `__get_value`** (one axis of `get_coordinates`) -/
theorem gen_coordinate_lookup (xs : List α) (i : Int) :
    (∀ a, Lattice3D.getCoord i xs (xs.length : Int) = .ok a ↔ 0 ≤ i ∧ xs[i.toNat]? = some a) ∧
    (i < 0 ∨ (xs.length : Int) ≤ i → Lattice3D.getCoord i xs (xs.length : Int) = .error .value) := by
  rw [getCoord_gen]; exact coordinate_lookup xs i

end axis

section nearest
variable {α : Type} [Field α] [LinearOrder α] [IsStrictOrderedRing α]

/-- **nearest neighbour, generated `__get_index_nearest_neighbor`** -/
theorem gen_nearest_neighbour (xs : List α) (v : α) :
    (InRange xs v ∧ ∃ m : Nat, Lattice3D.getIndexNN v xs = .ok (m : Int) ∧ IsNearest xs v m) ∨
    (¬ InRange xs v ∧ ∃ e, Lattice3D.getIndexNN v xs = .error e) := by
  rw [getIndexNN_gen]
  rcases nearest_neighbour xs v with ⟨a, m, b, c⟩ | ⟨a, e, b⟩
  · exact Or.inl ⟨a, m, by rw [b]; rfl, c⟩
  · exact Or.inr ⟨a, e, by rw [b]; rfl⟩

omit [IsStrictOrderedRing α] in
/-- a NaN coordinate is reported by the generated nearest-neighbour search -/
theorem gen_nearest_neighbour_nan {xs : List α} (hne : xs ≠ []) :
    Lattice3D.getIndexNN XVal.nan (xs.map XVal.num) = .error .value := by
  rw [getIndexNN_gen, nearest_neighbour_nan hne]; rfl

/-- **closest node, generated `__find_closest_index`**: a natural number, a node of minimal distance, first on a tie -/
theorem gen_closest_is_closest {xs : List α} (hne : xs ≠ []) (v : α) :
    ∃ m : Nat, Lattice3D.findClosestIndex v xs = .ok (m : Int) ∧ ∃ h : m < xs.length,
      (∀ j (hj : j < xs.length), |xs[m] - v| ≤ |xs[j] - v|) ∧
      (∀ j (hj : j < xs.length), j < m → |xs[m] - v| < |xs[j] - v|) :=
  ⟨closestIndex xs v, findClosestIndex_gen xs v, closest_is_closest hne v⟩

/-- **inverse at every node, one axis, generated functions** -/
theorem gen_coord_closest_inverse {xs : List α} (hd : xs.Nodup) (i : Nat) (h : i < xs.length) :
    Lattice3D.getCoord (i : Int) xs (xs.length : Int) = .ok xs[i] ∧
    Lattice3D.findClosestIndex xs[i] xs = .ok (i : Int) := by
  obtain ⟨h1, h2, -, -⟩ := coord_closest_inverse hd i h
  exact ⟨by rw [getCoord_gen]; exact h1, by rw [findClosestIndex_gen, h2]⟩

end nearest

/-! ## 2. by-index access, point access, coordinates, closest indices, interpolation -/

section grid
variable {α β : Type}

/-- **generated `get_value_by_index` never wraps** -/
theorem gen_get_by_index_never_wraps {L : Lat α β} (hwf : L.WF) (i j k : Int) :
    Lattice3D.getValueByIndex L i j k =
      .ok (if L.validIndex i j k then L.at? i.toNat j.toNat k.toNat else none) := by
  rw [getValueByIndex_gen]; exact get_by_index_never_wraps hwf i j k

/-- **generated `set_value_by_index` never wraps**; the validity test it applies is the generated
`__is_valid_index`, which holds exactly for `0 ≤ i < nx ∧ 0 ≤ j < ny ∧ 0 ≤ k < nz` -/
theorem gen_set_by_index_never_wraps {L : Lat α β} (hwf : L.WF) (i j k : Int) (v : β) :
    (Lattice3D.isValidIndex L i j k = .ok (L.validIndex i j k)) ∧
    (L.validIndex i j k = true ↔ (0 ≤ i ∧ i < L.nx) ∧ (0 ≤ j ∧ j < L.ny) ∧ (0 ≤ k ∧ k < L.nz)) ∧
    ∃ L', Lattice3D.setValueByIndex L i j k v = .ok (L', !L.validIndex i j k) ∧ L'.toGeom = L.toGeom ∧ L'.WF ∧
      ∀ a b c, L'.at? a b c =
        if L.validIndex i j k = true ∧ (a, b, c) = (i.toNat, j.toNat, k.toNat) then some v else L.at? a b c := by
  refine ⟨Lat'.isValidIndex_gen L i j k, Lat.validIndex_iff L i j k, ?_⟩
  rw [setValueByIndex_gen]; exact set_by_index_never_wraps hwf i j k v

end grid

section point
variable {α β : Type}

/-- **generated `get_value`** addresses the lower corner of the containing cell, or raises -/
theorem gen_get_value_lower_corner [LinearOrder α] {L : Lat α β} (hwf : L.WF) (hsh : L.toGeom.Shaped)
    (hinc : L.toGeom.Incr) (x y z : α) :
    (∃ i j k v, IsLowerCorner L.xs x i ∧ IsLowerCorner L.ys y j ∧ IsLowerCorner L.zs z k ∧
        L.at? i j k = some v ∧ Lattice3D.getValue L x y z = .ok (some v)) ∨
    ((¬ ∃ i j k, IsLowerCorner L.xs x i ∧ IsLowerCorner L.ys y j ∧ IsLowerCorner L.zs z k) ∧
        ∃ e, Lattice3D.getValue L x y z = .error e) := by
  rw [getValue_gen]; exact get_value_lower_corner hwf hsh hinc x y z

/-- **generated `set_value`** writes exactly the lower-corner node, or raises leaving the lattice alone -/
theorem gen_set_value_lower_corner [LinearOrder α] {L : Lat α β} (hwf : L.WF) (hsh : L.toGeom.Shaped)
    (hinc : L.toGeom.Incr) (x y z : α) (v : β) :
    (∃ i j k L', IsLowerCorner L.xs x i ∧ IsLowerCorner L.ys y j ∧ IsLowerCorner L.zs z k ∧
        Lattice3D.setValue L x y z v = .ok (L', false) ∧ L'.toGeom = L.toGeom ∧ L'.WF ∧
        ∀ a b c, L'.at? a b c = if (a, b, c) = (i, j, k) then some v else L.at? a b c) ∨
    ((¬ ∃ i j k, IsLowerCorner L.xs x i ∧ IsLowerCorner L.ys y j ∧ IsLowerCorner L.zs z k) ∧
        ∃ e, Lattice3D.setValue L x y z v = .error e) := by
  rw [setValue_gen]; exact set_value_lower_corner hwf hsh hinc x y z v

variable [Field α] [LinearOrder α] [IsStrictOrderedRing α]

/-- **generated `get_value_nearest_neighbor`** -/
theorem gen_get_value_nearest {L : Lat α β} (hwf : L.WF) (hsh : L.toGeom.Shaped) (x y z : α) :
    (∃ i j k v, IsNearest L.xs x i ∧ IsNearest L.ys y j ∧ IsNearest L.zs z k ∧
        L.at? i j k = some v ∧ Lattice3D.getValueNN L x y z = .ok (some v)) ∨
    (¬ (InRange L.xs x ∧ InRange L.ys y ∧ InRange L.zs z) ∧ ∃ e, Lattice3D.getValueNN L x y z = .error e) := by
  rw [getValueNN_gen]; exact get_value_nearest hwf hsh x y z

/-- **generated `set_value_nearest_neighbor`** -/
theorem gen_set_value_nearest {L : Lat α β} (hwf : L.WF) (hsh : L.toGeom.Shaped) (x y z : α) (v : β) :
    (∃ i j k L', IsNearest L.xs x i ∧ IsNearest L.ys y j ∧ IsNearest L.zs z k ∧
        Lattice3D.setValueNN L x y z v = .ok (L', false) ∧ L'.toGeom = L.toGeom ∧ L'.WF ∧
        ∀ a b c, L'.at? a b c = if (a, b, c) = (i, j, k) then some v else L.at? a b c) ∨
    (¬ (InRange L.xs x ∧ InRange L.ys y ∧ InRange L.zs z) ∧ ∃ e, Lattice3D.setValueNN L x y z v = .error e) := by
  rw [setValueNN_gen]; exact set_value_nearest hwf hsh x y z v

/-- **generated `get_coordinates` and `find_closest_indices` are inverse at every node** -/
theorem gen_coordinates_closest_inverse {L : Lat α β} (hsh : L.toGeom.Shaped)
    (hx : L.xs.Nodup) (hy : L.ys.Nodup) (hz : L.zs.Nodup)
    (i j k : Nat) (hi : i < L.xs.length) (hj : j < L.ys.length) (hk : k < L.zs.length) :
    Lattice3D.getCoordinates L i j k = .ok (L.xs[i], L.ys[j], L.zs[k]) ∧
    (∃ w, Lattice3D.findClosestIndices L L.xs[i] L.ys[j] L.zs[k] = .ok (((i : Int), (j : Int), (k : Int)), w)) := by
  obtain ⟨h1, h2, -⟩ := coordinates_closest_inverse hsh hx hy hz i j k hi hj hk
  refine ⟨by rw [getCoordinates_gen]; exact h1, ?_⟩
  rw [findClosestIndices_gen, h2]
  exact ⟨_, rfl⟩

omit [Field α] [IsStrictOrderedRing α] in
/-- generated `get_coordinates` with any index outside the shape raises -/
theorem gen_coordinates_reported (L : Lat α β) (i j k : Int)
    (h : ¬ ((0 ≤ i ∧ i < L.nx) ∧ (0 ≤ j ∧ j < L.ny) ∧ (0 ≤ k ∧ k < L.nz))) :
    ∃ e, Lattice3D.getCoordinates L i j k = .error e := by
  rw [getCoordinates_gen]
  exact coordinates_reported L i j k h

omit [IsStrictOrderedRing α] in
/-- generated `find_closest_indices` warns exactly for points outside the stored extents; it never raises -/
theorem gen_closest_warns_iff_outside (L : Lat α β) (x y z : α) :
    ∃ p w, Lattice3D.findClosestIndices L x y z = .ok (p, w) ∧
      (w = true ↔ ¬ ((L.xmin ≤ x ∧ x ≤ L.xmax) ∧ (L.ymin ≤ y ∧ y ≤ L.ymax) ∧ (L.zmin ≤ z ∧ z ≤ L.zmax))) := by
  rw [findClosestIndices_gen]
  exact ⟨_, _, rfl, closest_warns_iff_outside L x y z⟩

omit [Field α] [IsStrictOrderedRing α] in
/-- **generated `interpolate_value` at nodes** (same contract on `interpn` as `interpolate_at_node`) -/
theorem gen_interpolate_at_node {M : Type}
    (interp : List α → List α → List α → List β → α × α × α → M → Except Err β)
    (hcontract : ∀ (xs ys zs : List α) (g : List β) (i j k : Nat) (hi : i < xs.length) (hj : j < ys.length)
      (hk : k < zs.length) (m : M) (v : β), g[flat ys.length zs.length i j k]? = some v →
      interp xs ys zs g (xs[i], ys[j], zs[k]) m = .ok v)
    {L : Lat α β} (hsh : L.toGeom.Shaped) (hinc : L.toGeom.Incr) (han : L.toGeom.Anchored)
    (i j k : Nat) (hi : i < L.xs.length) (hj : j < L.ys.length) (hk : k < L.zs.length) (m : M) (v : β)
    (hv : L.at? i j k = some v) :
    Lattice3D.interpolateValue interp L L.xs[i] L.ys[j] L.zs[k] m = .ok v := by
  rw [interpolateValue_gen]; exact interpolate_at_node interp hcontract hsh hinc han i j k hi hj hk m v hv

omit [Field α] [IsStrictOrderedRing α] in
/-- generated `interpolate_value` outside the stored extents raises `TypeError` -/
theorem gen_interpolate_outside_reported {M : Type}
    (interp : List α → List α → List α → List β → α × α × α → M → Except Err β) (L : Lat α β) (x y z : α) (m : M)
    (h : ¬ ((L.xmin ≤ x ∧ x ≤ L.xmax) ∧ (L.ymin ≤ y ∧ y ≤ L.ymax) ∧ (L.zmin ≤ z ∧ z ≤ L.zmax))) :
    Lattice3D.interpolateValue interp L x y z m = .error .type := by
  rw [interpolateValue_gen]; exact interpolate_outside_reported interp L x y z m h

end point

/-! ## 3. all sequences of set / rescale / reset calls, executed by the generated methods -/

section history
variable {α β : Type} [LT α] [LE α] [DecidableLT α] [DecidableLE α] [Sub α] [Neg α] [NatCast α] [Mul β]

/-- one mutating call executed by the GENERATED method; an exception leaves the object as it was -/
def genApply (L : Lat α β) : Op α β → Lat α β
  | .setIdx i j k v => match Lattice3D.setValueByIndex L i j k v with | .ok (L', _) => L' | .error _ => L
  | .setPt x y z v => match Lattice3D.setValue L x y z v with | .ok (L', _) => L' | .error _ => L
  | .setNN x y z v => match Lattice3D.setValueNN L x y z v with | .ok (L', _) => L' | .error _ => L
  | .rescale f => match Lattice3D.rescale L f with | .ok L' => L' | .error _ => L

def genRun (L : Lat α β) (ops : List (Op α β)) : Lat α β := ops.foldl genApply L

theorem genApply_eq (L : Lat α β) (op : Op α β) : genApply L op = L.apply op := by
  cases op <;> simp only [genApply, Lat.apply, setValueByIndex_gen, setValue_gen, setValueNN_gen, rescale_gen] <;> rfl

theorem genRun_eq (L : Lat α β) (ops : List (Op α β)) : genRun L ops = L.run ops := by
  unfold genRun Lat.run
  congr 1
  funext L op
  exact genApply_eq L op

/-- **histories, generated methods.** After ANY sequence of generated `set_value_by_index` / `set_value` /
`set_value_nearest_neighbor` / `rescale` calls, geometry and shape are unchanged and every node holds the replay
of exactly the calls addressed to it. -/
theorem gen_all_histories {L : Lat α β} (hwf : L.WF) (ops : List (Op α β)) :
    (genRun L ops).toGeom = L.toGeom ∧ (genRun L ops).WF ∧
    ∀ a b c, (genRun L ops).at? a b c =
      (L.at? a b c).map (fun v0 => ops.foldl (fun cur op => op.stepVal (L.target op) (a, b, c) cur) v0) := by
  rw [genRun_eq]; exact all_histories hwf ops

end history

/-! ## 4. constructor, operators, average, rescale, reset -/

section arithmetic
variable {α β : Type}

/-- **generated `__init__`.** With an `np.linspace` meeting `LinContract`, extents `lo < hi` and at least two
nodes per axis, the record built by the generated constructor satisfies every hypothesis the theorems above
use, holds zeros, and has a grid of the size of its shape. -/
theorem gen_init_good [LinearOrder α] [NatCast β] {lin : α → α → Nat → List α} (hl : LinContract lin)
    {xmin xmax ymin ymax zmin zmax : α} {nx ny nz : Nat} (hx : xmin < xmax) (hy : ymin < ymax) (hz : zmin < zmax)
    (h2x : 2 ≤ nx) (h2y : 2 ≤ ny) (h2z : 2 ≤ nz) :
    let L : Lat α β := Lattice3D.init lin xmin xmax ymin ymax zmin zmax nx ny nz
    L.toGeom.Shaped ∧ L.toGeom.Incr ∧ L.toGeom.Anchored ∧ L.toGeom.Built lin ∧ L.WF ∧
      ∀ a b c, a < nx → b < ny → c < nz → L.at? a b c = some ((0 : Nat) : β) := by
  intro L
  have hL : L = mkLat lin xmin xmax ymin ymax zmin zmax nx ny nz := init_gen lin _ _ _ _ _ _ _ _ _
  obtain ⟨g1, g2, g3, g4⟩ := mkGeom_good hl hx hy hz h2x h2y h2z
  rw [hL]
  refine ⟨g1, g2, g3, g4, by simp [Lat.WF, mkLat, mkGeom], fun a b c ha hb hc => ?_⟩
  have hlt := flat_lt ha hb hc
  simp [Lat.at?, mkLat, mkGeom, ha, hb, hc, hlt]

/-- **generated `+ - * /`** act element-wise, reject different shapes, build a new lattice -/
theorem gen_operators_elementwise [NatCast β] [Add β] [Sub β] [Mul β] [Div β] (lin : α → α → Nat → List α)
    (o : BinOp) (A B : Lat α β) (hb : A.toGeom.Built lin) :
    let r := match o with
      | .add => Lattice3D.add lin A B | .sub => Lattice3D.sub lin A B
      | .mul => Lattice3D.mul lin A B | .div => Lattice3D.truediv lin A B
    (A.sameShape B = false ∧ r = .error .value) ∨
    (A.sameShape B = true ∧ ∃ R, r = .ok R ∧ R.toGeom = A.toGeom ∧ (A.WF → B.WF → R.WF) ∧
      ∀ a b c, R.at? a b c = (A.at? a b c).bind (fun x => (B.at? a b c).map (fun y => o.fn x y))) := by
  obtain ⟨h1, h2, h3, h4⟩ := operators_gen lin A B
  cases o <;> simp only [h1, h2, h3, h4] <;> exact operators_elementwise lin _ A B hb

/-- generated `__operate_on_lattice` with any binary function -/
theorem gen_operate_elementwise [NatCast β] (lin : α → α → Nat → List α) (f : β → β → β) (A B : Lat α β)
    (hb : A.toGeom.Built lin) :
    (A.sameShape B = false ∧ Lattice3D.operateOnLattice lin A B f = .error .value) ∨
    (A.sameShape B = true ∧ ∃ R, Lattice3D.operateOnLattice lin A B f = .ok R ∧ R.toGeom = A.toGeom ∧
      (A.WF → B.WF → R.WF) ∧
      ∀ a b c, R.at? a b c = (A.at? a b c).bind (fun x => (B.at? a b c).map (fun y => f x y))) := by
  rw [operateOnLattice_gen]; exact operators_elementwise lin f A B hb

/-- **generated `average`** -/
theorem gen_average_elementwise [NatCast β] [Add β] [Div β] (lin : α → α → Nat → List α) (A : Lat α β)
    (Bs : List (Lat α β)) (hb : A.toGeom.Built lin) :
    ((∀ B ∈ Bs, A.sameShape B = true) → ∃ R, Lattice3D.average lin A Bs = .ok R ∧ R.toGeom = A.toGeom ∧
      ∀ a b c, R.at? a b c =
        (Bs.foldl (fun s B => s.bind (fun x => (B.at? a b c).map (fun y => x + y)))
            ((A.at? a b c).map (fun x => ((0 : Nat) : β) + x))).map
          (fun s => s / ((Bs.length + 1 : Nat) : β))) ∧
    ((∃ B ∈ Bs, A.sameShape B = false) → Lattice3D.average lin A Bs = .error .value) := by
  rw [average_gen]; exact average_elementwise lin A Bs hb

/-- **generated `rescale`** multiplies every node value by the factor -/
theorem gen_rescale_elementwise [Mul β] (L : Lat α β) (f : β) :
    ∃ R, Lattice3D.rescale L f = .ok R ∧ R.toGeom = L.toGeom ∧ (L.WF → R.WF) ∧
      ∀ a b c, R.at? a b c = (L.at? a b c).map (· * f) :=
  ⟨L.rescale f, rescale_gen L f, rescale_elementwise L f⟩

/-- **generated `reset`** (a loop of single writes over `np.ndindex`) succeeds on every well-shaped lattice,
keeps geometry and shape and leaves 0 at every node -/
theorem gen_reset_clears [NatCast β] (L : Lat α β) (hwf : L.WF) :
    ∃ R, Lattice3D.reset L = .ok R ∧ R.toGeom = L.toGeom ∧ R.WF ∧
      ∀ a b c, R.at? a b c = (L.at? a b c).map (fun _ => ((0 : Nat) : β)) := by
  refine ⟨L.reset, reset_gen L hwf, rfl, by simpa [Lat.reset, Lat.WF] using hwf, fun a b c => ?_⟩
  unfold Lat.reset Lat.at?
  by_cases h : a < L.nx ∧ b < L.ny ∧ c < L.nz
  · simp only [h, and_self, if_true, List.getElem?_map]
  · simp only [h, if_false, Option.map_none]

/-- one command executed by the GENERATED methods on the list of live objects -/
def genExec [LT α] [LE α] [DecidableLT α] [DecidableLE α] [Sub α] [Neg α] [NatCast α]
    [Add β] [Sub β] [Mul β] [Div β] [NatCast β]
    (lin : α → α → Nat → List α) (env : List (Lat α β)) : Cmd α β → List (Lat α β)
  | .op l o => match env[l]? with
    | some L => env.set l (genApply L o)
    | none => env
  | .bin o a b => match env[a]?, env[b]? with
    | some A, some B =>
      match (match o with
        | .add => Lattice3D.add lin A B | .sub => Lattice3D.sub lin A B
        | .mul => Lattice3D.mul lin A B | .div => Lattice3D.truediv lin A B) with
      | .ok R => env ++ [R]
      | .error _ => env
    | _, _ => env
  | .avg a bs => match env[a]?, bs.mapM (fun b => env[b]?) with
    | some A, some Bs => match Lattice3D.average lin A Bs with
      | .ok R => env ++ [R]
      | .error _ => env
    | _, _ => env

theorem genExec_eq [LT α] [LE α] [DecidableLT α] [DecidableLE α] [Sub α] [Neg α] [NatCast α]
    [Add β] [Sub β] [Mul β] [Div β] [NatCast β]
    (lin : α → α → Nat → List α) (env : List (Lat α β)) (c : Cmd α β) : genExec lin env c = exec lin env c := by
  cases c with
  | op l o => simp only [genExec, exec, genApply_eq] <;> rfl
  | bin o a b =>
    simp only [genExec, exec]
    cases env[a]? <;> cases env[b]? <;> try rfl
    rename_i A B
    obtain ⟨h1, h2, h3, h4⟩ := operators_gen lin A B
    cases o <;> simp only [h1, h2, h3, h4] <;> rfl
  | avg a bs => simp only [genExec, exec, average_gen] <;> rfl

/-- **operands unchanged, generated methods.** Over any command sequence on any number of live lattices an
object changes only by mutating calls on itself; generated operators and `average` only append their result. -/
theorem gen_operands_unchanged [LT α] [LE α] [DecidableLT α] [DecidableLE α] [Sub α] [Neg α] [NatCast α]
    [Add β] [Sub β] [Mul β] [Div β] [NatCast β]
    (lin : α → α → Nat → List α) (env : List (Lat α β)) (cmds : List (Cmd α β)) (m : Nat)
    (hm : m < env.length) (hne : ∀ c ∈ cmds, ∀ o, c ≠ .op m o) :
    (cmds.foldl (genExec lin) env)[m]? = env[m]? := by
  have : (genExec lin : List (Lat α β) → Cmd α β → List (Lat α β)) = exec lin := by
    funext e c; exact genExec_eq lin e c
  rw [this]; exact operands_unchanged lin env cmds m hm hne

end arithmetic

/-! ## 5. derived constructor attributes (outside the statement of C17; kept so that the whole of `__init__` is tied) -/

section attrs
variable {α : Type} [Field α] [LinearOrder α] [IsStrictOrderedRing α]

/-- generated `cell_volume_` = |Δx·Δy·Δz / (nx·ny·nz)| -/
theorem gen_cell_volume (lin : α → α → Nat → List α) (a b c d e f : α) (nx ny nz : Nat) :
    Lattice3D.attr_cell_volume_ lin a b c d e f nx ny nz =
      .ok |(b - a) * (d - c) * (f - e) / ((nx : α) * (ny : α) * (nz : α))| := by
  rw [attr_cell_volume_gen]; unfold cellVolume; rw [absG_eq_abs]; push_cast; rfl

end attrs

/-! ## 6. non-vacuity: the generated functions on the concrete lattice of `Props/C17.lean` -/

example : Lattice3D.getValue exLat (-2) 1 (3/10) = .ok (some 7) := by decide +kernel
example : Lattice3D.getValueNN exLat (-2) 1 (3/10) = .ok (some 8) := by decide +kernel
example : Lattice3D.getValue exLat (-2) 1 (3/5) = .error .value := by decide +kernel
example : Lattice3D.getValueByIndex exLat (-1) 0 0 = .ok none := by decide +kernel
example : Lattice3D.getIndex XVal.nan (exLat.xs.map XVal.num) = .error .value := by decide +kernel
example : Lattice3D.findClosestIndices exLat (-5) 1 (1/5) = .ok ((0, 1, 0), true) := by decide +kernel
example : (Lattice3D.reset exLat).map (·.grid) = .ok (List.replicate 12 0) := by decide +kernel

end SparkxVerif.C17
