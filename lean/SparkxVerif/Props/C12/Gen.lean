/-
C12, tie T for the computational core: the property theorems of `Props/C12.lean`, restated about the functions
GENERATED from the current source (`Gen/FlowCore.lean`) instead of the hand-written model.  Each follows from the
model's theorem and the equality generated = model (`Lemmas/FlowCoreGen.lean`, all inputs, no hypotheses), so the
hypotheses are exactly those of the model's theorems.  Same conventions as `Props/C12.lean` (`O : Ops ℝ ℂ` with
`StdOps O`; `sqrt`, `abs`, the event-plane resolution correction `res` opaque).
-/
import SparkxVerif.Props.C12
import SparkxVerif.Lemmas.FlowCoreGen

namespace SparkxVerif.C12
open SparkxVerif.Flow SparkxVerif.FlowSel SparkxVerif.FlowCoreGen List

namespace G
export SparkxVerif.Gen.FlowCore (rpIntegrated rpDifferential spResolution spIntegrated spDifferential epRn epIntegrated
  epDifferential)
end G

variable {O : Ops ℝ ℂ}

/-- the eight generated functions are the model's functions (at `ℝ`/`ℂ`; the lemmas hold at every carrier) -/
theorem gen_core_eq :
    (∀ evs : List (List P), G.rpIntegrated O evs = rpIntegrated O evs) ∧
    (∀ site sel edges (evs : List (List P)), G.rpDifferential O site sel edges evs = rpDifferential O site sel edges evs) ∧
    (∀ wq gap (evs : List E), G.spResolution O wq gap evs = spResolution O wq gap evs) ∧
    (∀ wq gap sc (evs : List E), G.spIntegrated O wq gap sc evs = spIntegrated O wq gap sc evs) ∧
    (∀ wq gap sc site sel edges (evs : List E),
      G.spDifferential O wq gap sc site sel edges evs = spDifferential O wq gap sc site sel edges evs) ∧
    (∀ wq gap (evs : List E), G.epRn O wq gap evs = epRn O wq gap evs) ∧
    (∀ wq gap sc (evs : List E), G.epIntegrated O wq gap sc evs = epIntegrated O wq gap sc evs) ∧
    (∀ wq gap sc site sel edges (evs : List E),
      G.epDifferential O wq gap sc site sel edges evs = epDifferential O wq gap sc site sel edges evs) :=
  ⟨rpIntegrated_gen O, rpDifferential_gen O, spResolution_gen O, spIntegrated_gen O, spDifferential_gen O,
   epRn_gen O, epIntegrated_gen O, epDifferential_gen O⟩

/-- the same at `Float` with the driver's primitives: what the driver op `g…` prints is what the model op prints -/
theorem gen_core_eq_float (res : Float → Float) :
    (∀ evs, G.rpIntegrated (floatOps res) evs = rpIntegrated (floatOps res) evs) ∧
    (∀ wq gap sc evs, G.spIntegrated (floatOps res) wq gap sc evs = spIntegrated (floatOps res) wq gap sc evs) ∧
    (∀ wq gap sc evs, G.epIntegrated (floatOps res) wq gap sc evs = epIntegrated (floatOps res) wq gap sc evs) :=
  ⟨rpIntegrated_gen _, spIntegrated_gen _, epIntegrated_gen _⟩

/-! ### reaction plane -/

theorem gen_rp_mean (h : StdOps O) (hz : ∀ x, O.isZero x = decide (x = 0)) (evs : List (List P))
    (hw : ∀ p ∈ evs.flatten, 0 ≤ p.pw) (hne : (evs.flatten.map Part.pw).sum ≠ 0) :
    G.rpIntegrated O evs =
      some ((evs.flatten.map fun p => ((p.pw : ℝ) : ℂ) * p.u).sum / (((evs.flatten.map Part.pw).sum : ℝ) : ℂ)) := by
  rw [rpIntegrated_gen]; exact rp_mean h hz evs hw hne

theorem gen_rp_rotate (h : StdOps O) (n : ℕ) (a : ℝ) (evs : List (List P)) :
    G.rpIntegrated O (evs.map (List.map (Part.rot (phase n a)))) = (G.rpIntegrated O evs).map (phase n a * ·) ∧
    ∀ (site : Site) (sel : String) (edges : List ℝ),
      G.rpDifferential O site sel edges (evs.map (List.map (Part.rot (phase n a)))) =
        (G.rpDifferential O site sel edges evs).map (List.map (phase n a * ·)) := by
  simp only [rpIntegrated_gen, rpDifferential_gen]; exact rp_rotate h n a evs

theorem gen_rp_perm_particles (h : StdOps O) {evs evs' : List (List P)} (hp : Forall₂ Perm evs evs') :
    G.rpIntegrated O evs = G.rpIntegrated O evs' ∧
    ∀ (site : Site) (sel : String) (edges : List ℝ),
      G.rpDifferential O site sel edges evs = G.rpDifferential O site sel edges evs' := by
  simp only [rpIntegrated_gen, rpDifferential_gen]; exact rp_perm_particles h hp

theorem gen_rp_perm_events (h : StdOps O) {evs evs' : List (List P)} (hp : evs ~ evs') :
    (∀ (site : Site) (sel : String) (edges : List ℝ),
      G.rpDifferential O site sel edges evs = G.rpDifferential O site sel edges evs') ∧
    ((∀ x, O.isZero x = decide (x = 0)) → (∀ ev ∈ evs, ∀ p ∈ ev, 0 ≤ p.pw) →
      G.rpIntegrated O evs = G.rpIntegrated O evs') := by
  simp only [rpIntegrated_gen, rpDifferential_gen]; exact rp_perm_events h hp

/-! ### scalar product -/

theorem gen_sp_rotate (h : StdOps O) (chain : List (String × Attr)) (n : ℕ) (weight : String) (gap : ℝ)
    (selfCorr : Bool) (αs : List ℝ) (evs : List E) (hl : αs.length = evs.length) :
    G.spIntegrated O (chainVal chain n weight) gap selfCorr (rotateEvents n αs evs) =
      G.spIntegrated O (chainVal chain n weight) gap selfCorr evs ∧
    ∀ (site : Site) (sel : String) (edges : List ℝ),
      G.spDifferential O (chainVal chain n weight) gap selfCorr site sel edges (rotateEvents n αs evs) =
        G.spDifferential O (chainVal chain n weight) gap selfCorr site sel edges evs := by
  simp only [spIntegrated_gen, spDifferential_gen]; exact sp_rotate h chain n weight gap selfCorr αs evs hl

theorem gen_sp_perm_particles (h : StdOps O) (wq : P → ℝ) (gap : ℝ) (selfCorr : Bool) {evs evs' : List E}
    (hp : Forall₂ PermParts evs evs') :
    G.spIntegrated O wq gap selfCorr evs = G.spIntegrated O wq gap selfCorr evs' ∧
    ∀ (site : Site) (sel : String) (edges : List ℝ),
      G.spDifferential O wq gap selfCorr site sel edges evs = G.spDifferential O wq gap selfCorr site sel edges evs' := by
  simp only [spIntegrated_gen, spDifferential_gen]; exact sp_perm_particles h wq gap selfCorr hp

theorem gen_sp_perm_events (wq : P → ℝ) (gap : ℝ) (selfCorr : Bool) {evs evs' : List E} (hp : evs ~ evs') :
    G.spIntegrated O wq gap selfCorr evs = G.spIntegrated O wq gap selfCorr evs' ∧
    ∀ (site : Site) (sel : String) (edges : List ℝ),
      G.spDifferential O wq gap selfCorr site sel edges evs = G.spDifferential O wq gap selfCorr site sel edges evs' := by
  simp only [spIntegrated_gen, spDifferential_gen]; exact sp_perm_events wq gap selfCorr hp

/-! ### event plane -/

/-- partial, like `ep_rotate`: on `EPRegular` samples (the unrestricted statement is false, `ep_rotate_full_false`) -/
theorem gen_ep_rotate (h : StdOps O) (chain : List (String × Attr)) (n : ℕ) (weight : String) (gap : ℝ)
    (selfCorr : Bool) (αs : List ℝ) (evs : List E) (hl : αs.length = evs.length)
    (hreg : ∀ e ∈ evs, EPRegular O (chainVal chain n weight) gap selfCorr e) :
    G.epIntegrated O (chainVal chain n weight) gap selfCorr (rotateEvents n αs evs) =
      G.epIntegrated O (chainVal chain n weight) gap selfCorr evs ∧
    ∀ (site : Site) (sel : String) (edges : List ℝ),
      G.epDifferential O (chainVal chain n weight) gap selfCorr site sel edges (rotateEvents n αs evs) =
        G.epDifferential O (chainVal chain n weight) gap selfCorr site sel edges evs := by
  simp only [epIntegrated_gen, epDifferential_gen]; exact ep_rotate h chain n weight gap selfCorr αs evs hl hreg

theorem gen_ep_perm_particles (h : StdOps O) (wq : P → ℝ) (gap : ℝ) (selfCorr : Bool) {evs evs' : List E}
    (hp : Forall₂ PermParts evs evs') :
    G.epIntegrated O wq gap selfCorr evs = G.epIntegrated O wq gap selfCorr evs' ∧
    ∀ (site : Site) (sel : String) (edges : List ℝ),
      G.epDifferential O wq gap selfCorr site sel edges evs = G.epDifferential O wq gap selfCorr site sel edges evs' := by
  simp only [epIntegrated_gen, epDifferential_gen]; exact ep_perm_particles h wq gap selfCorr hp

theorem gen_ep_perm_events (wq : P → ℝ) (gap : ℝ) (selfCorr : Bool) {evs evs' : List E} (hp : evs ~ evs') :
    G.epIntegrated O wq gap selfCorr evs = G.epIntegrated O wq gap selfCorr evs' ∧
    ∀ (site : Site) (sel : String) (edges : List ℝ),
      G.epDifferential O wq gap selfCorr site sel edges evs = G.epDifferential O wq gap selfCorr site sel edges evs' := by
  simp only [epIntegrated_gen, epDifferential_gen]; exact ep_perm_events wq gap selfCorr hp

/-! ### a single bin containing every particle -/

theorem gen_single_bin_eq_integrated (wq : P → ℝ) (gap : ℝ) (selfCorr : Bool) (site : Site) (sel : String)
    (hsel : sel ∈ site.accepted) (lo hi : ℝ) (evs : List E)
    (hall : ∀ e ∈ evs, ∀ p ∈ e.flow, inBin O (chainVal site.chain 0 sel) lo hi p = true) :
    G.spDifferential O wq gap selfCorr site sel [lo, hi] evs = some [G.spIntegrated O wq gap selfCorr evs] ∧
    G.epDifferential O wq gap selfCorr site sel [lo, hi] evs = some [G.epIntegrated O wq gap selfCorr evs] := by
  simp only [spIntegrated_gen, spDifferential_gen, epIntegrated_gen, epDifferential_gen]
  exact single_bin_eq_integrated wq gap selfCorr site sel hsel lo hi evs hall

theorem gen_single_bin_rp (h : StdOps O) (hz : ∀ x, O.isZero x = decide (x = 0)) (site : Site) (sel : String)
    (hsel : sel ∈ site.accepted) (lo hi : ℝ) (evs : List (List P))
    (hall : ∀ ev ∈ evs, ∀ p ∈ ev, inBin O (chainVal site.chain 0 sel) lo hi p = true)
    (hw : ∀ ev ∈ evs, ∀ p ∈ ev, 0 ≤ p.pw) (hne : (evs.map evW).sum ≠ 0) :
    ∃ z, G.rpIntegrated O evs = some z ∧ G.rpDifferential O site sel [lo, hi] evs = some [z] := by
  simp only [rpIntegrated_gen, rpDifferential_gen]
  exact single_bin_rp h hz site sel hsel lo hi evs hall hw hne

end SparkxVerif.C12
