/-
C03 — every filter keeps exactly the particles / events its predicate selects.

The loop shapes and comprehension conditions of all particle-level filters are *generated* from the current
text of `Filter.py` (`Gen/Filters.lean`); the theorems below are therefore re-checked against what the code
says on every run.  `applyCall` (Core/FilterSkel.lean) is the function the driver executes.
Statements: for every nested list `evs` (any number of events, empty events, unset = `none` attributes) and
every argument, the result is `keepSpec pred evs = evs.map (List.filter pred)` with `pred` the documented
predicate — from which order, identity, no duplication, "every event still represented" and "undefined is
dropped" follow by core `List` lemmas (`keepSpec_*`).
-/
import SparkxVerif.Lemmas.Filter

namespace SparkxVerif.C03
open SparkxVerif.Flt SparkxVerif.Gen.Filters

section specs
variable {α : Type} [LinearOrder α] [AddCommGroup α] [IsOrderedAddMonoid α]
variable (ofNat : ℕ → α)

def toW : Option α → WElem α
  | some x => .num x
  | none => .none

omit [IsOrderedAddMonoid α] in
theorem absF_eq [IsOrderedAddMonoid α] (c : α) : absF c = |c| := by
  unfold absF
  split
  · rename_i h; rw [abs_of_neg h]
  · rename_i h; rw [abs_of_nonneg (le_of_not_gt h)]

/-! ### what `keepSpec` means -/

theorem keepSpec_length (pred : Part α → Bool) (evs : Evs α) : (keepSpec pred evs).length = evs.length := by
  simp [keepSpec]

/-- survivors of event `i` are a sub-list of event `i`: same objects, same relative order, none duplicated -/
theorem keepSpec_sublist (pred : Part α → Bool) (evs : Evs α) (i : ℕ) (h : i < evs.length) :
    ((keepSpec pred evs)[i]'(by simpa [keepSpec] using h)).Sublist evs[i] := by
  simp [keepSpec]

theorem keepSpec_mem (pred : Part α → Bool) (evs : Evs α) (i : ℕ) (h : i < evs.length) (p : Part α) :
    p ∈ (keepSpec pred evs)[i]'(by simpa [keepSpec] using h) ↔ p ∈ evs[i] ∧ pred p = true := by
  simp [keepSpec]

/-! ### no-argument filters -/

theorem charged_spec (evs : Evs α) : applyCall ofNat .charged evs = .ok (keepSpec chargedP evs) := by
  unfold applyCall
  apply runLoop_ok _ (by decide)
  intro ev _ p _
  cases h : p.charge <;> simp [charged_particles_cond_0, neXI, isnan, chargedP, h]

theorem uncharged_spec (evs : Evs α) : applyCall ofNat .uncharged evs = .ok (keepSpec unchargedP evs) := by
  unfold applyCall
  apply runLoop_ok _ (by decide)
  intro ev _ p _
  cases h : p.charge <;> simp [uncharged_particles_cond_0, eqXI, isnan, unchargedP, h]

theorem participants_spec (evs : Evs α) : applyCall ofNat .participants evs = .ok (keepSpec participantP evs) := by
  unfold applyCall
  apply runLoop_ok _ (by decide)
  intro ev _ p _
  cases h : p.ncoll <;> simp [participants_cond_0, neXI, isnan, participantP, h]

theorem spectators_spec (evs : Evs α) : applyCall ofNat .spectators evs = .ok (keepSpec spectatorP evs) := by
  unfold applyCall
  apply runLoop_ok _ (by decide)
  intro ev _ p _
  cases h : p.ncoll <;> simp [spectators_cond_0, eqXI, isnan, spectatorP, h]

theorem remove_photons_spec (evs : Evs α) : applyCall ofNat .removePhotons evs = .ok (keepSpec notPhotonP evs) := by
  unfold applyCall
  apply runLoop_ok _ (by decide)
  intro ev _ p _
  cases h : p.pdg <;> simp [remove_photons_cond_0, intOf, isnan, notPhotonP, h]

theorem class_cond (b : Option Bool) :
    andE (pure (truthy b)) (fun _ => notE (pure (isnan b))) = (.ok (classP b) : Except Err Bool) := by
  cases b with
  | none => rfl
  | some v => cases v <;> rfl

/-- the eleven PDG-class filters: keep exactly the particles whose class method returns `True`
(`False` and NaN — invalid PDG code — are dropped) -/
theorem class_specs (evs : Evs α) :
    applyCall ofNat .keepHadrons evs = .ok (keepSpec (fun p => classP p.isHadron) evs) ∧
    applyCall ofNat .keepLeptons evs = .ok (keepSpec (fun p => classP p.isLepton) evs) ∧
    applyCall ofNat .keepQuarks evs = .ok (keepSpec (fun p => classP p.isQuark) evs) ∧
    applyCall ofNat .keepMesons evs = .ok (keepSpec (fun p => classP p.isMeson) evs) ∧
    applyCall ofNat .keepBaryons evs = .ok (keepSpec (fun p => classP p.isBaryon) evs) ∧
    applyCall ofNat .keepUp evs = .ok (keepSpec (fun p => classP p.hasUp) evs) ∧
    applyCall ofNat .keepDown evs = .ok (keepSpec (fun p => classP p.hasDown) evs) ∧
    applyCall ofNat .keepStrange evs = .ok (keepSpec (fun p => classP p.hasStrange) evs) ∧
    applyCall ofNat .keepCharm evs = .ok (keepSpec (fun p => classP p.hasCharm) evs) ∧
    applyCall ofNat .keepBottom evs = .ok (keepSpec (fun p => classP p.hasBottom) evs) ∧
    applyCall ofNat .keepTop evs = .ok (keepSpec (fun p => classP p.hasTop) evs) := by
  refine ⟨?_, ?_, ?_, ?_, ?_, ?_, ?_, ?_, ?_, ?_, ?_⟩ <;>
  · unfold applyCall
    apply runLoop_ok _ (by decide)
    intro ev _ p _
    first
      | exact class_cond p.isHadron | exact class_cond p.isLepton | exact class_cond p.isQuark
      | exact class_cond p.isMeson | exact class_cond p.isBaryon | exact class_cond p.hasUp
      | exact class_cond p.hasDown | exact class_cond p.hasStrange | exact class_cond p.hasCharm
      | exact class_cond p.hasBottom | exact class_cond p.hasTop


/-! ### PDG-id and status filters; the answer does not depend on the container type -/

/-- every particle has a PDG id.  No longer needed by the species theorems (a particle without PDG id is dropped since the
NaN test precedes `int(elem.pdg)`); kept because callers (C05) still pass it. -/
def PdgSet (evs : Evs α) : Prop := ∀ ev ∈ evs, ∀ p ∈ ev, p.pdg ≠ none

/-- `particle_species` with a scalar code, for EVERY particle list (unset PDG ids included) -/
theorem species_scalar_spec_all (evs : Evs α) (x : Int) :
    applyCall ofNat (.species (.scalar x)) evs = .ok (keepSpec (speciesP [x]) evs) := by
  unfold applyCall particleSpecies
  apply runLoop_ok _ (by decide)
  intro ev _ p _
  cases hq : p.pdg with
  | none => simp [particle_species_cond_0, intOf, isnan, speciesP, hq, andE, notE]
  | some c =>
    simp [particle_species_cond_0, intOf, isnan, speciesP, hq, andE, notE]
    try (by_cases hc : c = x <;> simp [hc])

theorem species_list_spec_all (evs : Evs α) (xs : List Int) :
    applyCall ofNat (.species (.list xs)) evs = .ok (keepSpec (speciesP xs) evs) ∧
    applyCall ofNat (.species (.tuple xs)) evs = .ok (keepSpec (speciesP xs) evs) ∧
    applyCall ofNat (.species (.ndarray xs)) evs = .ok (keepSpec (speciesP xs) evs) := by
  refine ⟨?_, ?_, ?_⟩ <;>
  · unfold applyCall particleSpecies
    apply runLoop_ok _ (by decide)
    intro ev _ p _
    cases hq : p.pdg <;> simp [particle_species_cond_1, intOf, isnan, speciesP, hq, andE, notE]

theorem remove_species_scalar_spec_all (evs : Evs α) (x : Int) :
    applyCall ofNat (.removeSpecies (.scalar x)) evs = .ok (keepSpec (notSpeciesP [x]) evs) := by
  unfold applyCall removeParticleSpecies
  apply runLoop_ok _ (by decide)
  intro ev _ p _
  cases hq : p.pdg with
  | none => simp [remove_particle_species_cond_0, intOf, isnan, notSpeciesP, hq, andE, notE]
  | some c =>
    simp [remove_particle_species_cond_0, intOf, isnan, notSpeciesP, hq, andE, notE]
    try (by_cases hc : c = x <;> simp [hc])

theorem remove_species_list_spec_all (evs : Evs α) (xs : List Int) :
    applyCall ofNat (.removeSpecies (.list xs)) evs = .ok (keepSpec (notSpeciesP xs) evs) ∧
    applyCall ofNat (.removeSpecies (.tuple xs)) evs = .ok (keepSpec (notSpeciesP xs) evs) ∧
    applyCall ofNat (.removeSpecies (.ndarray xs)) evs = .ok (keepSpec (notSpeciesP xs) evs) := by
  refine ⟨?_, ?_, ?_⟩ <;>
  · unfold applyCall removeParticleSpecies
    apply runLoop_ok _ (by decide)
    intro ev _ p _
    cases hq : p.pdg <;> simp [remove_particle_species_cond_1, intOf, isnan, notSpeciesP, hq, andE, notE]

/-- the former statements (with the now superfluous hypothesis), kept for their users -/
theorem species_scalar_spec (evs : Evs α) (_h : PdgSet evs) (x : Int) :
    applyCall ofNat (.species (.scalar x)) evs = .ok (keepSpec (speciesP [x]) evs) :=
  species_scalar_spec_all ofNat evs x

theorem species_list_spec (evs : Evs α) (_h : PdgSet evs) (xs : List Int) :
    applyCall ofNat (.species (.list xs)) evs = .ok (keepSpec (speciesP xs) evs) ∧
    applyCall ofNat (.species (.tuple xs)) evs = .ok (keepSpec (speciesP xs) evs) ∧
    applyCall ofNat (.species (.ndarray xs)) evs = .ok (keepSpec (speciesP xs) evs) :=
  species_list_spec_all ofNat evs xs

theorem remove_species_scalar_spec (evs : Evs α) (_h : PdgSet evs) (x : Int) :
    applyCall ofNat (.removeSpecies (.scalar x)) evs = .ok (keepSpec (notSpeciesP [x]) evs) :=
  remove_species_scalar_spec_all ofNat evs x

theorem remove_species_list_spec (evs : Evs α) (_h : PdgSet evs) (xs : List Int) :
    applyCall ofNat (.removeSpecies (.list xs)) evs = .ok (keepSpec (notSpeciesP xs) evs) ∧
    applyCall ofNat (.removeSpecies (.tuple xs)) evs = .ok (keepSpec (notSpeciesP xs) evs) ∧
    applyCall ofNat (.removeSpecies (.ndarray xs)) evs = .ok (keepSpec (notSpeciesP xs) evs) :=
  remove_species_list_spec_all ofNat evs xs

/-- a particle without PDG id is dropped by the species comparison (it used to raise `ValueError`: fixed in /repo) -/
theorem species_unset_dropped (x : Int) (p : Part α) (h : p.pdg = none) :
    particle_species_cond_0 x p = .ok false := by
  simp [particle_species_cond_0, intOf, isnan, h, andE, notE]

theorem status_scalar_spec (evs : Evs α) (x : Int) :
    applyCall ofNat (.status (.scalar x)) evs = .ok (keepSpec (statusP [x]) evs) := by
  unfold applyCall particleStatus
  apply runLoop_ok _ (by decide)
  intro ev _ p _
  cases hq : p.status <;> simp [particle_status_cond_0, eqXI, isnan, statusP, hq, beq_eq_decide]

theorem status_list_spec (evs : Evs α) (xs : List Int) :
    applyCall ofNat (.status (.list xs)) evs = .ok (keepSpec (statusP xs) evs) ∧
    applyCall ofNat (.status (.tuple xs)) evs = .ok (keepSpec (statusP xs) evs) ∧
    applyCall ofNat (.status (.ndarray xs)) evs = .ok (keepSpec (statusP xs) evs) := by
  refine ⟨?_, ?_, ?_⟩ <;>
  · unfold applyCall particleStatus
    apply runLoop_ok _ (by decide)
    intro ev _ p _
    cases hq : p.status <;> simp [particle_status_cond_1, memXI, isnan, statusP, hq]

/-- **scalar, list, tuple and array give the same answer** -/
theorem arg_shape_irrelevant (evs : Evs α) (x : Int) :
    (applyCall ofNat (.status (.scalar x)) evs = applyCall ofNat (.status (.list [x])) evs ∧
     applyCall ofNat (.status (.list [x])) evs = applyCall ofNat (.status (.tuple [x])) evs ∧
     applyCall ofNat (.status (.tuple [x])) evs = applyCall ofNat (.status (.ndarray [x])) evs) ∧
    (PdgSet evs →
      applyCall ofNat (.species (.scalar x)) evs = applyCall ofNat (.species (.list [x])) evs ∧
      applyCall ofNat (.species (.list [x])) evs = applyCall ofNat (.species (.tuple [x])) evs ∧
      applyCall ofNat (.species (.tuple [x])) evs = applyCall ofNat (.species (.ndarray [x])) evs ∧
      applyCall ofNat (.removeSpecies (.scalar x)) evs = applyCall ofNat (.removeSpecies (.list [x])) evs ∧
      applyCall ofNat (.removeSpecies (.list [x])) evs = applyCall ofNat (.removeSpecies (.tuple [x])) evs ∧
      applyCall ofNat (.removeSpecies (.tuple [x])) evs = applyCall ofNat (.removeSpecies (.ndarray [x])) evs) := by
  constructor
  · have a := status_scalar_spec ofNat evs x
    obtain ⟨b, c, d⟩ := status_list_spec ofNat evs [x]
    exact ⟨a.trans b.symm, b.trans c.symm, c.trans d.symm⟩
  · intro h
    have a := species_scalar_spec ofNat evs h x
    obtain ⟨b, c, d⟩ := species_list_spec ofNat evs h [x]
    have a' := remove_species_scalar_spec ofNat evs h x
    obtain ⟨b', c', d'⟩ := remove_species_list_spec ofNat evs h [x]
    exact ⟨a.trans b.symm, b.trans c.symm, c.trans d.symm, a'.trans b'.symm, b'.trans c'.symm, c'.trans d'.symm⟩

/-! ### window cuts: inclusive `[min,max]`, `None` unbounded, limits in either order -/

def nonnegO (a : Option α) : Prop := match a with | some x => ¬ x < 0 | none => True

theorem ensure_ok (a b : Option α) (hab : ¬ (a = none ∧ b = none)) :
    ensureTuple [toW a, toW b] true = .ok (a, b) := by
  cases a <;> cases b <;> simp [ensureTuple, toW] at hab ⊢

theorem window_cond (lo hi : Ext α) (v : XV α) :
    (andE (andE (pure (leEX lo v)) (fun _ => pure (leXE v hi))) (fun _ => notE (pure (isnan v))) : Except Err Bool)
      = .ok (leEX lo v && leXE v hi) := by
  cases v <;> simp [leEX, leXE, isnan]

theorem spacetime_spec (evs : Evs α) (a b : Option α) (hab : ¬ (a = none ∧ b = none)) :
    applyCall ofNat (.spacetime .t (.tuple [toW a, toW b])) evs = .ok (keepSpec (fun p => windowP a b p.t) evs) ∧
    applyCall ofNat (.spacetime .x (.tuple [toW a, toW b])) evs = .ok (keepSpec (fun p => windowP a b p.x) evs) ∧
    applyCall ofNat (.spacetime .y (.tuple [toW a, toW b])) evs = .ok (keepSpec (fun p => windowP a b p.y) evs) ∧
    applyCall ofNat (.spacetime .z (.tuple [toW a, toW b])) evs = .ok (keepSpec (fun p => windowP a b p.z) evs) := by
  refine ⟨?_, ?_, ?_, ?_⟩ <;>
  · simp only [applyCall, spacetimeCut, preludeWindow, ensure_ok a b hab, bind_ok, pure_eq_ok]
    apply runLoop_ok _ (by decide)
    intro ev _ p _
    first
      | (rw [spacetime_cut_cond_0_t, window_cond, window_chain a b _ hab])
      | (rw [spacetime_cut_cond_0_x, window_cond, window_chain a b _ hab])
      | (rw [spacetime_cut_cond_0_y, window_cond, window_chain a b _ hab])
      | (rw [spacetime_cut_cond_0_else, window_cond, window_chain a b _ hab])

theorem prelude_nonneg_ok (a b : Option α) (hab : ¬ (a = none ∧ b = none)) (ha : nonnegO a) (hb : nonnegO b) :
    preludeWindowNonneg (.tuple [toW a, toW b]) = .ok (windowOf a b) := by
  simp only [preludeWindowNonneg, ensure_ok a b hab, bind_ok]
  cases a <;> cases b <;> simp_all [nonnegO]

theorem pT_mT_spec (evs : Evs α) (a b : Option α) (hab : ¬ (a = none ∧ b = none)) (ha : nonnegO a) (hb : nonnegO b) :
    applyCall ofNat (.pT (.tuple [toW a, toW b])) evs = .ok (keepSpec (fun p => windowP a b p.pT) evs) ∧
    applyCall ofNat (.mT (.tuple [toW a, toW b])) evs = .ok (keepSpec (fun p => windowP a b p.mT) evs) := by
  refine ⟨?_, ?_⟩ <;>
  · simp only [applyCall, prelude_nonneg_ok a b hab ha hb, bind_ok]
    apply runLoop_ok _ (by decide)
    intro ev _ p _
    first
      | (rw [pT_cut_cond_0, window_cond, window_chain a b _ hab])
      | (rw [mT_cut_cond_0, window_cond, window_chain a b _ hab])

/-- negative limits are rejected, as documented -/
theorem pT_negative_rejected (evs : Evs α) (a b : α) (h : a < 0 ∨ b < 0) :
    applyCall ofNat (.pT (.tuple [.num a, .num b])) evs = .error .value := by
  simp only [applyCall, preludeWindowNonneg, ensureTuple, bind_ok, pure_eq_ok]
  rcases h with h | h <;> simp [h] <;> rfl

/-- **limits in either order give the same window** -/
theorem window_comm (a b : α) (v : XV α) : windowP (some a) (some b) v = windowP (some b) (some a) v := by
  cases v <;> simp [windowP, min_comm, max_comm]


/-! ### rapidity-like cuts: a pair in either order, or a single number = window symmetric about zero -/

/-- admissible for the space-time rapidity cut: no particle with `|z| ≥ t`, for which
`Particle.spacetime_rapidity` raises its documented `ValueError` (C08) -/
def EtasDefined (evs : Evs α) : Prop := ∀ ev ∈ evs, ∀ p ∈ ev, p.etasRaises = false

omit [AddCommGroup α] [IsOrderedAddMonoid α] in
theorem pymin_comm (a b : α) : Ext.pymin (.fin a) (.fin b) = Ext.pymin (.fin b) (.fin a) := by
  unfold Ext.pymin
  simp only [Ext.le_fin]
  by_cases h : a ≤ b <;> by_cases h2 : b ≤ a
  · rw [le_antisymm h h2]
  · simp [h, h2]
  · simp [h, h2]
  · exact absurd (le_of_not_ge h) h2

omit [AddCommGroup α] [IsOrderedAddMonoid α] in
theorem pymax_comm (a b : α) : Ext.pymax (.fin a) (.fin b) = Ext.pymax (.fin b) (.fin a) := by
  unfold Ext.pymax
  simp only [Ext.le_fin]
  by_cases h : a ≤ b <;> by_cases h2 : b ≤ a
  · rw [le_antisymm h h2]
  · simp [h, h2]
  · simp [h, h2]
  · exact absurd (le_of_not_ge h) h2

theorem pair_ok (a b : α) :
    preludePair [WElem.num a, .num b] = .ok (windowOf (some a) (some b)) := by
  simp only [preludePair, ensureTuple, windowOf, bind_ok, pure_eq_ok]
  rw [pymin_comm, pymax_comm]

theorem rap_tuple_spec (evs : Evs α) (a b : α) :
    applyCall ofNat (.rapidity (.tuple [.num a, .num b])) evs
      = .ok (keepSpec (fun p => windowP (some a) (some b) p.rap) evs) ∧
    applyCall ofNat (.pseudorapidity (.tuple [.num a, .num b])) evs
      = .ok (keepSpec (fun p => windowP (some a) (some b) p.eta) evs) := by
  have hab : ¬ ((some a : Option α) = none ∧ (some b : Option α) = none) := by simp
  refine ⟨?_, ?_⟩ <;>
  · simp only [applyCall, rapLike, pair_ok, bind_ok]
    apply runLoop_ok _ (by decide)
    intro ev _ p _
    first
      | (rw [rapidity_cut_cond_0, window_cond, window_chain _ _ _ hab])
      | (rw [pseudorapidity_cut_cond_0, window_cond, window_chain _ _ _ hab])

theorem sym_cond (c : α) (v : XV α) :
    (andE (andE (pure (leFX (-|c|) v)) (fun _ => pure (leXF v |c|))) (fun _ => notE (pure (isnan v))) : Except Err Bool)
      = .ok (windowP (some (-|c|)) (some |c|) v) := by
  have h : -|c| ≤ |c| := neg_le_self (abs_nonneg c)
  cases v with
  | none => simp [leFX, leXF, isnan, windowP]
  | some x => simp [leFX, leXF, isnan, windowP, min_eq_left h, max_eq_right h]

/-- **a single number `c` means the window `[-|c|, |c|]`** -/
theorem rap_scalar_spec (evs : Evs α) (c : α) :
    applyCall ofNat (.rapidity (.scalar c)) evs
      = .ok (keepSpec (fun p => windowP (some (-|c|)) (some |c|) p.rap) evs) ∧
    applyCall ofNat (.pseudorapidity (.scalar c)) evs
      = .ok (keepSpec (fun p => windowP (some (-|c|)) (some |c|) p.eta) evs) := by
  refine ⟨?_, ?_⟩ <;>
  · simp only [applyCall, rapLike, absF_eq]
    apply runLoop_ok _ (by decide)
    intro ev _ p _
    first
      | (rw [rapidity_cut_cond_1]; exact sym_cond c _)
      | (rw [pseudorapidity_cut_cond_1]; exact sym_cond c _)

theorem etas_spec (evs : Evs α) (hd : EtasDefined evs) (a b c : α) :
    applyCall ofNat (.spacetimeRapidity (.tuple [.num a, .num b])) evs
      = .ok (keepSpec (fun p => windowP (some a) (some b) p.etas) evs) ∧
    applyCall ofNat (.spacetimeRapidity (.scalar c)) evs
      = .ok (keepSpec (fun p => windowP (some (-|c|)) (some |c|) p.etas) evs) := by
  have hab : ¬ ((some a : Option α) = none ∧ (some b : Option α) = none) := by simp
  constructor
  · simp only [applyCall, rapLike, pair_ok, bind_ok]
    apply runLoop_ok _ (by decide)
    intro ev hev p hp
    have he : etasOf p = .ok p.etas := by simp [etasOf, hd ev hev p hp]
    simp only [spacetime_rapidity_cut_cond_0, he, bind_ok]
    rw [window_cond, window_chain _ _ _ hab]
  · simp only [applyCall, rapLike, absF_eq]
    apply runLoop_ok _ (by decide)
    intro ev hev p hp
    have he : etasOf p = .ok p.etas := by simp [etasOf, hd ev hev p hp]
    simp only [spacetime_rapidity_cut_cond_1, he, bind_ok]
    exact sym_cond c _

/-- a pair containing `None` is rejected by the rapidity-like cuts, anything that is neither a tuple nor a number too -/
theorem rap_rejects (evs : Evs α) (a : α) :
    applyCall ofNat (.rapidity (.tuple [.none, .num a])) evs = .error .value ∧
    applyCall ofNat (.rapidity (.tuple [.num a, .none])) evs = .error .value ∧
    applyCall ofNat (.rapidity .other) evs = .error .type := by
  refine ⟨?_, ?_, ?_⟩ <;> simp [applyCall, rapLike, preludePair, ensureTuple] <;> rfl

/-! ### undefined quantities are dropped -/

theorem undefined_dropped (a b : Option α) (p : Part α) :
    (p.charge = none → chargedP p = false ∧ unchargedP p = false) ∧
    (p.ncoll = none → participantP p = false ∧ spectatorP p = false) ∧
    windowP a b (none : XV α) = false := by
  refine ⟨?_, ?_, rfl⟩ <;> intro h <;> simp [chargedP, unchargedP, participantP, spectatorP, h]

/-! ### event-level cuts -/

def nonemptyOr (evs : Evs α) : Evs α := if evs.isEmpty then [[]] else evs

omit [AddCommGroup α] [IsOrderedAddMonoid α] in
theorem not_le_dec (b x : α) : (!decide (b ≤ x)) = decide (x < b) := by
  rw [← decide_not]; simp only [not_le]

omit [AddCommGroup α] [IsOrderedAddMonoid α] in
theorem mult_pred (a b x : α) :
    (Ext.le (windowOf (some a) (some b)).1 (.fin x) && !(Ext.le (windowOf (some a) (some b)).2 (.fin x)))
      = (decide (min a b ≤ x) && decide (x < max a b)) := by
  simp only [windowOf, Ext.pymin, Ext.pymax, Ext.le_fin]
  by_cases h : a ≤ b
  · by_cases h2 : b ≤ a
    · have : a = b := le_antisymm h h2
      subst this; simp [Ext.le, not_le_dec]
    · simp [h, h2, Ext.le, min_eq_left h, max_eq_right h, not_le_dec]
  · have hba : b ≤ a := le_of_not_ge h
    simp [h, hba, Ext.le, min_eq_right hba, max_eq_left hba, not_le_dec]

/-- multiplicity in `[min, max)`; if no event is left the result is the single empty event `[[]]` -/
theorem multiplicity_spec (evs : Evs α) (a b : α) (ha : ¬ a < 0) (hb : ¬ b < 0) :
    applyCall ofNat (.multiplicity (.tuple [.num a, .num b])) evs =
      .ok (nonemptyOr (evs.filter (fun ev => decide (min a b ≤ ofNat ev.length) && decide (ofNat ev.length < max a b)))) := by
  have hab : ¬ ((some a : Option α) = none ∧ (some b : Option α) = none) := by simp
  have hp := prelude_nonneg_ok (some a) (some b) hab ha hb
  simp only [toW] at hp
  simp only [applyCall, hp, bind_ok, pure_eq_ok, multiplicityCut, nonemptyOr]
  have hf : (fun ev : Ev α => Ext.le (windowOf (some a) (some b)).1 (.fin (ofNat ev.length)) &&
        !(Ext.le (windowOf (some a) (some b)).2 (.fin (ofNat ev.length))))
      = (fun ev : Ev α => decide (min a b ≤ ofNat ev.length) && decide (ofNat ev.length < max a b)) := by
    funext ev; exact mult_pred a b _
  rw [hf]

theorem multiplicity_none_spec (evs : Evs α) (a : α) (ha : ¬ a < 0) :
    applyCall ofNat (.multiplicity (.tuple [.num a, .none])) evs =
      .ok (nonemptyOr (evs.filter (fun ev => decide (a ≤ ofNat ev.length)))) ∧
    applyCall ofNat (.multiplicity (.tuple [.none, .num a])) evs =
      .ok (nonemptyOr (evs.filter (fun ev => decide (ofNat ev.length < a)))) := by
  constructor
  · have hab : ¬ ((some a : Option α) = none ∧ (none : Option α) = none) := by simp
    have hp := prelude_nonneg_ok (some a) none hab ha trivial
    simp only [toW] at hp
    simp only [applyCall, hp, bind_ok, pure_eq_ok, multiplicityCut, nonemptyOr]
    simp [windowOf, Ext.pymin, Ext.pymax, Ext.le]
  · have hab : ¬ ((none : Option α) = none ∧ (some a : Option α) = none) := by simp
    have hp := prelude_nonneg_ok none (some a) hab trivial ha
    simp only [toW] at hp
    simp only [applyCall, hp, bind_ok, pure_eq_ok, multiplicityCut, nonemptyOr]
    simp [windowOf, Ext.pymin, Ext.pymax, Ext.le, not_le_dec]

/-- total event energy (sum of the defined energies) `≥` threshold; positive threshold required -/
theorem energy_cut_spec (evs : Evs α) (thr : α) :
    applyCall ofNat (.energyCut thr) evs =
      if thr ≤ 0 then .error .value
      else .ok (nonemptyOr (evs.filter (fun ev => decide (thr ≤ totalEnergy ev)))) := by
  simp only [applyCall, lowerEventEnergyCut, nonemptyOr]
  split <;> rfl

theorem totalEnergy_eq (ev : Ev α) :
    totalEnergy ev = (ev.filterMap (·.E)).sum := by
  unfold totalEnergy
  have : ∀ (acc : α), ev.foldl (fun acc p => match p.E with | some e => acc + e | none => acc) acc
      = acc + (ev.filterMap (·.E)).sum := by
    induction ev with
    | nil => intro acc; simp
    | cons p ps ih =>
      intro acc
      simp only [List.foldl_cons, List.filterMap_cons]
      cases hE : p.E with
      | none => simp [ih]
      | some e => simp [ih, add_assoc]
  have h := this 0
  rw [zero_add] at h
  exact h

/-! ### the generated loop shapes are the sound ones -/

theorem shapes_ok :
    [charged_particles_shape_0, uncharged_particles_shape_0, particle_species_shape_0, particle_species_shape_1,
     remove_particle_species_shape_0, remove_particle_species_shape_1, participants_shape_0, spectators_shape_0,
     spacetime_cut_shape_0, pT_cut_shape_0, mT_cut_shape_0, rapidity_cut_shape_0, rapidity_cut_shape_1,
     pseudorapidity_cut_shape_0, pseudorapidity_cut_shape_1, spacetime_rapidity_cut_shape_0,
     spacetime_rapidity_cut_shape_1, particle_status_shape_0, particle_status_shape_1, keep_hadrons_shape_0,
     keep_leptons_shape_0, keep_quarks_shape_0, keep_mesons_shape_0, keep_baryons_shape_0, keep_up_shape_0,
     keep_down_shape_0, keep_strange_shape_0, keep_charm_shape_0, keep_bottom_shape_0, keep_top_shape_0,
     remove_photons_shape_0].all (· != LoopShape.appendAfter) = true := by decide

end specs

/-! ### the broken shape really is wrong (monitor for the defect repaired in /repo fb8b5a8) -/

theorem appendAfter_wrong :
    loopAppendAfter ([[], []] : Evs Int) (fun _ => .ok true) = .ok [[]] ∧
    keepSpec (fun _ => true) ([[], []] : Evs Int) = [[], []] := by
  constructor <;> rfl

/-! ### non-vacuity -/

def p0 : Part Int :=
  { id := 0, charge := some 1, pdg := some 211, ncoll := some 0, status := some 1, t := some 1, x := some 0,
    y := none, z := some 0, E := some 2, pT := some 1, mT := some 1, rap := some 0, eta := some 0, etas := some 0,
    etasRaises := false, isHadron := some true, isLepton := some false, isQuark := some false, isMeson := some true,
    isBaryon := some false, hasUp := some true, hasDown := some true, hasStrange := some false,
    hasCharm := some false, hasBottom := some false, hasTop := some false }

example : PdgSet [[p0], []] ∧ EtasDefined [[p0], []] := by
  constructor <;> intro ev hev p hp <;> simp at hev <;> rcases hev with rfl | rfl <;> simp_all [p0]

example : (applyCall (fun n => (n : Int)) (.pT (.tuple [.num 1, .none])) [[p0, { p0 with id := 1, pT := some 0 }], []]).map
    (fun r => r.map (fun ev => ev.map (·.id))) = .ok [[0], []] := by decide

end SparkxVerif.C03
