/-
C08 — monitor (NOT a gating obligation): what `rapidity()` does for negative energies.

The unphysical-input clause of the property, read literally (`|pz| > E` for every real `E`), is false of
the code: for `E < 0` and `|pz| < |E|` the method returns the finite number `artanh(pz/E)` — which is
what its docstring formula gives and what the identity clause `y = artanh(pz/E)` asks for.  This file
proves that on the CURRENT source.  If the source is ever changed to return NaN for `E < 0`, this module
stops building; the check then only notes it (the gating theorems in `Props/C08.lean` assume `0 ≤ E`).
-/
import SparkxVerif.Props.C08

open SparkxVerif.Kin SparkxVerif.Kin.XReal SparkxVerif.Gen.Kin

namespace SparkxVerif.C08.NegE
variable (a : Attrs XReal) {E pz : ℝ}

/-- value of `rapidity()` outside the regulator band, any sign of `E` -/
theorem rapidity_val (hE : a.E = fin E) (hz : a.pz = fin pz) (hreg : ¬ |E - pz| < 1e-10) :
    rapidity a = .val (if 0 < (E + pz) / (E - pz) then fin (0.5 * Real.log ((E + pz) / (E - pz))) else nan) := by
  have h0 : E - pz ≠ 0 := by
    intro h; rw [h] at hreg; norm_num at hreg
  simp [rapidity, hE, hz, hreg, h0]

/-- rapidity, any sign of `E` : `y = artanh(pz/E)` wherever that is defined -/
theorem rapidity_def_signed (hE : a.E = fin E) (hz : a.pz = fin pz) (hphys : |pz| < |E|)
    (hreg : 1e-9 < |(|E| - |pz|)|) :
    rapidity a = .val (fin (Real.artanh (pz / E))) := by
  have hE0 : E ≠ 0 := by rintro rfl; simp at hphys; exact absurd hphys (not_lt.mpr (abs_nonneg _))
  have hd : 1e-9 < |E| - |pz| := by rwa [abs_of_pos (by linarith)] at hreg
  have hm : 1e-9 < |E - pz| := by
    have := abs_sub_abs_le_abs_sub E pz; linarith
  have hp : 1e-9 < |E + pz| := by
    have := abs_sub_abs_le_abs_sub E (-pz); rw [abs_neg, sub_neg_eq_add] at this; linarith
  have hm0 : E - pz ≠ 0 := by intro h; rw [h] at hm; norm_num at hm
  have hp0 : E + pz ≠ 0 := by intro h; rw [h] at hp; norm_num at hp
  rw [rapidity_val a hE hz (by intro h; linarith [show (1e-10:ℝ) < 1e-9 by norm_num]),
    if_pos ((ratio_pos_iff hm0 hp0).mpr hphys), artanh_div hE0 hphys]

theorem rapidity_unphysical_signed (hE : a.E = fin E) (hz : a.pz = fin pz) (hun : |E| < |pz|)
    (hreg : ¬ |E - pz| < 1e-10) : rapidity a = .val nan := by
  have hm0 : E - pz ≠ 0 := by
    intro h; have : E = pz := by linarith
    rw [this] at hun; exact lt_irrefl _ hun
  have hp0 : E + pz ≠ 0 := by
    intro h; have : E = -pz := by linarith
    rw [this, abs_neg] at hun; exact lt_irrefl _ hun
  rw [rapidity_val a hE hz hreg, if_neg]
  rw [ratio_pos_iff hm0 hp0]; exact not_lt.mpr hun.le

/-- `y` is odd under `pz ↦ -pz` for either sign of `E` -/
theorem rapidity_odd_signed (hE : a.E = fin E) (hz : a.pz = fin pz) (hreg : 1e-9 < |(|E| - |pz|)|) :
    rapidity (reflect a) = Res.neg (rapidity a) := by
  have hm : 1e-9 < |E - pz| := by
    have := abs_abs_sub_abs_le_abs_sub E pz; linarith
  have hp : 1e-9 < |E + pz| := by
    have := abs_abs_sub_abs_le_abs_sub E (-pz); rw [abs_neg, sub_neg_eq_add] at this; linarith
  have hlit : (1e-10 : ℝ) < 1e-9 := by norm_num
  have hm0 : E - pz ≠ 0 := by intro h; rw [h] at hm; norm_num at hm
  have hp0 : E + pz ≠ 0 := by intro h; rw [h] at hp; norm_num at hp
  have hz' : (reflect a).pz = fin (-pz) := by simp [reflect, hz]
  have hE' : (reflect a).E = fin E := hE
  rw [rapidity_val (reflect a) hE' hz' (by rw [sub_neg_eq_add]; intro h; linarith),
    rapidity_val a hE hz (by intro h; linarith)]
  have hinv : (E + -pz) / (E - -pz) = ((E + pz) / (E - pz))⁻¹ := by
    rw [inv_div, sub_neg_eq_add]; rfl
  rw [hinv]
  by_cases hr : 0 < (E + pz) / (E - pz)
  · rw [if_pos hr, if_pos (inv_pos.mpr hr), Real.log_inv]; simp [Res.neg]
  · rw [if_neg hr, if_neg (by rwa [inv_pos])]; rfl

/-- witness: `E = -2, pz = 1` -/
noncomputable def negE : Attrs XReal := ⟨nan, nan, nan, nan, fin (-2), nan, nan, fin 1, none⟩

theorem negE_rapidity : rapidity negE = .val (fin (Real.artanh (1 / -2))) := by
  apply rapidity_def_signed negE rfl rfl <;> norm_num

theorem C08_unphysical_rapidity_full_false : ¬ C08_unphysical_rapidity_full := by
  intro h
  apply h negE (-2) 1 rfl rfl (by norm_num) (by norm_num)
  rw [negE_rapidity]; trivial


end SparkxVerif.C08.NegE
