/-
C05 — passing `filters={…}` to a constructor is equivalent to loading without it and calling the same filter
methods with the same arguments in the same order.

1. Tables (`Gen/Dispatch.lean`, regenerated from the three `__apply_kwargs_filters` chains and the method wrappers
   on every run): `dispatch_agrees`, `ctor_keys_subset_methods`, `ctor_keys_nodup`, `ctor_else_raises`,
   `overrides_consistent` by `decide`.
2. What they mean for a dictionary: `entry_agrees`, `ctor_dispatch_eq_methods` (same sequence of Filter calls),
   `false_is_noop`, `unknown_key_rejected(_dict)`.
3. Main theorems `ctor_eq_methods_oscar`, `ctor_eq_methods_jetscape` (shared reader model R, any file, any
   selection, any ordered chain of admissible calls, by induction over the lines and over the chain — no size
   bound) and `ctor_eq_methods_obj`; the locality lemma `call_local`; `ctor_raises_*`.
   Hypotheses: the plain load succeeds and is `Booked` (its counts describe its events — what C01/C02 state for
   well-formed files; the driver evaluates this on every generated file), the calls are admissible (`AdmChain`,
   one constructor per specification of Props/C03) and the data admissible for them (`DataOK`: `|z| < t` if the
   space-time rapidity cut occurs — the documented `ValueError`; particles without PDG id need no exclusion: the
   species filters drop them since /repo 9f9a2e0).
4. The dictionary-level event filter executed by the driver equals the call-level one of the theorems
   (`ctorFilterDict_eq`); unknown keys at the constructor (`unknown_key_rejected_oscar/_jetscape`).
-/
import SparkxVerif.Lemmas.Dispatch
import Mathlib.Algebra.Order.Group.Int

namespace SparkxVerif.C05
open SparkxVerif.Flt SparkxVerif.Rd SparkxVerif.Dsp SparkxVerif.Gen.Dispatch SparkxVerif.C03

/-! ## 1. the dispatch tables (generated from the source on every run) -/

def arity : Mode → Nat
  | .switch => 0 | .value => 1 | .unpack _ => 2

/-- the constructor branch `e` of class `c` and the method of the same name agree -/
def entryOK (c : Cls) (e : CtorEntry) : Bool :=
  e.valKey == e.key && !(notImpl c).contains e.key &&
  match (methodTable c).find? (fun m => m.name == e.key) with
  | some m => m.fn == e.fn && m.passed == m.params && decide m.params.Nodup && m.params.length == arity e.mode
              && m.recount && m.returnsSelf
  | none => false

/-- **dispatch_agrees** — for every key a class supports, the constructor branch consults its own dictionary
entry and reaches the Filter function that the method of the same name reaches, with the same argument shape
(switch ↔ no parameter, value ↔ one parameter handed on unchanged, two list items ↔ two parameters handed on in
order); that method is not overridden to raise, recounts and returns `self` -/
theorem dispatch_agrees : ∀ c : Cls, (ctorTable c).entries.all (entryOK c) = true := by
  intro c; cases c <;> decide

/-- **ctor_keys_subset_methods** — every constructor key of a class is a usable method of that class, and every
filter method that is not overridden to raise `NotImplementedError` is a constructor key -/
theorem ctor_keys_subset_methods : ∀ c : Cls,
    (ctorTable c).entries.all (fun e => (methodTable c).any (fun m => m.name == e.key) && !(notImpl c).contains e.key) = true ∧
    (methodTable c).all (fun m => (notImpl c).contains m.name || (ctorTable c).entries.any (fun e => e.key == m.name)) = true := by
  intro c; cases c <;> decide

/-- no key occurs twice in an if/elif chain (a second branch would be dead code) -/
theorem ctor_keys_nodup : ∀ c : Cls, ((ctorTable c).entries.map (·.key)).Nodup := by
  intro c; cases c <;> decide

/-- the final `else` of every chain raises `ValueError`; an empty dictionary returns the event unchanged; every
use of the chain has the shape `self.__apply_kwargs_filters([x], kwargs["filters"])[0]` -/
theorem ctor_else_raises : ∀ c : Cls, (ctorTable c).elseRaises = some "ValueError" ∧ (ctorTable c).emptyReturns = true := by
  intro c; cases c <;> decide

/-- every NotImplementedError override hides a `BaseStorer` filter method, and overriding wrappers — written out
again, or *delegating* (`delegates = true`: one `super().<same name>(<same parameters>)`, `return self`, otherwise
metadata only) — keep the Filter function, the arity and the recount of the method they replace -/
theorem overrides_consistent : ∀ c : Cls,
    (notImpl c).all (fun n => baseMethods.any (fun m => m.name == n)) = true ∧
    (overrides c).all (fun o => baseMethods.any (fun m => m.name == o.name && m.fn == o.fn && m.params.length == o.params.length
        && m.recount == o.recount)) = true := by
  intro c; cases c <;> decide

/-- monitor (table drift between the copies): only `OscarLoader` checks that the `spacetime_cut` value is a list;
`ParticleObjectLoader` unpacks whatever it is given, `JetscapeLoader` has no such key -/
theorem spacetime_list_check_differs :
    ((ctorTable .oscar).entries.find? (fun e => e.key == "spacetime_cut")).map (·.mode) = some (.unpack true) ∧
    ((ctorTable .obj).entries.find? (fun e => e.key == "spacetime_cut")).map (·.mode) = some (.unpack false) ∧
    ((ctorTable .jetscape).entries.find? (fun e => e.key == "spacetime_cut")) = none := by decide

/-! ## 2. what the tables mean for a dictionary -/

section sem
variable {α : Type}

/-- one dictionary entry: what the constructor does with it is what calling the method of that name with that
value does -/
theorem entry_agrees (c : Cls) (dict : Dict α) (k : String) (v : DVal α) (hk : dict.lookup k = some v)
    (calls : List (Call α)) (h : ctorStep c dict k = .ok calls) : methodOfEntry c k v = .ok calls := by
  unfold ctorStep at h
  cases hf : (ctorTable c).entries.find? (fun e => e.key == k) with
  | none =>
    rw [hf] at h
    have := (ctor_else_raises c).1
    simp [this] at h
  | some e =>
    rw [hf] at h
    have hmem : e ∈ (ctorTable c).entries := List.mem_of_find?_eq_some hf
    have hkey : e.key = k := by simpa using List.find?_some hf
    have hok := List.all_eq_true.1 (dispatch_agrees c) e hmem
    unfold entryOK at hok
    cases hm : (methodTable c).find? (fun m => m.name == e.key) with
    | none => simp [hm] at hok
    | some m =>
      simp only [hm, Bool.and_eq_true, beq_iff_eq, Bool.not_eq_true', decide_eq_true_eq] at hok
      obtain ⟨⟨hvk, hni⟩, ⟨⟨⟨⟨hfn, hpass⟩, hnd⟩, hlen⟩, _⟩, _⟩ := hok
      simp only at h
      rw [hvk, hkey, hk] at h
      simp only at h
      rw [hkey] at hni hm
      unfold methodOfEntry
      simp only [hm]
      have hcall : ∀ args : List (DVal α), args.length = m.params.length →
          m.passed.mapM (fun p => (m.params.zip args).lookup p) = some args →
          methodCall c k args = callOfE e.fn args := by
        intro args hal hmap
        unfold methodCall
        simp only [hni, Bool.false_eq_true, if_false, hm, hal, bne_self_eq_false, hmap, hfn]
      unfold ctorBranch at h
      cases hmode : e.mode with
      | switch =>
        rw [hmode] at h hlen
        simp only [arity] at hlen
        have hp : m.params = [] := List.eq_nil_of_length_eq_zero hlen
        rw [hlen]
        cases v with
        | flag b =>
          cases b with
          | false => simpa using h
          | true =>
            simp only at h ⊢
            rw [hcall [] (by simp [hp]) (by simp [hpass, hp])]
            exact h
        | _ => simp at h ⊢
      | value =>
        rw [hmode] at h hlen
        simp only [arity] at hlen
        obtain ⟨p, hp⟩ : ∃ p, m.params = [p] := by
          cases hps : m.params with
          | nil => simp [hps] at hlen
          | cons p ps =>
            cases ps with
            | nil => exact ⟨p, rfl⟩
            | cons _ _ => simp [hps] at hlen
        rw [hlen]
        simp only at h ⊢
        rw [hcall [v] (by simp [hp]) (by simp [hpass, hp, List.lookup])]
        exact h
      | unpack chk =>
        rw [hmode] at h hlen
        simp only [arity] at hlen
        obtain ⟨p, q, hp⟩ : ∃ p q, m.params = [p, q] := by
          cases hps : m.params with
          | nil => simp [hps] at hlen
          | cons p ps =>
            cases ps with
            | nil => simp [hps] at hlen
            | cons q qs =>
              cases qs with
              | nil => exact ⟨p, q, rfl⟩
              | cons _ _ => simp [hps] at hlen
        have hpq : (q == p) = false := by
          rw [hp] at hnd
          simp only [List.nodup_cons, List.mem_singleton] at hnd
          have : q ≠ p := fun hqp => hnd.1 hqp.symm
          simpa using this
        rw [hlen]
        cases v with
        | seq isList d a =>
          simp only at h ⊢
          split at h
          · cases h
          · rw [hcall [.dim d, .window a] (by simp [hp]) (by simp [hpass, hp, List.lookup, hpq])]
            exact h
        | other =>
          simp only at h
          split at h <;> cases h
        | _ => simp at h ⊢

/-- **dispatch_agrees, for whole dictionaries** — whenever the constructor accepts a dictionary, the sequence of
Filter calls it makes on each event is exactly the sequence made by calling, in insertion order, the method
named by each key with the key's value (switches that are `False` are not called) -/
theorem ctor_dispatch_eq_methods (c : Cls) (dict : Dict α) (hnd : (dict.map (·.1)).Nodup) (calls : List (Call α))
    (h : ctorDispatch c dict = .ok calls) : methodsOfDict c dict = .ok calls := by
  unfold ctorDispatch at h
  unfold methodsOfDict
  obtain ⟨css, hcss, hfl⟩ := bind_eq_ok.1 h
  rw [List.mapM_map] at hcss
  have := mapM_congr_ok dict (fun kv => ctorStep c dict kv.1) (fun kv => methodOfEntry c kv.1 kv.2) css
    (fun kv hkv y hy => entry_agrees c dict kv.1 kv.2 (lookup_of_mem dict hnd kv.1 kv.2 hkv) y hy) hcss
  rw [this]
  exact hfl

/-- **false_is_noop** — a switch key whose value is `False` makes no call at all -/
theorem false_is_noop (c : Cls) (dict : Dict α) (e : CtorEntry) (he : e ∈ (ctorTable c).entries)
    (hsw : e.mode = .switch) (hoff : dict.lookup e.key = some (.flag false)) :
    ctorStep c dict e.key = .ok [] := by
  unfold ctorStep
  have hfind : (ctorTable c).entries.find? (fun x => x.key == e.key) = some e := by
    have hnd := ctor_keys_nodup c
    revert he hnd
    generalize (ctorTable c).entries = l
    intro he hnd
    induction l with
    | nil => cases he
    | cons x xs ih =>
      simp only [List.map_cons, List.nodup_cons] at hnd
      rcases List.mem_cons.1 he with rfl | hxs
      · simp [List.find?]
      · have hne : (x.key == e.key) = false := by
          have : x.key ≠ e.key := fun hh => hnd.1 (hh ▸ List.mem_map.2 ⟨e, hxs, rfl⟩)
          simpa using this
        simp only [List.find?, hne]
        exact ih hxs hnd.2
  have hok := List.all_eq_true.1 (dispatch_agrees c) e he
  have hvk : e.valKey = e.key := by
    unfold entryOK at hok
    simp only [Bool.and_eq_true, beq_iff_eq] at hok
    exact hok.1.1
  simp only [hfind, hvk, hoff, ctorBranch, hsw]
  rfl

/-- **unknown_key_rejected** — a key that is in no branch of the class's chain raises `ValueError` -/
theorem unknown_key_rejected (c : Cls) (dict : Dict α) (k : String)
    (hk : k ∉ (ctorTable c).entries.map (·.key)) : ctorStep c dict k = .error (.flt .value) := by
  unfold ctorStep
  have hfind : (ctorTable c).entries.find? (fun x => x.key == k) = none := by
    rw [List.find?_eq_none]
    intro x hx hxk
    exact hk (List.mem_map.2 ⟨x, hx, by simpa using hxk⟩)
  simp only [hfind, (ctor_else_raises c).1]
  rfl

/-- … and so is the whole dictionary, wherever the unknown key stands (rejected, not ignored) -/
theorem unknown_key_rejects_dict (c : Cls) (dict : Dict α) (k : String) (hin : k ∈ dict.map (·.1))
    (hk : k ∉ (ctorTable c).entries.map (·.key)) : ∃ e, ctorDispatch c dict = .error e := by
  obtain ⟨e', he'⟩ := mapM_error_of_mem (dict.map (·.1)) (ctorStep c dict) k hin _ (unknown_key_rejected c dict k hk)
  exact ⟨e', by simp [ctorDispatch, he', bind, Except.bind]⟩

end sem

/-! ## 3. constructor filters ≡ filter methods -/

section main
variable {α : Type} [LinearOrder α] [AddCommGroup α] [IsOrderedAddMonoid α] (ofNat : ℕ → α)

/-- from "the filtered load holds, event by event, the survivors of the chain" to the comparison with the
method path (shared by both loaders) -/
theorem assemble (view : PLine → Part α) (hid : ∀ pl, (view pl).id = pl.lineNo)
    (calls : List (Call α)) (ss : List (Sem α)) (hadm : AdmChain ofNat calls ss)
    (L0 L1 : Loaded) (hbook : Booked L0) (hdata : DataOK calls (L0.events.map (·.map view)))
    (hev : nonempty L1.events = nonempty (L0.events.map (ctorPure view ss)))
    (hcn : nonzeroCounts L1.counts = (nonempty L1.events).map (fun e => (e.length : Int))) :
    ∃ H, methods ofNat calls (heldOf view L0) = .ok H ∧
      nonempty (lineIds L1.events) = nonempty (partIds H.events) ∧
      nonzeroCounts L1.counts = nonzeroCounts H.counts := by
  obtain ⟨hne, rows, hrows, hcol⟩ := hbook
  have hb0 : BookedH (heldOf view L0) := by
    refine ⟨by simpa [heldOf] using hne, rows, hrows, ?_⟩
    simp [heldOf, hcol, List.map_map, Function.comp_def]
  obtain ⟨H, hm, hHe, hHb⟩ := methods_ok ofNat hadm (heldOf view L0) hb0 hdata
  have hL : nonempty (lineIds L1.events)
      = nonempty (L0.events.map (fun e => (perEvent ss (e.map view)).map (·.id))) := by
    unfold lineIds
    rw [nonempty_map_map, hev, ← nonempty_map_map, List.map_map]
    congr 1
    apply List.map_congr_left
    intro e _
    exact ctorPure_ids view hid ss e
  have hR : nonempty (partIds H.events)
      = nonempty (L0.events.map (fun e => (perEvent ss (e.map view)).map (·.id))) := by
    unfold partIds
    rw [hHe, nonempty_map_map, runAll_local, flatMap_nonempty_single, ← nonempty_map_map]
    simp only [heldOf, List.map_map]
    rfl
  have hids : nonempty (lineIds L1.events) = nonempty (partIds H.events) := hL.trans hR.symm
  refine ⟨H, hm, hids, ?_⟩
  obtain ⟨_, rowsH, hrH, hcolH⟩ := hHb
  have h2 : nonzeroCounts H.counts = (nonempty H.events).map (fun e => (e.length : Int)) := by
    unfold nonzeroCounts
    rw [hrH]
    simp only [rowsOf, hcolH]
    exact nonzero_lengths _
  rw [hcn, h2]
  have e1 := lengths_of_ids (·.lineNo) (nonempty L1.events)
  have e2 := lengths_of_ids (·.id) (nonempty H.events)
  rw [← e1, ← e2, ← nonempty_map_map, ← nonempty_map_map]
  unfold lineIds partIds at hids
  rw [hids]

/-- **ctor_eq_methods (Oscar)** — for every file (any lines), every event selection, every ordered chain of
admissible filter calls: if the plain load succeeds and its counts describe its events, then the load with
`filters=` succeeds, the method chain on the plain load succeeds, and both hold — after deleting the events
without particles — the same particles (identified by file line) in the same order in the same events, with the
same per-event counts. -/
theorem ctor_eq_methods_oscar (F : FileF) (sel : Sel) (view : PLine → Part α) (hid : ∀ pl, (view pl).id = pl.lineNo)
    (calls : List (Call α)) (ss : List (Sem α)) (hadm : AdmChain ofNat calls ss)
    (L0 : Loaded) (h0 : readOscar F sel none = .ok L0) (hbook : Booked L0)
    (hdata : DataOK calls (L0.events.map (·.map view))) :
    ∃ L1 H, readOscar F sel (some (ctorFilter ofNat view calls)) = .ok L1 ∧
      methods ofNat calls (heldOf view L0) = .ok H ∧
      nonempty (lineIds L1.events) = nonempty (partIds H.events) ∧
      nonzeroCounts L1.counts = nonzeroCounts H.counts := by
  have hef : ∀ e ∈ L0.events, ctorFilter ofNat view calls e = .ok (ctorPure view ss e) := by
    intro e he
    exact ctorFilter_ok ofNat hadm view e (dataOK_single hdata _ (List.mem_map.2 ⟨e, he, rfl⟩))
  obtain ⟨L1, hr, hev, hcn⟩ := readOscar_ctor F sel _ (ctorPure view ss) L0 (ctorPure_nil view ss) h0 hbook hef
  obtain ⟨H, hm, hids, hc⟩ := assemble ofNat view hid calls ss hadm L0 L1 hbook hdata hev hcn
  exact ⟨L1, H, hr, hm, hids, hc⟩

/-- **ctor_eq_methods (JETSCAPE)** — the same statement for `readJetscape` (hadron or parton file) -/
theorem ctor_eq_methods_jetscape (F : FileF) (sel : Sel) (partons : Bool) (view : PLine → Part α)
    (hid : ∀ pl, (view pl).id = pl.lineNo)
    (calls : List (Call α)) (ss : List (Sem α)) (hadm : AdmChain ofNat calls ss)
    (L0 : Loaded) (h0 : readJetscape F sel partons none = .ok L0) (hbook : Booked L0)
    (hdata : DataOK calls (L0.events.map (·.map view))) :
    ∃ L1 H, readJetscape F sel partons (some (ctorFilter ofNat view calls)) = .ok L1 ∧
      methods ofNat calls (heldOf view L0) = .ok H ∧
      nonempty (lineIds L1.events) = nonempty (partIds H.events) ∧
      nonzeroCounts L1.counts = nonzeroCounts H.counts := by
  have hef : ∀ e ∈ L0.events, ctorFilter ofNat view calls e = .ok (ctorPure view ss e) := by
    intro e he
    exact ctorFilter_ok ofNat hadm view e (dataOK_single hdata _ (List.mem_map.2 ⟨e, he, rfl⟩))
  obtain ⟨L1, hr, hev, hcn⟩ :=
    readJetscape_ctor F sel partons _ (ctorPure view ss) L0 (ctorPure_nil view ss) h0 hbook hef
  obtain ⟨H, hm, hids, hc⟩ := assemble ofNat view hid calls ss hadm L0 L1 hbook hdata hev hcn
  exact ⟨L1, H, hr, hm, hids, hc⟩

/-- **ctor_eq_methods (particle-object storer, events)** — `ParticleObjectLoader` applies the chain to every
event of the given list separately; the method chain applies it to the whole list: same non-empty events -/
theorem ctor_eq_methods_obj (calls : List (Call α)) (ss : List (Sem α)) (hadm : AdmChain ofNat calls ss)
    (evs : Evs α) (hdata : DataOK calls evs) :
    ∃ r1 r2, objCtor ofNat calls evs = .ok r1 ∧ chain ofNat calls evs = .ok r2 ∧ nonempty r1 = nonempty r2 := by
  refine ⟨_, _, objCtor_ok ofNat hadm evs hdata, chain_ok ofNat hadm evs hdata, ?_⟩
  rw [runAll_local, flatMap_nonempty_single]

/-- **the locality lemma** behind it, for every admissible call: after deleting the empty events, the call acts
on every event separately (the `[[]]` placeholder of the event-level cuts is an empty event like any other) -/
theorem call_local {c : Call α} {s : Sem α} (h : Adm ofNat c s) (evs : Evs α)
    (he : needsEtas c = true → EtasDefined evs) :
    ∃ r, applyCall ofNat c evs = .ok r ∧
      nonempty r = evs.flatMap (fun e => nonempty (s.run [e])) ∧
      ∀ e ∈ evs, applyCall ofNat c [e] = .ok (s.run [e]) := by
  refine ⟨s.run evs, adm_spec ofNat h evs he, run_local s evs, ?_⟩
  intro e hevs
  apply adm_spec ofNat h [e]
  intro hn e' he' p hpp
  simp only [List.mem_singleton] at he'; subst he'
  exact he hn e' hevs p hpp

/-- an unknown key (or any dictionary whose dispatch raises) makes the constructor raise as soon as one event
ends — it is not silently ignored -/
theorem ctor_raises_oscar (F : FileF) (sel : Sel) (ef : EvFilter) (L0 : Loaded)
    (hef : ∀ d, ∃ x, ef d = .error x) (h0 : readOscar F sel none = .ok L0) (hne : L0.events ≠ [[]]) :
    ∃ x, readOscar F sel (some ef) = .error x :=
  readOscar_ctor_err F sel ef L0 hef h0 hne

theorem ctor_raises_jetscape (F : FileF) (sel : Sel) (partons : Bool) (ef : EvFilter) (L0 : Loaded)
    (hef : ∀ d, ∃ x, ef d = .error x) (h0 : readJetscape F sel partons none = .ok L0) (hne : L0.events ≠ [[]]) :
    ∃ x, readJetscape F sel partons (some ef) = .error x :=
  readJetscape_ctor_err F sel partons ef L0 hef h0 hne

end main


/-! ## 4. the dictionary-level event filter that the driver runs is the call-level one of the theorems -/

section dictlevel
variable {α : Type} [LE α] [LT α] [DecidableLE α] [DecidableLT α] [Neg α] [Zero α] [Add α] (ofNat : Nat → α)

theorem foldlM_steps (c : Cls) (dict : Dict α) (keys : List String) (css : List (List (Call α)))
    (h : keys.mapM (ctorStep c dict) = .ok css) (evs : Evs α) :
    keys.foldlM (ctorKeyStep ofNat c dict) evs = chain ofNat css.flatten evs := by
  induction keys generalizing css evs with
  | nil =>
    simp only [List.mapM_nil, pure, Except.pure, Except.ok.injEq] at h
    subst h; rfl
  | cons k ks ih =>
    rw [List.mapM_cons] at h
    obtain ⟨cs, hcs, h⟩ := bind_eq_ok.1 h
    obtain ⟨css', hcss', h⟩ := bind_eq_ok.1 h
    simp only [pure, Except.pure, Except.ok.injEq] at h
    subst h
    simp only [List.foldlM_cons, ctorKeyStep, hcs, List.flatten_cons, chain_append]
    cases hch : chain ofNat cs evs with
    | error e => rfl
    | ok evs' => exact ih css' hcss' evs'

/-- if the dictionary dispatches to `calls`, applying it key by key inside the event is the chain of `calls` -/
theorem ctorApplyDict_eq (c : Cls) (dict : Dict α) (calls : List (Call α)) (h : ctorDispatch c dict = .ok calls)
    (evs : Evs α) : ctorApplyDict ofNat c dict evs = chain ofNat calls evs := by
  unfold ctorDispatch at h
  obtain ⟨css, hcss, hfl⟩ := bind_eq_ok.1 h
  simp only [pure, Except.pure, Except.ok.injEq] at hfl
  subst hfl
  unfold ctorApplyDict
  split
  · rename_i hemp
    have : dict = [] := by
      simp only [Bool.and_eq_true, List.isEmpty_iff] at hemp
      exact hemp.1
    subst this
    simp only [List.map_nil, List.mapM_nil, pure, Except.pure, Except.ok.injEq] at hcss
    subst hcss; rfl
  · exact foldlM_steps ofNat c dict _ css hcss evs

theorem ctorFilterDict_eq (c : Cls) (view : PLine → Part α) (dict : Dict α) (calls : List (Call α))
    (h : ctorDispatch c dict = .ok calls) : ctorFilterDict ofNat c view dict = ctorFilter ofNat view calls := by
  funext data
  simp only [ctorFilterDict, ctorFilter, ctorApplyDict_eq ofNat c dict calls h]

/-- a dictionary with an unknown key raises on every event (whatever the other entries do) -/
theorem ctorFilterDict_unknown (c : Cls) (view : PLine → Part α) (dict : Dict α) (k : String)
    (hin : k ∈ dict.map (·.1)) (hk : k ∉ (ctorTable c).entries.map (·.key)) :
    ∀ data, ∃ x, ctorFilterDict ofNat c view dict data = .error x := by
  intro data
  have hne : dict.isEmpty = false := by
    cases dict with
    | nil => cases hin
    | cons _ _ => rfl
  have hfold : ∀ (keys : List String) (evs : Evs α), k ∈ keys →
      ∃ x, keys.foldlM (ctorKeyStep ofNat c dict) evs = .error x := by
    intro keys
    induction keys with
    | nil => intro _ h; cases h
    | cons k0 ks ih =>
      intro evs hmem
      simp only [List.foldlM_cons, ctorKeyStep]
      cases hs : ctorStep c dict k0 with
      | error e => exact ⟨rdErr e, rfl⟩
      | ok cs =>
        have hk0 : k ≠ k0 := by
          intro hh; subst hh
          rw [unknown_key_rejected c dict k hk] at hs; cases hs
        have hmem' : k ∈ ks := by
          rcases List.mem_cons.1 hmem with h | h
          · exact absurd h hk0
          · exact h
        dsimp only
        cases hch : chain ofNat cs evs with
        | error e => exact ⟨e, rfl⟩
        | ok evs' => exact ih evs' hmem'
  obtain ⟨x, hx⟩ := hfold (dict.map (·.1)) [data.map view] hin
  refine ⟨x, ?_⟩
  simp only [ctorFilterDict, ctorApplyDict, hne, Bool.false_and, Bool.false_eq_true, if_false, hx, bind, Except.bind]

end dictlevel


/-! ## 4b. the statement at the level of the dictionary -/

section headline
variable {α : Type} [LinearOrder α] [AddCommGroup α] [IsOrderedAddMonoid α] (ofNat : ℕ → α)

/-- **C05 for `Oscar`** — `Oscar(file, events=sel, filters=d)` versus `Oscar(file, events=sel).k₁(v₁).k₂(v₂)…`:
for every ordered dictionary `d` with distinct keys that the constructor's chain dispatches (to `calls`), the
method path makes the same calls; if they are admissible, both paths succeed and hold the same non-empty events
(same file lines, same order) with the same counts. -/
theorem ctor_eq_methods_dict_oscar (F : FileF) (sel : Sel) (view : PLine → Part α) (hid : ∀ pl, (view pl).id = pl.lineNo)
    (dict : Dict α) (hnd : (dict.map (·.1)).Nodup) (calls : List (Call α)) (hdisp : ctorDispatch .oscar dict = .ok calls)
    (ss : List (Sem α)) (hadm : AdmChain ofNat calls ss)
    (L0 : Loaded) (h0 : readOscar F sel none = .ok L0) (hbook : Booked L0)
    (hdata : DataOK calls (L0.events.map (·.map view))) :
    methodsOfDict .oscar dict = .ok calls ∧
    ∃ L1 H, readOscar F sel (some (ctorFilterDict ofNat .oscar view dict)) = .ok L1 ∧
      methods ofNat calls (heldOf view L0) = .ok H ∧
      nonempty (lineIds L1.events) = nonempty (partIds H.events) ∧
      nonzeroCounts L1.counts = nonzeroCounts H.counts := by
  refine ⟨ctor_dispatch_eq_methods .oscar dict hnd calls hdisp, ?_⟩
  rw [ctorFilterDict_eq ofNat .oscar view dict calls hdisp]
  exact ctor_eq_methods_oscar ofNat F sel view hid calls ss hadm L0 h0 hbook hdata

/-- **C05 for `Jetscape`** -/
theorem ctor_eq_methods_dict_jetscape (F : FileF) (sel : Sel) (partons : Bool) (view : PLine → Part α)
    (hid : ∀ pl, (view pl).id = pl.lineNo)
    (dict : Dict α) (hnd : (dict.map (·.1)).Nodup) (calls : List (Call α)) (hdisp : ctorDispatch .jetscape dict = .ok calls)
    (ss : List (Sem α)) (hadm : AdmChain ofNat calls ss)
    (L0 : Loaded) (h0 : readJetscape F sel partons none = .ok L0) (hbook : Booked L0)
    (hdata : DataOK calls (L0.events.map (·.map view))) :
    methodsOfDict .jetscape dict = .ok calls ∧
    ∃ L1 H, readJetscape F sel partons (some (ctorFilterDict ofNat .jetscape view dict)) = .ok L1 ∧
      methods ofNat calls (heldOf view L0) = .ok H ∧
      nonempty (lineIds L1.events) = nonempty (partIds H.events) ∧
      nonzeroCounts L1.counts = nonzeroCounts H.counts := by
  refine ⟨ctor_dispatch_eq_methods .jetscape dict hnd calls hdisp, ?_⟩
  rw [ctorFilterDict_eq ofNat .jetscape view dict calls hdisp]
  exact ctor_eq_methods_jetscape ofNat F sel partons view hid calls ss hadm L0 h0 hbook hdata

end headline

/-- **unknown_key_rejected, at the constructor** — a dictionary containing a key that is in no branch makes
`Oscar(file, filters=d)` raise (for any other entries, any selection), provided the plain load holds more than the
placeholder event -/
theorem unknown_key_rejected_oscar {α : Type} [LE α] [LT α] [DecidableLE α] [DecidableLT α] [Neg α] [Zero α] [Add α]
    (ofNat : Nat → α) (F : FileF) (sel : Sel) (view : PLine → Part α) (dict : Dict α) (k : String)
    (hin : k ∈ dict.map (·.1)) (hk : k ∉ (ctorTable .oscar).entries.map (·.key))
    (L0 : Loaded) (h0 : readOscar F sel none = .ok L0) (hne : L0.events ≠ [[]]) :
    ∃ x, readOscar F sel (some (ctorFilterDict ofNat .oscar view dict)) = .error x :=
  readOscar_ctor_err F sel _ L0 (ctorFilterDict_unknown ofNat .oscar view dict k hin hk) h0 hne

theorem unknown_key_rejected_jetscape {α : Type} [LE α] [LT α] [DecidableLE α] [DecidableLT α] [Neg α] [Zero α] [Add α]
    (ofNat : Nat → α) (F : FileF) (sel : Sel) (partons : Bool) (view : PLine → Part α) (dict : Dict α) (k : String)
    (hin : k ∈ dict.map (·.1)) (hk : k ∉ (ctorTable .jetscape).entries.map (·.key))
    (L0 : Loaded) (h0 : readJetscape F sel partons none = .ok L0) (hne : L0.events ≠ [[]]) :
    ∃ x, readJetscape F sel partons (some (ctorFilterDict ofNat .jetscape view dict)) = .error x :=
  readJetscape_ctor_err F sel partons _ L0 (ctorFilterDict_unknown ofNat .jetscape view dict k hin hk) h0 hne

/-! ## 5. non-vacuity -/

def q0 : Part Int := C03.p0
def q1 : Part Int := { C03.p0 with id := 1, charge := some 0, pT := some 3 }
def q2 : Part Int := { C03.p0 with id := 2, pT := some 0 }
def evs0 : Evs Int := [[q0, q1], [q1], [], [q0, q2, q0]]
def chain0 : List (Call Int) := [.charged, .pT (.tuple [toW (some 1), toW none]), .multiplicity (.tuple [.num 2, .none])]

/-- the hypotheses of the main theorems on the filter side are satisfiable by a non-trivial chain
(a particle-level switch, a window cut with `None`, an event-level cut) … -/
example : AdmChain (fun n => (n : Int)) chain0
    [.part chargedP, .part (fun p => windowP (some 1) none p.pT), .evt (fun ev => decide ((2 : Int) ≤ (ev.length : Int)))] :=
  .cons .charged (.cons (.pT (some 1) none (by simp) (by simp [nonnegO]) trivial)
    (.cons (.multiplicityFrom 2 (by decide)) .nil))

example : DataOK chain0 evs0 := fun h => by simp [chain0, needsEtas] at h

/-- … on which the two paths really differ before the empty events are deleted and agree afterwards -/
example : (objCtor (fun n => (n : Int)) chain0 evs0).toOption.map partIds = some [[], [], [], [0, 0]] ∧
    (chain (fun n => (n : Int)) chain0 evs0).toOption.map partIds = some [[0, 0]] := by decide

/-- a dictionary for all three classes: dispatch with a `False` switch and a `spacetime_cut` list -/
example : ctorDispatch .oscar ([("charged_particles", .flag false), ("spacetime_cut", .seq true .t (.tuple [.num 0, .none])),
      ("keep_hadrons", .flag true)] : Dict Int) = .ok [.spacetime .t (.tuple [.num 0, .none]), .keepHadrons] := by rfl

example : ∃ e, ctorDispatch .jetscape ([("pT_cut", .window (.tuple [.num 0, .none])), ("participants", .flag true)] : Dict Int)
    = .error e := ⟨_, rfl⟩


end SparkxVerif.C05
