/-
C02 — the property theorems restated about the selection arithmetic REGENERATED from the current source
(`Gen/ReaderSelGen.lean`, written on every run by `harness/translate/readersel.py` from `loader/OscarLoader.py` and
`loader/JetscapeLoader.py`: validation of `events` in `load`, `_get_num_skip_lines`, `__get_num_read_lines`, the
bookkeeping prelude of `set_particle_list`, JETSCAPE's `first_event_header`, Oscar's `event_index` start value and the
selection `[impact_parameters[i] for i in self.loaded_event_indices_]`).

`genReadOscar` / `genReadJetscape` are the shared line loop (`oscarLoop`, `jetscapeLoop`, `closeEvent`, `finish` — hand-written
mirror, tie C) driven by that generated arithmetic.  `Lemmas/ReaderSelGenGen.lean` proves each generated definition equal
to the hand-written one for all inputs (`genReadOscar_eq`, `genReadJetscape_eq` without any hypothesis); the theorems
below are the statements of `Props/C02.lean` about the generated readers, so they speak about what the code says now.
-/
import SparkxVerif.Props.C02
import SparkxVerif.Lemmas.ReaderSelGenGen

namespace SparkxVerif.C02.Gen
open SparkxVerif.Rd SparkxVerif.RdSel SparkxVerif.Gen.ReaderSelGen

/-- a selector the property calls valid passes the loaders' validation -/
theorem validSel_of_validFor (n : Nat) (sel : Sel) (hv : sel.validFor n = true) : validSel sel = .ok () := by
  cases sel with
  | all => rfl
  | one k =>
    simp only [Sel.validFor, Bool.and_eq_true, decide_eq_true_eq] at hv
    simp only [validSel]
    split
    · omega
    · rfl
  | range a b =>
    simp only [Sel.validFor, Bool.and_eq_true, decide_eq_true_eq] at hv
    simp only [validSel]
    split
    · omega
    · split
      · rename_i h; simp only [Bool.or_eq_true, decide_eq_true_eq] at h; omega
      · rfl

/-! ### Oscar -/

/-- **skip_lands about the generated `_get_num_skip_lines`** -/
theorem gen_skip_lands_oscar (f : FileF) (fmt : Fmt) (attrs : List String) (evs : List OEvent) (sel : Sel)
    (hwf : WFOscar f fmt attrs evs) (hv : sel.validFor evs.length = true) :
    oscarScan f.lines = .ok (rowsFrom 0 evs, footersOf evs) ∧
    genSkipOscar (rowsFrom 0 evs) sel
      = .ok ((3 + ((evs.take sel.start).map (fun e => e.parts.length + 2)).sum : Nat) : Int) ∧
    f.lines.drop (3 + ((evs.take sel.start).map (fun e => e.parts.length + 2)).sum) = bodyLines (evs.drop sel.start) ∧
    (f.lines.drop (3 + ((evs.take sel.start).map (fun e => e.parts.length + 2)).sum)).head?
      = (evs[sel.start]?).map (fun e => e.out) := by
  have h := skip_lands_oscar f fmt attrs evs sel hwf hv
  rw [genSkipOscar_eq _ _ (validSel_of_validFor _ sel hv)]
  exact h

/-- the generated `__get_num_read_lines` on a valid selector: the number of lines of the selected events -/
theorem gen_nread_oscar (rows : List (Int × Int)) (sel : Sel) (hv : sel.validFor rows.length = true) :
    genNreadOscar rows sel = .ok (sumCounts ((rows.drop sel.start).take (sel.count rows.length)) 2) := by
  rw [genNreadOscar_eq]; exact readLines_valid 2 rows sel hv

/-- **select_eq_slice (Oscar) about the generated reader** -/
theorem gen_select_eq_slice_oscar (f : FileF) (fmt : Fmt) (attrs : List String) (evs : List OEvent) (sel : Sel)
    (hwf : WFOscar f fmt attrs evs) (hv : sel.validFor evs.length = true) :
    genReadOscar f sel none = (genReadOscar f .all none).map (sliceLoaded sel) := by
  rw [genReadOscar_eq, genReadOscar_eq]; exact select_eq_slice_oscar f fmt attrs evs sel hwf hv

theorem gen_select_observe_oscar (guard : Bool) (f : FileF) (fmt : Fmt) (attrs : List String) (evs : List OEvent)
    (sel : Sel) (hwf : WFOscar f fmt attrs evs) (hv : sel.validFor evs.length = true) :
    (genReadOscar f sel none).map (observe guard)
      = (genReadOscar f .all none).map (fun L => observe guard (sliceLoaded sel L)) := by
  rw [genReadOscar_eq, genReadOscar_eq]; exact select_observe_oscar guard f fmt attrs evs sel hwf hv

theorem rowsFrom_fst (es : List OEvent) : ∀ base : Nat,
    (rowsFrom base es).map (fun r => r.1) = loadedIndices (base : Int) es.length := by
  induction es with
  | nil => intro base; rfl
  | cons e es ih =>
    intro base
    simp only [rowsFrom, List.map_cons, List.length_cons, loadedIndices, List.range_succ_eq_map, ih (base + 1),
      List.map_map]
    congr 1
    simp
    intros
    omega

/-- **impact parameters of a selection, through the generated pieces**: the variable appended to
`loaded_event_indices_` starts at the first selected event, and the generated selection
`[impact_parameters[i] for i in loaded_event_indices_]` applied to the indices the loop collects when no event is removed
(`loadedIndices`: start, start+1, …) yields the selected events' own end lines. -/
theorem gen_select_impacts_oscar (f : FileF) (fmt : Fmt) (attrs : List String) (evs : List OEvent) (sel : Sel)
    (hwf : WFOscar f fmt attrs evs) (hv : sel.validFor evs.length = true) :
    genEventIndexOscar (rowsFrom 0 evs) (evs.length : Int) sel = .ok (sel.start : Int) ∧
    (genReadOscar f sel none).bind
        (fun L => genImpactPick L.footers (loadedIndices (sel.start : Int) (sel.count evs.length)))
      = .ok (footersOf ((evs.drop sel.start).take (sel.count evs.length))) := by
  refine ⟨genEventIndexOscar_eq _ _ sel (validSel_of_validFor _ sel hv), ?_⟩
  have himp := select_impacts_oscar f fmt attrs evs sel hwf hv
  have hrd := read_sel_oscar f fmt attrs evs sel hwf hv
  rw [genReadOscar_eq]
  rw [hrd] at himp ⊢
  simp only [Except.bind] at himp ⊢
  rw [impactLines_eq_gen _ _ rfl, rowsFrom_fst] at himp
  have hn1 : 1 ≤ evs.length := by
    obtain ⟨h0, h1, h2, _, hb⟩ := hwf
    simp only [wfOscarB, Bool.and_eq_true, Bool.not_eq_true'] at hb
    cases evs with
    | nil => simp at hb
    | cons _ _ => simp
  obtain ⟨hwin, _⟩ := sel_window' evs.length hn1 sel hv
  have hlen : ((evs.drop sel.start).take (sel.count evs.length)).length = sel.count evs.length := by
    simp; omega
  rw [hlen] at himp
  exact himp

theorem gen_select_particleList_oscar (guard : Bool) (f : FileF) (fmt : Fmt) (attrs : List String) (evs : List OEvent)
    (sel : Sel) (hwf : WFOscar f fmt attrs evs) (hv : sel.validFor evs.length = true) :
    ∃ L, genReadOscar f sel none = .ok L ∧ L.numEvents = (L.events.length : Int) ∧
      L.events.length = sel.count evs.length ∧
      particleList guard L.numEvents L.counts L.events
        = .ok (if L.events.length = 1 then .single (L.events.headD []) else .multi L.events) := by
  rw [genReadOscar_eq]; exact select_particleList_oscar guard f fmt attrs evs sel hwf hv

/-- **select_filter (Oscar) about the generated reader** -/
theorem gen_select_filter_oscar (f : FileF) (fmt : Fmt) (attrs : List String) (evs : List OEvent) (sel : Sel)
    (d : EvFilter) (hwf : WFOscar f fmt attrs evs) (hv : sel.validFor evs.length = true) :
    genReadOscar f sel (some d) = (genReadOscar f sel none).bind (ctorFilter d) := by
  rw [genReadOscar_eq, genReadOscar_eq]; exact select_filter_oscar f fmt attrs evs sel d hwf hv

/-! ### JETSCAPE -/

theorem gen_skip_lands_jetscape (f : FileF) (partons : Bool) (evs : List JEvent) (sel : Sel)
    (hwf : WFJetscape f partons evs) (hv : sel.validFor evs.length = true) :
    jetscapeScan partons f.lines = .ok (rowsFromJ 1 evs) ∧
    genSkipJetscape (rowsFromJ 1 evs) sel
      = .ok ((1 + ((evs.take sel.start).map (fun e => e.parts.length + 1)).sum : Nat) : Int) ∧
    ∃ tr, f.lines.drop (1 + ((evs.take sel.start).map (fun e => e.parts.length + 1)).sum)
      = jLines (evs.drop sel.start) tr := by
  have h := skip_lands_jetscape f partons evs sel hwf hv
  rw [genSkipJetscape_eq _ _ (validSel_of_validFor _ sel hv)]
  exact h

/-- the generated JETSCAPE `__get_num_read_lines` on a valid selector: the lines of the selected events plus the line that
closes the last one -/
theorem gen_nread_jetscape (rows : List (Int × Int)) (sel : Sel) (hv : sel.validFor rows.length = true) :
    genNreadJetscape rows sel = .ok (sumCounts ((rows.drop sel.start).take (sel.count rows.length)) 1 + 1) := by
  rw [genNreadJetscape_eq]; simp only [coreJetscape, readLines_valid 1 rows sel hv]

/-- the generated `first_event_header`: the label of the first selected event (labels start at 1) -/
theorem gen_first_header_jetscape (sel : Sel) : genFirstHeaderJetscape sel = .ok (1 + (sel.start : Int)) ∨
    validSel sel ≠ .ok () := by
  cases sel with
  | all => left; rw [genFirstHeaderJetscape_eq]; rfl
  | one k =>
    by_cases hk : 0 ≤ k
    · left; rw [genFirstHeaderJetscape_eq]; simp only [coreJetscape, Sel.start]; congr 1; omega
    · right; intro h; exact hk (validSel_one h)
  | range a b =>
    by_cases hk : 0 ≤ a
    · left; rw [genFirstHeaderJetscape_eq]; simp only [coreJetscape, Sel.start]; congr 1; omega
    · right; intro h; exact hk (validSel_range h).1

theorem gen_select_eq_slice_jetscape (f : FileF) (partons : Bool) (evs : List JEvent) (sel : Sel)
    (hwf : WFJetscape f partons evs) (hv : sel.validFor evs.length = true) :
    genReadJetscape f sel partons none = (genReadJetscape f .all partons none).map (sliceLoaded sel) := by
  rw [genReadJetscape_eq, genReadJetscape_eq]; exact select_eq_slice_jetscape f partons evs sel hwf hv

theorem gen_select_observe_jetscape (guard : Bool) (f : FileF) (partons : Bool) (evs : List JEvent) (sel : Sel)
    (hwf : WFJetscape f partons evs) (hv : sel.validFor evs.length = true) :
    (genReadJetscape f sel partons none).map (observe guard)
      = (genReadJetscape f .all partons none).map (fun L => observe guard (sliceLoaded sel L)) := by
  rw [genReadJetscape_eq, genReadJetscape_eq]; exact select_observe_jetscape guard f partons evs sel hwf hv

theorem gen_select_particleList_jetscape (guard : Bool) (f : FileF) (partons : Bool) (evs : List JEvent) (sel : Sel)
    (hwf : WFJetscape f partons evs) (hv : sel.validFor evs.length = true) :
    ∃ L, genReadJetscape f sel partons none = .ok L ∧ L.numEvents = (L.events.length : Int) ∧
      L.events.length = sel.count evs.length ∧
      particleList guard L.numEvents L.counts L.events
        = .ok (if L.events.length = 1 then .single (L.events.headD []) else .multi L.events) := by
  rw [genReadJetscape_eq]; exact select_particleList_jetscape guard f partons evs sel hwf hv

theorem gen_select_filter_jetscape (f : FileF) (partons : Bool) (evs : List JEvent) (sel : Sel) (d : EvFilter)
    (hwf : WFJetscape f partons evs) (hv : sel.validFor evs.length = true) :
    genReadJetscape f sel partons (some d) = (genReadJetscape f sel partons none).bind (ctorFilter d) := by
  rw [genReadJetscape_eq, genReadJetscape_eq]; exact select_filter_jetscape f partons evs sel d hwf hv

/-! ### the count rows the loop writes -/

/-- every tuple the current source writes into a count row is the row `closeEvent` of the shared loop writes:
`(len(particle_list) + first_label, len(data))` -/
theorem gen_count_rows (n fl m : Int) :
    (∀ r ∈ genCountRowsOscar n fl m, r = (n + fl, m)) ∧ (∀ r ∈ genCountRowsJetscape n fl m, r = (n + fl, m)) :=
  ⟨genCountRowsOscar_eq n fl m, genCountRowsJetscape_eq n fl m⟩

/-! ### non-vacuity: the generated arithmetic on a concrete file shape -/

/-- three events of sizes 2, 0, 5 (rows `(label, size)`), `events=(1, 2)`: skip `3 + (2+2)` lines, read `(0+2) + (5+2)`
lines, keep rows 1..2, two events, first label 1, `event_index` starts at 1 -/
example :
    genValidOscar (.range 1 2) = .ok () ∧
    genSkipOscar [(0, 2), (1, 0), (2, 5)] (.range 1 2) = .ok 7 ∧
    genNreadOscar [(0, 2), (1, 0), (2, 5)] (.range 1 2) = .ok 9 ∧
    genPreludeOscar [(0, 2), (1, 0), (2, 5)] 3 (.range 1 2) = .ok ([(1, 0), (2, 5)], 2, 1) ∧
    genEventIndexOscar [(0, 2), (1, 0), (2, 5)] 3 (.range 1 2) = .ok 1 ∧
    genValidOscar (.range 2 1) = .error .value ∧
    genNreadOscar [(0, 2), (1, 0), (2, 5)] (.one 3) = .error .index :=
  ⟨rfl, rfl, rfl, rfl, rfl, rfl, rfl⟩

example :
    genSkipJetscape [(1, 2), (2, 0), (3, 5)] (.one 2) = .ok 5 ∧
    genNreadJetscape [(1, 2), (2, 0), (3, 5)] (.one 2) = .ok 7 ∧
    genPreludeJetscape [(1, 2), (2, 0), (3, 5)] 3 (.one 2) = .ok ([(3, 5)], 1, 3) ∧
    genFirstHeaderJetscape (.one 2) = .ok 3 ∧
    genImpactPick ["e0", "e1", "e2"] (loadedIndices 1 2) = .ok ["e1", "e2"] :=
  ⟨rfl, rfl, rfl, rfl, rfl⟩

end SparkxVerif.C02.Gen
