/-
C02 over the rendered TEXT.  `Props/C02.lean` states the property for files well-formed *as observed*
(`WFOscar`, `WFJetscape`); here the hypothesis is discharged for the text rendered by the file grammar of
`Core/Render.lean` (`grammarOscar F` / `grammarJet F`, proved classification `Lemmas/Classify*.lean`), through the bridge
`Lemmas/ClassifySel.lean` (`obsOscar f F → wfOscar F → WFOscar f …`).  No hypothesis about any string function is left.
(This is a separate module because `Rd` (grammar) and `RdSel` (C02) both define `OEvent`, `isOutLine`, …, and
`Props/C02.lean` opens both namespaces.)
-/
import SparkxVerif.Props.C02
import SparkxVerif.Lemmas.ClassifySel

namespace SparkxVerif.C02.Text
open SparkxVerif.Rd SparkxVerif.Bridge
open SparkxVerif.RdSel (sliceLoaded ctorFilter observe impactLines particleList PLOut)

/-! ### the hypotheses of `Props/C02.lean` hold for rendered text -/

/-- every file observed as the lines of a well-formed specification is well-formed as observed -/
theorem WFOscar_of_obs (f : FileF) (F : OscarSpec) (hobs : obsOscar f F = true) (hwf : wfOscar F) :
    RdSel.WFOscar f F.fmt (attrsOf F) (selEvents f F) :=
  (Bridge.WFOscar_of_obs f F hobs hwf).1

theorem WFOscar_text (F : OscarSpec) (hg : grammarOscar F = true) (hwf : wfOscar F) :
    RdSel.WFOscar (Proto.fileOfText (oscarText F)) F.fmt (attrsOf F) (selEvents (Proto.fileOfText (oscarText F)) F) :=
  WFOscar_of_obs _ F (oscar_classification F hg) hwf

theorem WFJetscape_text (F : JetSpec) (hg : grammarJet F = true) (hwf : wfJetSeq F) :
    RdSel.WFJetscape (Proto.fileOfText (jetText F)) F.partons (jselEvents F) :=
  (Bridge.WFJetscape_text F hg hwf).1

/-! ### Oscar -/

/-- **select_eq_slice (Oscar), over the text** -/
theorem select_eq_slice_oscar_text (F : OscarSpec) (hg : grammarOscar F = true) (hwf : wfOscar F) (sel : Sel)
    (hv : sel.validFor F.events.length = true) :
    readOscar (Proto.fileOfText (oscarText F)) sel none =
      (readOscar (Proto.fileOfText (oscarText F)) .all none).map (sliceLoaded sel) := by
  obtain ⟨W, hlen, _⟩ := Bridge.WFOscar_of_obs _ F (oscar_classification F hg) hwf
  exact C02.select_eq_slice_oscar _ _ _ _ sel W (hlen ▸ hv)

theorem select_observe_oscar_text (guard : Bool) (F : OscarSpec) (hg : grammarOscar F = true) (hwf : wfOscar F) (sel : Sel)
    (hv : sel.validFor F.events.length = true) :
    (readOscar (Proto.fileOfText (oscarText F)) sel none).map (observe guard) =
      (readOscar (Proto.fileOfText (oscarText F)) .all none).map (fun L => observe guard (sliceLoaded sel L)) := by
  obtain ⟨W, hlen, _⟩ := Bridge.WFOscar_of_obs _ F (oscar_classification F hg) hwf
  exact C02.select_observe_oscar guard _ _ _ _ sel W (hlen ▸ hv)

/-- impact parameters of the selection = the footers of the selected events of `F` -/
theorem select_impacts_oscar_text (F : OscarSpec) (hg : grammarOscar F = true) (hwf : wfOscar F) (sel : Sel)
    (hv : sel.validFor F.events.length = true) :
    (readOscar (Proto.fileOfText (oscarText F)) sel none).bind impactLines =
      .ok (((F.events.drop sel.start).take (sel.count F.events.length)).map (·.footer)) := by
  obtain ⟨W, hlen, hfoot⟩ := Bridge.WFOscar_of_obs _ F (oscar_classification F hg) hwf
  rw [C02.select_impacts_oscar _ _ _ _ sel W (hlen ▸ hv), hlen]
  simp only [RdSel.footersOf] at hfoot ⊢
  rw [List.map_take, List.map_drop, hfoot, ← List.map_drop, ← List.map_take]

theorem select_particleList_oscar_text (guard : Bool) (F : OscarSpec) (hg : grammarOscar F = true) (hwf : wfOscar F)
    (sel : Sel) (hv : sel.validFor F.events.length = true) :
    ∃ L, readOscar (Proto.fileOfText (oscarText F)) sel none = .ok L ∧ L.numEvents = (L.events.length : Int) ∧
      L.events.length = sel.count F.events.length ∧
      particleList guard L.numEvents L.counts L.events
        = .ok (if L.events.length = 1 then .single (L.events.headD []) else .multi L.events) := by
  obtain ⟨W, hlen, _⟩ := Bridge.WFOscar_of_obs _ F (oscar_classification F hg) hwf
  have := C02.select_particleList_oscar guard _ _ _ _ sel W (hlen ▸ hv)
  rwa [hlen] at this

/-- **select_filter (Oscar), over the text**: for every constructor-filter function -/
theorem select_filter_oscar_text (F : OscarSpec) (hg : grammarOscar F = true) (hwf : wfOscar F) (sel : Sel) (d : EvFilter)
    (hv : sel.validFor F.events.length = true) :
    readOscar (Proto.fileOfText (oscarText F)) sel (some d) =
      (readOscar (Proto.fileOfText (oscarText F)) sel none).bind (ctorFilter d) := by
  obtain ⟨W, hlen, _⟩ := Bridge.WFOscar_of_obs _ F (oscar_classification F hg) hwf
  exact C02.select_filter_oscar _ _ _ _ sel d W (hlen ▸ hv)

/-! ### JETSCAPE (events numbered 1, 2, 3, …: `wfJetSeq`) -/

/-- **select_eq_slice (JETSCAPE), over the text** -/
theorem select_eq_slice_jetscape_text (F : JetSpec) (hg : grammarJet F = true) (hwf : wfJetSeq F) (sel : Sel)
    (hv : sel.validFor F.events.length = true) :
    readJetscape (Proto.fileOfText (jetText F)) sel F.partons none =
      (readJetscape (Proto.fileOfText (jetText F)) .all F.partons none).map (sliceLoaded sel) := by
  obtain ⟨W, hlen⟩ := Bridge.WFJetscape_text F hg hwf
  exact C02.select_eq_slice_jetscape _ _ _ sel W (hlen ▸ hv)

theorem select_observe_jetscape_text (guard : Bool) (F : JetSpec) (hg : grammarJet F = true) (hwf : wfJetSeq F) (sel : Sel)
    (hv : sel.validFor F.events.length = true) :
    (readJetscape (Proto.fileOfText (jetText F)) sel F.partons none).map (observe guard) =
      (readJetscape (Proto.fileOfText (jetText F)) .all F.partons none).map (fun L => observe guard (sliceLoaded sel L)) := by
  obtain ⟨W, hlen⟩ := Bridge.WFJetscape_text F hg hwf
  exact C02.select_observe_jetscape guard _ _ _ sel W (hlen ▸ hv)

theorem select_particleList_jetscape_text (guard : Bool) (F : JetSpec) (hg : grammarJet F = true) (hwf : wfJetSeq F)
    (sel : Sel) (hv : sel.validFor F.events.length = true) :
    ∃ L, readJetscape (Proto.fileOfText (jetText F)) sel F.partons none = .ok L ∧ L.numEvents = (L.events.length : Int) ∧
      L.events.length = sel.count F.events.length ∧
      particleList guard L.numEvents L.counts L.events
        = .ok (if L.events.length = 1 then .single (L.events.headD []) else .multi L.events) := by
  obtain ⟨W, hlen⟩ := Bridge.WFJetscape_text F hg hwf
  have := C02.select_particleList_jetscape guard _ _ _ sel W (hlen ▸ hv)
  rwa [hlen] at this

/-- **select_filter (JETSCAPE), over the text** -/
theorem select_filter_jetscape_text (F : JetSpec) (hg : grammarJet F = true) (hwf : wfJetSeq F) (sel : Sel) (d : EvFilter)
    (hv : sel.validFor F.events.length = true) :
    readJetscape (Proto.fileOfText (jetText F)) sel F.partons (some d) =
      (readJetscape (Proto.fileOfText (jetText F)) sel F.partons none).bind (ctorFilter d) := by
  obtain ⟨W, hlen⟩ := Bridge.WFJetscape_text F hg hwf
  exact C02.select_filter_jetscape _ _ _ sel d W (hlen ▸ hv)

/-! ### the hypotheses are satisfiable: concrete specifications (three Oscar events, the middle one empty; two JETSCAPE
events, the first empty); the grammar is evaluated by the kernel -/

def exOscar : OscarSpec :=
  { fmt := .ascii, cols := ["pz", "pdg", "t"], h2 := "# Units: GeV none fm", h3 := "# SMASH-3.1",
    events := [⟨0, [["1.5", "211", "0.1"], ["-2e-3", "-211", "7"]], "# event 0 end 0 impact   1.500 scattering_projectile_target yes", "1.500"⟩,
               ⟨1, [], "# event 1 end 0 impact   0.000 scattering_projectile_target no", "0.000"⟩,
               ⟨2, [["0.25", "2212", "12."]], "# event 2 end 0 impact  -1.000 scattering_projectile_target no", "-1.000"⟩],
    trailingNL := true }

theorem exOscar_wf : wfOscar exOscar := by
  refine ⟨by simp [exOscar], ?_, by simp only [exOscar]; decide⟩
  intro i h
  have : i < 3 := by simpa [exOscar] using h
  match i, this with
  | 0, _ => rfl
  | 1, _ => rfl
  | 2, _ => rfl

example : readOscar (Proto.fileOfText (oscarText exOscar)) (.range 1 2) none =
    (readOscar (Proto.fileOfText (oscarText exOscar)) .all none).map (sliceLoaded (.range 1 2)) :=
  select_eq_slice_oscar_text exOscar (by decide) exOscar_wf (.range 1 2) (by decide)

def exJet : JetSpec :=
  { partons := true, h1 := "#\tJETSCAPE_FINAL_STATE\tv2\t|\tN\tpid\tstatus\tE\tPx\tPy\tPz",
    events := [⟨1, [], "# Event 1 weight 1 EPangle 0 N_partons 0"⟩,
               ⟨2, [["0", "2203", "0", "5.0", "1.0", "2.0", "3.0"], ["1", "21", "0", "2.5", "0.0", "0.0", "2.5"]],
                "# Event 2 weight 1 EPangle 0 N_partons 2"⟩],
    trailer := "#\tsigmaGen\t0.1\tsigmaErr\t0.01", sigma := ("0.1", "0.01"), trailingNL := false }

theorem exJet_wf : wfJetSeq exJet := by
  refine ⟨by simp [exJet], ?_⟩
  intro i h
  have : i < 2 := by simpa [exJet] using h
  match i, this with
  | 0, _ => rfl
  | 1, _ => rfl

example (d : EvFilter) : readJetscape (Proto.fileOfText (jetText exJet)) (.one 1) true (some d) =
    (readJetscape (Proto.fileOfText (jetText exJet)) (.one 1) true none).bind (ctorFilter d) :=
  select_filter_jetscape_text exJet (by decide) exJet_wf (.one 1) d (by decide)

end SparkxVerif.C02.Text
