/-
C09 — the property theorems restated about the definitions REGENERATED from the current text of
src/sparkx/Histogram.py (Gen/HistCore.lean, written by harness/translate/histcore.py on every run).

Each statement is the corresponding theorem of Props/C09.lean with the hand model's operation replaced by the
generated specialisation (`addValueS/SW/L/LS/LL`, `scaleS/L`, `statisticalError`, `makeDensity`, `addHistogram`,
`initEdges`, `initTuple`, the geometry getters) or by `genRun` (the generated dispatch folded over a history);
the bridge is Lemmas/HistCoreGen.lean (`*_gen`: generated = model for all inputs).  A change of the source that
changes what these functions compute makes the bridge (and so this module) fail to build.
-/
import SparkxVerif.Props.C09
import SparkxVerif.Lemmas.HistCoreGen

set_option linter.unusedSectionVars false

namespace SparkxVerif.C09.Gen
open SparkxVerif SparkxVerif.Hist SparkxVerif.Gen SparkxVerif.HistCoreGen

section field
variable {K : Type} [Field K] [LinearOrder K] [IsStrictOrderedRing K]

/-- **C09, bin contents, about the generated code.** The object built by the generated constructor from
strictly increasing edges, driven through any history of add_value / scale_histogram / statistical_error /
add_histogram calls by the generated methods, holds in bin `i` of its current histogram
`Σ_{fills (v,w) since the last add_histogram, edge_i ≤ v < edge_{i+1}} w · Π later scale factors`; raw count `Σ w`. -/
theorem gen_bin_content (sqrt : K → K) (edges : List K) (hne : edges ≠ []) (hsort : edges.Pairwise (· < ·))
    (ops : List (Op K)) (hops : ∀ op ∈ ops, FillScale op ∨ op = .addHist)
    (i : Nat) (hi : i < edges.length - 1) :
    ∃ s0, HistCore.initEdges edges = .ok s0 ∧
      cell (HistCore.genRun sqrt s0 ops).hist i
        = closedContent edges (edges.length - 1) i (sinceLastAddHist ops) ∧
      cell (HistCore.genRun sqrt s0 ops).raw i = closedRaw edges i (sinceLastAddHist ops) := by
  refine ⟨init edges, initEdges_gen edges hne, ?_⟩
  rw [genRun_gen sqrt ops (init_shape edges hne)]
  exact bin_content sqrt edges hne hsort ops hops i hi

/-- the same from any well-shaped state (e.g. after the generated `makeDensity`) -/
theorem gen_bin_content_from (sqrt : K → K) (s : State K) (hs : Shape s) (hsort : s.edges.Pairwise (· < ·))
    (ops : List (Op K)) (hops : ∀ op ∈ ops, FillScale op) (i : Nat) (hi : i < s.nBins) :
    Shape (HistCore.genRun sqrt s ops) ∧ (HistCore.genRun sqrt s ops).edges = s.edges ∧
    cell (HistCore.genRun sqrt s ops).hist i
        = cell s.hist i * scaleProd s.nBins i ops + closedContent s.edges s.nBins i ops ∧
    cell (HistCore.genRun sqrt s ops).raw i = cell s.raw i + closedRaw s.edges i ops := by
  rw [genRun_gen sqrt ops hs]
  exact bin_content_from sqrt s hs hsort ops hops i hi

/-- generated `add_value(v, weight=w)` / `add_value(v)`: bin `i` grows by `w` (by 1) exactly when
`edge_i ≤ v < edge_{i+1}` -/
theorem gen_add_value_bin (s : State K) (hs : Shape s) (hsort : s.edges.Pairwise (· < ·))
    (v w : K) (i : Nat) (hi : i < s.nBins) :
    cell (HistCore.addValueSW s (some v) (some w)).1.hist i
      = cell s.hist i + (if inBin s.edges i v = true then w else 0) ∧
    cell (HistCore.addValueS s (some v)).1.hist i
      = cell s.hist i + (if inBin s.edges i v = true then 1 else 0) := by
  constructor
  · rw [addValueSW_gen]
    exact add_value_bin (fun x => x) s hs hsort v w i hi
  · rw [addValueS_gen]
    have h := (fillCore_cell hs hsort v 1 i hi).1
    simpa [fill, one] using h

/-- generated `add_value`: values outside `[first edge, last edge)` change nothing -/
theorem gen_outside_noop (s : State K) (hs : Shape s) (hsort : s.edges.Pairwise (· < ·))
    (v : K) (a b : K) (ha : s.edges[0]? = some a) (hb : s.edges[s.nBins]? = some b)
    (hout : v < a ∨ b ≤ v) :
    HistCore.addValueS s (some v) = (s, none) ∧ ∀ w : K, HistCore.addValueSW s (some v) (some w) = (s, none) := by
  constructor
  · rw [addValueS_gen]
    exact outside_noop (fun x => x) s hs hsort v none a b ha hb hout
  · intro w
    rw [addValueSW_gen]
    exact outside_noop (fun x => x) s hs hsort v (some w) a b ha hb hout

/-- generated `add_value`: NaN (alone, or anywhere in a list / array) is rejected and nothing changes -/
theorem gen_nan_rejected (s : State K) :
    HistCore.addValueS s none = (s, some .value) ∧
    (∀ w, HistCore.addValueSW s none w = (s, some .value)) ∧
    (∀ vs, none ∈ vs → HistCore.addValueL s vs = (s, some .value)) ∧
    (∀ vs w, none ∈ vs → HistCore.addValueLS s vs w = (s, some .value)) ∧
    (∀ vs ws, none ∈ vs → HistCore.addValueLL s vs ws = (s, some .value)) := by
  have h := nan_rejected (fun x => x) s
  refine ⟨?_, ?_, ?_, ?_, ?_⟩
  · rw [addValueS_gen]; exact h.1 none
  · intro w; rw [addValueSW_gen]; exact h.1 (some w)
  · intro vs hm; rw [addValueL_gen]; exact h.2 vs .none hm
  · intro vs w hm; rw [addValueLS_gen]; exact h.2 vs (.scalar w) hm
  · intro vs ws hm; rw [addValueLL_gen]; exact h.2 vs (.list ws) hm

/-- generated geometry getters agree with the edges -/
theorem gen_geometry (s : State K) (i : Nat) (hi : i + 1 < s.edges.length) :
    (HistCore.binCenters s)[i]? = some ((s.edges[i] + s.edges[i + 1]) / 2) ∧
    (HistCore.binWidth s)[i]? = some (s.edges[i + 1] - s.edges[i]) ∧
    (HistCore.binBoundsLeft s)[i]? = some s.edges[i] ∧
    (HistCore.binBoundsRight s)[i]? = some s.edges[i + 1] ∧
    HistCore.binBoundaries s = s.edges ∧
    (HistCore.binCenters s).length = s.edges.length - 1 ∧ (HistCore.binWidth s).length = s.edges.length - 1 ∧
    (HistCore.binBoundsLeft s).length = s.edges.length - 1 ∧
    (HistCore.binBoundsRight s).length = s.edges.length - 1 := by
  obtain ⟨h1, h2, h3, h4, h5, h6, h7, h8⟩ := geometry s.edges i hi
  obtain ⟨b1, b2, b3⟩ := binBounds_gen s
  rw [binCenters_gen, binWidth_gen, b1, b2, b3]
  exact ⟨h1, h2, h3, h4, rfl, h5, h6, h7, h8⟩

/-- generated tuple constructor: `(lo, hi, n)` with `lo < hi`, `n > 0` gives a well-shaped object whose edges are
strictly increasing, `n + 1` many, all widths `(hi − lo) / n`; anything else is rejected -/
theorem gen_uniform_edges (lo hi : K) (n : Int) :
    (lo < hi → 0 < n → ∃ s, HistCore.initTuple lo hi n = .ok s ∧ Shape s ∧ s.edges.Pairwise (· < ·) ∧
      s.edges.length = n.toNat + 1 ∧ s.nBins = n.toNat ∧
      ∀ x ∈ HistCore.binWidth s, x = (hi - lo) / (n.toNat : K)) ∧
    (¬ (lo < hi ∧ 0 < n) → HistCore.initTuple lo hi n = .error .value) := by
  constructor
  · intro h hn
    have hn' : 0 < n.toNat := by omega
    obtain ⟨u1, u2, u3⟩ := uniform_edges lo hi h n.toNat hn'
    have hne : linspace lo hi n.toNat ≠ [] := by
      intro h0; rw [h0] at u2; simp at u2
    refine ⟨init (linspace lo hi n.toNat), ?_, init_shape _ hne, u1, u2, ?_, ?_⟩
    · rw [initTuple_gen, if_pos ⟨h, hn⟩]
    · simp [init, u2]
    · intro x hx
      rw [binWidth_gen] at hx
      exact u3 x hx
  · intro h
    rw [initTuple_gen, if_neg h]

/-- generated `scale_histogram(c)`, `c ≥ 0` -/
theorem gen_scale_spec (s : State K) (hs : Shape s) (c : K) (hc : 0 ≤ c) :
    (HistCore.scaleS s c).2 = none ∧ lastRow (HistCore.scaleS s c).1.hist = (lastRow s.hist).map (· * c) ∧
    lastRow (HistCore.scaleS s c).1.err = (lastRow s.err).map (· * c) ∧ (HistCore.scaleS s c).1.raw = s.raw ∧
    (HistCore.scaleS s c).1.hist.dropLast = s.hist.dropLast ∧
    (HistCore.scaleS s c).1.err.dropLast = s.err.dropLast := by
  rw [scaleS_gen]
  exact scale_spec (fun x => x) s hs c hc

/-- generated `scale_histogram([c_0, …])`, one non-negative factor per bin -/
theorem gen_scale_list_spec (s : State K) (hs : Shape s) (cs : List K)
    (hc : ∀ c ∈ cs, 0 ≤ c) (hl : cs.length = s.nBins) :
    (HistCore.scaleL s cs).2 = none ∧ lastRow (HistCore.scaleL s cs).1.hist = mulRow (lastRow s.hist) cs ∧
    lastRow (HistCore.scaleL s cs).1.err = mulRow (lastRow s.err) cs ∧ (HistCore.scaleL s cs).1.raw = s.raw ∧
    (HistCore.scaleL s cs).1.hist.dropLast = s.hist.dropLast ∧
    (HistCore.scaleL s cs).1.err.dropLast = s.err.dropLast := by
  rw [scaleL_gen hs]
  exact scale_list_spec (fun x => x) s hs cs hc hl

/-- generated `scale_histogram`: a negative factor is rejected and nothing changes -/
theorem gen_scale_negative_rejected (s : State K) (c : K) (hc : c < 0) :
    HistCore.scaleS s c = (s, some .value) := by
  rw [scaleS_gen]
  exact scale_negative_rejected (fun x => x) s c hc

/-- generated `statistical_error()` -/
theorem gen_stat_err_spec (sqrt : K → K) (s : State K) (hs : Shape s) :
    (HistCore.statisticalError sqrt s).2 = none ∧
    (HistCore.statisticalError sqrt s).1.err = s.hist.map (fun row => row.map sqrt) ∧
    (HistCore.statisticalError sqrt s).1.hist = s.hist ∧ (HistCore.statisticalError sqrt s).1.raw = s.raw := by
  rw [statisticalError_gen sqrt hs]
  obtain ⟨h1, h2, h3, h4, _⟩ := stat_err_spec sqrt s hs
  exact ⟨h1, h2, h3, h4⟩

/-- **C09, density, about the generated code.** -/
theorem gen_density (sqrt : K → K) (s : State K) (hs : Shape s) (hsort : s.edges.Pairwise (· < ·))
    (hpos : 0 < (lastRow s.hist).sum) :
    (HistCore.makeDensity sqrt s).2 = none ∧ Shape (HistCore.makeDensity sqrt s).1 ∧
    (HistCore.makeDensity sqrt s).1.edges = s.edges ∧
    (∀ i, i < s.nBins →
      cell (HistCore.makeDensity sqrt s).1.hist i
        = cell s.hist i / ((lastRow s.hist).sum * (HistCore.binWidth s).getD i 1)) ∧
    (List.zipWith (· * ·) (lastRow (HistCore.makeDensity sqrt s).1.hist)
      (HistCore.binWidth (HistCore.makeDensity sqrt s).1)).sum = 1 := by
  rw [makeDensity_gen sqrt hs, binWidth_gen, binWidth_gen]
  exact density sqrt s hs hsort hpos

/-- generated `make_density()` on an empty current histogram raises and changes nothing -/
theorem gen_density_zero_rejected (sqrt : K → K) (s : State K) (hs : Shape s) (hsort : s.edges.Pairwise (· < ·))
    (hz : (lastRow s.hist).sum = 0) : HistCore.makeDensity sqrt s = (s, some .value) := by
  rw [makeDensity_gen sqrt hs]
  exact density_zero_rejected sqrt s hs hsort hz

end field

/-! ### Non-vacuity: the generated definitions compute on a concrete history (edges `[0,1,3]`) -/

example :
    let ops : List (Op ℚ) := [.fill (some 1) (some (some 2)), .scale 3,
      .fillList [some 0, some 3, some (1/2)] .none, .addHist, .fill (some 2) (some (some 5)),
      .scaleList [1, 1/2]]
    (HistCore.initEdges ([0, 1, 3] : List ℚ)).toOption.map
      (fun s0 => cell (HistCore.genRun (fun x => x) s0 ops).hist 1) = some (5 / 2) := by
  decide +kernel

example :
    (HistCore.initTuple (0 : ℚ) 3 3).toOption.map (fun s => (s.edges, s.nBins)) = some ([0, 1, 2, 3], 3) ∧
    (HistCore.initTuple (1 : ℚ) 1 3).toOption = none ∧ (HistCore.initTuple (0 : ℚ) 1 0).toOption = none := by
  decide +kernel

end SparkxVerif.C09.Gen
