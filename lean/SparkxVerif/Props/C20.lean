/-
C20 — the jet output file contains exactly this call's jets with correct constituents.

Property theorems only (helper lemmas: `Lemmas/Jets.lean`; executable model: `Core/Jets.lean`).
The model functions are the ones the driver executes at `Float`.  The theorems hold over ANY carrier
type with decidable `<`/`≤` and `+ − *` (no order or ring axioms are needed for the file theorems,
because model and specification use the same comparisons); the parameter-normalisation theorems are
over any linear order, the hole-subtraction theorem over any ring.

fastjet is a parameter: `Event.jets` is whatever clustering delivered (all inclusive jets, fastjet's
order) and `Jet.dr` the `delta_r` to every particle; all statements are universally quantified over them.
`repaired` is the text of `perform_jet_finding` after the two proposed repairs (file emptied once before
the event loop; holes looked up with `only_charged=False`); the `witness_*` theorems show that each of
the two texts as found violates the statement.
-/
import SparkxVerif.Lemmas.Jets
import SparkxVerif.Lemmas.Num
import Mathlib.Order.MinMax
import Mathlib.Algebra.Ring.Defs

namespace SparkxVerif.C20
open SparkxVerif.Jets

section any_carrier
variable {α : Type} [LT α] [LE α] [DecidableLT α] [DecidableLE α]
  [Add α] [Sub α] [Mul α] [NatCast α]

/-- **The output file holds only the jets of the current call.**  For ANY prior state of the file
(absent, empty, or any rows whatsoever), any sample — events without selected jets in any position,
no jets at all, no events at all — any parameters that pass validation and any `sqrt`, the repaired
`perform_jet_finding` terminates normally and leaves exactly the specified rows: for every event in
order, for every clustered jet with `ptLo ≤ pt` and eta in the window (fastjet's order), nothing if
the pT after hole subtraction reaches `ptHi`, else the jet row (clustered momentum minus ALL
negative-status particles with `delta_r < R`) followed by the associated particles numbered from 1. -/
theorem file_is_this_call (sqrt : α → α) (raw : Raw α) (P : Params α) (hP : normalise raw = .ok P)
    (prior : FS α) (evs : List (Event α)) (hs : StatusSet evs) :
    perform repaired sqrt raw prior evs = .ok (some (specFile sqrt P evs)) := by
  have h := runEvents_repaired sqrt P evs hs 0 [] (fun _ => rfl)
  simp only [perform, hP, repaired, if_true] at h ⊢
  simpa [specFile, specGroups] using h

/-- the result does not depend on what the file contained before -/
theorem prior_content_irrelevant (sqrt : α → α) (raw : Raw α) (P : Params α) (hP : normalise raw = .ok P)
    (prior prior' : FS α) (evs : List (Event α)) (hs : StatusSet evs) :
    perform repaired sqrt raw prior evs = perform repaired sqrt raw prior' evs := by
  rw [file_is_this_call sqrt raw P hP prior evs hs, file_is_this_call sqrt raw P hP prior' evs hs]

omit [LE α] [DecidableLE α] [Add α] [Sub α] [Mul α] [NatCast α] in
/-- **Associated particles**: the loop of `fill_associated_particles(…, "positive", only_charged)` returns
exactly the particles of the event, in order and once each, that have non-negative status, are charged
if only charged ones are requested, and lie at `delta_r < R`. -/
theorem assoc_exact (R : α) (only : Bool) (ps : List (Part α)) (ds : List α)
    (hs : ∀ p ∈ ps, p.status ≠ none) :
    fill R .positive only (triples ps ds) = .ok ((triples ps ds).filter (fun t =>
      (match t.2.1.status with | some s => decide (0 ≤ s) | none => false)
        && (!only || t.2.1.charged) && decide (t.2.2 < R))) :=
  fill_positive R only _ (fun _ ht => hs _ (mem_triples_part ht))

omit [LE α] [DecidableLE α] [Add α] [Sub α] [Mul α] [NatCast α] in
/-- **Holes**: the repaired call `fill_associated_particles(…, "negative", False)` returns exactly the
negative-status particles at `delta_r < R`, charged or neutral. -/
theorem holes_exact (R : α) (ps : List (Part α)) (ds : List α) (hs : ∀ p ∈ ps, p.status ≠ none) :
    fill R .negative false (triples ps ds) = .ok ((triples ps ds).filter (fun t =>
      (match t.2.1.status with | some s => decide (s < 0) | none => false) && decide (t.2.2 < R))) :=
  fill_negative R _ (fun _ ht => hs _ (mem_triples_part ht))

omit [LE α] [DecidableLE α] [Add α] [Sub α] [Mul α] [NatCast α] in
/-- an unset status in an event raises as soon as a jet of that event is looked at -/
theorem unset_status_raises (R : α) (sel : Sel) (only : Bool) (ts : List (Triple α))
    (h : ∃ t ∈ ts, t.2.1.status = none) : fill R sel only ts = .error .value :=
  fill_unset R sel only ts h

/-- **Which jets are in the file**: a jet row `(event i, momentum m)` is in the specified file iff event
`i` has a clustered jet with `ptLo ≤ pt`, eta inside the window, whose momentum after hole subtraction is
`m` and whose pT after subtraction is below `ptHi`. -/
theorem jet_row_mem_iff (sqrt : α → α) (P : Params α) (evs : List (Event α)) (i : Nat) (m : Mom α) :
    Row.jet i m ∈ specFile sqrt P evs ↔
      ∃ ev j, evs[i]? = some ev ∧ j ∈ ev.jets ∧ ptOk P j = true ∧ etaOk P j.eta = true ∧
        m = specMom P ev j ∧ (Ext.fin (perp sqrt m)).ltb P.ptHi = true := by
  have hjet : ∀ (k : Nat) (ev : Event α) (j : Jet α), Row.jet i m ∈ specJet sqrt P k ev j ↔
      (i = k ∧ m = specMom P ev j ∧ (Ext.fin (perp sqrt (specMom P ev j))).ltb P.ptHi = true) := by
    intro k ev j
    unfold specJet
    split
    · rename_i hlt
      have hnp : Row.jet i m ∉ partRows k 1 (specAssoc P ev j) := by
        generalize (1 : Nat) = n
        induction specAssoc P ev j generalizing n with
        | nil => simp [partRows]
        | cons t ts ih => simp [partRows, ih]
      simp [hnp, hlt]
    · rename_i hlt
      simp [hlt]
  have key : ∀ (evs : List (Event α)) (k : Nat),
      Row.jet i m ∈ (specGroupsFrom sqrt P k evs).flatten ↔
        ∃ ev j, k ≤ i ∧ evs[i - k]? = some ev ∧ j ∈ ev.jets ∧ ptOk P j = true ∧ etaOk P j.eta = true ∧
          m = specMom P ev j ∧ (Ext.fin (perp sqrt m)).ltb P.ptHi = true := by
    intro evs
    induction evs with
    | nil => intro k; simp [specGroupsFrom]
    | cons ev rest ih =>
      intro k
      simp only [specGroupsFrom, List.flatten_append, List.mem_append, flatten_filter_nonempty, ih (k + 1)]
      constructor
      · rintro (h | ⟨ev', j, hk, hget, hrest⟩)
        · simp only [List.mem_flatten, List.mem_map] at h
          obtain ⟨g, ⟨j, hj, rfl⟩, hm⟩ := h
          obtain ⟨rfl, rfl, hlt⟩ := (hjet k ev j).1 hm
          simp only [selected, List.mem_filter] at hj
          exact ⟨ev, j, Nat.le_refl _, by simp, hj.1.1, hj.1.2, hj.2, rfl, hlt⟩
        · refine ⟨ev', j, by omega, ?_, hrest⟩
          have : i - k = (i - (k + 1)) + 1 := by omega
          rw [this, List.getElem?_cons_succ]; exact hget
      · rintro ⟨ev', j, hk, hget, hj, hpt, heta, hm, hlt⟩
        by_cases hik : i = k
        · left
          subst hik
          simp only [Nat.sub_self, List.getElem?_cons_zero, Option.some.injEq] at hget
          subst hget
          simp only [List.mem_flatten, List.mem_map]
          refine ⟨specJet sqrt P i ev j, ⟨j, ?_, rfl⟩, (hjet i ev j).2 ⟨rfl, hm, by rw [← hm]; exact hlt⟩⟩
          simp [selected, List.mem_filter, hj, hpt, heta]
        · right
          refine ⟨ev', j, by omega, ?_, hj, hpt, heta, hm, hlt⟩
          have : i - k = (i - (k + 1)) + 1 := by omega
          rw [this, List.getElem?_cons_succ] at hget; exact hget
  simpa [specFile, specGroups] using key evs 0

/-- **Reader**: reading the specified file back with `read_jet_data` gives one group per written jet —
the jet row followed by its associated particles — in the order written. -/
theorem read_write (sqrt : α → α) (P : Params α) (evs : List (Event α)) :
    read Row.index (specFile sqrt P evs) = specGroups sqrt P evs := by
  apply read_flatten
  have key : ∀ (evs : List (Event α)) (k : Nat), ∀ g ∈ specGroupsFrom sqrt P k evs, WFGroup Row.index g := by
    intro evs
    induction evs with
    | nil => intro k g hg; simp [specGroupsFrom] at hg
    | cons ev rest ih =>
      intro k g hg
      simp only [specGroupsFrom, List.mem_append, List.mem_filter, List.mem_map] at hg
      rcases hg with ⟨⟨j, _, rfl⟩, hne⟩ | hg
      · unfold specJet at hne ⊢
        split
        · refine ⟨_, _, rfl, rfl, fun r hr => ?_⟩
          have := partRows_index k 1 _ r hr
          omega
        · rename_i hlt; simp [hlt] at hne
      · exact ih (k + 1) g hg
  exact key evs 0

/-- write then read: after the repaired call, `read_jet_data` on the output file returns exactly the
groups of this call, whatever the file held before -/
theorem read_after_call (sqrt : α → α) (raw : Raw α) (P : Params α) (hP : normalise raw = .ok P)
    (prior : FS α) (evs : List (Event α)) (hs : StatusSet evs) :
    ∃ f, perform repaired sqrt raw prior evs = .ok (some f) ∧
      read Row.index f = specGroups sqrt P evs :=
  ⟨_, file_is_this_call sqrt raw P hP prior evs hs, read_write sqrt P evs⟩

end any_carrier

/-! ### parameter normalisation and the upper cut, over any linear order -/

section ordered
variable {α : Type} [LinearOrder α] [NatCast α]

/-- `None` means unbounded, the two limits may come in either order, the window is closed -/
theorem eta_window {raw : Raw α} {P : Params α} (h : normalise raw = .ok P) (x : α) :
    etaOk P x = true ↔
      match raw.etaA, raw.etaB with
      | some a, some b => min a b ≤ x ∧ x ≤ max a b
      | some a, none => a ≤ x
      | none, some b => x ≤ b
      | none, none => True := by
  obtain ⟨rfl, -, -⟩ := normalise_ok h
  cases hA : raw.etaA <;> cases hB : raw.etaB <;> simp only [etaOk, etaRange, Ext.ltb, Ext.leb]
  · simp
  · simp
  · simp
  · rename_i a b
    by_cases hab : a < b
    · simp [hab, min_eq_left hab.le, max_eq_right hab.le]
    · have hba : b ≤ a := not_lt.1 hab
      simp [hab, min_eq_right hba, max_eq_left hba]

/-- lower pT bound handed to fastjet: `None` is 0, limits in either order -/
theorem pt_lower {raw : Raw α} {P : Params α} (h : normalise raw = .ok P) (x : α) :
    P.ptLo.leb (.fin x) = true ↔
      match raw.ptA, raw.ptB with
      | some a, some b => min a b ≤ x
      | some a, none => a ≤ x
      | none, some _ => ((0 : Nat) : α) ≤ x
      | none, none => ((0 : Nat) : α) ≤ x := by
  obtain ⟨rfl, hnA, hnB⟩ := normalise_ok h
  cases hA : raw.ptA <;> cases hB : raw.ptB <;> simp only [ptRange, Ext.ltb, Ext.leb]
  · simp [zero]
  · rename_i b
    have hb : ((0 : Nat) : α) ≤ b := by
      simp only [isNeg, hB] at hnB
      exact not_lt.1 (of_decide_eq_false hnB)
    by_cases h0 : ((0 : Nat) : α) < b
    · simp [zero, h0]
    · have : b = ((0 : Nat) : α) := le_antisymm (not_lt.1 h0) hb
      simp [zero, this]
  · simp
  · rename_i a b
    by_cases hab : a < b
    · simp [hab, min_eq_left hab.le]
    · simp [hab, min_eq_right (not_lt.1 hab)]

/-- upper pT bound used when writing: `None` is unbounded, limits in either order, strict -/
theorem pt_upper {raw : Raw α} {P : Params α} (h : normalise raw = .ok P) (x : α) :
    (Ext.fin x).ltb P.ptHi = true ↔
      match raw.ptA, raw.ptB with
      | some a, some b => x < max a b
      | some _, none => True
      | none, some b => x < b
      | none, none => True := by
  obtain ⟨rfl, hnA, hnB⟩ := normalise_ok h
  cases hA : raw.ptA <;> cases hB : raw.ptB <;> simp only [ptRange, Ext.ltb]
  · simp
  · rename_i b
    have hb : ((0 : Nat) : α) ≤ b := by
      simp only [isNeg, hB] at hnB
      exact not_lt.1 (of_decide_eq_false hnB)
    by_cases h0 : ((0 : Nat) : α) < b
    · simp [zero, h0]
    · have : b = ((0 : Nat) : α) := le_antisymm (not_lt.1 h0) hb
      simp [zero, this]
  · simp
  · rename_i a b
    by_cases hab : a < b
    · simp [hab, max_eq_right hab.le]
    · simp [hab, max_eq_left (not_lt.1 hab)]

variable [Add α] [Sub α] [Mul α]

/-- **Upper cut**: a selected jet is omitted from the file exactly when its pT after hole subtraction
reaches the upper bound (`None` = no bound, limits in either order); otherwise its rows are the jet row
with the subtracted momentum followed by its associated particles numbered from 1. -/
theorem upper_cut (sqrt : α → α) {raw : Raw α} {P : Params α} (h : normalise raw = .ok P)
    (i : Nat) (ev : Event α) (j : Jet α) :
    (specJet sqrt P i ev j = [] ↔
      match raw.ptA, raw.ptB with
      | some a, some b => max a b ≤ perp sqrt (specMom P ev j)
      | some _, none => False
      | none, some b => b ≤ perp sqrt (specMom P ev j)
      | none, none => False) ∧
    (specJet sqrt P i ev j ≠ [] →
      specJet sqrt P i ev j = Row.jet i (specMom P ev j) :: partRows i 1 (specAssoc P ev j)) := by
  have hu := pt_upper h (perp sqrt (specMom P ev j))
  unfold specJet
  by_cases hc : (Ext.fin (perp sqrt (specMom P ev j))).ltb P.ptHi = true
  · have hlt := hu.1 hc
    rw [if_pos hc]
    refine ⟨⟨fun hh => (by cases hh), fun hh => ?_⟩, fun _ => rfl⟩
    cases hA : raw.ptA <;> cases hB : raw.ptB <;> simp only [hA, hB] at hlt hh
    · exact absurd hlt (not_lt.2 hh)
    · exact absurd hlt (not_lt.2 hh)
  · have hge : ¬ _ := fun hh => hc (hu.2 hh)
    rw [if_neg hc]
    refine ⟨⟨fun _ => ?_, fun _ => rfl⟩, fun hh => absurd rfl hh⟩
    cases hA : raw.ptA <;> cases hB : raw.ptB <;> simp only [hA, hB] at hge ⊢
    · exact hge trivial
    · exact not_lt.1 hge
    · exact hge trivial
    · exact not_lt.1 hge

end ordered

/-! ### hole subtraction over a ring -/

section ring
variable {K : Type} [Ring K] [LT K] [DecidableLT K]

/-- **Hole subtraction**: each component of the written jet momentum is the clustered component minus
the sum of that component over all negative-status particles of the event inside the cone. -/
theorem hole_subtraction (P : Params K) (ev : Event K) (j : Jet K) :
    subtract j.mom (specHoles P ev j) =
      ⟨j.mom.px - ((specHoles P ev j).map (fun t => t.2.1.mom.px)).sum,
       j.mom.py - ((specHoles P ev j).map (fun t => t.2.1.mom.py)).sum,
       j.mom.pz - ((specHoles P ev j).map (fun t => t.2.1.mom.pz)).sum,
       j.mom.e - ((specHoles P ev j).map (fun t => t.2.1.mom.e)).sum⟩ := by
  simp [subtract, holeSum_eq, sumL_eq_sum, List.map_map, Function.comp_def]

end ring

/-! ### the two texts as found violate the statement (monitors; carrier `Int`, `sqrt := id`) -/

section witnesses

/-- one charged particle of status 0 and one neutral hole, both inside the cone of the single jet -/
def wEvent : Event Int :=
  { parts := [⟨some 0, true, ⟨5, 0, 0, 5⟩⟩, ⟨some (-1), false, ⟨1, 0, 0, 1⟩⟩],
    jets := [⟨6, 0, ⟨6, 0, 0, 6⟩, [0, 0]⟩] }

def wRaw : Raw Int := ⟨1, none, none, none, none, true⟩
def wParams : Params Int := ⟨1, .ninf, .pinf, .fin 0, .pinf, true⟩
def wOld : List (Row Int) := [.other 0 7]

theorem wRaw_norm : normalise wRaw = .ok wParams := by decide

/-- what the property demands for the sample "empty event, then `wEvent`" -/
theorem wSpec : specFile id wParams [⟨[], []⟩, wEvent] = [.jet 1 ⟨5, 0, 0, 5⟩, .part 1 0 1] := by decide

/-- **stale file**: without the truncation before the loop, a jet-less first event leaves the old rows
in the file and the call appends to them -/
theorem witness_stale_file :
    perform ⟨false, false⟩ id wRaw (some wOld) [⟨[], []⟩, wEvent]
      = .ok (some (wOld ++ specFile id wParams [⟨[], []⟩, wEvent])) := by decide

/-- … and a call that finds no jets at all does not touch the file -/
theorem witness_no_jets_keeps_file :
    perform ⟨false, false⟩ id wRaw (some wOld) [⟨[], []⟩] = .ok (some wOld)
      ∧ specFile id wParams [⟨[], []⟩] = [] := by decide

/-- **neutral holes**: with `only_charged=assoc_only_charged` in the hole lookup, the neutral hole is
not subtracted when charged-only association is requested -/
theorem witness_neutral_hole :
    perform ⟨true, true⟩ id wRaw none [wEvent] = .ok (some [.jet 0 ⟨6, 0, 0, 6⟩, .part 1 0 0])
      ∧ specFile id wParams [wEvent] = [.jet 0 ⟨5, 0, 0, 5⟩, .part 1 0 0] := by decide

end witnesses

/-! ### the hypotheses are satisfiable by non-trivial objects -/

example : StatusSet [(⟨[], []⟩ : Event Int), wEvent] := by
  intro ev hev p hp
  simp [wEvent] at hev hp
  rcases hev with rfl | rfl
  · cases hp
  · simp at hp; rcases hp with rfl | rfl <;> simp

/-- the repaired text on the stale-file sample: old rows gone, neutral hole subtracted -/
example : perform repaired id wRaw (some wOld) [⟨[], []⟩, wEvent]
    = .ok (some [.jet 1 ⟨5, 0, 0, 5⟩, .part 1 0 1]) := by decide

/-- a jet whose pT after subtraction reaches the upper bound is omitted, its neighbour is kept -/
example : specFile id (⟨1, .ninf, .pinf, .fin 0, .fin 30, false⟩ : Params Int)
    [⟨[⟨some 1, true, ⟨5, 0, 0, 5⟩⟩], [⟨6, 0, ⟨6, 0, 0, 6⟩, [0]⟩, ⟨5, 0, ⟨5, 0, 0, 5⟩, [0]⟩]⟩]
    = [.jet 0 ⟨5, 0, 0, 5⟩, .part 1 0 0] := by decide

example : read Row.index ([.jet 0 ⟨5, 0, 0, 5⟩, .part 1 0 0, .jet 2 ⟨1, 0, 0, 1⟩] : List (Row Int))
    = [[.jet 0 ⟨5, 0, 0, 5⟩, .part 1 0 0], [.jet 2 ⟨1, 0, 0, 1⟩]] := by decide

end SparkxVerif.C20
