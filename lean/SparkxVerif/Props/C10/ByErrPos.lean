import SparkxVerif.Props.C10.ByErr
import Mathlib.Algebra.Order.BigOperators.Group.List
import Mathlib.Algebra.Order.Field.Basic

namespace SparkxVerif.C10
open SparkxVerif.Hist
section field
variable {K : Type} [Field K] [LinearOrder K] [IsStrictOrderedRing K]

/-- nonzero errors give strictly positive inverse-variance weights, so no bin's weights can cancel -/
theorem invVar_cols_ne_zero (s : State K) (hs : Shape s)
    (h1 : (s.err.any fun r => r.any isZero) = false) :
    (colSums (invVar s)).any isZero = false := by
  have hne := ncols_of_rowsOK hs.err hs.nh
  have hW : ncols (invVar s) = s.nBins := by
    rw [← hne]; unfold ncols invVar; cases s.err with
    | nil => rfl
    | cons a l => simp
  rw [Bool.eq_false_iff]
  intro hany
  rw [List.any_eq_true] at hany
  obtain ⟨x, hx, hz⟩ := hany
  simp only [colSums, hW, List.mem_map, List.mem_range] at hx
  obtain ⟨j, hj, rfl⟩ := hx
  rw [isZero_iff, sumL_eq_sum] at hz
  have hpos : 0 < (col (invVar s) j).sum := by
    apply List.sum_pos
    · intro y hy
      simp only [col, invVar, List.map_map, List.mem_map, Function.comp_def] at hy
      obtain ⟨r, hr, rfl⟩ := hy
      have hlen : r.length = s.nBins := hs.err.2 r hr
      have hjr : j < r.length := by omega
      have hnz : r[j] ≠ 0 := by
        intro h0
        have : (s.err.any fun r => r.any isZero) = true := by
          rw [List.any_eq_true]; refine ⟨r, hr, ?_⟩
          rw [List.any_eq_true]; exact ⟨r[j], List.getElem_mem hjr, (isZero_iff _).2 h0⟩
        rw [h1] at this; exact Bool.false_ne_true this
      simp only [List.getD_eq_getElem?_getD, List.getElem?_map, List.getElem?_eq_getElem hjr, Option.map_some,
        Option.getD_some]
      exact one_div_pos.2 (mul_self_pos.2 hnz)
    · have : (col (invVar s) j).length = s.nHist := by simp [col, invVar, hs.err.1]
      intro h; rw [h] at this; simp at this; have := hs.nh; omega
  exact (ne_of_gt hpos) hz

/-- **`average_weighted_by_error()` whenever no error entry is zero** (the only refusal the code documents) -/
theorem average_by_error_spec_nonzero (sqrt : K → K) (s : State K) (hs : Shape s)
    (h1 : (s.err.any fun r => r.any isZero) = false) :
    let r := step sqrt s .averageByErr
    r.2 = none ∧ r.1.nHist = 1 ∧ r.1.nBins = s.nBins ∧
    r.1.hist = [(List.range s.nBins).map (fun j => wmean (col (invVar s) j) (col s.hist j))] ∧
    r.1.err = [(List.range s.nBins).map (fun j => sqrt (1 / (col (invVar s) j).sum))] :=
  average_by_error_spec sqrt s hs h1 (invVar_cols_ne_zero s hs h1)

end field
end SparkxVerif.C10
