/-
C10 (addition) — what `average_weighted_by_error()` leaves behind when it succeeds: one histogram whose bin `j` is the
inverse-variance weighted mean `Σ_h x_hj / e_hj² / Σ_h 1 / e_hj²`, with error `sqrt (1 / Σ_h 1 / e_hj²)`.
(The statement of C10 names `average()` and `average_weighted()`; this is the third averaging operation of the class.)
-/
import SparkxVerif.Props.C10

namespace SparkxVerif.C10
open SparkxVerif.Hist

section field
variable {K : Type} [Field K] [LinearOrder K] [IsStrictOrderedRing K]

/-- inverse-variance weights, array-shaped like `error_` -/
def invVar (s : State K) : List (List K) := s.err.map (fun r => r.map (fun e => 1 / (e * e)))

theorem average_by_error_value (sqrt : K → K) (s : State K) (hs : Shape s)
    (hok : (step sqrt s .averageByErr).2 = none) :
    let r := step sqrt s .averageByErr
    r.1.nHist = 1 ∧ r.1.nBins = s.nBins ∧ r.1.edges = s.edges ∧
    r.1.hist = [(List.range s.nBins).map (fun j => wmean (col (invVar s) j) (col s.hist j))] ∧
    r.1.err = [(List.range s.nBins).map (fun j => sqrt (1 / (col (invVar s) j).sum))] ∧
    r.1.raw = [(List.range s.nBins).map (fun j => (col s.raw j).sum)] ∧
    r.1.scal = [s.scal.headD []] := by
  have hn := ncols_of_rowsOK hs.hist hs.nh
  have hnr := ncols_of_rowsOK hs.raw hs.nh
  have hne := ncols_of_rowsOK hs.err hs.nh
  have hW : ncols (s.err.map (fun r => r.map (fun e => (Hist.one : K) / Hist.sq e))) = s.nBins := by
    rw [← hne]; unfold ncols; cases s.err with
    | nil => rfl
    | cons a l => simp
  simp only [step] at hok ⊢
  unfold averageByErr at hok ⊢
  by_cases h1 : (s.err.any fun r => r.any isZero) = true
  · rw [if_pos h1] at hok; simp at hok
  rw [if_neg h1] at hok ⊢
  by_cases h2 : (!(sameShape s.err s.hist && sameShape s.sys s.hist)) = true
  · rw [if_pos h2] at hok; simp at hok
  rw [if_neg h2] at hok ⊢
  by_cases h3 : (colSums (s.err.map (fun r => r.map (fun e => (Hist.one : K) / Hist.sq e)))).any isZero = true
  · exfalso; simp only [h3, if_true] at hok; simp at hok
  · simp only [h3]
    simp only [Bool.false_eq_true, if_false]
    refine ⟨trivial, trivial, trivial, ?_, ?_, ?_, trivial⟩
    · simp only [wavgCols, hn, invVar, Hist.one, Hist.sq, sumL_eq_sum, wmean, Nat.cast_one]
      congr 1; apply List.map_congr_left; intro j _
      first | rfl | (rw [List.zipWith_comm_of_comm (fun x y => mul_comm x y)])
    · have hW' := hW
      simp only [Hist.one, Hist.sq, Nat.cast_one] at hW'
      simp only [colSums, invVar, Hist.one, Hist.sq, sumL_eq_sum, List.map_map, Function.comp_def, Nat.cast_one, hW']
    · simp only [colSums, hnr, sumL_eq_sum]


/-- `average_weighted_by_error()` succeeds on every well-shaped state in which no error entry is zero and no bin has
inverse-variance weights cancelling to zero -/
theorem average_by_error_succeeds (sqrt : K → K) (s : State K) (hs : Shape s)
    (h1 : (s.err.any fun r => r.any isZero) = false)
    (h3 : (colSums (invVar s)).any isZero = false) :
    (step sqrt s .averageByErr).2 = none := by
  simp only [step]
  unfold averageByErr
  rw [if_neg (by simp [h1])]
  rw [if_neg (by simp [sameShape_of_rowsOK hs.err hs.hist, sameShape_of_rowsOK hs.sys hs.hist])]
  have h3' : (colSums (s.err.map (fun r => r.map (fun e => (Hist.one : K) / Hist.sq e)))).any isZero = false := by
    simpa only [invVar, Hist.one, Hist.sq, Nat.cast_one] using h3
  simp only [h3']
  simp

/-- **`average_weighted_by_error()`**: success and value together -/
theorem average_by_error_spec (sqrt : K → K) (s : State K) (hs : Shape s)
    (h1 : (s.err.any fun r => r.any isZero) = false)
    (h3 : (colSums (invVar s)).any isZero = false) :
    let r := step sqrt s .averageByErr
    r.2 = none ∧ r.1.nHist = 1 ∧ r.1.nBins = s.nBins ∧
    r.1.hist = [(List.range s.nBins).map (fun j => wmean (col (invVar s) j) (col s.hist j))] ∧
    r.1.err = [(List.range s.nBins).map (fun j => sqrt (1 / (col (invVar s) j).sum))] := by
  have hok := average_by_error_succeeds sqrt s hs h1 h3
  obtain ⟨a, b, _, d, e, _, _⟩ := average_by_error_value sqrt s hs hok
  exact ⟨hok, a, b, d, e⟩

end field

/-- non-vacuity: contents 1 and 3 with errors 1 and 2 (weights 1 and 1/4): the call succeeds, mean (1 + 3/4)/(5/4) = 7/5,
error "sqrt"(1/(5/4)) = 4/5 with the identity in place of sqrt; a zero error is refused -/
example :
    let s := run (fun x => x) (init ([0, 1] : List ℚ))
      [.fill (some 0) none, .setErr [1], .addHist, .fill (some 0) (some (some 3)), .setErr [2]]
    (step (fun x => x) s .averageByErr).2 = none ∧
    (step (fun x => x) s .averageByErr).1.hist = [[7/5]] ∧
    (step (fun x => x) s .averageByErr).1.err = [[4/5]] ∧
    (step (fun x => x) (init ([0, 1] : List ℚ)) .averageByErr).2 ≠ none := by
  decide +kernel
end SparkxVerif.C10
