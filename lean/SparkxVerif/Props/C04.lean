/-
C04 — storer bookkeeping stays consistent over any history of filters / additions.

Model: `Core/Storer.lean` (`State`, `filterStep` = a filter method = `Filter.py` function + recount, `add` = `__add__`,
`particleList` = `particle_list()`, `initState` = the constructors, `Hist` = histories built from loaded objects by
filter methods and `+`).  The filter functions are C03's model (`applyCall`, regenerated from `Filter.py` on every run).

How the English is rendered
* "events held": `held s` — `particle_objects_list()`, except that the placeholder `[[]]` of a storer with
  `num_events() == 0` is not an event (the constructors represent "every event removed by `filters=`" as
  `[[]]`, `num_events_ = 0`, `num_output_per_event_ = np.array([])`; the test-suite pins this).  A storer emptied by a
  filter *method* holds one empty event (`[[]]`, `num_events_ = 1`, counts `[[first_label, 0]]`) and is an ordinary state.
* `Inv s` (Lemmas/Storer.lean) = `Regular s ∨ Void s`; `Consistent s` below spells out what the observers return.
* `particle_list()` returns the flat list of the only event when `num_events_ == 1` (documented single-event shape),
  one list per event otherwise: `plOf`.
* "the same operations on plain Python lists": `evalPlain` / `runPlain` apply the `Filter.py` function itself and
  `++`; an empty list of events stays empty.
* "labels continue after a's": the rows of `a + b` are `mkRows (first label of a) (sizes of a's and b's events)`,
  i.e. consecutive labels starting with `a`'s labels (`add_labels` gives the explicit form).
* "a and b unchanged": `add` is a function of two values; aliasing of the real objects is checked by the harness.
* admissible: the class implements the method and the `Filter.py` function accepts the argument on the held list.
-/
import SparkxVerif.Lemmas.Storer

namespace SparkxVerif.C04
open SparkxVerif.Flt SparkxVerif.Storer

variable {α : Type}

/-! ### what the invariant means for the observers -/

/-- rows of the count array (the loaders' empty 1-D array has none) -/
def rowsOf : Counts → List (Int × Int)
  | .arr2d rows => rows
  | _ => []

/-- the property's per-state clauses, in terms of `num_events()`, `num_output_per_event()`, `particle_list()` -/
structure Consistent (s : State α) : Prop where
  /-- the reported number of events equals the number of events held -/
  numEvents : s.numEvents = some ((held s).length : Int)
  /-- the per-event counts equal the sizes of the held events -/
  counts : (rowsOf s.counts).map (·.2) = (held s).map (fun ev => (ev.length : Int))
  /-- the labels are consecutive -/
  labels : ∃ first : Int, (rowsOf s.counts).map (·.1) = (List.range (held s).length).map (fun (i : Nat) => first + (i : Int))
  /-- the counts are a `(n,2)` array (or the empty 1-D array when no event is held) -/
  shape : (∃ rows, s.counts = .arr2d rows) ∨ (s.counts = .arr1d [] ∧ held s = [])
  /-- `particle_list()` does not raise and mirrors the held events element by element -/
  mirror : particleList s = .ok (plOf (held s))

theorem inv_consistent (s : State α) (h : Inv s) : Consistent s := by
  have hm := inv_particleList s h
  rcases h with hr | hz
  · have hh := held_regular s hr
    obtain ⟨hne, hn, first, hc⟩ := hr
    refine ⟨by rw [hh]; exact hn, ?_, ⟨first, ?_⟩, Or.inl ⟨_, hc⟩, hm⟩
    · rw [hh, hc]; simp [rowsOf, mkRows_snd, sizes]
    · rw [hh, hc]; simp only [rowsOf, mkRows_fst, sizes, List.length_map]
  · have hh := held_zero s hz
    obtain ⟨hn, _, hc⟩ := hz
    refine ⟨by rw [hh]; exact hn, ?_, ⟨0, ?_⟩, ?_, hm⟩
    · rcases hc with hc | hc <;> simp [hc, hh, rowsOf]
    · rcases hc with hc | hc <;> simp [hc, hh, rowsOf]
    · rcases hc with hc | hc
      · exact Or.inl ⟨_, hc⟩
      · exact Or.inr ⟨hc, hh⟩

/-! ### construction -/

/-- any state whose bookkeeping is the recount of its held list is consistent (what a constructor with `filters=`
leaves when at least one event survives; which events survive is C05's subject) -/
theorem inv_of_recount (s : State α) (first : Int) (hn : s.numEvents = some (s.events.length : Int))
    (hc : s.counts = .arr2d (mkRows first (sizes s.events))) : Inv s := by
  by_cases he : s.events = []
  · right
    refine ⟨by rw [hn, he]; rfl, Or.inl he, Or.inl ?_⟩
    rw [hc, he]; rfl
  · exact Or.inl ⟨he, hn, first, hc⟩

/-- **`inv_init`**: whole file / `events=k` / `events=(a,b)`, for the three classes -/
theorem inv_init (cls : Cls) (base : Int) (file : Evs α) (sel : Sel) (footers : List Nat) (ptype : Nat) (s : State α)
    (h : initState cls base file sel footers ptype = .ok s) : Inv s := by
  unfold initState at h
  split at h
  · simp at h
  · split at h
    · simp at h
    · simp only [Except.ok.injEq] at h
      subst h
      exact inv_of_recount _ (base + (sel.first : Int)) rfl rfl

theorem inv_init_oscar (file : Evs α) (sel : Sel) (footers : List Nat) (s : State α)
    (h : initOscar file sel footers = .ok s) : Inv s := inv_init _ _ _ _ _ _ s h
theorem inv_init_jetscape (file : Evs α) (sel : Sel) (ptype : Nat) (s : State α)
    (h : initJetscape file sel ptype = .ok s) : Inv s := inv_init _ _ _ _ _ _ s h
theorem inv_init_pobj (file : Evs α) (sel : Sel) (s : State α)
    (h : initPobj file sel = .ok s) : Inv s := inv_init _ _ _ _ _ _ s h

/-- the labels a constructor assigns: the original event numbers of the file (from `0` Oscar / lists, `1` Jetscape) -/
theorem init_labels (cls : Cls) (base : Int) (file : Evs α) (sel : Sel) (footers : List Nat) (ptype : Nat) (s : State α)
    (h : initState cls base file sel footers ptype = .ok s) :
    s.counts = .arr2d (mkRows (base + (sel.first : Int)) (sizes s.events)) ∧ Sel.slice (cls = .pobj) sel file = .ok s.events := by
  unfold initState at h
  split at h
  · simp at h
  · split at h
    · simp at h
    · rename_i evs he
      simp only [Except.ok.injEq] at h
      subst h
      exact ⟨rfl, he⟩

/-- the state the Oscar / Jetscape constructors leave when `filters=` removed every event is consistent -/
theorem inv_init_all_cut (cls : Cls) (footers : List Nat) (ptype : Nat) :
    Inv ({ cls := cls, events := [[]], numEvents := some 0, counts := .arr1d [], footers := footers, ptype := ptype } : State α) :=
  Or.inr ⟨rfl, Or.inr rfl, Or.inr rfl⟩

section steps
variable [LE α] [LT α] [DecidableLE α] [DecidableLT α] [Neg α] [Zero α] [Add α]
variable (impl : Cls → Call α → Bool) (ofNat : Nat → α)

/-! ### one step -/

/-- the other operand of an addition is a consistent storer -/
def OpOK : Op α → Prop
  | .filter _ => True
  | .addRight o => Inv o
  | .addLeft o => Inv o

/-- the operation is one the property quantifies over: the class implements the method and the `Filter.py` function
accepts the argument on the held list; the storers added are of the same class (and Jetscape particle type) -/
def Admissible (s : State α) : Op α → Prop
  | .filter c => impl s.cls c = true ∧ ∃ r, applyCall ofNat c s.events = .ok r
  | .addRight o => s.cls = o.cls ∧ (s.cls = .jetscape → s.ptype = o.ptype)
  | .addLeft o => o.cls = s.cls ∧ (o.cls = .jetscape → o.ptype = s.ptype)

/-- **`inv_step`** -/
theorem inv_step (s s' : State α) (op : Op α) (hI : Inv s) (hop : OpOK op) (h : step impl ofNat s op = .ok s') : Inv s' := by
  cases op with
  | filter c => exact inv_filterStep impl ofNat s s' c hI h
  | addRight o => rw [add_eq s o s' hI hop h]; exact sumState_inv _ _ _ _
  | addLeft o => rw [add_eq o s s' hop hI h]; exact sumState_inv _ _ _ _

/-- **`step_total`**: an admissible operation on a consistent storer never raises -/
theorem step_total (s : State α) (op : Op α) (hI : Inv s) (hop : OpOK op) (ha : Admissible impl ofNat s op) :
    ∃ s', step impl ofNat s op = .ok s' := by
  cases op with
  | filter c => obtain ⟨hi, r, hr⟩ := ha; exact filterStep_total impl ofNat s c r hI hi hr
  | addRight o => exact add_total s o hI hop ha.1 ha.2
  | addLeft o => exact add_total o s hop hI ha.1 ha.2

/-- refinement of one step to plain lists -/
theorem step_refines (s s' : State α) (op : Op α) (hI : Inv s) (hop : OpOK op) (h : step impl ofNat s op = .ok s') :
    stepPlain ofNat (held s) op = .ok (held s') := by
  cases op with
  | filter c =>
    rcases filterStep_held impl ofNat s s' c hI h with ⟨h0, h1⟩ | ⟨h0, h1⟩
    · simp [stepPlain, h0, h1, pure, Except.pure]
    · have : (held s).isEmpty = false := by cases hh : held s <;> simp_all
      simp [stepPlain, this, h1]
  | addRight o => rw [add_eq s o s' hI hop h, sumState_held]; rfl
  | addLeft o => rw [add_eq o s s' hop hI h, sumState_held]; rfl

/-! ### every history -/

/-- **`inv_reachable`, linear histories**: after any sequence of filter methods and additions of consistent storers the
storer is consistent, and holds what the same operations give on plain lists (**`refines_lists`**) -/
theorem inv_run (ops : List (Op α)) (s s' : State α) (hI : Inv s) (hops : ∀ op ∈ ops, OpOK op)
    (h : run impl ofNat s ops = .ok s') : Inv s' ∧ runPlain ofNat (held s) ops = .ok (held s') := by
  induction ops generalizing s with
  | nil => simp only [run, Except.ok.injEq] at h; subst h; exact ⟨hI, rfl⟩
  | cons op ops ih =>
    simp only [run] at h
    obtain ⟨s1, h1, h2⟩ := bind_ok' _ _ _ h
    have hop := hops op (by simp)
    have hI1 := inv_step impl ofNat s s1 op hI hop h1
    obtain ⟨hI', hp⟩ := ih s1 hI1 (fun o ho => hops o (by simp [ho])) h2
    refine ⟨hI', ?_⟩
    simp only [runPlain, step_refines impl ofNat s s1 op hI hop h1]
    exact hp

/-- the observers after any linear history -/
theorem consistent_run (ops : List (Op α)) (s s' : State α) (hI : Inv s) (hops : ∀ op ∈ ops, OpOK op)
    (h : run impl ofNat s ops = .ok s') : Consistent s' :=
  inv_consistent s' (inv_run impl ofNat ops s s' hI hops h).1

/-- all loaded objects a history starts from are consistent -/
def LeavesInv : Hist α → Prop
  | .init s => Inv s
  | .filter h _ => LeavesInv h
  | .add h₁ h₂ => LeavesInv h₁ ∧ LeavesInv h₂

/-- **`inv_reachable` + `refines_lists`, tree-shaped histories** (storers that were themselves filtered, partially
loaded or sums are added): every reachable storer is consistent and holds exactly what the same operations give on
plain Python lists -/
theorem inv_reachable (h : Hist α) (s : State α) (hl : LeavesInv h) (he : evalH impl ofNat h = .ok s) :
    Inv s ∧ evalPlain ofNat h = .ok (held s) := by
  induction h generalizing s with
  | init s0 => simp only [evalH, Except.ok.injEq] at he; subst he; exact ⟨hl, rfl⟩
  | filter h c ih =>
    simp only [evalH] at he
    obtain ⟨s0, h0, h1⟩ := bind_ok' _ _ _ he
    obtain ⟨hI0, hp0⟩ := ih s0 hl h0
    refine ⟨inv_filterStep impl ofNat s0 s c hI0 h1, ?_⟩
    have := step_refines impl ofNat s0 s (.filter c) hI0 trivial h1
    simp only [evalPlain, hp0]
    exact this
  | add h₁ h₂ ih₁ ih₂ =>
    simp only [evalH] at he
    obtain ⟨a, ha, he'⟩ := bind_ok' _ _ _ he
    obtain ⟨b, hb, hab⟩ := bind_ok' _ _ _ he'
    obtain ⟨hIa, hpa⟩ := ih₁ a hl.1 ha
    obtain ⟨hIb, hpb⟩ := ih₂ b hl.2 hb
    rw [add_eq a b s hIa hIb hab]
    refine ⟨sumState_inv _ _ _ _, ?_⟩
    simp only [evalPlain, hpa, hpb, sumState_held]
    rfl

theorem consistent_reachable (h : Hist α) (s : State α) (hl : LeavesInv h) (he : evalH impl ofNat h = .ok s) : Consistent s :=
  inv_consistent s (inv_reachable impl ofNat h s hl he).1

/-- every operation of the history is admissible in the state it is applied to -/
def AdmH : Hist α → Prop
  | .init _ => True
  | .filter h c => AdmH h ∧ ∀ s, evalH impl ofNat h = .ok s → Admissible impl ofNat s (.filter c)
  | .add h₁ h₂ => AdmH h₁ ∧ AdmH h₂ ∧ ∀ a b, evalH impl ofNat h₁ = .ok a → evalH impl ofNat h₂ = .ok b → Admissible impl ofNat a (.addRight b)

/-- **totality over histories**: a history of admissible operations from consistent loaded objects never raises -/
theorem hist_total (h : Hist α) (hl : LeavesInv h) (ha : AdmH impl ofNat h) : ∃ s, evalH impl ofNat h = .ok s := by
  induction h with
  | init s0 => exact ⟨s0, rfl⟩
  | filter h c ih =>
    obtain ⟨s0, h0⟩ := ih hl ha.1
    obtain ⟨hI0, _⟩ := inv_reachable impl ofNat h s0 hl h0
    obtain ⟨s', hs'⟩ := step_total impl ofNat s0 (.filter c) hI0 trivial (ha.2 s0 h0)
    exact ⟨s', by simp only [evalH, h0]; exact hs'⟩
  | add h₁ h₂ ih₁ ih₂ =>
    obtain ⟨a, ha'⟩ := ih₁ hl.1 ha.1
    obtain ⟨b, hb'⟩ := ih₂ hl.2 ha.2.1
    obtain ⟨hIa, _⟩ := inv_reachable impl ofNat h₁ a hl.1 ha'
    obtain ⟨hIb, _⟩ := inv_reachable impl ofNat h₂ b hl.2 hb'
    obtain ⟨s', hs'⟩ := step_total impl ofNat a (.addRight b) hIa hIb (ha.2.2 a b ha' hb')
    exact ⟨s', by simp only [evalH, ha', hb']; exact hs'⟩

/-- the filter part of the refinement, spelled out: on a storer holding events a filter method leaves exactly the
`Filter.py` function's result (C03's theorems say what that is), keeps the first label and recounts -/
theorem filter_spec (s s' : State α) (c : Call α) (hr : Regular s) (h : filterStep impl ofNat s c = .ok s') :
    ∃ r, applyCall ofNat c s.events = .ok r ∧ s'.events = r ∧ s'.numEvents = some (r.length : Int) ∧
      s'.counts = .arr2d (mkRows (firstLabel s) (sizes r)) ∧ s'.cls = s.cls ∧ s'.footers = s.footers := by
  have hc := regular_counts s hr
  obtain ⟨r, h1, _, h2⟩ := filterStep_regular impl ofNat s s' c (firstLabel s) hr.1 hc h
  exact ⟨r, h1, by rw [h2], by rw [h2], by rw [h2], by rw [h2], by rw [h2]⟩

/-- the `NotImplementedError` overrides -/
theorem notimpl_spec (s : State α) (c : Call α) (h : impl s.cls c = false) : filterStep impl ofNat s c = .error .notimpl := by
  simp [filterStep, h]
end steps

/-! ### `a + b` -/

/-- **`add_spec`**: `a + b` holds `a`'s events followed by `b`'s, reports their number, and its count rows are the
sizes under consecutive labels that start with `a`'s first label — i.e. `a`'s rows followed by rows for `b`'s events
whose labels continue after `a`'s last (when `a` holds no event, `b`'s labels are kept) -/
theorem add_spec (a b s : State α) (ha : Inv a) (hb : Inv b) (h : add a b = .ok s) :
    Inv s ∧ held s = held a ++ held b ∧
    s.numEvents = some (((held a).length + (held b).length : Nat) : Int) ∧
    s.counts = .arr2d (mkRows (if (held a).isEmpty then firstLabel b else firstLabel a) (sizes (held a) ++ sizes (held b))) ∧
    s.cls = a.cls ∧ s.footers = (if a.cls = .oscar then a.footers ++ b.footers else a.footers) := by
  have e := add_eq a b s ha hb h
  refine ⟨e ▸ sumState_inv _ _ _ _, by rw [e]; exact sumState_held _ _ _ _, ?_, ?_, by rw [e]; rfl, by rw [e]; rfl⟩
  · rw [e]; simp [sumState]
  · rw [e]; simp [sumState, sizes_append]

/-- labels of `a + b`, explicit form: `a`'s labels, then `last label of a + 1, + 2, …` -/
theorem add_labels (a b s : State α) (ha : Regular a) (hb : Inv b) (h : add a b = .ok s) :
    (rowsOf s.counts).map (·.1) =
      (rowsOf a.counts).map (·.1) ++
        (List.range (held b).length).map (fun (i : Nat) => firstLabel a + ((held a).length : Int) + (i : Int)) := by
  obtain ⟨_, _, _, hc, _⟩ := add_spec a b s (Or.inl ha) hb h
  have hh := held_regular a ha
  have hne : (held a).isEmpty = false := by rw [hh]; cases he : a.events <;> simp_all [ha.1]
  rw [hc, regular_counts a ha, hne]
  simp only [rowsOf, Bool.false_eq_true, if_false, mkRows_append, List.map_append, mkRows_fst, hh, sizes_length]

/-- **`add_assoc`**: `(a + b) + c` and `a + (b + c)` are the same storer: events, number of events, counts, labels
(and class, footers) -/
theorem add_assoc (a b c ab bc x y : State α) (ha : Inv a) (hb : Inv b) (hc : Inv c)
    (h1 : add a b = .ok ab) (h2 : add ab c = .ok x) (h3 : add b c = .ok bc) (h4 : add a bc = .ok y) : x = y :=
  add_assoc_state a b c ab bc x y ha hb hc h1 h2 h3 h4

/-- **`add_total`**: storers of the same class (and Jetscape particle type) can always be added, in particular
filtered and partially loaded ones, and both bracketings of a triple exist -/
theorem add_defined (a b : State α) (ha : Inv a) (hb : Inv b) (hcls : a.cls = b.cls)
    (hpt : a.cls = .jetscape → a.ptype = b.ptype) : ∃ s, add a b = .ok s := add_total a b ha hb hcls hpt

/-- storers of different classes are rejected -/
theorem add_class_mismatch (a b : State α) (h : a.cls ≠ b.cls) : add a b = .error .type := by
  simp [add, h]

/-! ### monitors: the shapes and rules that used to break the property (repaired in /repo) -/

/-- the old relabelling rule `combined[n_a:, 0] += n_a` -/
def oldRelabel (nA : Int) (r1 r2 : List (Int × Int)) : List (Int × Int) :=
  shiftFrom (sliceStart nA (r1 ++ r2).length) nA (r1 ++ r2)

/-- `a` loaded with `events=(2,3)`, `b` a whole 5-event file: the old rule gives labels `[2,3,2,3,4,5,6]`, the
continuation rule `[2,…,8]` -/
theorem old_add_labels_wrong :
    (oldRelabel 2 (mkRows 2 [3, 1]) (mkRows 0 [2, 0, 3, 1, 2])).map (·.1) = [2, 3, 2, 3, 4, 5, 6] ∧
    addCounts 2 (.arr2d (mkRows 2 [3, 1])) (.arr2d (mkRows 0 [2, 0, 3, 1, 2])) = .ok (.arr2d (mkRows 2 [3, 1, 2, 0, 3, 1, 2])) := by
  constructor <;> rfl

/-- bookkeeping as `ParticleObjectLoader` returns it (plain list, `num_events_` of the full list): `particle_list()`
raises `TypeError`, every filter method raises `AttributeError` -/
theorem pylist_bookkeeping_breaks :
    let s : State Int := { cls := .pobj, events := [[], []], numEvents := some 2, counts := .pyList [0, 0], footers := [], ptype := 0 }
    particleList s = .error .type ∧ filterStep implemented (fun n => (n : Int)) s .charged = .error .attr := by
  constructor <;> rfl

/-- a 1-D `[label, count]` array (older `Jetscape(events=k)`): `particle_list()` raises `IndexError`, `+` a 2-D one `ValueError` -/
theorem arr1d_bookkeeping_breaks :
    let s : State Int := { cls := .jetscape, events := [[]], numEvents := some 1, counts := .arr1d [3, 0], footers := [], ptype := 0 }
    let t : State Int := { cls := .jetscape, events := [[]], numEvents := some 1, counts := .arr2d [(1, 0)], footers := [], ptype := 0 }
    particleList s = .error .index ∧ (add s t).toOption.isNone = true ∧ (add t t).toOption.isSome = true := by
  refine ⟨rfl, ?_, ?_⟩ <;> decide

/-! ### non-vacuity -/

def q (i : Nat) (c : Int) : Part Int :=
  { id := i, charge := some c, pdg := some 211, ncoll := some 0, status := some 1, t := some 1, x := some 0,
    y := none, z := some 0, E := some 2, pT := some 1, mT := some 1, rap := some 0, eta := some 0, etas := some 0,
    etasRaises := false, isHadron := some true, isLepton := some false, isQuark := some false, isMeson := some true,
    isBaryon := some false, hasUp := some true, hasDown := some true, hasStrange := some false,
    hasCharm := some false, hasBottom := some false, hasTop := some false }

def file5 : Evs Int := [[q 0 1, q 1 0], [], [q 2 1, q 3 1, q 4 0], [q 5 0], [q 6 1, q 7 0]]

def idsOfState (s : State Int) : Option Int × Counts × List (List Nat) := (s.numEvents, s.counts, s.events.map idsOf)

/-- a partially loaded Oscar object, filtered, added to a whole one that was emptied by a multiplicity cut: the result
is defined, consistent, and its labels continue -/
example :
    (do
      let a ← initOscar file5 (.range 2 3) [0, 1, 2, 3, 4]
      let a ← filterStep implemented (fun n => (n : Int)) a .charged
      let b ← initOscar file5 .all [5, 6, 7, 8, 9]
      let b ← filterStep implemented (fun n => (n : Int)) b (.multiplicity (.tuple [.num 7, .none]))
      let s ← add a b
      pure (idsOfState s, particleList s)) =
    .ok ((some 3, .arr2d [(2, 2), (3, 0), (4, 0)], [[2, 3], [], []]), .ok (.nested [[2, 3], [], []])) := by rfl

example : LeavesInv (.add (.filter (.init (⟨.pobj, file5, some 5, .arr2d (mkRows 0 (sizes file5)), [], 0⟩ : State Int)) .charged)
    (.init ⟨.pobj, [[]], some 0, .arr1d [], [], 0⟩)) :=
  ⟨inv_of_recount _ 0 rfl rfl, inv_init_all_cut _ _ _⟩

end SparkxVerif.C04
