/-
C11 — Q-cumulant flow equals the defining multi-particle azimuthal correlators.

Property theorems (helpers in `Lemmas/QC*.lean`, `Lemmas/TupleSum.lean`).  The functions `corr2`, `corr4`,
`corr6`, `cumulant`, `flowFromCumulant`, `dcorr2`, `dcorr4`, `dflow`, `dvn` are the executable model of
`QCumulantFlow` (`Core/QCumulant.lean`), run at `Float` by the driver and compared with the real class on every
run; here they are instantiated at `ℝ`.  The specification side is literal: sums of
`cos n(φ1+…−…)` over all tuples of distinct particles (`cosTuple`), events weighted by their number of tuples.
-/
import SparkxVerif.Lemmas.QC
import SparkxVerif.Lemmas.QC6
import SparkxVerif.Lemmas.QCDiff
import SparkxVerif.Lemmas.QCGen
import SparkxVerif.Lemmas.QCGenDiff
import Mathlib.Analysis.SpecialFunctions.Trigonometric.Basic

open ComplexConjugate Finset BigOperators
open SparkxVerif.QC SparkxVerif.Cx SparkxVerif.QCL SparkxVerif.QCD

namespace SparkxVerif.C11

/-- the unit vector `exp(i n φ)` of a particle, as the code builds it -/
noncomputable def unitOf (n : ℕ) (φ : ℝ) : Cx ℝ := ⟨Real.cos (n * φ), Real.sin (n * φ)⟩

/-- an event given by its azimuthal angles -/
noncomputable def unitsEv (n : ℕ) (φs : List ℝ) : Event ℝ := φs.map (unitOf n)

theorem toC_unitOf (n : ℕ) (φ : ℝ) : toC (unitOf n φ) = Complex.exp (((n * φ : ℝ) : ℂ) * Complex.I) := by
  apply Complex.ext
  · rw [Complex.exp_ofReal_mul_I_re]; rfl
  · rw [Complex.exp_ofReal_mul_I_im]; rfl

theorem unitsEv_isUnit (n : ℕ) (φs : List ℝ) : IsUnit (unitsEv n φs) := by
  intro u hu
  obtain ⟨φ, _, rfl⟩ := List.mem_map.1 hu
  simp [unitOf, Cx.normSq, ← sq]

/-- angle of particle `j` of the event (index type of the model's list) times the harmonic -/
noncomputable def theta (n : ℕ) (φs : List ℝ) (j : Fin (unitsEv n φs).length) : ℝ :=
  (n : ℝ) * φs[j.1]'(by have := j.2; simpa [unitsEv] using this)

theorem zs_units (n : ℕ) (φs : List ℝ) (j : Fin (unitsEv n φs).length) :
    zs (unitsEv n φs) j = Complex.exp ((theta n φs j : ℝ) * Complex.I) := by
  unfold zs theta
  simp only [unitsEv, List.getElem_map]
  rw [toC_unitOf]

/-- **the defining correlator of one event**: the sum, over all `k`-tuples of distinct particles, of
`cos n (a_1 φ_{t1} + … + a_k φ_{tk})` (e.g. `a = (1,1,-1,-1)` gives `cos n(φ1+φ2-φ3-φ4)`) -/
noncomputable def cosSum (k : ℕ) (a : Fin k → ℤ) (n : ℕ) (φs : List ℝ) : ℝ :=
  cosTuple k a (theta n φs)

theorem cosSum_eq_Dexp (k : ℕ) (a : Fin k → ℤ) (n : ℕ) (φs : List ℝ) :
    ((cosSum k a n φs : ℝ) : ℂ) = ((Dexp (A (zs (unitsEv n φs))) (List.ofFn a)).re : ℝ) := by
  unfold cosSum
  rw [cosTuple_eq, ← QCL.tuple_eq_Dexp _ (zs_unit (unitsEv_isUnit n φs))]
  simp only [zs_units]


/-- number of `k`-tuples of distinct particles in an event of multiplicity `M` -/
noncomputable def tupleCount (k M : ℕ) : ℝ :=
  ((Finset.univ.filter (fun t : Fin k → Fin M => Function.Injective t)).card : ℝ)

theorem tupleCount_eq_Dexp (k M : ℕ) :
    tupleCount k M = Dexp (fun _ : ℤ => (M : ℝ)) (List.replicate k 0) := by
  have h := tupleSum_eq_Dexp (R := ℝ) (n := M) (fun (_ : ℤ) _ => (1 : ℝ)) (fun _ _ _ => by simp) k (fun _ => 0)
  have h2 : tupleSum k (fun (_ : Fin k) (_ : Fin M) => (1 : ℝ)) = tupleCount k M := by
    unfold tupleSum tupleCount
    simp [Finset.sum_ite]
  rw [← h2, h]
  congr 1
  · funext e; simp [psum]
  · exact List.ofFn_const k 0

theorem tupleCount_two (M : ℕ) : tupleCount 2 M = (M : ℝ) * (M - 1) := by
  rw [tupleCount_eq_Dexp]; simp [Dexp, List.range_succ]; ring
theorem tupleCount_four (M : ℕ) : tupleCount 4 M = (M : ℝ) * (M - 1) * (M - 2) * (M - 3) := by
  rw [tupleCount_eq_Dexp]; simp [Dexp, List.range_succ]; ring
theorem tupleCount_six (M : ℕ) :
    tupleCount 6 M = (M : ℝ) * (M - 1) * (M - 2) * (M - 3) * (M - 4) * (M - 5) := by
  rw [tupleCount_eq_Dexp]; simp [Dexp, List.range_succ]; ring

theorem real_of_complex {x : ℝ} {D : ℂ} (h : (x : ℂ) = D) : x = D.re := by rw [← h]; simp

theorem len_units (n : ℕ) (φs : List ℝ) : (unitsEv n φs).length = φs.length := by simp [unitsEv]

/-- per-event numerators are the defining tuple sums -/
theorem ev2 (n : ℕ) (φs : List ℝ) :
    Cx.normSq (Qm 1 (unitsEv n φs)) - mult (unitsEv n φs) = cosSum 2 ![1, -1] n φs := by
  have h := real_of_complex (num2_eq (unitsEv_isUnit n φs))
  have c := cosSum_eq_Dexp 2 ![1, -1] n φs
  have : List.ofFn (![1, -1] : Fin 2 → ℤ) = [1, -1] := by simp
  rw [this] at c
  rw [h]; exact_mod_cast c.symm

theorem ev4 (n : ℕ) (φs : List ℝ) :
    num4 (unitsEv n φs) = cosSum 4 ![1, 1, -1, -1] n φs := by
  have h := real_of_complex (num4_eq (unitsEv_isUnit n φs))
  have c := cosSum_eq_Dexp 4 ![1, 1, -1, -1] n φs
  have : List.ofFn (![1, 1, -1, -1] : Fin 4 → ℤ) = [1, 1, -1, -1] := by simp
  rw [this] at c
  rw [h]; exact_mod_cast c.symm

theorem ev6 (n : ℕ) (φs : List ℝ) (h6 : 6 ≤ φs.length) :
    W6 (unitsEv n φs) * ebe6 (unitsEv n φs) = cosSum 6 ![1, 1, 1, -1, -1, -1] n φs := by
  have h := real_of_complex (ebe6_eq (unitsEv_isUnit n φs) (by rw [len_units]; exact h6))
  have c := cosSum_eq_Dexp 6 ![1, 1, 1, -1, -1, -1] n φs
  have : List.ofFn (![1, 1, 1, -1, -1, -1] : Fin 6 → ℤ) = [1, 1, 1, -1, -1, -1] := by simp
  rw [this] at c
  rw [h]; exact_mod_cast c.symm


theorem sum_map_sub {ι : Type} (l : List ι) (f g : ι → ℝ) :
    (l.map f).sum - (l.map g).sum = (l.map (fun x => f x - g x)).sum := by
  induction l with
  | nil => simp
  | cons a l ih => simp only [List.map_cons, List.sum_cons, ← ih]; ring

/-- **C11, `<<2>>`.** Average of `cos n(φ1−φ2)` over all ordered pairs of distinct particles, events weighted
by their number of pairs — for any number of events and any multiplicities. -/
theorem corr2_eq (n : ℕ) (evs : List (List ℝ)) :
    corr2 (evs.map (unitsEv n)) =
      (evs.map (cosSum 2 ![1, -1] n)).sum / (evs.map (fun φs => tupleCount 2 φs.length)).sum := by
  unfold corr2
  simp only [sumL_eq_sum, List.map_map]
  rw [sum_map_sub, sum_map_sub]
  congr 1
  · congr 1; apply List.map_congr_left; intro φs _
    exact ev2 n φs
  · congr 1; apply List.map_congr_left; intro φs _
    simp only [Function.comp, mult_eq, len_units, tupleCount_two]; ring

/-- **C11, `<<4>>`.** -/
theorem corr4_eq (n : ℕ) (evs : List (List ℝ)) :
    corr4 (evs.map (unitsEv n)) =
      (evs.map (cosSum 4 ![1, 1, -1, -1] n)).sum / (evs.map (fun φs => tupleCount 4 φs.length)).sum := by
  unfold corr4
  simp only [sumL_eq_sum, List.map_map]
  congr 1
  · congr 1; apply List.map_congr_left; intro φs _
    exact ev4 n φs
  · congr 1; apply List.map_congr_left; intro φs _
    simp only [Function.comp, mult_eq, len_units, tupleCount_four, nat]; push_cast; ring

/-- **C11, `<<6>>`** (every event has at least six particles). -/
theorem corr6_eq (n : ℕ) (evs : List (List ℝ)) (h6 : ∀ φs ∈ evs, 6 ≤ φs.length) :
    corr6 (evs.map (unitsEv n)) =
      (evs.map (cosSum 6 ![1, 1, 1, -1, -1, -1] n)).sum / (evs.map (fun φs => tupleCount 6 φs.length)).sum := by
  unfold corr6
  simp only [sumL_eq_sum, List.map_map]
  congr 1
  · congr 1; apply List.map_congr_left; intro φs hφ
    exact ev6 n φs (h6 φs hφ)
  · congr 1; apply List.map_congr_left; intro φs _
    simp only [Function.comp, W6, mult_eq, len_units, tupleCount_six, nat]; push_cast; ring




/-! ### cumulants and flow from cumulant -/

/-- **C11, cumulants**: `c{2} = <<2>>`, `c{4} = <<4>> − 2<<2>>²`, `c{6} = <<6>> − 9<<2>><<4>> + 12<<2>>³` -/
theorem cumulant_defs (evs : List (Event ℝ)) :
    cumulant 2 evs = some (corr2 evs) ∧
    cumulant 4 evs = some (corr4 evs - 2 * corr2 evs ^ 2) ∧
    cumulant 6 evs = some (corr6 evs - 9 * corr2 evs * corr4 evs + 12 * corr2 evs ^ 3) := by
  refine ⟨rfl, ?_, ?_⟩ <;> simp [cumulant, nat]

theorem factor_vals : (factor 2 : ℝ) = 1 ∧ (factor 4 : ℝ) = -1 ∧ (factor 6 : ℝ) = 1 / 4 := by
  refine ⟨?_, ?_, ?_⟩ <;> simp [factor, nat]

/-- **C11, `imaginary` option** as a decision table: with `x = factor_k · c_n{k}`,
`x ≥ 0 ↦ x^(1/k)`; otherwise `negative ↦ −(−x)^(1/k)`, `zero ↦ 0`, `nan ↦ NaN`. -/
theorem flow_table (root : ℝ → ℕ → ℝ) (k : ℕ) (c : ℝ) :
    (0 ≤ factor k * c → ∀ im, flowFromCumulant root k im c = .val (root (factor k * c) k)) ∧
    (factor k * c < 0 →
      flowFromCumulant root k .negative c = .val (-(root (-(factor k * c)) k)) ∧
      flowFromCumulant root k .zero c = .val 0 ∧
      flowFromCumulant root k .nan c = .nan) := by
  constructor
  · intro h im; simp [flowFromCumulant, nat, h]
  · intro h
    have : ¬ (0 ≤ factor k * c) := not_le.mpr h
    simp [flowFromCumulant, nat, this]

/-- with a genuine `k`-th root the reported flow satisfies `v^k = factor_k · c_n{k}` on the physical branch -/
theorem flow_pow (root : ℝ → ℕ → ℝ) (hroot : ∀ x k, 0 ≤ x → root x k ^ k = x) (k : ℕ) (im : Imag) (c : ℝ)
    (h : 0 ≤ factor k * c) :
    ∃ v, flowFromCumulant root k im c = .val v ∧ v ^ k = factor k * c :=
  ⟨_, (flow_table root k c).1 h im, hroot _ _ h⟩



/-! ### differential flow: first particle restricted to the particles of interest of the bin -/

/-- an event given by (angle, is-POI-in-this-bin) per particle -/
noncomputable def punitsEv (n : ℕ) (ps : List (ℝ × Bool)) : PEvent ℝ := ps.map (fun p => (unitOf n p.1, p.2))

theorem punitsEv_isUnit (n : ℕ) (ps : List (ℝ × Bool)) : IsUnitP (punitsEv n ps) := by
  intro u hu
  obtain ⟨p, _, rfl⟩ := List.mem_map.1 hu
  simp [unitOf, Cx.normSq, ← sq]

noncomputable def thetaP (n : ℕ) (ps : List (ℝ × Bool)) (j : Fin (punitsEv n ps).length) : ℝ :=
  (n : ℝ) * (ps[j.1]'(by have := j.2; simpa [punitsEv] using this)).1

def chiP (n : ℕ) (ps : List (ℝ × Bool)) (j : Fin (punitsEv n ps).length) : Bool :=
  (ps[j.1]'(by have := j.2; simpa [punitsEv] using this)).2

theorem zsP_units (n : ℕ) (ps : List (ℝ × Bool)) :
    zsP (punitsEv n ps) = fun j => Complex.exp ((thetaP n ps j : ℝ) * Complex.I) := by
  funext j
  unfold zsP thetaP
  simp only [punitsEv, List.getElem_map]
  rw [toC_unitOf]

theorem chi_units (n : ℕ) (ps : List (ℝ × Bool)) : chi (punitsEv n ps) = chiP n ps := by
  funext j
  unfold chi chiP
  simp only [punitsEv, List.getElem_map]

/-- **the defining differential correlator of one event**: sum over all `(k+1)`-tuples of distinct particles
whose first particle is a particle of interest of the bin, of `cos n(a_0 φ_{t0} + … )` -/
noncomputable def dcosSum (k : ℕ) (a : Fin (k + 1) → ℤ) (n : ℕ) (ps : List (ℝ × Bool)) : ℝ :=
  dcosTuple k a (thetaP n ps) (chiP n ps)

/-- number of such tuples (the event weight) -/
noncomputable def dtupleCount (k : ℕ) (n : ℕ) (ps : List (ℝ × Bool)) : ℝ :=
  dcosTuple k (fun _ => 0) (thetaP n ps) (chiP n ps)

theorem dtupleCount_is_card (k n : ℕ) (ps : List (ℝ × Bool)) :
    dtupleCount k n ps =
      ((Finset.univ.filter (fun t : Fin (k + 1) → Fin (punitsEv n ps).length =>
          Function.Injective t ∧ chiP n ps (t 0) = true)).card : ℝ) := by
  unfold dtupleCount dcosTuple
  simp

theorem dcosSum_eq_Dexp (k : ℕ) (a : Fin (k + 1) → ℤ) (n : ℕ) (ps : List (ℝ × Bool)) :
    dcosSum k a n ps =
      (Dexp (B (zsP (punitsEv n ps)) (chi (punitsEv n ps))) (List.ofFn (slots a))).re := by
  unfold dcosSum
  rw [dcosTuple_eq, ← QCD.tuple_eq_Dexp _ (zsP_unit (punitsEv_isUnit n ps)), zsP_units, chi_units]

theorem dev2 (n : ℕ) (ps : List (ℝ × Bool)) :
    (dnum2 (punitsEv n ps)).re = dcosSum 1 ![1, -1] n ps := by
  rw [dcosSum_eq_Dexp, ← toC_re, dnum2_eq (punitsEv_isUnit n ps)]
  congr 2

theorem dw2 (n : ℕ) (ps : List (ℝ × Bool)) :
    w2 (punitsEv n ps) = dtupleCount 1 n ps := by
  have h := real_of_complex (w2_eq (punitsEv n ps))
  rw [h]
  unfold dtupleCount
  have := dcosSum_eq_Dexp 1 (fun _ => 0) n ps
  unfold dcosSum at this
  rw [this]
  congr 2

theorem dev4 (n : ℕ) (ps : List (ℝ × Bool)) :
    (dnum4 (punitsEv n ps)).re = dcosSum 3 ![1, 1, -1, -1] n ps := by
  rw [dcosSum_eq_Dexp, ← toC_re, dnum4_eq (punitsEv_isUnit n ps)]
  congr 2

theorem dw4 (n : ℕ) (ps : List (ℝ × Bool)) :
    w4 (punitsEv n ps) = dtupleCount 3 n ps := by
  have h := real_of_complex (w4_eq (punitsEv n ps))
  rw [h]
  unfold dtupleCount
  have := dcosSum_eq_Dexp 3 (fun _ => 0) n ps
  unfold dcosSum at this
  rw [this]
  congr 2

theorem re_Cx_sum (xs : List (Cx ℝ)) : (Cx.sum xs).re = (xs.map (·.re)).sum := by
  rw [← toC_re, toC_sum]
  induction xs with
  | nil => simp
  | cons a l ih => simp [ih]

/-- **C11, `<<2'>>`**: average of `cos n(ψ1 − φ2)` over pairs whose first particle is a POI of the bin and whose
second is any other particle of the event; events weighted by their number of such pairs (events
without a POI in the bin have weight 0). -/
theorem dcorr2_eq (n : ℕ) (evs : List (List (ℝ × Bool))) :
    (dcorr2 (evs.map (punitsEv n))).re =
      (evs.map (dcosSum 1 ![1, -1] n)).sum / (evs.map (dtupleCount 1 n)).sum := by
  unfold dcorr2
  simp only [sumL_eq_sum, List.map_map, re_Cx_sum]
  congr 1
  · congr 1; apply List.map_congr_left; intro ps _; exact dev2 n ps
  · congr 1; apply List.map_congr_left; intro ps _; exact dw2 n ps

/-- **C11, `<<4'>>`**: average of `cos n(ψ1 + φ2 − φ3 − φ4)`. -/
theorem dcorr4_eq (n : ℕ) (evs : List (List (ℝ × Bool))) :
    (dcorr4 (evs.map (punitsEv n))).re =
      (evs.map (dcosSum 3 ![1, 1, -1, -1] n)).sum / (evs.map (dtupleCount 3 n)).sum := by
  unfold dcorr4
  simp only [sumL_eq_sum, List.map_map, re_Cx_sum]
  congr 1
  · congr 1; apply List.map_congr_left; intro ps _; exact dev4 n ps
  · congr 1; apply List.map_congr_left; intro ps _; exact dw4 n ps


/-! ### the differential flow value of a bin, as returned -/

/-- `v'_n{2}` of a bin is `__flow_from_cumulant_differential(<<2>>, <<2'>>)` and `v'_n{4}` is the same function of
`c_n{4} = <<4>> − 2<<2>>²` and `d_n{4} = <<4'>> − 2<<2'>><<2>>`, with all four correlators the defining ones. -/
theorem dvn_eq (rootp : ℝ → ℕ → ℕ → ℝ) (im : Imag) (n : ℕ) (evs : List (List (ℝ × Bool))) :
    dvn rootp 2 im (evs.map (punitsEv n)) =
      dflow rootp 2 im (corr2 ((evs.map (punitsEv n)).map full)) (dcorr2 (evs.map (punitsEv n))).re ∧
    dvn rootp 4 im (evs.map (punitsEv n)) =
      dflow rootp 4 im
        (corr4 ((evs.map (punitsEv n)).map full) - 2 * corr2 ((evs.map (punitsEv n)).map full) ^ 2)
        ((dcorr4 (evs.map (punitsEv n))).re
          - 2 * (dcorr2 (evs.map (punitsEv n))).re * corr2 ((evs.map (punitsEv n)).map full)) := by
  constructor <;> simp [dvn, nat]

/-- the whole event behind a flagged event is the event of its angles -/
theorem full_punitsEv (n : ℕ) (ps : List (ℝ × Bool)) : full (punitsEv n ps) = unitsEv n (ps.map (·.1)) := by
  simp [full, punitsEv, unitsEv, Function.comp_def]

/-- decision table of `__flow_from_cumulant_differential` -/
theorem dflow_table (rootp : ℝ → ℕ → ℕ → ℝ) (c d : ℝ) :
    (0 < c → ∀ im, dflow rootp 2 im c d = .val (d / rootp (factor 2 * c) 1 2)) ∧
    (¬ 0 < c → dflow rootp 2 .negative c d = .val (d / rootp (-(factor 2) * c) 1 2) ∧
               dflow rootp 2 .zero c d = .val 0 ∧ dflow rootp 2 .nan c d = .nan) ∧
    (c < 0 → ∀ im, dflow rootp 4 im c d = .val (-d / rootp (factor 4 * c) 3 4)) ∧
    (¬ c < 0 → dflow rootp 4 .negative c d = .val (-d / rootp (-(factor 4) * c) 3 4) ∧
               dflow rootp 4 .zero c d = .val 0 ∧ dflow rootp 4 .nan c d = .nan) := by
  refine ⟨?_, ?_, ?_, ?_⟩
  · intro h im; simp [dflow, nat, h]
  · intro h; simp [dflow, nat, h]
  · intro h im; simp [dflow, nat, h]
  · intro h; simp [dflow, nat, h]

/-! ### the same statements for the correlators regenerated from the source text (tie T) -/

/-- `<<2>>`, `<<4>>`, `<<6>>` as translated from the current `__calculate_corr` equal the defining tuple averages -/
theorem gen_corr_eq (n : ℕ) (evs : List (List ℝ)) :
    Gen.QCumulant.corr2 (evs.map (unitsEv n)) =
      (evs.map (cosSum 2 ![1, -1] n)).sum / (evs.map (fun φs => tupleCount 2 φs.length)).sum ∧
    Gen.QCumulant.corr4 (evs.map (unitsEv n)) =
      (evs.map (cosSum 4 ![1, 1, -1, -1] n)).sum / (evs.map (fun φs => tupleCount 4 φs.length)).sum ∧
    ((∀ φs ∈ evs, 6 ≤ φs.length) →
      Gen.QCumulant.corr6 (evs.map (unitsEv n)) =
        (evs.map (cosSum 6 ![1, 1, 1, -1, -1, -1] n)).sum / (evs.map (fun φs => tupleCount 6 φs.length)).sum) := by
  refine ⟨?_, ?_, ?_⟩
  · rw [QCGen.corr2_gen]; exact corr2_eq n evs
  · rw [QCGen.corr4_gen]; exact corr4_eq n evs
  · intro h; rw [QCGen.corr6_gen]; exact corr6_eq n evs h

/-- the cumulant the current `__cumulant_flow` hands to `__flow_from_cumulant` (translated from the source, fed with the
correlators translated from `__calculate_corr`) is `c{2} = <<2>>`, `c{4} = <<4>> − 2<<2>>²`,
`c{6} = <<6>> − 9<<2>><<4>> + 12<<2>>³` of the model, for every sample of events -/
theorem gen_cumulant_eq (evs : List (Event ℝ)) :
    let c2 := Gen.QCumulant.corr2 evs
    let c4 := Gen.QCumulant.corr4 evs
    let c6 := Gen.QCumulant.corr6 evs
    Gen.QCumulant.cum2 c2 c4 c6 = corr2 evs ∧
    Gen.QCumulant.cum4 c2 c4 c6 = corr4 evs - 2 * corr2 evs ^ 2 ∧
    Gen.QCumulant.cum6 c2 c4 c6 = corr6 evs - 9 * corr2 evs * corr4 evs + 12 * corr2 evs ^ 3 := by
  simp only [QCGen.corr2_gen, QCGen.corr4_gen, QCGen.corr6_gen]
  obtain ⟨h2, h4, h6⟩ := QCGen.cumulant_gen evs
  obtain ⟨d2, d4, d6⟩ := cumulant_defs evs
  refine ⟨?_, ?_, ?_⟩
  · exact (Option.some.inj (h2.symm.trans d2))
  · exact (Option.some.inj (h4.symm.trans d4))
  · exact (Option.some.inj (h6.symm.trans d6))

/-- the `imaginary` decision table holds of `__flow_from_cumulant` and `__flow_from_cumulant_differential` as
translated from the current source (with the table `cumulant_factor_` translated from `__init__`), for every admitted
order: the generated functions are the model's, so `flow_table`, `flow_pow`, `dflow_table` speak about them -/
theorem gen_flow_eq (root : ℝ → ℕ → ℝ) (rootp : ℝ → ℕ → ℕ → ℝ) (k : ℕ) (hk : k = 2 ∨ k = 4 ∨ k = 6) (im : Imag) (c d : ℝ) :
    (Gen.QCumulant.factor k : ℝ) = factor k ∧
    Gen.QCumulant.flowFromCumulant root k im c = flowFromCumulant root k im c ∧
    Gen.QCumulant.dflow rootp k im c d = dflow rootp k im c d :=
  ⟨QCGen.factor_gen k hk, QCGen.flowFromCumulant_gen root k hk im c, QCGen.dflow_gen rootp k im c d⟩

/-- the table, stated directly about the generated function -/
theorem gen_flow_table (root : ℝ → ℕ → ℝ) (k : ℕ) (hk : k = 2 ∨ k = 4 ∨ k = 6) (c : ℝ) :
    (0 ≤ Gen.QCumulant.factor k * c →
      ∀ im, Gen.QCumulant.flowFromCumulant root k im c = .val (root (Gen.QCumulant.factor k * c) k)) ∧
    (Gen.QCumulant.factor k * c < 0 →
      Gen.QCumulant.flowFromCumulant root k .negative c = .val (-(root (-(Gen.QCumulant.factor k * c)) k)) ∧
      Gen.QCumulant.flowFromCumulant root k .zero c = .val 0 ∧
      Gen.QCumulant.flowFromCumulant root k .nan c = .nan) := by
  simp only [QCGen.factor_gen k hk, QCGen.flowFromCumulant_gen root k hk]
  exact flow_table root k c

/-! ### the differential bin function `__compute_differential_flow_bin` regenerated from the source text (tie T)

`Gen.QCumulant.dargs2 E c2` / `dargs4 E c2 c4` are the two arguments the current source hands to
`__flow_from_cumulant_differential` for `k_ = 2` / `k_ = 4` (value part; `E` the flagged events of the bin, `c2`, `c4` the
entries of `full_event_quantities` that `differential_flow` fills with `<<2>>`, `<<4>>` of the full events).  The code
returns the real part of the decision function's result, i.e. the decision function of the real part of its second
argument (`dflow` is that real-part function, as in `dvn`). -/

/-- the arguments as translated from the current source are what the model `dvn` feeds to `dflow`:
`(<<2>>, Re<<2'>>)` and `(<<4>> − 2<<2>>², Re<<4'>> − 2 Re<<2'>> <<2>>)` - although the code drops the events of weight 0
(guarded division) and the model's `<<2'>>`, `<<4'>>` sum every numerator -/
theorem gen_dargs_eq (n : ℕ) (evs : List (List (ℝ × Bool))) (c2 c4 : ℝ) :
    (Gen.QCumulant.dargs2 (evs.map (punitsEv n)) c2).1 = c2 ∧
    (Gen.QCumulant.dargs2 (evs.map (punitsEv n)) c2).2.re = (dcorr2 (evs.map (punitsEv n))).re ∧
    (Gen.QCumulant.dargs4 (evs.map (punitsEv n)) c2 c4).1 = c4 - 2 * c2 ^ 2 ∧
    (Gen.QCumulant.dargs4 (evs.map (punitsEv n)) c2 c4).2.re =
      (dcorr4 (evs.map (punitsEv n))).re - 2 * (dcorr2 (evs.map (punitsEv n))).re * c2 :=
  QCGD.dargs_gen _ (fun e he => by
    obtain ⟨ps, _, rfl⟩ := List.mem_map.1 he
    exact punitsEv_isUnit n ps) c2 c4

/-- the differential flow of a bin computed ENTIRELY by functions translated from the current source
(`__calculate_corr` for `<<2>>`, `<<4>>` of the full events, `__compute_differential_flow_bin` for the arguments,
`__flow_from_cumulant_differential` for the decision) -/
noncomputable def genDvn (rootp : ℝ → ℕ → ℕ → ℝ) (k : ℕ) (im : Imag) (E : List (PEvent ℝ)) : Flow ℝ :=
  let c2 := Gen.QCumulant.corr2 (E.map full)
  let c4 := Gen.QCumulant.corr4 (E.map full)
  match k with
  | 2 => Gen.QCumulant.dflow rootp 2 im (Gen.QCumulant.dargs2 E c2).1 (Gen.QCumulant.dargs2 E c2).2.re
  | 4 => Gen.QCumulant.dflow rootp 4 im (Gen.QCumulant.dargs4 E c2 c4).1 (Gen.QCumulant.dargs4 E c2 c4).2.re
  | _ => .nan

/-- … is the model's `dvn`, so `dvn_eq`, `dcorr2_eq`, `dcorr4_eq`, `dflow_table` speak about the regenerated functions -/
theorem gen_dvn_eq (rootp : ℝ → ℕ → ℕ → ℝ) (im : Imag) (n : ℕ) (evs : List (List (ℝ × Bool))) :
    genDvn rootp 2 im (evs.map (punitsEv n)) = dvn rootp 2 im (evs.map (punitsEv n)) ∧
    genDvn rootp 4 im (evs.map (punitsEv n)) = dvn rootp 4 im (evs.map (punitsEv n)) := by
  obtain ⟨a1, a2, _, _⟩ := gen_dargs_eq n evs (corr2 ((evs.map (punitsEv n)).map full)) 0
  obtain ⟨_, _, b1, b2⟩ := gen_dargs_eq n evs (corr2 ((evs.map (punitsEv n)).map full))
    (corr4 ((evs.map (punitsEv n)).map full))
  obtain ⟨d2, d4⟩ := dvn_eq rootp im n evs
  constructor
  · simp only [genDvn, QCGen.corr2_gen, QCGen.dflow_gen, a1, a2, d2]
  · simp only [genDvn, QCGen.corr2_gen, QCGen.corr4_gen, QCGen.dflow_gen, b1, b2, d4]

/-- **C11, differential flow, stated about the regenerated functions**: `v'_n{2}`, `v'_n{4}` of a bin as computed by
the translated source are `__flow_from_cumulant_differential` of the DEFINING correlators -
`<<2>>`, `<<4>>`: averages of `cos n(φ1−φ2)`, `cos n(φ1+φ2−φ3−φ4)` over all tuples of distinct particles of the events;
`<<2'>>`, `<<4'>>`: the same with the first particle restricted to the POI of the bin - for any events, any
multiplicities (including events without POI in the bin or with fewer than four particles) -/
theorem gen_dvn_defining (rootp : ℝ → ℕ → ℕ → ℝ) (im : Imag) (n : ℕ) (evs : List (List (ℝ × Bool))) :
    let φ := evs.map (fun ps => ps.map (·.1))
    let C2 := (φ.map (cosSum 2 ![1, -1] n)).sum / (φ.map (fun φs => tupleCount 2 φs.length)).sum
    let C4 := (φ.map (cosSum 4 ![1, 1, -1, -1] n)).sum / (φ.map (fun φs => tupleCount 4 φs.length)).sum
    let D2 := (evs.map (dcosSum 1 ![1, -1] n)).sum / (evs.map (dtupleCount 1 n)).sum
    let D4 := (evs.map (dcosSum 3 ![1, 1, -1, -1] n)).sum / (evs.map (dtupleCount 3 n)).sum
    genDvn rootp 2 im (evs.map (punitsEv n)) = dflow rootp 2 im C2 D2 ∧
    genDvn rootp 4 im (evs.map (punitsEv n)) = dflow rootp 4 im (C4 - 2 * C2 ^ 2) (D4 - 2 * D2 * C2) := by
  intro φ C2 C4 D2 D4
  have hfull : (evs.map (punitsEv n)).map full = φ.map (unitsEv n) := by
    simp only [φ, List.map_map]
    apply List.map_congr_left
    intro ps _
    exact full_punitsEv n ps
  obtain ⟨g2, g4⟩ := gen_dvn_eq rootp im n evs
  obtain ⟨d2, d4⟩ := dvn_eq rootp im n evs
  rw [g2, g4, d2, d4, hfull, corr2_eq, corr4_eq, dcorr2_eq, dcorr4_eq]
  exact ⟨rfl, rfl⟩

/-! ### non-vacuity: a concrete non-trivial sample meets the hypotheses -/

example : ∀ φs ∈ ([[0, 1, 2, 3, 4, 5], [0, 1, 2, 3, 4, 5, 6]] : List (List ℝ)), 6 ≤ φs.length := by
  intro φs h; simp at h; rcases h with rfl | rfl <;> simp

example : tupleCount 2 3 = 6 := by rw [tupleCount_two]; norm_num

end SparkxVerif.C11
