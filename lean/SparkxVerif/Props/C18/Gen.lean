/-
C18, tie T — the property theorems of `Props/C18.lean` restated about the functions REGENERATED from the current
source of `src/sparkx/EventCharacteristics.py` (`Gen/Ecc.lean`, written by `harness/translate/ecc.py` on every run):

  `genParticlesC n m wq ps` = `Gen.Ecc.particles` (translation of `eccentricity_from_particles`: argument checks,
                              the `weight_quantity` if-chain on the STRING `wq`, the radial factor with its default
                              power, `arctan2 / cos / sin`, the three accumulators, `-(re/norm + (im/norm) 1j)`)
  `genLatticeC n m L`       = `Gen.Ecc.lattice`   (translation of `eccentricity_from_lattice`)

both at `ℝ` with the exact real functions `realOps`, the result pair packaged as a complex number.
`gen_particles_eq` / `gen_lattice_eq` (from `Lemmas/EccGen.lean`) say that they are the hand-written model for EVERY
input; every statement below is the corresponding theorem of `Props/C18.lean` with the generated function in place of
the model.  A change of the source that changes what the functions compute makes `Gen/Ecc.lean` differ and these
proofs fail to re-check.

The weight is named by the string the code compares (`hq : WQ.parse wq = some q` ties the string to the weight it
selects; `gen_weight_names` lists the five accepted strings).
-/
import SparkxVerif.Props.C18
import SparkxVerif.Lemmas.EccGen

open Complex
open SparkxVerif.Ecc

namespace SparkxVerif.C18

/-- `eccentricity_from_particles` as translated from the current source, at `ℝ` -/
noncomputable def genParticlesC (n : ℤ) (m : Option ℤ) (wq : String) (ps : List (Ecc.Part ℝ)) : Except Err ℂ :=
  (Gen.Ecc.particles realOps n m wq ps).map toC

/-- `eccentricity_from_lattice` as translated from the current source, at `ℝ` -/
noncomputable def genLatticeC (n : ℤ) (m : Option ℤ) (L : Ecc.Lattice ℝ) : Except Err ℂ :=
  (Gen.Ecc.lattice realOps n m L).map toC

/-- **the translated particle function is the model**, for every `n`, `m`, every string and every particle list -/
theorem gen_particles_eq (n : ℤ) (m : Option ℤ) (wq : String) (ps : List (Ecc.Part ℝ)) :
    genParticlesC n m wq ps = eccParticlesC n m (WQ.parse wq) ps := by
  unfold genParticlesC eccParticlesC
  rw [EccGen.particles_gen realOps (by simp [realOps])]

/-- **the translated lattice function is the model**, for every `n`, `m` and every lattice whose grid has the shape
of its axes -/
theorem gen_lattice_eq (n : ℤ) (m : Option ℤ) (L : Ecc.Lattice ℝ) (hL : L.wf = true) :
    genLatticeC n m L = eccLatticeC n m L := by
  unfold genLatticeC eccLatticeC
  rw [EccGen.lattice_gen realOps n m L hL]

/-- the weight names: the five strings of the code's `if/elif` chain select the five weights, in particular the
hypothesis `WQ.parse wq = some q` of the theorems below is met by each of them -/
theorem gen_weight_names :
    WQ.parse "energy" = some .energy ∧ WQ.parse "number" = some .number ∧ WQ.parse "charge" = some .charge ∧
    WQ.parse "baryon" = some .baryon ∧ WQ.parse "strangeness" = some .strangeness ∧
    WQ.parse Gen.Ecc.defaultWQ = some .energy := by
  refine ⟨?_, ?_, ?_, ?_, ?_, ?_⟩ <;> simp [WQ.parse, Gen.Ecc.defaultWQ]

/-- **Formula**, about the translated function: complete behaviour of `eccentricity_from_particles` -/
theorem gen_formula (n : ℤ) (m : Option ℤ) {wq : String} {q : WQ} (hq : WQ.parse wq = some q)
    (ps : List (Ecc.Part ℝ)) :
    genParticlesC n m wq ps =
      if n < 1 ∨ (∃ m', m = some m' ∧ m' < 1) then .error .value
      else if (ps.map fun p => weight q p * radius p ^ powerOf n m).sum = 0 then .error .zerodiv
      else .ok (-((ps.map fun p =>
                    ((weight q p * radius p ^ powerOf n m : ℝ) : ℂ) * exp (I * ((n : ℂ) * (azimuth p : ℂ)))).sum
                  / (((ps.map fun p => weight q p * radius p ^ powerOf n m).sum : ℝ) : ℂ))) := by
  rw [gen_particles_eq, hq, formula]

/-- an unknown weight name is rejected as soon as there is a particle (and the empty list divides 0 by 0) -/
theorem gen_unknown_weight (n : ℤ) (m : Option ℤ) {wq : String} (hq : WQ.parse wq = none) (hn : 1 ≤ n)
    (hm : ∀ m', m = some m' → 1 ≤ m') (ps : List (Ecc.Part ℝ)) :
    genParticlesC n m wq ps = if ps.isEmpty then .error .zerodiv else .error .value := by
  rw [gen_particles_eq, hq, eccParticlesC_unfold, validate_of_valid hn hm]

/-- omitting `m` is the same call of the translated function as passing the default (3 for `n = 1`, else `n`) -/
theorem gen_m_default (n : ℤ) (hn : 1 ≤ n) (wq : String) (ps : List (Ecc.Part ℝ)) :
    genParticlesC n none wq ps = genParticlesC n (some (if n = 1 then 3 else n)) wq ps := by
  rw [gen_particles_eq, gen_particles_eq, m_default n hn]

/-- **Bound**, about the translated function -/
theorem gen_bound (n : ℤ) (m : Option ℤ) {wq : String} {q : WQ} (hq : WQ.parse wq = some q)
    (ps : List (Ecc.Part ℝ)) (hw : ∀ p ∈ ps, 0 ≤ weight q p) {e : ℂ} (h : genParticlesC n m wq ps = .ok e) :
    ‖e‖ ≤ 1 := by
  rw [gen_particles_eq, hq] at h
  exact bound n m q ps hw h

/-- **Rotation**, about the translated function (any weight string, any particle list) -/
theorem gen_rotation (n : ℤ) (m : Option ℤ) (wq : String) (ps : List (Ecc.Part ℝ)) (α : ℝ) :
    genParticlesC n m wq (ps.map (Ecc.Part.rot α)) =
      (genParticlesC n m wq ps).map (fun e => exp (I * ((n : ℂ) * (α : ℂ))) * e) := by
  rw [gen_particles_eq, gen_particles_eq, rotation]

/-- **Reflection**, about the translated function -/
theorem gen_reflection (n : ℤ) (m : Option ℤ) (wq : String) (ps : List (Ecc.Part ℝ)) :
    genParticlesC n m wq (ps.map Ecc.Part.reflX) =
      (genParticlesC n m wq ps).map (fun e => (-1 : ℂ) ^ n * (starRingEnd ℂ) e) := by
  rw [gen_particles_eq, gen_particles_eq, reflection]

/-- **Scaling positions**, about the translated function -/
theorem gen_scale_positions (n : ℤ) (m : Option ℤ) (wq : String) (ps : List (Ecc.Part ℝ)) {s : ℝ} (hs : 0 < s) :
    genParticlesC n m wq (ps.map (Ecc.Part.scalePos s)) = genParticlesC n m wq ps := by
  rw [gen_particles_eq, gen_particles_eq, scale_positions n m _ ps hs]

/-- **Scaling weights**, about the translated function -/
theorem gen_scale_weights (n : ℤ) (m : Option ℤ) {wq : String} {q : WQ} (hq : WQ.parse wq = some q)
    (hne : q ≠ .number) (ps : List (Ecc.Part ℝ)) {c : ℝ} (hc : c ≠ 0) :
    genParticlesC n m wq (ps.map (Ecc.Part.scaleW c)) = genParticlesC n m wq ps := by
  rw [gen_particles_eq, gen_particles_eq, hq, scale_weights n m hne ps hc]

/-- **Reordering**, about the translated function -/
theorem gen_permutation (n : ℤ) (m : Option ℤ) (wq : String) {ps ps' : List (Ecc.Part ℝ)} (h : ps.Perm ps') :
    genParticlesC n m wq ps = genParticlesC n m wq ps' := by
  rw [gen_particles_eq, gen_particles_eq, permutation n m _ h]

/-- **Lattice formula**, about the translated lattice function -/
theorem gen_lattice_formula (n : ℤ) (m : Option ℤ) (L : Ecc.Lattice ℝ) (hL : L.wf = true) :
    genLatticeC n m L =
      if n < 1 ∨ (∃ m', m = some m' ∧ m' < 1) then .error .value
      else if (∑ i ∈ Finset.range L.xs.length, ∑ j ∈ Finset.range L.ys.length, ∑ l ∈ Finset.range L.nz,
                L.density i j l * nodeRadius L i j ^ powerOf n m) = 0 then .error .zerodiv
      else .ok (-((∑ i ∈ Finset.range L.xs.length, ∑ j ∈ Finset.range L.ys.length, ∑ l ∈ Finset.range L.nz,
                    ((L.density i j l * nodeRadius L i j ^ powerOf n m : ℝ) : ℂ) *
                      exp (I * ((n : ℂ) * (nodeAzimuth L i j : ℂ))))
                  / (((∑ i ∈ Finset.range L.xs.length, ∑ j ∈ Finset.range L.ys.length,
                        ∑ l ∈ Finset.range L.nz, L.density i j l * nodeRadius L i j ^ powerOf n m : ℝ)) : ℂ))) := by
  rw [gen_lattice_eq n m L hL, lattice_formula n m L hL]

/-- **Lattice = particles at the nodes**, between the two translated functions: the translated lattice function is
the translated particle function (weight `"energy"`) on one particle per node carrying the node's density -/
theorem gen_lattice_eq_particles (n : ℤ) (m : Option ℤ) (L : Ecc.Lattice ℝ) (hL : L.wf = true) :
    genLatticeC n m L = genParticlesC n m "energy" (L.nodes.map nodePart) := by
  rw [gen_lattice_eq n m L hL, gen_particles_eq, gen_weight_names.1, lattice_eq_particles n m L hL]

/-- the bound for the translated lattice function -/
theorem gen_lattice_bound (n : ℤ) (m : Option ℤ) (L : Ecc.Lattice ℝ) (hL : L.wf = true)
    (hρ : ∀ i j l, 0 ≤ L.density i j l) {e : ℂ} (h : genLatticeC n m L = .ok e) : ‖e‖ ≤ 1 := by
  rw [gen_lattice_eq n m L hL] at h
  exact lattice_bound n m L hL hρ h

/-! ### non-vacuity -/

/-- the translated function accepts the two-particle configuration of `Props/C18.lean` (`n = 2`, weight "number"):
the hypotheses of `gen_formula` are met by a concrete call that is not rejected -/
example : genParticlesC 2 none "number" [⟨1, 0, 0, 0, 1, 0⟩, ⟨1, 0, 0, 0, 0, 2⟩] ≠ .error .value := by
  rw [gen_formula 2 none gen_weight_names.2.1, if_neg (by simp)]
  split <;> simp

/-- and it rejects `n = 0` -/
example (wq : String) (ps : List (Ecc.Part ℝ)) : genParticlesC 0 none wq ps = .error .value := by
  rw [gen_particles_eq, eccParticlesC_unfold, validate_invalid (by simp)]

end SparkxVerif.C18
