/-
C10 — Histogram stays well-formed over any history; averaging and output are exact.

Property theorems only (helper lemmas: `Lemmas/HistShape.lean`, `Lemmas/HistAverage.lean`,
`Lemmas/HistWrite.lean`).  Same executable model as C09 (`Core/Histogram.lean`, run at `Float` against
the real class by the driver); every per-histogram numpy array is a list of rows next to the separately
stored `number_of_bins_` / `number_of_histograms_`, so "keeps the shape" is a statement that needs proof.
The column tables of `write_to_file` are generated from the source (`Gen/HistWrite.lean`).

How the English is rendered:
* "any sequence of histogram operations": `List (Op K)` over all 14 calls of the class, with arbitrary
  arguments — calls that raise are part of the history (the state they leave behind is the model's).
* "every per-histogram array keeps the shape (number of histograms, number of bins)": `Shape`
  (Lemmas/Histogram.lean): all five arrays are `nHist × nBins`, `nHist ≥ 1`, `nBins + 1` edges.
* "so every later operation succeeds": `later_operations_succeed` — a call whose arguments pass the
  method's own validation (`Admissible`) never raises in a reachable state; `write_total` for the writer.
* averaging: `average_weighted_spec`, `average_spec` with `wmean`, `wstd` (Lemmas/HistAverage.lean) =
  `Σ w x / Σ w`, `sqrt (Σ w (x − mean)² / Σ w)`; exactly one histogram is left.
* output: `write_spec` gives the whole file content (per histogram the header and per bin the row) for
  every list of requested columns (any subset, order, repetition) and one label dictionary or one per
  histogram; `valueOf` is the by-name meaning of a column.
-/
import SparkxVerif.Lemmas.HistShape
import SparkxVerif.Lemmas.HistAverage
import SparkxVerif.Lemmas.HistWrite
import Mathlib.Algebra.Order.Field.Rat

set_option linter.unusedSectionVars false

namespace SparkxVerif.C10
open SparkxVerif.Hist SparkxVerif.Gen.HistWrite

section field
variable {K : Type} [Field K] [LinearOrder K] [IsStrictOrderedRing K]

/-- one call — succeeding or raising — keeps every array at shape (nHist, nBins) -/
theorem shape_step (sqrt : K → K) (s : State K) (hs : Shape s) (op : Op K) : Shape (step sqrt s op).1 :=
  step_shape sqrt hs op

/-- **C10, well-formedness.** After any finite sequence of operations on a new histogram every
per-histogram array has the shape (number of histograms, number of bins), and the edges are still
strictly increasing. -/
theorem shape_reachable (sqrt : K → K) (edges : List K) (hne : edges ≠ []) (hsort : edges.Pairwise (· < ·))
    (ops : List (Op K)) :
    Shape (run sqrt (init edges) ops) ∧ (run sqrt (init edges) ops).edges.Pairwise (· < ·) :=
  ⟨run_shape sqrt ops (init_shape edges hne), run_sorted sqrt ops (s := init edges) hsort⟩

/-- the same from any well-shaped state -/
theorem shape_run (sqrt : K → K) (s : State K) (hs : Shape s) (ops : List (Op K)) : Shape (run sqrt s ops) :=
  run_shape sqrt ops hs

/-- **C10, "every later operation succeeds".** In every state reachable by any history, a call whose
arguments pass the method's own validation does not raise. -/
theorem later_operations_succeed (sqrt : K → K) (edges : List K) (hne : edges ≠ [])
    (ops : List (Op K)) (op : Op K) (ha : Admissible (run sqrt (init edges) ops) op) :
    (step sqrt (run sqrt (init edges) ops) op).2 = none :=
  step_ok sqrt (run_shape sqrt ops (init_shape edges hne)) op ha

/-- `write_to_file` succeeds in every reachable state, for every list of known column names and one label
dictionary or one per histogram -/
theorem write_total (sqrt : K → K) (edges : List K) (hne : edges ≠ []) (ops : List (Op K))
    (cols : List String) (hcols : ∀ c ∈ cols, c ∈ allColumns) (labels : Labels)
    (hl : LabelsOK (run sqrt (init edges) ops) cols labels) :
    ∃ out, write (run sqrt (init edges) ops) (some cols) labels = .ok out :=
  ⟨_, write_some_ok (run_shape sqrt ops (init_shape edges hne)) cols hcols labels hl⟩

/-- **C10, output.** For every well-shaped state, every list of requested columns and admissible label
list, the file consists of one block per histogram `h`: the header `labels(h)[c]` for the requested `c`
in the requested order, then one row per bin `i` holding `valueOf s h i c` — the value that belongs to
column `c` by name. -/
theorem write_spec (s : State K) (hs : Shape s) (cols : List String) (hcols : ∀ c ∈ cols, c ∈ allColumns)
    (labels : Labels) (hl : LabelsOK s cols labels) :
    write s (some cols) labels = .ok ((List.range s.nHist).map (fun h =>
      (cols.map (labelOf labels h), (List.range s.nBins).map (fun i => cols.map (valueOf s h i))))) :=
  write_some_ok hs cols hcols labels hl

/-- `columns=None` writes the eight default columns -/
theorem write_default_spec (s : State K) (hs : Shape s) (labels : Labels)
    (hl : LabelsOK s defaultColumns labels) :
    write s none labels = .ok ((List.range s.nHist).map (fun h =>
      (defaultColumns.map (labelOf labels h),
        (List.range s.nBins).map (fun i => defaultColumns.map (valueOf s h i))))) := by
  rw [write_none_eq hs labels hl]
  exact write_some_ok hs defaultColumns (by intro c hc; exact hc) labels hl

/-- what the columns mean -/
theorem value_of_columns (s : State K) (h i : Nat) :
    valueOf s h i "bin_center" = (s.edges.getD i 0 + s.edges.getD (i + 1) 0) / 2 ∧
    valueOf s h i "bin_low" = s.edges.getD i 0 ∧ valueOf s h i "bin_high" = s.edges.getD (i + 1) 0 ∧
    valueOf s h i "distribution" = (s.hist.getD h []).getD i 0 ∧
    valueOf s h i "stat_err+" = (s.err.getD h []).getD i 0 ∧
    valueOf s h i "stat_err-" = (s.err.getD h []).getD i 0 ∧
    valueOf s h i "sys_err+" = (s.sys.getD h []).getD i 0 ∧
    valueOf s h i "sys_err-" = (s.sys.getD h []).getD i 0 :=
  ⟨valueOf_center s h i, valueOf_low s h i, valueOf_high s h i, valueOf_dist s h i, valueOf_statp s h i,
    valueOf_statm s h i, valueOf_sysp s h i, valueOf_sysm s h i⟩

/-- **C10, averaging.** `average_weighted(ws)` with one weight per histogram and `Σ ws ≠ 0` succeeds and
leaves exactly one histogram (all five arrays `1 × nBins`): bin `j` holds the weighted arithmetic mean of
bin `j` over the histograms, its error the weighted population standard deviation; the systematic errors
are combined in quadrature with the same weights, raw counts are summed, `scaling_` keeps its first row. -/
theorem average_weighted_spec (sqrt : K → K) (s : State K) (hs : Shape s) (ws : List K)
    (hl : ws.length = s.nHist) (hsum : ws.sum ≠ 0) :
    let r := step sqrt s (.averageW ws)
    r.2 = none ∧ Shape r.1 ∧ r.1.nHist = 1 ∧ r.1.nBins = s.nBins ∧ r.1.edges = s.edges ∧
    r.1.hist = [(List.range s.nBins).map (fun j => wmean ws (col s.hist j))] ∧
    r.1.err = [(List.range s.nBins).map (fun j => wstd sqrt ws (col s.hist j))] ∧
    r.1.sys = [(List.range s.nBins).map (fun j => sqrt (wmean ws ((col s.sys j).map (fun x => x ^ 2))))] ∧
    r.1.raw = [(List.range s.nBins).map (fun j => (col s.raw j).sum)] ∧
    r.1.scal = [s.scal.headD []] := by
  obtain ⟨h1, h2, h3, h4, h5, h6, h7, h8, h9⟩ := averageW_eq sqrt hs ws hl hsum
  exact ⟨h1, averageW_shape sqrt hs ws, h2, h3, h4, h5, h6, h7, h8, h9⟩

/-- `average()`: the arithmetic mean `Σ_h x_h / H` and the population standard deviation
`sqrt (Σ_h (x_h − mean)² / H)` over the `H` histograms, one histogram left -/
theorem average_spec (sqrt : K → K) (s : State K) (hs : Shape s) :
    let r := step sqrt s .average
    r.2 = none ∧ Shape r.1 ∧ r.1.nHist = 1 ∧ r.1.nBins = s.nBins ∧
    r.1.hist = [(List.range s.nBins).map (fun j => (col s.hist j).sum / s.nHist)] ∧
    r.1.err = [(List.range s.nBins).map (fun j =>
      sqrt (((col s.hist j).map (fun x => (x - (col s.hist j).sum / s.nHist) ^ 2)).sum / s.nHist))] := by
  have hlen : (List.replicate s.nHist (1 : K)).length = s.nHist := by simp
  have hsum : (List.replicate s.nHist (1 : K)).sum ≠ 0 := by
    have := hs.nh
    have e : (List.replicate s.nHist (1 : K)).sum = (s.nHist : K) := by simp
    rw [e]
    exact_mod_cast (by omega : s.nHist ≠ 0)
  have hcol : ∀ j, (col s.hist j).length = s.nHist := by intro j; simp [col, hs.hist.1]
  obtain ⟨h1, h2, h3, _, h5, h6, _⟩ := averageW_eq sqrt hs (List.replicate s.nHist 1) hlen hsum
  have e : step sqrt s .average = averageW sqrt s (List.replicate s.nHist 1) := by
    simp only [step, one_eq]
  simp only [e]
  refine ⟨h1, averageW_shape sqrt hs _, h2, h3, ?_, ?_⟩
  · rw [h5]
    congr 1
    apply List.map_congr_left
    intro j _
    exact wmean_ones _ _ (hcol j)
  · rw [h6]
    congr 1
    apply List.map_congr_left
    intro j _
    simp only [wstd]
    rw [wmean_ones _ _ (hcol j), wmean_ones _ _ (by simp [hcol j])]

end field

/-! ### Non-vacuity: concrete histories over ℚ (kernel evaluation of the executable model) -/

/-- scale after inserting a bin, write a non-prefix column subset after averaging two histograms, with a
single label dictionary: the state is well-shaped and the file holds lower edge and content by name. -/
example :
    let ops : List (Op ℚ) := [.fill (some (1/2)) none, .addBin 1 (1/2), .scaleList [2, 3, 1], .addHist,
      .fill (some 2) (some (some 4)), .removeBin 0, .average]
    let s := run (fun x => x) (init [0, 1, 3]) ops
    (s.nHist, s.nBins, s.edges, s.hist, s.scal) = (1, 2, [1/2, 1, 3], [[0, 2]], [[3, 1]]) ∧
    write s (some ["bin_low", "distribution"]) [[("bin_low", "lo"), ("distribution", "y")]]
      = .ok [(["lo", "y"], [[1/2, 0], [1, 2]])] := by
  decide +kernel

example : LabelsOK (init ([0, 1, 3] : List ℚ)) ["distribution", "bin_low"]
    [[("bin_low", "lo"), ("distribution", "y")]] := by
  refine ⟨Or.inl rfl, ?_⟩
  intro h hh c hc
  simp only [List.mem_cons, List.not_mem_nil, or_false] at hc
  rcases hc with rfl | rfl <;>
    (show (lookup _ [("bin_low", "lo"), ("distribution", "y")]).isSome = true; decide)

/-- weighted average of contents 1 and 3 with weights 1 and 3: mean 5/2, variance 3/4 -/
example :
    let s := run (fun x => x) (init ([0, 1] : List ℚ)) [.fill (some 0) none, .addHist, .fill (some 0) (some (some 3))]
    (step (fun x => x) s (.averageW [1, 3])).1.hist = [[5/2]] ∧
    (step (fun x => x) s (.averageW [1, 3])).1.err = [[3/4]] ∧
    wmean [1, 3] (col s.hist 0) = 5/2 := by
  decide +kernel

end SparkxVerif.C10
