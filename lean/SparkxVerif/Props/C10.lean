/-
C10 — Histogram stays well-formed over any history; averaging and output are exact.

Property theorems only (helper lemmas: `Lemmas/HistShape.lean`, `Lemmas/HistAverage.lean`,
`Lemmas/HistWrite.lean`).  Same executable model as C09 (`Core/Histogram.lean`, run at `Float` against
the real class by the driver); every per-histogram numpy array is a list of rows next to the separately
stored `number_of_bins_` / `number_of_histograms_`, so "keeps the shape" is a statement that needs proof.
The column tables of `write_to_file` are generated from the source (`Gen/HistWrite.lean`).

How the English is rendered:
* "any sequence of histogram operations": `List (Op K)` over all 14 calls of the class, with arbitrary
  arguments — calls that raise are part of the history (the state they leave behind is the model's).
* "every per-histogram array keeps the shape (number of histograms, number of bins)": `Shape`
  (Lemmas/Histogram.lean): all five arrays are `nHist × nBins`, `nHist ≥ 1`, `nBins + 1` edges.
* "so every later operation succeeds": `later_operations_succeed` — a call whose arguments pass the
  method's own validation (`Admissible`) never raises in a reachable state; `write_total` for the writer.
* averaging: `average_weighted_spec`, `average_spec` with `wmean`, `wstd` (Lemmas/HistAverage.lean) =
  `Σ w x / Σ w`, `sqrt (Σ w (x − mean)² / Σ w)`; exactly one histogram is left.
* output: `write_spec` gives the whole file content (per histogram the header and per bin the row) for
  every list of requested columns (any subset, order, repetition) and one label dictionary or one per
  histogram; `valueOf` is the by-name meaning of a column.
* "the values that belong to them" on a long-lived object: a *session* (`Core/HistSession.lean`) interleaves
  the 14 mutating calls with any number of `write_to_file` calls and accessor calls (`bin_centers`, `bin_width`,
  `bin_bounds_left/right`, `bin_boundaries`, `histogram`, `histogram_raw_counts`, `standard_error`,
  `number_of_histograms`).  `outputs_depend_on_operations_only`: every observation of a session is the call
  made in the state reached by the mutating calls before it — nothing handed out earlier matters;
  `write_after_history`: the file written at any point holds the by-name values of the state *at that point*
  (centre / lower / upper edge of the CURRENT edges, also after `remove_bin`/`add_bin` pairs that restore the
  bin count); `geometry_after_history` the same for the accessors; `rebin_same_count` says what such a pair
  does to the edges.  The real object is tied to this by the correspondence run, which drives it through the
  same sessions and touches it with nothing but the calls of the session.
-/
import SparkxVerif.Lemmas.HistShape
import SparkxVerif.Lemmas.HistAverage
import SparkxVerif.Lemmas.HistWrite
import SparkxVerif.Lemmas.HistSession
import Mathlib.Algebra.Order.Field.Rat

set_option linter.unusedSectionVars false

namespace SparkxVerif.C10
open SparkxVerif.Hist SparkxVerif.Gen.HistWrite

section field
variable {K : Type} [Field K] [LinearOrder K] [IsStrictOrderedRing K]

/-- one call — succeeding or raising — keeps every array at shape (nHist, nBins) -/
theorem shape_step (sqrt : K → K) (s : State K) (hs : Shape s) (op : Op K) : Shape (step sqrt s op).1 :=
  step_shape sqrt hs op

/-- **C10, well-formedness.** After any finite sequence of operations on a new histogram every
per-histogram array has the shape (number of histograms, number of bins), and the edges are still
strictly increasing. -/
theorem shape_reachable (sqrt : K → K) (edges : List K) (hne : edges ≠ []) (hsort : edges.Pairwise (· < ·))
    (ops : List (Op K)) :
    Shape (run sqrt (init edges) ops) ∧ (run sqrt (init edges) ops).edges.Pairwise (· < ·) :=
  ⟨run_shape sqrt ops (init_shape edges hne), run_sorted sqrt ops (s := init edges) hsort⟩

/-- the same from any well-shaped state -/
theorem shape_run (sqrt : K → K) (s : State K) (hs : Shape s) (ops : List (Op K)) : Shape (run sqrt s ops) :=
  run_shape sqrt ops hs

/-- **C10, "every later operation succeeds".** In every state reachable by any history, a call whose
arguments pass the method's own validation does not raise. -/
theorem later_operations_succeed (sqrt : K → K) (edges : List K) (hne : edges ≠ [])
    (ops : List (Op K)) (op : Op K) (ha : Admissible (run sqrt (init edges) ops) op) :
    (step sqrt (run sqrt (init edges) ops) op).2 = none :=
  step_ok sqrt (run_shape sqrt ops (init_shape edges hne)) op ha

/-- `write_to_file` succeeds in every reachable state, for every list of known column names and one label
dictionary or one per histogram -/
theorem write_total (sqrt : K → K) (edges : List K) (hne : edges ≠ []) (ops : List (Op K))
    (cols : List String) (hcols : ∀ c ∈ cols, c ∈ allColumns) (labels : Labels)
    (hl : LabelsOK (run sqrt (init edges) ops) cols labels) :
    ∃ out, write (run sqrt (init edges) ops) (some cols) labels = .ok out :=
  ⟨_, write_some_ok (run_shape sqrt ops (init_shape edges hne)) cols hcols labels hl⟩

/-- **C10, output.** For every well-shaped state, every list of requested columns and admissible label
list, the file consists of one block per histogram `h`: the header `labels(h)[c]` for the requested `c`
in the requested order, then one row per bin `i` holding `valueOf s h i c` — the value that belongs to
column `c` by name. -/
theorem write_spec (s : State K) (hs : Shape s) (cols : List String) (hcols : ∀ c ∈ cols, c ∈ allColumns)
    (labels : Labels) (hl : LabelsOK s cols labels) :
    write s (some cols) labels = .ok ((List.range s.nHist).map (fun h =>
      (cols.map (labelOf labels h), (List.range s.nBins).map (fun i => cols.map (valueOf s h i))))) :=
  write_some_ok hs cols hcols labels hl

/-- `columns=None` writes the eight default columns -/
theorem write_default_spec (s : State K) (hs : Shape s) (labels : Labels)
    (hl : LabelsOK s defaultColumns labels) :
    write s none labels = .ok ((List.range s.nHist).map (fun h =>
      (defaultColumns.map (labelOf labels h),
        (List.range s.nBins).map (fun i => defaultColumns.map (valueOf s h i))))) := by
  rw [write_none_eq hs labels hl]
  exact write_some_ok hs defaultColumns (by intro c hc; exact hc) labels hl

/-- what the columns mean -/
theorem value_of_columns (s : State K) (h i : Nat) :
    valueOf s h i "bin_center" = (s.edges.getD i 0 + s.edges.getD (i + 1) 0) / 2 ∧
    valueOf s h i "bin_low" = s.edges.getD i 0 ∧ valueOf s h i "bin_high" = s.edges.getD (i + 1) 0 ∧
    valueOf s h i "distribution" = (s.hist.getD h []).getD i 0 ∧
    valueOf s h i "stat_err+" = (s.err.getD h []).getD i 0 ∧
    valueOf s h i "stat_err-" = (s.err.getD h []).getD i 0 ∧
    valueOf s h i "sys_err+" = (s.sys.getD h []).getD i 0 ∧
    valueOf s h i "sys_err-" = (s.sys.getD h []).getD i 0 :=
  ⟨valueOf_center s h i, valueOf_low s h i, valueOf_high s h i, valueOf_dist s h i, valueOf_statp s h i,
    valueOf_statm s h i, valueOf_sysp s h i, valueOf_sysm s h i⟩

/-- **C10, averaging.** `average_weighted(ws)` with one weight per histogram and `Σ ws ≠ 0` succeeds and
leaves exactly one histogram (all five arrays `1 × nBins`): bin `j` holds the weighted arithmetic mean of
bin `j` over the histograms, its error the weighted population standard deviation; the systematic errors
are combined in quadrature with the same weights, raw counts are summed, `scaling_` keeps its first row. -/
theorem average_weighted_spec (sqrt : K → K) (s : State K) (hs : Shape s) (ws : List K)
    (hl : ws.length = s.nHist) (hsum : ws.sum ≠ 0) :
    let r := step sqrt s (.averageW ws)
    r.2 = none ∧ Shape r.1 ∧ r.1.nHist = 1 ∧ r.1.nBins = s.nBins ∧ r.1.edges = s.edges ∧
    r.1.hist = [(List.range s.nBins).map (fun j => wmean ws (col s.hist j))] ∧
    r.1.err = [(List.range s.nBins).map (fun j => wstd sqrt ws (col s.hist j))] ∧
    r.1.sys = [(List.range s.nBins).map (fun j => sqrt (wmean ws ((col s.sys j).map (fun x => x ^ 2))))] ∧
    r.1.raw = [(List.range s.nBins).map (fun j => (col s.raw j).sum)] ∧
    r.1.scal = [s.scal.headD []] := by
  obtain ⟨h1, h2, h3, h4, h5, h6, h7, h8, h9⟩ := averageW_eq sqrt hs ws hl hsum
  exact ⟨h1, averageW_shape sqrt hs ws, h2, h3, h4, h5, h6, h7, h8, h9⟩

/-- `average()`: the arithmetic mean `Σ_h x_h / H` and the population standard deviation
`sqrt (Σ_h (x_h − mean)² / H)` over the `H` histograms, one histogram left -/
theorem average_spec (sqrt : K → K) (s : State K) (hs : Shape s) :
    let r := step sqrt s .average
    r.2 = none ∧ Shape r.1 ∧ r.1.nHist = 1 ∧ r.1.nBins = s.nBins ∧
    r.1.hist = [(List.range s.nBins).map (fun j => (col s.hist j).sum / s.nHist)] ∧
    r.1.err = [(List.range s.nBins).map (fun j =>
      sqrt (((col s.hist j).map (fun x => (x - (col s.hist j).sum / s.nHist) ^ 2)).sum / s.nHist))] := by
  have hlen : (List.replicate s.nHist (1 : K)).length = s.nHist := by simp
  have hsum : (List.replicate s.nHist (1 : K)).sum ≠ 0 := by
    have := hs.nh
    have e : (List.replicate s.nHist (1 : K)).sum = (s.nHist : K) := by simp
    rw [e]
    exact_mod_cast (by omega : s.nHist ≠ 0)
  have hcol : ∀ j, (col s.hist j).length = s.nHist := by intro j; simp [col, hs.hist.1]
  obtain ⟨h1, h2, h3, _, h5, h6, _⟩ := averageW_eq sqrt hs (List.replicate s.nHist 1) hlen hsum
  have e : step sqrt s .average = averageW sqrt s (List.replicate s.nHist 1) := by
    simp only [step, one_eq]
  simp only [e]
  refine ⟨h1, averageW_shape sqrt hs _, h2, h3, ?_, ?_⟩
  · rw [h5]
    congr 1
    apply List.map_congr_left
    intro j _
    exact wmean_ones _ _ (hcol j)
  · rw [h6]
    congr 1
    apply List.map_congr_left
    intro j _
    simp only [wstd]
    rw [wmean_ones _ _ (hcol j), wmean_ones _ _ (by simp [hcol j])]


/-! ### outputs on one long-lived object: sessions -/

/-- **C10, outputs never depend on earlier outputs.** In any session on a new histogram — mutating calls
interleaved with any number of `write_to_file` / accessor calls — the state a call leaves and what it hands
back (file content, accessor value, raised or not) are those of the same call made right after the mutating
calls that precede it, with every earlier output left out. -/
theorem outputs_depend_on_operations_only (sqrt : K → K) (edges : List K) (pre : List (Call K)) (c : Call K)
    (post : List (Call K)) :
    (trace sqrt (init edges) (pre ++ c :: post))[pre.length]? =
      some (call sqrt (run sqrt (init edges) (opsOf pre)) c) :=
  trace_getElem? sqrt (init edges) pre c post

/-- a session ends in the state its mutating calls alone lead to -/
theorem session_final_state (sqrt : K → K) (edges : List K) (pre : List (Call K)) (c : Call K) :
    (trace sqrt (init edges) (pre ++ [c])).getLast?.map (·.1) =
      some (run sqrt (init edges) (opsOf (pre ++ [c]))) :=
  trace_last_state sqrt (init edges) pre c

/-- **C10, output after any history.** Whatever was called before on the object (operations, earlier writes,
accessor calls — `pre`), a `write_to_file` with known column names and admissible labels leaves the state
alone and writes, per histogram `h` and bin `i` of the state `s` reached by the operations of `pre`, the
values `valueOf s h i c`: by `value_of_columns` the centre `(eᵢ + eᵢ₊₁)/2`, lower edge `eᵢ` and upper edge
`eᵢ₊₁` of the CURRENT edges `s.edges`, and the current content / errors. -/
theorem write_after_history (sqrt : K → K) (edges : List K) (hne : edges ≠ []) (pre post : List (Call K))
    (cols : List String) (hcols : ∀ c ∈ cols, c ∈ allColumns) (labels : Labels)
    (hl : LabelsOK (run sqrt (init edges) (opsOf pre)) cols labels) :
    let s := run sqrt (init edges) (opsOf pre)
    (trace sqrt (init edges) (pre ++ .write (some cols) labels :: post))[pre.length]? =
      some (s, .file (.ok ((List.range s.nHist).map (fun h =>
        (cols.map (labelOf labels h), (List.range s.nBins).map (fun i => cols.map (valueOf s h i))))))) := by
  intro s
  rw [outputs_depend_on_operations_only]
  show some (s, Out.file (write s (some cols) labels)) = _
  rw [write_some_ok (run_shape sqrt (opsOf pre) (init_shape edges hne)) cols hcols labels hl]

/-- **C10, accessors after any history.** At any point of any session the accessors return the arrays of
the state reached by the operations so far; `bin_centers`, `bin_width`, `bin_bounds_left`, `bin_bounds_right`
have one entry per CURRENT bin, computed from the CURRENT edges. -/
theorem geometry_after_history (sqrt : K → K) (edges : List K) (hne : edges ≠ []) (pre post : List (Call K)) :
    let s := run sqrt (init edges) (opsOf pre)
    (∀ g, (trace sqrt (init edges) (pre ++ .get g :: post))[pre.length]? = some (s, getter s g)) ∧
    getter s .centers = .vec (centers s.edges) ∧ getter s .widths = .vec (widths s.edges) ∧
    getter s .left = .vec (boundsLeft s.edges) ∧ getter s .right = .vec (boundsRight s.edges) ∧
    getter s .boundaries = .vec s.edges ∧ getter s .histogram = .mat s.hist ∧
    getter s .stdError = .mat s.err ∧ getter s .rawCounts = .mat s.raw ∧ getter s .nHist = .num s.nHist ∧
    (centers s.edges).length = s.nBins ∧ (widths s.edges).length = s.nBins ∧
    (boundsLeft s.edges).length = s.nBins ∧ (boundsRight s.edges).length = s.nBins ∧
    ∀ i, i < s.nBins →
      (centers s.edges)[i]? = some ((s.edges.getD i 0 + s.edges.getD (i + 1) 0) / 2) ∧
      (widths s.edges)[i]? = some (s.edges.getD (i + 1) 0 - s.edges.getD i 0) ∧
      (boundsLeft s.edges)[i]? = some (s.edges.getD i 0) ∧
      (boundsRight s.edges)[i]? = some (s.edges.getD (i + 1) 0) := by
  intro s
  refine ⟨fun g => ?_, rfl, rfl, rfl, rfl, rfl, rfl, rfl, rfl, rfl,
    geometry_of_shape (run_shape sqrt (opsOf pre) (init_shape edges hne))⟩
  rw [outputs_depend_on_operations_only]
  rfl

/-- **C10, re-binning that restores the bin count.** `remove_bin(i)` followed by `add_bin(j, e)` (both with
arguments passing the methods' validation) leaves the number of bins and of histograms as they were, keeps
the shape invariant, and the edges are the old ones with entry `i` erased and `e` inserted at `j` — so by
`write_after_history` / `geometry_after_history` every later output shows the centres, widths and bounds
of these new edges. -/
theorem rebin_same_count (sqrt : K → K) (s : State K) (hs : Shape s) (i j : Int) (e : K)
    (h1 : Admissible s (.removeBin i)) (h2 : Admissible (step sqrt s (.removeBin i)).1 (.addBin j e)) :
    let s' := run sqrt s [.removeBin i, .addBin j e]
    Shape s' ∧ s'.nBins = s.nBins ∧ s'.nHist = s.nHist ∧
    s'.edges = (s.edges.eraseIdx i.toNat).insertIdx j.toNat e := by
  intro s'
  have o1 : (removeBin s i).2 = none := step_ok sqrt hs (.removeBin i) h1
  have hs1 : Shape (removeBin s i).1 := removeBin_shape hs i
  have o2 : (addBin (removeBin s i).1 j e).2 = none := step_ok sqrt hs1 (.addBin j e) h2
  obtain ⟨e1, n1, k1⟩ := removeBin_of_ok s i o1
  obtain ⟨e2, n2, k2⟩ := addBin_of_ok (removeBin s i).1 j e o2
  have hi : i < (s.nBins : Int) := h1.2
  have hi0 : 0 ≤ i := h1.1
  refine ⟨run_shape sqrt _ hs, ?_, ?_, ?_⟩
  · show (addBin (removeBin s i).1 j e).1.nBins = s.nBins
    rw [n2, n1]; omega
  · show (addBin (removeBin s i).1 j e).1.nHist = s.nHist
    rw [k2, k1]
  · show (addBin (removeBin s i).1 j e).1.edges = _
    rw [e2, e1]

end field

/-! ### Non-vacuity: concrete histories over ℚ (kernel evaluation of the executable model) -/

/-- scale after inserting a bin, write a non-prefix column subset after averaging two histograms, with a
single label dictionary: the state is well-shaped and the file holds lower edge and content by name. -/
example :
    let ops : List (Op ℚ) := [.fill (some (1/2)) none, .addBin 1 (1/2), .scaleList [2, 3, 1], .addHist,
      .fill (some 2) (some (some 4)), .removeBin 0, .average]
    let s := run (fun x => x) (init [0, 1, 3]) ops
    (s.nHist, s.nBins, s.edges, s.hist, s.scal) = (1, 2, [1/2, 1, 3], [[0, 2]], [[3, 1]]) ∧
    write s (some ["bin_low", "distribution"]) [[("bin_low", "lo"), ("distribution", "y")]]
      = .ok [(["lo", "y"], [[1/2, 0], [1, 2]])] := by
  decide +kernel

example : LabelsOK (init ([0, 1, 3] : List ℚ)) ["distribution", "bin_low"]
    [[("bin_low", "lo"), ("distribution", "y")]] := by
  refine ⟨Or.inl rfl, ?_⟩
  intro h hh c hc
  simp only [List.mem_cons, List.not_mem_nil, or_false] at hc
  rcases hc with rfl | rfl <;>
    (show (lookup _ [("bin_low", "lo"), ("distribution", "y")]).isSome = true; decide)

/-- weighted average of contents 1 and 3 with weights 1 and 3: mean 5/2, variance 3/4 -/
example :
    let s := run (fun x => x) (init ([0, 1] : List ℚ)) [.fill (some 0) none, .addHist, .fill (some 0) (some (some 3))]
    (step (fun x => x) s (.averageW [1, 3])).1.hist = [[5/2]] ∧
    (step (fun x => x) s (.averageW [1, 3])).1.err = [[3/4]] ∧
    wmean [1, 3] (col s.hist 0) = 5/2 := by
  decide +kernel

/-- write, re-bin with the bin count unchanged (drop the edge at 1, split the first bin at 1/2), look at the
centres, write again: the second file and the accessor show the centres 1/4, 5/4, … of the NEW edges, the
first file the old ones; the session's final state is the one of the three operations alone. -/
example :
    let lab : Labels := [[("bin_low", "lo"), ("bin_high", "hi"), ("bin_center", "c"), ("distribution", "d")]]
    let cols := ["bin_low", "bin_high", "bin_center", "distribution"]
    let calls : List (Call ℚ) := [.op (.fillList [some (1/2), some (3/2), some (3/2), some (5/2), some (7/2)] .none),
      .write (some cols) lab, .get .centers, .op (.removeBin 1), .op (.addBin 1 (1/2)), .get .centers,
      .write (some cols) lab]
    let t := trace (fun x => x) (init [0, 1, 2, 3, 4]) calls
    t.map (fun p => p.1.edges) = [[0, 1, 2, 3, 4], [0, 1, 2, 3, 4], [0, 1, 2, 3, 4], [0, 2, 3, 4],
      [0, 1/2, 2, 3, 4], [0, 1/2, 2, 3, 4], [0, 1/2, 2, 3, 4]] ∧
    t[1]?.bind (·.2.fileOk?) =
      some [(["lo", "hi", "c", "d"], [[0, 1, 1/2, 1], [1, 2, 3/2, 2], [2, 3, 5/2, 1], [3, 4, 7/2, 1]])] ∧
    t[5]?.bind (·.2.vec?) = some [1/4, 5/4, 5/2, 7/2] ∧
    t[6]?.bind (·.2.fileOk?) =
      some [(["lo", "hi", "c", "d"], [[0, 1/2, 1/4, 1], [1/2, 2, 5/4, 0], [2, 3, 5/2, 1], [3, 4, 7/2, 1]])] := by
  decide +kernel

/-- the hypotheses of `rebin_same_count` are satisfiable -/
example : Admissible (init ([0, 1, 2, 3, 4] : List ℚ)) (.removeBin 1) ∧
    Admissible (step (fun x => x) (init ([0, 1, 2, 3, 4] : List ℚ)) (.removeBin 1)).1 (.addBin 1 (1/2)) := by
  refine ⟨⟨by decide, by decide⟩, by decide, by decide, ?_, ?_⟩
  · intro _ x hx
    have : x = 0 := by
      have h : (step (fun x => x) (init ([0, 1, 2, 3, 4] : List ℚ)) (.removeBin 1)).1.edges = [0, 2, 3, 4] := by
        decide +kernel
      rw [h] at hx; simpa using hx.symm
    rw [this]; norm_num
  · intro x hx
    have : x = 2 := by
      have h : (step (fun x => x) (init ([0, 1, 2, 3, 4] : List ℚ)) (.removeBin 1)).1.edges = [0, 2, 3, 4] := by
        decide +kernel
      rw [h] at hx; simpa using hx.symm
    rw [this]; norm_num

end SparkxVerif.C10
