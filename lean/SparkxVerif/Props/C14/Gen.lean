/-
C14 — the property theorems of `Props/C14.lean`, restated about the functions GENERATED from the current
`src/sparkx/BulkObservables.py` (`Gen/Bulk.lean`, rewritten by `harness/translate/bulk.py` on every run).

Each statement is the corresponding theorem of `Props/C14.lean` with the hand-written model function replaced by
the generated one; the proofs are the equivalences of `Lemmas/BulkGen.lean` (generated = model, all inputs, no
hypotheses) followed by the model theorem.  So when the source changes, these obligations are re-checked against
what the code says now.

The generated `differentialYield` returns `histograms_` of the Histogram object (a list of rows) where the model
returns the row: the statements say that there is exactly ONE row, and what it holds.
-/
import SparkxVerif.Props.C14
import SparkxVerif.Lemmas.BulkGen

namespace SparkxVerif.C14
open SparkxVerif.Bulk

section
variable {K : Type} [Field K] [LinearOrder K]

/-- **C14 (generated code), differential yields**: for every strictly increasing binning and every list of events
(any number, empty ones included), the histogram built by the current `_differential_yield` has one row, holding
per bin (number of particles over all events with `edge_i ≤ q < edge_{i+1}`) / N_events / width_i -/
theorem gen_dNdx_bin (edges : List K) (hs : edges.Pairwise (· < ·)) (evs : List (List K)) :
    Gen.Bulk.differentialYield edges (evs.map (List.map some)) = .ok [dNdxSpec edges evs] := by
  rw [gen_differentialYield_eq, dNdx_bin edges hs evs]
  rfl

/-- the same, bin by bin -/
theorem gen_dNdx_bin_index (edges : List K) (hs : edges.Pairwise (· < ·)) (evs : List (List K))
    (i : ℕ) (hi : i + 1 < edges.length) :
    ∃ bins, Gen.Bulk.differentialYield edges (evs.map (List.map some)) = .ok [bins] ∧
      bins[i]? = some ((((evs.map (countIn edges[i] edges[i + 1])).sum : ℕ) : K)
        / (evs.length : K) / (edges[i + 1] - edges[i])) := by
  obtain ⟨bins, h1, h2⟩ := dNdx_bin_index edges hs evs i hi
  exact ⟨bins, by rw [gen_differentialYield_eq, h1]; rfl, h2⟩

/-- no event at all: one all-zero row -/
theorem gen_dNdx_no_events (edges : List K) :
    Gen.Bulk.differentialYield edges [] = .ok [(edges.zip edges.tail).map (fun _ => (0 : K))] := by
  rw [gen_differentialYield_eq, dNdx_no_events]
  rfl

/-- a NaN quantity anywhere makes the call raise `ValueError` -/
theorem gen_dNdx_nan (edges : List K) (evs : List (List (Option K))) (h : ∃ ev ∈ evs, none ∈ ev) :
    Gen.Bulk.differentialYield edges evs = .error .value := by
  rw [gen_differentialYield_eq, dNdx_nan edges evs h]
  rfl

/-- **C14 (generated code), normalisation**: Σ_i bin_i · width_i · N_events = number of particles with
first edge ≤ q < last edge -/
theorem gen_dNdx_normalisation [CharZero K] (a : K) (l : List K) (hs : (a :: l).Pairwise (· < ·))
    (evs : List (List K)) :
    ∃ bins, Gen.Bulk.differentialYield (a :: l) (evs.map (List.map some)) = .ok [bins] ∧
      (List.zipWith (fun x wd => x * wd) bins (widths (a :: l))).sum * (evs.length : K)
        = (((evs.map (countIn a ((a :: l).getLast (by simp)))).sum : ℕ) : K) := by
  obtain ⟨bins, h1, h2⟩ := dNdx_normalisation a l hs evs
  exact ⟨bins, by rw [gen_differentialYield_eq, h1]; rfl, h2⟩

/-- **C14 (generated code), mid-rapidity yield** -/
theorem gen_mid_rapidity_yield_eq (w : K) (hw : 0 < w) (evs : List (List (Option K × K))) :
    Gen.Bulk.midYield w evs
      = .ok ((((evs.map (fun ev => (insideVals w ev).length)).sum : ℕ) : K) / (evs.length : K)) := by
  rw [gen_midYield_eq, mid_rapidity_yield_eq w hw]

/-- **C14 (generated code), mid-rapidity mean pT**: mean over the events with a particle inside the window of
(sum inside / number inside) -/
theorem gen_mid_rapidity_mean_pT_eq (w : K) (hw : 0 < w) (evs : List (List (Option K × K))) :
    Gen.Bulk.midMeanPT w evs = .ok
      (((contributing w evs).map (fun vs => vs.sum / (vs.length : K))).sum / ((contributing w evs).length : K)) := by
  rw [gen_midMeanPT_eq, mid_rapidity_mean_eq w hw]

/-- **C14 (generated code), mid-rapidity mean mT** -/
theorem gen_mid_rapidity_mean_mT_eq (w : K) (hw : 0 < w) (evs : List (List (Option K × K))) :
    Gen.Bulk.midMeanMT w evs = .ok
      (((contributing w evs).map (fun vs => vs.sum / (vs.length : K))).sum / ((contributing w evs).length : K)) := by
  rw [gen_midMeanMT_eq, mid_rapidity_mean_eq w hw]

/-- nothing inside the window in any event (in particular: no events): both means are 0 -/
theorem gen_mid_rapidity_mean_nothing_inside (w : K) (hw : 0 < w) (evs : List (List (Option K × K)))
    (h : ∀ ev ∈ evs, insideVals w ev = []) :
    Gen.Bulk.midMeanPT w evs = .ok 0 ∧ Gen.Bulk.midMeanMT w evs = .ok 0 := by
  rw [gen_midMeanPT_eq, gen_midMeanMT_eq]
  exact ⟨mid_rapidity_mean_nothing_inside w hw evs h, mid_rapidity_mean_nothing_inside w hw evs h⟩

/-- a non-positive width is rejected (`ValueError`) by all three generated functions -/
theorem gen_mid_invalid_width (w : K) (hw : w ≤ 0) (evs : List (List (Option K × K))) :
    Gen.Bulk.midYield w evs = .error .value ∧ Gen.Bulk.midMeanPT w evs = .error .value
      ∧ Gen.Bulk.midMeanMT w evs = .error .value := by
  rw [gen_midYield_eq, gen_midMeanPT_eq, gen_midMeanMT_eq]
  exact ⟨(mid_invalid_width w hw evs).1, (mid_invalid_width w hw evs).2, (mid_invalid_width w hw evs).2⟩

end

/-- **C14 (generated code), which quantity**: `dNdy`, `dNdpT`, `dNdEta`, `dNdmT` histogram `rapidity()`, `pT_abs()`,
`pseudorapidity()`, `mT()`; `mid_rapidity_mean_pT/mT` average `pT_abs()` / `mT()` -/
theorem gen_quantities :
    Gen.Bulk.quantityOf = [("dNdy", "rapidity"), ("dNdpT", "pT_abs"), ("dNdEta", "pseudorapidity"), ("dNdmT", "mT")] ∧
    Gen.Bulk.meanValueOf = [("mid_rapidity_mean_pT", "pT_abs"), ("mid_rapidity_mean_mT", "mT")] :=
  ⟨gen_tables.1, gen_tables.2.2.1⟩

/-! ### Non-vacuity: the generated functions on concrete non-trivial inputs -/

example : Gen.Bulk.differentialYield ([0, 1, 5 / 2, 8] : List ℚ) [[some 1, some 2, some 6], [], [some 3, some 5]]
    = .ok [[0, 4 / 9, 2 / 11]] := by
  have := gen_dNdx_bin ([0, 1, 5 / 2, 8] : List ℚ) (by norm_num) [[1, 2, 6], [], [3, 5]]
  simp only [List.map_cons, List.map_nil] at this
  rw [this]
  norm_num [dNdxSpec, binsOf, countIn, List.countP_cons]

example : Gen.Bulk.midMeanPT (1 : ℚ) [[(some 0, 1), (some (1 / 2), 2), (some 2, 6)], [], [(none, 3), (some (-1 / 2), 5)]]
    = .ok (13 / 4) := by
  rw [gen_mid_rapidity_mean_pT_eq 1 (by norm_num)]
  norm_num [contributing, insideVals, inWindow, List.filter_cons]

end SparkxVerif.C14
