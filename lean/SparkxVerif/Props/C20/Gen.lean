/-
C20, tie T — the property theorems of `Props/C20.lean` restated about the functions REGENERATED from the current
source of `src/sparkx/JetAnalysis.py` (`Gen/Jets.lean`, written by `harness/translate/jets.py` on every run).

Each statement is the one of `Props/C20.lean` with the hand-written model function replaced by the generated one;
the bridge is `Lemmas/JetsGen.lean` (generated = model, all inputs).  `hadd` is commutativity of the carrier's `+`
(the only algebraic law the bridge uses, for the hole sums; it holds in ℝ, ℤ and for IEEE doubles).  fastjet stays
the parameter it is in `Core/Jets.lean`: `Event.jets`, `Jet.dr`, and the contracts `fjJets` / `fjSelectEta`.
-/
import SparkxVerif.Props.C20
import SparkxVerif.Lemmas.JetsGen
import Mathlib.Tactic.Tauto

set_option linter.unusedSectionVars false
set_option linter.unusedVariables false

namespace SparkxVerif.C20
open SparkxVerif SparkxVerif.Jets SparkxVerif.Gen.Jets SparkxVerif.JetsGen

section any_carrier
variable {α : Type} [LT α] [LE α] [DecidableLT α] [DecidableLE α]
  [Add α] [Sub α] [Mul α] [NatCast α]

/-- **Tie T.** `perform_jet_finding` as regenerated from the source is the repaired model, on every input. -/
theorem gen_perform_eq (hadd : ∀ a b : α, a + b = b + a) (sqrt : α → α) (raw : Raw α) (prior : FS α)
    (evs : List (Event α)) :
    genPerform sqrt raw prior evs = perform repaired sqrt raw prior evs :=
  genPerform_eq hadd sqrt raw prior evs

/-- **The output file holds only the jets of the current call** — about the regenerated `perform_jet_finding`
(with the regenerated validation `genNormalise` as hypothesis): for ANY prior state of the file, any sample and
any validated parameters the call ends normally and the file is exactly the specified rows. -/
theorem gen_file_is_this_call (hadd : ∀ a b : α, a + b = b + a) (sqrt : α → α) (raw : Raw α) (P : Params α)
    (hP : genNormalise raw = .ok P) (prior : FS α) (evs : List (Event α)) (hs : StatusSet evs) :
    genPerform sqrt raw prior evs = .ok (some (specFile sqrt P evs)) := by
  rw [genPerform_eq hadd]
  exact file_is_this_call sqrt raw P (by rw [← genNormalise_eq]; exact hP) prior evs hs

/-- the regenerated call does not depend on what the file held before -/
theorem gen_prior_content_irrelevant (hadd : ∀ a b : α, a + b = b + a) (sqrt : α → α) (raw : Raw α) (P : Params α)
    (hP : genNormalise raw = .ok P) (prior prior' : FS α) (evs : List (Event α)) (hs : StatusSet evs) :
    genPerform sqrt raw prior evs = genPerform sqrt raw prior' evs := by
  rw [gen_file_is_this_call hadd sqrt raw P hP prior evs hs, gen_file_is_this_call hadd sqrt raw P hP prior' evs hs]

/-- invalid parameters: the regenerated call raises `ValueError` exactly when the regenerated validation does -/
theorem gen_invalid_raises (sqrt : α → α) (raw : Raw α) (prior : FS α) (evs : List (Event α))
    (h : genNormalise raw = .error .value) : genPerform sqrt raw prior evs = .error .value := by
  unfold genPerform
  rw [h]

omit [LE α] [DecidableLE α] [Add α] [Sub α] [Mul α] [NatCast α] in
/-- **Associated particles**, about the regenerated `fill_associated_particles(…, "positive", only_charged)` -/
theorem gen_assoc_exact (R : α) (only : Bool) (ps : List (Part α)) (ds : List α)
    (hs : ∀ p ∈ ps, p.status ≠ none) :
    genFill R .positive only (triples ps ds) = .ok ((triples ps ds).filter (fun t =>
      (match t.2.1.status with | some s => decide (0 ≤ s) | none => false)
        && (!only || t.2.1.charged) && decide (t.2.2 < R))) := by
  rw [genFill_eq]; exact assoc_exact R only ps ds hs

omit [LE α] [DecidableLE α] [Add α] [Sub α] [Mul α] [NatCast α] in
/-- **Holes**, about the regenerated `fill_associated_particles(…, "negative", False)` -/
theorem gen_holes_exact (R : α) (ps : List (Part α)) (ds : List α) (hs : ∀ p ∈ ps, p.status ≠ none) :
    genFill R .negative false (triples ps ds) = .ok ((triples ps ds).filter (fun t =>
      (match t.2.1.status with | some s => decide (s < 0) | none => false) && decide (t.2.2 < R))) := by
  rw [genFill_eq]; exact holes_exact R ps ds hs

omit [LE α] [DecidableLE α] [Add α] [Sub α] [Mul α] [NatCast α] in
/-- an unset status makes the regenerated lookup raise -/
theorem gen_unset_status_raises (R : α) (sel : Sel) (only : Bool) (ts : List (Triple α))
    (h : ∃ t ∈ ts, t.2.1.status = none) : genFill R sel only ts = .error .value := by
  rw [genFill_eq]; exact unset_status_raises R sel only ts h

/-- **What one `write_jet_output` call does**, regenerated: the jet line + numbered particle lines unless the pT of the
jet it is handed reaches the normalised upper bound; `"w"` iff `new_file`; the flag handed back is `False` -/
theorem gen_write_eq (sqrt : α → α) (P : Params α) (f : FS α) (m : Mom α) (assoc : List (Triple α)) (i : Nat)
    (nf : Bool) :
    genWriteJetOutput sqrt P f m assoc i nf =
      (some ((if nf then [] else f.getD []) ++
         (if (Ext.fin (perp sqrt m)).ltb P.ptHi then Row.jet i m :: partRows i 1 assoc else [])), false) := by
  rw [genWriteJetOutput_eq]
  cases nf <;> simp [writeOut, output]

/-- **Reader**, about the regenerated `read_jet_data`: reading the specified file back gives one group per jet -/
theorem gen_read_write (sqrt : α → α) (P : Params α) (evs : List (Event α)) :
    genRead Row.index (specFile sqrt P evs) = specGroups sqrt P evs := by
  rw [genRead_eq]; exact read_write sqrt P evs

/-- regenerated write, then regenerated read: exactly this call's groups, whatever the file held before -/
theorem gen_read_after_call (hadd : ∀ a b : α, a + b = b + a) (sqrt : α → α) (raw : Raw α) (P : Params α)
    (hP : genNormalise raw = .ok P) (prior : FS α) (evs : List (Event α)) (hs : StatusSet evs) :
    ∃ f, genPerform sqrt raw prior evs = .ok (some f) ∧ genRead Row.index f = specGroups sqrt P evs :=
  ⟨_, gen_file_is_this_call hadd sqrt raw P hP prior evs hs, gen_read_write sqrt P evs⟩

end any_carrier

/-! ### row layout and reader conversions -/

section layout
variable {α : Type}

/-- the regenerated jet line has the documented layout: index 0, pT, eta, phi, 10, 10, E, event index -/
theorem gen_jet_line_layout (ev : Nat) (m : Mom α) :
    genJetCells ev m = [.nat 0, .perp m, .eta m, .phi m, .nat 10, .nat 10, .val m.e, .nat ev] :=
  genJetCells_eq ev m

/-- the regenerated particle line: running index, pT/eta/phi of `PseudoJet(px,py,pz,E)` of the particle, its status,
its pdg, its energy, event index -/
theorem gen_part_line_layout (i ev : Nat) (t : Triple α) :
    genPartCells i ev t =
      [.nat i, .perp t.2.1.mom, .eta t.2.1.mom, .phi t.2.1.mom, .status t.2.1.status, .pdg t.1, .val t.2.1.mom.e,
       .nat ev] :=
  genPartCells_eq i ev t

/-- every column is read back from its own position with the conversion of the type it was written with -/
theorem gen_read_types (i ev : Nat) (m : Mom α) (t : Triple α) :
    genReadCols.map Prod.snd = List.range 8 ∧
    (genJetCells ev m).map Cell.colType = genReadCols.map Prod.fst ∧
    (genPartCells i ev t).map Cell.colType = genReadCols.map Prod.fst := by
  rw [genReadCols_eq, genJetCells_eq, genPartCells_eq]
  exact ⟨by decide, rfl, rfl⟩

/-- every particle of the event is handed to the clustering, in order, as `PseudoJet(px, py, pz, E)` -/
theorem gen_pseudojets_all (ps : List (Part α)) : genPseudoJets ps = ps.map Part.mom :=
  genPseudoJets_eq ps

end layout

/-! ### parameter normalisation and the upper cut, over any linear order -/

section ordered
variable {α : Type} [LinearOrder α] [NatCast α]

theorem gen_eta_window {raw : Raw α} {P : Params α} (h : genNormalise raw = .ok P) (x : α) :
    etaOk P x = true ↔
      match raw.etaA, raw.etaB with
      | some a, some b => min a b ≤ x ∧ x ≤ max a b
      | some a, none => a ≤ x
      | none, some b => x ≤ b
      | none, none => True :=
  eta_window (by rw [← genNormalise_eq]; exact h) x

theorem gen_pt_lower {raw : Raw α} {P : Params α} (h : genNormalise raw = .ok P) (x : α) :
    P.ptLo.leb (.fin x) = true ↔
      match raw.ptA, raw.ptB with
      | some a, some b => min a b ≤ x
      | some a, none => a ≤ x
      | none, some _ => ((0 : Nat) : α) ≤ x
      | none, none => ((0 : Nat) : α) ≤ x :=
  pt_lower (by rw [← genNormalise_eq]; exact h) x

theorem gen_pt_upper {raw : Raw α} {P : Params α} (h : genNormalise raw = .ok P) (x : α) :
    (Ext.fin x).ltb P.ptHi = true ↔
      match raw.ptA, raw.ptB with
      | some a, some b => x < max a b
      | some _, none => True
      | none, some b => x < b
      | none, none => True :=
  pt_upper (by rw [← genNormalise_eq]; exact h) x

/-- the regenerated validation rejects exactly a non-positive radius or a negative pT limit -/
theorem gen_validation {raw : Raw α} :
    genNormalise raw = .error .value ↔
      (raw.R ≤ ((0 : Nat) : α) ∨ (∃ a, raw.ptA = some a ∧ a < ((0 : Nat) : α)) ∨
        (∃ b, raw.ptB = some b ∧ b < ((0 : Nat) : α))) := by
  rw [genNormalise_eq]
  have hz : ((0 : Nat) : α) = zero := rfl
  simp only [hz]
  unfold normalise
  by_cases h1 : raw.R ≤ (zero : α)
  · simp [h1]
  · cases hA : raw.ptA <;> cases hB : raw.ptB <;> simp [h1, isNeg] <;> (try simp only [← not_lt]) <;> tauto

variable [Add α] [Sub α] [Mul α]

/-- **Upper cut**, about the regenerated `write_jet_output` with regenerated validation: the jet it is handed
contributes no rows iff its pT reaches the upper bound (`None` = unbounded, limits in either order) -/
theorem gen_upper_cut (sqrt : α → α) {raw : Raw α} {P : Params α} (h : genNormalise raw = .ok P)
    (f : FS α) (m : Mom α) (assoc : List (Triple α)) (i : Nat) (nf : Bool) :
    ((genWriteJetOutput sqrt P f m assoc i nf).1 = some (if nf then [] else f.getD []) ↔
      match raw.ptA, raw.ptB with
      | some a, some b => max a b ≤ perp sqrt m
      | some _, none => False
      | none, some b => b ≤ perp sqrt m
      | none, none => False) := by
  have hu := gen_pt_upper h (perp sqrt m)
  rw [gen_write_eq]
  by_cases hc : (Ext.fin (perp sqrt m)).ltb P.ptHi = true
  · have hlt := hu.1 hc
    simp only [hc, if_true]
    constructor
    · intro hh; simp at hh
    · intro hh
      cases hA : raw.ptA <;> cases hB : raw.ptB <;> simp only [hA, hB] at hlt hh
      · exact absurd hlt (not_lt.2 hh)
      · exact absurd hlt (not_lt.2 hh)
  · have hge : ¬ _ := fun hh => hc (hu.2 hh)
    simp only [hc, Bool.false_eq_true, if_false, List.append_nil, true_iff]
    cases hA : raw.ptA <;> cases hB : raw.ptB <;> simp only [hA, hB] at hge ⊢
    · exact hge trivial
    · exact not_lt.1 hge
    · exact hge trivial
    · exact not_lt.1 hge

end ordered

/-! ### hole subtraction and cone distance over a commutative ring -/

section ring
variable {K : Type} [CommRing K] [LT K] [DecidableLT K]

/-- **Hole subtraction**, about the regenerated `jet_hole_subtraction` -/
theorem gen_hole_subtraction (P : Params K) (ev : Event K) (j : Jet K) :
    genSubtract j.mom (specHoles P ev j) =
      ⟨j.mom.px - ((specHoles P ev j).map (fun t => t.2.1.mom.px)).sum,
       j.mom.py - ((specHoles P ev j).map (fun t => t.2.1.mom.py)).sum,
       j.mom.pz - ((specHoles P ev j).map (fun t => t.2.1.mom.pz)).sum,
       j.mom.e - ((specHoles P ev j).map (fun t => t.2.1.mom.e)).sum⟩ := by
  rw [genSubtract_eq (fun a b => add_comm a b)]
  exact hole_subtraction P ev j

omit [LT K] [DecidableLT K] in
/-- **Delta R**: the regenerated `delta_r` is `sqrt((eta_particle − eta_jet)² + delta_phi²)` for the particle's own
four-momentum -/
theorem gen_delta_r (sqrt : K → K) (fjEta fjDphi : Mom K → K) (jetEta : K) (t : Triple K) :
    genDeltaR sqrt fjEta fjDphi jetEta t =
      sqrt ((fjEta t.2.1.mom - jetEta) ^ 2 + (fjDphi t.2.1.mom) ^ 2) := by
  rw [genDeltaR_eq]
  simp [coneDist]

end ring

/-! ### non-vacuity: the generated functions on the concrete witnesses of `Props/C20.lean` -/

example : genNormalise wRaw = .ok wParams := by decide

example : genPerform id wRaw (some wOld) [⟨[], []⟩, wEvent] = .ok (some [.jet 1 ⟨5, 0, 0, 5⟩, .part 1 0 1]) := by decide

example : genRead Row.index ([.jet 0 ⟨5, 0, 0, 5⟩, .part 1 0 0, .jet 2 ⟨1, 0, 0, 1⟩] : List (Row Int))
    = [[.jet 0 ⟨5, 0, 0, 5⟩, .part 1 0 0], [.jet 2 ⟨1, 0, 0, 1⟩]] := by decide

end SparkxVerif.C20
