import SparkxVerif.Props.C13.Cum

open Finset BigOperators

namespace SparkxVerif.C13
section field
variable {K : Type} [Field K]
open SparkxVerif.PtCorr

/-- the distinct-tuple sum of a list does not depend on the order of its entries -/
theorem distinctSumL_perm (k : ℕ) (xs ys : List K) (h : xs.Perm ys) : distinctSumL k xs = distinctSumL k ys := by
  unfold distinctSumL
  rw [distinctSum_eq_Dexp, distinctSum_eq_Dexp]
  congr 1
  funext e
  have hs : ∀ l : List K, ∑ j : Fin l.length, l[j.1] ^ e = (l.map (fun x => x ^ e)).sum := fun l =>
    Fin.sum_univ_fun_getElem l (fun x => x ^ e)
  rw [hs, hs, (h.map _).sum_eq]

/-- **the order of the particles inside each event is irrelevant** (correlations and cumulants) -/
theorem corr_perm_particles (k : ℕ) (hk : 1 ≤ k ∧ k ≤ 8) (evs evs' : List (List (Part K)))
    (h : List.Forall₂ List.Perm evs evs') : corr k evs = corr k evs' := by
  rw [corr_eq k hk, corr_eq k hk]
  have : ∀ f : Part K → K, (evs.map (fun ev => distinctSumL k (ev.map f))) = evs'.map (fun ev => distinctSumL k (ev.map f)) := by
    intro f
    induction h with
    | nil => rfl
    | cons hp _ ih => simp [ih, distinctSumL_perm k _ _ (hp.map f)]
  rw [this, this]

theorem cumulant_perm_particles (k : ℕ) (hk : 1 ≤ k ∧ k ≤ 8) (evs evs' : List (List (Part K)))
    (h : List.Forall₂ List.Perm evs evs') : cumulant k evs = cumulant k evs' := by
  rw [cumulant_eq k hk, cumulant_eq k hk]
  have : ∀ i, corrSpec evs i = corrSpec evs' i := by
    intro i
    unfold corrSpec
    have : ∀ f : Part K → K, (evs.map (fun ev => distinctSumL (i + 1) (ev.map f))) = evs'.map (fun ev => distinctSumL (i + 1) (ev.map f)) := by
      intro f
      induction h with
      | nil => rfl
      | cons hp _ ih => simp [ih, distinctSumL_perm (i + 1) _ _ (hp.map f)]
    rw [this, this]
  simp only [this]

end field
end SparkxVerif.C13
