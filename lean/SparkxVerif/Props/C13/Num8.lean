/- C13 — order 8 numerator (own module: the `ring` normalisation is the expensive step) -/
import SparkxVerif.Props.C13.Base

open Finset BigOperators
open SparkxVerif.Gen.PtCorr

namespace SparkxVerif.C13
variable {R : Type} [CommRing R] {n : ℕ}

set_option maxHeartbeats 40000000 in
theorem num8_eq (x : Fin n → R) : num8 (powerSums x) = distinctSum 8 x := by
  rw [distinctSum_eq_Dexp]; simp [Dexp, List.range_succ, num8, powerSums]; ring1

end SparkxVerif.C13
