/- C13 — order 7 numerator (own module: the `ring` normalisation is the expensive step) -/
import SparkxVerif.Props.C13.Base

open Finset BigOperators
open SparkxVerif.Gen.PtCorr

namespace SparkxVerif.C13
variable {R : Type} [CommRing R] {n : ℕ}

set_option maxHeartbeats 4000000 in
theorem num7_eq (x : Fin n → R) : num7 (powerSums x) = distinctSum 7 x := by
  rw [distinctSum_eq_Dexp]; simp [Dexp, List.range_succ, num7, powerSums]; ring1

end SparkxVerif.C13
