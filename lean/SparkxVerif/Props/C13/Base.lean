/-
C13 (part) — definitions shared by the C13 property files.
-/
import SparkxVerif.Lemmas.TupleSum
import SparkxVerif.Lemmas.Num
import SparkxVerif.Core.PtCorr

open Finset BigOperators

namespace SparkxVerif.C13

variable {R : Type} [CommRing R] {n : ℕ}

/-- power sums exactly as `_P_W_k` accumulates them: `Pk[i] = Σ_j x_j^(i+1)` -/
def powerSums (x : Fin n → R) : ℕ → R := fun i => ∑ j, x j ^ (i + 1)

/-- sum over all `k`-tuples of distinct particles of the product of `x` -/
noncomputable def distinctSum (k : ℕ) (x : Fin n → R) : R := tupleSum k (fun _ => x)

theorem distinctSum_eq_Dexp (k : ℕ) (x : Fin n → R) :
    distinctSum k x = Dexp (fun e : ℕ => ∑ j, x j ^ e) (List.replicate k 1) := by
  have h := tupleSum_eq_Dexp (R := R) (fun (e : ℕ) j => x j ^ e) (fun a b j => pow_add _ _ _) k (fun _ => 1)
  simp only [pow_one] at h
  unfold distinctSum
  rw [h]
  congr 1
  exact List.ofFn_const k 1

end SparkxVerif.C13
