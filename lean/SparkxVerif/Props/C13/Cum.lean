import SparkxVerif.Props.C13.Sym

open Finset BigOperators

namespace SparkxVerif.C13
section field
variable {K : Type} [Field K]
open SparkxVerif.PtCorr

/-- the moment–cumulant recursion is homogeneous: if `C_k` scales like `c^k`, so does `κ_k` -/
theorem kappaSpec_homog (c : K) (C : ℕ → K) (m : ℕ) :
    kappaSpec (fun i => c ^ (i + 1) * C i) m = c ^ (m + 1) * kappaSpec C m := by
  induction m using Nat.strong_induction_on with
  | _ m ih =>
    conv_lhs => rw [kappaSpec]
    conv_rhs => rw [kappaSpec]
    rw [mul_sub, Finset.mul_sum]
    congr 1
    apply Finset.sum_congr rfl
    intro j _
    rw [ih j.1 j.2]
    have : c ^ (m + 1) = c ^ (j.1 + 1) * c ^ (m - 1 - j.1 + 1) := by
      rw [← pow_add]; congr 1; have := j.2; omega
    rw [this]; ring

theorem corrSpec_scale_pt (c : K) (evs : List (List (Part K))) (i : ℕ) :
    corrSpec (evs.map (fun ev => ev.map (scalePt c))) i = c ^ (i + 1) * corrSpec evs i := by
  unfold corrSpec
  simp only [List.map_map, Function.comp_def]
  have hn : ∀ ev : List (Part K), distinctSumL (i + 1) (ev.map (fun p => weight (scalePt c p) * (scalePt c p).2))
      = c ^ (i + 1) * distinctSumL (i + 1) (ev.map (fun p => weight p * p.2)) := by
    intro ev
    rw [← distinctSumL_smul]
    congr 2; funext p
    show weight p * (c * p.2) = c * (weight p * p.2)
    ring
  have hd : ∀ ev : List (Part K), distinctSumL (i + 1) (ev.map (fun p => weight (scalePt c p)))
      = distinctSumL (i + 1) (ev.map weight) := fun _ => rfl
  simp only [hn, hd, sum_map_mul_left, mul_div_assoc]

/-- **homogeneity of the cumulants**: multiplying every pT by `c` multiplies `κ_k` by `c^k` -/
theorem cumulant_scale_pt (k : ℕ) (hk : 1 ≤ k ∧ k ≤ 8) (c : K) (evs : List (List (Part K))) :
    cumulant k (evs.map (fun ev => ev.map (scalePt c))) = (cumulant k evs).map (fun v => c ^ k * v) := by
  rw [cumulant_eq k hk, cumulant_eq k hk, Option.map_some]
  congr 1
  have : (fun i => if i < k then corrSpec (evs.map (fun ev => ev.map (scalePt c))) i else 0)
      = (fun i => c ^ (i + 1) * (if i < k then corrSpec evs i else 0)) := by
    funext i; split <;> simp [corrSpec_scale_pt]
  rw [this, kappaSpec_homog]
  congr 2; omega

theorem corrSpec_scale_weight (c : K) (hc : c ≠ 0) (evs : List (List (Part K))) (i : ℕ) :
    corrSpec (evs.map (fun ev => ev.map (scaleW c))) i = corrSpec evs i := by
  unfold corrSpec
  simp only [List.map_map, Function.comp_def]
  have hn : ∀ ev : List (Part K), distinctSumL (i + 1) (ev.map (fun p => weight (scaleW c p) * (scaleW c p).2))
      = c ^ (i + 1) * distinctSumL (i + 1) (ev.map (fun p => weight p * p.2)) := by
    intro ev
    rw [← distinctSumL_smul]
    congr 2; funext p
    show c * weight p * p.2 = c * (weight p * p.2)
    ring
  have hd : ∀ ev : List (Part K), distinctSumL (i + 1) (ev.map (fun p => weight (scaleW c p)))
      = c ^ (i + 1) * distinctSumL (i + 1) (ev.map weight) := fun ev => distinctSumL_smul (i + 1) c weight ev
  simp only [hn, hd, sum_map_mul_left]
  exact mul_div_mul_left _ _ (pow_ne_zero _ hc)

/-- **weights are relative, cumulants**: multiplying every weight by `c ≠ 0` leaves every `κ_k` unchanged -/
theorem cumulant_scale_weight (k : ℕ) (hk : 1 ≤ k ∧ k ≤ 8) (c : K) (hc : c ≠ 0) (evs : List (List (Part K))) :
    cumulant k (evs.map (fun ev => ev.map (scaleW c))) = cumulant k evs := by
  rw [cumulant_eq k hk, cumulant_eq k hk]
  simp only [corrSpec_scale_weight c hc]

/-- the cumulants do not depend on the order of the events -/
theorem cumulant_perm_events (k : ℕ) (hk : 1 ≤ k ∧ k ≤ 8) (evs evs' : List (List (Part K))) (h : evs.Perm evs') :
    cumulant k evs = cumulant k evs' := by
  rw [cumulant_eq k hk, cumulant_eq k hk]
  have : ∀ i, corrSpec evs i = corrSpec evs' i := fun i => by
    unfold corrSpec; rw [(h.map _).sum_eq, (h.map _).sum_eq]
  simp only [this]

end field
end SparkxVerif.C13
