/-
C13 (symmetries) — consequences of the distinct-tuple form that the estimator inherits through `corr_eq`:
events with fewer than `k` particles contribute nothing, homogeneity of degree `k`, permutation invariance.
-/
import SparkxVerif.Props.C13

open Finset BigOperators

namespace SparkxVerif.C13

section ring
variable {R : Type} [CommRing R] {n : ℕ}

/-- an event with fewer than `k` particles has no `k`-tuple of distinct particles: it contributes `0` -/
theorem distinctSum_of_lt (k : ℕ) (x : Fin n → R) (h : n < k) : distinctSum k x = 0 := by
  unfold distinctSum tupleSum
  apply Finset.sum_eq_zero
  intro t _
  have : ¬ Function.Injective t := by
    intro hi
    have := Fintype.card_le_of_injective t hi
    simp at this; omega
  simp [this]

/-- homogeneity: scaling every entry by `c` scales the `k`-tuple sum by `c^k` -/
theorem distinctSum_smul (k : ℕ) (c : R) (x : Fin n → R) :
    distinctSum k (fun j => c * x j) = c ^ k * distinctSum k x := by
  unfold distinctSum tupleSum
  rw [Finset.mul_sum]
  apply Finset.sum_congr rfl
  intro t _
  split
  · rw [Finset.prod_mul_distrib]; simp
  · simp

/-- relabelling the particles of an event does not change its `k`-tuple sum -/
theorem distinctSum_perm (k : ℕ) (σ : Equiv.Perm (Fin n)) (x : Fin n → R) :
    distinctSum k (fun j => x (σ j)) = distinctSum k x := by
  unfold distinctSum tupleSum
  refine Fintype.sum_equiv (Equiv.arrowCongr (Equiv.refl _) σ) _ _ ?_
  intro t
  have : Function.Injective (Equiv.arrowCongr (Equiv.refl (Fin k)) σ t) ↔ Function.Injective t := by
    simp [Equiv.arrowCongr, Function.comp_def]
    exact ⟨fun h a b hab => h (by simp [hab]), fun h a b hab => h (σ.injective hab)⟩
  simp only [this]
  rfl

end ring
end SparkxVerif.C13

namespace SparkxVerif.C13
section field
variable {K : Type} [Field K]
open SparkxVerif.PtCorr

theorem distinctSum_cast {R : Type} [CommRing R] {m n : ℕ} (h : m = n) (k : ℕ) (x : Fin n → R) :
    distinctSum k (fun j : Fin m => x (Fin.cast h j)) = distinctSum k x := by
  subst h; rfl

theorem distinctSumL_map {α : Type} (k : ℕ) (f : α → K) (xs : List α) :
    distinctSumL k (xs.map f) = distinctSum k (fun j : Fin xs.length => f xs[j.1]) := by
  unfold distinctSumL
  have h : (xs.map f).length = xs.length := List.length_map f
  rw [← distinctSum_cast h k (fun j : Fin xs.length => f xs[j.1])]
  congr 1
  funext j
  simp

theorem distinctSumL_of_lt (k : ℕ) (xs : List K) (h : xs.length < k) : distinctSumL k xs = 0 :=
  distinctSum_of_lt k _ h

theorem distinctSumL_smul {α : Type} (k : ℕ) (c : K) (f : α → K) (xs : List α) :
    distinctSumL k (xs.map (fun a => c * f a)) = c ^ k * distinctSumL k (xs.map f) := by
  rw [distinctSumL_map, distinctSumL_map, distinctSum_smul]

/-- scale every transverse momentum by `c` -/
def scalePt (c : K) (p : Part K) : Part K := (p.1, c * p.2)
/-- scale every weight by `c` (an unset weight counts as `1`, so it becomes `c`) -/
def scaleW (c : K) (p : Part K) : Part K := (some (c * weight p), p.2)

@[simp] theorem weight_scalePt (c : K) (p : Part K) : weight (scalePt c p) = weight p := rfl
@[simp] theorem weight_scaleW (c : K) (p : Part K) : weight (scaleW c p) = c * weight p := rfl

theorem sum_map_mul_left (c : K) (f : List (Part K) → K) (evs : List (List (Part K))) :
    (evs.map (fun ev => c * f ev)).sum = c * (evs.map f).sum := by
  induction evs with
  | nil => simp
  | cons e es ih => simp [ih, mul_add]

/-- **homogeneity in pT**: multiplying every pT by `c` multiplies the order-`k` correlation by `c^k` -/
theorem corr_scale_pt (k : ℕ) (hk : 1 ≤ k ∧ k ≤ 8) (c : K) (evs : List (List (Part K))) :
    corr k (evs.map (fun ev => ev.map (scalePt c))) = (corr k evs).map (fun v => c ^ k * v) := by
  rw [corr_eq k hk, corr_eq k hk]
  simp only [List.map_map, Option.map_some, Function.comp_def]
  congr 1
  have hn : ∀ ev : List (Part K), distinctSumL k (ev.map (fun p => weight (scalePt c p) * (scalePt c p).2))
      = c ^ k * distinctSumL k (ev.map (fun p => weight p * p.2)) := by
    intro ev
    rw [← distinctSumL_smul]
    congr 2; funext p
    show weight p * (c * p.2) = c * (weight p * p.2)
    ring
  have hd : ∀ ev : List (Part K), distinctSumL k (ev.map (fun p => weight (scalePt c p)))
      = distinctSumL k (ev.map weight) := fun _ => rfl
  simp only [hn, hd, sum_map_mul_left, mul_div_assoc]

/-- **weights are relative**: multiplying every weight by `c ≠ 0` leaves every correlation unchanged -/
theorem corr_scale_weight (k : ℕ) (hk : 1 ≤ k ∧ k ≤ 8) (c : K) (hc : c ≠ 0) (evs : List (List (Part K))) :
    corr k (evs.map (fun ev => ev.map (scaleW c))) = corr k evs := by
  rw [corr_eq k hk, corr_eq k hk]
  simp only [List.map_map, Function.comp_def]
  congr 1
  have hn : ∀ ev : List (Part K), distinctSumL k (ev.map (fun p => weight (scaleW c p) * (scaleW c p).2))
      = c ^ k * distinctSumL k (ev.map (fun p => weight p * p.2)) := by
    intro ev
    rw [← distinctSumL_smul]
    congr 2; funext p
    show c * weight p * p.2 = c * (weight p * p.2)
    ring
  have hd : ∀ ev : List (Part K), distinctSumL k (ev.map (fun p => weight (scaleW c p)))
      = c ^ k * distinctSumL k (ev.map weight) := fun ev => distinctSumL_smul k c weight ev
  simp only [hn, hd, sum_map_mul_left]
  exact mul_div_mul_left _ _ (pow_ne_zero k hc)

/-- the order of the events is irrelevant -/
theorem corr_perm_events (k : ℕ) (hk : 1 ≤ k ∧ k ≤ 8) (evs evs' : List (List (Part K))) (h : evs.Perm evs') :
    corr k evs = corr k evs' := by
  rw [corr_eq k hk, corr_eq k hk, (h.map _).sum_eq, (h.map _).sum_eq]

/-- events with fewer than `k` particles contribute nothing: dropping them changes nothing -/
theorem corr_drop_short (k : ℕ) (hk : 1 ≤ k ∧ k ≤ 8) (evs : List (List (Part K))) :
    corr k (evs.filter (fun ev => decide (k ≤ ev.length))) = corr k evs := by
  rw [corr_eq k hk, corr_eq k hk]
  have : ∀ (f : Part K → K), ((evs.filter (fun ev => decide (k ≤ ev.length))).map
      (fun ev => distinctSumL k (ev.map f))).sum = (evs.map (fun ev => distinctSumL k (ev.map f))).sum := by
    intro f
    induction evs with
    | nil => rfl
    | cons e es ih =>
      by_cases h : k ≤ e.length
      · simp [h, ih]
      · have h0 : distinctSumL k (e.map f) = 0 := distinctSumL_of_lt k _ (by simp; omega)
        simp [h, ih, h0]
  rw [this, this]

end field

/-! non-vacuity of the side conditions: a two-event sample with one short event and a non-unit factor -/
example : (2 : ℚ) ≠ 0 ∧ (1 ≤ 2 ∧ 2 ≤ 8) ∧
    ([[(none, (1 : ℚ)), (some 3, 2)], [(none, 5)]] : List (List (PtCorr.Part ℚ))).length = 2 := by
  norm_num

end SparkxVerif.C13
