/-
C02 — Event selection equals loading everything and slicing.

Property theorems only.  Executable model: the shared reader model `Core/Reader.lean` (`readOscar`,
`readJetscape`, reproducing `OscarLoader` / `JetscapeLoader` step by step on the observations `LineF` the
loaders make on each line) and `Core/ReaderSel.lean` (reference side `sliceLoaded`, `particleList` =
`BaseStorer.particle_list`, `impactLines` = `OscarLoader.impact_parameter`, `ctorFilter` = the
constructor-filter semantics, `sliceList` = the list loader's slicing).  Helper lemmas: `Lemmas/ReaderSel.lean`.

Reading of the statement.
* A file is *well-formed as observed* (`WFOscar f fmt attrs evs`, `WFJetscape f partons evs`): its lines are the
  three header lines (one for JETSCAPE) followed by the lines of the events `evs` (JETSCAPE: and the
  `sigmaGen` trailer), every line showing the features and tokens of its kind (the Bool checks `isOutLine`,
  `isPartLine`, `isEndLine`, `isJHdr`, … of `Core/ReaderSel.lean`), events labelled `0 … N-1` (JETSCAPE
  `1 … N`), `N ≥ 1`.  Nothing is assumed about the *text*: that a rendered file has these observations is
  checked by the driver on the real bytes of every generated file (`checkOscar` / `checkJetscape` run on
  `analyse` of each line); `checkOscar_sound` / `checkJetscape_sound` show that a passed check gives exactly
  the hypothesis used here.  For the text rendered by the file grammar of `Core/Render.lean` the hypothesis is PROVED
  (`Props/C02/Text.lean`: `WFOscar_text`, `WFJetscape_text`, and the `…_text` corollaries of the theorems below).
* "valid selector": `sel.validFor N` — `events=k` with `0 ≤ k < N`, `events=(a,b)` with `0 ≤ a ≤ b < N`
  (first / last / middle / `a = b` are instances).  `sel.start`, `sel.count N` are the window.
* "observably identical to loading everything and keeping …": `select_eq_slice_*` — the *whole* returned
  object equals `sliceLoaded sel` of the full load: the same particle lines (with their file line numbers) in
  the same order, `num_events` = number selected, counts = the selected rows under their original labels,
  and for Oscar the footers; `select_impacts_oscar`: `impact_parameter()` of the selection is the list of
  the selected events' own end lines; `select_particleList_*`: `particle_list()` does not raise and returns
  the selected events (`PLOut.single` when one event is selected — `BaseStorer.particle_list` flattens).
* "select, then filter": `select_filter_*` — for every constructor filter `d : EvFilter` (any function on one
  event, it may raise), `read f sel (some d)` = `ctorFilter d` of `read f sel none`; `ctorFilter_spec` spells
  out what that is: events filtered one by one in order, an event that was non-empty and became empty is
  dropped, kept events relabelled consecutively from the first selected label, `num_events` = number kept,
  counts = sizes of the kept events; `particle_list()` works whenever at least one event is kept.
* `particle_list()` after constructor filters that leave no event: the loaders return `[[]]`, `num_events = 0`,
  counts `np.array([])` (shape pinned by the repository's tests) and `BaseStorer.particle_list` indexes
  `num_output_per_event_[:, 1]` — `IndexError`.  `particleList` therefore takes the flag `guard` = "the method
  starts with `if num_events == 0: return []`", read off the source on every run (`Gen/ParticleList.lean`).
  `C02_particleList_full guard` is the full-strength statement; it is PROVED for `guard = true`
  (`C02_particleList_full_of_guard`) and REFUTED for `guard = false`, the code as it stands, on every
  well-formed file and valid selector (`particleList_fails_when_nothing_kept`; the oracle monitors it on the
  real code, key `particle_list-raises:no-event-kept`).  `C02_particleList_partial` (any `guard`) is the
  statement with that case excluded.
-/
import SparkxVerif.Lemmas.ReaderSel

namespace SparkxVerif.C02
open SparkxVerif.Rd SparkxVerif.RdSel

/-! ### the driver's check gives the hypotheses -/

theorem checkOscar_gives_WF (f : FileF) (ns : List Nat) (h : checkOscar f ns = true) :
    ∃ fmt attrs evs, WFOscar f fmt attrs evs := checkOscar_sound f ns h

theorem checkJetscape_gives_WF (f : FileF) (partons : Bool) (ns : List Nat) (h : checkJetscape f partons ns = true) :
    ∃ evs, WFJetscape f partons evs := checkJetscape_sound f partons ns h

/-! ### skip arithmetic -/

theorem bodyLines_length (es : List OEvent) :
    (bodyLines es).length = (es.map (fun e => e.parts.length + 2)).sum := by
  induction es with
  | nil => rfl
  | cons e es ih => simp [bodyLines_cons, lines_length, ih]

theorem jBody_length_sum (es : List JEvent) :
    (jBody es).length = (es.map (fun e => e.parts.length + 1)).sum := by
  induction es with
  | nil => rfl
  | cons e es ih => simp [jBody_cons, ih]; omega

/-- **skip_lands (Oscar)**: the header scan yields the rows `(i, n_i)`; for a valid selector starting at event
`a` the loader skips `3 + Σ_{i<a}(n_i + 2)` lines, and what remains of the file starts exactly with event
`a`'s `out` line (it is the lines of events `a, a+1, …`). -/
theorem skip_lands_oscar (f : FileF) (fmt : Fmt) (attrs : List String) (evs : List OEvent) (sel : Sel)
    (hwf : WFOscar f fmt attrs evs) (hv : sel.validFor evs.length = true) :
    oscarScan f.lines = .ok (rowsFrom 0 evs, footersOf evs) ∧
    skipLines 3 2 (rowsFrom 0 evs) sel
      = .ok ((3 + ((evs.take sel.start).map (fun e => e.parts.length + 2)).sum : Nat) : Int) ∧
    f.lines.drop (3 + ((evs.take sel.start).map (fun e => e.parts.length + 2)).sum) = bodyLines (evs.drop sel.start) ∧
    (f.lines.drop (3 + ((evs.take sel.start).map (fun e => e.parts.length + 2)).sum)).head?
      = (evs[sel.start]?).map (fun e => e.out) := by
  obtain ⟨h0, h1, h2, hl, hb⟩ := hwf
  simp only [wfOscarB, Bool.and_eq_true, Bool.not_eq_true'] at hb
  obtain ⟨⟨⟨⟨⟨⟨_, _⟩, p0⟩, p1⟩, p2⟩, hne⟩, hevs⟩ := hb
  have hscan : oscarScan f.lines = .ok (rowsFrom 0 evs, footersOf evs) := by
    rw [hl]; exact oscarScan_wf fmt attrs evs h0 h1 h2 p0 p1 p2 hevs
  have hv' : sel.validFor (rowsFrom 0 evs).length = true := by rw [rowsFrom_length]; exact hv
  have hskip := skipLines_valid 3 2 (rowsFrom 0 evs) sel hv'
  rw [rowsFrom_take, sumCounts_rowsFrom, bodyLines_length] at hskip
  have hdrop : f.lines.drop (3 + ((evs.take sel.start).map (fun e => e.parts.length + 2)).sum)
      = bodyLines (evs.drop sel.start) := by
    rw [← bodyLines_length, hl]
    have : h0 :: h1 :: h2 :: bodyLines evs
        = ([h0, h1, h2] ++ bodyLines (evs.take sel.start)) ++ bodyLines (evs.drop sel.start) := by
      rw [List.append_assoc, ← bodyLines_append, List.take_append_drop]; rfl
    rw [this, List.drop_left' (by simp; omega)]
  refine ⟨hscan, ?_, hdrop, ?_⟩
  · rw [hskip]; congr 1
  · rw [hdrop]
    cases hd : evs.drop sel.start with
    | nil =>
      have : evs.length ≤ sel.start := by
        have := congrArg List.length hd; simp at this; omega
      simp [bodyLines, List.getElem?_eq_none this]
    | cons e es =>
      have hlt : sel.start < evs.length := by
        have := congrArg List.length hd; simp at this; omega
      have he : evs[sel.start] = e := by
        have := List.drop_eq_getElem_cons hlt
        rw [hd] at this
        exact (List.cons.inj this).1.symm
      simp [bodyLines_cons, OEvent.lines, List.getElem?_eq_getElem hlt, he]

/-! ### Oscar: selection = slice of the full load -/

/-- the full load of a well-formed Oscar file (C01's statement, needed here as the reference side) -/
theorem read_all_oscar (f : FileF) (fmt : Fmt) (attrs : List String) (evs : List OEvent)
    (hwf : WFOscar f fmt attrs evs) :
    readOscar f .all none =
      .ok { events := evPLines 3 evs, numEvents := (evs.length : Int), counts := .arr2d (rowsFrom 0 evs),
            fmt := some fmt, customAttrs := attrs, footers := footersOf evs } := by
  have hne : evs ≠ [] := by
    obtain ⟨h0, h1, h2, _, hb⟩ := hwf
    simp only [wfOscarB, Bool.and_eq_true, Bool.not_eq_true'] at hb
    intro h; simp [h] at hb
  rw [readOscar_wf f fmt attrs evs .all none hwf rfl]
  simp only [Sel.start, Sel.count, List.take_zero, List.drop_zero, List.take_length, bodyLines, List.flatMap_nil,
    List.length_nil, Nat.add_zero]
  rw [loadFrom_none _ _ _ _ _ (evPLines_length evs 3) (by
    intro h; apply hne; have := congrArg List.length h; rw [evPLines_length] at this; exact List.eq_nil_of_length_eq_zero this)]
  rfl

/-- what `events=sel` loads from a well-formed Oscar file -/
theorem read_sel_oscar (f : FileF) (fmt : Fmt) (attrs : List String) (evs : List OEvent) (sel : Sel)
    (hwf : WFOscar f fmt attrs evs) (hv : sel.validFor evs.length = true) :
    readOscar f sel none =
      .ok { events := evPLines (3 + (bodyLines (evs.take sel.start)).length)
                        ((evs.drop sel.start).take (sel.count evs.length)),
            numEvents := (sel.count evs.length : Int),
            counts := .arr2d (rowsFrom sel.start ((evs.drop sel.start).take (sel.count evs.length))),
            fmt := some fmt, customAttrs := attrs, footers := footersOf evs } := by
  have hn1 : 1 ≤ evs.length := by
    obtain ⟨h0, h1, h2, _, hb⟩ := hwf
    simp only [wfOscarB, Bool.and_eq_true, Bool.not_eq_true'] at hb
    cases evs with
    | nil => simp at hb
    | cons _ _ => simp
  obtain ⟨hwin, hm1⟩ := sel_window' evs.length hn1 sel hv
  have hlen : ((evs.drop sel.start).take (sel.count evs.length)).length = sel.count evs.length := by
    simp; omega
  rw [readOscar_wf f fmt attrs evs sel none hwf hv]
  rw [loadFrom_none _ _ _ _ _ (by rw [evPLines_length, hlen]) (by
    intro h; have := congrArg List.length h; rw [evPLines_length, hlen] at this; simp at this; omega)]
  rfl

/-- **select_eq_slice (Oscar)**: for every well-formed file and every valid selector, the object loaded with
`events=sel` *is* the full load sliced to the selected events: same particle lines in the same order,
`num_events` = number selected, counts = the selected rows with their original labels, same format,
attribute list and footers. -/
theorem select_eq_slice_oscar (f : FileF) (fmt : Fmt) (attrs : List String) (evs : List OEvent) (sel : Sel)
    (hwf : WFOscar f fmt attrs evs) (hv : sel.validFor evs.length = true) :
    readOscar f sel none = (readOscar f .all none).map (sliceLoaded sel) := by
  rw [read_all_oscar f fmt attrs evs hwf, read_sel_oscar f fmt attrs evs sel hwf hv]
  simp only [Except.map]
  cases sel with
  | all => simp [sliceLoaded, Sel.start, Sel.count, bodyLines]
  | one k =>
    simp only [sliceLoaded, evPLines_length, evPLines_drop, evPLines_take, rowsFrom_drop, rowsFrom_take, Nat.zero_add]
  | range a b =>
    simp only [sliceLoaded, evPLines_length, evPLines_drop, evPLines_take, rowsFrom_drop, rowsFrom_take, Nat.zero_add]

/-- the same through the property's observables (events, `num_events`, counts, impact parameters,
`particle_list()`) -/
theorem select_observe_oscar (guard : Bool) (f : FileF) (fmt : Fmt) (attrs : List String) (evs : List OEvent)
    (sel : Sel) (hwf : WFOscar f fmt attrs evs) (hv : sel.validFor evs.length = true) :
    (readOscar f sel none).map (observe guard)
      = (readOscar f .all none).map (fun L => observe guard (sliceLoaded sel L)) := by
  rw [select_eq_slice_oscar f fmt attrs evs sel hwf hv]
  cases readOscar f .all none <;> rfl

/-- impact parameters of the selection = the selected events' own end lines -/
theorem select_impacts_oscar (f : FileF) (fmt : Fmt) (attrs : List String) (evs : List OEvent) (sel : Sel)
    (hwf : WFOscar f fmt attrs evs) (hv : sel.validFor evs.length = true) :
    (readOscar f sel none).bind impactLines
      = .ok (footersOf ((evs.drop sel.start).take (sel.count evs.length))) := by
  rw [read_sel_oscar f fmt attrs evs sel hwf hv]
  simp only [Except.bind, impactLines]
  have hsplit : evs = evs.take sel.start ++ ((evs.drop sel.start).take (sel.count evs.length)
      ++ (evs.drop sel.start).drop (sel.count evs.length)) := by
    rw [List.take_append_drop, List.take_append_drop]
  have hn1 : 1 ≤ evs.length := by
    obtain ⟨h0, h1, h2, _, hb⟩ := hwf
    simp only [wfOscarB, Bool.and_eq_true, Bool.not_eq_true'] at hb
    cases evs with
    | nil => simp at hb
    | cons _ _ => simp
  obtain ⟨hwin, _⟩ := sel_window' evs.length hn1 sel hv
  have hpl : (evs.take sel.start).length = sel.start := by simp; omega
  have := impact_rows ((evs.drop sel.start).take (sel.count evs.length)) (evs.take sel.start)
    ((evs.drop sel.start).drop (sel.count evs.length))
  rw [← hsplit, hpl] at this
  exact this

/-- `particle_list()` works on the selection and returns the selected events -/
theorem select_particleList_oscar (guard : Bool) (f : FileF) (fmt : Fmt) (attrs : List String) (evs : List OEvent)
    (sel : Sel) (hwf : WFOscar f fmt attrs evs) (hv : sel.validFor evs.length = true) :
    ∃ L, readOscar f sel none = .ok L ∧ L.numEvents = (L.events.length : Int) ∧
      L.events.length = sel.count evs.length ∧
      particleList guard L.numEvents L.counts L.events
        = .ok (if L.events.length = 1 then .single (L.events.headD []) else .multi L.events) := by
  have hn1 : 1 ≤ evs.length := by
    obtain ⟨h0, h1, h2, _, hb⟩ := hwf
    simp only [wfOscarB, Bool.and_eq_true, Bool.not_eq_true'] at hb
    cases evs with
    | nil => simp at hb
    | cons _ _ => simp
  obtain ⟨hwin, _⟩ := sel_window' evs.length hn1 sel hv
  have hlen : ((evs.drop sel.start).take (sel.count evs.length)).length = sel.count evs.length := by
    simp; omega
  refine ⟨_, read_sel_oscar f fmt attrs evs sel hwf hv, ?_, ?_, ?_⟩
  · simp only [evPLines_length, hlen]
  · simp only [evPLines_length, hlen]
  · have := particleList_ok guard _ _ (rowsMatch_oscar ((evs.drop sel.start).take (sel.count evs.length)) sel.start
      (3 + (bodyLines (evs.take sel.start)).length))
    simp only [evPLines_length, hlen] at this ⊢
    exact this

/-- **select_filter (Oscar)**: with a `filters=` option the loader returns the constructor-filter semantics
applied to what the plain selection returns (select, then filter) — for every filter function, including
ones that raise. -/
theorem select_filter_oscar (f : FileF) (fmt : Fmt) (attrs : List String) (evs : List OEvent) (sel : Sel)
    (d : EvFilter) (hwf : WFOscar f fmt attrs evs) (hv : sel.validFor evs.length = true) :
    readOscar f sel (some d) = (readOscar f sel none).bind (ctorFilter d) := by
  have hn1 : 1 ≤ evs.length := by
    obtain ⟨h0, h1, h2, _, hb⟩ := hwf
    simp only [wfOscarB, Bool.and_eq_true, Bool.not_eq_true'] at hb
    cases evs with
    | nil => simp at hb
    | cons _ _ => simp
  obtain ⟨hwin, hm1⟩ := sel_window' evs.length hn1 sel hv
  have hlen : ((evs.drop sel.start).take (sel.count evs.length)).length = sel.count evs.length := by
    simp; omega
  rw [readOscar_wf f fmt attrs evs sel (some d) hwf hv, readOscar_wf f fmt attrs evs sel none hwf hv]
  rw [loadFrom_ctorFilter d sel _ _ _ _ (by rw [evPLines_length, hlen]) (by rw [rowsFrom_length, hlen]) (by
    intro h; have := congrArg List.length h; rw [evPLines_length, hlen] at this; simp at this; omega)]
  cases loadFrom none sel _ _ _ _ <;> rfl

/-! ### JETSCAPE -/

/-- **skip_lands (JETSCAPE)**: rows `(i+1, n_i)`; skip `1 + Σ_{i<a}(n_i + 1)` lines; the rest of the file is
the lines of events `a, a+1, …` followed by the trailer. -/
theorem skip_lands_jetscape (f : FileF) (partons : Bool) (evs : List JEvent) (sel : Sel)
    (hwf : WFJetscape f partons evs) (hv : sel.validFor evs.length = true) :
    jetscapeScan partons f.lines = .ok (rowsFromJ 1 evs) ∧
    skipLines 1 1 (rowsFromJ 1 evs) sel
      = .ok ((1 + ((evs.take sel.start).map (fun e => e.parts.length + 1)).sum : Nat) : Int) ∧
    ∃ tr, f.lines.drop (1 + ((evs.take sel.start).map (fun e => e.parts.length + 1)).sum)
      = jLines (evs.drop sel.start) tr := by
  obtain ⟨h0, tr, hl, hb⟩ := hwf
  simp only [wfJetscapeB, Bool.and_eq_true, Bool.not_eq_true'] at hb
  obtain ⟨⟨⟨p0, hne⟩, hevs⟩, htr⟩ := hb
  simp only [isJTrailer, Bool.and_eq_true, Bool.not_eq_true'] at htr
  have hscan : jetscapeScan partons f.lines = .ok (rowsFromJ 1 evs) := by
    rw [hl, jLines_eq, jscan_skip partons h0 p0, jscan_tail partons evs 1 [tr] hevs,
      jscan_skip partons tr (by simp [htr.2])]
    simp [jetscapeScan]
  have hv' : sel.validFor (rowsFromJ 1 evs).length = true := by rw [rowsFromJ_length]; exact hv
  have hskip := skipLines_valid 1 1 (rowsFromJ 1 evs) sel hv'
  rw [rowsFromJ_take, sumCounts_rowsFromJ, jBody_length_sum] at hskip
  refine ⟨hscan, ?_, tr, ?_⟩
  · rw [hskip]; congr 1
  · rw [← jBody_length_sum, hl]
    have : h0 :: jLines evs tr = ([h0] ++ jBody (evs.take sel.start)) ++ jLines (evs.drop sel.start) tr := by
      conv => lhs; rw [← List.take_append_drop sel.start evs]
      rw [jLines_eq, jTail_append, jTail_body, ← jLines_eq]; rfl
    rw [this, List.drop_left' (by simp; omega)]

theorem read_all_jetscape (f : FileF) (partons : Bool) (evs : List JEvent) (hwf : WFJetscape f partons evs) :
    readJetscape f .all partons none =
      .ok { events := evPLinesJ 1 evs, numEvents := (evs.length : Int), counts := .arr2d (rowsFromJ 1 evs),
            fmt := none, customAttrs := [], footers := [] } := by
  have hne : evs ≠ [] := by
    obtain ⟨h0, tr, _, hb⟩ := hwf
    simp only [wfJetscapeB, Bool.and_eq_true, Bool.not_eq_true'] at hb
    intro h; simp [h] at hb
  rw [readJetscape_wf partons f evs .all none hwf rfl]
  simp only [Sel.start, Sel.count, List.take_zero, List.drop_zero, List.take_length, jBody, jTail,
    List.length_nil, Nat.add_zero]
  rw [loadFrom_none _ _ _ _ _ (evPLinesJ_length evs 1) (by
    intro h; apply hne; have := congrArg List.length h; rw [evPLinesJ_length] at this; exact List.eq_nil_of_length_eq_zero this)]
  rfl

theorem wfJ_nonempty {f : FileF} {partons : Bool} {evs : List JEvent} (hwf : WFJetscape f partons evs) :
    1 ≤ evs.length := by
  obtain ⟨h0, tr, _, hb⟩ := hwf
  simp only [wfJetscapeB, Bool.and_eq_true, Bool.not_eq_true'] at hb
  cases evs with
  | nil => simp at hb
  | cons _ _ => simp

theorem read_sel_jetscape (f : FileF) (partons : Bool) (evs : List JEvent) (sel : Sel)
    (hwf : WFJetscape f partons evs) (hv : sel.validFor evs.length = true) :
    readJetscape f sel partons none =
      .ok { events := evPLinesJ (1 + (jBody (evs.take sel.start)).length)
                        ((evs.drop sel.start).take (sel.count evs.length)),
            numEvents := (sel.count evs.length : Int),
            counts := .arr2d (rowsFromJ (1 + sel.start) ((evs.drop sel.start).take (sel.count evs.length))),
            fmt := none, customAttrs := [], footers := [] } := by
  obtain ⟨hwin, hm1⟩ := sel_window' evs.length (wfJ_nonempty hwf) sel hv
  have hlen : ((evs.drop sel.start).take (sel.count evs.length)).length = sel.count evs.length := by
    simp; omega
  rw [readJetscape_wf partons f evs sel none hwf hv]
  rw [loadFrom_none _ _ _ _ _ (by rw [evPLinesJ_length, hlen]) (by
    intro h; have := congrArg List.length h; rw [evPLinesJ_length, hlen] at this; simp at this; omega)]
  rfl

/-- **select_eq_slice (JETSCAPE)** -/
theorem select_eq_slice_jetscape (f : FileF) (partons : Bool) (evs : List JEvent) (sel : Sel)
    (hwf : WFJetscape f partons evs) (hv : sel.validFor evs.length = true) :
    readJetscape f sel partons none = (readJetscape f .all partons none).map (sliceLoaded sel) := by
  rw [read_all_jetscape f partons evs hwf, read_sel_jetscape f partons evs sel hwf hv]
  simp only [Except.map]
  cases sel with
  | all => simp [sliceLoaded, Sel.start, Sel.count, jBody, jTail]
  | one k =>
    simp only [sliceLoaded, evPLinesJ_length, evPLinesJ_drop, evPLinesJ_take, rowsFromJ_drop, rowsFromJ_take]
  | range a b =>
    simp only [sliceLoaded, evPLinesJ_length, evPLinesJ_drop, evPLinesJ_take, rowsFromJ_drop, rowsFromJ_take]

theorem select_observe_jetscape (guard : Bool) (f : FileF) (partons : Bool) (evs : List JEvent) (sel : Sel)
    (hwf : WFJetscape f partons evs) (hv : sel.validFor evs.length = true) :
    (readJetscape f sel partons none).map (observe guard)
      = (readJetscape f .all partons none).map (fun L => observe guard (sliceLoaded sel L)) := by
  rw [select_eq_slice_jetscape f partons evs sel hwf hv]
  cases readJetscape f .all partons none <;> rfl

theorem select_particleList_jetscape (guard : Bool) (f : FileF) (partons : Bool) (evs : List JEvent) (sel : Sel)
    (hwf : WFJetscape f partons evs) (hv : sel.validFor evs.length = true) :
    ∃ L, readJetscape f sel partons none = .ok L ∧ L.numEvents = (L.events.length : Int) ∧
      L.events.length = sel.count evs.length ∧
      particleList guard L.numEvents L.counts L.events
        = .ok (if L.events.length = 1 then .single (L.events.headD []) else .multi L.events) := by
  obtain ⟨hwin, _⟩ := sel_window' evs.length (wfJ_nonempty hwf) sel hv
  have hlen : ((evs.drop sel.start).take (sel.count evs.length)).length = sel.count evs.length := by
    simp; omega
  refine ⟨_, read_sel_jetscape f partons evs sel hwf hv, ?_, ?_, ?_⟩
  · simp only [evPLinesJ_length, hlen]
  · simp only [evPLinesJ_length, hlen]
  · have := particleList_ok guard _ _ (rowsMatch_jetscape ((evs.drop sel.start).take (sel.count evs.length)) (1 + sel.start)
      (1 + (jBody (evs.take sel.start)).length))
    simp only [evPLinesJ_length, hlen] at this ⊢
    exact this

/-- **select_filter (JETSCAPE)** -/
theorem select_filter_jetscape (f : FileF) (partons : Bool) (evs : List JEvent) (sel : Sel) (d : EvFilter)
    (hwf : WFJetscape f partons evs) (hv : sel.validFor evs.length = true) :
    readJetscape f sel partons (some d) = (readJetscape f sel partons none).bind (ctorFilter d) := by
  obtain ⟨hwin, hm1⟩ := sel_window' evs.length (wfJ_nonempty hwf) sel hv
  have hlen : ((evs.drop sel.start).take (sel.count evs.length)).length = sel.count evs.length := by
    simp; omega
  rw [readJetscape_wf partons f evs sel (some d) hwf hv, readJetscape_wf partons f evs sel none hwf hv]
  rw [loadFrom_ctorFilter d sel _ _ _ _ (by rw [evPLinesJ_length, hlen]) (by rw [rowsFromJ_length, hlen]) (by
    intro h; have := congrArg List.length h; rw [evPLinesJ_length, hlen] at this; simp at this; omega)]
  cases loadFrom none sel _ _ _ _ <;> rfl

/-! ### what the constructor-filter semantics is, and `particle_list()` after it -/

/-- every kept event is the filter's answer on one of the input events, in input order; an event is dropped
only if it was non-empty and its answer is empty -/
theorem filterEvents_spec (d : EvFilter) (es kept : List (List PLine)) (h : filterEvents d es = .ok kept) :
    ∃ ds : List (List PLine), ds.length = es.length ∧ (∀ i (h1 : i < es.length) (h2 : i < ds.length), d es[i] = .ok ds[i]) ∧
      kept = ((es.zip ds).filter (fun p => p.2.length != 0 || p.1.length == 0)).map (fun p => p.2) := by
  induction es generalizing kept with
  | nil =>
    simp only [filterEvents, Except.ok.injEq] at h
    subst h
    exact ⟨[], rfl, by intro i h1; simp at h1, rfl⟩
  | cons e es ih =>
    simp only [filterEvents] at h
    cases hf : d e with
    | error x => simp [hf] at h
    | ok de =>
      cases hr : filterEvents d es with
      | error x => simp [hf, hr] at h
      | ok rest =>
        obtain ⟨ds, hl, hd, hk⟩ := ih rest hr
        simp only [hf, hr, Except.ok.injEq] at h
        refine ⟨de :: ds, by simp [hl], ?_, ?_⟩
        · intro i h1 h2
          cases i with
          | zero => simpa using hf
          | succ i => simpa using hd i (by simpa using h1) (by simpa using h2)
        · subst h
          by_cases hc : (de.length != 0 || e.length == 0) = true
          · simp [hc, hk]
          · have hc' : (de.length != 0 || e.length == 0) = false := by simpa using hc
            simp only [hc', Bool.false_eq_true, if_false, List.zip_cons_cons, List.filter_cons, hk]

/-- **ctorFilter_spec**: the object after constructor filters — when at least one event is kept: the kept
events, `num_events` = their number, counts = their sizes under labels consecutive from the first label of
the selection, and `particle_list()` works; when none is kept: `[[]]`, `num_events = 0`, the empty counts array
— and `particle_list()` raises `IndexError` unless it has the `num_events == 0` guard (then it returns `[]`). -/
theorem ctorFilter_spec (guard : Bool) (d : EvFilter) (L L' : Loaded) (h : ctorFilter d L = .ok L') :
    ∃ kept, filterEvents d L.events = .ok kept ∧
      (kept ≠ [] →
        L'.events = kept ∧ L'.numEvents = (kept.length : Int) ∧
        L'.counts = .arr2d (relabel (firstLabelOf L.counts) kept) ∧
        (relabel (firstLabelOf L.counts) kept).map (fun r => r.1)
          = (List.range kept.length).map (fun (i : Nat) => firstLabelOf L.counts + (i : Int)) ∧
        (relabel (firstLabelOf L.counts) kept).map (fun r => r.2) = kept.map (fun e => (e.length : Int)) ∧
        particleList guard L'.numEvents L'.counts L'.events
          = .ok (if kept.length = 1 then .single (kept.headD []) else .multi kept)) ∧
      (kept = [] →
        L'.events = [[]] ∧ L'.numEvents = 0 ∧ L'.counts = .empty ∧
        particleList false L'.numEvents L'.counts L'.events = .error .index ∧
        particleList true L'.numEvents L'.counts L'.events = .ok (.multi [])) := by
  unfold ctorFilter at h
  cases hf : filterEvents d L.events with
  | error x => simp [hf] at h
  | ok kept =>
    simp only [hf, Except.ok.injEq] at h
    subst h
    refine ⟨kept, rfl, ?_, ?_⟩
    · intro hne
      have hemp : kept.isEmpty = false := by cases kept <;> simp_all
      simp only [hemp, Bool.false_eq_true, if_false]
      exact ⟨trivial, trivial, trivial, relabel_labels kept _, rowsMatch_relabel kept _,
        particleList_ok guard _ _ (rowsMatch_relabel kept _)⟩
    · intro he
      subst he
      simp [particleList_empty, particleList_guarded_zero]

/-- the statement "`particle_list()` works on the result" at full strength, for a `particle_list` with
(`guard = true`) or without (`guard = false`) the `num_events == 0` early return.  TRUE for `guard = true`
(`C02_particleList_full_of_guard`), FALSE for `guard = false` — the code as it stands —
(`particleList_fails_when_nothing_kept`). -/
def C02_particleList_full (guard : Bool) : Prop :=
  (∀ (f : FileF) (fmt : Fmt) (attrs : List String) (evs : List OEvent) (sel : Sel) (d : Option EvFilter) (L : Loaded),
    WFOscar f fmt attrs evs → sel.validFor evs.length = true → readOscar f sel d = .ok L →
    particleListOk guard L.numEvents L.counts L.events = true) ∧
  (∀ (f : FileF) (partons : Bool) (evs : List JEvent) (sel : Sel) (d : Option EvFilter) (L : Loaded),
    WFJetscape f partons evs → sel.validFor evs.length = true → readJetscape f sel partons d = .ok L →
    particleListOk guard L.numEvents L.counts L.events = true)

/-- what both partial statements rest on: after a plain or filtered load, either something is kept and
`particle_list()` works, or the counts array is empty and `num_events = 0` -/
theorem particleList_after_load (guard : Bool) (d : Option EvFilter) (L0 L : Loaded)
    (hp : particleListOk guard L0.numEvents L0.counts L0.events = true)
    (hr : (match d with | none => Except.ok L0 | some d => ctorFilter d L0) = .ok L) :
    particleListOk guard L.numEvents L.counts L.events = true ∨ (L.counts = .empty ∧ L.numEvents = 0) := by
  cases d with
  | none =>
    simp only [Except.ok.injEq] at hr
    subst hr
    exact Or.inl hp
  | some d =>
    obtain ⟨kept, _, hk1, hk2⟩ := ctorFilter_spec guard d L0 L hr
    by_cases hk : kept = []
    · exact Or.inr ⟨(hk2 hk).2.2.1, (hk2 hk).2.1⟩
    · exact Or.inl (by simp [particleListOk, (hk1 hk).2.2.2.2.2])

theorem load_cases_oscar (guard : Bool) (f : FileF) (fmt : Fmt) (attrs : List String) (evs : List OEvent) (sel : Sel)
    (d : Option EvFilter) (L : Loaded) (hwf : WFOscar f fmt attrs evs) (hv : sel.validFor evs.length = true)
    (hr : readOscar f sel d = .ok L) :
    particleListOk guard L.numEvents L.counts L.events = true ∨ (L.counts = .empty ∧ L.numEvents = 0) := by
  obtain ⟨L0, h0, _, _, hp⟩ := select_particleList_oscar guard f fmt attrs evs sel hwf hv
  apply particleList_after_load guard d L0 L (by simp [particleListOk, hp])
  cases d with
  | none => rw [h0] at hr; exact hr
  | some d =>
    rw [select_filter_oscar f fmt attrs evs sel d hwf hv, h0] at hr
    exact hr

theorem load_cases_jetscape (guard : Bool) (f : FileF) (partons : Bool) (evs : List JEvent) (sel : Sel)
    (d : Option EvFilter) (L : Loaded) (hwf : WFJetscape f partons evs) (hv : sel.validFor evs.length = true)
    (hr : readJetscape f sel partons d = .ok L) :
    particleListOk guard L.numEvents L.counts L.events = true ∨ (L.counts = .empty ∧ L.numEvents = 0) := by
  obtain ⟨L0, h0, _, _, hp⟩ := select_particleList_jetscape guard f partons evs sel hwf hv
  apply particleList_after_load guard d L0 L (by simp [particleListOk, hp])
  cases d with
  | none => rw [h0] at hr; exact hr
  | some d =>
    rw [select_filter_jetscape f partons evs sel d hwf hv, h0] at hr
    exact hr

/-- **C02_particleList_partial (Oscar)**: `particle_list()` (with or without the guard) works on every object
loaded with a valid selector, with or without constructor filters, as long as the filters keep at least one
event (`counts ≠ np.array([])`). -/
theorem C02_particleList_partial (guard : Bool) (f : FileF) (fmt : Fmt) (attrs : List String) (evs : List OEvent)
    (sel : Sel) (d : Option EvFilter) (L : Loaded) (hwf : WFOscar f fmt attrs evs)
    (hv : sel.validFor evs.length = true) (hr : readOscar f sel d = .ok L) (hkept : L.counts ≠ .empty) :
    particleListOk guard L.numEvents L.counts L.events = true := by
  rcases load_cases_oscar guard f fmt attrs evs sel d L hwf hv hr with h | h
  · exact h
  · exact absurd h.1 hkept

theorem C02_particleList_partial_jetscape (guard : Bool) (f : FileF) (partons : Bool) (evs : List JEvent) (sel : Sel)
    (d : Option EvFilter) (L : Loaded) (hwf : WFJetscape f partons evs) (hv : sel.validFor evs.length = true)
    (hr : readJetscape f sel partons d = .ok L) (hkept : L.counts ≠ .empty) :
    particleListOk guard L.numEvents L.counts L.events = true := by
  rcases load_cases_jetscape guard f partons evs sel d L hwf hv hr with h | h
  · exact h
  · exact absurd h.1 hkept

/-- **full statement for a guarded `particle_list`**: once `BaseStorer.particle_list` returns `[]` for
`num_events_ == 0` (the driver reads this off the source on every run), `particle_list()` works on every
object loaded with a valid selector and any constructor filters. -/
theorem C02_particleList_full_of_guard : C02_particleList_full true := by
  constructor
  · intro f fmt attrs evs sel d L hwf hv hr
    rcases load_cases_oscar true f fmt attrs evs sel d L hwf hv hr with h | h
    · exact h
    · simp [particleListOk, particleList, h.2]
  · intro f partons evs sel d L hwf hv hr
    rcases load_cases_jetscape true f partons evs sel d L hwf hv hr with h | h
    · exact h
    · simp [particleListOk, particleList, h.2]

/-- **witness / monitor** (the code as it stands, `guard = false`): for EVERY well-formed Oscar file and valid
selector, if the constructor filters leave no event (every selected event was non-empty and is emptied), the
loader succeeds and `particle_list()` on the result raises `IndexError`. -/
theorem particleList_fails_when_nothing_kept (f : FileF) (fmt : Fmt) (attrs : List String) (evs : List OEvent)
    (sel : Sel) (d : EvFilter) (hwf : WFOscar f fmt attrs evs) (hv : sel.validFor evs.length = true)
    (hnone : ∀ L0, readOscar f sel none = .ok L0 → filterEvents d L0.events = .ok []) :
    ∃ L, readOscar f sel (some d) = .ok L ∧ L.events = [[]] ∧ L.numEvents = 0 ∧ L.counts = .empty ∧
      particleListOk false L.numEvents L.counts L.events = false := by
  rw [select_filter_oscar f fmt attrs evs sel d hwf hv, read_sel_oscar f fmt attrs evs sel hwf hv]
  have := hnone _ (read_sel_oscar f fmt attrs evs sel hwf hv)
  simp only [Except.bind, ctorFilter, this]
  exact ⟨_, rfl, rfl, rfl, rfl, rfl⟩

/-! ### the particle-object loader's list slicing -/

/-- **slice_spec**: for a valid selector `ParticleObjectLoader.set_particle_list` keeps exactly the events
`start … start+count-1` of the given list, in order (`[xs[k]]` resp. `xs[a:b+1]`) -/
theorem slice_spec {α : Type} (xs : List α) (sel : Sel) (hv : sel.validFor xs.length = true) :
    ∃ ys, sliceList xs sel = .ok ys ∧ ys.length = sel.count xs.length ∧
      ∀ i, i < ys.length → ys[i]? = xs[sel.start + i]? := by
  refine ⟨_, sliceList_spec xs sel hv, sliceList_length xs _ sel hv (sliceList_spec xs sel hv), ?_⟩
  intro i h
  have hlt : i < sel.count xs.length := by
    have := sliceList_length xs _ sel hv (sliceList_spec xs sel hv)
    omega
  rw [List.getElem?_take_of_lt hlt, List.getElem?_drop]

/-! ### non-vacuity -/

/-- the constructor-filter semantics on concrete data: events of sizes 2, 1, 0, 1 with labels 3..6 and a filter
keeping the particles on even line numbers: the second event (non-empty, emptied) is dropped, the third
(empty before) stays, labels are renumbered 3, 4, 5 -/
example :
    let L : Loaded := { events := [[⟨4, ["a"]⟩, ⟨5, ["b"]⟩], [⟨7, ["c"]⟩], [], [⟨12, ["d"]⟩]], numEvents := 4,
                        counts := .arr2d [(3, 2), (4, 1), (5, 0), (6, 1)], fmt := none, customAttrs := [], footers := [] }
    let d : EvFilter := fun e => .ok (e.filter (fun p => p.lineNo % 2 == 0))
    (ctorFilter d L).map (fun L' => (L'.events, L'.numEvents, L'.counts, particleList false L'.numEvents L'.counts L'.events))
      = .ok ([[⟨4, ["a"]⟩], [], [⟨12, ["d"]⟩]], 3, .arr2d [(3, 1), (4, 0), (5, 1)],
             .ok (.multi [[⟨4, ["a"]⟩], [], [⟨12, ["d"]⟩]])) := by
  rfl

/-- … and a filter that removes everything: `[[]]`, 0 events, empty counts, `particle_list()` raises without the
guard and returns `[]` with it -/
example :
    let L : Loaded := { events := [[⟨4, ["a"]⟩]], numEvents := 1, counts := .arr2d [(3, 1)], fmt := none,
                        customAttrs := [], footers := [] }
    (ctorFilter (fun _ => .ok []) L).map (fun L' => (L'.events, L'.numEvents, L'.counts,
        particleList false L'.numEvents L'.counts L'.events, particleList true L'.numEvents L'.counts L'.events))
      = .ok ([[]], 0, .empty, .error .index, .ok (.multi [])) := by
  rfl

example : sliceList [10, 11, 12, 13] (.range 1 2) = .ok [11, 12] ∧ (Sel.range 1 2).validFor 4 = true := ⟨rfl, rfl⟩

/-- a line with its observations written out (what `analyse` gives on `raw`; the driver re-computes them) -/
def mkLine (raw : String) (toks : List String) (hash event out outSp endd endSp : Bool) : LineF :=
  { raw := raw, toks := toks, toksTab := toks, hasHash := hash, hasEvent := event, hasOut := out, hasOutSp := outSp,
    hasInSp := false, hasSpIn := false, hasStart := false, hasEnd := endd, hasEndSp := endSp, hasSigma := false,
    hasWeight := false, hasEventCap := false, hasNHadrons := false, hasNPartons := false }

def exH0 := mkLine "#!ASCII particle_lists ID" ["#!ASCII", "particle_lists", "ID"] true false false false false false
def exH1 := mkLine "# Units: none" ["#", "Units:", "none"] true false false false false false
def exH2 := mkLine "# SMASH-3.1" ["#", "SMASH-3.1"] true false false false false false
def exOut (l n : String) := mkLine ("# event " ++ l ++ " out " ++ n) ["#", "event", l, "out", n] true true true true false false
def exEnd (l : String) := mkLine ("# event " ++ l ++ " end 0 impact   0.000 scattering_projectile_target yes")
  ["#", "event", l, "end", "0", "impact", "", "", "0.000", "scattering_projectile_target", "yes"] true true false false true true
def exPart := mkLine "1" ["1"] false false false false false false
def exEvs : List OEvent := [⟨exOut "0" "1", [exPart], exEnd "0"⟩, ⟨exOut "1" "0", [], exEnd "1"⟩]
def exFile : FileF := { lines := exH0 :: exH1 :: exH2 :: bodyLines exEvs, trailingNL := true }

/-- the well-formedness hypothesis is satisfiable: a two-event ASCII file (one particle, then an empty event).
`pyInt?` (Python's `int(tok)`, a `String` function the kernel cannot evaluate) enters through the two facts
`p0`, `p1`; the driver evaluates them (`pyint` op) and runs `checkOscar` on the real bytes of this very file
and of every generated file on each run. -/
theorem example_wf (p0 : pyInt? "0" = some 0) (p1 : pyInt? "1" = some 1) : WFOscar exFile .ascii ["ID"] exEvs := by
  refine ⟨exH0, exH1, exH2, rfl, ?_⟩
  have hfmt : oscarFormat exH0 = .ok (.ascii, ["ID"]) := by rfl
  simp only [wfOscarB, hfmt]
  simp [isPlainHdr, exH0, exH1, exH2, mkLine, exEvs, wfEvents, wfEvent, isOutLine, isEndLine, isPartLine,
    headerLike, exOut, exEnd, exPart, tokInt, p0, p1, colsOk, fieldsOk, colKinds, isPyInt]

/-- … and on it the theorems say something concrete: `events=1` loads the empty second event under label 1 -/
example (p0 : pyInt? "0" = some 0) (p1 : pyInt? "1" = some 1) :
    readOscar exFile (.one 1) none =
      .ok { events := [[]], numEvents := 1, counts := .arr2d [(1, 0)], fmt := some .ascii, customAttrs := ["ID"],
            footers := footersOf exEvs } := by
  rw [read_sel_oscar exFile .ascii ["ID"] exEvs (.one 1) (example_wf p0 p1) rfl]
  rfl

/-- … and a JETSCAPE file with one (empty) event -/
def exJ0 : LineF := mkLine "# JETSCAPE_FINAL_STATE v2" ["#", "JETSCAPE_FINAL_STATE", "v2"] true false false false false false
def exJHdr : LineF :=
  { mkLine "# Event 1 weight 1 EPangle 0 N_hadrons 0" ["#", "Event", "1", "weight", "1", "EPangle", "0", "N_hadrons", "0"]
      true false false false false false with hasWeight := true, hasEventCap := true, hasNHadrons := true }
def exJTr : LineF :=
  { mkLine "# sigmaGen 1 sigmaErr 0" ["#", "sigmaGen", "1", "sigmaErr", "0"] true false false false false false with
    hasSigma := true }
def exJFile : FileF := { lines := exJ0 :: jLines [⟨exJHdr, []⟩] exJTr, trailingNL := true }

theorem example_wf_jetscape (p0 : pyInt? "0" = some 0) (p1 : pyInt? "1" = some 1) :
    WFJetscape exJFile false [⟨exJHdr, []⟩] := by
  refine ⟨exJ0, exJTr, rfl, ?_⟩
  simp [wfJetscapeB, wfJEvents, wfJEvent, isJHdr, isJTrailer, defString, exJ0, exJHdr, exJTr, mkLine, tokInt, p0, p1]

end SparkxVerif.C02
