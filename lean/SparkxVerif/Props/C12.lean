/-
C12 — Flow estimates depend only on relative azimuthal geometry.

Property theorems only (helper lemmas: `Lemmas/Flow.lean`).  The functions spoken about
(`rpIntegrated`, `spIntegrated`, `epDifferential`, …) are the ones of `Core/Flow.lean` that the driver
executes at `Float`; here they are instantiated at `α := ℝ`, `κ := ℂ` with primitives `O : Ops ℝ ℂ`
that satisfy `StdOps O` (ofReal / re / conj / |·| / `== 0` on ℂ are the mathematical ones) and are
otherwise ARBITRARY: `sqrt`, `abs`, the event-plane resolution correction `res` (scipy `brentq` +
Bessel) and the comparisons `le`, `lt`, `isZero` are opaque functions — except in `rp_mean`,
`rp_perm_events`, `single_bin_rp`, where `isZero` has to be the genuine test.

Rendering of the statement:
* a particle is given by `u = exp(i n φ)`; `rotation_is_angle_shift` shows that `φ ↦ φ + a + 2π m`
  (any angle, any whole number of turns) is exactly multiplication of `u` by `phase n a = exp(i n a)`;
* "rotating all particles of any event (consistently in the flow and reference samples)":
  `rotateEvents n αs evs` multiplies every `u` of event `e` — flow and reference sample — by `phase n αs[e]`;
* "reordering particles within events": `Forall₂ PermParts evs evs'` (for the reaction plane `Forall₂ Perm`);
  "reordering events": `evs ~ evs'` (an event carries its flow and its reference particles);
* "values and their errors": the models return the pair (`vn`, `sigma`);
* weights `'pT','pT2','pTn'` (indeed any dispatch chain, any selector string, any harmonic), any gap,
  with/without self-correlation removal: all universally quantified.

NOT covered here: the Q-cumulant estimator's algebra (C11); Lee–Yang-zero and PCA numerics (selectors and
defaults only).  The event-plane angle and its error (3rd/4th component of the event-plane result) are
not flow values and do rotate.

Partial: for the event-plane estimator the rotation statement is FALSE on degenerate inputs
(`ep_rotate_full_false`): `arctan2(0,0) = 0` gives a vanishing Q-vector the fixed direction 0.
`ep_rotate` is proved on the explicit class `EPRegular`.
-/
import SparkxVerif.Lemmas.Flow
import SparkxVerif.Gen.FlowSelectors
import Mathlib.Tactic.NormNum

namespace SparkxVerif.C12
open SparkxVerif.Flow SparkxVerif.FlowSel SparkxVerif.Gen.FlowSelectors List

/-! ## Selectors and defaults — `decide` over the tables generated from the current source -/

def documented : List String := ["pT", "rapidity", "pseudorapidity"]
def documentedWeights : List String := ["pT", "pT2", "pTn"]
def estimators : List String :=
  ["ReactionPlaneFlow", "EventPlaneFlow", "ScalarProductFlow", "QCumulantFlow", "LeeYangZeroFlow", "PCAFlow"]

/-- every estimator's `differential_flow` accepts 'pT', 'rapidity', 'pseudorapidity'; every accepted
selector is interpreted by the dispatch chain; and the documented names select what they name -/
theorem selectors_ok :
    selectorSites.map (·.cls) = estimators ∧
    ∀ s ∈ selectorSites,
      (∀ x ∈ documented, x ∈ s.accepted) ∧ (∀ x ∈ s.accepted, (s.chain.lookup x).isSome = true) ∧
      s.chain.lookup "pT" = some Attr.pT ∧ s.chain.lookup "rapidity" = some Attr.y ∧
      s.chain.lookup "pseudorapidity" = some Attr.eta := by
  decide

/-- same for the `weight` argument of the event-plane and scalar-product estimators -/
theorem weights_ok :
    weightSites.map (·.cls) = ["EventPlaneFlow", "ScalarProductFlow"] ∧
    ∀ s ∈ weightSites,
      (∀ x ∈ documentedWeights, x ∈ s.accepted) ∧ (∀ x ∈ s.accepted, (s.chain.lookup x).isSome = true) ∧
      s.chain.lookup "pT" = some Attr.pT ∧ s.chain.lookup "pT2" = some (Attr.pTpow 2) ∧
      s.chain.lookup "pTn" = some Attr.pTpowN := by
  decide

/-- every default of every keyword parameter of `__init__` / `integrated_flow` / `differential_flow`
of the six estimators passes that function's own validation -/
theorem defaults_ok :
    allParams.map (·.1) = estimators ∧ ∀ cp ∈ allParams, ∀ p ∈ cp.2, p.defaultOk = true := by
  decide

/-! ## Symmetries -/

variable {O : Ops ℝ ℂ}

/-- rotate event `e` (flow and reference sample) by the angle `αs[e]` -/
noncomputable def rotateEvents (n : ℕ) (αs : List ℝ) (evs : List E) : List E :=
  List.zipWith (fun a e => e.rot (phase n a)) αs evs

theorem rotateEvents_eq (n : ℕ) (αs : List ℝ) (evs : List E) :
    rotateEvents n αs evs = List.zipWith Ev.rot (αs.map (phase n)) evs := by
  unfold rotateEvents; rw [List.zipWith_map_left]

/-- `φ ↦ φ + a + 2π m` on a particle is multiplication of its `u = exp(i n φ)` by `exp(i n a)` -/
theorem rotation_is_angle_shift (n : ℕ) (φ a : ℝ) (m : ℤ) (pt y eta : ℝ) (w : Option ℝ) :
    ({ u := phase n (φ + a + 2 * Real.pi * m), pt := pt, y := y, eta := eta, w := w } : P) =
      ({ u := phase n φ, pt := pt, y := y, eta := eta, w := w } : P).rot (phase n a) := by
  simp [Part.rot, phase_shift]

/-! ### Reaction plane -/

/-- the reaction-plane value is the weighted mean of `exp(i n φ)` over all particles of all events
(particle weights ≥ 0, not all zero) -/
theorem rp_mean (h : StdOps O) (hz : ∀ x, O.isZero x = decide (x = 0)) (evs : List (List P))
    (hw : ∀ p ∈ evs.flatten, 0 ≤ p.pw) (hne : (evs.flatten.map Part.pw).sum ≠ 0) :
    rpIntegrated O evs =
      some ((evs.flatten.map fun p => ((p.pw : ℝ) : ℂ) * p.u).sum / (((evs.flatten.map Part.pw).sum : ℝ) : ℂ)) := by
  rw [rpIntegrated_eq h hz evs (fun ev he p hp => hw p (List.mem_flatten.mpr ⟨ev, he, hp⟩)),
    sum_evW_flatten, sum_evS_flatten, if_neg hne]

/-- a common rotation by `a` multiplies the reaction-plane result (integrated and every bin of the
differential one) by exactly `exp(i n a)` — for all weights, no hypothesis -/
theorem rp_rotate (h : StdOps O) (n : ℕ) (a : ℝ) (evs : List (List P)) :
    rpIntegrated O (evs.map (List.map (Part.rot (phase n a)))) = (rpIntegrated O evs).map (phase n a * ·) ∧
    ∀ (site : Site) (sel : String) (edges : List ℝ),
      rpDifferential O site sel edges (evs.map (List.map (Part.rot (phase n a)))) =
        (rpDifferential O site sel edges evs).map (List.map (phase n a * ·)) :=
  ⟨rpIntegrated_rot h _ evs, fun site sel edges => rpDifferential_rot h site sel edges _ evs⟩

theorem rp_perm_particles (h : StdOps O) {evs evs' : List (List P)} (hp : Forall₂ Perm evs evs') :
    rpIntegrated O evs = rpIntegrated O evs' ∧
    ∀ (site : Site) (sel : String) (edges : List ℝ),
      rpDifferential O site sel edges evs = rpDifferential O site sel edges evs' :=
  ⟨rpIntegrated_perm_particles h hp, fun site sel edges => rpDifferential_perm_particles h site sel edges hp⟩

/-- reordering events: differential flow always; integrated flow for particle weights ≥ 0 (the
`number_particles != 0.0` branch inside the event loop makes the order matter otherwise) -/
theorem rp_perm_events (h : StdOps O) {evs evs' : List (List P)} (hp : evs ~ evs') :
    (∀ (site : Site) (sel : String) (edges : List ℝ),
      rpDifferential O site sel edges evs = rpDifferential O site sel edges evs') ∧
    ((∀ x, O.isZero x = decide (x = 0)) → (∀ ev ∈ evs, ∀ p ∈ ev, 0 ≤ p.pw) →
      rpIntegrated O evs = rpIntegrated O evs') :=
  ⟨fun site sel edges => rpDifferential_perm_events h site sel edges hp,
   fun hz hw => rpIntegrated_perm_events h hz hw hp⟩

/-! ### Scalar product -/

/-- per-event rotations applied to flow and reference sample leave value and error unchanged -/
theorem sp_rotate (h : StdOps O) (chain : List (String × Attr)) (n : ℕ) (weight : String) (gap : ℝ)
    (selfCorr : Bool) (αs : List ℝ) (evs : List E) (hl : αs.length = evs.length) :
    spIntegrated O (chainVal chain n weight) gap selfCorr (rotateEvents n αs evs) =
      spIntegrated O (chainVal chain n weight) gap selfCorr evs ∧
    ∀ (site : Site) (sel : String) (edges : List ℝ),
      spDifferential O (chainVal chain n weight) gap selfCorr site sel edges (rotateEvents n αs evs) =
        spDifferential O (chainVal chain n weight) gap selfCorr site sel edges evs := by
  have hl' : (αs.map (phase n)).length = evs.length := by simpa using hl
  have hc : ∀ c ∈ αs.map (phase n), ‖c‖ = 1 := by
    intro c hc; obtain ⟨a, _, rfl⟩ := List.mem_map.mp hc; exact phase_norm n a
  rw [rotateEvents_eq]
  exact ⟨spIntegrated_rot h (chainVal_rotInv _ _ _) gap selfCorr _ evs hl' hc,
    fun site sel edges => spDifferential_rot h (chainVal_rotInv _ _ _) gap selfCorr site sel edges _ evs hl' hc⟩

theorem sp_perm_particles (h : StdOps O) (wq : P → ℝ) (gap : ℝ) (selfCorr : Bool) {evs evs' : List E}
    (hp : Forall₂ PermParts evs evs') :
    spIntegrated O wq gap selfCorr evs = spIntegrated O wq gap selfCorr evs' ∧
    ∀ (site : Site) (sel : String) (edges : List ℝ),
      spDifferential O wq gap selfCorr site sel edges evs = spDifferential O wq gap selfCorr site sel edges evs' :=
  ⟨spIntegrated_perm_particles h wq gap selfCorr hp,
   fun site sel edges => spDifferential_perm_particles h wq gap selfCorr site sel edges hp⟩

theorem sp_perm_events (wq : P → ℝ) (gap : ℝ) (selfCorr : Bool) {evs evs' : List E} (hp : evs ~ evs') :
    spIntegrated O wq gap selfCorr evs = spIntegrated O wq gap selfCorr evs' ∧
    ∀ (site : Site) (sel : String) (edges : List ℝ),
      spDifferential O wq gap selfCorr site sel edges evs = spDifferential O wq gap selfCorr site sel edges evs' :=
  ⟨spIntegrated_perm_events wq gap selfCorr hp,
   fun site sel edges => spDifferential_perm_events wq gap selfCorr site sel edges hp⟩

/-! ### Event plane -/

/-- the statement as given, for the event-plane estimator -/
def ep_rotate_full : Prop :=
  ∀ (O : Ops ℝ ℂ), StdOps O → ∀ (chain : List (String × Attr)) (n : ℕ) (weight : String) (gap : ℝ)
    (selfCorr : Bool) (αs : List ℝ) (evs : List E), αs.length = evs.length →
    epIntegrated O (chainVal chain n weight) gap selfCorr (rotateEvents n αs evs) =
      epIntegrated O (chainVal chain n weight) gap selfCorr evs

/-- proved part: on `EPRegular` samples (in every reference event the two sub-event vectors vanish
together or not at all; no particle's self-corrected reference vector vanishes) -/
theorem ep_rotate (h : StdOps O) (chain : List (String × Attr)) (n : ℕ) (weight : String) (gap : ℝ)
    (selfCorr : Bool) (αs : List ℝ) (evs : List E) (hl : αs.length = evs.length)
    (hreg : ∀ e ∈ evs, EPRegular O (chainVal chain n weight) gap selfCorr e) :
    epIntegrated O (chainVal chain n weight) gap selfCorr (rotateEvents n αs evs) =
      epIntegrated O (chainVal chain n weight) gap selfCorr evs ∧
    ∀ (site : Site) (sel : String) (edges : List ℝ),
      epDifferential O (chainVal chain n weight) gap selfCorr site sel edges (rotateEvents n αs evs) =
        epDifferential O (chainVal chain n weight) gap selfCorr site sel edges evs := by
  have hl' : (αs.map (phase n)).length = evs.length := by simpa using hl
  have hc : ∀ c ∈ αs.map (phase n), ‖c‖ = 1 := by
    intro c hc; obtain ⟨a, _, rfl⟩ := List.mem_map.mp hc; exact phase_norm n a
  rw [rotateEvents_eq]
  exact ⟨epIntegrated_rot h (chainVal_rotInv _ _ _) gap selfCorr _ evs hl' hc hreg,
    fun site sel edges =>
      epDifferential_rot h (chainVal_rotInv _ _ _) gap selfCorr site sel edges _ evs hl' hc hreg⟩

theorem ep_perm_particles (h : StdOps O) (wq : P → ℝ) (gap : ℝ) (selfCorr : Bool) {evs evs' : List E}
    (hp : Forall₂ PermParts evs evs') :
    epIntegrated O wq gap selfCorr evs = epIntegrated O wq gap selfCorr evs' ∧
    ∀ (site : Site) (sel : String) (edges : List ℝ),
      epDifferential O wq gap selfCorr site sel edges evs = epDifferential O wq gap selfCorr site sel edges evs' :=
  ⟨epIntegrated_perm_particles h wq gap selfCorr hp,
   fun site sel edges => epDifferential_perm_particles h wq gap selfCorr site sel edges hp⟩

theorem ep_perm_events (wq : P → ℝ) (gap : ℝ) (selfCorr : Bool) {evs evs' : List E} (hp : evs ~ evs') :
    epIntegrated O wq gap selfCorr evs = epIntegrated O wq gap selfCorr evs' ∧
    ∀ (site : Site) (sel : String) (edges : List ℝ),
      epDifferential O wq gap selfCorr site sel edges evs = epDifferential O wq gap selfCorr site sel edges evs' :=
  ⟨epIntegrated_perm_events wq gap selfCorr hp,
   fun site sel edges => epDifferential_perm_events wq gap selfCorr site sel edges hp⟩

/-! ### A single bin containing every particle -/

/-- scalar product and event plane: one bin `[lo, hi)` that contains every particle of the flow sample
gives exactly the integrated (value, error) -/
theorem single_bin_eq_integrated (wq : P → ℝ) (gap : ℝ) (selfCorr : Bool) (site : Site) (sel : String)
    (hsel : sel ∈ site.accepted) (lo hi : ℝ) (evs : List E)
    (hall : ∀ e ∈ evs, ∀ p ∈ e.flow, inBin O (chainVal site.chain 0 sel) lo hi p = true) :
    spDifferential O wq gap selfCorr site sel [lo, hi] evs = some [spIntegrated O wq gap selfCorr evs] ∧
    epDifferential O wq gap selfCorr site sel [lo, hi] evs = some [epIntegrated O wq gap selfCorr evs] := by
  have hc : site.accepted.contains sel = true := List.contains_iff_mem.mpr hsel
  unfold spDifferential epDifferential spIntegrated epIntegrated
  simp only [hc, Bool.not_true, Bool.false_eq_true, if_false, binPairs_two, List.map_cons, List.map_nil,
    restrict_all (lo, hi) evs hall]
  exact ⟨trivial, trivial⟩

/-- reaction plane: same, for particle weights ≥ 0 that are not all zero -/
theorem single_bin_rp (h : StdOps O) (hz : ∀ x, O.isZero x = decide (x = 0)) (site : Site) (sel : String)
    (hsel : sel ∈ site.accepted) (lo hi : ℝ) (evs : List (List P))
    (hall : ∀ ev ∈ evs, ∀ p ∈ ev, inBin O (chainVal site.chain 0 sel) lo hi p = true)
    (hw : ∀ ev ∈ evs, ∀ p ∈ ev, 0 ≤ p.pw) (hne : (evs.map evW).sum ≠ 0) :
    ∃ z, rpIntegrated O evs = some z ∧ rpDifferential O site sel [lo, hi] evs = some [z] := by
  refine ⟨(evs.map evS).sum / (((evs.map evW).sum : ℝ) : ℂ), ?_, ?_⟩
  · rw [rpIntegrated_eq h hz evs hw, if_neg hne]
  · have hc : site.accepted.contains sel = true := List.contains_iff_mem.mpr hsel
    unfold rpDifferential
    simp only [hc, Bool.not_true, Bool.false_eq_true, if_false, binPairs_two, List.map_cons, List.map_nil]
    have hf : evs.map (fun ev => ev.filter (inBin O (chainVal site.chain 0 sel) lo hi)) = evs := by
      conv_rhs => rw [← List.map_id evs]
      apply List.map_congr_left
      intro ev he
      exact List.filter_eq_self.mpr (hall ev he)
    rw [hf, rpBin_eq h, hz]
    simp [hne]

/-! ## The event-plane rotation statement fails on degenerate input (monitor, not an obligation) -/

/-- one event, one particle, `self_corr = True`: the self-corrected reference vector is `0`, its
"direction" is the fixed angle 0, and the flow value `cos(n φ)` changes sign under the rotation by π -/
theorem ep_rotate_full_false : ¬ ep_rotate_full := by
  intro hfull
  let p : P := { u := 1, pt := 1, y := 0, eta := 1, w := none }
  have := hfull (realOps (fun _ => 1)) (realOps_std _) [("pT", Attr.pT)] 1 "pT" 0 true [Real.pi]
    [{ flow := [p], ref := [p] }] rfl
  have hph : phase 1 Real.pi = -1 := by
    unfold phase; simp [Complex.exp_pi_mul_I]
  have h1 := congrArg Prod.fst this
  simp [rotateEvents, hph, epIntegrated, epWith, epFlows, epResolution, qSum, qMinusSelf, dir, eventAverage,
    sumL, npow, realOps, chainVal, attrVal, Part.pw, Ev.rot, Part.rot, List.lookup, p] at h1
  norm_num at h1

/-! ## Non-vacuity: the hypotheses are satisfiable by concrete non-trivial objects -/

/-- `StdOps` is inhabited (with the genuine zero test), for any resolution correction -/
example (res : ℝ → ℝ) : StdOps (realOps res) ∧ ∀ x, (realOps res).isZero x = decide (x = 0) :=
  ⟨realOps_std res, fun _ => rfl⟩

/-- a two-particle event (one particle in each sub-event, different directions) is `EPRegular` -/
example : EPRegular (realOps id) (chainVal [("pT", Attr.pT)] 2 "pT") 0 true
    { flow := [{ u := 1, pt := 1, y := 0, eta := 1, w := none }, { u := Complex.I, pt := 2, y := 0, eta := -1, w := some 3 }],
      ref := [{ u := 1, pt := 1, y := 0, eta := 1, w := none }, { u := Complex.I, pt := 2, y := 0, eta := -1, w := some 3 }] } := by
  constructor
  · simp [epSubQ, qSum, sumL, npow, realOps, chainVal, attrVal, inA, inB, List.lookup]
  · intro p hp
    simp only [List.mem_cons, List.not_mem_nil, or_false] at hp
    rcases hp with rfl | rfl <;>
      simp [qMinusSelf, qSum, realOps, chainVal, attrVal, List.lookup, Complex.ext_iff]

/-- the hypotheses of `rp_mean` / `single_bin_rp` hold for a sample with set and unset weights -/
example : let evs : List (List P) :=
      [[{ u := 1, pt := 1, y := 0, eta := 1, w := none }], [], [{ u := Complex.I, pt := 2, y := 0, eta := -1, w := some 3 }]]
    (∀ p ∈ evs.flatten, 0 ≤ p.pw) ∧ (evs.flatten.map Part.pw).sum ≠ 0 := by
  intro evs
  constructor
  · intro p hp
    simp only [evs, List.flatten_cons, List.flatten_nil, List.cons_append, List.nil_append, List.mem_cons,
      List.not_mem_nil, or_false] at hp
    rcases hp with rfl | rfl <;> simp [Part.pw]
  · simp [evs, Part.pw]; norm_num

end SparkxVerif.C12
