/-
C07 over the rendered TEXT (line-granular damage).  `Props/C07.lean` states the property for files well-formed *as observed*
(`OFile.wf`, `JFile.wf`).  Here the hypothesis is discharged for the text rendered by the file grammar of `Core/Render.lean`
(classification `Lemmas/Classify*.lean`, bridge `Lemmas/ClassifyDamage.lean`): the lines of `Proto.fileOfText (oscarText F)`
are the lines of `ofileOf F`, which is `wf`.  Two side conditions the C01 grammar does not need appear: the free header
lines 2 and 3 must not look like an event line to `set_num_events` (`hdrNotEvent`), the first JETSCAPE line must not contain
`sigmaGen` — a file cut right behind such a line would be accepted.
The byte-granular statements for rendered text are in `Props/C07/Bytes.lean` (`oscar_truncated_bytes_text`,
`jetscape_truncated_bytes_text`).
-/
import SparkxVerif.Props.C07
import SparkxVerif.Lemmas.ClassifyDamage

namespace SparkxVerif.C07.Text
open SparkxVerif.Rd SparkxVerif.Rd.Dmg SparkxVerif.Bridge

/-! ### the hypotheses of `Props/C07.lean` hold for rendered text -/

theorem oscar_text_wf (F : OscarSpec) (hg : grammarOscar F = true) (hwf : wfOscar F) (hh : hdrNotEvent F = true) :
    (Proto.fileOfText (oscarText F)).lines = (ofileOf F).lines ∧ (ofileOf F).wf F.fmt (attrsOf F) = true :=
  ⟨fileOfText_lines_ofileOf F hg, ofileOf_wf F hg hwf hh⟩

theorem jetscape_text_wf (F : JetSpec) (hg : grammarJet F = true) (hwf : wfJetSeq F) (hs : hasSub F.h1 "sigmaGen" = false) :
    (Proto.fileOfText (jetText F)).lines = (jfileOf F).lines ∧ (jfileOf F).wf F.partons = true :=
  ⟨fileOfText_lines_jfileOf F hg, jfileOf_wf F hg hwf hs⟩

/-- number of lines of the first `k` blocks -/
theorem blocksLines_length (es : List Rd.OEvent) :
    (blocksLines (es.map blockOf)).length = (es.map (fun e => e.parts.length + 2)).sum := by
  induction es with
  | nil => rfl
  | cons e es ih =>
    simp only [List.map_cons, blocksLines, List.flatMap_cons, List.length_append, List.sum_cons] at ih ⊢
    rw [ih]; simp [Block.lines, blockOf]

/-- file line (0-based) of particle `p` of event `k` of the rendered text: three header lines, the complete events before,
the `out` line -/
theorem partPos_ofileOf (F : OscarSpec) (k p : Nat) :
    (ofileOf F).partPos k p = 3 + ((F.events.take k).map (fun e => e.parts.length + 2)).sum + 1 + p := by
  simp only [OFile.partPos, OFile.endPos, ofileOf, ← List.map_take, blocksLines_length]

theorem jblocksLines_length (es : List Rd.JEvent) :
    (jblocksLines (es.map jblockOf)).length = (es.map (fun e => e.parts.length + 1)).sum := by
  induction es with
  | nil => rfl
  | cons e es ih =>
    simp only [List.map_cons, jblocksLines, List.flatMap_cons, List.length_append, List.sum_cons] at ih ⊢
    rw [ih]; simp [JBlock.lines, jblockOf]

theorem partPos_jfileOf (F : JetSpec) (k p : Nat) :
    (jfileOf F).partPos k p = 1 + ((F.events.take k).map (fun e => e.parts.length + 1)).sum + 1 + p := by
  simp only [JFile.partPos, JFile.headPos, jfileOf, ← List.map_take, jblocksLines_length]

/-! ### Oscar -/

section oscar
variable (F : OscarSpec) (hg : grammarOscar F = true) (hwf : wfOscar F) (hh : hdrNotEvent F = true)
include hg hwf hh

/-- **a particle line of the rendered text is lost** → `IndexError` (every event `k`, every particle `p` of it) -/
theorem oscar_deleted_line_text (k p : Nat) (e : Rd.OEvent) (he : F.events[k]? = some e) (hp : p < e.parts.length)
    (nl : Bool) :
    readOscar ⟨deleteLine (Proto.fileOfText (oscarText F)).lines ((ofileOf F).partPos k p), nl⟩ .all none = .error .index := by
  rw [fileOfText_lines_ofileOf F hg]
  exact C07.oscar_deleted_line _ _ _ (ofileOf_wf F hg hwf hh) k p (blockOf e) _
    (by simp [ofileOf, he]) (by simp [blockOf, List.getElem?_eq_getElem hp]; rfl) nl

/-- **a particle line of the rendered text appears twice** → `IndexError` -/
theorem oscar_duplicated_line_text (k p : Nat) (e : Rd.OEvent) (he : F.events[k]? = some e) (hp : p < e.parts.length)
    (nl : Bool) :
    readOscar ⟨dupLine (Proto.fileOfText (oscarText F)).lines ((ofileOf F).partPos k p), nl⟩ .all none = .error .index := by
  rw [fileOfText_lines_ofileOf F hg]
  exact C07.oscar_duplicated_line _ _ _ (ofileOf_wf F hg hwf hh) k p (blockOf e) _
    (by simp [ofileOf, he]) (by simp [blockOf, List.getElem?_eq_getElem hp]; rfl) nl

/-- the same through the constructor (`Oscar(path)`: load + `impact_parameter` bookkeeping) -/
theorem oscar_ctor_deleted_line_text (k p : Nat) (e : Rd.OEvent) (he : F.events[k]? = some e) (hp : p < e.parts.length)
    (nl : Bool) :
    oscarCtor ⟨deleteLine (Proto.fileOfText (oscarText F)).lines ((ofileOf F).partPos k p), nl⟩ = .error .index := by
  rw [fileOfText_lines_ofileOf F hg]
  exact C07.oscar_ctor_deleted_line _ _ _ (ofileOf_wf F hg hwf hh) k p (blockOf e) _
    (by simp [ofileOf, he]) (by simp [blockOf, List.getElem?_eq_getElem hp]; rfl) nl

theorem oscar_ctor_duplicated_line_text (k p : Nat) (e : Rd.OEvent) (he : F.events[k]? = some e) (hp : p < e.parts.length)
    (nl : Bool) :
    oscarCtor ⟨dupLine (Proto.fileOfText (oscarText F)).lines ((ofileOf F).partPos k p), nl⟩ = .error .index := by
  rw [fileOfText_lines_ofileOf F hg]
  exact C07.oscar_ctor_duplicated_line _ _ _ (ofileOf_wf F hg hwf hh) k p (blockOf e) _
    (by simp [ofileOf, he]) (by simp [blockOf, List.getElem?_eq_getElem hp]; rfl) nl

/-- **the rendered text is cut at a line boundary** (any number `j` of surviving lines, with or without the newline
character): the loader fails, or the cut is exactly behind the `end` line of event `m-1` and exactly the `m ≥ 1` complete
events are returned -/
theorem oscar_truncated_lines_text (j : Nat) (hj : j ≤ (Proto.fileOfText (oscarText F)).lines.length) (nl : Bool) :
    (∃ e, readOscar ⟨(Proto.fileOfText (oscarText F)).lines.take j, nl⟩ .all none = .error e) ∨
    (∃ m L, 1 ≤ m ∧ m ≤ F.events.length ∧ j = 3 + ((F.events.take m).map (fun e => e.parts.length + 2)).sum ∧
      readOscar ⟨(Proto.fileOfText (oscarText F)).lines.take j, nl⟩ .all none = .ok L ∧ (ofileOf F).agrees m L) := by
  rw [fileOfText_lines_ofileOf F hg] at hj ⊢
  rcases C07.oscar_truncated_lines _ _ _ (ofileOf_wf F hg hwf hh) j hj nl with h | ⟨m, L, h1, h2, h3, h4, h5⟩
  · exact Or.inl h
  · refine Or.inr ⟨m, L, h1, by simpa [ofileOf] using h2, ?_, h4, h5⟩
    rw [h3]
    simp only [OFile.endPos, ofileOf, ← List.map_take, blocksLines_length]

end oscar

/-! ### JETSCAPE -/

section jetscape
variable (F : JetSpec) (hg : grammarJet F = true) (hwf : wfJetSeq F) (hs : hasSub F.h1 "sigmaGen" = false)
include hg hwf hs

theorem jetscape_deleted_line_text (k p : Nat) (e : Rd.JEvent) (he : F.events[k]? = some e) (hp : p < e.parts.length)
    (nl : Bool) :
    readJetscape ⟨deleteLine (Proto.fileOfText (jetText F)).lines ((jfileOf F).partPos k p), nl⟩ .all F.partons none
      = .error .index := by
  rw [fileOfText_lines_jfileOf F hg]
  exact C07.jetscape_deleted_line _ _ (jfileOf_wf F hg hwf hs) k p (jblockOf e) _
    (by simp [jfileOf, he]) (by simp [jblockOf, List.getElem?_eq_getElem hp]; rfl) nl

theorem jetscape_duplicated_line_text (k p : Nat) (e : Rd.JEvent) (he : F.events[k]? = some e) (hp : p < e.parts.length)
    (nl : Bool) :
    readJetscape ⟨dupLine (Proto.fileOfText (jetText F)).lines ((jfileOf F).partPos k p), nl⟩ .all F.partons none
      = .error .index := by
  rw [fileOfText_lines_jfileOf F hg]
  exact C07.jetscape_duplicated_line _ _ (jfileOf_wf F hg hwf hs) k p (jblockOf e) _
    (by simp [jfileOf, he]) (by simp [jblockOf, List.getElem?_eq_getElem hp]; rfl) nl

theorem jetscape_ctor_deleted_line_text (k p : Nat) (e : Rd.JEvent) (he : F.events[k]? = some e) (hp : p < e.parts.length)
    (nl : Bool) :
    jetscapeCtor ⟨deleteLine (Proto.fileOfText (jetText F)).lines ((jfileOf F).partPos k p), nl⟩ F.partons = .error .index := by
  rw [fileOfText_lines_jfileOf F hg]
  exact C07.jetscape_ctor_deleted_line _ _ (jfileOf_wf F hg hwf hs) k p (jblockOf e) _
    (by simp [jfileOf, he]) (by simp [jblockOf, List.getElem?_eq_getElem hp]; rfl) nl

theorem jetscape_ctor_duplicated_line_text (k p : Nat) (e : Rd.JEvent) (he : F.events[k]? = some e) (hp : p < e.parts.length)
    (nl : Bool) :
    jetscapeCtor ⟨dupLine (Proto.fileOfText (jetText F)).lines ((jfileOf F).partPos k p), nl⟩ F.partons = .error .index := by
  rw [fileOfText_lines_jfileOf F hg]
  exact C07.jetscape_ctor_duplicated_line _ _ (jfileOf_wf F hg hwf hs) k p (jblockOf e) _
    (by simp [jfileOf, he]) (by simp [jblockOf, List.getElem?_eq_getElem hp]; rfl) nl

/-- **every proper line prefix of the rendered JETSCAPE text is rejected** -/
theorem jetscape_truncated_lines_text (j : Nat) (hj : j < (Proto.fileOfText (jetText F)).lines.length) (nl : Bool) :
    ∃ e, readJetscape ⟨(Proto.fileOfText (jetText F)).lines.take j, nl⟩ .all F.partons none = .error e := by
  rw [fileOfText_lines_jfileOf F hg] at hj ⊢
  exact C07.jetscape_truncated_lines _ _ (jfileOf_wf F hg hwf hs) j hj nl

end jetscape

end SparkxVerif.C07.Text
