/-
C07 over the rendered TEXT, byte-granular: the file is cut after ANY number of bytes.  `Props/C07.lean` proves the statement
for observed lines under four hypotheses on the observations of the cut line (`prefixHyp` / `jprefixHyp`) and leaves
`oscar_truncated_bytes` / `jetscape_truncated_bytes` as `def`s.  Here the hypotheses are PROVED for every prefix of every line
the file grammar of `Core/Render.lean` renders (`Lemmas/ClassifyPrefixHyp*.lean`), and the cut text is related to the cut line
list (`Lemmas/ClassifyCut.lean`), so the statements below have no hypothesis about any string function.
Side conditions beyond the C01 grammar: `hdrCutSafe F` (no prefix of the two free header lines is an event line for
`set_num_events`; the property is false without it, see its docstring) resp. no `sigmaGen` in the first JETSCAPE line.
"Byte" = character: `Dmg.takeBytes` cuts the character list; the texts of the grammar are ASCII (`Lemmas/ClassifyAscii.lean`).
-/
import SparkxVerif.Props.C07.Text
import SparkxVerif.Lemmas.ClassifyAscii

namespace SparkxVerif.C07.Text
open SparkxVerif.Rd SparkxVerif.Rd.Dmg SparkxVerif.Bridge

/-- lines up to and including the `end` line of event `m-1` of the rendered text -/
theorem endPos_ofileOf (F : OscarSpec) (m : Nat) :
    (ofileOf F).endPos m = 3 + ((F.events.take m).map (fun e => e.parts.length + 2)).sum := by
  simp only [OFile.endPos, ofileOf, ← List.map_take, blocksLines_length]

/-- **The rendered Oscar text cut after ANY number `n` of bytes**: the loader fails, or it returns exactly the `m ≥ 1` complete
events that precede the cut — `num_events = m`, counts matching — and then the cut file consists of the `endPos m` lines of
these events (the last one, the `end` line of event `m-1`, possibly cut but still containing `end`) and at most one further,
partial line (the next `out` line).  Every specification of the grammar, any number of events / particles, every `n`. -/
theorem oscar_truncated_bytes_text (F : OscarSpec) (hg : grammarOscar F = true) (hwf : wfOscar F) (hh : hdrCutSafe F = true)
    (n : Nat) :
    (∃ e, readOscar (Proto.fileOfText (takeBytes (oscarText F) n)) .all none = .error e) ∨
    (∃ m L, 1 ≤ m ∧ m ≤ F.events.length ∧
      readOscar (Proto.fileOfText (takeBytes (oscarText F) n)) .all none = .ok L ∧ (ofileOf F).agrees m L ∧
      (ofileOf F).endPos m ≤ (Proto.fileOfText (takeBytes (oscarText F) n)).lines.length ∧
      (Proto.fileOfText (takeBytes (oscarText F) n)).lines.length ≤ (ofileOf F).endPos m + 1) := by
  have hW := ofileOf_wf F hg hwf (hdrNotEvent_of_cutSafe hh)
  have hlen : (ofileOf F).evs.length = F.events.length := by simp [ofileOf]
  obtain ⟨hc, h2, h3, n2, n3, e3, hev⟩ := grammarOscar_unpack hg
  have hne : oscarLinesText F ≠ [] := by simp [oscarLinesText]
  have hnl : ∀ l ∈ oscarLinesText F, '\n' ∉ l.toList := by
    intro l hl
    simp only [oscarLinesText, List.cons_append, List.nil_append, List.mem_cons, List.mem_flatMap] at hl
    rcases hl with rfl | rfl | rfl | ⟨e, he, hl⟩
    · exact headLine_no_nl F hc
    · exact n2
    · exact n3
    · exact eventLines_no_nl (hev e he) l hl
  have hL : (ofileOf F).lines = (oscarLinesText F).map analyse := ofileOf_lines F
  -- line-granular outcome, in the shape of the conclusion
  have lineCase : ∀ (j : Nat) (nl : Bool), j ≤ (oscarLinesText F).length →
      (∃ e, readOscar ⟨((oscarLinesText F).take j).map analyse, nl⟩ .all none = .error e) ∨
      (∃ m L, 1 ≤ m ∧ m ≤ F.events.length ∧
        readOscar ⟨((oscarLinesText F).take j).map analyse, nl⟩ .all none = .ok L ∧ (ofileOf F).agrees m L ∧
        (ofileOf F).endPos m ≤ (((oscarLinesText F).take j).map analyse).length ∧
        (((oscarLinesText F).take j).map analyse).length ≤ (ofileOf F).endPos m + 1) := by
    intro j nl hj
    have hjl : (((oscarLinesText F).take j).map analyse).length = j := by simp; omega
    rw [hjl, List.map_take, ← hL]
    rcases C07.oscar_truncated_lines _ _ _ hW j (by rw [hL]; simpa using hj) nl with h | ⟨m, L, h1, h2', h3', h4, h5⟩
    · exact Or.inl h
    · exact Or.inr ⟨m, L, h1, hlen ▸ h2', h4, h5, by omega, by omega⟩
  unfold oscarText
  obtain ⟨j, hj, hcase | ⟨q, hjlt, hq0, hq, hcase⟩⟩ := fileOfText_takeBytes (oscarLinesText F) F.trailingNL hne hnl n
  · rw [hcase]; exact lineCase j _ hj
  · rw [hcase]
    have hs : (oscarLinesText F)[j]? = some ((oscarLinesText F).getD j "") := by
      simp [List.getD_eq_getElem?_getD, List.getElem?_eq_getElem hjlt]
    by_cases hfull : q = ((oscarLinesText F).getD j "").toList.length
    · -- the whole line survives, without its newline
      have : ((oscarLinesText F).take j).map analyse ++ [analyse (prefixOf ((oscarLinesText F).getD j "") q)] =
          ((oscarLinesText F).take (j + 1)).map analyse := by
        rw [prefixOf_full _ (by omega), List.take_add_one, hs]
        simp
      rw [this]; exact lineCase (j + 1) _ hjlt
    · have hP := prefixHyp_text F hg hwf hh j _ hs q hq0
      have hjl : j < (ofileOf F).lines.length := by rw [hL]; simpa using hjlt
      have hlenj : (((oscarLinesText F).take j).map analyse ++ [analyse (prefixOf ((oscarLinesText F).getD j "") q)]).length
          = j + 1 := by simp; omega
      rw [hlenj]
      have := C07.oscar_truncated_bytes_partial _ _ _ hW j hjl _ hP false
      rw [hL, ← List.map_take] at this
      rcases this with h | ⟨m, L, h1, h2', h3', h4, h5⟩ | ⟨m, L, h1, h2', h3', _, h4, h5⟩
      · exact Or.inl h
      · exact Or.inr ⟨m, L, h1, hlen ▸ h2', h4, h5, by omega, by omega⟩
      · exact Or.inr ⟨m, L, h1, hlen ▸ h2', h4, h5, by omega, by omega⟩

/-- **The rendered JETSCAPE text cut after ANY number `n` of bytes**: the loader fails, or it returns all events of the file
with matching counts (and then every event is intact: the cut lies inside the `sigmaGen` trailer, behind `sigmaGen`, or behind
it). -/
theorem jetscape_truncated_bytes_text (F : JetSpec) (hg : grammarJet F = true) (hwf : wfJetSeq F)
    (hs : hasSub F.h1 "sigmaGen" = false) (n : Nat) :
    (∃ e, readJetscape (Proto.fileOfText (takeBytes (jetText F) n)) .all F.partons none = .error e) ∨
    (∃ L, readJetscape (Proto.fileOfText (takeBytes (jetText F) n)) .all F.partons none = .ok L ∧ (jfileOf F).agrees L ∧
      (jetLinesText F).length ≤ (Proto.fileOfText (takeBytes (jetText F) n)).lines.length) := by
  have hW := jfileOf_wf F hg hwf hs
  obtain ⟨hk, n1, s1, f1, s2, f2, ⟨sep, hsep, htr⟩, hev⟩ := grammarJet_unpack hg
  have hne : jetLinesText F ≠ [] := by simp [jetLinesText]
  have hnl : ∀ l ∈ jetLinesText F, '\n' ∉ l.toList := by
    intro l hl
    simp only [jetLinesText, List.mem_cons, List.mem_append, List.mem_flatMap, List.not_mem_nil, or_false] at hl
    rcases hl with rfl | ⟨e, he, hl⟩ | rfl
    · exact n1
    · exact jetEventLines_no_nl (hev e he) l (by simpa using hl)
    · rw [htr]
      intro hm
      have := jetTrailer_alphabet hsep s1 s2 _ hm
      revert this; decide
  have hL : (jfileOf F).lines = (jetLinesText F).map analyse := jfileOf_lines F
  have hlenL : (jfileOf F).lines.length = (jetLinesText F).length := by rw [hL]; simp
  have lineCase : ∀ (j : Nat) (nl : Bool), j ≤ (jetLinesText F).length →
      (∃ e, readJetscape ⟨((jetLinesText F).take j).map analyse, nl⟩ .all F.partons none = .error e) ∨
      (∃ L, readJetscape ⟨((jetLinesText F).take j).map analyse, nl⟩ .all F.partons none = .ok L ∧ (jfileOf F).agrees L ∧
        (jetLinesText F).length ≤ (((jetLinesText F).take j).map analyse).length) := by
    intro j nl hj
    rcases Nat.lt_or_ge j (jetLinesText F).length with hlt | hge
    · left
      rw [List.map_take, ← hL]
      exact C07.jetscape_truncated_lines _ _ hW j (by rw [hlenL]; exact hlt) nl
    · right
      rw [List.take_of_length_le hge, ← hL]
      obtain ⟨L, hL1, hL2⟩ := C07.jetscape_wf_loads _ _ hW nl
      exact ⟨L, hL1, hL2, by rw [hlenL]; exact Nat.le_refl _⟩
  unfold jetText
  obtain ⟨j, hj, hcase | ⟨q, hjlt, hq0, hq, hcase⟩⟩ := fileOfText_takeBytes (jetLinesText F) F.trailingNL hne hnl n
  · rw [hcase]; exact lineCase j _ hj
  · rw [hcase]
    have hsj : (jetLinesText F)[j]? = some ((jetLinesText F).getD j "") := by
      simp [List.getD_eq_getElem?_getD, List.getElem?_eq_getElem hjlt]
    by_cases hfull : q = ((jetLinesText F).getD j "").toList.length
    · have : ((jetLinesText F).take j).map analyse ++ [analyse (prefixOf ((jetLinesText F).getD j "") q)] =
          ((jetLinesText F).take (j + 1)).map analyse := by
        rw [prefixOf_full _ (by omega), List.take_add_one, hsj]
        simp
      rw [this]; exact lineCase (j + 1) _ hjlt
    · have hP := jprefixHyp_text F hg hs j _ hsj q
      have hjl : j < (jfileOf F).lines.length := by rw [hlenL]; exact hjlt
      have := C07.jetscape_truncated_bytes_partial _ _ hW j hjl _ hP false
      rw [hL, ← List.map_take] at this
      rcases this with h | ⟨hlast, L, h4, h5⟩
      · exact Or.inl h
      · refine Or.inr ⟨L, h4, h5, ?_⟩
        simp only [List.length_append, List.length_map, List.length_take, List.length_cons, List.length_nil]
        simp only [List.length_map] at hlast; omega

end SparkxVerif.C07.Text

/-! ### "byte" = character: the texts of the grammar are ASCII -/

namespace SparkxVerif.C07.Text
open SparkxVerif.Rd SparkxVerif.Rd.Dmg

/-- the UTF-8 bytes of `takeBytes (oscarText F) n` are the first `n` bytes of the file, and the file has as many bytes as
characters — so `n` in `oscar_truncated_bytes_text` is a byte offset (free header lines ASCII; the rest is ASCII by the grammar) -/
theorem oscar_takeBytes_is_byte_prefix (F : OscarSpec) (hg : grammarOscar F = true) (h2a : isAsciiStr F.h2 = true)
    (h3a : isAsciiStr F.h3 = true) (n : Nat) :
    (takeBytes (oscarText F) n).toByteArray.data.toList = (oscarText F).toByteArray.data.toList.take n ∧
    (oscarText F).utf8ByteSize = (oscarText F).toList.length :=
  takeBytes_bytes (oscarText_ascii F hg h2a h3a) n

theorem jetscape_takeBytes_is_byte_prefix (F : JetSpec) (hg : grammarJet F = true) (h1a : isAsciiStr F.h1 = true) (n : Nat) :
    (takeBytes (jetText F) n).toByteArray.data.toList = (jetText F).toByteArray.data.toList.take n ∧
    (jetText F).utf8ByteSize = (jetText F).toList.length :=
  takeBytes_bytes (jetText_ascii F hg h1a) n

end SparkxVerif.C07.Text

/-! ### the side conditions are satisfiable: concrete specifications, evaluated by the kernel -/

namespace SparkxVerif.C07.Text
open SparkxVerif.Rd SparkxVerif.Rd.Dmg SparkxVerif.Bridge

/-- three events, the middle one empty, ASCII columns in a non-standard order, SMASH's own header lines -/
def exOscar : OscarSpec :=
  { fmt := .ascii, cols := ["pz", "pdg", "t"], h2 := "# Units: GeV none fm", h3 := "# SMASH-3.1",
    events := [⟨0, [["1.5", "211", "0.1"], ["-2e-3", "-211", "7"]], "# event 0 end 0 impact   1.500 scattering_projectile_target yes", "1.500"⟩,
               ⟨1, [], "# event 1 end 0 impact   0.000 scattering_projectile_target no", "0.000"⟩,
               ⟨2, [["0.25", "2212", "12."]], "# event 2 end 0 impact  -1.000 scattering_projectile_target no", "-1.000"⟩],
    trailingNL := true }

theorem exOscar_wf : wfOscar exOscar := by
  refine ⟨by simp [exOscar], ?_, by simp only [exOscar]; decide⟩
  intro i h
  have : i < 3 := by simpa [exOscar] using h
  match i, this with
  | 0, _ => rfl
  | 1, _ => rfl
  | 2, _ => rfl

theorem exOscar_cutSafe : hdrCutSafe exOscar = true := by decide

example : isAsciiStr exOscar.h2 = true ∧ isAsciiStr exOscar.h3 = true := by decide

/-- every byte prefix of this 259-byte file: an error, or exactly the complete events before the cut -/
example (n : Nat) :
    (∃ e, readOscar (Proto.fileOfText (takeBytes (oscarText exOscar) n)) .all none = .error e) ∨
    (∃ m L, 1 ≤ m ∧ m ≤ 3 ∧ readOscar (Proto.fileOfText (takeBytes (oscarText exOscar) n)) .all none = .ok L ∧
      (ofileOf exOscar).agrees m L) := by
  rcases oscar_truncated_bytes_text exOscar (by decide) exOscar_wf exOscar_cutSafe n with h | ⟨m, L, h1, h2, h3, h4, _⟩
  · exact Or.inl h
  · exact Or.inr ⟨m, L, h1, h2, h3, h4⟩

/-- the side condition is needed: with this version line the three-line prefix of the file is an event line for
`set_num_events` (`num_events = -1 + 1 = 0`) -/
example : lineCutSafe "# event -1" = false := by decide

def exJet : JetSpec :=
  { partons := true, h1 := "#\tJETSCAPE_FINAL_STATE\tv2\t|\tN\tpid\tstatus\tE\tPx\tPy\tPz",
    events := [⟨1, [], "# Event 1 weight 1 EPangle 0 N_partons 0"⟩,
               ⟨2, [["0", "2203", "0", "5.0", "1.0", "2.0", "3.0"], ["1", "21", "0", "2.5", "0.0", "0.0", "2.5"]],
                "# Event 2 weight 1 EPangle 0 N_partons 2"⟩],
    trailer := "#\tsigmaGen\t0.1\tsigmaErr\t0.01", sigma := ("0.1", "0.01"), trailingNL := false }

theorem exJet_wf : wfJetSeq exJet := by
  refine ⟨by simp [exJet], ?_⟩
  intro i h
  have : i < 2 := by simpa [exJet] using h
  match i, this with
  | 0, _ => rfl
  | 1, _ => rfl

example (n : Nat) :
    (∃ e, readJetscape (Proto.fileOfText (takeBytes (jetText exJet) n)) .all true none = .error e) ∨
    (∃ L, readJetscape (Proto.fileOfText (takeBytes (jetText exJet) n)) .all true none = .ok L ∧ (jfileOf exJet).agrees L) := by
  rcases jetscape_truncated_bytes_text exJet (by decide) exJet_wf (by decide) n with h | ⟨L, h1, h2, _⟩
  · exact Or.inl h
  · exact Or.inr ⟨L, h1, h2⟩

end SparkxVerif.C07.Text
