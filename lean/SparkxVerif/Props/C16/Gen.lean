/-
C16, tie T: the property theorems of `Props/C16.lean` restated about the function GENERATED from the current source
(`Gen/Smear.lean`: `Lattice3D.add_particle_data` with `add_same_spaced_grid`, `reset`, the closest / nearest node
searches, the coordinate and by-index accessors and the constructor, regenerated on every run by
`harness/translate/smear.py`).

`Lemmas/SmearGen.lean` proves `gen_eq_model`: on the object the generated constructor builds, the generated function
returns the lattice the hand model computes.  The hypotheses of that equality are collected in `Call`:
* the lattice is one the constructor accepts and the property speaks about (`Ls.WF`: `lo < hi`, at least two nodes per
  axis — the hypothesis every Core theorem about deposits has), the content has the size of the lattice;
* no number involved is NaN (`isnan` is constantly false — an ordered field has no NaN; the NaN branches of the code,
  "raise ValueError", are compared at Float by the driver);
* `round(n_sigma·sigma/spacing)` is a natural number `a b c` per axis (Python's `round` is a parameter, as in the model);
* `quantity` is one of the five names (`quantityOf`, the table proved below), `kernel` is "gaussian" or "covariant";
* every particle brings one recorded pdf value per node of its temporary lattice (scipy is a parameter, as in the model).
What the generated function does outside these hypotheses (NaN input, unknown names, a negative `round`) is not covered
by the equality; it is executed by the driver against the real code.
-/
import SparkxVerif.Props.C16
import SparkxVerif.Lemmas.SmearGen
import Mathlib.Data.Rat.Floor
set_option linter.unusedSectionVars false
set_option linter.unusedVariables false

open SparkxVerif.Smear SparkxVerif.SmearGen

namespace SparkxVerif.C16.Gen

variable {K : Type} [Field K] [LinearOrder K] [IsStrictOrderedRing K]

abbrev Ptl := SparkxVerif.Gen.Smear.Ptl

/-- one call `lattice.add_particle_data(particles, sigma, quantity, kernel, add)` on an object built by
`Lattice3D(lo…, hi…, n…, n_sigma_x, n_sigma_y, n_sigma_z)`, as far as it does not depend on the particles -/
structure Call (Ls : Smear.Lattice K) where
  wf : Ls.WF
  /-- the constructor's `n_sigma_*` arguments (`None` = 3) -/
  ox : Option K
  oy : Option K
  oz : Option K
  sigma : K
  isnan : K → Bool
  noNaN : ∀ x, isnan x = false
  pyround : K → Int
  a : Nat
  b : Nat
  c : Nat
  round_x : pyround (ox.getD ((3 : Nat) : K) * sigma / Ls.X.spacing) = (a : Int)
  round_y : pyround (oy.getD ((3 : Nat) : K) * sigma / Ls.Y.spacing) = (b : Int)
  round_z : pyround (oz.getD ((3 : Nat) : K) * sigma / Ls.Z.spacing) = (c : Int)
  quantity : String
  kernel : String
  /-- the attribute `quantity` selects -/
  f : Ptl K → K
  quantity_ok : quantityOf quantity = some f
  kernel_ok : kernel = "gaussian" ∨ kernel = "covariant"

/-- the particle list brings one recorded pdf value per node of the temporary lattice -/
def Call.Tables {Ls : Smear.Lattice K} (C : Call Ls) (ps : List (Ptl K)) : Prop :=
  ∀ pt ∈ ps, pt.kv.length = (2 * C.a + 1) * (2 * C.b + 1) * (2 * C.c + 1)

/-- the generated function applied to the object of `Ls` holding `g` -/
def Call.run {Ls : Smear.Lattice K} (C : Call Ls) (g : List K) (ps : List (Ptl K)) (add : Bool) :
    Except Lattice.Err (Lattice.Lat K K) :=
  SparkxVerif.Gen.Smear.addParticleData linspace C.isnan C.pyround (latOf Ls g) (attrsOf Ls C.ox C.oy C.oz) ps C.sigma
    C.quantity C.kernel add

/-- the particles as the model is handed them -/
def Call.parts {Ls : Smear.Lattice K} (C : Call Ls) (ps : List (Ptl K)) : List (Part K) :=
  ps.map (toPart C.f C.a C.b C.c)

/-- the object `Call.run` is applied to IS what the generated constructor builds (grid replaced by `g`), and its
derived attributes are what the generated `__init__` computes -/
theorem gen_constructor (lo₁ hi₁ lo₂ hi₂ lo₃ hi₃ : K) (n₁ n₂ n₃ : Nat) (ox oy oz : Option K) (g : List K) :
    ({ SparkxVerif.Gen.Smear.init linspace lo₁ hi₁ lo₂ hi₂ lo₃ hi₃ n₁ n₂ n₃ with grid := g } : Lattice.Lat K K)
      = latOf ⟨⟨lo₁, hi₁, n₁⟩, ⟨lo₂, hi₂, n₂⟩, ⟨lo₃, hi₃, n₃⟩⟩ g ∧
    SparkxVerif.Gen.Smear.initAttrs linspace lo₁ hi₁ lo₂ hi₂ lo₃ hi₃ n₁ n₂ n₃ ox oy oz
      = .ok (attrsOf ⟨⟨lo₁, hi₁, n₁⟩, ⟨lo₂, hi₂, n₂⟩, ⟨lo₃, hi₃, n₃⟩⟩ ox oy oz) := by
  refine ⟨?_, initAttrs_gen _ _ _ _ _ _ _ _ _ _ _ _⟩
  rw [init_gen]; rfl

/-- **generated = model**: the call succeeds and returns the lattice the hand model computes -/
theorem gen_eq {Ls : Smear.Lattice K} (C : Call Ls) (g : List K) (hg : g.length = Ls.size) (ps : List (Ptl K))
    (ht : C.Tables ps) (add : Bool) :
    ∃ g', addParticleData Ls g (C.parts ps) add = some g' ∧ C.run g ps add = .ok (latOf Ls g') :=
  gen_eq_model Ls C.wf g hg C.ox C.oy C.oz C.sigma C.isnan C.noNaN C.pyround C.a C.b C.c C.round_x C.round_y C.round_z
    C.quantity C.kernel C.f C.quantity_ok C.kernel_ok ps ht add

/-- the choice of the quantity, as the generated code makes it -/
theorem gen_quantity_table :
    (quantityOf "energy_density" : Option (Ptl K → K)) = some (fun p => p.E) ∧
    (quantityOf "number_density" : Option (Ptl K → K)) = some (fun _ => 1) ∧
    (quantityOf "charge_density" : Option (Ptl K → K)) = some (fun p => p.charge) ∧
    (quantityOf "baryon_density" : Option (Ptl K → K)) = some (fun p => p.baryon_number) ∧
    (quantityOf "strangeness_density" : Option (Ptl K → K)) = some (fun p => p.strangeness) := by
  refine ⟨?_, ?_, ?_, ?_, ?_⟩ <;> simp [quantityOf]

theorem kernelOK_parts {Ls : Smear.Lattice K} (C : Call Ls) (ps : List (Ptl K)) (ht : C.Tables ps) :
    ∀ p ∈ C.parts ps, KernelOK p := by
  intro p hp
  obtain ⟨pt, hpt, rfl⟩ := List.mem_map.mp hp
  exact ⟨by simp [toPart], by simp [toPart, ht pt hpt]⟩

theorem kernelVals_toPart (f : Ptl K → K) (a b c : Nat) (pt : Ptl K) : kernelVals (toPart f a b c pt) = pt.kv := by
  simp [kernelVals, toPart, Function.comp_def]

theorem quantity_parts {Ls : Smear.Lattice K} (C : Call Ls) (ps : List (Ptl K)) :
    quantity (C.parts ps) = (ps.map C.f).sum := by
  simp [quantity, Call.parts, toPart, Function.comp_def]

/-- **Conservation, generated function.**  Supports inside (as the model classifies the particle the code sees) and
positive discrete kernel sums: the call succeeds and
`Σ_nodes grid · cell_volume = (old content if add) + Σ_particles quantity`. -/
theorem gen_conserved {Ls : Smear.Lattice K} (C : Call Ls) (g : List K) (hg : g.length = Ls.size) (ps : List (Ptl K))
    (ht : C.Tables ps) (add : Bool)
    (hin : ∀ pt ∈ ps, supportInside Ls (toPart C.f C.a C.b C.c pt) = true) (hnorm : ∀ pt ∈ ps, 0 < pt.kv.sum) :
    ∃ L', C.run g ps add = .ok L' ∧
      total L'.grid * Ls.cellVolume = startTotal g add * Ls.cellVolume + (ps.map C.f).sum := by
  obtain ⟨g', hm, hgen⟩ := gen_eq C g hg ps ht add
  obtain ⟨g'', h1, h2⟩ := conserved Ls C.wf g hg (C.parts ps) add (kernelOK_parts C ps ht)
    (by intro p hp; obtain ⟨pt, hpt, rfl⟩ := List.mem_map.mp hp; exact hin pt hpt)
    (by intro p hp; obtain ⟨pt, hpt, rfl⟩ := List.mem_map.mp hp; rw [kernelVals_toPart]; exact hnorm pt hpt)
  rw [hm] at h1
  cases h1
  exact ⟨_, hgen, by rw [← quantity_parts]; exact h2⟩

/-- **Clipping, generated function.**  Non-negative quantities and kernel values, supports anywhere: the call succeeds
and deposits between nothing and the particles' quantity. -/
theorem gen_clipped_le {Ls : Smear.Lattice K} (C : Call Ls) (g : List K) (hg : g.length = Ls.size) (ps : List (Ptl K))
    (ht : C.Tables ps) (add : Bool) (hv : ∀ pt ∈ ps, 0 ≤ C.f pt) (hs : ∀ pt ∈ ps, ∀ s ∈ pt.kv, 0 ≤ s) :
    ∃ L', C.run g ps add = .ok L' ∧
      startTotal g add * Ls.cellVolume ≤ total L'.grid * Ls.cellVolume ∧
      total L'.grid * Ls.cellVolume ≤ startTotal g add * Ls.cellVolume + (ps.map C.f).sum := by
  obtain ⟨g', hm, hgen⟩ := gen_eq C g hg ps ht add
  obtain ⟨g'', h1, h2, h3⟩ := clipped_le Ls C.wf g (C.parts ps) add (kernelOK_parts C ps ht)
    (by intro p hp; obtain ⟨pt, hpt, rfl⟩ := List.mem_map.mp hp; exact hv pt hpt)
    (by intro p hp; obtain ⟨pt, hpt, rfl⟩ := List.mem_map.mp hp; rw [kernelVals_toPart]; exact hs pt hpt)
  rw [hm] at h1
  cases h1
  exact ⟨_, hgen, h2, by rw [← quantity_parts]; exact h3⟩

/-- **`add=True` accumulates, generated function**: node by node the old content plus what the same call deposits on
the lattice with `add=False`. -/
theorem gen_add_accumulates {Ls : Smear.Lattice K} (C : Call Ls) (g : List K) (hg : g.length = Ls.size)
    (ps : List (Ptl K)) (ht : C.Tables ps) :
    ∃ fresh, C.run g ps false = .ok (latOf Ls fresh) ∧
      C.run g ps true = .ok (latOf Ls (List.zipWith (· + ·) g fresh)) := by
  obtain ⟨fresh, hm0, hgen0⟩ := gen_eq C g hg ps ht false
  obtain ⟨acc, hm1, hgen1⟩ := gen_eq C g hg ps ht true
  refine ⟨fresh, hgen0, ?_⟩
  have h := add_accumulates Ls g (C.parts ps)
  rw [hm0, hm1] at h
  simp only [Option.map_some, Option.some.injEq] at h
  rw [hgen1, h]

/-- **`add=False` starts from zero, generated function**: the result does not depend on the previous content. -/
theorem gen_no_add_resets {Ls : Smear.Lattice K} (C : Call Ls) (g g₂ : List K) (hg : g.length = Ls.size)
    (hg₂ : g₂.length = Ls.size) (ps : List (Ptl K)) (ht : C.Tables ps) :
    C.run g ps false = C.run g₂ ps false := by
  obtain ⟨r, hm, hgen⟩ := gen_eq C g hg ps ht false
  obtain ⟨r₂, hm₂, hgen₂⟩ := gen_eq C g₂ hg₂ ps ht false
  have h := no_add_resets Ls g g₂ (hg.trans hg₂.symm) (C.parts ps)
  rw [hm, hm₂] at h
  cases h
  rw [hgen, hgen₂]

/-- **Order independence, generated function**: any permutation of the particle list gives the same lattice. -/
theorem gen_order_independent {Ls : Smear.Lattice K} (C : Call Ls) (g : List K) (hg : g.length = Ls.size)
    (ps ps₂ : List (Ptl K)) (ht : C.Tables ps) (add : Bool) (h : ps.Perm ps₂) :
    C.run g ps add = C.run g ps₂ add := by
  have ht₂ : C.Tables ps₂ := fun pt hpt => ht pt (h.mem_iff.mpr hpt)
  obtain ⟨r, hm, hgen⟩ := gen_eq C g hg ps ht add
  obtain ⟨r₂, hm₂, hgen₂⟩ := gen_eq C g hg ps₂ ht₂ add
  have hp := order_independent Ls g (C.parts ps) (C.parts ps₂) add (h.map _)
  rw [hm, hm₂] at hp
  cases hp
  rw [hgen, hgen₂]

/-! ### Non-vacuity: a concrete call on the lattice `L0` of `Props/C16.lean` meets `Call` -/

section examples

/-- `n_sigma = 3` (default), `sigma = 1/3` on the 5 × 5 × 3 lattice `L0` (spacings 1, 1/2, 1/2): half-widths 1, 2, 2
with the rounding `⌊x + 1/2⌋` -/
def C0 : Call L0 where
  wf := L0_wf
  ox := none
  oy := none
  oz := none
  sigma := 1 / 3
  isnan := fun _ => false
  noNaN := fun _ => rfl
  pyround := fun x => ⌊x + 1 / 2⌋
  a := 1
  b := 2
  c := 2
  round_x := by
    norm_num [L0, Axis.spacing, Axis.values, linspace, zero, List.range_succ]
  round_y := by
    norm_num [L0, Axis.spacing, Axis.values, linspace, zero, List.range_succ]
  round_z := by
    norm_num [L0, Axis.spacing, Axis.values, linspace, zero, List.range_succ]
  quantity := "charge_density"
  kernel := "covariant"
  f := fun p => p.charge
  quantity_ok := by simp [quantityOf]
  kernel_ok := Or.inr rfl

/-- a particle of charge −2 in the middle of `L0` with a flat kernel table (3 × 5 × 5 values) -/
def pt0 : Ptl ℚ := ⟨2, 0, 1 / 2, 7, -2, 1, 0, 0, 0, 1, List.replicate 75 1⟩

theorem C0_tables : C0.Tables [pt0] := by
  intro pt hpt
  simp only [List.mem_singleton] at hpt
  subst hpt
  simp [pt0, C0]

/-- `gen_eq` applies: the generated function succeeds on `[pt0]` and returns the model's lattice -/
example : ∃ g', addParticleData L0 (List.replicate 75 0) (C0.parts [pt0]) false = some g' ∧
    C0.run (List.replicate 75 0) [pt0] false = .ok (latOf L0 g') :=
  gen_eq C0 _ (by simp [Smear.Lattice.size, L0]) [pt0] C0_tables false

end examples

end SparkxVerif.C16.Gen
