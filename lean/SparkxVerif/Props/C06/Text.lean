/-
C06 over the written TEXT.  `Props/C06.lean` proves "read ∘ write" and the write fixpoint for every observation function `obs`
under the hypothesis `ObsOK obs …` (every written line is observed as what it is meant to be — evaluated by the driver on the
real bytes).  Here `obs` is the real `Rd.analyse`, the written lines are joined into a text and parsed back with
`Proto.fileOfText`, and `ObsOK` (with the format-sniffing and `_event_footer` side hypotheses) is PROVED
(`Lemmas/ClassifyWriter.lean`) from
 * ONE assumption about Python's `%`-formatting: `Wr.FmtContract c` — a formatted cell (`'%g'`, `'%.9g'`, `'%d'`) consists of
   characters of a formatted number `[0-9+-.eE]` ∪ letters of `nan` / `inf`, and `float()` resp. `int()` accepts it (DESIGN §3
   item 4; the integer half holds for Lean's decimal printer: `Wr.fmtContract_int`); together with the existing `Hidem`
   (`RowRT`) of `Props/C06.lean` these are all formatting facts assumed;
 * decidable side conditions on the strings the writers COPY from the input file: the three Oscar header lines (`Wr.headerOk`:
   ignored by the header scan, newline-free, format recognised on line 1), every end line of the input is a SMASH footer
   (`Wr.footerShapeB`), the first JETSCAPE line and the `sigmaGen` trailer (`Wr.jetCopiedOk`); they hold for every file of the
   C01 grammar (`grammar_copied_ok`);
 * `0 < n` columns and `colsOk fmt n` (12 / 20–22 / any number of ASCII columns).
-/
import SparkxVerif.Props.C06
import SparkxVerif.Lemmas.ClassifyWriter

set_option linter.unusedSimpArgs false
set_option linter.unusedVariables false

namespace SparkxVerif.C06.Text
open SparkxVerif.Rd SparkxVerif.Wr SparkxVerif.Gen.WriterTables

variable {R V : Type}

/-- the written lines as a text (`nl` = the text ends with a newline) -/
def textOf (lines : List TLine) (nl : Bool) : String := textOfLines (lines.map (·.text)) nl

/-- the written text, split into lines and observed by the loaders, is the list of observed written lines -/
theorem fileOfText_written (lines : List TLine) (nl : Bool) (hne : lines ≠ [])
    (hnl : ∀ t ∈ lines, '\n' ∉ t.text.toList) (hlast : (lines.getLast hne).text ≠ "") :
    Proto.fileOfText (textOf lines nl) = ⟨lines.map (fun t => analyse t.text), nl⟩ := by
  have hne' : lines.map (·.text) ≠ [] := by simpa using hne
  rw [textOf, fileOfText_textOfLines _ _ hne' (by
    intro l hl; obtain ⟨t, ht, rfl⟩ := List.mem_map.mp hl; exact hnl t ht) (by rw [List.getLast_map]; exact hlast)]
  simp [List.map_map, Function.comp_def]

/-- **C06, Oscar, over the written TEXT (all loads, all filter histories that leave an event).**  As `C06_oscar_partial`, with
the file the real bytes: the writer's lines joined by newlines (with or without a final one), split and observed by
`Proto.fileOfText` / `Rd.analyse`.  No observation hypothesis; assumed are the formatting contract `FmtContract c` (+ `RowRT` for
the fixpoint) and the decidable side conditions on the copied lines. -/
theorem C06_oscar_text (c : Codec V) (hc : FmtContract c) (vals : R → List V) (vals2 : PLine → List V) (custom : List Spec)
    (n : Nat) (o0 : OscarObj R) (tg0 : Tagged R) (hinv : Inv vals n o0 tg0)
    (hfmt0 : o0.fmt = .oscar2013 ∨ o0.fmt = .extended ∨ o0.fmt = .ascii)
    (hcustom : oscarCustom o0.fmt o0.attrs = .ok custom) (hlen : (specsOf o0.fmt custom n).length = n)
    (hrt : RowRT c (specsOf o0.fmt custom n) n vals2)
    (h0 h1 h2 : String) (hh : o0.header = [h0, h1, h2])
    (hhdr : headerOk o0.fmt o0.attrs h0 h1 h2 = true) (hfoot : ∀ f ∈ o0.endLines, footerShapeB f = true)
    (hn : 0 < n) (hcols : colsOk o0.fmt n = true)
    (ops : List (Op R)) (hleft : runTagged ops tg0 ≠ []) :
    ∃ o, o0.run ops = .ok o ∧
      let tg := runTagged ops tg0
      let specs := specsOf o0.fmt custom n
      let lines := oscarSpecLines c vals custom n o
      writeOscarK c vals o = .ok lines ∧
      ∀ nl : Bool,
        let f2 := Proto.fileOfText (textOf lines nl)
        ∃ L o2, readOscar f2 .all none = .ok L
          ∧ strip L.events = tg.map (fun t => t.2.map (fun r => cellsOf c specs (vals r)))
          ∧ L.numEvents = tg.length
          ∧ L.counts = .arr2d (relabelRows 0 0 (tg.map (·.2)))
          ∧ L.fmt = some o0.fmt ∧ L.customAttrs = o0.attrs
          ∧ L.footers = (List.range' 0 tg.length).map
              (fun (i : Nat) => substLabel 2 (i : Int) (o0.endLines.getD ((tg.map (·.1)).getD i 0) ""))
          ∧ oscarOfLoaded L f2 (keptIndices f2 .all none) = .ok o2
          ∧ writeOscarK c vals2 o2 = .ok lines := by
  obtain ⟨o, hrun, hw, hall⟩ := C06_oscar_partial c vals vals2 custom n o0 tg0 hinv hfmt0 hcustom hlen hrt h0 h1 h2 hh ops hleft
  obtain ⟨o', hrun', hi, e1, e2, e3, e4⟩ := run_inv vals n ops o0 tg0 hinv hleft
  have ho : o' = o := Except.ok.inj (hrun'.symm.trans hrun)
  subst ho
  have wf : OscarWF vals custom n o' :=
    inv_wf vals custom n o' _ hi (by rw [e2]; exact hfmt0) (by rw [e2, e3]; exact hcustom) (by rw [e2]; exact hlen)
  refine ⟨o', hrun, hw, ?_⟩
  intro nl f2
  obtain ⟨hobs, hfmt, hsub, hnl⟩ := obsOK_oscar c hc vals custom n o' wf h0 h1 h2 (by rw [e4]; exact hh)
    (by rw [e2, e3]; exact hhdr) (by rw [e1]; exact hfoot) hn (by rw [e2]; exact hcols)
  have hne : oscarSpecLines c vals custom n o' ≠ [] := by simp [oscarSpecLines, hdrLines, e4, hh]
  have hlast := oscarSpecLines_last_ne c hc vals custom n o' wf (by rw [e1]; exact hfoot) hn hne
  have hf2 : f2 = ⟨(oscarSpecLines c vals custom n o').map (fun t => analyse t.text), nl⟩ :=
    fileOfText_written _ nl hne hnl hlast
  have hlenT : o'.events.length = (runTagged ops tg0).length := by rw [hi.events]; simp
  rw [e2, e3] at hobs hfmt
  have := hall analyse nl hobs hfmt (fun i hi' => hsub i (by rw [hlenT]; exact hi'))
  rw [hf2]
  exact this

/-- **C06, JETSCAPE, over the written TEXT (all loads, ALL filter histories).** -/
theorem C06_jetscape_text (c : Codec V) (hc : FmtContract c) (vals : R → List V) (vals2 : PLine → List V) (j0 : JetObj R)
    (wf0 : JetWF vals j0) (hrt : RowRT c fmtJetscape 7 vals2) (partons : Bool)
    (hdef : j0.defStr = if partons then "N_partons" else "N_hadrons")
    (hstrip : pyStrip j0.lastLine = j0.lastLine)
    (hcop : jetCopiedOk partons j0.headerLine j0.lastLine = true) (ops : List (Op R)) :
    ∃ j, j0.run ops = .ok j ∧ j.events = ops.foldl (fun e op => applyOp op e) j0.events ∧
      let lines := jetSpecLines c vals j
      writeJetscapeK c vals j = .ok lines ∧
      ∀ nl : Bool,
        let f2 := Proto.fileOfText (textOf lines nl)
        ∃ L j2, readJetscape f2 .all partons none = .ok L
          ∧ strip L.events = j.events.map (fun ev => ev.map (fun r => cellsOf c fmtJetscape (vals r)))
          ∧ L.numEvents = j.events.length
          ∧ L.counts = .arr2d (relabelRows 1 0 j.events)
          ∧ jetOfLoaded L f2 partons = .ok j2
          ∧ j2.lastLine = j0.lastLine ∧ j2.headerLine = j0.headerLine
          ∧ writeJetscapeK c vals2 j2 = .ok lines := by
  obtain ⟨j, hrun, hev, hw, hall⟩ := C06_jetscape c vals vals2 j0 wf0 hrt partons hdef hstrip ops
  obtain ⟨j', hrun', wf, _, d1, d2, d3⟩ := jet_run_wf vals ops j0 wf0
  have hj : j' = j := Except.ok.inj (hrun'.symm.trans hrun)
  subst hj
  refine ⟨j', hrun, hev, hw, ?_⟩
  intro nl f2
  obtain ⟨hobs, hnl, hlastne⟩ := obsOK_jet c hc vals j' wf partons (by rw [d1]; exact hdef) (by rw [d2, d3]; exact hcop)
  have hne : jetSpecLines c vals j' ≠ [] := by simp [jetSpecLines]
  have hlast : ((jetSpecLines c vals j').getLast hne).text ≠ "" := by
    have : (jetSpecLines c vals j').getLast hne = ⟨.jtrail, j'.lastLine⟩ := by
      have e : jetSpecLines c vals j' =
          (⟨.jhdr, j'.headerLine⟩ :: jtlinesOf 1 (jetBlocksOf c vals j'.defStr 0 j'.events)) ++ [⟨.jtrail, j'.lastLine⟩] := by
        simp [jetSpecLines]
      simp only [e, List.getLast_concat]
    rw [this]; exact hlastne
  have hf2 : f2 = ⟨(jetSpecLines c vals j').map (fun t => analyse t.text), nl⟩ := fileOfText_written _ nl hne hnl hlast
  rw [hf2]
  exact hall analyse nl hobs

/-! ### the hypotheses are satisfiable (concrete object, contract proved for the integer codec, side conditions by kernel
evaluation) -/

section examples

def exRow (k : Int) : List Int := [k, 0, 0, 0, 1, 1, 0, 0, 1, 211, 7, 1]

/-- an Oscar2013 object holding events 1 and 3 of a four-event file (event 2 was removed by a cut) -/
def exObj : OscarObj (List Int) :=
  { events := [[exRow 15], []], numEvents := 2, counts := .arr2d [(0, 1), (1, 0)], fmt := .oscar2013, attrs := [],
    endLines := ["# event 0 end 0 impact   0.000 scattering_projectile_target yes",
                 "# event 1 end 0 impact   1.000 scattering_projectile_target no",
                 "# event 2 end 0 impact   2.000 scattering_projectile_target yes",
                 "# event 3 end 0 impact   3.000 scattering_projectile_target no"],
    lastEndNoNL := false, origin := [1, 3], impactIdx := [1, 3],
    header := ["#!OSCAR2013 particle_lists t x y z mass p0 px py pz pdg ID charge",
               "# Units: fm fm fm fm GeV GeV GeV GeV GeV none none e", "# SMASH-3.1"] }

theorem exObj_inv : Inv (fun r => r) 12 exObj [(1, [exRow 15]), (3, [])] :=
  ⟨by simp, rfl, rfl, rfl, rfl, ⟨0, rfl⟩, by decide, by decide⟩

theorem exObj_side :
    headerOk .oscar2013 [] "#!OSCAR2013 particle_lists t x y z mass p0 px py pz pdg ID charge"
      "# Units: fm fm fm fm GeV GeV GeV GeV GeV none none e" "# SMASH-3.1" = true ∧
    ∀ f ∈ exObj.endLines, footerShapeB f = true := by
  constructor
  · decide
  · decide

/-- write → text → read for this object (no filter steps): the reader accepts the written text and returns both events, the
second one empty, each with its OWN end line (impact 1.000 and 3.000) renumbered 0 and 1; writing again is a fixpoint -/
example : ∃ o, exObj.run [] = .ok o ∧
    ∀ nl : Bool, ∃ L, readOscar (Proto.fileOfText (textOf (oscarSpecLines intCodec (fun r => r) [] 12 o) nl)) .all none = .ok L ∧
      L.numEvents = 2 ∧
      L.footers = ["# event 0 end 0 impact   1.000 scattering_projectile_target no",
                   "# event 1 end 0 impact   3.000 scattering_projectile_target no"] := by
  obtain ⟨o, hrun, _, hall⟩ := C06_oscar_text intCodec intCodec_contract.1 (fun r => r) (oscarValsD intCodec .oscar2013 [])
    [] 12 exObj _ exObj_inv (Or.inl rfl) rfl rfl (rowRT_oscar2013 intCodec intCodec_contract.2 [] [])
    _ _ _ rfl exObj_side.1 exObj_side.2 (by decide) rfl [] (by simp [runTagged])
  refine ⟨o, hrun, fun nl => ?_⟩
  obtain ⟨L, _, hr, _, hn, _, _, _, hf, _⟩ := hall nl
  refine ⟨L, hr, by simpa [runTagged] using hn, ?_⟩
  rw [hf]
  have e1 : substLabel 2 (0 : Int) "# event 1 end 0 impact   1.000 scattering_projectile_target no" =
      "# event 0 end 0 impact   1.000 scattering_projectile_target no" := by decide
  have e2 : substLabel 2 (1 : Int) "# event 3 end 0 impact   3.000 scattering_projectile_target no" =
      "# event 1 end 0 impact   3.000 scattering_projectile_target no" := by decide
  simp [runTagged, exObj, List.range', e1, e2]

end examples

end SparkxVerif.C06.Text
