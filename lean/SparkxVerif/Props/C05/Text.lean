/-
C05 over the rendered TEXT.  `Props/C05.lean` assumes that the plain load succeeds and is `Booked` (its counts describe
its events).  For the text rendered by the file grammar (`Core/Render.lean`) both facts are PROVED here — from the
classification (`Lemmas/Classify*.lean`), the bridge to C02's well-formedness (`Lemmas/ClassifySel.lean`) and C02's
`read_sel_*` — for every valid event selection, so that `ctor_eq_methods_*_text` only keep the hypotheses about the filter
calls and the particle data.
-/
import SparkxVerif.Props.C05
import SparkxVerif.Props.C02.Text

namespace SparkxVerif.C05.Text
open SparkxVerif.Flt SparkxVerif.Rd SparkxVerif.Dsp SparkxVerif.C03 SparkxVerif.Bridge

/-- the plain load of a rendered Oscar text succeeds for every valid selection, and its counts describe its events -/
theorem plain_load_booked_oscar_text (F : OscarSpec) (hg : grammarOscar F = true) (hwf : wfOscar F) (sel : Sel)
    (hv : sel.validFor F.events.length = true) :
    ∃ L0, readOscar (Proto.fileOfText (oscarText F)) sel none = .ok L0 ∧ Booked L0 := by
  obtain ⟨W, hlen, _⟩ := Bridge.WFOscar_of_obs _ F (oscar_classification F hg) hwf
  have hv' : sel.validFor (selEvents (Proto.fileOfText (oscarText F)) F).length = true := hlen ▸ hv
  obtain ⟨L, hr, _, hcount, _⟩ := C02.select_particleList_oscar false _ _ _ _ sel W hv'
  have hr' := C02.read_sel_oscar _ _ _ _ sel W hv'
  rw [hr] at hr'
  injection hr' with hL
  refine ⟨L, hr, ?_, ?_⟩
  · have hn1 : 1 ≤ (selEvents (Proto.fileOfText (oscarText F)) F).length := by
      rw [hlen]; exact List.length_pos_iff.mpr hwf.1
    have := (RdSel.sel_window' _ hn1 sel hv').2
    intro h
    rw [h] at hcount
    simp at hcount
    omega
  · subst hL
    exact ⟨_, rfl, RdSel.rowsMatch_oscar _ _ _⟩

theorem plain_load_booked_jetscape_text (F : JetSpec) (hg : grammarJet F = true) (hwf : wfJetSeq F) (sel : Sel)
    (hv : sel.validFor F.events.length = true) :
    ∃ L0, readJetscape (Proto.fileOfText (jetText F)) sel F.partons none = .ok L0 ∧ Booked L0 := by
  obtain ⟨W, hlen⟩ := Bridge.WFJetscape_text F hg hwf
  have hv' : sel.validFor (jselEvents F).length = true := hlen ▸ hv
  obtain ⟨L, hr, _, hcount, _⟩ := C02.select_particleList_jetscape false _ _ _ sel W hv'
  have hr' := C02.read_sel_jetscape _ _ _ sel W hv'
  rw [hr] at hr'
  injection hr' with hL
  refine ⟨L, hr, ?_, ?_⟩
  · have := (RdSel.sel_window' _ (C02.wfJ_nonempty W) sel hv').2
    intro h
    rw [h] at hcount
    simp at hcount
    omega
  · subst hL
    exact ⟨_, rfl, RdSel.rowsMatch_jetscape _ _ _⟩

variable {α : Type} [LinearOrder α] [AddCommGroup α] [IsOrderedAddMonoid α] (ofNat : ℕ → α)

/-- **ctor_eq_methods (Oscar), over the text**: for every specification of the grammar, every valid selection and every
ordered chain of admissible filter calls, the plain load succeeds (`L0`), the load with `filters=` succeeds (`L1`), the
method chain on the plain load succeeds (`H`), and both hold the same particles in the same events with the same counts -/
theorem ctor_eq_methods_oscar_text (F : OscarSpec) (hg : grammarOscar F = true) (hwf : wfOscar F) (sel : Sel)
    (hv : sel.validFor F.events.length = true) (view : PLine → Part α) (hid : ∀ pl, (view pl).id = pl.lineNo)
    (calls : List (Call α)) (ss : List (Sem α)) (hadm : AdmChain ofNat calls ss)
    (hdata : ∀ L0, readOscar (Proto.fileOfText (oscarText F)) sel none = .ok L0 → DataOK calls (L0.events.map (·.map view))) :
    ∃ L0 L1 H, readOscar (Proto.fileOfText (oscarText F)) sel none = .ok L0 ∧
      readOscar (Proto.fileOfText (oscarText F)) sel (some (ctorFilter ofNat view calls)) = .ok L1 ∧
      methods ofNat calls (heldOf view L0) = .ok H ∧
      nonempty (lineIds L1.events) = nonempty (partIds H.events) ∧
      nonzeroCounts L1.counts = nonzeroCounts H.counts := by
  obtain ⟨L0, h0, hbook⟩ := plain_load_booked_oscar_text F hg hwf sel hv
  obtain ⟨L1, H, h1, h2, h3, h4⟩ := C05.ctor_eq_methods_oscar ofNat _ sel view hid calls ss hadm L0 h0 hbook (hdata L0 h0)
  exact ⟨L0, L1, H, h0, h1, h2, h3, h4⟩

/-- **ctor_eq_methods (JETSCAPE), over the text** -/
theorem ctor_eq_methods_jetscape_text (F : JetSpec) (hg : grammarJet F = true) (hwf : wfJetSeq F) (sel : Sel)
    (hv : sel.validFor F.events.length = true) (view : PLine → Part α) (hid : ∀ pl, (view pl).id = pl.lineNo)
    (calls : List (Call α)) (ss : List (Sem α)) (hadm : AdmChain ofNat calls ss)
    (hdata : ∀ L0, readJetscape (Proto.fileOfText (jetText F)) sel F.partons none = .ok L0 →
      DataOK calls (L0.events.map (·.map view))) :
    ∃ L0 L1 H, readJetscape (Proto.fileOfText (jetText F)) sel F.partons none = .ok L0 ∧
      readJetscape (Proto.fileOfText (jetText F)) sel F.partons (some (ctorFilter ofNat view calls)) = .ok L1 ∧
      methods ofNat calls (heldOf view L0) = .ok H ∧
      nonempty (lineIds L1.events) = nonempty (partIds H.events) ∧
      nonzeroCounts L1.counts = nonzeroCounts H.counts := by
  obtain ⟨L0, h0, hbook⟩ := plain_load_booked_jetscape_text F hg hwf sel hv
  obtain ⟨L1, H, h1, h2, h3, h4⟩ :=
    C05.ctor_eq_methods_jetscape ofNat _ sel F.partons view hid calls ss hadm L0 h0 hbook (hdata L0 h0)
  exact ⟨L0, L1, H, h0, h1, h2, h3, h4⟩

end SparkxVerif.C05.Text
