/-
C07 — Truncated or damaged input is detected, never silently mis-loaded.

Theorems over the shared reader model R (`Core/Reader.lean`: `readOscar`, `readJetscape` on the observations
`LineF` the loaders make on every line), for every file that is well-formed *as observed* (`OFile.wf`, `JFile.wf`
in `Core/ReaderDamage.lean`: each line has the substring features and tokens of its kind, labels are consecutive,
the announced counts are the numbers of particle lines).  No bound on the number of events, particles, or on the
position of the damage.

`Outcome` of opening a damaged file = an error, or a `Loaded` value that `agrees` with the first `m` events of the
undamaged file: exactly their particle lines in order (by file line number and tokens), `num_events = m`, and one
`(label, count)` row per returned event with `count` = length of its list.
-/
import SparkxVerif.Lemmas.ReaderDamage

namespace SparkxVerif.C07
open SparkxVerif.Rd SparkxVerif.Rd.Dmg

/-! ## Oscar2013 / Oscar2013Extended / ASCII -/

/-- the undamaged file is loaded completely (so the statements below are about files that do load) -/
theorem oscar_wf_loads (F : OFile) (fmt : Fmt) (attrs : List String) (hF : F.wf fmt attrs = true) (nl : Bool) :
    ∃ L, readOscar ⟨F.lines, nl⟩ .all none = .ok L ∧ F.agrees F.evs.length L := by
  obtain ⟨ho, hc, hne⟩ := wf_facts hF
  obtain ⟨L, hL, h1, h2, h3⟩ := read_complete (Pre_of_obs_all ho) hne hc (labels_of_obs ho) nl
  refine ⟨L, hL, agrees_of F.evs.length (Nat.le_refl _) hc L ?_ ?_ ?_⟩ <;> simp [h1, h2, h3]

/-- **A particle line is lost**: the counts ask for one line more than the file has, the loop runs into the end of
the file — `IndexError`.  Every well-formed file, every particle line of every event. -/
theorem oscar_deleted_line (F : OFile) (fmt : Fmt) (attrs : List String) (hF : F.wf fmt attrs = true)
    (k p : Nat) (b : Block) (x : LineF) (hb : F.evs[k]? = some b) (hx : b.parts[p]? = some x) (nl : Bool) :
    readOscar ⟨deleteLine F.lines (F.partPos k p), nl⟩ .all none = .error .index := by
  obtain ⟨ho, hc, hne⟩ := wf_facts hF
  obtain ⟨A, B, hl, hA, hdel, _⟩ := lines_split F k p b x hb hx
  rw [hl, ← hA, eraseIdx_at, hdel]
  have H := Pre_of_obs_all ho
  have hsub : ∀ q ∈ b.parts.take p ++ b.parts.drop (p + 1), q ∈ b.parts := by
    intro q hq
    rcases List.mem_append.mp hq with h | h
    · exact List.mem_of_mem_take h
    · exact List.mem_of_mem_drop h
  have hp : p < b.parts.length := by
    rcases Nat.lt_or_ge p b.parts.length with h' | h'
    · exact h'
    · rw [List.getElem?_eq_none h'] at hx; cases hx
  refine read_missing (fmt := fmt) (attrs := attrs) ⟨H.hfmt, H.hmod, H.hh1, H.hh2, H.hh3, withParts_obs F.evs k b _ hb H.hbs hsub⟩
    (withParts_labels F.evs k b _ hb 0 (labels_of_obs ho)) ?_ nl
  have h1 := withParts_len F.evs k b (b.parts.take p ++ b.parts.drop (p + 1)) hb
  rw [withParts_ann F.evs k b _ hb, annLines_consistent _ hc]
  simp only [List.length_append, List.length_take, List.length_drop] at h1
  omega

/-- **A particle line is duplicated**: the loop stops one line early, the last event is never closed, the
event-number check fails — `IndexError`. -/
theorem oscar_duplicated_line (F : OFile) (fmt : Fmt) (attrs : List String) (hF : F.wf fmt attrs = true)
    (k p : Nat) (b : Block) (x : LineF) (hb : F.evs[k]? = some b) (hx : b.parts[p]? = some x) (nl : Bool) :
    readOscar ⟨dupLine F.lines (F.partPos k p), nl⟩ .all none = .error .index := by
  obtain ⟨ho, hc, hne⟩ := wf_facts hF
  obtain ⟨A, B, hl, hA, _, hdup⟩ := lines_split F k p b x hb hx
  rw [hl, ← hA, dupLine_at, hdup]
  have H := Pre_of_obs_all ho
  have hxm : x ∈ b.parts := List.mem_of_getElem? hx
  have hsub : ∀ q ∈ b.parts.take p ++ x :: x :: b.parts.drop (p + 1), q ∈ b.parts := by
    intro q hq
    simp only [List.mem_append, List.mem_cons] at hq
    rcases hq with h | h | h | h
    · exact List.mem_of_mem_take h
    · exact h ▸ hxm
    · exact h ▸ hxm
    · exact List.mem_of_mem_drop h
  have hp : p < b.parts.length := by
    rcases Nat.lt_or_ge p b.parts.length with h' | h'
    · exact h'
    · rw [List.getElem?_eq_none h'] at hx; cases hx
  refine read_extra (fmt := fmt) (attrs := attrs) ⟨H.hfmt, H.hmod, H.hh1, H.hh2, H.hh3, withParts_obs F.evs k b _ hb H.hbs hsub⟩
    (by simp [withParts]) (withParts_labels F.evs k b _ hb 0 (labels_of_obs ho)) ?_ nl
  have h1 := withParts_len F.evs k b (b.parts.take p ++ x :: x :: b.parts.drop (p + 1)) hb
  rw [withParts_ann F.evs k b _ hb, annLines_consistent _ hc]
  simp only [List.length_append, List.length_take, List.length_drop, List.length_cons] at h1
  omega

/-- **Truncation at a line boundary** (with or without the final newline character): the loader fails, or the cut
is exactly behind the `end` line of event `m-1` (`m ≥ 1`) and it returns exactly the `m` complete events with
`num_events = m` and matching counts.  Every well-formed file, every number `j` of surviving lines. -/
theorem oscar_truncated_lines (F : OFile) (fmt : Fmt) (attrs : List String) (hF : F.wf fmt attrs = true)
    (j : Nat) (hj : j ≤ F.lines.length) (nl : Bool) :
    (∃ e, readOscar ⟨F.lines.take j, nl⟩ .all none = .error e) ∨
    (∃ m L, 1 ≤ m ∧ m ≤ F.evs.length ∧ j = F.endPos m ∧
      readOscar ⟨F.lines.take j, nl⟩ .all none = .ok L ∧ F.agrees m L) := by
  obtain ⟨ho, hc, hne⟩ := wf_facts hF
  have H := Pre_of_obs_all ho
  match j, hj with
  | 0, _ => left; exact read_short _ nl (by simp)
  | 1, _ => left; exact read_short _ nl (by simp [OFile.lines])
  | 2, _ => left; exact read_badlast [F.h1] F.h2 nl (isHdr_notOk H.hh2)
  | 3, _ => left; exact read_badlast [F.h1, F.h2] F.h3 nl (isHdr_notOk H.hh3)
  | j' + 4, hj =>
    have hj' : j' + 1 ≤ (blocksLines F.evs).length := by simp [OFile.lines] at hj; omega
    have e : F.lines.take (j' + 4) = F.h1 :: F.h2 :: F.h3 :: (blocksLines F.evs).take (j' + 1) := by simp [OFile.lines]
    rw [e]
    rcases take_blocks F.evs (j' + 1) hj' with ⟨k, hk, hjk, ht⟩ | ⟨k, b, q, r, hb, hqr, ht, hjk⟩
    · right
      rw [ht]
      have hk0 : F.evs.take k ≠ [] := by
        intro h0; rw [h0] at hjk; simp [blocksLines] at hjk
      have hk1 : 1 ≤ k := by
        rcases Nat.eq_zero_or_pos k with h | h
        · subst h; simp at hk0
        · exact h
      obtain ⟨L, hL, h1, h2, h3⟩ := read_complete (Pre_of_obs ho k) hk0 (consistent_take _ k hc)
        (labelsFrom_take 0 _ k (labels_of_obs ho)) nl
      exact ⟨k, L, hk1, hk, by simp only [OFile.endPos]; omega, hL, agrees_of k hk hc L h1 h2 h3⟩
    · left
      rw [ht]
      have hbm : b ∈ F.evs := List.mem_of_getElem? hb
      have hbo := H.hbs b hbm
      have hbc : b.announced = (b.parts.length : Int) := by
        have := hc; simp only [consistent, List.all_eq_true, beq_iff_eq] at this; exact this b hbm
      refine read_midevent (Pre_of_obs ho k) (consistent_take _ k hc) b.out b.label b.announced (obs_out hbo) q
        (fun x hx => obs_parts hbo x (by rw [hqr]; simp [hx])) ?_ nl
      rw [hbc, hqr]; simp; omega

/-- **Truncation at any byte (partial statement)**: the first `j` lines survive, line `j` is cut to a non-empty
proper prefix whose observations are `P`, subject to `prefixHyp` (four elementary facts about the observations of a
prefix of a well-formed line, checked by the driver on every prefix of every generated file).  The loader fails, or
the cut line is the `out` line of event `m` and exactly the `m ≥ 1` complete events before it are returned, or the
cut line is the `end` line of event `m-1`, its surviving part still contains `end`, and exactly the events
`0 … m-1` — all of whose particle lines are intact — are returned; `num_events` and the counts match in both cases. -/
theorem oscar_truncated_bytes_partial (F : OFile) (fmt : Fmt) (attrs : List String) (hF : F.wf fmt attrs = true)
    (j : Nat) (hj : j < F.lines.length) (P : LineF) (hP : prefixHyp F j P = true) (nl : Bool) :
    (∃ e, readOscar ⟨F.lines.take j ++ [P], nl⟩ .all none = .error e) ∨
    (∃ m L, 1 ≤ m ∧ m ≤ F.evs.length ∧ j = F.endPos m ∧
      readOscar ⟨F.lines.take j ++ [P], nl⟩ .all none = .ok L ∧ F.agrees m L) ∨
    (∃ m L, 1 ≤ m ∧ m ≤ F.evs.length ∧ j + 1 = F.endPos m ∧ P.hasEnd = true ∧
      readOscar ⟨F.lines.take j ++ [P], nl⟩ .all none = .ok L ∧ F.agrees m L) := by
  obtain ⟨ho, hc, hne⟩ := wf_facts hF
  have H := Pre_of_obs_all ho
  have hcount := countHyp_of F j P hP
  have hP' := hP
  simp only [prefixHyp, Bool.and_eq_true, Bool.or_eq_true, Bool.not_eq_true', decide_eq_false_iff_not] at hP'
  obtain ⟨⟨⟨_, hhdr⟩, hfirst⟩, hend⟩ := hP'
  match j, hj with
  | 0, _ => left; exact read_short _ nl (by simp)
  | 1, _ =>
    left
    have : lastLineOk P = false := by rcases hhdr with h | h; · omega
                                      · exact h
    exact read_badlast [F.h1] P nl this
  | 2, _ =>
    left
    have : lastLineOk P = false := by rcases hhdr with h | h; · omega
                                      · exact h
    exact read_badlast [F.h1, F.h2] P nl this
  | j' + 3, hj =>
    have hj' : j' < (blocksLines F.evs).length := by simp [OFile.lines] at hj; omega
    have e : F.lines.take (j' + 3) ++ [P] = F.h1 :: F.h2 :: F.h3 :: ((blocksLines F.evs).take j' ++ [P]) := by
      simp [OFile.lines]
    rw [e]
    rcases take_blocks F.evs j' (Nat.le_of_lt hj') with ⟨k, hk, hjk, ht⟩ | ⟨k, b, q, r, hb, hqr, ht, hjk⟩
    · rw [ht]
      have hf : F.evs.take k = [] → tokInt P.toks 2 ≠ some (-1) := by
        intro h0
        rw [h0] at hjk
        simp only [blocksLines, List.flatMap_nil, List.length_nil] at hjk
        subst hjk
        rcases hfirst with h | h
        · omega
        · simpa using h
      rcases read_cut_out (Pre_of_obs ho k) (consistent_take _ k hc) P hcount hf nl with h | ⟨hk0, L, hL, h1, h2, h3⟩
      · exact Or.inl h
      · right; left
        have hk1 : 1 ≤ k := by
          rcases Nat.eq_zero_or_pos k with h | h
          · subst h; simp at hk0
          · exact h
        exact ⟨k, L, hk1, hk, by simp only [OFile.endPos]; omega, hL, agrees_of k hk hc L h1 h2 h3⟩
    · rw [ht, List.append_assoc]
      have hbm : b ∈ F.evs := List.mem_of_getElem? hb
      have hbo := H.hbs b hbm
      have hbc : b.announced = (b.parts.length : Int) := by
        have := hc; simp only [consistent, List.all_eq_true, beq_iff_eq] at this; exact this b hbm
      have hkN : k < F.evs.length := by
        rcases Nat.lt_or_ge k F.evs.length with h' | h'
        · exact h'
        · rw [List.getElem?_eq_none h'] at hb; cases hb
      cases r with
      | nil =>
        rw [List.append_nil] at hqr
        subst hqr
        have hpos : j' + 3 + 1 = F.endPos (k + 1) := by
          rw [OFile.endPos, take_succ_of_getElem? F.evs k b hb, blocksLines_append, blocksLines_cons]
          simp only [List.length_append, Block.lines_length, blocksLines, List.flatMap_nil, List.length_nil]
          simp only [blocksLines] at hjk
          omega
        have hisEnd : F.isEndPos (j' + 3) = true := by
          simp only [OFile.isEndPos, List.any_eq_true, List.mem_range, beq_iff_eq]
          exact ⟨k, hkN, hpos⟩
        have hP12 : P.hasHash = true ∧ evSkip P = false := by
          rcases hend with h | h
          · rw [hisEnd] at h; cases h
          · exact h
        rcases read_cut_end (Pre_of_obs ho k) (consistent_take _ k hc) b hbo hbc P hcount hP12.1 hP12.2 nl with
          h | ⟨hE, L, hL, h1, h2, h3⟩
        · exact Or.inl h
        · right; right
          rw [← take_succ_of_getElem? F.evs k b hb] at h1 h2 h3
          exact ⟨k + 1, L, by omega, hkN, hpos, hE, hL, agrees_of (k + 1) hkN hc L h1 h2 h3⟩
      | cons r0 rs =>
        left
        refine read_cut_part (Pre_of_obs ho k) (consistent_take _ k hc) b.out b.label b.announced (obs_out hbo) q
          (fun x hx => obs_parts hbo x (by rw [hqr]; simp [hx])) ?_ P hcount nl
        rw [hbc, hqr]; simp; omega

/-! ## JETSCAPE (hadron and parton files) -/

theorem jetscape_wf_loads (F : JFile) (pt : Bool) (hF : F.wf pt = true) (nl : Bool) :
    ∃ L, readJetscape ⟨F.lines, nl⟩ .all pt none = .ok L ∧ F.agrees L := by
  have W := jwf_facts hF
  obtain ⟨h1, evs, tr⟩ := F
  cases evs with
  | nil => exact absurd rfl W.ne
  | cons b bs =>
    obtain ⟨L, hL, a, b', c⟩ := jread_complete b bs W.pre W.cons W.labels tr W.trailer nl
    exact ⟨L, hL, jagrees_of W.cons L a b' c⟩

/-- **A particle line is lost**: after the trailer the count-driven loop still wants a line — `IndexError`. -/
theorem jetscape_deleted_line (F : JFile) (pt : Bool) (hF : F.wf pt = true)
    (k p : Nat) (b : JBlock) (x : LineF) (hb : F.evs[k]? = some b) (hx : b.parts[p]? = some x) (nl : Bool) :
    readJetscape ⟨deleteLine F.lines (F.partPos k p), nl⟩ .all pt none = .error .index := by
  have W := jwf_facts hF
  obtain ⟨A, B, hl, hA, hdel, _⟩ := jlines_split F k p b x hb hx
  rw [hl, ← hA, eraseIdx_at, hdel]
  have hsub : ∀ q ∈ b.parts.take p ++ b.parts.drop (p + 1), q ∈ b.parts := by
    intro q hq
    rcases List.mem_append.mp hq with h | h
    · exact List.mem_of_mem_take h
    · exact List.mem_of_mem_drop h
  have hp : p < b.parts.length := by
    rcases Nat.lt_or_ge p b.parts.length with h' | h'
    · exact h'
    · rw [List.getElem?_eq_none h'] at hx; cases hx
  have hobs := jwithParts_obs (pt := pt) F.evs k b _ hb W.pre.hbs hsub
  have hlab := jwithParts_labels F.evs k b (b.parts.take p ++ b.parts.drop (p + 1)) hb 1 W.labels
  have hann := jwithParts_ann F.evs k b (b.parts.take p ++ b.parts.drop (p + 1)) hb
  have hlen := jwithParts_len F.evs k b (b.parts.take p ++ b.parts.drop (p + 1)) hb
  rw [jannLines_consistent _ W.cons] at hann
  simp only [List.length_append, List.length_take, List.length_drop] at hlen
  generalize jwithParts F.evs k b (b.parts.take p ++ b.parts.drop (p + 1)) = D at hobs hlab hann hlen ⊢
  cases D with
  | nil => simp [jblocksLines, jannLines] at hann hlen; omega
  | cons d ds => exact jread_missing d ds ⟨W.pre.hh1, hobs⟩ hlab (by omega) F.trailer W.trailer nl

/-- **A particle line is duplicated**: the loop stops before the trailer, the last event is never closed, the
event-number check fails — `IndexError`. -/
theorem jetscape_duplicated_line (F : JFile) (pt : Bool) (hF : F.wf pt = true)
    (k p : Nat) (b : JBlock) (x : LineF) (hb : F.evs[k]? = some b) (hx : b.parts[p]? = some x) (nl : Bool) :
    readJetscape ⟨dupLine F.lines (F.partPos k p), nl⟩ .all pt none = .error .index := by
  have W := jwf_facts hF
  obtain ⟨A, B, hl, hA, _, hdup⟩ := jlines_split F k p b x hb hx
  rw [hl, ← hA, dupLine_at, hdup]
  have hxm : x ∈ b.parts := List.mem_of_getElem? hx
  have hsub : ∀ q ∈ b.parts.take p ++ x :: x :: b.parts.drop (p + 1), q ∈ b.parts := by
    intro q hq
    simp only [List.mem_append, List.mem_cons] at hq
    rcases hq with h | h | h | h
    · exact List.mem_of_mem_take h
    · exact h ▸ hxm
    · exact h ▸ hxm
    · exact List.mem_of_mem_drop h
  have hp : p < b.parts.length := by
    rcases Nat.lt_or_ge p b.parts.length with h' | h'
    · exact h'
    · rw [List.getElem?_eq_none h'] at hx; cases hx
  have hobs := jwithParts_obs (pt := pt) F.evs k b _ hb W.pre.hbs hsub
  have hlab := jwithParts_labels F.evs k b (b.parts.take p ++ x :: x :: b.parts.drop (p + 1)) hb 1 W.labels
  have hann := jwithParts_ann F.evs k b (b.parts.take p ++ x :: x :: b.parts.drop (p + 1)) hb
  have hlen := jwithParts_len F.evs k b (b.parts.take p ++ x :: x :: b.parts.drop (p + 1)) hb
  have hne := jwithParts_ne F.evs k b (b.parts.take p ++ x :: x :: b.parts.drop (p + 1))
  rw [jannLines_consistent _ W.cons] at hann
  simp only [List.length_append, List.length_take, List.length_drop, List.length_cons] at hlen
  generalize jwithParts F.evs k b (b.parts.take p ++ x :: x :: b.parts.drop (p + 1)) = D at hobs hlab hann hlen hne ⊢
  cases D with
  | nil => exact absurd rfl hne
  | cons d ds => exact jread_extra d ds ⟨W.pre.hh1, hobs⟩ hlab (by omega) F.trailer W.trailer nl

/-- **Truncation at a line boundary**: every proper line prefix of a JETSCAPE file is rejected (its last line does
not contain `sigmaGen`, or there are fewer than two lines). -/
theorem jetscape_truncated_lines (F : JFile) (pt : Bool) (hF : F.wf pt = true)
    (j : Nat) (hj : j < F.lines.length) (nl : Bool) :
    ∃ e, readJetscape ⟨F.lines.take j, nl⟩ .all pt none = .error e := by
  have W := jwf_facts hF
  have hns := jbody_nosigma W
  have e : F.lines.take j = (F.h1 :: jblocksLines F.evs).take j := by
    have : F.lines = (F.h1 :: jblocksLines F.evs) ++ [F.trailer] := by simp [JFile.lines]
    rw [this, List.take_append_of_le_length]
    rw [this] at hj
    simp only [List.length_append, List.length_cons, List.length_nil] at hj ⊢
    omega
  rw [e]
  cases hT : (F.h1 :: jblocksLines F.evs).take j with
  | nil => exact jread_empty nl pt
  | cons a as =>
    have hne : a :: as ≠ [] := by simp
    rw [← List.dropLast_concat_getLast hne]
    refine jread_nosigma _ _ nl pt (hns _ ?_)
    have : (a :: as).getLast hne ∈ (F.h1 :: jblocksLines F.evs).take j := by rw [hT]; exact List.getLast_mem hne
    exact List.mem_of_mem_take this

/-- **Truncation at any byte (partial statement)**: the first `j` lines survive, line `j` is cut to a prefix with
observations `P`, subject to `jprefixHyp`.  The loader fails — unless the cut line is the trailer (and its surviving
part still contains `sigmaGen`), in which case all events, which are all intact, are returned with matching counts. -/
theorem jetscape_truncated_bytes_partial (F : JFile) (pt : Bool) (hF : F.wf pt = true)
    (j : Nat) (hj : j < F.lines.length) (P : LineF) (hP : jprefixHyp F pt j P = true) (nl : Bool) :
    (∃ e, readJetscape ⟨F.lines.take j ++ [P], nl⟩ .all pt none = .error e) ∨
    (j + 1 = F.lines.length ∧ ∃ L, readJetscape ⟨F.lines.take j ++ [P], nl⟩ .all pt none = .ok L ∧ F.agrees L) := by
  have W := jwf_facts hF
  simp only [jprefixHyp, Bool.and_eq_true, Bool.or_eq_true, Bool.not_eq_true', decide_eq_false_iff_not] at hP
  obtain ⟨hsig, hcnt⟩ := hP
  by_cases hlast : j + 1 < F.lines.length
  · left
    rcases hsig with h | h
    · exact absurd hlast h
    · exact jread_nosigma _ P nl pt h
  · have hjl : j + 1 = F.lines.length := by omega
    have hcount : jcountHyp pt P := by
      intro a b n hn
      rcases hcnt with h | h
      · simp [a, b] at h
      · simpa [hn] using h
    have e : F.lines.take j = F.h1 :: jblocksLines F.evs := by
      have : F.lines = (F.h1 :: jblocksLines F.evs) ++ [F.trailer] := by simp [JFile.lines]
      rw [this] at hjl ⊢
      simp only [List.length_append, List.length_cons, List.length_nil] at hjl
      rw [List.take_append_of_le_length (by simp; omega), List.take_of_length_le (by simp; omega)]
    rw [e]
    obtain ⟨h1, evs, tr⟩ := F
    cases evs with
    | nil => exact absurd rfl W.ne
    | cons b bs =>
      rcases jread_cut_trailer b bs W.pre W.cons W.labels P hcount nl with h | ⟨L, hL, a, b', c⟩
      · exact Or.inl h
      · exact Or.inr ⟨hjl, L, hL, jagrees_of W.cons L a b' c⟩

/-! ## The constructors `Oscar(path)` / `Jetscape(path)` only add errors

`Oscar.__init__` parses the impact parameter of every footer after loading, `Jetscape.__init__` parses `sigmaGen`.
Both can only raise; so every theorem above holds verbatim for the constructors: an error of the loader stays an error,
and a successful constructor returns what the loader returned. -/

theorem oscar_ctor_error_or_same (f : FileF) :
    (∃ e, oscarCtor f = .error e) ∨ oscarCtor f = readOscar f .all none := oscarCtor_refines f

theorem jetscape_ctor_error_or_same (f : FileF) (pt : Bool) :
    (∃ e, jetscapeCtor f pt = .error e) ∨ jetscapeCtor f pt = readJetscape f .all pt none := jetscapeCtor_refines f pt

/-- every statement of the shape "error, or a loaded value with property `Q`" about the loader holds for the
constructor (take for `Q` the `agrees` clauses of the truncation theorems) -/
theorem oscar_ctor_outcome (f : FileF) (Q : Loaded → Prop)
    (h : (∃ e, readOscar f .all none = .error e) ∨ ∃ L, readOscar f .all none = .ok L ∧ Q L) :
    (∃ e, oscarCtor f = .error e) ∨ ∃ L, oscarCtor f = .ok L ∧ Q L := by
  rcases oscarCtor_refines f with he | hs
  · exact Or.inl he
  · rcases h with ⟨e, he⟩ | ⟨L, hL, hQ⟩
    · exact Or.inl ⟨e, oscarCtor_of_error f e he⟩
    · exact Or.inr ⟨L, by rw [hs, hL], hQ⟩

theorem jetscape_ctor_outcome (f : FileF) (pt : Bool) (Q : Loaded → Prop)
    (h : (∃ e, readJetscape f .all pt none = .error e) ∨ ∃ L, readJetscape f .all pt none = .ok L ∧ Q L) :
    (∃ e, jetscapeCtor f pt = .error e) ∨ ∃ L, jetscapeCtor f pt = .ok L ∧ Q L := by
  rcases jetscapeCtor_refines f pt with he | hs
  · exact Or.inl he
  · rcases h with ⟨e, he⟩ | ⟨L, hL, hQ⟩
    · exact Or.inl ⟨e, jetscapeCtor_of_error f pt e he⟩
    · exact Or.inr ⟨L, by rw [hs, hL], hQ⟩

theorem oscar_ctor_deleted_line (F : OFile) (fmt : Fmt) (attrs : List String) (hF : F.wf fmt attrs = true)
    (k p : Nat) (b : Block) (x : LineF) (hb : F.evs[k]? = some b) (hx : b.parts[p]? = some x) (nl : Bool) :
    oscarCtor ⟨deleteLine F.lines (F.partPos k p), nl⟩ = .error .index :=
  oscarCtor_of_error _ _ (oscar_deleted_line F fmt attrs hF k p b x hb hx nl)

theorem oscar_ctor_duplicated_line (F : OFile) (fmt : Fmt) (attrs : List String) (hF : F.wf fmt attrs = true)
    (k p : Nat) (b : Block) (x : LineF) (hb : F.evs[k]? = some b) (hx : b.parts[p]? = some x) (nl : Bool) :
    oscarCtor ⟨dupLine F.lines (F.partPos k p), nl⟩ = .error .index :=
  oscarCtor_of_error _ _ (oscar_duplicated_line F fmt attrs hF k p b x hb hx nl)

theorem jetscape_ctor_deleted_line (F : JFile) (pt : Bool) (hF : F.wf pt = true)
    (k p : Nat) (b : JBlock) (x : LineF) (hb : F.evs[k]? = some b) (hx : b.parts[p]? = some x) (nl : Bool) :
    jetscapeCtor ⟨deleteLine F.lines (F.partPos k p), nl⟩ pt = .error .index :=
  jetscapeCtor_of_error _ _ _ (jetscape_deleted_line F pt hF k p b x hb hx nl)

theorem jetscape_ctor_duplicated_line (F : JFile) (pt : Bool) (hF : F.wf pt = true)
    (k p : Nat) (b : JBlock) (x : LineF) (hb : F.evs[k]? = some b) (hx : b.parts[p]? = some x) (nl : Bool) :
    jetscapeCtor ⟨dupLine F.lines (F.partPos k p), nl⟩ pt = .error .index :=
  jetscapeCtor_of_error _ _ _ (jetscape_duplicated_line F pt hF k p b x hb hx nl)

/-! ## Opening with a keep-everything constructor filter (`filters={}`, `{'charged_particles': False}`, …)

With `filters=` the loaders rewrite the count row of every event they close and nothing else; the damage is detected
all the same.  (`readOscar_id_sim` / `readJetscape_id_sim`: whatever loads with such a filter loads without it, with the
same events and `num_events` — so the truncation theorems bound what can be returned with it as well.) -/

theorem oscar_deleted_line_filters (F : OFile) (fmt : Fmt) (attrs : List String) (hF : F.wf fmt attrs = true)
    (k p : Nat) (b : Block) (x : LineF) (hb : F.evs[k]? = some b) (hx : b.parts[p]? = some x) (nl : Bool) :
    ∃ e, readOscar ⟨deleteLine F.lines (F.partPos k p), nl⟩ .all (some idFilter) = .error e := by
  obtain ⟨ho, _, _⟩ := wf_facts hF
  have H := Pre_of_obs_all ho
  obtain ⟨A, B, hl, hA, hdel, _⟩ := lines_split F k p b x hb hx
  refine readOscar_id_error _ F.h1 fmt attrs ?_ H.hfmt H.hmod _ (oscar_deleted_line F fmt attrs hF k p b x hb hx nl)
  show (deleteLine F.lines (F.partPos k p)).head? = some F.h1
  rw [hl, ← hA, eraseIdx_at, hdel]; rfl

theorem oscar_duplicated_line_filters (F : OFile) (fmt : Fmt) (attrs : List String) (hF : F.wf fmt attrs = true)
    (k p : Nat) (b : Block) (x : LineF) (hb : F.evs[k]? = some b) (hx : b.parts[p]? = some x) (nl : Bool) :
    ∃ e, readOscar ⟨dupLine F.lines (F.partPos k p), nl⟩ .all (some idFilter) = .error e := by
  obtain ⟨ho, _, _⟩ := wf_facts hF
  have H := Pre_of_obs_all ho
  obtain ⟨A, B, hl, hA, _, hdup⟩ := lines_split F k p b x hb hx
  refine readOscar_id_error _ F.h1 fmt attrs ?_ H.hfmt H.hmod _ (oscar_duplicated_line F fmt attrs hF k p b x hb hx nl)
  show (dupLine F.lines (F.partPos k p)).head? = some F.h1
  rw [hl, ← hA, dupLine_at, hdup]; rfl

theorem jetscape_deleted_line_filters (F : JFile) (pt : Bool) (hF : F.wf pt = true)
    (k p : Nat) (b : JBlock) (x : LineF) (hb : F.evs[k]? = some b) (hx : b.parts[p]? = some x) (nl : Bool) :
    ∃ e, readJetscape ⟨deleteLine F.lines (F.partPos k p), nl⟩ .all pt (some idFilter) = .error e :=
  readJetscape_id_error _ pt _ (jetscape_deleted_line F pt hF k p b x hb hx nl)

theorem jetscape_duplicated_line_filters (F : JFile) (pt : Bool) (hF : F.wf pt = true)
    (k p : Nat) (b : JBlock) (x : LineF) (hb : F.evs[k]? = some b) (hx : b.parts[p]? = some x) (nl : Bool) :
    ∃ e, readJetscape ⟨dupLine F.lines (F.partPos k p), nl⟩ .all pt (some idFilter) = .error e :=
  readJetscape_id_error _ pt _ (jetscape_duplicated_line F pt hF k p b x hb hx nl)

/-- a keep-everything filter never turns a rejected JETSCAPE file into an accepted one, and what it accepts are the
same events (any file, damaged or not) -/
theorem jetscape_filters_accept_no_more (f : FileF) (pt : Bool) (L : Loaded)
    (h : readJetscape f .all pt (some idFilter) = .ok L) :
    ∃ L', readJetscape f .all pt none = .ok L' ∧ L'.events = L.events ∧ L'.numEvents = L.numEvents :=
  readJetscape_id_sim f pt L h

/-- the same for Oscar files of a modelled format -/
theorem oscar_filters_accept_no_more (f : FileF) (first : LineF) (fmt : Fmt) (attrs : List String)
    (h1 : f.lines.head? = some first) (h2 : oscarFormat first = .ok (fmt, attrs)) (h3 : fmtModelled fmt = true)
    (L : Loaded) (h : readOscar f .all (some idFilter) = .ok L) :
    ∃ L', readOscar f .all none = .ok L' ∧ L'.events = L.events ∧ L'.numEvents = L.numEvents :=
  readOscar_id_sim f first fmt attrs h1 h2 h3 L h

/-! ## "Counts that match", spelled out -/

/-- whatever `agrees`: one row per returned event, the count being the length of its list, `num_events` their number -/
theorem oscar_agrees_counts_match (F : OFile) (m : Nat) (hm : m ≤ F.evs.length) (L : Loaded) (h : F.agrees m L) :
    ∃ rows, L.counts = .arr2d rows ∧ rows.map (·.2) = L.events.map (fun e => (e.length : Int)) ∧
      L.numEvents = (L.events.length : Int) := by
  obtain ⟨h1, h2, h3⟩ := h
  refine ⟨_, h3, ?_, ?_⟩
  · rw [h1, eventsFrom_lengths, List.map_map]; rfl
  · rw [h1, h2, eventsFrom_length, List.length_take]; congr 1; omega

theorem jetscape_agrees_counts_match (F : JFile) (L : Loaded) (h : F.agrees L) :
    ∃ rows, L.counts = .arr2d rows ∧ rows.map (·.2) = L.events.map (fun e => (e.length : Int)) ∧
      L.numEvents = (L.events.length : Int) := by
  obtain ⟨h1, h2, h3⟩ := h
  refine ⟨_, h3, ?_, ?_⟩
  · rw [h1, jeventsFrom_lengths, List.map_map]; rfl
  · rw [h1, h2, jeventsFrom_length]

/-! ## The full byte-level statements (NOT proved here — see below what is missing)

`OSpec` / `JSpec` (`Core/ReaderDamage.lean`) is the grammar of well-formed files as text.  The full statement speaks
about the bytes: for every file of the grammar and every `n`, opening the first `n` bytes gives an error, or exactly
the events `0 … m-1` with matching counts, and then the cut lies behind at least one character of the trailer (`end`
line) of event `m-1` and not behind its newline — "at an event boundary or inside the final trailer".

What is proved: `oscar_truncated_lines` + `oscar_truncated_bytes_partial` (resp. the JETSCAPE pair) give exactly this
conclusion for the *observations* of the lines.  Missing for the full statement are three string-level facts about
`String.splitOn` (whose definition by byte positions is out of reach of a proof in the time available):
 (i)   classification: `analyse` of every rendered line has the observations of its kind, i.e. the parsed file is `wf`;
 (ii)  `fileOfText` of a byte prefix = the analysed complete lines followed by `analyse` of the partial line;
 (iii) `prefixHyp` / `jprefixHyp` for `analyse` of every proper prefix of a rendered line.
The driver checks (i), (ii), (iii) on the real bytes of every generated file and every one of its prefixes (flags
`wf`, `S`, `H` of the `cuts` op) and checks that the grammar renders the very bytes under test (`render` op). -/

def oscar_truncated_bytes : Prop :=
  ∀ (S : OSpec) (nl : Bool), S.ok = true →
    ∃ F fmt attrs, parseOscar (Proto.fileOfText (S.text nl)).lines = some F ∧ F.wf fmt attrs = true ∧
      ∀ n, n ≤ (S.text nl).length →
        (∃ e, readOscar (Proto.fileOfText (takeBytes (S.text nl) n)) .all none = .error e) ∨
        ∃ m L, 1 ≤ m ∧ m ≤ F.evs.length ∧
          readOscar (Proto.fileOfText (takeBytes (S.text nl) n)) .all none = .ok L ∧ F.agrees m L ∧
          lineStart S.lines (F.endPos m - 1) < n ∧ n ≤ lineStart S.lines (F.endPos m)

def jetscape_truncated_bytes : Prop :=
  ∀ (S : JSpec) (nl : Bool), S.ok = true →
    ∃ F, parseJetscape (Proto.fileOfText (S.text nl)).lines = some F ∧ F.wf S.partons = true ∧
      ∀ n, n ≤ (S.text nl).length →
        (∃ e, readJetscape (Proto.fileOfText (takeBytes (S.text nl) n)) .all S.partons none = .error e) ∨
        ∃ L, readJetscape (Proto.fileOfText (takeBytes (S.text nl) n)) .all S.partons none = .ok L ∧ F.agrees L ∧
          lineStart S.lines (S.lines.length - 1) < n

/-! ## The hypotheses are satisfiable (non-vacuity)

The kernel cannot evaluate `String.toInt?` / `String.splitOn` on literals, so the concrete file below is given by its
observations, and the three token conversions it needs are hypotheses (the driver evaluates them at run time: every
generated file passes `wf`).  Two events — one with a particle, one empty. -/

private def cmt (raw : String) (toks : List String) (ev out outSp endd endSp : Bool) : LineF :=
  { raw := raw, toks := toks, toksTab := toks, hasHash := true, hasEvent := ev, hasOut := out, hasOutSp := outSp,
    hasInSp := false, hasSpIn := false, hasStart := false, hasEnd := endd, hasEndSp := endSp, hasSigma := false,
    hasWeight := false, hasEventCap := false, hasNHadrons := false, hasNPartons := false }

private def exPart : LineF :=
  { raw := "1.5 1.5 1.5 1.5 1.5 1.5 1.5 1.5 1.5 0 0 0",
    toks := ["1.5", "1.5", "1.5", "1.5", "1.5", "1.5", "1.5", "1.5", "1.5", "0", "0", "0"],
    toksTab := ["1.5", "1.5", "1.5", "1.5", "1.5", "1.5", "1.5", "1.5", "1.5", "0", "0", "0"],
    hasHash := false, hasEvent := false, hasOut := false, hasOutSp := false, hasInSp := false, hasSpIn := false,
    hasStart := false, hasEnd := false, hasEndSp := false, hasSigma := false, hasWeight := false, hasEventCap := false,
    hasNHadrons := false, hasNPartons := false }

private def exFile : OFile :=
  { h1 := cmt "#!OSCAR2013 particle_lists t" ["#!OSCAR2013", "particle_lists", "t"] false false false false false,
    h2 := cmt "# Units: fm" ["#", "Units:", "fm"] false false false false false,
    h3 := cmt "# SMASH-3.1" ["#", "SMASH-3.1"] false false false false false,
    evs := [ { label := 0, announced := 1, out := cmt "# event 0 out 1" ["#", "event", "0", "out", "1"] true true true false false,
               parts := [exPart],
               endl := cmt "# event 0 end 0 impact 1.5 x yes" ["#", "event", "0", "end", "0", "impact", "1.5", "x", "yes"] true false false true true },
             { label := 1, announced := 0, out := cmt "# event 1 out 0" ["#", "event", "1", "out", "0"] true true true false false,
               parts := [],
               endl := cmt "# event 1 end 0 impact 1.5 x yes" ["#", "event", "1", "end", "0", "impact", "1.5", "x", "yes"] true false false true true } ] }

theorem example_file_wf (h0 : pyInt? "0" = some 0) (h1 : pyInt? "1" = some 1) (hf : isPyFloat "1.5" = true) :
    exFile.wf .oscar2013 [] = true := by
  have hi0 : isPyInt "0" = true := by simp [isPyInt, h0]
  simp [OFile.wf, OFile.obs, exFile, cmt, exPart, oscarFormat, fmtModelled, isHdr, scanSilent, lastLineOk, Block.obs,
    isOut, isEnd, isPart, evSkip, tokInt, labelsFrom, consistent, colsOk, colKinds, fieldsOk, h0, h1, hf, hi0]

/-- hence, under the same three conversions, every Oscar theorem above applies to a concrete non-trivial file; e.g.
its only particle line (file line 4) deleted / duplicated -/
example (h0 : pyInt? "0" = some 0) (h1 : pyInt? "1" = some 1) (hf : isPyFloat "1.5" = true) (nl : Bool) :
    readOscar ⟨deleteLine exFile.lines 4, nl⟩ .all none = .error .index ∧
    readOscar ⟨dupLine exFile.lines 4, nl⟩ .all none = .error .index :=
  ⟨oscar_deleted_line exFile .oscar2013 [] (example_file_wf h0 h1 hf) 0 0 _ exPart rfl rfl nl,
   oscar_duplicated_line exFile .oscar2013 [] (example_file_wf h0 h1 hf) 0 0 _ exPart rfl rfl nl⟩

/-- `prefixHyp` is satisfiable by a genuinely partial trailer: line 5 (`# event 0 end …`) cut to `# event 0 end` -/
example : prefixHyp exFile 5 (cmt "# event 0 end" ["#", "event", "0", "end"] true false false true false) = true := by
  simp [prefixHyp, cmt, tokInt, OFile.isEndPos, OFile.endPos, exFile, blocksLines, Block.lines, evSkip, lastLineOk]

end SparkxVerif.C07
