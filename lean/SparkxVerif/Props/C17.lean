/-
C17 — Lattice addressing, arithmetic and CSV persistence are consistent.

Property theorems only (helper lemmas: `Lemmas/Lattice.lean`, `Lemmas/Lattice3D.lean`).  Every function
named here (`getIndex`, `getIndexNN`, `closestIndex`, `getCoord`, `Lat.setValue`, `Lat.run`, `Lat.operate`,
`exec`, `save`, `load`, …) is the executable model of `Core/Lattice.lean` that the driver runs at `Float`
against the real class; here it is instantiated at an arbitrary linear order (index search), an arbitrary
linearly ordered field (nearest node), `XVal α` (a number or NaN) and arbitrary value types (grid contents).

How the English was rendered
* "all lattice geometries": any strictly increasing node lists of any lengths (three independent axes,
  any extents — negative ones included), counts `nx ny nz` arbitrary; `np.linspace` is the parameter `lin`.
* "all points inside and outside": any `v : α`, and NaN through `XVal α`.
* "all grid contents": `β` is an arbitrary type for addressing / histories / CSV, any type with `+ - * /`
  for the operators.
* "all sequences of set/get operations": `Lat.run` over an arbitrary `List (Op α β)`, by induction.
* "reported rather than wrapped": the model carries numpy's negative-index wrap (`npAxis`); the theorems
  show the guards keep it unreachable, and that a rejected point/index yields an error or the warning flag
  and never another cell's value.
-/
import SparkxVerif.Lemmas.Lattice3D
import Mathlib.Tactic.NormNum
import Mathlib.Data.Rat.Defs
import Mathlib.Algebra.Order.Ring.Rat

namespace SparkxVerif.C17
open SparkxVerif.Lattice

/-! ## 1. One axis: the index search addresses the lower corner of the containing cell -/

section axis
variable {α : Type} [LinearOrder α]

/-- **C17 / lower corner (with NaN).** On strictly increasing nodes, `__get_index` answers `i` for a double
`v` (a number or NaN) exactly when `v` is a number and node `i` is the lower corner of the cell containing it:
`xs[i] ≤ v`, `v < xs[i+1]` if there is a next node, and for the last node only `v = xs[i]` (upper edge). -/
theorem lower_corner {xs : List α} (hs : Increasing xs) (v : XVal α) (i : Nat) :
    getIndex (xs.map XVal.num) v = .ok i ↔ ∃ a, v = .num a ∧ IsLowerCorner xs a i :=
  getIndex_xval_ok_iff hs v i

/-- **C17 / reported, not wrapped.** Whenever the point has no containing cell (outside the node range, or
NaN) the search raises `ValueError`; by `lower_corner` it can never answer a different cell. -/
theorem no_cell_is_reported {xs : List α} (hs : Increasing xs) (hne : xs ≠ []) (v : XVal α)
    (h : ¬ ∃ a i, v = .num a ∧ IsLowerCorner xs a i) :
    getIndex (xs.map XVal.num) v = .error .value := by
  cases v with
  | nan => exact getIndex_nan hne
  | num a =>
    rw [getIndex_num, getIndex_error_iff hs hne]
    rintro ⟨i, hi⟩; exact h ⟨a, i, rfl, hi⟩

/-- every point of `[first node, last node]` has exactly one lower corner and the search finds it -/
theorem inside_gets_its_cell {xs : List α} (hs : Increasing xs) (hne : xs ≠ []) (v : α)
    (h1 : xs[0]'(List.length_pos_iff.2 hne) ≤ v)
    (h2 : v ≤ xs[xs.length - 1]'(Nat.sub_lt (List.length_pos_iff.2 hne) Nat.one_pos)) :
    ∃ i, getIndex xs v = .ok i ∧ IsLowerCorner xs v i ∧ ∀ j, IsLowerCorner xs v j → j = i := by
  obtain ⟨i, hi, hc⟩ := getIndex_inside hs hne v h1 h2
  exact ⟨i, hi, hc, fun j hj => hj.unique hs hc⟩

omit [LinearOrder α] in
/-- **C17 / negative indices.** `get_coordinates` along one axis: an index outside `0 … n-1` is a
`ValueError` – Python's `values[-1]` is never reached – and a valid index returns that node. -/
theorem coordinate_lookup (xs : List α) (i : Int) :
    (∀ a, getCoord xs xs.length i = .ok a ↔ 0 ≤ i ∧ xs[i.toNat]? = some a) ∧
    (i < 0 ∨ (xs.length : Int) ≤ i → getCoord xs xs.length i = .error .value) :=
  ⟨fun a => getCoord_ok_iff xs i a, getCoord_invalid xs _ i⟩

end axis

/-! ## 2. One axis: nearest node, and `get_coordinates` / `find_closest_indices` are inverse at nodes -/

section nearest
variable {α : Type} [Field α] [LinearOrder α] [IsStrictOrderedRing α]

/-- **C17 / nearest neighbour.** `__get_index_nearest_neighbor` answers exactly for points of
`[first node, last node]`, and then a node of minimal distance `|v − x|` (the first on a tie); any other
point is reported. -/
theorem nearest_neighbour (xs : List α) (v : α) :
    (InRange xs v ∧ ∃ m, getIndexNN xs v = .ok m ∧ IsNearest xs v m) ∨
    (¬ InRange xs v ∧ ∃ e, getIndexNN xs v = .error e) := by
  rcases getIndexNN_cases xs v with ⟨a, b, c⟩ | h
  · exact Or.inl ⟨a, _, b, c⟩
  · exact Or.inr h

omit [IsStrictOrderedRing α] in
/-- a NaN coordinate is reported by the nearest-neighbour search too -/
theorem nearest_neighbour_nan {xs : List α} (hne : xs ≠ []) :
    getIndexNN (xs.map XVal.num) XVal.nan = .error .value := by
  unfold getIndexNN; rw [rangeOk_nan hne]

/-- **C17 / closest node.** `find_closest_indices` along one axis answers a node of minimal distance, the
first one on a tie (no range restriction: outside points get the nearest edge node plus a warning). -/
theorem closest_is_closest {xs : List α} (hne : xs ≠ []) (v : α) :
    ∃ h : closestIndex xs v < xs.length,
      (∀ j (hj : j < xs.length), |xs[closestIndex xs v] - v| ≤ |xs[j] - v|) ∧
      (∀ j (hj : j < xs.length), j < closestIndex xs v → |xs[closestIndex xs v] - v| < |xs[j] - v|) :=
  closestIndex_min hne v

/-- **C17 / inverse at every node, one axis.** For pairwise different nodes (in particular strictly
increasing *or* decreasing ones) `closest (coord i) = i` and `coord (closest x_i) = x_i`. -/
theorem coord_closest_inverse {xs : List α} (hd : xs.Nodup) (i : Nat) (h : i < xs.length) :
    getCoord xs xs.length (i : Int) = .ok xs[i] ∧
    closestIndex xs xs[i] = i ∧
    getCoord xs xs.length (closestIndex xs xs[i] : Int) = .ok xs[i] ∧
    nearestOf xs xs[i] = i := by
  refine ⟨getCoord_nat xs i h, closestIndex_node hd i h, ?_, nearestOf_node hd i h⟩
  rw [closestIndex_node hd i h]; exact getCoord_nat xs i h

theorem Increasing.nodup {α : Type} [LinearOrder α] {xs : List α} (h : Increasing xs) : xs.Nodup :=
  List.Pairwise.imp (fun hab => ne_of_lt hab) h

end nearest

/-! ## 3. The 3-D object: by-index access never wraps, C-order addressing -/

section grid
variable {α β : Type}

/-- **C17 / `get_value_by_index`.** A triple outside the shape (negative indices included) gives the
warning and `None`; a valid triple gives the value stored at exactly that node. -/
theorem get_by_index_never_wraps {L : Lat α β} (hwf : L.WF) (i j k : Int) :
    L.getByIndex i j k = .ok (if L.validIndex i j k then L.at? i.toNat j.toNat k.toNat else none) :=
  Lat.getByIndex_spec hwf i j k

/-- **C17 / `set_value_by_index`.** An invalid triple writes nothing (flag = warned); a valid one changes
exactly its own node and nothing else; geometry and shape are untouched. -/
theorem set_by_index_never_wraps {L : Lat α β} (hwf : L.WF) (i j k : Int) (v : β) :
    ∃ L', L.setByIndex i j k v = .ok (L', !L.validIndex i j k) ∧ L'.toGeom = L.toGeom ∧ L'.WF ∧
      ∀ a b c, L'.at? a b c =
        if L.validIndex i j k = true ∧ (a, b, c) = (i.toNat, j.toNat, k.toNat) then some v else L.at? a b c :=
  Lat.setByIndex_spec hwf i j k v

/-- **C17 / CSV order.** `grid_[i, j, k]` ↔ position `(i·ny + j)·nz + k` of the saved row is a bijection
between valid triples and `0 … nx·ny·nz − 1`. -/
theorem csv_order {nx ny nz : Nat} :
    (∀ i j k, i < nx → j < ny → k < nz →
        flat ny nz i j k < nx * ny * nz ∧ unflat ny nz (flat ny nz i j k) = (i, j, k)) ∧
    (∀ p, flat ny nz (unflat ny nz p).1 (unflat ny nz p).2.1 (unflat ny nz p).2.2 = p) :=
  ⟨fun i j k hi hj hk => ⟨flat_lt hi hj hk, unflat_flat i j k hj hk⟩, fun p => flat_unflat p⟩

end grid

/-! ## 4. Point access: `set_value` / `get_value` address the lower corner, the `_nearest_neighbor`
variants the nearest node; anything else is reported -/

section point
variable {α β : Type}

/-- **C17 / `get_value`.** Either the point has a lower-corner node on every axis and `get_value` returns
what is stored at that node, or it has not and the call raises. -/
theorem get_value_lower_corner [LinearOrder α] {L : Lat α β} (hwf : L.WF) (hsh : L.toGeom.Shaped)
    (hinc : L.toGeom.Incr) (x y z : α) :
    (∃ i j k v, IsLowerCorner L.xs x i ∧ IsLowerCorner L.ys y j ∧ IsLowerCorner L.zs z k ∧
        L.at? i j k = some v ∧ L.getValue x y z = .ok (some v)) ∨
    ((¬ ∃ i j k, IsLowerCorner L.xs x i ∧ IsLowerCorner L.ys y j ∧ IsLowerCorner L.zs z k) ∧
        ∃ e, L.getValue x y z = .error e) := by
  unfold Lat.getValue
  rcases Lat.getIndices_cases hinc x y z with ⟨i, j, k, h, hc⟩ | ⟨⟨e, h⟩, hn⟩
  · left
    have hv := Lat.corner_valid hsh hc
    obtain ⟨v, hv0⟩ := Lat.at?_isSome hwf hv
    refine ⟨i, j, k, v, hc.1, hc.2.1, hc.2.2, hv0, ?_⟩
    rw [h]; simp only [Lat.getByIndex_nat hwf hv, hv0]
  · right; refine ⟨hn, e, ?_⟩; rw [h]

/-- **C17 / `set_value`.** Either the point has a lower-corner node on every axis, and `set_value` writes
`v` there and changes no other node (no warning); or it has not, and the call raises leaving the object alone. -/
theorem set_value_lower_corner [LinearOrder α] {L : Lat α β} (hwf : L.WF) (hsh : L.toGeom.Shaped)
    (hinc : L.toGeom.Incr) (x y z : α) (v : β) :
    (∃ i j k L', IsLowerCorner L.xs x i ∧ IsLowerCorner L.ys y j ∧ IsLowerCorner L.zs z k ∧
        L.setValue x y z v = .ok (L', false) ∧ L'.toGeom = L.toGeom ∧ L'.WF ∧
        ∀ a b c, L'.at? a b c = if (a, b, c) = (i, j, k) then some v else L.at? a b c) ∨
    ((¬ ∃ i j k, IsLowerCorner L.xs x i ∧ IsLowerCorner L.ys y j ∧ IsLowerCorner L.zs z k) ∧
        ∃ e, L.setValue x y z v = .error e) := by
  unfold Lat.setValue
  rcases Lat.getIndices_cases hinc x y z with ⟨i, j, k, h, hc⟩ | ⟨⟨e, h⟩, hn⟩
  · left
    obtain ⟨L', h1, h2, h3, h4⟩ := Lat.setByIndex_nat hwf (Lat.corner_valid hsh hc) v
    refine ⟨i, j, k, L', hc.1, hc.2.1, hc.2.2, ?_, h2, h3, h4⟩
    rw [h]; exact h1
  · right; refine ⟨hn, e, ?_⟩; rw [h]

variable [Field α] [LinearOrder α] [IsStrictOrderedRing α]

/-- **C17 / `get_value_nearest_neighbor`.** Inside the node range: the value stored at the node nearest to
the point on every axis; otherwise the call raises. -/
theorem get_value_nearest {L : Lat α β} (hwf : L.WF) (hsh : L.toGeom.Shaped) (x y z : α) :
    (∃ i j k v, IsNearest L.xs x i ∧ IsNearest L.ys y j ∧ IsNearest L.zs z k ∧
        L.at? i j k = some v ∧ L.getValueNN x y z = .ok (some v)) ∨
    (¬ (InRange L.xs x ∧ InRange L.ys y ∧ InRange L.zs z) ∧ ∃ e, L.getValueNN x y z = .error e) := by
  unfold Lat.getValueNN
  rcases L.getIndicesNN_cases x y z with ⟨i, j, k, h, n1, n2, n3, -⟩ | ⟨⟨e, h⟩, hn⟩
  · left
    have hv : i < L.nx ∧ j < L.ny ∧ k < L.nz := ⟨hsh.1 ▸ n1.1, hsh.2.1 ▸ n2.1, hsh.2.2 ▸ n3.1⟩
    obtain ⟨v, hv0⟩ := Lat.at?_isSome hwf hv
    refine ⟨i, j, k, v, n1, n2, n3, hv0, ?_⟩
    rw [h]; simp only [Lat.getByIndex_nat hwf hv, hv0]
  · right; refine ⟨hn, e, ?_⟩; rw [h]

/-- **C17 / `set_value_nearest_neighbor`.** -/
theorem set_value_nearest {L : Lat α β} (hwf : L.WF) (hsh : L.toGeom.Shaped) (x y z : α) (v : β) :
    (∃ i j k L', IsNearest L.xs x i ∧ IsNearest L.ys y j ∧ IsNearest L.zs z k ∧
        L.setValueNN x y z v = .ok (L', false) ∧ L'.toGeom = L.toGeom ∧ L'.WF ∧
        ∀ a b c, L'.at? a b c = if (a, b, c) = (i, j, k) then some v else L.at? a b c) ∨
    (¬ (InRange L.xs x ∧ InRange L.ys y ∧ InRange L.zs z) ∧ ∃ e, L.setValueNN x y z v = .error e) := by
  unfold Lat.setValueNN
  rcases L.getIndicesNN_cases x y z with ⟨i, j, k, h, n1, n2, n3, -⟩ | ⟨⟨e, h⟩, hn⟩
  · left
    have hv : i < L.nx ∧ j < L.ny ∧ k < L.nz := ⟨hsh.1 ▸ n1.1, hsh.2.1 ▸ n2.1, hsh.2.2 ▸ n3.1⟩
    obtain ⟨L', h1, h2, h3, h4⟩ := Lat.setByIndex_nat hwf hv v
    refine ⟨i, j, k, L', n1, n2, n3, ?_, h2, h3, h4⟩
    rw [h]; exact h1
  · right; refine ⟨hn, e, ?_⟩; rw [h]

/-- **C17 / `get_coordinates` and `find_closest_indices` are inverse at every node** (3-D), for node arrays
without repeated entries: `closest (coords (i,j,k)) = (i,j,k)` and `coords (closest (x_i,y_j,z_k)) = (x_i,y_j,z_k)`;
an index triple outside the shape (negative entries included) is a `ValueError`. -/
theorem coordinates_closest_inverse {L : Lat α β} (hsh : L.toGeom.Shaped)
    (hx : L.xs.Nodup) (hy : L.ys.Nodup) (hz : L.zs.Nodup)
    (i j k : Nat) (hi : i < L.xs.length) (hj : j < L.ys.length) (hk : k < L.zs.length) :
    L.getCoordinates i j k = .ok (L.xs[i], L.ys[j], L.zs[k]) ∧
    (L.findClosestIndices L.xs[i] L.ys[j] L.zs[k]).1 = (i, j, k) ∧
    L.getCoordinates (L.findClosestIndices L.xs[i] L.ys[j] L.zs[k]).1.1
        (L.findClosestIndices L.xs[i] L.ys[j] L.zs[k]).1.2.1
        (L.findClosestIndices L.xs[i] L.ys[j] L.zs[k]).1.2.2 = .ok (L.xs[i], L.ys[j], L.zs[k]) := by
  have hc : L.getCoordinates i j k = .ok (L.xs[i], L.ys[j], L.zs[k]) := by
    unfold Lat.getCoordinates
    rw [← hsh.1, ← hsh.2.1, ← hsh.2.2, getCoord_nat _ i hi, getCoord_nat _ j hj, getCoord_nat _ k hk]
  have hf : (L.findClosestIndices L.xs[i] L.ys[j] L.zs[k]).1 = (i, j, k) := by
    simp only [Lat.findClosestIndices, closestIndex_node hx i hi, closestIndex_node hy j hj,
      closestIndex_node hz k hk]
  refine ⟨hc, hf, ?_⟩
  rw [hf]; exact hc

omit [Field α] [LinearOrder α] [IsStrictOrderedRing α] in
/-- `get_coordinates` with any index outside the shape raises `ValueError` (no wrap to the last node) -/
theorem coordinates_reported [LT α] [LE α] [DecidableLT α] [DecidableLE α] (L : Lat α β) (i j k : Int)
    (h : ¬ ((0 ≤ i ∧ i < L.nx) ∧ (0 ≤ j ∧ j < L.ny) ∧ (0 ≤ k ∧ k < L.nz))) :
    ∃ e, L.getCoordinates i j k = .error e := by
  unfold Lat.getCoordinates
  by_cases h1 : 0 ≤ i ∧ i < L.nx
  · by_cases h2 : 0 ≤ j ∧ j < L.ny
    · have h3 : k < 0 ∨ (L.nz : Int) ≤ k := by
        by_contra hc; exact h ⟨h1, h2, by omega⟩
      rw [getCoord_invalid _ _ k h3]
      cases getCoord L.xs L.nx i <;> cases getCoord L.ys L.ny j <;> exact ⟨_, rfl⟩
    · rw [getCoord_invalid _ _ j (by omega)]
      cases getCoord L.xs L.nx i <;> exact ⟨_, rfl⟩
  · rw [getCoord_invalid _ _ i (by omega)]; exact ⟨_, rfl⟩

omit [IsStrictOrderedRing α] in
/-- `find_closest_indices` warns exactly when the point is outside the stored extents (a NaN coordinate is) -/
theorem closest_warns_iff_outside (L : Lat α β) (x y z : α) :
    (L.findClosestIndices x y z).2 = true ↔
      ¬ ((L.xmin ≤ x ∧ x ≤ L.xmax) ∧ (L.ymin ≤ y ∧ y ≤ L.ymax) ∧ (L.zmin ≤ z ∧ z ≤ L.zmax)) := by
  simp only [Lat.findClosestIndices, Bool.not_eq_true', ← Bool.not_eq_true, Lat.withinRange,
    Bool.and_eq_true, decide_eq_true_eq, and_assoc]

omit [Field α] [IsStrictOrderedRing α] in
/-- **C17 / interpolation at nodes.** `interpolate_value` raises `TypeError` outside the extents; inside it
returns what `interpn` returns, hence – for every `interp` that reproduces the data at grid points (the
contract of `scipy.interpolate.interpn`, methods `nearest` and `linear`) – the node value at a node. -/
theorem interpolate_at_node {M : Type}
    (interp : List α → List α → List α → List β → α × α × α → M → Except Err β)
    (hcontract : ∀ (xs ys zs : List α) (g : List β) (i j k : Nat) (hi : i < xs.length) (hj : j < ys.length)
      (hk : k < zs.length) (m : M) (v : β), g[flat ys.length zs.length i j k]? = some v →
      interp xs ys zs g (xs[i], ys[j], zs[k]) m = .ok v)
    {L : Lat α β} (hsh : L.toGeom.Shaped) (hinc : L.toGeom.Incr) (han : L.toGeom.Anchored)
    (i j k : Nat) (hi : i < L.xs.length) (hj : j < L.ys.length) (hk : k < L.zs.length) (m : M) (v : β)
    (hv : L.at? i j k = some v) :
    L.interpolateValue interp L.xs[i] L.ys[j] L.zs[k] m = .ok v := by
  have hr : ∀ {xs : List α} {lo hi : α} (n : Nat) (hn : n < xs.length), Increasing xs → xs.head? = some lo →
      xs.getLast? = some hi → lo ≤ xs[n] ∧ xs[n] ≤ hi := by
    intro xs lo hi n hn hs h1 h2
    have hpos : 0 < xs.length := by omega
    rw [List.head?_eq_getElem?, List.getElem?_eq_getElem hpos] at h1
    rw [List.getLast?_eq_getElem?, List.getElem?_eq_getElem (by omega)] at h2
    injection h1 with h1; injection h2 with h2
    exact ⟨h1 ▸ hs.le hpos hn (Nat.zero_le _), h2 ▸ hs.le hn (by omega) (by omega)⟩
  obtain ⟨a1, a2, a3, a4, a5, a6⟩ := han
  have rx := hr i hi hinc.1 a1 a2
  have ry := hr j hj hinc.2.1 a3 a4
  have rz := hr k hk hinc.2.2 a5 a6
  have hw : L.withinRange L.xs[i] L.ys[j] L.zs[k] = true := by
    simp [Lat.withinRange, rx.1, rx.2, ry.1, ry.2, rz.1, rz.2]
  unfold Lat.interpolateValue
  simp only [hw, Bool.not_true, Bool.false_eq_true, if_false]
  have hin : i < L.nx ∧ j < L.ny ∧ k < L.nz := ⟨hsh.1 ▸ hi, hsh.2.1 ▸ hj, hsh.2.2 ▸ hk⟩
  have hg : L.grid[flat L.ys.length L.zs.length i j k]? = some v := by
    rw [hsh.2.1, hsh.2.2]; simpa [Lat.at?, hin] using hv
  rw [hcontract L.xs L.ys L.zs L.grid i j k hi hj hk m v hg]

omit [Field α] [IsStrictOrderedRing α] in
/-- outside the stored extents `interpolate_value` raises (`TypeError`) whatever `interpn` would do -/
theorem interpolate_outside_reported {M : Type}
    (interp : List α → List α → List α → List β → α × α × α → M → Except Err β) (L : Lat α β) (x y z : α) (m : M)
    (h : ¬ ((L.xmin ≤ x ∧ x ≤ L.xmax) ∧ (L.ymin ≤ y ∧ y ≤ L.ymax) ∧ (L.zmin ≤ z ∧ z ≤ L.zmax))) :
    L.interpolateValue interp x y z m = .error .type := by
  have : L.withinRange x y z = false := by
    rw [← Bool.not_eq_true]; intro hw; apply h
    simpa [Lat.withinRange, and_assoc] using hw
  simp [Lat.interpolateValue, this]

end point

/-! ## 5. All sequences of set / rescale operations -/

section history
variable {α β : Type} [LT α] [LE α] [DecidableLT α] [DecidableLE α] [Sub α] [Neg α] [NatCast α] [Mul β]

/-- **C17 / histories.** After ANY sequence of `set_value_by_index`, `set_value`,
`set_value_nearest_neighbor` and `rescale` calls (failing / warned ones included), geometry and shape are
unchanged and every node `(a, b, c)` holds the result of replaying, in order, exactly the calls addressed to
it (`Lat.target`: the validated index triple, the lower-corner cell, the nearest node) and the rescalings. -/
theorem all_histories {L : Lat α β} (hwf : L.WF) (ops : List (Op α β)) :
    (L.run ops).toGeom = L.toGeom ∧ (L.run ops).WF ∧
    ∀ a b c, (L.run ops).at? a b c =
      (L.at? a b c).map (fun v0 => ops.foldl (fun cur op => op.stepVal (L.target op) (a, b, c) cur) v0) :=
  Lat.run_spec hwf ops

end history

/-! ## 6. `+ - * /`, `average`, `rescale` act element-wise and leave their operands alone -/

section arithmetic
variable {α β : Type}

/-- **C17 / operators.** `A ∘ B` for `∘ ∈ {+, −, *, /}` (any binary `f`): `ValueError` for different shapes,
otherwise a new lattice with `A`'s geometry whose node `(a,b,c)` holds `f (A at (a,b,c)) (B at (a,b,c))`. -/
theorem operators_elementwise (lin : α → α → Nat → List α) (f : β → β → β) (A B : Lat α β)
    (hb : A.toGeom.Built lin) :
    (A.sameShape B = false ∧ A.operate lin f B = .error .value) ∨
    (A.sameShape B = true ∧ ∃ R, A.operate lin f B = .ok R ∧ R.toGeom = A.toGeom ∧
      (A.WF → B.WF → R.WF) ∧
      ∀ a b c, R.at? a b c = (A.at? a b c).bind (fun x => (B.at? a b c).map (fun y => f x y))) :=
  Lat.operate_spec lin f A B hb

/-- **C17 / average.** Node `(a,b,c)` of `A.average(B₁,…,Bₙ)` holds `((((0 + A) + B₁) + …) + Bₙ) / (n+1)` of the
node values (numpy's reduction starts from the additive identity); a differently shaped operand is a `ValueError`. -/
theorem average_elementwise [NatCast β] [Add β] [Div β] (lin : α → α → Nat → List α) (A : Lat α β)
    (Bs : List (Lat α β)) (hb : A.toGeom.Built lin) :
    ((∀ B ∈ Bs, A.sameShape B = true) → ∃ R, A.average lin Bs = .ok R ∧ R.toGeom = A.toGeom ∧
      ∀ a b c, R.at? a b c =
        (Bs.foldl (fun s B => s.bind (fun x => (B.at? a b c).map (fun y => x + y)))
            ((A.at? a b c).map (fun x => ((0 : Nat) : β) + x))).map
          (fun s => s / ((Bs.length + 1 : Nat) : β))) ∧
    ((∃ B ∈ Bs, A.sameShape B = false) → A.average lin Bs = .error .value) :=
  ⟨Lat.average_spec lin A Bs hb, Lat.average_reject lin A Bs⟩

/-- **C17 / rescale.** every node value is multiplied by the factor; geometry and shape stay -/
theorem rescale_elementwise [Mul β] (L : Lat α β) (f : β) :
    (L.rescale f).toGeom = L.toGeom ∧ (L.WF → (L.rescale f).WF) ∧
    ∀ a b c, (L.rescale f).at? a b c = (L.at? a b c).map (· * f) :=
  ⟨rfl, fun h => by simpa [Lat.rescale, Lat.WF] using h, fun a b c => by
    unfold Lat.rescale Lat.at?
    by_cases h : a < L.nx ∧ b < L.ny ∧ c < L.nz <;> simp [h]⟩

/-- **C17 / operands unchanged.** Among any number of live lattices, one command (a mutating call on one
object, an operator, an average) leaves every object other than the one it is a mutating call on exactly as it
was; operators and `average` only append their result.  By induction this holds for every command sequence. -/
theorem operands_unchanged [LT α] [LE α] [DecidableLT α] [DecidableLE α] [Sub α] [Neg α] [NatCast α]
    [Add β] [Sub β] [Mul β] [Div β] [NatCast β]
    (lin : α → α → Nat → List α) (env : List (Lat α β)) (cmds : List (Cmd α β)) (m : Nat)
    (hm : m < env.length) (hne : ∀ c ∈ cmds, ∀ o, c ≠ .op m o) :
    (cmds.foldl (exec lin) env)[m]? = env[m]? := by
  induction cmds generalizing env with
  | nil => rfl
  | cons c t ih =>
    simp only [List.foldl_cons]
    rw [ih (exec lin env c) (lt_of_lt_of_le hm (exec_length_le lin env c))
      (fun c' hc' => hne c' (by simp [hc']))]
    exact exec_frame lin env c m hm (hne c (by simp))

end arithmetic

/-! ## 7. CSV persistence -/

/-- **C17 / CSV.** `load_from_csv (save_to_csv L) = L` – extents, node counts, node arrays and every grid
value – for every constructor-built lattice of matching grid size, given the two facts about the text layer
that are assumed (and checked on the real numpy for every value the harness writes): `loadtxt` reads back what
`savetxt('%.18e')` wrote (`parse (fmt x) = x`), and `int(float(n)) = n`. -/
theorem csv_roundtrip {α : Type} (lin : α → α → Nat → List α) (ofNat : Nat → α) (toNat : α → Nat)
    (fmt : α → String) (parse : String → Option α)
    (hp : ∀ x, parse (fmt x) = some x) (hn : ∀ n, toNat (ofNat n) = n)
    (L : Lat α α) (hwf : L.WF) (hb : L.toGeom.Built lin) :
    load lin toNat parse (save ofNat fmt L) = .ok L :=
  load_save lin ofNat toNat fmt parse hp hn L hwf hb

/-- the saved row is `9 + nx·ny·nz` fields long, metadata first -/
theorem csv_row_length {α : Type} (ofNat : Nat → α) (fmt : α → String) (L : Lat α α) (hwf : L.WF) :
    (save ofNat fmt L).length = 9 + L.nx * L.ny * L.nz := by
  simp [save, hwf.symm]; omega

/-! ## 8. Monitor for the defect repaired by proposed fix C17-1 (not an obligation of the repaired tree) -/

/-- with the guard written as `value < values[0] or value > values[-1]` a NaN coordinate passes and is mapped
to the LAST node by the cell search and to the FIRST node by the nearest-neighbour search -/
theorem unguarded_nan_wraps :
    getIndexUnguarded ([0, 1, 2].map XVal.num : List (XVal Int)) XVal.nan = .ok 2 ∧
    getIndexNNUnguarded ([0, 1, 2].map XVal.num : List (XVal Int)) XVal.nan = .ok 0 := by
  constructor <;> decide

/-! ## 9. The hypotheses are satisfiable by concrete, non-trivial objects -/

/-- a 3 × 2 × 2 lattice over ℚ with negative extents, a 2-node axis and non-uniform spacing -/
def exLat : Lat ℚ ℚ :=
  { xmin := -3, xmax := -1, ymin := -1, ymax := 1, zmin := 0, zmax := 1/2, nx := 3, ny := 2, nz := 2,
    xs := [-3, -5/2, -1], ys := [-1, 1], zs := [0, 1/2],
    grid := [1, 2, 3, 4, 5, 6, 7, 8, 9, 10, 11, 12] }

example : exLat.WF := by simp [Lat.WF, exLat]
example : exLat.toGeom.Shaped := by simp [Geom.Shaped, exLat]
example : exLat.toGeom.Incr := by
  refine ⟨?_, ?_, ?_⟩ <;> (simp [Increasing, exLat]; try norm_num)
example : exLat.toGeom.Anchored := by simp [Geom.Anchored, exLat]
example : exLat.toGeom.Built (fun lo _ n => if n = 3 then [-3, -5/2, -1] else if lo = -1 then [-1, 1] else [0, 1/2]) := by
  simp [Geom.Built, mkGeom, exLat]
/-- the point (−2, 1, 0.3) lies in the cell whose lower corner is node (1, 1, 0), which holds 7 -/
example : exLat.getValue (-2) 1 (3/10) = .ok (some 7) := by decide +kernel
example : exLat.getValueNN (-2) 1 (3/10) = .ok (some 8) := by decide +kernel
example : exLat.getValue (-2) 1 (3/5) = .error .value := by decide +kernel
example : exLat.getByIndex (-1) 0 0 = .ok none := by decide +kernel
example : IsLowerCorner ([-3, -5/2, -1] : List ℚ) (-2) 1 :=
  ⟨by simp, by norm_num, fun _ => by norm_num, fun h => by simp at h⟩
example : getIndex (exLat.xs.map XVal.num) XVal.nan = .error .value := by decide +kernel
example : (exLat.run [.setPt (-2) 1 (3/10) 100, .rescale 2, .setIdx (-1) 0 0 5, .setNN (-1) (-1) 0 0]).grid
    = [2, 4, 6, 8, 10, 12, 200, 16, 0, 20, 22, 24] := by decide +kernel

end SparkxVerif.C17
