/-
C01 — derived JETSCAPE charge at full strength: for EVERY `three_charge` PDGID can report (incl. diquarks with
|q| = 4/3, PDG code 2203) the `charge` attribute is the PDG charge when that is a whole number and three times it
otherwise.  True of the `charge` setter rule `value % 1 != 0` (proposed_fixes/C01-3); FALSE of the original rule
`|value| < 1` (4/3 is stored as 1.333 and read back as 1): with that rule `decide`-style evaluation gives
`jetCharge true (some 4) = some (some 1)`.
-/
import SparkxVerif.Core.Columns

namespace SparkxVerif.C01
open SparkxVerif.Cols SparkxVerif.Gen.Tables

/-- derived charge, for EVERY PDG code: with `q3 = PDGID(pdg).three_charge` (parameter) the `charge` attribute is the PDG
charge when that is a whole number and three times it otherwise (quarks, diquarks) -/
theorem jetscape_charge (q3 : Int) : jetCharge true (some q3) = some (some (docCharge q3)) := by
  unfold jetCharge docCharge chargeSetter3
  by_cases h : q3 % 3 = 0
  · simp [h, Int.tdiv_eq_ediv_of_dvd (Int.dvd_of_emod_eq_zero h)]
  · simp [h, Int.mul_tdiv_cancel_left]

/-- quarks: three times the charge; whole-number charges: the charge itself -/
theorem jetscape_charge_quarks :
    jetCharge true (some 2) = some (some 2) ∧ jetCharge true (some (-1)) = some (some (-1)) ∧
    jetCharge true (some (-2)) = some (some (-2)) ∧ jetCharge true (some 1) = some (some 1) ∧
    jetCharge true (some 0) = some (some 0) ∧ jetCharge true (some 3) = some (some 1) ∧
    jetCharge true (some (-3)) = some (some (-1)) ∧ jetCharge true (some 6) = some (some 2) ∧
    jetCharge true (some 4) = some (some 4) ∧ jetCharge true (some (-4)) = some (some (-4)) := by
  simp [jetscape_charge, docCharge]

end SparkxVerif.C01
