/-
C01 (and C02, C04–C07 through the shared reader model), tie T for the line loops — the readers assembled ENTIRELY from
parts regenerated from the current source:

* `Gen/ReaderLoop.lean` (harness/translate/readerloop.py): the body of the line loop of `OscarLoader.set_particle_list`
  and of `JetscapeLoader.set_particle_list` (line classification chain, `finish the event` blocks with the constructor
  filters and the `num_output_per_event_` bookkeeping, particle lines), the start state, the statements after the loop
  (event-count check, `[] -> [[]]`), the end-of-file exception, and `OscarLoader.set_num_events`;
* `Gen/ReaderSelGen.lean` (harness/translate/readersel.py, C02): validation of `events`, `_get_num_skip_lines`,
  `__get_num_read_lines`, the prelude of `set_particle_list`, `first_event_header`.

* `Gen/ReaderScan.lean` (harness/translate/readerloop.py): the scanning loops of
  `set_num_output_per_event_and_event_footers` (Oscar2013 / Extended / ASCII branch) and `set_num_output_per_event`
  with the final `np.array(event_output, dtype=np.int32)` — used by `genReadOscarFull` / `genReadJetscapeFull`, which
  return what the model returns whenever either returns a value (`OkEq`: the source converts the labels at the end of
  the scan, the model line by line, so the KIND of exception can differ on doubly malformed files).

`genReadOscarAll = readOscar` for every file, selector and filter; `genReadJetscapeAll = readJetscape` for every file in
which no line follows a `# sigmaGen` trailer line.  After the trailer the source neither resets `data` nor copies it (the
list stored in `particle_list` and `data` stay ONE object), the hand-written model clears it, and the generated
definitions (value semantics; the translator flags the block: `blocks_leaving_data_aliased`) keep the value: all three
can differ only when further lines are read after a trailer — see `trailer_keeps_data`; with the trailer last they agree.  The C01 reading theorems follow
for the generated readers.  Hand mirrors that remain: `Rd.analyse` (string layer; classification proved in C01),
`oscarFormat` (format chain: tie T through Gen/Tables), `lastLine`, `jetscapeInitOk`, the IC / Photons scanner branches
(outside the model), the abstract `Particle` view (`colsOk`, `fieldsOk`) and the abstract event filter.
-/
import SparkxVerif.Props.C01
import SparkxVerif.Lemmas.ReaderLoopGen
import SparkxVerif.Lemmas.ReaderScanGen
import SparkxVerif.Lemmas.ReaderSelGenGen

namespace SparkxVerif.C01.GenLoop
open SparkxVerif.Rd SparkxVerif.RdLoop

/-! ### well-formed JETSCAPE files have their trailer last -/

theorem trailerLastB_append (pre post : List LineF) (hpre : ∀ l ∈ pre, isTrailer l = false)
    (hpost : trailerLastB post = true) : trailerLastB (pre ++ post) = true := by
  induction pre with
  | nil => simpa using hpost
  | cons a t ih =>
    have ha := hpre a (by simp)
    have ht := ih (fun l hl => hpre l (by simp [hl]))
    simp only [List.cons_append, trailerLastB, ha, Bool.not_false, Bool.true_or, Bool.true_and, ht]

theorem obsJParts_noTrailer (partons : Bool) : ∀ (ls : List LineF) (rows : List (List String)),
    obsJParts partons ls rows = true → ∀ l ∈ ls, isTrailer l = false := by
  intro ls
  induction ls with
  | nil => intro rows _ l hl; cases hl
  | cons a t ih =>
    intro rows h l hl
    cases rows with
    | nil => simp [obsJParts] at h
    | cons r rs =>
      simp only [obsJParts, Bool.and_eq_true] at h
      rcases List.mem_cons.mp hl with rfl | hl
      · have := h.1
        simp only [isJPart, Bool.and_eq_true, Bool.not_eq_true'] at this
        exact this.1.1.1.1.2
      · exact ih rs h.2 l hl

theorem obsJBody_trailerLast (partons : Bool) (F : JetSpec) : ∀ (es : List JEvent) (ls : List LineF),
    obsJBody partons F ls es = true → trailerLastB ls = true := by
  intro es
  induction es with
  | nil =>
    intro ls h
    cases ls with
    | nil => simp [obsJBody] at h
    | cons t r =>
      cases r with
      | nil => simp [trailerLastB]
      | cons _ _ => simp [obsJBody] at h
  | cons e es ih =>
    intro ls h
    cases ls with
    | nil => simp [obsJBody] at h
    | cons hd rest =>
      simp only [obsJBody, Bool.and_eq_true] at h
      obtain ⟨⟨hh, hp⟩, hb⟩ := h
      have hhd : isTrailer hd = false := by
        simp only [isJHeader, Bool.and_eq_true, Bool.not_eq_true'] at hh
        simp [isTrailer, hh.1.1.1.1.1.2]
      have hrest : trailerLastB rest = true := by
        rw [← List.take_append_drop e.parts.length rest]
        exact trailerLastB_append _ _ (obsJParts_noTrailer partons _ _ hp) (ih _ hb)
      simp only [trailerLastB, hhd, Bool.not_false, Bool.true_or, Bool.true_and, hrest]

/-- a file observed as a well-formed JETSCAPE spec has its trailer last, provided the free-text first line is not itself
a `# … sigmaGen …` line -/
theorem obsJet_trailerLast (f : FileF) (F : JetSpec) (hobs : obsJet f F = true)
    (hh : ∀ h, f.lines.head? = some h → isTrailer h = false) : trailerLastB f.lines = true := by
  simp only [obsJet, Bool.and_eq_true] at hobs
  obtain ⟨_, hrest⟩ := hobs
  match hl : f.lines, hrest with
  | h1 :: body, hrest =>
    simp only [Bool.and_eq_true] at hrest
    have h1t := hh h1 (by rw [hl]; rfl)
    simp only [trailerLastB, h1t, Bool.not_false, Bool.true_or, Bool.true_and]
    exact obsJBody_trailerLast F.partons F F.events body hrest.2

end SparkxVerif.C01.GenLoop

namespace SparkxVerif.C01.GenLoop
open SparkxVerif.Rd SparkxVerif.RdSel SparkxVerif.RdLoop SparkxVerif.Gen.ReaderLoop SparkxVerif.Gen.ReaderSelGen

/-- `OscarLoader.load` from generated parts only -/
def genReadOscarAll (f : FileF) (sel : Sel) (filt : Option EvFilter) : Except Err Loaded :=
  readOscarParts genOscar genOscarParts f sel filt

/-- `JetscapeLoader.__init__` + `load` from generated parts only -/
def genReadJetscapeAll (f : FileF) (sel : Sel) (partons : Bool) (filt : Option EvFilter) : Except Err Loaded :=
  readJetscapeParts genJetscape genJetscapeParts f sel partons filt

/-- **the all-generated Oscar reader is the reader of the shared model** (every file, selector, filter) -/
theorem genReadOscarAll_eq (f : FileF) (sel : Sel) (filt : Option EvFilter) :
    genReadOscarAll f sel filt = readOscar f sel filt := by
  unfold genReadOscarAll
  rw [readOscarParts_gen]
  exact genReadOscar_eq f sel filt

/-- **the all-generated JETSCAPE reader is the reader of the shared model** on files in which no line follows a trailer -/
theorem genReadJetscapeAll_eq (f : FileF) (sel : Sel) (partons : Bool) (filt : Option EvFilter)
    (h : trailerLastB f.lines = true) :
    genReadJetscapeAll f sel partons filt = readJetscape f sel partons filt := by
  unfold genReadJetscapeAll
  rw [readJetscapeParts_gen _ _ _ _ _ h]
  exact genReadJetscape_eq f sel partons filt

/-- C01 (1), Oscar, about the generated reader -/
theorem gen_read_render_oscar (f : FileF) (F : OscarSpec) (hobs : obsOscar f F = true) (hwf : wfOscar F) :
    genReadOscarAll f .all none = .ok (abstractOscar F) := by
  rw [genReadOscarAll_eq]; exact read_render_oscar f F hobs hwf

/-- C01 (1), JETSCAPE, about the generated reader -/
theorem gen_read_render_jetscape (f : FileF) (F : JetSpec) (hobs : obsJet f F = true) (hwf : wfJet F)
    (htl : trailerLastB f.lines = true) :
    genReadJetscapeAll f .all F.partons none = .ok (abstractJet F) := by
  rw [genReadJetscapeAll_eq _ _ _ _ htl]; exact read_render_jetscape f F hobs hwf

/-- C01 (1), JETSCAPE, about the generated reader, with the side condition discharged: it is enough that the free-text
first line of the file is not itself a `# … sigmaGen …` line -/
theorem gen_read_render_jetscape_head (f : FileF) (F : JetSpec) (hobs : obsJet f F = true) (hwf : wfJet F)
    (hh : ∀ h, f.lines.head? = some h → isTrailer h = false) :
    genReadJetscapeAll f .all F.partons none = .ok (abstractJet F) :=
  gen_read_render_jetscape f F hobs hwf (obsJet_trailerLast f F hobs hh)

/-! ### with the generated first-pass scanners as well -/

/-- `OscarLoader.load`: every part that has a translator is the generated one (scanner, `set_num_events`, selection
arithmetic, line loop, final check) -/
def genReadOscarFull (f : FileF) (sel : Sel) (filt : Option EvFilter) : Except Err Loaded :=
  readOscarPartsS Gen.ReaderScan.genOscarScan genOscar genOscarParts f sel filt

def genReadJetscapeFull (f : FileF) (sel : Sel) (partons : Bool) (filt : Option EvFilter) : Except Err Loaded :=
  readJetscapePartsS Gen.ReaderScan.genJetscapeScan genJetscape genJetscapeParts f sel partons filt

/-- **the fully generated Oscar reader returns what `readOscar` returns whenever either of them returns a value** (every
file, selector, filter); when one raises the other raises too -/
theorem genReadOscarFull_okEq (f : FileF) (sel : Sel) (filt : Option EvFilter) :
    OkEq (genReadOscarFull f sel filt) (readOscar f sel filt) := by
  have h := readOscarPartsS_okEq Gen.ReaderScan.genOscarScan genOscarScan_okEq genOscar genOscarParts f sel filt
  have h2 : readOscarParts genOscar genOscarParts f sel filt = readOscar f sel filt := genReadOscarAll_eq f sel filt
  rw [h2] at h
  exact h

theorem genReadJetscapeFull_okEq (f : FileF) (sel : Sel) (partons : Bool) (filt : Option EvFilter)
    (htl : trailerLastB f.lines = true) :
    OkEq (genReadJetscapeFull f sel partons filt) (readJetscape f sel partons filt) := by
  have h := readJetscapePartsS_okEq Gen.ReaderScan.genJetscapeScan genJetscapeScan_okEq genJetscape genJetscapeParts
    f sel partons filt
  have h2 : readJetscapeParts genJetscape genJetscapeParts f sel partons filt = readJetscape f sel partons filt :=
    genReadJetscapeAll_eq f sel partons filt htl
  rw [h2] at h
  exact h

/-- C01 (1) about the fully generated readers -/
theorem gen_full_read_render_oscar (f : FileF) (F : OscarSpec) (hobs : obsOscar f F = true) (hwf : wfOscar F) :
    genReadOscarFull f .all none = .ok (abstractOscar F) :=
  (genReadOscarFull_okEq f .all none _).mpr (read_render_oscar f F hobs hwf)

theorem gen_full_read_render_jetscape (f : FileF) (F : JetSpec) (hobs : obsJet f F = true) (hwf : wfJet F)
    (hh : ∀ h, f.lines.head? = some h → isTrailer h = false) :
    genReadJetscapeFull f .all F.partons none = .ok (abstractJet F) :=
  (genReadJetscapeFull_okEq f .all F.partons none (obsJet_trailerLast f F hobs hh) _).mpr
    (read_render_jetscape f F hobs hwf)

/-- why the side condition is there: after a trailer line the source keeps the particles in `data` (the generated
definition shows it), the model clears them (two lines: a trailer, then an event header that is not the first one; no
filters; one particle pending) -/
theorem trailer_keeps_data :
    let tr : LineF := { analyse "" with hasHash := true, hasSigma := true }
    let hd : LineF := { analyse "" with hasEventCap := true, hasWeight := true, toksTab := ["#", "Event", "2"] }
    let st : LoopSt := ⟨[], [⟨1, ["p"]⟩], .arr2d [(1, 1), (2, 0)], 0⟩
    (genJetscapeLoop none 1 1 2 0 false [tr, hd] st).map (·.plist) = .ok [[⟨1, ["p"]⟩], [⟨1, ["p"]⟩]] ∧
    (jetscapeLoop none 1 1 2 0 false [tr, hd] st).map (·.plist) = .ok [[⟨1, ["p"]⟩], []] :=
  ⟨rfl, rfl⟩

/-- the four components of a loop state (`LoopSt` itself has no decidable equality) -/
def view (s : LoopSt) : List (List PLine) × List PLine × Counts × Int := (s.plist, s.data, s.counts, s.cut)

/-- non-vacuity: the generated Oscar iteration on the kinds of lines, and the final check -/
example :
    let out : LineF := { analyse "" with hasHash := true, hasEvent := true, hasOut := true }
    let en : LineF := { analyse "" with hasHash := true, hasEvent := true, hasEnd := true }
    let st : LoopSt := ⟨[], [⟨4, ["1"]⟩], .arr2d [(0, 1)], 0⟩
    (genOscarStep .ascii ["ID"] none 0 true 3 out st).map view = .ok (view st) ∧
    (genOscarStep .ascii ["ID"] none 0 false 5 en st).map view = .ok ([[⟨4, ["1"]⟩]], [], .arr2d [(0, 1)], 0) ∧
    (genOscarStep .ascii ["ID"] (some (fun _ => .ok [])) 0 false 5 en st).map view = .ok ([], [], .empty, 1) ∧
    (genOscarStep .ascii ["ID"] none 0 true 3 { analyse "" with hasEvent := false } st).map view = .error .value ∧
    genOscarFinish ⟨[], [], .empty, 1⟩ 1 .all = .ok ([[]], 0, .empty) ∧
    genOscarFinish ⟨[], [], .empty, 0⟩ 1 .all = .error .index :=
  ⟨rfl, rfl, rfl, rfl, rfl, rfl⟩

end SparkxVerif.C01.GenLoop
