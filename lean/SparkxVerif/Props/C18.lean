/-
C18 — Eccentricities obey their symmetry relations and bound.

Property theorems only (helper lemmas: `Lemmas/Ecc.lean`).  All theorems are about the functions of
`Core/Ecc.lean` — the ones the driver executes at `Float` with the C library — instantiated at `ℝ`
with `realOps` (`Complex.arg` for `np.arctan2`, `Real.cos`, `Real.sin`, `Real.rpow` for `**`):
  `eccParticlesC n m wq ps` = `EventCharacteristics(ps).eccentricity(n, m, wq)`
  `eccLatticeC  n m L`      = `EventCharacteristics(L).eccentricity(n, m)`
with the result pair packaged as a complex number.  They hold for every list of particles (any
length, by induction), every integer `n`, `m`, every weight quantity, angle and scale factor.

Reading of the English statement:
* "equals −Σ w r^m e^{inφ} / Σ w r^m" — `formula`, an equation for the complete behaviour of the
  function: `ValueError` iff `n < 1` or a given `m < 1`; the quotient is undefined (`zerodiv`:
  the code raises ZeroDivisionError or returns nan/inf) iff `Σ w r^m = 0`; otherwise the stated value.
  `r = √(x²+y²)`, `φ = arg(x + i y)`, both relative to the coordinate origin (the code applies no
  centre-of-mass shift).
* "m = n (m = 3 for n = 1) unless m is given" — `radial_power` + `m_default`.
* "for non-negative weights |ε| ≤ 1" — `bound`.
* "rotating all positions by α multiplies it by e^{inα}" — `rotation`;
  "x → −x maps it to (−1)^n times its conjugate" — `reflection`;
  "scaling positions or weights or reordering leaves it unchanged" — `scale_positions` (factor > 0),
  `scale_weights` (factor ≠ 0; the quantity "number" carries no attribute that could be scaled),
  `permutation`.  These are equations between `Except` values: the transformed input is rejected
  exactly when the original one is.
* "the lattice variant equals the same formula applied to the nodes weighted by their density" —
  `lattice_formula` (triple sum over all node indices, every z layer) and `lattice_eq_particles`.
-/
import SparkxVerif.Lemmas.Ecc

open Complex
open SparkxVerif.Ecc

namespace SparkxVerif.C18

/-- transverse radius `r = √(x² + y²)` of a particle -/
noncomputable def radius (p : Ecc.Part ℝ) : ℝ := √(p.x ^ 2 + p.y ^ 2)

/-- azimuth `φ = arg (x + i y) ∈ (−π, π]` of a particle -/
noncomputable def azimuth (p : Ecc.Part ℝ) : ℝ := arg ((p.x : ℂ) + (p.y : ℂ) * I)

/-- the radial power the call uses -/
def powerOf (n : ℤ) (m : Option ℤ) : ℕ := radialPower n.toNat (m.map Int.toNat)

private theorem norm_pos_point (q : WQ) (p : Ecc.Part ℝ) : ‖pos (point q p)‖ = radius p := by
  show ‖(⟨p.x, p.y⟩ : ℂ)‖ = _
  rw [norm_mk, radius, pow_two, pow_two]

private theorem arg_pos_point (q : WQ) (p : Ecc.Part ℝ) : arg (pos (point q p)) = azimuth p := by
  show arg (⟨p.x, p.y⟩ : ℂ) = _
  rw [azimuth, ← Complex.mk_eq_add_mul_I]

/-! ### the value -/

/-- **Formula.** Complete behaviour of `eccentricity(n, m, weight_quantity)` on a particle list. -/
theorem formula (n : ℤ) (m : Option ℤ) (q : WQ) (ps : List (Ecc.Part ℝ)) :
    eccParticlesC n m (some q) ps =
      if n < 1 ∨ (∃ m', m = some m' ∧ m' < 1) then .error .value
      else if (ps.map fun p => weight q p * radius p ^ powerOf n m).sum = 0 then .error .zerodiv
      else .ok (-((ps.map fun p =>
                    ((weight q p * radius p ^ powerOf n m : ℝ) : ℂ) * exp (I * ((n : ℂ) * (azimuth p : ℂ)))).sum
                  / (((ps.map fun p => weight q p * radius p ^ powerOf n m).sum : ℝ) : ℂ))) := by
  rw [eccParticlesC_unfold]
  by_cases hbad : n < 1 ∨ (∃ m', m = some m' ∧ m' < 1)
  · rw [if_pos hbad, validate_invalid hbad]
  · rw [if_neg hbad]
    have hn : 1 ≤ n := by omega
    have hm : ∀ m', m = some m' → 1 ≤ m' := by
      intro m' h
      by_contra hlt
      exact hbad (Or.inr ⟨m', h, by omega⟩)
    have hcast : (n : ℂ) = ((n.toNat : ℕ) : ℂ) := by
      rw [← Int.cast_natCast, Int.toNat_of_nonneg (by omega)]
    rw [validate_of_valid hn hm]
    simp only
    rw [eccCoreC_eq]
    have hN : normSum (powerOf n m) (ps.map (point q)) =
        (ps.map fun p => weight q p * radius p ^ powerOf n m).sum := by
      unfold normSum
      rw [List.map_map]
      congr 1
      apply List.map_congr_left
      intro p _
      simp only [Function.comp, amp, norm_pos_point]
      rfl
    have hS : numSum n.toNat (powerOf n m) (ps.map (point q)) =
        (ps.map fun p => ((weight q p * radius p ^ powerOf n m : ℝ) : ℂ) *
          exp (I * ((n : ℂ) * (azimuth p : ℂ)))).sum := by
      unfold numSum
      rw [List.map_map]
      congr 1
      apply List.map_congr_left
      intro p _
      simp only [Function.comp, amp, norm_pos_point, arg_pos_point, hcast]
      rfl
    show (if normSum (powerOf n m) _ = 0 then _ else Except.ok (epsSpec n.toNat (powerOf n m) _)) = _
    rw [epsSpec, hN, hS]

/-- the link between the code's trigonometric form and the unit-vector form:
for `z ≠ 0`, `cos (n·arg z) = Re (u^n)` and `sin (n·arg z) = Im (u^n)` with `u = z/|z|` -/
theorem trig_link (n : ℕ) {z : ℂ} (hz : z ≠ 0) :
    Real.cos ((n : ℝ) * arg z) = ((z / (‖z‖ : ℂ)) ^ n).re ∧
    Real.sin ((n : ℝ) * arg z) = ((z / (‖z‖ : ℂ)) ^ n).im :=
  cos_arg_eq_re_unit_pow n hz

/-- **Radial power**: `m` when given, else `3` for `n = 1` and `n` otherwise. -/
theorem radial_power (n : ℤ) (hn : 1 ≤ n) :
    (∀ m : ℤ, 1 ≤ m → ((powerOf n (some m) : ℕ) : ℤ) = m) ∧
    (n = 1 → powerOf n none = 3) ∧
    (n ≠ 1 → ((powerOf n none : ℕ) : ℤ) = n) := by
  refine ⟨?_, ?_, ?_⟩
  · intro m hm
    simp only [powerOf, Option.map_some, radialPower]
    omega
  · rintro rfl
    rfl
  · intro h
    simp only [powerOf, Option.map_none, radialPower]
    split <;> omega

/-- not giving `m` is the same call as giving the default explicitly -/
theorem m_default (n : ℤ) (hn : 1 ≤ n) (wq : Option WQ) (ps : List (Ecc.Part ℝ)) :
    eccParticlesC n none wq ps = eccParticlesC n (some (if n = 1 then 3 else n)) wq ps := by
  rw [eccParticlesC_unfold, eccParticlesC_unfold, validate_of_valid hn (by simp),
    validate_of_valid hn (by intro m' h; cases h; split <;> omega)]
  have : radialPower n.toNat (Option.map Int.toNat none) =
      radialPower n.toNat (Option.map Int.toNat (some (if n = 1 then 3 else n))) := by
    simp only [Option.map_none, Option.map_some, radialPower]
    split <;> split <;> omega
  rw [this]

/-! ### the bound -/

/-- **Bound.** With non-negative weights the modulus is at most 1 (whenever a value is returned). -/
theorem bound (n : ℤ) (m : Option ℤ) (q : WQ) (ps : List (Ecc.Part ℝ)) (hw : ∀ p ∈ ps, 0 ≤ weight q p)
    {e : ℂ} (h : eccParticlesC n m (some q) ps = .ok e) : ‖e‖ ≤ 1 := by
  rw [eccParticlesC_unfold] at h
  cases hv : validate n m with
  | error e' => rw [hv] at h; cases h
  | ok v =>
    obtain ⟨n', k⟩ := v
    rw [hv] at h
    refine eccCoreC_bound n' k _ ?_ h
    intro p hp
    obtain ⟨p', hp', rfl⟩ := List.mem_map.1 hp
    exact hw p' hp'

/-! ### the symmetries -/

/-- **Rotation.** Rotating all positions by `α` multiplies the eccentricity by `e^{inα}`. -/
theorem rotation (n : ℤ) (m : Option ℤ) (wq : Option WQ) (ps : List (Ecc.Part ℝ)) (α : ℝ) :
    eccParticlesC n m wq (ps.map (Ecc.Part.rot α)) =
      (eccParticlesC n m wq ps).map (fun e => exp (I * ((n : ℂ) * (α : ℂ))) * e) := by
  apply eccParticlesC_map
  intro n' k q _ hn _ hk
  have : (n : ℂ) = (n' : ℂ) := by rw [← hn, Int.cast_natCast]
  rw [this, List.map_map, ← eccCoreC_rot n' hk, List.map_map]
  congr 1

/-- **Reflection.** `x ↦ −x` maps the eccentricity to `(−1)^n` times its complex conjugate. -/
theorem reflection (n : ℤ) (m : Option ℤ) (wq : Option WQ) (ps : List (Ecc.Part ℝ)) :
    eccParticlesC n m wq (ps.map Ecc.Part.reflX) =
      (eccParticlesC n m wq ps).map (fun e => (-1 : ℂ) ^ n * (starRingEnd ℂ) e) := by
  apply eccParticlesC_map
  intro n' k q _ hn _ hk
  have : (-1 : ℂ) ^ n = (-1 : ℂ) ^ n' := by rw [← hn, zpow_natCast]
  rw [this, List.map_map, ← eccCoreC_refl n' hk, List.map_map]
  congr 1

/-- **Scaling positions** by any `s > 0` leaves the eccentricity unchanged. -/
theorem scale_positions (n : ℤ) (m : Option ℤ) (wq : Option WQ) (ps : List (Ecc.Part ℝ)) {s : ℝ}
    (hs : 0 < s) : eccParticlesC n m wq (ps.map (Ecc.Part.scalePos s)) = eccParticlesC n m wq ps := by
  have := eccParticlesC_map (Ecc.Part.scalePos s) id n m wq ps (by
    intro n' k q _ _ _ hk
    rw [List.map_map]
    have : eccCoreC n' k (ps.map (point q)) = eccCoreC n' k ((ps.map (point q)).map (scalePt s)) :=
      (eccCoreC_scale n' hk hs _).symm
    rw [this, List.map_map]
    have hid : ∀ x : Except Err ℂ, x.map id = x := by intro x; cases x <;> rfl
    rw [hid]
    congr 1)
  rw [this]
  cases eccParticlesC n m wq ps <;> rfl

/-- **Scaling weights** by any `c ≠ 0` leaves the eccentricity unchanged
(`"number"` has no attribute to scale). -/
theorem scale_weights (n : ℤ) (m : Option ℤ) {q : WQ} (hq : q ≠ .number) (ps : List (Ecc.Part ℝ)) {c : ℝ}
    (hc : c ≠ 0) : eccParticlesC n m (some q) (ps.map (Ecc.Part.scaleW c)) = eccParticlesC n m (some q) ps := by
  rw [eccParticlesC_unfold, eccParticlesC_unfold]
  cases validate n m with
  | error e => rfl
  | ok v =>
    obtain ⟨n', k⟩ := v
    simp only
    rw [← eccCoreC_scaleW n' k hc (ps.map (point q)), List.map_map, List.map_map]
    congr 1
    apply List.map_congr_left
    intro p _
    exact point_scaleW hq c p

/-- **Reordering** the particles leaves the eccentricity unchanged. -/
theorem permutation (n : ℤ) (m : Option ℤ) (wq : Option WQ) {ps ps' : List (Ecc.Part ℝ)}
    (h : ps.Perm ps') : eccParticlesC n m wq ps = eccParticlesC n m wq ps' := by
  rw [eccParticlesC_unfold, eccParticlesC_unfold]
  cases validate n m with
  | error e => rfl
  | ok v =>
    obtain ⟨n', k⟩ := v
    cases wq with
    | none =>
      have : ps.isEmpty = ps'.isEmpty := by
        cases ps <;> cases ps' <;> simp_all
      simp only [this]
    | some q => exact eccCoreC_perm n' k (h.map _)

/-! ### the lattice variant -/

/-- transverse radius of node column `(i, j)` -/
noncomputable def nodeRadius (L : Ecc.Lattice ℝ) (i j : ℕ) : ℝ := √(L.xs.getD i 0 ^ 2 + L.ys.getD j 0 ^ 2)

/-- azimuth of node column `(i, j)` -/
noncomputable def nodeAzimuth (L : Ecc.Lattice ℝ) (i j : ℕ) : ℝ :=
  arg ((L.xs.getD i 0 : ℂ) + (L.ys.getD j 0 : ℂ) * I)

/-- **Lattice formula.** Complete behaviour of `eccentricity(n, m)` on a lattice whose grid has the
shape of its coordinate axes (`L.wf`): the same quotient, summed over all nodes `(i, j, l)` — every
`z` layer — with the node's density as weight. -/
theorem lattice_formula (n : ℤ) (m : Option ℤ) (L : Ecc.Lattice ℝ) (hL : L.wf = true) :
    eccLatticeC n m L =
      if n < 1 ∨ (∃ m', m = some m' ∧ m' < 1) then .error .value
      else if (∑ i ∈ Finset.range L.xs.length, ∑ j ∈ Finset.range L.ys.length, ∑ l ∈ Finset.range L.nz,
                L.density i j l * nodeRadius L i j ^ powerOf n m) = 0 then .error .zerodiv
      else .ok (-((∑ i ∈ Finset.range L.xs.length, ∑ j ∈ Finset.range L.ys.length, ∑ l ∈ Finset.range L.nz,
                    ((L.density i j l * nodeRadius L i j ^ powerOf n m : ℝ) : ℂ) *
                      exp (I * ((n : ℂ) * (nodeAzimuth L i j : ℂ))))
                  / (((∑ i ∈ Finset.range L.xs.length, ∑ j ∈ Finset.range L.ys.length,
                        ∑ l ∈ Finset.range L.nz, L.density i j l * nodeRadius L i j ^ powerOf n m : ℝ)) : ℂ))) := by
  rw [eccLatticeC_unfold]
  by_cases hbad : n < 1 ∨ (∃ m', m = some m' ∧ m' < 1)
  · rw [if_pos hbad, validate_invalid hbad]
  · rw [if_neg hbad]
    have hn : 1 ≤ n := by omega
    have hm : ∀ m', m = some m' → 1 ≤ m' := by
      intro m' h
      by_contra hlt
      exact hbad (Or.inr ⟨m', h, by omega⟩)
    have hcast : (n : ℂ) = ((n.toNat : ℕ) : ℂ) := by
      rw [← Int.cast_natCast, Int.toNat_of_nonneg (by omega)]
    rw [validate_of_valid hn hm]
    simp only [hL, if_true]
    rw [eccCoreC_eq]
    have hr : ∀ i j l, ‖pos (L.node i j l)‖ = nodeRadius L i j := by
      intro i j l
      show ‖(⟨L.xs.getD i 0, L.ys.getD j 0⟩ : ℂ)‖ = _
      rw [norm_mk, nodeRadius, pow_two, pow_two]
    have ha : ∀ i j l, arg (pos (L.node i j l)) = nodeAzimuth L i j := by
      intro i j l
      show arg (⟨L.xs.getD i 0, L.ys.getD j 0⟩ : ℂ) = _
      rw [nodeAzimuth, ← Complex.mk_eq_add_mul_I]
    have hN : normSum (powerOf n m) L.nodes =
        ∑ i ∈ Finset.range L.xs.length, ∑ j ∈ Finset.range L.ys.length, ∑ l ∈ Finset.range L.nz,
          L.density i j l * nodeRadius L i j ^ powerOf n m := by
      unfold normSum
      rw [sum_nodes]
      simp only [amp, hr]
      rfl
    have hS : numSum n.toNat (powerOf n m) L.nodes =
        ∑ i ∈ Finset.range L.xs.length, ∑ j ∈ Finset.range L.ys.length, ∑ l ∈ Finset.range L.nz,
          ((L.density i j l * nodeRadius L i j ^ powerOf n m : ℝ) : ℂ) *
            exp (I * ((n : ℂ) * (nodeAzimuth L i j : ℂ))) := by
      unfold numSum
      rw [sum_nodes]
      simp only [amp, hr, ha, hcast]
      rfl
    show (if normSum (powerOf n m) _ = 0 then _ else Except.ok (epsSpec n.toNat (powerOf n m) _)) = _
    rw [epsSpec, hN, hS]

/-- **Lattice = particles at the nodes.** The lattice variant is the particle function applied to
one particle per node `(i, j, l)`, placed at `(x_i, y_j)` and weighted ("energy") by the node's
density — so every theorem above transfers to lattices. -/
theorem lattice_eq_particles (n : ℤ) (m : Option ℤ) (L : Ecc.Lattice ℝ) (hL : L.wf = true) :
    eccLatticeC n m L = eccParticlesC n m (some .energy) (L.nodes.map nodePart) := by
  rw [eccLatticeC_unfold, eccParticlesC_unfold]
  cases validate n m with
  | error e => rfl
  | ok v =>
    obtain ⟨n', k⟩ := v
    simp only [hL, if_true, List.map_map]
    congr 1
    symm
    calc L.nodes.map (point .energy ∘ nodePart) = L.nodes.map id :=
          List.map_congr_left (fun p _ => point_nodePart p)
      _ = L.nodes := List.map_id _

/-- the bound for lattices with non-negative densities -/
theorem lattice_bound (n : ℤ) (m : Option ℤ) (L : Ecc.Lattice ℝ) (hL : L.wf = true)
    (hρ : ∀ i j l, 0 ≤ L.density i j l) {e : ℂ} (h : eccLatticeC n m L = .ok e) : ‖e‖ ≤ 1 := by
  rw [lattice_eq_particles n m L hL] at h
  refine bound n m .energy _ ?_ h
  intro p hp
  obtain ⟨nd, hnd, rfl⟩ := List.mem_map.1 hp
  rw [nodes_eq] at hnd
  simp only [List.mem_flatMap, List.mem_map] at hnd
  obtain ⟨i, _, j, _, l, _, rfl⟩ := hnd
  exact hρ i j l

/-! ### non-vacuity: the hypotheses are met by concrete, non-trivial objects -/

/-- two unit-weight particles at `(1, 0)` and `(0, 2)`, `n = 2` (so `m = 2`):
`ε₂ = −(1·1 + 4·(−1))/(1 + 4) = 3/5` — a value is returned, it is not zero, the bound is not vacuous -/
example : eccParticlesC 2 none (some .number) [⟨1, 0, 0, 0, 1, 0⟩, ⟨1, 0, 0, 0, 0, 2⟩] = .ok (3 / 5) := by
  rw [eccParticlesC_unfold, validate_of_valid (by norm_num) (by simp)]
  show eccCoreC 2 2 [((1 : ℕ), 1, 0), ((1 : ℕ), 0, 2)] = _
  rw [eccCoreC_eq, epsSpec, numSum_eq_term 2 (by norm_num : 1 ≤ 2)]
  have h1 : pos (((1 : ℕ) : ℝ), (1 : ℝ), (0 : ℝ)) = 1 := by apply Complex.ext <;> simp [pos]
  have h2 : pos (((1 : ℕ) : ℝ), (0 : ℝ), (2 : ℝ)) = 2 * I := by apply Complex.ext <;> simp [pos]
  have n2 : ‖(2 * I : ℂ)‖ = 2 := by simp
  have hN : normSum 2 [(((1 : ℕ) : ℝ), (1 : ℝ), (0 : ℝ)), (((1 : ℕ) : ℝ), (0 : ℝ), (2 : ℝ))] = 5 := by
    simp only [normSum, amp, List.map_cons, List.map_nil, List.sum_cons, List.sum_nil, h1, h2, n2]
    norm_num
  rw [hN, if_neg (by norm_num)]
  simp only [List.map_cons, List.map_nil, List.sum_cons, List.sum_nil, h1, h2, term, n2]
  congr 1
  have : (2 * I / ((2 : ℝ) : ℂ)) = I := by push_cast; field_simp
  rw [this]
  simp only [norm_one, I_sq]
  push_cast
  norm_num

/-- a well-formed 2×2×1 lattice with positive densities exists (hypotheses of the lattice theorems) -/
example : (⟨[0, 1], [0, 1], 1, [[[1], [2]], [[3], [4]]]⟩ : Ecc.Lattice ℝ).wf = true := by
  simp [Ecc.Lattice.wf]

/-- the rejected inputs are really rejected: `n = 0` -/
example (ps : List (Ecc.Part ℝ)) : eccParticlesC 0 none (some .energy) ps = .error .value := by
  rw [formula]; simp

/-- reflection with odd `n` really flips the sign of the conjugate: `(−1)^3 = −1` -/
example : ((-1 : ℂ) ^ (3 : ℤ)) = -1 := by norm_num

end SparkxVerif.C18
