/-
C11 (symmetries, differential part) — `<<2'>>` and `<<4'>>` are unchanged when every particle (particles of interest
and reference particles alike) of every event is rotated by one angle.
-/
import SparkxVerif.Props.C11.Sym

open Finset BigOperators

namespace SparkxVerif.C11
open SparkxVerif.QCL SparkxVerif.QC SparkxVerif.QCD

theorem dcosTuple_shift {M : ℕ} (k : ℕ) (a : Fin (k + 1) → ℤ) (ha : ∑ i, a i = 0) (θ : Fin M → ℝ)
    (χ : Fin M → Bool) (β : ℝ) :
    dcosTuple k a (fun j => θ j + β) χ = dcosTuple k a θ χ := by
  unfold dcosTuple
  apply Finset.sum_congr rfl
  intro t _
  have : ∑ i, (a i : ℝ) * (θ (t i) + β) = ∑ i, (a i : ℝ) * θ (t i) := by
    simp only [mul_add, Finset.sum_add_distrib, ← Finset.sum_mul]
    have h : (∑ i, (a i : ℝ)) = 0 := by exact_mod_cast congrArg (fun z : ℤ => (z : ℝ)) ha
    rw [h]; simp
  rw [this]

theorem dcosTuple_cast {M M' : ℕ} (h : M = M') (k : ℕ) (a : Fin (k + 1) → ℤ) (θ : Fin M' → ℝ) (χ : Fin M' → Bool) :
    dcosTuple k a (fun j : Fin M => θ (Fin.cast h j)) (fun j : Fin M => χ (Fin.cast h j)) = dcosTuple k a θ χ := by
  subst h; rfl

/-- rotate every particle of an event (with its particle-of-interest flag) by `α` -/
def rotP (α : ℝ) (ps : List (ℝ × Bool)) : List (ℝ × Bool) := ps.map (fun p => (p.1 + α, p.2))

theorem dcosSum_rot (k : ℕ) (a : Fin (k + 1) → ℤ) (ha : ∑ i, a i = 0) (n : ℕ) (α : ℝ) (ps : List (ℝ × Bool)) :
    dcosSum k a n (rotP α ps) = dcosSum k a n ps := by
  unfold dcosSum
  have hl : (punitsEv n (rotP α ps)).length = (punitsEv n ps).length := by simp [punitsEv, rotP]
  rw [← dcosTuple_shift k a ha (thetaP n ps) (chiP n ps) ((n : ℝ) * α), ← dcosTuple_cast hl]
  congr 1
  · funext j
    simp [thetaP, rotP, mul_add]
    exact Or.inl rfl
  · funext j
    simp [chiP, rotP]
    rfl

theorem dtupleCount_rot (k n : ℕ) (α : ℝ) (ps : List (ℝ × Bool)) :
    dtupleCount k n (rotP α ps) = dtupleCount k n ps :=
  dcosSum_rot k (fun _ => 0) (by simp) n α ps

/-- **`<<2'>>` is rotation invariant** -/
theorem dcorr2_rot (n : ℕ) (α : ℝ) (evs : List (List (ℝ × Bool))) :
    (dcorr2 ((evs.map (rotP α)).map (punitsEv n))).re = (dcorr2 (evs.map (punitsEv n))).re := by
  rw [dcorr2_eq, dcorr2_eq]
  simp only [List.map_map, Function.comp_def, dcosSum_rot 1 _ sum2, dtupleCount_rot]

/-- **`<<4'>>` is rotation invariant** -/
theorem dcorr4_rot (n : ℕ) (α : ℝ) (evs : List (List (ℝ × Bool))) :
    (dcorr4 ((evs.map (rotP α)).map (punitsEv n))).re = (dcorr4 (evs.map (punitsEv n))).re := by
  rw [dcorr4_eq, dcorr4_eq]
  simp only [List.map_map, Function.comp_def, dcosSum_rot 3 _ sum4, dtupleCount_rot]


theorem full_map_punits (n : ℕ) (evs : List (List (ℝ × Bool))) :
    (evs.map (punitsEv n)).map full = (evs.map (fun ps => ps.map (·.1))).map (unitsEv n) := by
  simp only [List.map_map]; apply List.map_congr_left; intro ps _; exact full_punitsEv n ps

theorem fst_rotP (α : ℝ) (evs : List (List (ℝ × Bool))) :
    (evs.map (rotP α)).map (fun ps => ps.map (·.1)) = (evs.map (fun ps => ps.map (·.1))).map (rot α) := by
  simp [rotP, rot, Function.comp_def]

/-- **the differential flow of a bin, `v'_n{2}` and `v'_n{4}`, is rotation invariant** (for every root function and
every `imaginary` mode: it is a function of the four correlators, each of which is) -/
theorem dvn_rot (rootp : ℝ → ℕ → ℕ → ℝ) (im : Imag) (n : ℕ) (α : ℝ) (evs : List (List (ℝ × Bool))) :
    dvn rootp 2 im ((evs.map (rotP α)).map (punitsEv n)) = dvn rootp 2 im (evs.map (punitsEv n)) ∧
    dvn rootp 4 im ((evs.map (rotP α)).map (punitsEv n)) = dvn rootp 4 im (evs.map (punitsEv n)) := by
  obtain ⟨a2, a4⟩ := dvn_eq rootp im n (evs.map (rotP α))
  obtain ⟨b2, b4⟩ := dvn_eq rootp im n evs
  rw [a2, a4, b2, b4]
  simp only [full_map_punits, fst_rotP, corr2_rot, corr4_rot, dcorr2_rot, dcorr4_rot, and_self]

example : rotP 1 [(0, true), (2, false)] = [(0 + 1, true), (2 + 1, false)] := rfl

end SparkxVerif.C11
