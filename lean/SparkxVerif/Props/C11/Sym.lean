/-
C11 (symmetries) — the Q-cumulant correlators depend only on relative azimuthal geometry: rotating every
particle of every event by one angle, or reordering the events, leaves `<<2>>`, `<<4>>`, `<<6>>` unchanged.
Consequences of the defining-sum theorems `corr2_eq`, `corr4_eq`, `corr6_eq`.
-/
import SparkxVerif.Props.C11

open Finset BigOperators

namespace SparkxVerif.C11
open SparkxVerif.QCL SparkxVerif.QC

/-- a balanced harmonic pattern (as many `+` as `−`) makes the defining sum blind to a common shift -/
theorem cosTuple_shift {M : ℕ} (k : ℕ) (a : Fin k → ℤ) (ha : ∑ i, a i = 0) (θ : Fin M → ℝ) (β : ℝ) :
    cosTuple k a (fun j => θ j + β) = cosTuple k a θ := by
  unfold cosTuple
  apply Finset.sum_congr rfl
  intro t _
  have : ∑ i, (a i : ℝ) * (θ (t i) + β) = ∑ i, (a i : ℝ) * θ (t i) := by
    simp only [mul_add, Finset.sum_add_distrib, ← Finset.sum_mul]
    have h : (∑ i, (a i : ℝ)) = 0 := by exact_mod_cast congrArg (fun z : ℤ => (z : ℝ)) ha
    rw [h]; simp
  rw [this]

theorem cosTuple_cast {M M' : ℕ} (h : M = M') (k : ℕ) (a : Fin k → ℤ) (θ : Fin M' → ℝ) :
    cosTuple k a (fun j : Fin M => θ (Fin.cast h j)) = cosTuple k a θ := by
  subst h; rfl

/-- rotate every particle of an event by `α` -/
def rot (α : ℝ) (φs : List ℝ) : List ℝ := φs.map (fun φ => φ + α)

theorem cosSum_rot (k : ℕ) (a : Fin k → ℤ) (ha : ∑ i, a i = 0) (n : ℕ) (α : ℝ) (φs : List ℝ) :
    cosSum k a n (rot α φs) = cosSum k a n φs := by
  unfold cosSum
  have hl : (unitsEv n (rot α φs)).length = (unitsEv n φs).length := by simp [unitsEv, rot]
  rw [← cosTuple_shift k a ha (theta n φs) ((n : ℝ) * α), ← cosTuple_cast hl]
  congr 1
  funext j
  simp [theta, rot, mul_add]
  exact Or.inl rfl

@[simp] theorem length_rot (α : ℝ) (φs : List ℝ) : (rot α φs).length = φs.length := by simp [rot]

theorem sum2 : ∑ i, (![1, -1] : Fin 2 → ℤ) i = 0 := by simp [Fin.sum_univ_succ]
theorem sum4 : ∑ i, (![1, 1, -1, -1] : Fin 4 → ℤ) i = 0 := by simp [Fin.sum_univ_succ]
theorem sum6 : ∑ i, (![1, 1, 1, -1, -1, -1] : Fin 6 → ℤ) i = 0 := by simp [Fin.sum_univ_succ]

/-- **`<<2>>` is rotation invariant** -/
theorem corr2_rot (n : ℕ) (α : ℝ) (evs : List (List ℝ)) :
    corr2 ((evs.map (rot α)).map (unitsEv n)) = corr2 (evs.map (unitsEv n)) := by
  rw [corr2_eq, corr2_eq]
  simp only [List.map_map, Function.comp_def, cosSum_rot 2 _ sum2, length_rot]

/-- **`<<4>>` is rotation invariant** -/
theorem corr4_rot (n : ℕ) (α : ℝ) (evs : List (List ℝ)) :
    corr4 ((evs.map (rot α)).map (unitsEv n)) = corr4 (evs.map (unitsEv n)) := by
  rw [corr4_eq, corr4_eq]
  simp only [List.map_map, Function.comp_def, cosSum_rot 4 _ sum4, length_rot]

/-- **`<<6>>` is rotation invariant** -/
theorem corr6_rot (n : ℕ) (α : ℝ) (evs : List (List ℝ)) (h6 : ∀ φs ∈ evs, 6 ≤ φs.length) :
    corr6 ((evs.map (rot α)).map (unitsEv n)) = corr6 (evs.map (unitsEv n)) := by
  rw [corr6_eq _ _ h6, corr6_eq]
  · simp only [List.map_map, Function.comp_def, cosSum_rot 6 _ sum6, length_rot]
  · intro φs h
    obtain ⟨ψ, hψ, rfl⟩ := List.mem_map.1 h
    simpa [rot] using h6 ψ hψ

/-- the order of the events is irrelevant for `<<2>>`, `<<4>>` -/
theorem corr2_perm_events (n : ℕ) (evs evs' : List (List ℝ)) (h : evs.Perm evs') :
    corr2 (evs.map (unitsEv n)) = corr2 (evs'.map (unitsEv n)) := by
  rw [corr2_eq, corr2_eq, (h.map _).sum_eq, (h.map _).sum_eq]
theorem corr4_perm_events (n : ℕ) (evs evs' : List (List ℝ)) (h : evs.Perm evs') :
    corr4 (evs.map (unitsEv n)) = corr4 (evs'.map (unitsEv n)) := by
  rw [corr4_eq, corr4_eq, (h.map _).sum_eq, (h.map _).sum_eq]

theorem corr6_perm_events (n : ℕ) (evs evs' : List (List ℝ)) (h : evs.Perm evs') (h6 : ∀ φs ∈ evs, 6 ≤ φs.length) :
    corr6 (evs.map (unitsEv n)) = corr6 (evs'.map (unitsEv n)) := by
  rw [corr6_eq _ _ h6, corr6_eq _ _ (fun φs hφ => h6 φs (h.mem_iff.2 hφ)), (h.map _).sum_eq, (h.map _).sum_eq]

/-! non-vacuity: a concrete rotated sample is a different input -/
example : rot 1 [0, 2] = [0 + 1, 2 + 1] ∧ rot 1 [0, 2] ≠ [0, 2] := by
  constructor
  · rfl
  · simp [rot]

end SparkxVerif.C11
