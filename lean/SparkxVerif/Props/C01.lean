/-
C01 — Readers load exactly what the file contains (all supported formats).

Property theorems only.  Model: shared reader model R (`Core/Reader.lean`: `readOscar`, `readJetscape` reproduce
`OscarLoader` / `JetscapeLoader` step by step on the observations `Rd.LineF` the loaders make on each line), the grammar
and the abstract result (`Core/Render.lean`), the column tables GENERATED from the source (`Gen/Tables.lean`,
interpreted by `Core/Columns.lean`), C08's generated `mass_from_energy_momentum`.

Reading of the English.
* "well-formed file": a specification `F : OscarSpec` / `JetSpec` (format, header columns, per event its number, its
  particle lines as token rows, its footer / header text; trailer) with `wfOscar F` (at least one event, events numbered
  0,1,2,…, a header line the format sniffing accepts) resp. `wfJet F` (first event header carries 1, no later one does),
  and a file `f` that is *observed* as the lines of `F` (`obsOscar f F`, `obsJet f F`: every line has the substring
  features and tokens of its kind, every token converts).  The theorems hold for EVERY such `f` — any number of events
  ≥ 1, any multiplicities incl. empty events at any position, any tokens, 12 / 20 / 21 / 22 columns, any ASCII header
  over the 22 names, tab- or blank-separated JETSCAPE headers (`toksTab`), with or without final newline.
  That the text `oscarText F` / `jetText F` rendered by the grammar (`grammarOscar F` / `grammarJet F`) has these
  observations is the classification lemma `C01_classification_holds` (string layer: `Core/Str.lean` re-implements the
  substring tests, `split(' ')`, line splitting, `int()` / `float()` as structurally recursive functions on character
  lists; `Lemmas/Str.lean`, `Lemmas/Classify*.lean` prove it by induction over events), so `C01_full_holds` is about the
  TEXT with no observation hypothesis left.  The driver still evaluates `grammarOscar` / `obsOscar` / `obsJet` on the real
  bytes of every generated file of every run (hundreds per run, incl. the files written by the eight
  `GenerateFlow.generate_dummy_*` functions), together with byte equality of the Lean and Python renderings — this ties
  the re-implemented primitives to Python's.
* "exactly the file's events in file order, each holding exactly its particle lines in file order": the result is
  `abstractOscar F` / `abstractJet F`: event `i` is the list of `PLine`s (file line number, tokens) of `F.events[i]`, in order
  (`abstract_tokens_*`, `abstract_lines_*`); number of events, `(label, size)` rows, detected format, ASCII attribute
  list, footers are the fields of the abstract result; impact parameters (`impact_render_oscar`, incl. the re-indexing by
  event label) and sigmaGen (`sigma_render_jetscape`) are the tokens the file states; `particle_list()` walks exactly
  the held events (`particle_list_*`).
* "every column value available under its documented attribute (integer columns as integers, real columns as the
  nearest double)": tokens are opaque; `slot_of_column` / `column_value` / `ascii_any_columns` say that the getter of the
  documented attribute returns `int tok` for the documented integer columns and `float tok` otherwise, `tok` being the
  token of that column.  `float(tok)` = nearest double and `int(tok)` are Python's (trusted, sampled against
  `fractions` by the harness).
* derived JETSCAPE quantities: `jetscape_charge` (PDGID's `is_valid` / `three_charge` are parameters), `jetscape_mass*`
  (C08's theorem about the generated method body).
-/
import SparkxVerif.Lemmas.Reader
import SparkxVerif.Lemmas.Columns
import SparkxVerif.Lemmas.ClassifyOscar
import SparkxVerif.Lemmas.ClassifyJet
import SparkxVerif.Props.C08

set_option linter.unusedSimpArgs false
set_option linter.unusedTactic false
set_option linter.unreachableTactic false
set_option linter.unnecessarySeqFocus false

namespace SparkxVerif.C01
open SparkxVerif.Rd SparkxVerif.Cols SparkxVerif.Gen.Tables

/-! ## (1) the readers return exactly the file's content -/

/-- Oscar2013 / Oscar2013Extended / ASCII: opening a well-formed file with no options yields the abstract content -/
theorem read_render_oscar (f : FileF) (F : OscarSpec) (hobs : obsOscar f F = true) (hwf : wfOscar F) :
    readOscar f .all none = .ok (abstractOscar F) := by
  obtain ⟨hne, hlab, hfmt⟩ := hwf
  simp only [obsOscar, Bool.and_eq_true, beq_iff_eq] at hobs
  obtain ⟨_, hrest⟩ := hobs
  match hl : f.lines, hrest with
  | h1 :: h2 :: h3 :: body, hrest =>
    simp only [Bool.and_eq_true, beq_iff_eq] at hrest
    obtain ⟨⟨⟨⟨⟨hh1, hn2⟩, hn3⟩, _⟩, _⟩, hbody⟩ := hrest
    have hfm := oscarFormat_head hh1 hfmt
    have hnum := oscarNumEvents_ok hl hbody hne hlab
    have hh1' := hh1
    simp only [isHeadLine, Bool.and_eq_true] at hh1'
    have hscan : oscarScan (h1 :: h2 :: h3 :: body) =
        .ok (F.events.map (fun e => (e.label, (e.parts.length : Int))), F.events.map (·.footer)) := by
      rw [oscarScan_skip hh1'.2, oscarScan_skip hn2, oscarScan_skip hn3, oscarScan_body hbody]
    have hnotIC : (F.fmt == Fmt.extendedIC || F.fmt == Fmt.extendedPhotons) = false := by
      cases hf : F.fmt <;> simp_all
    have hloop := fun fl => oscarLoop_body F.fmt (attrsOf F) fl
      hbody 3 true ⟨[], [], .arr2d (F.events.map (fun e => (e.label, (e.parts.length : Int)))), 0⟩ rfl
    have hlenI := bodyLen_int F.events
    simp only [readOscar, validSel, hl, List.head?_cons, hfm, hnotIC, hnum, hscan, skipLines, readLines, selectRows,
      bind, Except.bind, pure, Except.pure, List.length_map]
    rw [hlenI]
    have hnn : ¬ ((bodyLen F.events : Int) < 0) := by omega
    simp only [List.nil_append] at hloop
    simp only [hnn, finish, bind, Except.bind, pure, Except.pure, Int.toNat_natCast, List.drop_succ_cons, List.drop_zero,
      show Int.toNat 3 = 3 from rfl, show ¬ ((3 : Int) < 0) by omega, decide_false, Bool.or_self, Bool.false_eq_true, if_false]
    rw [hloop]
    have hne' : absOEvents 3 F.events ≠ [] := by
      intro h; have := absOEvents_length 3 F.events; rw [h] at this; exact hne (List.length_eq_zero_iff.mp this.symm)
    simp [absOEvents_length, abstractOscar, hne']
  | [], hrest => simp at hrest
  | [_], hrest => simp at hrest
  | [_, _], hrest => simp at hrest

/-- impact parameters are the ones the footers state, event by event -/
theorem impact_render_oscar (f : FileF) (F : OscarSpec) (hobs : obsOscar f F = true) (hwf : wfOscar F) :
    impactParams f (abstractOscar F) = .ok (F.events.map (·.impact)) := by
  obtain ⟨hne, hlab, _⟩ := hwf
  simp only [obsOscar, Bool.and_eq_true, beq_iff_eq] at hobs
  obtain ⟨_, hrest⟩ := hobs
  match hl : f.lines, hrest with
  | h1 :: h2 :: h3 :: body, hrest =>
    simp only [Bool.and_eq_true, beq_iff_eq] at hrest
    obtain ⟨⟨⟨⟨⟨hh1, hn2⟩, hn3⟩, _⟩, _⟩, hbody⟩ := hrest
    simp only [isHeadLine, Bool.and_eq_true] at hh1
    have hsk : ∀ {l : LineF}, notScanned l = true → (l.hasHash && l.hasEndSp) = false := by
      intro l h; simp only [notScanned, Bool.and_eq_true, Bool.not_eq_true'] at h; exact h.1
    have hft : footToks (h1 :: h2 :: h3 :: body).length f.trailingNL 0 (h1 :: h2 :: h3 :: body) = .ok (F.events.map (·.impact)) := by
      rw [footToks]; simp only [hsk hh1.2, Bool.false_eq_true, if_false]
      rw [footToks]; simp only [hsk hn2, Bool.false_eq_true, if_false]
      rw [footToks]; simp only [hsk hn3, Bool.false_eq_true, if_false]
      exact footToks_body hbody _ _ _
    have hre := reindex_labels (F.events.map (·.impact)) [] F.events (by simp) (by simpa using hlab)
    have hne' : (F.events.map (fun e => (e.label, (e.parts.length : Int)))).isEmpty = false := by
      cases hE : F.events with
      | nil => exact absurd hE hne
      | cons _ _ => rfl
    simp only [impactParams, hl, hft, abstractOscar, hne', bind, Except.bind, List.map_map]
    simpa [Function.comp_def] using hre
  | [], hrest => simp at hrest
  | [_], hrest => simp at hrest
  | [_, _], hrest => simp at hrest

/-- JETSCAPE hadron / parton files, tab- or blank-separated event headers -/
theorem read_render_jetscape (f : FileF) (F : JetSpec) (hobs : obsJet f F = true) (hwf : wfJet F) :
    readJetscape f .all F.partons none = .ok (abstractJet F) := by
  obtain ⟨e, es, hE, h1e, hles⟩ := hwf
  simp only [obsJet, Bool.and_eq_true, beq_iff_eq] at hobs
  obtain ⟨_, hrest⟩ := hobs
  match hl : f.lines, hrest with
  | h1 :: body, hrest =>
    simp only [Bool.and_eq_true, beq_iff_eq] at hrest
    obtain ⟨⟨hh1, _⟩, hbody⟩ := hrest
    obtain ⟨t, hlast, ht⟩ := jet_lastLine hl hbody
    have hsig : t.hasSigma = true := by
      simp only [isJTrailer, Bool.and_eq_true] at ht; exact ht.1.1.1.2
    have hscan : jetscapeScan F.partons (h1 :: body) = .ok (F.events.map (fun e => (e.label, (e.parts.length : Int)))) := by
      simp only [isJHead, Bool.not_eq_true'] at hh1
      rw [jetscapeScan_skip hh1, jetscapeScan_body hbody]
    have hbody' := hbody
    rw [hE] at hbody'
    have hloop := fun fl st hd => jetscapeLoop_body fl 1 hbody' h1e hles 1 true st hd
    have hlenI := jbodyLen_int F.events
    simp only [readJetscape, jetscapeInitOk, hlast, hsig, validSel, hl, hscan, skipLines, readLines, selectRows,
      bind, Except.bind, pure, Except.pure, List.length_map, if_true]
    rw [hlenI]
    have hnn : ¬ (((jbodyLen F.events + 1 : Nat) : Int) < 0) := by omega
    simp only [hnn, finish, bind, Except.bind, pure, Except.pure, Int.toNat_natCast, List.drop_succ_cons, List.drop_zero,
      show Int.toNat 1 = 1 from rfl, show ¬ ((1 : Int) < 0) by omega, decide_false, Bool.or_self, Bool.false_eq_true, if_false]
    rw [hE, hloop _ _ rfl]
    simp [absJEvents_length, abstractJet, hE, absJEvents]
  | [], hrest => simp at hrest

/-- sigmaGen and its error are the two numbers of the trailer -/
theorem sigma_render_jetscape (f : FileF) (F : JetSpec) (hobs : obsJet f F = true) :
    sigmaGen f = .ok F.sigma := by
  simp only [obsJet, Bool.and_eq_true, beq_iff_eq] at hobs
  obtain ⟨_, hrest⟩ := hobs
  match hl : f.lines, hrest with
  | h1 :: body, hrest =>
    simp only [Bool.and_eq_true, beq_iff_eq] at hrest
    obtain ⟨t, hlast, ht⟩ := jet_lastLine hl hrest.2
    simp only [isJTrailer, Bool.and_eq_true] at ht
    simp [sigmaGen, hlast, okEq_eq ht.2, bind, Except.bind]
  | [], hrest => simp at hrest

/-- what "exactly its particle lines in file order" means for the abstract result: the tokens … -/
theorem abstract_tokens_oscar (s : Nat) (es : List OEvent) :
    (absOEvents s es).map (fun ev => ev.map (·.toks)) = es.map (·.parts) := by
  have hp : ∀ (s : Nat) (rows : List (List String)), (mkPLines s rows).map (·.toks) = rows := by
    intro s rows; induction rows generalizing s with
    | nil => rfl
    | cons r rs ih => simp [mkPLines, ih]
  induction es generalizing s with
  | nil => rfl
  | cons e es ih => simp [absOEvents, hp, ih]

theorem abstract_tokens_jetscape (s : Nat) (es : List JEvent) :
    (absJEvents s es).map (fun ev => ev.map (·.toks)) = es.map (·.parts) := by
  have hp : ∀ (s : Nat) (rows : List (List String)), (mkPLines s rows).map (·.toks) = rows := by
    intro s rows; induction rows generalizing s with
    | nil => rfl
    | cons r rs ih => simp [mkPLines, ih]
  induction es generalizing s with
  | nil => rfl
  | cons e es ih => simp [absJEvents, hp, ih]

/-- … and the file lines they come from: consecutive line numbers after the event's header line -/
theorem abstract_lines (s : Nat) (rows : List (List String)) :
    (mkPLines s rows).map (·.lineNo) = (List.range rows.length).map (s + ·) := by
  induction rows generalizing s with
  | nil => rfl
  | cons r rs ih =>
    simp only [mkPLines, List.map_cons, List.length_cons, List.range_succ_eq_map, List.map_map, ih]
    simp [Function.comp_def]; intro a _; omega

/-- `particle_list()` on the loaded object: the held events (a flat list for a one-event file) -/
theorem particle_list_oscar (F : OscarSpec) :
    particleList (abstractOscar F) =
      .ok (match absOEvents 3 F.events with | [ev] => .flat ev | evs => .nested evs) := by
  apply particleList_consistent _ _ rfl
  · simp [abstractOscar, absOEvents_length]
  · simp [abstractOscar, absOEvents_lengths, Function.comp_def]

theorem particle_list_jetscape (F : JetSpec) :
    particleList (abstractJet F) =
      .ok (match absJEvents 1 F.events with | [ev] => .flat ev | evs => .nested evs) := by
  apply particleList_consistent _ _ rfl
  · simp [abstractJet, absJEvents_length]
  · simp [abstractJet, absJEvents_lengths, Function.comp_def]

/-! ### the statement about the TEXT

`C01_full` is the statement over the rendered text; it follows from the theorems above and `C01_classification`
("the text rendered for a specification of the grammar is observed as that specification"), which is proved below
(`C01_classification_holds`; string reasoning over the token alphabet in `Lemmas/Str.lean`, `Lemmas/Classify*.lean`).
The driver also evaluates its instances (`grammarOscar F`, `obsOscar (fileOfText (oscarText F)) F`, and the JETSCAPE
twins) on every generated file of every run, on the real bytes. -/

def C01_classification : Prop :=
  (∀ F : OscarSpec, grammarOscar F = true → obsOscar (Proto.fileOfText (oscarText F)) F = true) ∧
  (∀ F : JetSpec, grammarJet F = true → obsJet (Proto.fileOfText (jetText F)) F = true)

def C01_full : Prop :=
  (∀ F : OscarSpec, grammarOscar F = true → wfOscar F →
    readOscar (Proto.fileOfText (oscarText F)) .all none = .ok (abstractOscar F) ∧
    impactParams (Proto.fileOfText (oscarText F)) (abstractOscar F) = .ok (F.events.map (·.impact))) ∧
  (∀ F : JetSpec, grammarJet F = true → wfJet F →
    readJetscape (Proto.fileOfText (jetText F)) .all F.partons none = .ok (abstractJet F) ∧
    sigmaGen (Proto.fileOfText (jetText F)) = .ok F.sigma)

theorem C01_partial (hc : C01_classification) : C01_full :=
  ⟨fun F hg hwf => ⟨read_render_oscar _ F (hc.1 F hg) hwf, impact_render_oscar _ F (hc.1 F hg) hwf⟩,
   fun F hg hwf => ⟨read_render_jetscape _ F (hc.2 F hg) hwf, sigma_render_jetscape _ F (hc.2 F hg)⟩⟩

/-- the classification lemma (string layer): the text rendered for any specification of the grammar — any number of
events, any multiplicities, any numeric tokens over `[0-9+-.eE]`, any column names, tab- or blank-separated JETSCAPE
headers, with or without final newline — is split into lines and observed (`Proto.fileOfText`, `Rd.analyse`: substring
tests, `split(' ')`, `int()`, `float()`) as exactly the lines of that specification.  Proof: `Lemmas/Str.lean` (algebra of
the structurally recursive string primitives of `Core/Str.lean`), `Lemmas/Classify*.lean` (line kinds, induction over events). -/
theorem C01_classification_holds : C01_classification :=
  ⟨oscar_classification, jet_classification⟩

/-- the statement over the rendered TEXT, unconditionally -/
theorem C01_full_holds : C01_full := C01_partial C01_classification_holds

/-! ## (2) every column value is available under its documented attribute -/

/-- table theorem over the GENERATED tables: for Oscar2013 (12 columns), Oscar2013Extended (20, 21, 22 columns) and
JETSCAPE (7 columns) the reader writes column `i` into the slot the getter of the documented attribute reads, with the
documented cast, no two columns share a slot, and the getter's kind is the documented one (`colOK`) -/
theorem slot_of_column :
    (oscar2013Cols.zipIdx.all (fun ci => colOK fmtOscar2013 [] 12 ci.2 ci.1)) = true ∧
    ((allCols.take 20).zipIdx.all (fun ci => colOK fmtExtended [] 20 ci.2 ci.1)) = true ∧
    ((allCols.take 21).zipIdx.all (fun ci => colOK fmtExtended [] 21 ci.2 ci.1)) = true ∧
    (allCols.zipIdx.all (fun ci => colOK fmtExtended [] 22 ci.2 ci.1)) = true ∧
    (jetCols.zipIdx.all (fun ci => colOK fmtJetscape [] 7 ci.2 ci.1)) = true := by
  decide

/-- hence, for every token list: the documented attribute returns the token of its column, as int or float -/
theorem column_value_oscar2013 (toks : List String) (_ht : toks.length = 12) (i : Nat) (c : String)
    (hc : oscar2013Cols[i]? = some c) (hi : i < toks.length) :
    ∃ ws, writes fmtOscar2013 [] 12 = some ws ∧ getAttr (attrOf c) (cellOf ws toks) = some (docVal c toks[i]) := by
  have h := slot_of_column.1
  rw [List.all_eq_true] at h
  exact column_value (h (c, i) (List.mem_zipIdx_iff_getElem?.mpr (by simpa using hc))) toks hi

theorem column_value_extended (n : Nat) (hn : n = 20 ∨ n = 21 ∨ n = 22) (toks : List String) (ht : toks.length = n)
    (i : Nat) (c : String) (hc : (allCols.take n)[i]? = some c) (hi : i < toks.length) :
    ∃ ws, writes fmtExtended [] n = some ws ∧ getAttr (attrOf c) (cellOf ws toks) = some (docVal c toks[i]) := by
  rcases hn with rfl | rfl | rfl
  · have h := slot_of_column.2.1
    rw [List.all_eq_true] at h
    exact column_value (h (c, i) (List.mem_zipIdx_iff_getElem?.mpr (by simpa using hc))) toks hi
  · have h := slot_of_column.2.2.1
    rw [List.all_eq_true] at h
    exact column_value (h (c, i) (List.mem_zipIdx_iff_getElem?.mpr (by simpa using hc))) toks hi
  · have h := slot_of_column.2.2.2.1
    rw [List.all_eq_true] at h
    have hc' : allCols[i]? = some c := by
      rw [List.take_of_length_le (by simp [allCols])] at hc; exact hc
    exact column_value (h (c, i) (List.mem_zipIdx_iff_getElem?.mpr (by simpa using hc'))) toks hi

theorem column_value_jetscape (toks : List String) (_ht : toks.length = 7) (i : Nat) (c : String)
    (hc : jetCols[i]? = some c) (hi : i < toks.length) :
    ∃ ws, writes fmtJetscape [] 7 = some ws ∧ getAttr (attrOf c) (cellOf ws toks) = some (docVal c toks[i]) := by
  have h := slot_of_column.2.2.2.2
  rw [List.all_eq_true] at h
  exact column_value (h (c, i) (List.mem_zipIdx_iff_getElem?.mpr (by simpa using hc))) toks hi

/-- ASCII, unbounded in subset and order: column `i` of a duplicate-free header over the 22 names is written into the slot
its documented attribute's getter reads, with the documented cast, and comes back as the documented value -/
theorem ascii_any_columns (cols : List String) (hnd : cols.Nodup) (hsub : ∀ c ∈ cols, c ∈ allCols)
    (i : Nat) (hi : i < cols.length) :
    ∃ ws s, writes fmtAscii (cols.map attrOf) cols.length = some ws ∧
      getterSlot (attrOf cols[i]) = some s ∧ (⟨s, !intCols.contains cols[i], i⟩ : Write) ∈ ws ∧
      ∀ toks : List String, (h : i < toks.length) →
        getAttr (attrOf cols[i]) (cellOf ws toks) = some (docVal cols[i] toks[i]) := by
  have hc := hsub cols[i] (List.getElem_mem hi)
  have ht := ascii_table.1 _ hc
  obtain ⟨s, hs⟩ := Option.isSome_iff_exists.mp ht.2.1
  have hmem : (⟨s, !intCols.contains cols[i], i⟩ : Write) ∈ asciiWrites cols := by
    unfold asciiWrites
    apply List.mem_map.mpr
    exact ⟨(cols[i], i), by simp [List.mem_zipIdx_iff_getElem?, hi], by simp [hs]⟩
  refine ⟨asciiWrites cols, s, writes_ascii cols hnd hsub, hs, hmem, ?_⟩
  intro toks h
  have hok : colOK fmtAscii (cols.map attrOf) cols.length i cols[i] = true := by
    unfold colOK
    rw [writes_ascii cols hnd hsub]
    have hnd2 := asciiWrites_slots_nodup cols hnd hsub
    have hmem' : (⟨s, !decide (cols[i] ∈ intCols), i⟩ : Write) ∈ asciiWrites cols := by simpa using hmem
    simp [hnd2, hs, ht.2.2.2, hmem']
  obtain ⟨ws, hws, hval⟩ := column_value hok toks h
  rw [writes_ascii cols hnd hsub] at hws
  cases hws
  exact hval

/-- every one of the 22 names is known to "Allfields" (no `KeyError`), and the loader's `attr_map` maps a header name to
its documented attribute -/
theorem ascii_names_known :
    (∀ c ∈ allCols, (allfieldsSlot (attrOf c)).isSome = true) ∧ (∀ c ∈ allCols, attrMap.lookup c = some (attrOf c)) := by
  decide

/-- the reader model's own copies of the tables are the generated ones: `attr_map`, the casts per column, the
column-count rule and the `set_oscar_format` chain (so `fieldsOk` / `colsOk` / `oscarFormat` in `Core/Reader.lean` speak
about the source as it is now) -/
theorem reader_tables_agree :
    attrMapKeys = attrMap ∧
    (∀ n, colsOk .oscar2013 n = lenOk fmtOscar2013 n 12) ∧ (∀ n, colsOk .extended n = lenOk fmtExtended n 22) ∧
    (writes fmtOscar2013 [] 12).map (fun ws => ws.map (·.isFloat)) = some (colKinds .oscar2013 [] 12) ∧
    (writes fmtExtended [] 20).map (fun ws => ws.map (·.isFloat)) = some (colKinds .extended [] 20) ∧
    (writes fmtExtended [] 21).map (fun ws => ws.map (·.isFloat)) = some (colKinds .extended [] 21) ∧
    (writes fmtExtended [] 22).map (fun ws => ws.map (·.isFloat)) = some (colKinds .extended [] 22) ∧
    (writes fmtJetscape [] 7).map (fun ws => ws.all (fun w => jetKinds[w.col]? == some w.isFloat) &&
      decide ((ws.map (·.col)).Nodup) && ws.length == 7) = some true ∧
    (∀ c ∈ allCols, (colKinds .ascii [attrOf c] 1) = [castIsFloat (attrOf c ++ "_")]) ∧
    (∀ l : LineF, fmtStr (oscarFormat l) = evalChain l.toks formatChain) :=
  ⟨by decide, colsOk_2013, colsOk_ext, by decide, by decide, by decide, by decide, by decide, by decide, chain⟩

/-! ## (3) derived JETSCAPE quantities -/

/-- the constructor assigns `mass` and `charge` from the two documented methods, through the setters whose slots are the
ones the `mass` / `charge` getters read -/
theorem jetscape_derived_slots :
    jetscapeDerived = [("mass", "mass_from_energy_momentum"), ("charge", "charge_from_pdg")] ∧
    setters.lookup "mass" = getterSlot "mass" ∧ setters.lookup "charge" = getterSlot "charge" ∧
    getterKind "mass" = some 0 ∧ getterKind "charge" = some 1 := by
  decide

/-- derived charge for whole-number charges and for quarks (|q| < 1): the PDG charge, resp. three times it.
This part holds for both shapes of the `charge` setter the translator knows (`|value| < 1` and `value % 1 != 0`); the
statement for EVERY code (`jetscape_charge`, incl. diquarks with |q| = 4/3) is in `Props/C01/ChargeFull.lean`. -/
theorem jetscape_charge_partial (q3 : Int) (h : q3 % 3 = 0 ∨ q3.natAbs < 3) :
    jetCharge true (some q3) = some (some (docCharge q3)) := by
  have key : Int.tdiv (chargeSetter3 q3) 3 = docCharge q3 := by
    unfold docCharge chargeSetter3
    by_cases h3 : q3 % 3 = 0
    · have hd := Int.tdiv_eq_ediv_of_dvd (Int.dvd_of_emod_eq_zero h3)
      split <;> simp_all [Int.mul_tdiv_cancel_left] <;> omega
    · have hn : q3.natAbs < 3 := by omega
      split <;> simp_all [Int.mul_tdiv_cancel_left] <;> omega
  simp [jetCharge, key]

/-- unknown codes (and valid codes PDGID has no charge for): the charge is unset (NaN), the file still loads -/
theorem jetscape_charge_unknown (q3 : Option Int) :
    jetCharge false q3 = some none ∧ jetCharge true none = some none := by
  simp [jetCharge, chargeNoneIsNan]

/-- derived mass: `m ≥ 0`, `m² = E² − p²` for every PDG code outside the documented massless list (|p| ≤ |E|) … -/
theorem jetscape_mass (a : Kin.Attrs Kin.XReal) {E px py pz : ℝ}
    (hE : a.E = Kin.XReal.fin E) (hx : a.px = Kin.XReal.fin px) (hy : a.py = Kin.XReal.fin py)
    (hz : a.pz = Kin.XReal.fin pz) (hpdg : Kin.pdgIn a.pdg massless = false) (hphys : Kin.pabs px py pz ≤ |E|) :
    ∃ m, Gen.Kin.mass_from_energy_momentum a = .val (Kin.XReal.fin m) ∧ 0 ≤ m ∧
      m ^ 2 = E ^ 2 - (px ^ 2 + py ^ 2 + pz ^ 2) :=
  C08.mass_sq a hE hx hy hz hpdg hphys

/-- … and exactly 0 for photons, gluons and neutrinos (the generated `massless_pdg` list) -/
theorem jetscape_mass_massless (a : Kin.Attrs Kin.XReal) {E px py pz : ℝ}
    (hE : a.E = Kin.XReal.fin E) (hx : a.px = Kin.XReal.fin px) (hy : a.py = Kin.XReal.fin py)
    (hz : a.pz = Kin.XReal.fin pz) (hpdg : Kin.pdgIn a.pdg massless = true) :
    Gen.Kin.mass_from_energy_momentum a = .val (Kin.XReal.fin 0) :=
  C08.mass_massless a hE hx hy hz hpdg

theorem massless_list : massless = [22, 21, 12, -12, 14, -14, 16, -16, 18, -18] := by decide

/-! ## the hypotheses are satisfiable by concrete, non-trivial objects -/

/-- three events, the middle one empty, ASCII columns in a non-standard order -/
def exOscar : OscarSpec :=
  { fmt := .ascii, cols := ["pz", "pdg", "t"], h2 := "# Units: GeV none fm", h3 := "# SMASH-3.1",
    events := [⟨0, [["1.5", "211", "0.1"], ["-2e-3", "-211", "7"]], "# event 0 end 0 impact   1.500 scattering_projectile_target yes", "1.500"⟩,
               ⟨1, [], "# event 1 end 0 impact   0.000 scattering_projectile_target no", "0.000"⟩,
               ⟨2, [["0.25", "2212", "12."]], "# event 2 end 0 impact  -1.000 scattering_projectile_target no", "-1.000"⟩],
    trailingNL := true }

theorem exOscar_wf : wfOscar exOscar := by
  refine ⟨by simp [exOscar], ?_, by simp only [exOscar]; decide⟩
  intro i h
  have : i < 3 := by simpa [exOscar] using h
  match i, this with
  | 0, _ => rfl
  | 1, _ => rfl
  | 2, _ => rfl

/-- two events, the first empty, space-separated headers -/
def exJet : JetSpec :=
  { partons := true, h1 := "#\tJETSCAPE_FINAL_STATE\tv2\t|\tN\tpid\tstatus\tE\tPx\tPy\tPz",
    events := [⟨1, [], "# Event 1 weight 1 EPangle 0 N_partons 0"⟩,
               ⟨2, [["0", "2203", "0", "5.0", "1.0", "2.0", "3.0"], ["1", "21", "0", "2.5", "0.0", "0.0", "2.5"]],
                "# Event 2 weight 1 EPangle 0 N_partons 2"⟩],
    trailer := "#\tsigmaGen\t0.1\tsigmaErr\t0.01", sigma := ("0.1", "0.01"), trailingNL := false }

theorem exJet_wf : wfJet exJet := ⟨_, _, rfl, rfl, by simp⟩

/-- the two specifications are in the text grammar (evaluated by the kernel on the character lists) … -/
theorem exOscar_grammar : grammarOscar exOscar = true := by decide

theorem exJet_grammar : grammarJet exJet = true := by decide

/-- … so their rendered texts are split, classified and read as exactly their content — no hypothesis about any string
function is left -/
example : readOscar (Proto.fileOfText (oscarText exOscar)) .all none = .ok (abstractOscar exOscar) ∧
    impactParams (Proto.fileOfText (oscarText exOscar)) (abstractOscar exOscar) = .ok ["1.500", "0.000", "-1.000"] :=
  C01_full_holds.1 exOscar exOscar_grammar exOscar_wf

example : readJetscape (Proto.fileOfText (jetText exJet)) .all true none = .ok (abstractJet exJet) ∧
    sigmaGen (Proto.fileOfText (jetText exJet)) = .ok ("0.1", "0.01") :=
  C01_full_holds.2 exJet exJet_grammar exJet_wf

/-- the observation hypothesis on an explicit, hand-written file for `exJet`, granted the evaluation of Python's conversions
on the literal tokens (kept from before the string layer was proved: `obsJet` is satisfiable by files given as
observations, whatever the string primitives are) -/
example (hi : ∀ t ∈ ["0", "1", "2", "21", "2203"], isPyInt t = true)
    (hv : pyInt? "1" = some 1 ∧ pyInt? "2" = some 2 ∧ pyInt? "0" = some 0)
    (hf : ∀ t ∈ ["5.0", "1.0", "2.0", "3.0", "2.5", "0.0"], isPyFloat t = true)
    (hs : sigmaGenOf exJet.trailer = .ok ("0.1", "0.01")) :
    ∃ f, obsJet f exJet = true ∧ f.lines.length = 6 := by
  let mk (raw : String) (tt : List String) (hash sig cap w np : Bool) : LineF :=
    { raw := raw, toks := [], toksTab := tt, hasHash := hash, hasEvent := false, hasOut := false, hasOutSp := false,
      hasInSp := false, hasSpIn := false, hasStart := false, hasEnd := false, hasEndSp := false, hasSigma := sig,
      hasWeight := w, hasEventCap := cap, hasNHadrons := false, hasNPartons := np }
  refine ⟨⟨[mk exJet.h1 [] true false false false false,
            mk "# Event 1 weight 1 EPangle 0 N_partons 0" ["#", "Event", "1", "weight", "1", "EPangle", "0", "N_partons", "0"] true false true true true,
            mk "# Event 2 weight 1 EPangle 0 N_partons 2" ["#", "Event", "2", "weight", "1", "EPangle", "0", "N_partons", "2"] true false true true true,
            mk "" ["0", "2203", "0", "5.0", "1.0", "2.0", "3.0"] false false false false false,
            mk "" ["1", "21", "0", "2.5", "0.0", "0.0", "2.5"] false false false false false,
            mk exJet.trailer [] true true false false false], false⟩, ?_, rfl⟩
  have hi' : ∀ t ∈ ["0", "1", "2", "21", "2203"], (pyInt? t).isSome = true := hi
  simp [obsJet, exJet, obsJBody, obsJParts, isJHead, isJHeader, isJPart, isJTrailer, hasKey, tokInt, hv, fieldsOk, jetKinds,
    mk, okEq, hs, isPyInt] at hi hf hs ⊢
  simp [hi, hf]

/-- the same for a two-event Oscar file (second event empty) -/
example (hv : pyInt? "0" = some 0 ∧ pyInt? "1" = some 1) (hi : isPyInt "211" = true)
    (hf : ∀ t ∈ ["1.5", "0.1"], isPyFloat t = true)
    (h0 : ∀ b, impactTokOf "# event 0 end 0 impact   1.500 scattering_projectile_target yes" b = .ok "1.500")
    (h1 : ∀ b, impactTokOf "# event 1 end 0 impact   0.000 scattering_projectile_target no" b = .ok "0.000") :
    ∃ f, obsOscar f { exOscar with events := [⟨0, [["1.5", "211", "0.1"]], "# event 0 end 0 impact   1.500 scattering_projectile_target yes", "1.500"⟩,
                                               ⟨1, [], "# event 1 end 0 impact   0.000 scattering_projectile_target no", "0.000"⟩] } = true := by
  let mk (raw : String) (tt : List String) (ev out outSp en enSp : Bool) : LineF :=
    { raw := raw, toks := tt, toksTab := [], hasHash := true, hasEvent := ev, hasOut := out, hasOutSp := outSp,
      hasInSp := false, hasSpIn := false, hasStart := false, hasEnd := en, hasEndSp := enSp, hasSigma := false,
      hasWeight := false, hasEventCap := false, hasNHadrons := false, hasNPartons := false }
  refine ⟨⟨[mk "" ["#!ASCII", "particle_lists", "pz", "pdg", "t"] false false false false false,
            mk "# Units: GeV none fm" [] false false false false false, mk "# SMASH-3.1" [] false false false false false,
            mk "" ["#", "event", "0", "out", "1"] true true true false false,
            { mk "" ["1.5", "211", "0.1"] false false false false false with hasHash := false },
            mk "# event 0 end 0 impact   1.500 scattering_projectile_target yes" ["#", "event", "0", "end"] true false false true true,
            mk "" ["#", "event", "1", "out", "0"] true true true false false,
            mk "# event 1 end 0 impact   0.000 scattering_projectile_target no" ["#", "event", "1", "end"] true false false true true],
           true⟩, ?_⟩
  simp [obsOscar, exOscar, obsBody, obsParts, isHeadLine, headToks, headTag, notScanned, isOutLine, isPartLine, isEndLine,
    tokInt, hv, fieldsOk, colKinds, colsOk, attrsOf, attrOf, mk, okEq, h0, h1, isPyInt] at hi hf ⊢
  simp [hi, hf]

example : (["pz", "pdg", "t"] : List String).Nodup ∧ ∀ c ∈ (["pz", "pdg", "t"] : List String), c ∈ allCols := by decide

/-- `ascii_any_columns` on that header: `pz` (column 0) comes back through `Particle.pz` as the float of its token,
`pdg` (column 1) through `Particle.pdg` as an int -/
example (toks : List String) (h : 1 < toks.length) :
    ∃ ws, writes fmtAscii ["pz", "pdg", "t"] 3 = some ws ∧
      getAttr "pz" (cellOf ws toks) = some (.float toks[0]) ∧ getAttr "pdg" (cellOf ws toks) = some (.int toks[1]) := by
  obtain ⟨ws, _, hw, _, _, hv0⟩ := ascii_any_columns ["pz", "pdg", "t"] (by decide) (by decide) 0 (by decide)
  obtain ⟨ws', _, hw', _, _, hv1⟩ := ascii_any_columns ["pz", "pdg", "t"] (by decide) (by decide) 1 (by decide)
  have e : ws' = ws := Option.some.inj (hw'.symm.trans hw)
  subst e
  refine ⟨ws', by simpa [attrOf] using hw, ?_, ?_⟩
  · simpa [attrOf, docVal, intCols] using hv0 toks (by omega)
  · simpa [attrOf, docVal, intCols] using hv1 toks h

end SparkxVerif.C01
