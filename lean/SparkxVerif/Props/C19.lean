/-
C19 — Centrality classification is total, monotone and consistent with its sample.

Property theorems only (helper lemmas: `Lemmas/Centrality.lean`; executable model: `Core/Centrality.lean`,
the same definitions the driver runs at `Int`).  Everything is over an arbitrary linear order `α` of
multiplicities (and `γ` of percentile edges), any sample, any list `R` of rank boundaries, any query.

Reading of the statement.  `R = [R_0, …, R_N]` are the rank boundaries of the cleaned edges
(`R_j = int(n·c_j/100.0)`, computed by Python and handed to the model; the theorems assume only that they
are non-decreasing — `R.Pairwise (· ≤ ·)` — and that construction succeeded, `build … = .ok C`;
`build_succeeds` shows that it does whenever `n ≥ 4`, no multiplicity is negative, every `R_j ≤ n` and
every boundary but the last is `< n`).  Class `i` owns the descending ranks `[R_i, R_{i+1})`;
`srt = sortDesc sample` is the sample in descending order (`sortDesc_unique`: the only descending
rearrangement, so "rank" is well defined).  `cls x = lookup C.mins x` is `get_centrality_class`.

The theorems are about the *repaired* extraction (`Min_i = inf` when `R_{i+1} = 0`).  For the code before
the repair (`buildWrap`: `record[R_{i+1} - 1]` with Python's negative-index wrap) rank consistency is
refuted on a concrete sample (`wrap_not_rank_consistent`).
-/
import SparkxVerif.Lemmas.Centrality

namespace SparkxVerif.C19
open SparkxVerif.Centrality

section
variable {α : Type} [LinearOrder α]

/-- the descending ranking used by the model is *the* descending rearrangement of the sample -/
theorem ranking_unique (sample s : List α) (hp : s.Perm sample) (hs : s.Pairwise (fun a b => b ≤ a)) :
    s = sortDesc sample := sortDesc_unique sample s hp hs

theorem ranking_is_sorted_perm (sample : List α) :
    (sortDesc sample).Perm sample ∧ (sortDesc sample).Pairwise (fun a b => b ≤ a) :=
  ⟨sortDesc_perm sample, sortDesc_pairwise sample⟩

/-- construction succeeds on every admissible input: at least 4 events, no negative multiplicity, at least
one edge, every rank boundary `≤ n` and every boundary except the last `< n` -/
theorem build_succeeds (zero : α) (sample : List α) (R : List Nat) (h4 : 4 ≤ sample.length)
    (hnn : ∀ m ∈ sample, zero ≤ m) (hne : R ≠ [])
    (hlo : ∀ r ∈ R.dropLast, r < sample.length) (hhi : ∀ r ∈ R, r ≤ sample.length) :
    ∃ C, build zero sample R = .ok C := by
  cases R with
  | nil => exact absurd rfl hne
  | cons r0 rest =>
    obtain ⟨⟨ms, xs⟩, hp⟩ := extract_succeeds (sortDesc sample) rest r0
      (by rw [sortDesc_length]; exact hlo)
      (by rw [sortDesc_length]; exact fun r hr => hhi r (List.mem_cons_of_mem _ hr))
    refine ⟨⟨ms, xs⟩, ?_⟩
    unfold build buildWith
    rw [if_neg (by omega)]
    have : ¬ (sample.any (fun m => decide (m < zero)) = true) := by
      simp only [List.any_eq_true, decide_eq_true_eq, not_exists, not_and, not_lt]
      exact hnn
    rw [if_neg this]
    simp only [hp]

/-- **C19, totality.** Every query multiplicity (non-negative or not) is mapped to exactly one class index
`c` with `0 ≤ c < N` (`N = len(edges) - 1 ≥ 1` classes) — never the `-1` fall-through, never an exception. -/
theorem total {zero : α} {sample : List α} {R : List Nat} {C : Classes α}
    (hb : build zero sample R = .ok C) (h2 : 2 ≤ R.length) (x : α) :
    ∃ c : Nat, lookup C.mins x = .ok (c : Int) ∧ c + 1 < R.length := by
  have hB := build_spec hb
  obtain ⟨k, hk, hlt, _, _⟩ := lookup_spec C.mins (mins_ne_nil hB h2) x
  exact ⟨k, hk, by have := hB.len_mins; omega⟩

/-- totality of the lookup for *any* non-empty list of stored minima (no assumption on their order) -/
theorem total_any (mins : List (Bnd α)) (hne : mins ≠ []) (x : α) :
    ∃ c : Nat, lookup mins x = .ok (c : Int) ∧ c < mins.length := by
  obtain ⟨k, hk, hlt, _, _⟩ := lookup_spec mins hne x
  exact ⟨k, hk, hlt⟩

/-- **C19, monotonicity.** A larger multiplicity is never assigned a more peripheral class. -/
theorem monotone {zero : α} {sample : List α} {R : List Nat} {C : Classes α}
    (hb : build zero sample R = .ok C) (hR : R.Pairwise (· ≤ ·)) {x y : α} (hxy : x ≤ y)
    {cx cy : Int} (hx : lookup C.mins x = .ok cx) (hy : lookup C.mins y = .ok cy) : cy ≤ cx := by
  have hB := build_spec hb
  have hne : C.mins ≠ [] := by
    intro h
    rw [h] at hx
    simp [lookup, pyIdx] at hx
  obtain ⟨kx, hkx, hltx, _, hx2⟩ := lookup_spec C.mins hne x
  obtain ⟨ky, hky, hlty, hy1, _⟩ := lookup_spec C.mins hne y
  rw [hx] at hkx; cases hkx
  rw [hy] at hky; cases hky
  by_contra hcon
  have hlt : kx < ky := by omega
  obtain ⟨a, ha, hax⟩ := hx2 (by omega)
  obtain ⟨b, hb', hby⟩ := hy1 (by omega)
  have hbx : b.leVal x = true := mins_antitone hB hR (by omega) ha hb' hax
  have hby' : b.leVal y = true := by
    cases b with
    | inf => simp [Bnd.leVal] at hbx
    | fin m =>
      simp only [Bnd.leVal, decide_eq_true_eq] at hbx ⊢
      exact le_trans hbx hxy
  rw [gtVal_eq_not_leVal, hby'] at hby
  cases hby

/-- **C19, consistency with the sample.** An event whose descending rank `r` lies in the rank interval
`[R_i, R_{i+1})` of class `i` is assigned class `i`; the only exception is an event tied with the last event
*before* that interval (rank `R_i - 1`, the lower boundary of the previous class), which is assigned an
earlier class `c < i` whose stored minimum is exactly the event's multiplicity. -/
theorem rank_consistent {zero : α} {sample : List α} {R : List Nat} {C : Classes α}
    (hb : build zero sample R = .ok C) (hR : R.Pairwise (· ≤ ·)) {i r lo hi : Nat}
    (hlo : R[i]? = some lo) (hhi : R[i + 1]? = some hi) (h1 : lo ≤ r) (h2 : r < hi) :
    ∃ (x : α) (c : Nat), (sortDesc sample)[r]? = some x ∧ lookup C.mins x = .ok (c : Int) ∧
      (c = i ∨ (c < i ∧ 0 < lo ∧ (sortDesc sample)[lo - 1]? = some x ∧ C.mins[c]? = some (.fin x))) := by
  have hB := build_spec hb
  have hlen := hB.len_mins
  have hsrt := sortDesc_pairwise sample
  have hiR : i + 1 < R.length := (List.getElem?_eq_some_iff.1 hhi).1
  -- rank `hi - 1` exists, hence rank `r` does
  obtain ⟨bi, hbi, hsi⟩ := hB.mins i hi hhi
  have hmi : ∃ m, (sortDesc sample)[hi - 1]? = some m := by
    rcases hsi with ⟨h0, _⟩ | ⟨_, m, hm, _⟩
    · omega
    · exact ⟨m, hm⟩
  obtain ⟨mi, hmi⟩ := hmi
  have hn : hi - 1 < (sortDesc sample).length := (List.getElem?_eq_some_iff.1 hmi).1
  have hr : r < (sortDesc sample).length := by omega
  refine ⟨(sortDesc sample)[r], ?_⟩
  have hxr : (sortDesc sample)[r]? = some (sortDesc sample)[r] := List.getElem?_eq_getElem hr
  generalize (sortDesc sample)[r] = x at hxr
  have hne : C.mins ≠ [] := mins_ne_nil hB (by omega)
  obtain ⟨c, hc, hcl, hc1, hc2⟩ := lookup_spec C.mins hne x
  refine ⟨c, hxr, hc, ?_⟩
  -- `c ≤ i`
  have hci : c ≤ i := by
    by_contra hcon
    obtain ⟨b, hb1, hbx⟩ := hc1 (by omega)
    obtain ⟨rc, hrc⟩ : ∃ q, R[c - 1 + 1]? = some q := ⟨R[c - 1 + 1]'(by omega), List.getElem?_eq_getElem _⟩
    obtain ⟨b', hb', hsb⟩ := hB.mins (c - 1) rc hrc
    rw [hb1] at hb'; cases hb'
    have hle : hi ≤ rc := asc_getElem? hR (by omega) hhi hrc
    rcases hsb with ⟨h0, _⟩ | ⟨_, m, hm, rfl⟩
    · omega
    · have : m ≤ x := desc_getElem? hsrt (by omega) hxr hm
      simp only [Bnd.gtVal, decide_eq_true_eq] at hbx
      exact absurd hbx (not_lt.2 this)
  rcases Nat.lt_or_eq_of_le hci with hlt | rfl
  · right
    obtain ⟨a, ha, hax⟩ := hc2 (by omega)
    obtain ⟨rc, hrc⟩ : ∃ q, R[c + 1]? = some q := ⟨R[c + 1]'(by omega), List.getElem?_eq_getElem _⟩
    obtain ⟨a', ha', hsa⟩ := hB.mins c rc hrc
    rw [ha] at ha'; cases ha'
    have hle : rc ≤ lo := asc_getElem? hR (by omega) hrc hlo
    rcases hsa with ⟨_, rfl⟩ | ⟨hpos, m, hm, rfl⟩
    · simp [Bnd.leVal] at hax
    · simp only [Bnd.leVal, decide_eq_true_eq] at hax
      have hlo1 : lo - 1 < (sortDesc sample).length := by omega
      have hz : (sortDesc sample)[lo - 1]? = some (sortDesc sample)[lo - 1] := List.getElem?_eq_getElem hlo1
      generalize (sortDesc sample)[lo - 1] = z at hz
      have hzm : z ≤ m := desc_getElem? hsrt (by omega) hm hz
      have hxz : x ≤ z := desc_getElem? hsrt (by omega) hz hxr
      have hmx : m = x := le_antisymm hax (le_trans hxz hzm)
      have hzx : z = x := le_antisymm (by rw [← hmx]; exact hzm) hxz
      refine ⟨hlt, by omega, by rw [hz, hzx], by rw [ha, hmx]⟩
  · left; rfl

/-- **C19, stored extremes.** For a class with a non-empty rank interval `[R_i, R_{i+1})` the stored minimum
is a multiplicity (not `inf`), the stored minimum and maximum are attained inside the interval (at ranks
`R_{i+1} - 1` and `R_i`), and every event of the interval lies between them. -/
theorem min_max_extreme {zero : α} {sample : List α} {R : List Nat} {C : Classes α}
    (hb : build zero sample R = .ok C) {i lo hi : Nat}
    (hlo : R[i]? = some lo) (hhi : R[i + 1]? = some hi) (hne : lo < hi) :
    ∃ m M : α, C.mins[i]? = some (.fin m) ∧ C.maxs[i]? = some M ∧
      (sortDesc sample)[hi - 1]? = some m ∧ (sortDesc sample)[lo]? = some M ∧
      lo ≤ hi - 1 ∧ hi - 1 < hi ∧
      ∀ (r : Nat) (y : α), lo ≤ r → r < hi → (sortDesc sample)[r]? = some y → m ≤ y ∧ y ≤ M := by
  have hB := build_spec hb
  have hsrt := sortDesc_pairwise sample
  have hiR : i + 1 < R.length := (List.getElem?_eq_some_iff.1 hhi).1
  obtain ⟨b, hb1, hsb⟩ := hB.mins i hi hhi
  obtain ⟨M, hM, hMs⟩ := hB.maxs i lo hlo hiR
  rcases hsb with ⟨h0, _⟩ | ⟨_, m, hm, rfl⟩
  · omega
  · refine ⟨m, M, hb1, hM, hm, hMs, by omega, by omega, ?_⟩
    intro r y h1 h2 hy
    exact ⟨desc_getElem? hsrt (by omega) hy hm, desc_getElem? hsrt h1 hMs hy⟩

end

/-! ### edge cleaning -/

section
variable {γ : Type} [LinearOrder γ]

/-- the cleaned edge list is strictly increasing and has exactly the members of the given list -/
theorem clean_sorted_nodup (edges : List γ) :
    (cleanEdges edges).Pairwise (· < ·) ∧ ∀ c, c ∈ cleanEdges edges ↔ c ∈ edges :=
  ⟨cleanEdges_strict edges, mem_cleanEdges edges⟩

/-- **C19, cleaning.** Two edge lists with the same set of values — in any order, with any repetitions — are
cleaned to the same list; in particular any list and its sorted, duplicate-free form. -/
theorem clean_invariant (e₁ e₂ : List γ) (h : ∀ c, c ∈ e₁ ↔ c ∈ e₂) : cleanEdges e₁ = cleanEdges e₂ :=
  strict_ext (cleanEdges_strict e₁) (cleanEdges_strict e₂)
    (fun c => by rw [mem_cleanEdges, mem_cleanEdges, h])

/-- a list that is already strictly increasing is left as it is; cleaning is idempotent -/
theorem clean_fixed (e : List γ) (h : e.Pairwise (· < ·)) : cleanEdges e = e := cleanEdges_of_strict e h

theorem clean_idem (e : List γ) : cleanEdges (cleanEdges e) = cleanEdges e :=
  cleanEdges_of_strict _ (cleanEdges_strict e)

/-- …hence the classes (stored minima / maxima, and with them every lookup) built from unsorted or duplicated
edges are those built from the cleaned list, for every rank function, sample and zero. -/
theorem clean_invariant_classes {α : Type} [LinearOrder α] (rank : γ → Nat) (zero : α) (sample : List α)
    (e₁ e₂ : List γ) (h : ∀ c, c ∈ e₁ ↔ c ∈ e₂) :
    classesOf rank zero sample e₁ = classesOf rank zero sample e₂ := by
  unfold classesOf; rw [clean_invariant e₁ e₂ h]

theorem classes_of_cleaned {α : Type} [LinearOrder α] (rank : γ → Nat) (zero : α) (sample : List α)
    (e : List γ) : classesOf rank zero sample e = classesOf rank zero sample (cleanEdges e) :=
  clean_invariant_classes rank zero sample e (cleanEdges e) (fun c => (mem_cleanEdges e c).symm)

/-- a non-decreasing rank function turns the cleaned edges into non-decreasing rank boundaries (the
hypothesis `R.Pairwise (· ≤ ·)` of the theorems above) -/
theorem ranks_sorted (rank : γ → Nat) (hmono : ∀ a b, a ≤ b → rank a ≤ rank b) (edges : List γ) :
    ((cleanEdges edges).map rank).Pairwise (· ≤ ·) := by
  rw [List.pairwise_map]
  exact (cleanEdges_strict edges).imp (fun h => hmono _ _ (le_of_lt h))

/-- the same two statements for the constructor as a whole (edges cleaned, ranks through any non-decreasing
rank function such as `c ↦ int(n·c/100.0)`) -/
theorem total_of_edges {α : Type} [LinearOrder α] (rank : γ → Nat) {zero : α} {sample : List α} {edges : List γ}
    {C : Classes α} (hc : classesOf rank zero sample edges = .ok C) (h2 : 2 ≤ (cleanEdges edges).length) (x : α) :
    ∃ c : Nat, lookup C.mins x = .ok (c : Int) ∧ c + 1 < (cleanEdges edges).length := by
  have := total hc (by simpa using h2) x
  simpa using this

theorem monotone_of_edges {α : Type} [LinearOrder α] (rank : γ → Nat) (hmono : ∀ a b, a ≤ b → rank a ≤ rank b)
    {zero : α} {sample : List α} {edges : List γ} {C : Classes α}
    (hc : classesOf rank zero sample edges = .ok C) {x y : α} (hxy : x ≤ y) {cx cy : Int}
    (hx : lookup C.mins x = .ok cx) (hy : lookup C.mins y = .ok cy) : cy ≤ cx :=
  monotone hc (ranks_sorted rank hmono edges) hxy hx hy

end

/-! ### the code before the repair: negative index wrap

4 events `[10,9,8,7]`, edges `[0,10,50,100]`, `R = [0,0,2,4]`: class 0 has an empty rank interval,
`record[0 - 1]` is the *smallest* multiplicity 7, and every event is put into class 0 although ranks 0,1 belong
to class 1 and ranks 2,3 to class 2. -/

/-- rank consistency as stated in `rank_consistent`, for an arbitrary constructor -/
def RankConsistentFor (bld : Int → List Int → List Nat → Except Err (Classes Int))
    (sample : List Int) (R : List Nat) : Prop :=
  ∀ C, bld 0 sample R = .ok C → ∀ (i r lo hi : Nat), R[i]? = some lo → R[i + 1]? = some hi → lo ≤ r → r < hi →
    ∃ (x : Int) (c : Nat), (sortDesc sample)[r]? = some x ∧ lookup C.mins x = .ok (c : Int) ∧
      (c = i ∨ (c < i ∧ 0 < lo ∧ (sortDesc sample)[lo - 1]? = some x ∧ C.mins[c]? = some (.fin x)))

theorem wrap_stores_smallest :
    buildWrap (0 : Int) [10, 9, 8, 7] [0, 0, 2, 4] = .ok ⟨[.fin 7, .fin 9, .fin 7], [10, 10, 8]⟩ := by rfl

theorem wrap_all_class_zero :
    [10, 9, 8, 7].map (lookup [Bnd.fin (7 : Int), .fin 9, .fin 7]) = [.ok 0, .ok 0, .ok 0, .ok 0] := by decide

/-- the code before the repair is **not** rank consistent -/
theorem wrap_not_rank_consistent : ¬ RankConsistentFor buildWrap [10, 9, 8, 7] [0, 0, 2, 4] := by
  intro h
  obtain ⟨x, c, hx, hc, hor⟩ := h _ wrap_stores_smallest 2 3 2 4 (by decide) (by decide) (by decide) (by decide)
  have hx7 : x = 7 := by
    have : (sortDesc [(10 : Int), 9, 8, 7])[3]? = some 7 := by decide
    rw [this] at hx; cases hx; rfl
  subst hx7
  have hc0 : lookup [Bnd.fin (7 : Int), .fin 9, .fin 7] 7 = .ok 0 := by decide
  rw [hc0] at hc
  have : c = 0 := by cases hc; rfl
  subst this
  rcases hor with h | ⟨_, _, h3, _⟩
  · omega
  · have : (sortDesc [(10 : Int), 9, 8, 7])[2 - 1]? = some 9 := by decide
    rw [this] at h3; cases h3

/-- the repaired code on the same input: class 0 is empty (`inf`), the events get classes 1,1,2,2 -/
theorem repaired_on_witness :
    build (0 : Int) [10, 9, 8, 7] [0, 0, 2, 4] = .ok ⟨[.inf, .fin 9, .fin 7], [10, 10, 8]⟩ ∧
    [11, 10, 9, 8, 7, 0].map (lookup [Bnd.inf, .fin (9 : Int), .fin 7]) =
      [.ok 1, .ok 1, .ok 1, .ok 2, .ok 2, .ok 2] := by
  constructor
  · rfl
  · decide

/-! ### the hypotheses are satisfiable by non-trivial objects -/

/-- ties across a class boundary, uneven classes, an empty middle class -/
example : build (0 : Int) [3, 5, 5, 1, 5, 2, 5, 0] [0, 2, 3, 3, 8] =
    .ok ⟨[.fin 5, .fin 5, .fin 5, .fin 0], [5, 5, 5, 5]⟩ := by rfl

example : [0, 2, 3, 3, 8].Pairwise (· ≤ ·) := by decide

example : [6, 5, 4, 3, 2, 1, 0].map (lookup [Bnd.fin (5 : Int), .fin 3, .fin 3, .fin 0]) =
    [.ok 0, .ok 0, .ok 1, .ok 1, .ok 3, .ok 3, .ok 3] := by decide

/-- unsorted and duplicated edges -/
example : cleanEdges [50, 0, 100, 50, (0 : Int)] = [0, 50, 100] := by decide

/-- fewer than 4 events, a negative multiplicity, a boundary beyond the sample: the constructor raises -/
example : build (0 : Int) [1, 2, 3] [0, 1, 3] = .error .value := by rfl
example : build (0 : Int) [1, 2, -3, 4] [0, 2, 4] = .error .value := by rfl
example : build (0 : Int) [1, 2, 3, 4] [0, 4, 4] = .error .index := by rfl

end SparkxVerif.C19
