/-
C14 — Bulk observables are normalised per event and per unit of the variable.

Property theorems only (helpers: `Lemmas/Bulk.lean`).  The functions `differentialYield`, `midYield`,
`midMean` are the executable model of `BulkObservables._differential_yield`, `mid_rapidity_yield`,
`mid_rapidity_mean_pT/mT` (`Core/Bulk.lean`, the very definitions the driver runs at `Float`);
here they are instantiated at an arbitrary linearly ordered field `K`.

Rendering of the English statement:
* "binning" = a list of edges that is strictly increasing (`edges.Pairwise (· < ·)`), whether it was
  given explicitly or produced by `np.linspace` from a tuple (numpy is a parameter, DESIGN §2.3);
* an event = the list of the quantity's values of its particles (`rapidity()`, `pT_abs()`, … are
  C08's subject); an unset quantity (NaN) is `none`;
* "number of particles whose quantity lies in the bin" = `countIn lo hi ev` = `#{v ∈ ev | lo ≤ v < hi}`;
* zero events: the code returns an all-zero histogram, and so does the formula (`x / 0 = 0` in Lean);
* mid-rapidity means: an event without a particle inside the window has no mean; it is left out of
  both the sum of means and the number of events averaged over; if no event contributes the result is 0
  (the function's existing convention for "nothing to average", as for zero events).
* "input lists unmodified": the model is a pure function, there is nothing to state in Lean; aliasing
  and mutation are checked on the real code by the harness (snapshot before / after every call).
* "can be written to file": a statement about `Histogram.write_to_file` (C10); checked on the real
  code by the harness, not modelled here.
-/
import SparkxVerif.Lemmas.Bulk
import Mathlib.Algebra.CharZero.Defs
import Mathlib.Tactic.NormNum
import Mathlib.Algebra.Order.Field.Rat
import Mathlib.Data.Rat.Init

namespace SparkxVerif.C14
open SparkxVerif.Bulk

section
variable {K : Type} [Field K] [LinearOrder K]

/-- the specification, spelled out: one entry per bin `(lo, hi)` of consecutive edges -/
theorem dNdxSpec_def (edges : List K) (evs : List (List K)) :
    dNdxSpec edges evs = (edges.zip edges.tail).map (fun b =>
      (((evs.map (fun ev => ev.countP (fun v => decide (b.1 ≤ v) && decide (v < b.2)))).sum : ℕ) : K)
        / (evs.length : K) / (b.2 - b.1)) := rfl

/-- **C14, differential yields.** For every strictly increasing binning and every list of events
(any number, empty ones included, none of the values NaN), the histogram returned by
`dNdy/dNdpT/dNdEta/dNdmT` holds in each bin the number of particles, over all events, whose quantity
lies in `[edge_i, edge_{i+1})`, divided by the number of events and by the bin width. -/
theorem dNdx_bin (edges : List K) (hs : edges.Pairwise (· < ·)) (evs : List (List K)) :
    differentialYield edges (evs.map (List.map some)) = .ok (dNdxSpec edges evs) :=
  differentialYield_eq edges hs evs

/-- no event at all: an all-zero histogram (this instance does not rest on Lean's `x / 0 = 0`) -/
theorem dNdx_no_events (edges : List K) :
    differentialYield edges [] = .ok ((edges.zip edges.tail).map (fun _ => (0 : K))) := by
  have h1 : ([zeros (nbins edges)] : List (List K))
      = ([()] : List Unit).map (fun _ => (binsOf edges).map (fun _ => (0 : K))) := by
    simp [zeros_eq_map]
  unfold differentialYield
  simp only [fillRows, bind, Except.bind, pure, Except.pure]
  rw [h1, average_map, widths_eq_map]
  simp only [scale, List.map_map, List.zipWith_map, List.zipWith_self, Function.comp_def]
  congr 1
  apply List.map_congr_left
  intro b _
  simp

/-- the same, bin by bin -/
theorem dNdx_bin_index (edges : List K) (hs : edges.Pairwise (· < ·)) (evs : List (List K))
    (i : ℕ) (hi : i + 1 < edges.length) :
    ∃ bins, differentialYield edges (evs.map (List.map some)) = .ok bins ∧
      bins[i]? = some ((((evs.map (countIn edges[i] edges[i + 1])).sum : ℕ) : K)
        / (evs.length : K) / (edges[i + 1] - edges[i])) := by
  refine ⟨_, dNdx_bin edges hs evs, ?_⟩
  have h2 : i < edges.tail.length := by simp; omega
  simp [dNdxSpec, binsOf, List.getElem?_zip_eq_some, List.getElem?_eq_getElem (show i < edges.length by omega),
    List.getElem?_eq_getElem h2]

/-- a NaN quantity anywhere makes the call raise `ValueError` (from `Histogram.add_value`) -/
theorem dNdx_nan (edges : List K) (evs : List (List (Option K))) (h : ∃ ev ∈ evs, none ∈ ev) :
    differentialYield edges evs = .error .value := by
  unfold differentialYield
  rw [fillRows_nan edges _ evs h]
  rfl

/-- the bins of an increasing binning tile its range: per event, the bin counts add up to the number of
values in `[first edge, last edge)` -/
theorem bins_partition_range (a : K) (l : List K) (hs : (a :: l).Pairwise (· < ·)) (ev : List K) :
    (((a :: l).zip l).map (fun b => countIn b.1 b.2 ev)).sum = countIn a ((a :: l).getLast (by simp)) ev :=
  sum_countIn_bins a l hs ev

/-- **C14, normalisation.** The bin-width-weighted sum of the returned histogram, times the number
of events, is the number of particles whose quantity lies in the histogram's range
`[first edge, last edge)`. -/
theorem dNdx_normalisation [CharZero K] (a : K) (l : List K) (hs : (a :: l).Pairwise (· < ·))
    (evs : List (List K)) :
    ∃ bins, differentialYield (a :: l) (evs.map (List.map some)) = .ok bins ∧
      (List.zipWith (fun x wd => x * wd) bins (widths (a :: l))).sum * (evs.length : K)
        = (((evs.map (countIn a ((a :: l).getLast (by simp)))).sum : ℕ) : K) := by
  refine ⟨_, dNdx_bin (a :: l) hs evs, ?_⟩
  rw [widths_eq_map]
  unfold dNdxSpec
  rw [List.zipWith_map, List.zipWith_self]
  have hcancel : ∀ b ∈ binsOf (a :: l),
      (((evs.map (countIn b.1 b.2)).sum : ℕ) : K) / (evs.length : K) / (b.2 - b.1) * (b.2 - b.1)
        = (((evs.map (countIn b.1 b.2)).sum : ℕ) : K) / (evs.length : K) := by
    intro b hb
    have : b.2 - b.1 ≠ 0 := sub_ne_zero.2 (ne_of_gt (mem_binsOf_lt _ hs b hb))
    field_simp
  rw [List.map_congr_left hcancel]
  cases evs with
  | nil => simp
  | cons ev evs =>
    have hN : ((ev :: evs).length : K) ≠ 0 := Nat.cast_ne_zero.2 (by simp)
    rw [← List.sum_map_mul_right]
    have : ∀ b ∈ binsOf (a :: l),
        ((((ev :: evs).map (countIn b.1 b.2)).sum : ℕ) : K) / ((ev :: evs).length : K) * ((ev :: evs).length : K)
          = ((((ev :: evs).map (countIn b.1 b.2)).sum : ℕ) : K) := by
      intro b _; field_simp
    rw [List.map_congr_left this]
    have h3 : ((binsOf (a :: l)).map (fun b => ((((ev :: evs).map (countIn b.1 b.2)).sum : ℕ) : K))).sum
        = ((((binsOf (a :: l)).map (fun b => ((ev :: evs).map (countIn b.1 b.2)).sum)).sum : ℕ) : K) := by
      rw [Nat.cast_list_sum, List.map_map]; rfl
    rw [h3, sum_swap]
    congr 2
    apply List.map_congr_left
    intro e _
    exact sum_countIn_bins a l hs e

end

section mid
variable {K : Type} [Field K] [LinearOrder K]

/-- the window test of the code is `|y| ≤ width/2`; a NaN rapidity is never inside -/
theorem inWindow_iff [IsStrictOrderedRing K] (w y : K) : inWindow w (some y) = true ↔ |y| ≤ w / 2 := by
  simp only [inWindow, Bool.and_eq_true, decide_eq_true_eq, Nat.cast_ofNat, abs_le]
  constructor <;> rintro ⟨h1, h2⟩ <;> refine ⟨?_, h2⟩ <;> linarith [neg_div (2 : K) w]

theorem inWindow_none (w : K) : inWindow w (none : Option K) = false := rfl

/-- the number of values collected from an event = the number of its particles inside the window -/
theorem insideVals_length (w : K) (ev : List (Option K × K)) :
    (insideVals w ev).length = ev.countP (fun p => inWindow w p.1) := by
  simp [insideVals, List.countP_eq_length_filter]

/-- **C14, mid-rapidity yield**: (number of particles, over all events, inside the window) / number of events -/
theorem mid_rapidity_yield_eq (w : K) (hw : 0 < w) (evs : List (List (Option K × K))) :
    midYield w evs = .ok ((((evs.map (fun ev => (insideVals w ev).length)).sum : ℕ) : K) / (evs.length : K)) := by
  unfold midYield
  rw [if_neg (by simpa using hw)]
  by_cases h : evs.length = 0
  · have : evs = [] := List.length_eq_zero_iff.1 h
    subst this; simp
  · rw [if_neg h, foldl_count_events]; simp

/-- **C14, mid-rapidity mean pT / mT**: the mean, over the events that have a particle inside the window,
of (sum of the values inside / number inside) -/
theorem mid_rapidity_mean_eq (w : K) (hw : 0 < w) (evs : List (List (Option K × K))) :
    midMean w evs = .ok
      (((contributing w evs).map (fun vs => vs.sum / (vs.length : K))).sum / ((contributing w evs).length : K)) := by
  unfold midMean
  rw [if_neg (by simpa using hw)]
  by_cases h : evs.length = 0
  · have : evs = [] := List.length_eq_zero_iff.1 h
    subst this; simp [contributing]
  · rw [if_neg h, Nat.cast_zero, foldl_means]
    by_cases hc : (contributing w evs).length = 0
    · have : contributing w evs = [] := List.length_eq_zero_iff.1 hc
      simp [this]
    · simp [hc]

/-- no event has a particle inside the window (in particular: no events): the result is `0`
(stated separately because in the formula above this case reads `0 / 0`) -/
theorem mid_rapidity_mean_nothing_inside (w : K) (hw : 0 < w) (evs : List (List (Option K × K)))
    (h : ∀ ev ∈ evs, insideVals w ev = []) : midMean w evs = .ok 0 := by
  rw [mid_rapidity_mean_eq w hw]
  have : contributing w evs = [] := by
    unfold contributing
    rw [List.filter_eq_nil_iff]
    intro vs hvs
    obtain ⟨ev, hev, rfl⟩ := List.mem_map.1 hvs
    simp [h ev hev]
  simp [this]

/-- the executable specification printed by the driver is the same expression -/
theorem midMeanSpec_eq (w : K) (evs : List (List (Option K × K))) :
    midMeanSpec w evs
      = ((contributing w evs).map (fun vs => vs.sum / (vs.length : K))).sum / ((contributing w evs).length : K) := by
  simp [midMeanSpec, contributing, sumL_eq_sum]

theorem midYieldSpec_eq (w : K) (evs : List (List (Option K × K))) :
    midYieldSpec w evs = (((evs.map (fun ev => (insideVals w ev).length)).sum : ℕ) : K) / (evs.length : K) := rfl

/-- a non-positive width is rejected (`ValueError`) by all three functions -/
theorem mid_invalid_width (w : K) (hw : w ≤ 0) (evs : List (List (Option K × K))) :
    midYield w evs = .error .value ∧ midMean w evs = .error .value := by
  unfold midYield midMean
  simp [hw]

end mid

/-! ### Monitors: the loop as it was before the repair does not satisfy the statement -/

/-- events with pT `[1,2,6]` and `[3,5]`, all at `y = 0`: per-event means 3 and 4, so 7/2; the old loop gives 11/4 -/
theorem meanOld_witness :
    meanOld (1 : ℚ) [[(some 0, 1), (some 0, 2), (some 0, 6)], [(some 0, 3), (some 0, 5)]] = .ok (11 / 4) ∧
    midMean (1 : ℚ) [[(some 0, 1), (some 0, 2), (some 0, 6)], [(some 0, 3), (some 0, 5)]] = .ok (7 / 2) := by
  constructor <;> simp [meanOld, midMean, eventSumCount, inWindow, List.foldl, Except.map, bind, Except.bind, pure, Except.pure] <;> norm_num

theorem meanOld_empty_first (evs : List (List (Option ℚ × ℚ))) : meanOld 1 ([] :: evs) = .error .index := by
  simp [meanOld]

theorem meanOld_empty_event : meanOld 1 ([[(some 0, 1)], []] : List (List (Option ℚ × ℚ))) = .error .zerodiv := by
  simp [meanOld, inWindow, List.foldl, Except.map, bind, Except.bind, pure, Except.pure]

/-! ### Non-vacuity: hypotheses are met by concrete non-trivial objects -/

example : ([0, 1, 5 / 2, 8] : List ℚ).Pairwise (· < ·) := by norm_num

example : differentialYield ([0, 1, 5 / 2, 8] : List ℚ) [[some 1, some 2, some 6], [], [some 3, some 5]]
    = .ok [0, 4 / 9, 2 / 11] := by
  have := dNdx_bin ([0, 1, 5 / 2, 8] : List ℚ) (by norm_num) [[1, 2, 6], [], [3, 5]]
  simp only [List.map_cons, List.map_nil] at this
  rw [this]
  norm_num [dNdxSpec, binsOf, countIn, List.countP_cons]

example : midMean (1 : ℚ) [[(some 0, 1), (some (1 / 2), 2), (some 2, 6)], [], [(none, 3), (some (-1 / 2), 5)]]
    = .ok (13 / 4) := by
  rw [mid_rapidity_mean_eq 1 (by norm_num)]
  norm_num [contributing, insideVals, inWindow, List.filter_cons]

end SparkxVerif.C14
