/-
C16 — Smearing particles onto a lattice conserves the smeared quantity.

Property theorems only (helper lemmas: `Lemmas/Smear.lean`).  They are about `Smear.addParticleData`,
the function the driver runs at `Float` against the real `Lattice3D.add_particle_data`, here
instantiated at an arbitrary linearly ordered field `K`.  They quantify over every lattice
(`x_min < x_max`, at least two nodes per axis — anything else makes the real call raise), every
initial content, every list of particles (positions anywhere, also outside the lattice), every
quantity value, every half-width `num = round(n_sigma·sigma/spacing)` of the temporary lattice and
every table of kernel values (so: both kernels, any sigma, any n_sigma).

Reading of the statement:
* "kernel support lies inside the lattice" = on every axis the nodes `closest - num … closest + num`
  exist (`Smear.supportInside`, computed with the model's own `find_closest_indices`);
* `KernelOK p` = one kernel value per node of the temporary lattice and none of them NaN (with a NaN
  the repaired code raises; the model returns `none`);
* "sum over lattice nodes times the cell volume" = `total g' * L.cellVolume`.
-/
import SparkxVerif.Lemmas.Smear
import Mathlib.Tactic.NormNum
set_option linter.unusedSectionVars false

open SparkxVerif.Smear

namespace SparkxVerif.C16

variable {K : Type} [Field K] [LinearOrder K] [IsStrictOrderedRing K]

/-- the sum of the particles' quantity -/
def quantity (ps : List (Part K)) : K := (ps.map (fun p => p.v)).sum

/-- what the lattice holds before the particles are deposited: its old content (`add=True`) or nothing -/
def startTotal (g : List K) (add : Bool) : K := if add then total g else 0

/-- **Conservation.** Every particle's support inside the lattice and a positive discrete kernel sum:
the call succeeds and `Σ_nodes grid · cell_volume = (old content if add) + Σ_particles quantity`. -/
theorem conserved (L : Smear.Lattice K) (w : L.WF) (g : List K) (hg : g.length = L.size) (ps : List (Part K)) (add : Bool)
    (hk : ∀ p ∈ ps, KernelOK p) (hin : ∀ p ∈ ps, supportInside L p = true)
    (hnorm : ∀ p ∈ ps, 0 < (kernelVals p).sum) :
    ∃ g', addParticleData L g ps add = some g' ∧
      total g' * L.cellVolume = startTotal g add * L.cellVolume + quantity ps := by
  have hV := w.cellVolume_pos.ne'
  have key : ∀ (ps : List (Part K)) (g0 : List K), g0.length = L.size →
      (∀ p ∈ ps, KernelOK p) → (∀ p ∈ ps, supportInside L p = true) → (∀ p ∈ ps, 0 < (kernelVals p).sum) →
      ∃ g', ps.foldlM (addOne L) g0 = some g' ∧ g'.sum = g0.sum + quantity ps / L.cellVolume := by
    intro ps
    induction ps with
    | nil => intro g0 _ _ _ _; exact ⟨g0, rfl, by simp [quantity]⟩
    | cons p ps ih =>
      intro g0 hg0 hk hin hnorm
      obtain ⟨g1, h1, hl1, hs1⟩ := addOne_inside w (hk p (by simp)) (hin p (by simp)) (hnorm p (by simp)) g0 hg0
      obtain ⟨g', h2, hs2⟩ := ih g1 (hl1.trans hg0) (fun q hq => hk q (by simp [hq]))
        (fun q hq => hin q (by simp [hq])) (fun q hq => hnorm q (by simp [hq]))
      refine ⟨g', by simp [List.foldlM_cons, h1, h2], ?_⟩
      rw [hs2, hs1]
      simp only [quantity, List.map_cons, List.sum_cons]
      ring
  unfold addParticleData
  cases add with
  | true =>
    obtain ⟨g', h1, h2⟩ := key ps g hg hk hin hnorm
    refine ⟨g', by simpa using h1, ?_⟩
    simp only [startTotal, total_eq_sum, if_true, h2]
    field_simp
  | false =>
    obtain ⟨g', h1, h2⟩ := key ps (reset g) (by simpa [reset] using hg) hk hin hnorm
    refine ⟨g', by simpa using h1, ?_⟩
    have hz : (reset g).sum = 0 := by simp [reset]
    simp only [startTotal, total_eq_sum, h2, hz]
    simp only [Bool.false_eq_true, if_false]
    field_simp

/-- **Clipping.** Non-negative quantities and kernel values, supports anywhere (clipped by the edge or
even centred outside): the call succeeds and deposits between nothing and the particles' quantity. -/
theorem clipped_le (L : Smear.Lattice K) (w : L.WF) (g : List K) (ps : List (Part K)) (add : Bool)
    (hk : ∀ p ∈ ps, KernelOK p) (hv : ∀ p ∈ ps, 0 ≤ p.v) (hs : ∀ p ∈ ps, ∀ s ∈ kernelVals p, 0 ≤ s) :
    ∃ g', addParticleData L g ps add = some g' ∧
      startTotal g add * L.cellVolume ≤ total g' * L.cellVolume ∧
      total g' * L.cellVolume ≤ startTotal g add * L.cellVolume + quantity ps := by
  have hV := w.cellVolume_pos
  have key : ∀ (ps : List (Part K)) (g0 : List K),
      (∀ p ∈ ps, KernelOK p) → (∀ p ∈ ps, 0 ≤ p.v) → (∀ p ∈ ps, ∀ s ∈ kernelVals p, 0 ≤ s) →
      ∃ g', ps.foldlM (addOne L) g0 = some g' ∧ g0.sum ≤ g'.sum ∧ g'.sum ≤ g0.sum + quantity ps / L.cellVolume := by
    intro ps
    induction ps with
    | nil => intro g0 _ _ _; exact ⟨g0, rfl, le_refl _, by simp [quantity]⟩
    | cons p ps ih =>
      intro g0 hk hv hs
      obtain ⟨g1, h1, _, hlo1, hhi1⟩ := addOne_clipped w (hk p (by simp)) (hv p (by simp)) (hs p (by simp)) g0
      obtain ⟨g', h2, hlo2, hhi2⟩ := ih g1 (fun q hq => hk q (by simp [hq]))
        (fun q hq => hv q (by simp [hq])) (fun q hq => hs q (by simp [hq]))
      refine ⟨g', by simp [List.foldlM_cons, h1, h2], by linarith, ?_⟩
      have : quantity (p :: ps) / L.cellVolume = p.v / L.cellVolume + quantity ps / L.cellVolume := by
        simp only [quantity, List.map_cons, List.sum_cons]; ring
      rw [this]; linarith
  have fin : ∀ (s0 s' q : K), s0 ≤ s' → s' ≤ s0 + q / L.cellVolume →
      s0 * L.cellVolume ≤ s' * L.cellVolume ∧ s' * L.cellVolume ≤ s0 * L.cellVolume + q := by
    intro s0 s' q h1 h2
    refine ⟨mul_le_mul_of_nonneg_right h1 hV.le, ?_⟩
    have := mul_le_mul_of_nonneg_right h2 hV.le
    have e : (s0 + q / L.cellVolume) * L.cellVolume = s0 * L.cellVolume + q := by
      field_simp
    linarith
  unfold addParticleData
  cases add with
  | true =>
    obtain ⟨g', h1, h2, h3⟩ := key ps g hk hv hs
    refine ⟨g', by simpa using h1, ?_⟩
    simpa [startTotal, total_eq_sum] using fin _ _ _ h2 h3
  | false =>
    obtain ⟨g', h1, h2, h3⟩ := key ps (reset g) hk hv hs
    have hz : (reset g).sum = 0 := by simp [reset]
    rw [hz] at h2 h3
    refine ⟨g', by simpa using h1, ?_⟩
    simpa [startTotal, total_eq_sum] using fin _ _ _ h2 h3

/-- **`add=True` accumulates**: node by node, the result is the old content plus what the same call
deposits on an empty lattice (and it raises exactly when that call raises). -/
theorem add_accumulates (L : Smear.Lattice K) (g : List K) (ps : List (Part K)) :
    addParticleData L g ps true =
      (addParticleData L g ps false).map (fun fresh => List.zipWith (· + ·) g fresh) := by
  have key : ∀ (ps : List (Part K)) (h : List K),
      ps.foldlM (addOne L) (List.zipWith (· + ·) g h) = (ps.foldlM (addOne L) h).map (List.zipWith (· + ·) g) := by
    intro ps
    induction ps with
    | nil => intro h; rfl
    | cons p ps ih =>
      intro h
      simp only [List.foldlM_cons, addOne]
      cases hd : deposits L p with
      | none => simp
      | some ds =>
        simp only [Option.map_some, Option.bind_eq_bind, Option.bind_some]
        rw [foldl_addAt_zipWith, ih]
  have hz : ∀ g : List K, List.zipWith (· + ·) g (reset g) = g := by
    intro g
    induction g with
    | nil => rfl
    | cons a g ih =>
      have : reset (a :: g) = (0 : K) :: reset g := by simp [reset]
      rw [this, List.zipWith_cons_cons, ih, add_zero]
  unfold addParticleData
  simp only [if_true, Bool.false_eq_true, if_false]
  conv_lhs => rw [← hz g]
  exact key ps (reset g)

/-- **`add=False` starts from zero**: the result does not depend on what the lattice held before. -/
theorem no_add_resets (L : Smear.Lattice K) (g g₂ : List K) (h : g.length = g₂.length) (ps : List (Part K)) :
    addParticleData L g ps false = addParticleData L g₂ ps false := by
  have : reset g = reset g₂ := by
    unfold reset
    rw [List.map_const', List.map_const', h]
  simp [addParticleData, this]

/-- **Order independence**: any permutation of the particle list gives the same lattice, node by node
(and raises exactly when the original order raises). -/
theorem order_independent (L : Smear.Lattice K) (g : List K) (ps ps₂ : List (Part K)) (add : Bool)
    (h : ps.Perm ps₂) : addParticleData L g ps add = addParticleData L g ps₂ add := by
  have swap : ∀ (g0 : List K) (a b : Part K),
      (addOne L g0 a).bind (fun g1 => addOne L g1 b) = (addOne L g0 b).bind (fun g1 => addOne L g1 a) := by
    intro g0 a b
    unfold addOne
    cases ha : deposits L a <;> cases hb : deposits L b <;> simp
    rename_i da db
    rw [← List.foldl_append, ← List.foldl_append]
    exact List.Perm.foldl_eq List.perm_append_comm g0
  have key : ∀ (g0 : List K), ps.foldlM (addOne L) g0 = ps₂.foldlM (addOne L) g0 := by
    induction h with
    | nil => intro g0; rfl
    | cons p _ ih =>
      intro g0
      simp only [List.foldlM_cons]
      cases addOne L g0 p with
      | none => rfl
      | some g1 => exact ih g1
    | swap a b l =>
      intro g0
      simp only [List.foldlM_cons]
      have := swap g0 b a
      simp only [Option.bind_eq_bind] at this ⊢
      rw [← Option.bind_assoc, ← Option.bind_assoc, this]
    | trans _ _ ih1 ih2 => intro g0; rw [ih1, ih2]
  exact key _

/-- **Placement is a translation of indices** (one axis): temporary node `i` goes to node
`closest + i - num` when that node exists and is skipped otherwise. -/
theorem placement_translation (A : Axis K) (w : A.WF) (num : ℕ) (x : K) :
    placeAxis A num x = (List.range (2 * num + 1)).map (fun (i : ℕ) =>
      if closest A.values x + i < num then none
      else if A.n - 1 < closest A.values x + i - num then none
      else some (closest A.values x + i - num)) :=
  w.placeAxis_eq num x

/-- hence it is injective: two temporary nodes never land on the same target node … -/
theorem placement_injective (A : Axis K) (w : A.WF) (num : ℕ) (x : K) (i j a : ℕ)
    (hi : (placeAxis A num x)[i]? = some (some a)) (hj : (placeAxis A num x)[j]? = some (some a)) : i = j := by
  have hi' : i < 2 * num + 1 := by
    have := (List.getElem?_eq_some_iff.mp hi).1
    simpa [placeAxis_length] using this
  have hj' : j < 2 * num + 1 := by
    have := (List.getElem?_eq_some_iff.mp hj).1
    simpa [placeAxis_length] using this
  rw [placement_translation A w] at hi hj
  simp only [List.getElem?_map, List.getElem?_range hi', List.getElem?_range hj', Option.map_some,
    Option.some.injEq] at hi hj
  split_ifs at hi hj
  simp only [Option.some.injEq] at hi hj
  omega

/-- … and total when the support is inside: every temporary node lands on a node of the axis. -/
theorem placement_total (A : Axis K) (w : A.WF) (num : ℕ) (x : K) (h : axisInside A num x = true) :
    ∀ o ∈ placeAxis A num x, ∃ a, o = some a ∧ a < A.n :=
  w.placeAxis_inside num x h

/-! ### Non-vacuity: the hypotheses are met by a concrete non-trivial lattice and particle -/

section examples

/-- 5 × 5 × 3 nodes on `[0,4] × [-1,1] × [0,1]` -/
def L0 : Smear.Lattice ℚ := ⟨⟨0, 4, 5⟩, ⟨-1, 1, 5⟩, ⟨0, 1, 3⟩⟩
/-- off-node particle well inside, quantity 3, temporary lattice 3 × 3 × 3 with a flat kernel -/
def p0 : Part ℚ := ⟨11/5, -1/10, 1/2, 3, 1, 1, 1, List.replicate 27 (some 1)⟩
/-- particle outside the lattice in `y` (closest node is the edge node): clipped -/
def p1 : Part ℚ := ⟨1/5, 7, 1/2, 2, 1, 1, 1, List.replicate 27 (some 1)⟩

theorem L0_wf : L0.WF := by
  refine ⟨⟨?_, ?_⟩, ⟨?_, ?_⟩, ⟨?_, ?_⟩⟩ <;> norm_num [L0]

theorem p0_kernel : KernelOK p0 := ⟨by simp [p0], by simp [p0]⟩
theorem p1_kernel : KernelOK p1 := ⟨by simp [p1], by simp [p1]⟩

theorem p0_inside : supportInside L0 p0 = true := by
  norm_num [supportInside, axisInside, closest, Axis.values, linspace, argminFirst, argminAux, absV, zero, L0, p0,
    List.range_succ]

theorem p1_clipped : supportInside L0 p1 = false := by
  norm_num [supportInside, axisInside, closest, Axis.values, linspace, argminFirst, argminAux, absV, zero, L0, p1,
    List.range_succ]

/-- `conserved` applies: smearing `p0` on the empty lattice gives total × cell volume = 3 -/
example : ∃ g', addParticleData L0 (List.replicate 75 0) [p0] false = some g' ∧ total g' * L0.cellVolume = 3 := by
  obtain ⟨g', h1, h2⟩ := conserved L0 L0_wf (List.replicate 75 0) (by simp [Smear.Lattice.size, L0]) [p0] false
    (by simpa using p0_kernel) (by simpa using p0_inside) (by norm_num [kernelVals, p0])
  exact ⟨g', h1, by simpa [startTotal, quantity, p0] using h2⟩

/-- `clipped_le` applies to the pair (one inside, one clipped): at most 3 + 2 is deposited -/
example : ∃ g', addParticleData L0 (List.replicate 75 0) [p0, p1] false = some g' ∧
    0 ≤ total g' * L0.cellVolume ∧ total g' * L0.cellVolume ≤ 5 := by
  obtain ⟨g', h1, h2, h3⟩ := clipped_le L0 L0_wf (List.replicate 75 0) [p0, p1] false
    (by simp [p0_kernel, p1_kernel]) (by norm_num [p0, p1]) (by norm_num [kernelVals, p0, p1])
  refine ⟨g', h1, by simpa [startTotal] using h2, ?_⟩
  have : quantity [p0, p1] = 5 := by norm_num [quantity, p0, p1]
  simpa [startTotal, this] using h3

end examples

/-! ### Witness for the behaviour before the repair `proposed_fixes/C16-1-norm-threshold`

The code used to normalise only when `abs(norm) > 1e-15`.  With that test a kernel whose discrete sum
is `10⁻¹⁶` (node spacing above ~10⁵) is not normalised and the deposit is `v·norm` instead of `v`.
(Monitor, not an obligation about the current code.) -/

/-- the temporary lattice with the pre-repair normalisation test -/
def tempValuesPre (V v : K) (ss : List K) : List K :=
  let norm := sumL ss
  ss.map (fun s => let t := v * s / V; if (1 / 10 ^ 15 : K) < absV norm then t / norm else t)

theorem pre_repair_threshold_witness :
    (tempValuesPre (1 : ℚ) 1 [1 / 10 ^ 16]).sum * 1 ≠ 1 ∧ (tempValues (1 : ℚ) 1 [1 / 10 ^ 16]).sum * 1 = 1 := by
  constructor
  · norm_num [tempValuesPre, sumL, absV, zero]
  · norm_num [tempValues, sumL, zero]

end SparkxVerif.C16
