/-
C12 helper (tie T): the functions GENERATED from the current source of ReactionPlaneFlow / ScalarProductFlow /
EventPlaneFlow (`Gen/FlowCore.lean`, written by `harness/translate/flowcore.py`: loops as left folds, lists as
maps / filters, exactly in the order the source accumulates) are equal to the hand-written model's functions
(`Core/Flow.lean`) about which the property theorems are proved.

The equalities are STRUCTURAL (no ring law is used): they hold for every carrier `α`, `κ` with the core arithmetic
classes and for every `Ops` record - in particular at `Float`, where the driver runs both - and for all inputs, without
hypotheses.  Re-checked whenever the source (hence `Gen/FlowCore.lean`) changes.  No Mathlib.
-/
import SparkxVerif.Gen.FlowCore
import SparkxVerif.Core.Flow

namespace SparkxVerif.FlowCoreGen
open SparkxVerif SparkxVerif.Flow SparkxVerif.FlowSel

/-! ### structural lemmas (no ring laws: valid for every carrier, in particular `Float`) -/
set_option linter.unusedSectionVars false
set_option linter.unusedSimpArgs false
section generic
variable {α κ : Type} [Add α] [Sub α] [Mul α] [Div α] [Neg α] [NatCast α] [Add κ] [Sub κ] [Mul κ] [Div κ]

theorem foldl_congr' {β σ : Type} {F G : σ → β → σ} (h : ∀ s x, F s x = G s x) (l : List β) (i : σ) :
    l.foldl F i = l.foldl G i := by
  have : F = G := by funext s x; exact h s x
  rw [this]

theorem foldl_ite {β σ : Type} (c : β → Bool) (f : σ → β → σ) (l : List β) (a : σ) :
    l.foldl (fun acc x => if c x = true then f acc x else acc) a = (l.filter c).foldl f a := by
  induction l generalizing a with
  | nil => rfl
  | cons x t ih =>
    simp only [List.foldl_cons, List.filter_cons]
    by_cases hc : c x = true
    · simp [hc, ih]
    · simp [hc, ih]

theorem ite_not' {γ : Type} (b : Bool) (x y : γ) : (if (!b) = true then x else y) = if b = true then y else x := by
  cases b <;> rfl
theorem pair_ite {γ δ : Type} (b : Bool) (a c : γ) (n : δ) :
    ((if b = true then a else c), n) = if b = true then (a, n) else (c, n) := by cases b <;> rfl
theorem ite_pair {γ δ : Type} (b : Bool) (a c : γ) (n m : δ) :
    (if b = true then (a, n) else (c, m)) = ((if b = true then a else c), (if b = true then n else m)) := by
  cases b <;> rfl

theorem binPairs_eq (edges : List α) :
    ((edges.drop 0).zip (edges.drop 1)).take (edges.length - 1) = binPairs edges := by
  unfold binPairs
  rw [List.drop_zero, List.drop_one]
  apply List.take_of_length_le
  simp [List.length_zip]

theorem rpBin_fold (O : Ops α κ) (evs : List (List (Part α κ))) (a : κ) (b : α) :
    evs.foldl (fun (st : κ × α) ev => (st.1 + qSum O Part.pw ev, ev.foldl (fun acc p => acc + p.pw) st.2)) (a, b) =
      (evs.foldl (fun acc ev => acc + qSum O Part.pw ev) a,
       evs.foldl (fun acc ev => ev.foldl (fun acc p => acc + p.pw) acc) b) := by
  induction evs generalizing a b with
  | nil => rfl
  | cons e t ih => simp only [List.foldl_cons, ih]

theorem rpBin_split (O : Ops α κ) (evs : List (List (Part α κ))) :
    rpBin O evs =
      if O.isZero (evs.foldl (fun acc ev => ev.foldl (fun acc p => acc + p.pw) acc) ((0 : Nat) : α)) = true
      then O.ofReal ((0 : Nat) : α)
      else evs.foldl (fun acc ev => acc + qSum O Part.pw ev) (O.ofReal ((0 : Nat) : α)) /
        O.ofReal (evs.foldl (fun acc ev => ev.foldl (fun acc p => acc + p.pw) acc) ((0 : Nat) : α)) := by
  unfold rpBin
  simp only [rpBin_fold]

theorem sumL_fold_aux {β γ : Type} (l : β → List γ) (f : β → γ → α) (evs : List β) (a : α) :
    (evs.flatMap (fun e => (l e).map (f e))).foldl (· + ·) a =
      evs.foldl (fun acc e => (l e).foldl (fun acc p => acc + f e p) acc) a := by
  induction evs generalizing a with
  | nil => rfl
  | cons e t ih =>
    simp only [List.flatMap_cons, List.foldl_append, List.foldl_cons, ih, List.foldl_map]

/-- a sum over the flattened (value, weight) pairs is the nested accumulation loop -/
theorem sumL_flatMap {β γ δ : Type} (l : β → List γ) (g : β → γ → δ) (f : δ → α) (evs : List β) :
    sumL ((evs.flatMap (fun e => (l e).map (g e))).map f) =
      evs.foldl (fun acc e => (l e).foldl (fun acc p => acc + f (g e p)) acc) ((0 : Nat) : α) := by
  unfold sumL
  rw [List.map_flatMap]
  simp only [List.map_map]
  exact sumL_fold_aux l (fun e p => f (g e p)) evs _


theorem rpIntegrated_gen (O : Ops α κ) (evs : List (List (Part α κ))) :
    Gen.FlowCore.rpIntegrated O evs = Flow.rpIntegrated O evs := by
  unfold Gen.FlowCore.rpIntegrated
  rw [foldl_congr' (G := rpStep O)]
  · rfl
  · intro st x
    simp only [rpStep, qSum, Part.pw, ite_not', pair_ite]
    rfl

theorem rpDifferential_gen (O : Ops α κ) (site : Site) (sel : String) (edges : List α) (evs : List (List (Part α κ))) :
    Gen.FlowCore.rpDifferential O site sel edges evs = Flow.rpDifferential O site sel edges evs := by
  unfold Gen.FlowCore.rpDifferential Flow.rpDifferential
  simp only [binPairs_eq, rpBin_split, List.foldl_map, ite_not', qSum, Part.pw, inBin]
  rfl

theorem spResolution_gen (O : Ops α κ) (wq : Part α κ → α) (gap : α) (evs : List (Ev α κ)) :
    Gen.FlowCore.spResolution O wq gap evs = Flow.spResolution O wq gap evs := by
  unfold Gen.FlowCore.spResolution Flow.spResolution
  simp only [foldl_ite, spResTerm, qSum, inA, inB]
  rfl


/-- `__calculate_flow_event_average` as the nested accumulation loops the source runs -/
theorem eventAverage_loops {β γ : Type} (O : Ops α κ) (l : β → List γ) (v : β → γ → α) (w : γ → α) (evs : List β) :
    eventAverage O (evs.flatMap (fun e => (l e).map (fun p => (v e p, w p)))) =
      ((if O.isZero (evs.foldl (fun acc e => (l e).foldl (fun acc p => acc + w p) acc) ((0 : Nat) : α)) = true
        then ((0 : Nat) : α)
        else evs.foldl (fun acc e => (l e).foldl (fun acc p => acc + v e p * w p) acc) ((0 : Nat) : α) /
          evs.foldl (fun acc e => (l e).foldl (fun acc p => acc + w p) acc) ((0 : Nat) : α)),
       (if O.isZero (evs.foldl (fun acc e => (l e).foldl (fun acc p => acc + w p) acc) ((0 : Nat) : α)) = true
        then ((0 : Nat) : α)
        else O.sqrt (npow (evs.foldl (fun acc e => (l e).foldl (fun acc p => acc + v e p * w p) acc) ((0 : Nat) : α) /
              evs.foldl (fun acc e => (l e).foldl (fun acc p => acc + w p) acc) ((0 : Nat) : α)) 2 -
            evs.foldl (fun acc e => (l e).foldl (fun acc p => acc + npow (v e p) 2 * npow (w p) 2) acc) ((0 : Nat) : α) /
              npow (evs.foldl (fun acc e => (l e).foldl (fun acc p => acc + w p) acc) ((0 : Nat) : α)) 2) /
          O.sqrt (evs.foldl (fun acc e => (l e).foldl (fun acc p => acc + w p) acc) ((0 : Nat) : α)))) := by
  unfold eventAverage
  have h1 := sumL_flatMap l (fun e p => (v e p, w p)) (fun x => x.2) evs
  have h2 := sumL_flatMap l (fun e p => (v e p, w p)) (fun x => x.1 * x.2) evs
  have h3 := sumL_flatMap l (fun e p => (v e p, w p)) (fun x => npow x.1 2 * npow x.2 2) evs
  simp only [] at h1 h2 h3
  simp only [h1, h2, h3, ite_pair]

theorem spIntegrated_gen (O : Ops α κ) (wq : Part α κ → α) (gap : α) (sc : Bool) (evs : List (Ev α κ)) :
    Gen.FlowCore.spIntegrated O wq gap sc evs = Flow.spIntegrated O wq gap sc evs := by
  unfold Gen.FlowCore.spIntegrated Flow.spIntegrated spWith spFlows
  rw [eventAverage_loops]
  simp only [foldl_ite, spResolution, spResTerm, qSum, qMinusSelf, Part.pw]
  rfl


theorem restrict_flatMap {δ : Type} (O : Ops α κ) (val : Part α κ → α) (b : α × α) (evs : List (Ev α κ))
    (g : Ev α κ → List δ) :
    (restrict O val b evs).flatMap g =
      evs.flatMap (fun e => g { e with flow := e.flow.filter (inBin O val b.1 b.2) }) := by
  unfold restrict
  rw [List.flatMap_map]

theorem spDifferential_gen (O : Ops α κ) (wq : Part α κ → α) (gap : α) (sc : Bool) (site : Site) (sel : String)
    (edges : List α) (evs : List (Ev α κ)) :
    Gen.FlowCore.spDifferential O wq gap sc site sel edges evs = Flow.spDifferential O wq gap sc site sel edges evs := by
  unfold Gen.FlowCore.spDifferential Flow.spDifferential spWith spFlows
  simp only [binPairs_eq, restrict_flatMap, eventAverage_loops]
  simp only [foldl_ite, spResolution, spResTerm, qSum, qMinusSelf, Part.pw]
  rfl

theorem epRn_gen (O : Ops α κ) (wq : Part α κ → α) (gap : α) (evs : List (Ev α κ)) :
    Gen.FlowCore.epRn O wq gap evs = Flow.epRn O wq gap evs := by
  unfold Gen.FlowCore.epRn Flow.epRn
  simp only [foldl_ite, epResTerm, epSubQ, qSum, inA, inB]
  rfl

theorem epIntegrated_gen (O : Ops α κ) (wq : Part α κ → α) (gap : α) (sc : Bool) (evs : List (Ev α κ)) :
    Gen.FlowCore.epIntegrated O wq gap sc evs = Flow.epIntegrated O wq gap sc evs := by
  unfold Gen.FlowCore.epIntegrated Flow.epIntegrated epWith epFlows
  rw [eventAverage_loops]
  simp only [foldl_ite, epResolution, epRn, epResTerm, epSubQ, qSum, qMinusSelf, Part.pw]
  rfl

theorem epDifferential_gen (O : Ops α κ) (wq : Part α κ → α) (gap : α) (sc : Bool) (site : Site) (sel : String)
    (edges : List α) (evs : List (Ev α κ)) :
    Gen.FlowCore.epDifferential O wq gap sc site sel edges evs = Flow.epDifferential O wq gap sc site sel edges evs := by
  unfold Gen.FlowCore.epDifferential Flow.epDifferential epWith epFlows
  simp only [binPairs_eq, restrict_flatMap, eventAverage_loops]
  simp only [foldl_ite, epResolution, epRn, epResTerm, epSubQ, qSum, qMinusSelf, Part.pw]
  rfl

end generic
end SparkxVerif.FlowCoreGen
