/-
Lemmas for C06: the two halves composed (Oscar).
`oscar_read_written` : the shared reader model on the file written for a well-formed object.
`oscar_write_fixpoint` : the object built from that file writes the same lines again.
-/
import SparkxVerif.Lemmas.WriterJet

set_option linter.unusedSimpArgs false
set_option linter.unusedVariables false

namespace SparkxVerif.Wr
open SparkxVerif.Rd SparkxVerif.Gen.WriterTables

variable {R V : Type}

/-- every written line is observed (by the loaders' tests) as what it is meant to be, and kept as it is -/
def ObsOK (obs : String → LineF) (fmt : Fmt) (attrs : List String) (partons : Bool) (tl : List TLine) : Prop :=
  ∀ t ∈ tl, obsKind fmt attrs partons t.kind (obs t.text) = true ∧ (obs t.text).raw = t.text

/-- blocks from the already formatted particle lines -/
def blocksFrom (foot : Nat → String) : Nat → List (List (List String × String)) → List EvBlock
  | _, [] => []
  | i, ps :: pss => ⟨outLine i ps.length, ps, foot i⟩ :: blocksFrom foot (i + 1) pss

theorem oscarBlocksOf_eq (c : Codec V) (vals : R → List V) (specs : List Spec) (foot : Nat → String) (i : Nat)
    (evs : List (List R)) :
    oscarBlocksOf c vals specs foot i evs = blocksFrom foot i (evs.map (fun ev => ev.map (cellsRow c specs vals))) := by
  induction evs generalizing i with
  | nil => rfl
  | cons ev evs ih => simp [oscarBlocksOf, blocksFrom, ih]

theorem blocksFrom_congr (foot foot' : Nat → String) (i : Nat) (pss : List (List (List String × String)))
    (h : ∀ k, k < pss.length → foot (i + k) = foot' (i + k)) :
    blocksFrom foot i pss = blocksFrom foot' i pss := by
  induction pss generalizing i with
  | nil => rfl
  | cons ps pss ih =>
    have h0 := h 0 (by simp)
    simp only [Nat.add_zero] at h0
    simp only [blocksFrom, h0]
    congr 1
    apply ih
    intro k hk
    have := h (k + 1) (by simp; omega)
    rwa [Nat.add_assoc, Nat.add_comm 1 k]

theorem blocksFrom_length (foot : Nat → String) (i : Nat) (pss : List (List (List String × String))) :
    (blocksFrom foot i pss).length = pss.length := by
  induction pss generalizing i with
  | nil => rfl
  | cons ps pss ih => simp [blocksFrom, ih]

theorem blocksFrom_parts (foot : Nat → String) (i : Nat) (pss : List (List (List String × String))) :
    (blocksFrom foot i pss).map (·.parts) = pss := by
  induction pss generalizing i with
  | nil => rfl
  | cons ps pss ih => simp [blocksFrom, ih]

theorem blocksFrom_foot (foot : Nat → String) (i : Nat) (pss : List (List (List String × String))) :
    (blocksFrom foot i pss).map (·.foot) = (List.range' i pss.length).map foot := by
  induction pss generalizing i with
  | nil => rfl
  | cons ps pss ih => simp [blocksFrom, ih, List.range'_succ]

theorem rowsOf_blocksFrom (foot : Nat → String) (i : Nat) (pss : List (List (List String × String))) :
    rowsOf i (blocksFrom foot i pss) = relabelRows 0 i pss := by
  induction pss generalizing i with
  | nil => rfl
  | cons ps pss ih => simp [blocksFrom, rowsOf, relabelRows, ih]

theorem relabelRows_map {α β : Type} (f : List α → List β) (hf : ∀ l, (f l).length = l.length) (first : Int) (i : Nat)
    (evs : List (List α)) : relabelRows first i (evs.map f) = relabelRows first i evs := by
  induction evs generalizing i with
  | nil => rfl
  | cons ev evs ih => simp [relabelRows, ih, hf]

/-- the observations of the lines of blocks -/
theorem tlinesOf_map_obs (obs : String → LineF) (i : Nat) (bs : List EvBlock) :
    (tlinesOf i bs).map (fun t => obs t.text) = bs.flatMap (EvBlock.obsLines obs) := by
  induction bs generalizing i with
  | nil => rfl
  | cons b bs ih =>
    simp [tlinesOf, EvBlock.tlines, EvBlock.obsLines, ih, List.map_map, Function.comp_def]

theorem blocksOK_of_obs (obs : String → LineF) (fmt : Fmt) (attrs : List String) (i : Nat) (bs : List EvBlock)
    (h : ObsOK obs fmt attrs false (tlinesOf i bs)) : BlocksOK obs fmt attrs i bs := by
  induction bs generalizing i with
  | nil => trivial
  | cons b bs ih =>
    refine ⟨⟨?_, ?_, ?_, ?_⟩, ih (i + 1) (fun t ht => h t (by simp [tlinesOf, ht]))⟩
    · have := (h ⟨.out i b.parts.length, b.out⟩ (by simp [tlinesOf, EvBlock.tlines])).1
      simpa [obsKind] using this
    · intro p hp
      have := (h ⟨.part p.1, p.2⟩ (by
        simp only [tlinesOf, EvBlock.tlines, List.mem_append, List.mem_cons, List.mem_map]
        exact Or.inl (Or.inr (Or.inl ⟨p, hp, rfl⟩)))).1
      simpa [obsKind] using this
    · have := (h ⟨.endl i, b.foot⟩ (by simp [tlinesOf, EvBlock.tlines])).1
      simpa [obsKind] using this
    · exact (h ⟨.endl i, b.foot⟩ (by simp [tlinesOf, EvBlock.tlines])).2

/-- the particle lines (cells and text) the writer produces for the events held -/
def partsOf (c : Codec V) (vals : R → List V) (specs : List Spec) (evs : List (List R)) :
    List (List (List String × String)) :=
  evs.map (fun ev => ev.map (cellsRow c specs vals))

theorem partsOf_length (c : Codec V) (vals : R → List V) (specs : List Spec) (evs : List (List R)) :
    (partsOf c vals specs evs).length = evs.length := by simp [partsOf]

/-- **read ∘ write (Oscar).**  For a well-formed object, under the observation hypotheses on the written lines, the
shared reader model accepts the written file and returns: the cells `fmt (val)` of every held particle, event by
event; one event per held event; counts `(i, n_i)`; the format and column list; and as end lines the held events'
own end lines (numbered by position). -/
theorem oscar_read_written (c : Codec V) (vals : R → List V) (custom : List Spec) (n : Nat) (o : OscarObj R)
    (wf : OscarWF vals custom n o) (h0 h1 h2 : String) (hh : o.header = [h0, h1, h2])
    (obs : String → LineF) (nl : Bool)
    (hobs : ObsOK obs o.fmt o.attrs false (oscarSpecLines c vals custom n o))
    (hfmt : oscarFormat (obs h0) = .ok (o.fmt, o.attrs)) :
    ∃ evs, readOscar ⟨(oscarSpecLines c vals custom n o).map (fun t => obs t.text), nl⟩ .all none
        = .ok { events := evs, numEvents := o.events.length, counts := .arr2d (relabelRows 0 0 o.events),
                fmt := some o.fmt, customAttrs := o.attrs,
                footers := (List.range' 0 o.events.length).map (footOf o) }
      ∧ strip evs = o.events.map (fun ev => ev.map (fun r => cellsOf c (specsOf o.fmt custom n) (vals r))) := by
  let specs := specsOf o.fmt custom n
  let pss := partsOf c vals specs o.events
  let bs := blocksFrom (footOf o) 0 pss
  have hbs : oscarBlocksOf c vals specs (footOf o) 0 o.events = bs := oscarBlocksOf_eq ..
  have hlines : oscarSpecLines c vals custom n o = hdrLines [h0, h1, h2] ++ tlinesOf 0 bs := by
    simp only [oscarSpecLines, hh]; rw [hbs]
  have hobs' : ObsOK obs o.fmt o.attrs false (hdrLines [h0, h1, h2] ++ tlinesOf 0 bs) := by rw [← hlines]; exact hobs
  have hsk : ∀ h ∈ [h0, h1, h2], obsScanSkip (obs h) = true := by
    intro h hm
    have := (hobs' ⟨.hdr, h⟩ (by
      simp only [hdrLines, List.mem_append, List.mem_map]
      exact Or.inl ⟨h, hm, rfl⟩)).1
    simpa [obsKind] using this
  have hblocks : BlocksOK obs o.fmt o.attrs 0 bs :=
    blocksOK_of_obs obs o.fmt o.attrs 0 bs (fun t ht => hobs' t (by simp [ht]))
  have hne : bs ≠ [] := by
    intro h
    have := congrArg List.length h
    rw [blocksFrom_length, partsOf_length] at this
    exact wf.nonempty (List.eq_nil_of_length_eq_zero this)
  have hf1 : o.fmt ≠ .extendedIC := by rcases wf.fmt with h | h | h <;> simp [h]
  have hf2 : o.fmt ≠ .extendedPhotons := by rcases wf.fmt with h | h | h <;> simp [h]
  obtain ⟨evs, hr, hs⟩ := readOscar_written (obs := obs) (fmt := o.fmt) (attrs := o.attrs) h0 h1 h2 bs nl hfmt hf1 hf2
    (hsk h0 (by simp)) (hsk h1 (by simp)) (hsk h2 (by simp)) hblocks hne
  refine ⟨evs, ?_, ?_⟩
  · rw [hlines]
    simp only [List.map_append, hdrLines, List.map_cons, List.map_nil, tlinesOf_map_obs, List.cons_append, List.nil_append]
    rw [hr]
    have e1 : bs.length = o.events.length := by rw [blocksFrom_length, partsOf_length]
    have e2 : rowsOf 0 bs = relabelRows 0 0 o.events := by
      rw [rowsOf_blocksFrom]; exact relabelRows_map _ (by simp) 0 0 o.events
    have e3 : bs.map (·.foot) = (List.range' 0 o.events.length).map (footOf o) := by
      rw [blocksFrom_foot, partsOf_length]
    simp only [e1, e2, e3]
  · rw [hs]
    have : bs.map (·.parts) = pss := blocksFrom_parts ..
    have h2 : bs.map (fun b => b.parts.map (·.1)) = pss.map (fun ps => ps.map (·.1)) := by
      rw [← this]; simp [List.map_map, Function.comp_def]
    rw [h2]
    simp [pss, partsOf, cellsRow, List.map_map, Function.comp_def, specs]
theorem zipIdx_snd {α : Type} (l : List α) (k : Nat) : (l.zipIdx k).map (·.2) = List.range' k l.length := by
  induction l generalizing k with
  | nil => rfl
  | cons a l ih => simp [List.zipIdx_cons, ih, List.range'_succ]

theorem keptIndices_all (f : FileF) (L : Loaded) (h : readOscar f .all none = .ok L) :
    keptIndices f .all none = List.range' 0 L.events.length := by
  simp only [keptIndices, h]
  have : (L.events.zipIdx.filter (fun _ => true)) = L.events.zipIdx := by simp
  simp only [this, Nat.zero_add]
  exact zipIdx_snd L.events 0

theorem strip_lengths (evs : List (List PLine)) (xs : List (List (List String))) (h : strip evs = xs) :
    evs.map List.length = xs.map List.length := by
  subst h; simp [strip, List.map_map, Function.comp_def]

theorem relabelRows_lengths {α β : Type} (first : Int) (i : Nat) (a : List (List α)) (b : List (List β))
    (h : a.map List.length = b.map List.length) : relabelRows first i a = relabelRows first i b := by
  induction a generalizing i b with
  | nil => cases b with
    | nil => rfl
    | cons _ _ => simp at h
  | cons x a ih => cases b with
    | nil => simp at h
    | cons y b =>
      simp only [List.map_cons, List.cons.injEq] at h
      simp [relabelRows, h.1, ih (i + 1) b h.2]

/-- **write ∘ read ∘ write = write (Oscar).**  Let `o` be a well-formed object and `f2` the file it writes (as observed by
`obs`).  The reader accepts `f2`; the object `o2` that `Oscar(f2)` builds from it is again well-formed; and for every
`vals2` (the numbers of the particles of `o2`) whose formatted cells are the tokens read — which is `H_idem` lifted to
rows — writing `o2` produces the same tagged lines as writing `o`. -/
theorem oscar_write_fixpoint (c : Codec V) (vals : R → List V) (custom : List Spec) (n : Nat) (o : OscarObj R)
    (wf : OscarWF vals custom n o) (h0 h1 h2 : String) (hh : o.header = [h0, h1, h2])
    (obs : String → LineF) (nl : Bool)
    (hobs : ObsOK obs o.fmt o.attrs false (oscarSpecLines c vals custom n o))
    (hfmt : oscarFormat (obs h0) = .ok (o.fmt, o.attrs))
    (hsub : ∀ i, i < o.events.length → substLabel 2 i (footOf o i) = footOf o i) :
    let f2 : FileF := ⟨(oscarSpecLines c vals custom n o).map (fun t => obs t.text), nl⟩
    ∃ L o2, readOscar f2 .all none = .ok L
      ∧ oscarOfLoaded L f2 (keptIndices f2 .all none) = .ok o2
      ∧ ∀ vals2 : PLine → List V,
          (∀ ev ∈ o2.events, ∀ p ∈ ev, cellsOf c (specsOf o.fmt custom n) (vals2 p) = p.toks ∧ (vals2 p).length = n) →
          OscarWF vals2 custom n o2 ∧ writeOscarK c vals2 o2 = writeOscarK c vals o := by
  intro f2
  obtain ⟨evs, hr, hs⟩ := oscar_read_written c vals custom n o wf h0 h1 h2 hh obs nl hobs hfmt
  have hkept := keptIndices_all f2 _ hr
  simp only at hkept
  have hN : evs.length = o.events.length := by
    have := congrArg List.length hs
    simpa [strip] using this
  have hlens : evs.map List.length = o.events.map List.length := by
    have := strip_lengths evs _ hs
    simpa [List.map_map, Function.comp_def] using this
  -- the header of the written file, as `Oscar.__init__` copies it
  have hraw : ∀ h ∈ [h0, h1, h2], (obs h).raw = h := by
    intro h hm
    exact (hobs ⟨.hdr, h⟩ (by
      simp only [oscarSpecLines, hh, hdrLines, List.mem_append, List.mem_map]
      exact Or.inl ⟨h, hm, rfl⟩)).2
  have hhdr : (f2.lines.take 3).map (·.raw) = o.header := by
    simp only [f2, oscarSpecLines, hh, hdrLines, List.map_append, List.map_cons, List.map_nil, List.cons_append,
      List.nil_append, List.take_succ_cons, List.take_zero]
    simp [hraw h0 (by simp), hraw h1 (by simp), hraw h2 (by simp)]
  let o2 : OscarObj PLine :=
    { events := evs, numEvents := (o.events.length : Int), counts := .arr2d (relabelRows 0 0 o.events),
      fmt := o.fmt, attrs := o.attrs, endLines := (List.range' 0 o.events.length).map (footOf o),
      lastEndNoNL := !nl, origin := List.range' 0 evs.length, impactIdx := List.range' 0 evs.length,
      header := o.header }
  refine ⟨_, o2, hr, ?_, ?_⟩
  · simp only [oscarOfLoaded, originFromLoader, oscarHasOrigin, ↓reduceIte, hkept, hhdr]
    rfl
  · intro vals2 hv
    have wf2 : OscarWF vals2 custom n o2 := by
      refine ⟨?_, ?_, ⟨0, ?_⟩, ?_, ?_, ?_, wf.fmt, wf.custom_ok, wf.specs_len⟩
      · intro h; simp only [o2] at h; rw [h] at hN; exact wf.nonempty (List.eq_nil_of_length_eq_zero hN.symm)
      · simp [o2, hN]
      · simp only [o2]; rw [relabelRows_lengths 0 0 evs o.events hlens]
      · simp [o2]
      · intro j hj; simp [o2] at hj ⊢; omega
      · intro ev hev p hp; exact (hv ev hev p hp).2
    refine ⟨wf2, ?_⟩
    rw [writeOscarK_ok c vals2 custom n _ wf2, writeOscarK_ok c vals custom n o wf]
    congr 1
    simp only [oscarSpecLines, o2]
    congr 1
    rw [oscarBlocksOf_eq, oscarBlocksOf_eq]
    -- the particle lines
    have hparts : evs.map (fun ev => ev.map (cellsRow c (specsOf o.fmt custom n) vals2))
        = o.events.map (fun ev => ev.map (cellsRow c (specsOf o.fmt custom n) vals)) := by
      have h1 : evs.map (fun ev => ev.map (cellsRow c (specsOf o.fmt custom n) vals2))
          = (strip evs).map (fun ts => ts.map (fun t => (t, " ".intercalate t))) := by
        simp only [strip, List.map_map, Function.comp_def]
        apply List.map_congr_left
        intro ev hev
        apply List.map_congr_left
        intro p hp
        simp [cellsRow, (hv ev hev p hp).1]
      rw [h1, hs]
      simp [cellsRow, List.map_map, Function.comp_def]
    rw [hparts]
    congr 1
    apply blocksFrom_congr
    intro k hk
    simp only [List.length_map] at hk
    simp only [Nat.zero_add]
    -- the end lines: own end line of the re-read event = the written one, which already carries `k`
    have hk' : k < evs.length := by omega
    have hs' := hsub k hk
    simp only [footOf] at hs'
    simp [footOf, hk, hk']
    simpa using hs'

end SparkxVerif.Wr
