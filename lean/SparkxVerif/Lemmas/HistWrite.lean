/-
Helper lemmas for C10: what `write_to_file` writes.  The column tables (`allColumns`, `dataOrder`,
`selectByName`, `singleLabelShared`, `rejectsUnknown`) come from `Gen/HistWrite.lean`, regenerated from
the source on every run, so these proofs are re-checked against the current text of `write_to_file`.
No property statements here.
-/
import SparkxVerif.Lemmas.HistShape

set_option linter.unusedSectionVars false
set_option linter.unusedSimpArgs false

namespace SparkxVerif.Hist
open SparkxVerif.Gen.HistWrite

theorem mapM_ok {α β : Type} (f : α → Except Err β) (g : α → β) (l : List α) (h : ∀ x ∈ l, f x = .ok (g x)) :
    l.mapM f = .ok (l.map g) := by
  induction l with
  | nil => rfl
  | cons x xs ih =>
    rw [List.mapM_cons, h x (by simp), ih (fun y hy => h y (List.mem_cons_of_mem _ hy))]
    rfl

section field
variable {K : Type} [Field K] [LinearOrder K] [IsStrictOrderedRing K]

/-- the value that belongs to column `c` (specification side: by name, from the edges and the arrays) -/
def valueOf (s : State K) (h i : Nat) (c : String) : K :=
  if c = "bin_center" then (s.edges.getD i 0 + s.edges.getD (i + 1) 0) / 2
  else if c = "bin_low" then s.edges.getD i 0
  else if c = "bin_high" then s.edges.getD (i + 1) 0
  else if c = "distribution" then (s.hist.getD h []).getD i 0
  else if c = "stat_err+" ∨ c = "stat_err-" then (s.err.getD h []).getD i 0
  else (s.sys.getD h []).getD i 0

theorem valueOf_center (s : State K) (h i : Nat) :
    valueOf s h i "bin_center" = (s.edges.getD i 0 + s.edges.getD (i + 1) 0) / 2 := by
  rw [valueOf, if_pos rfl]
theorem valueOf_low (s : State K) (h i : Nat) : valueOf s h i "bin_low" = s.edges.getD i 0 := by
  rw [valueOf, if_neg (by decide), if_pos rfl]
theorem valueOf_high (s : State K) (h i : Nat) : valueOf s h i "bin_high" = s.edges.getD (i + 1) 0 := by
  rw [valueOf, if_neg (by decide), if_neg (by decide), if_pos rfl]
theorem valueOf_dist (s : State K) (h i : Nat) :
    valueOf s h i "distribution" = (s.hist.getD h []).getD i 0 := by
  rw [valueOf, if_neg (by decide), if_neg (by decide), if_neg (by decide), if_pos rfl]
theorem valueOf_statp (s : State K) (h i : Nat) : valueOf s h i "stat_err+" = (s.err.getD h []).getD i 0 := by
  rw [valueOf, if_neg (by decide), if_neg (by decide), if_neg (by decide), if_neg (by decide),
    if_pos (Or.inl rfl)]
theorem valueOf_statm (s : State K) (h i : Nat) : valueOf s h i "stat_err-" = (s.err.getD h []).getD i 0 := by
  rw [valueOf, if_neg (by decide), if_neg (by decide), if_neg (by decide), if_neg (by decide),
    if_pos (Or.inr rfl)]
theorem valueOf_sysp (s : State K) (h i : Nat) : valueOf s h i "sys_err+" = (s.sys.getD h []).getD i 0 := by
  rw [valueOf, if_neg (by decide), if_neg (by decide), if_neg (by decide), if_neg (by decide),
    if_neg (by decide)]
theorem valueOf_sysm (s : State K) (h i : Nat) : valueOf s h i "sys_err-" = (s.sys.getD h []).getD i 0 := by
  rw [valueOf, if_neg (by decide), if_neg (by decide), if_neg (by decide), if_neg (by decide),
    if_neg (by decide)]

/-- the label dictionary that belongs to histogram `h`: the only one, or the `h`-th -/
def dictFor (labels : Labels) (h : Nat) : List (String × String) :=
  if labels.length = 1 then labels.getD 0 [] else labels.getD h []

/-- the label of column `c` for histogram `h` -/
def labelOf (labels : Labels) (h : Nat) (c : String) : String := (lookup c (dictFor labels h)).getD ""

/-- one label dictionary, or at least one per histogram; every requested column has a label in every
dictionary that is used -/
def LabelsOK (s : State K) (cols : List String) (labels : Labels) : Prop :=
  (labels.length = 1 ∨ s.nHist ≤ labels.length) ∧
  ∀ h, h < s.nHist → ∀ c ∈ cols, (lookup c (dictFor labels h)).isSome = true

theorem cellAt {n m : Nat} {a : List (List K)} (ha : RowsOK n m a) (h i : Nat) (hh : h < n) (hi : i < m) :
    ∃ r, a[h]? = some r ∧ r[i]? = some ((a.getD h []).getD i 0) := by
  have hl : h < a.length := by rw [ha.1]; exact hh
  refine ⟨a[h], List.getElem?_eq_getElem hl, ?_⟩
  have hr : a[h].length = m := ha.2 _ (List.getElem_mem _)
  simp [List.getD_eq_getElem?_getD, List.getElem?_eq_getElem hl, List.getElem?_eq_getElem (hr ▸ hi)]

theorem data_ok {s : State K} (hs : Shape s) (h i : Nat) (hh : h < s.nHist) (hi : i < s.nBins) :
    dataOrder.mapM (qty s h i) = .ok
      [valueOf s h i "bin_center", valueOf s h i "bin_low", valueOf s h i "bin_high",
       valueOf s h i "distribution", valueOf s h i "stat_err+", valueOf s h i "stat_err-",
       valueOf s h i "sys_err+", valueOf s h i "sys_err-"] := by
  have hlen : i + 1 < s.edges.length := by rw [hs.edges]; omega
  have e0 : s.edges.getD i 0 = s.edges[i] := by
    simp [List.getD_eq_getElem?_getD, List.getElem?_eq_getElem (by omega : i < s.edges.length)]
  have e1 : s.edges.getD (i + 1) 0 = s.edges[i + 1] := by
    simp [List.getD_eq_getElem?_getD, List.getElem?_eq_getElem hlen]
  have hc := centers_getElem? s.edges i hlen
  have hl : (boundsLeft s.edges)[i]? = some s.edges[i] := by
    simp only [boundsLeft, List.getElem?_dropLast]
    rw [if_pos (by omega)]; exact List.getElem?_eq_getElem (by omega)
  have hr : (boundsRight s.edges)[i]? = some s.edges[i + 1] := by
    simp only [boundsRight, List.getElem?_tail]; exact List.getElem?_eq_getElem hlen
  obtain ⟨r1, h1a, h1b⟩ := cellAt hs.hist h i hh hi
  obtain ⟨r2, h2a, h2b⟩ := cellAt hs.err h i hh hi
  obtain ⟨r3, h3a, h3b⟩ := cellAt hs.sys h i hh hi
  have q1 : qty s h i .center = .ok (valueOf s h i "bin_center") := by
    rw [valueOf_center, e0, e1]; simp only [qty, hc]
  have q2 : qty s h i .low = .ok (valueOf s h i "bin_low") := by
    rw [valueOf_low, e0]; simp only [qty, hl]
  have q3 : qty s h i .high = .ok (valueOf s h i "bin_high") := by
    rw [valueOf_high, e1]; simp only [qty, hr]
  have q4 : qty s h i .dist = .ok (valueOf s h i "distribution") := by
    rw [valueOf_dist]; simp only [qty, h1a, h1b]
  have q5 : qty s h i .stat = .ok (valueOf s h i "stat_err+") := by
    rw [valueOf_statp]; simp only [qty, h2a, h2b]
  have q5' : valueOf s h i "stat_err-" = valueOf s h i "stat_err+" := by rw [valueOf_statm, valueOf_statp]
  have q6 : qty s h i .sys = .ok (valueOf s h i "sys_err+") := by
    rw [valueOf_sysp]; simp only [qty, h3a, h3b]
  have q6' : valueOf s h i "sys_err-" = valueOf s h i "sys_err+" := by rw [valueOf_sysm, valueOf_sysp]
  simp only [dataOrder, List.mapM_cons, List.mapM_nil, q1, q2, q3, q4, q5, q6, q5', q6']
  rfl

theorem select_ok {s : State K} (h i : Nat) (cols : List String) (hcols : ∀ c ∈ cols, c ∈ allColumns) :
    cols.mapM (fun c =>
      match indexOf? c (if selectByName then allColumns else cols) with
      | none => (.error .value : Except Err K)
      | some k => match
          ([valueOf s h i "bin_center", valueOf s h i "bin_low", valueOf s h i "bin_high",
            valueOf s h i "distribution", valueOf s h i "stat_err+", valueOf s h i "stat_err-",
            valueOf s h i "sys_err+", valueOf s h i "sys_err-"] : List K)[k]? with
        | some x => .ok x
        | none => .error .index)
      = .ok (cols.map (valueOf s h i)) := by
  apply mapM_ok
  intro c hc
  have := hcols c hc
  simp only [allColumns, List.mem_cons, List.not_mem_nil, or_false] at this
  rcases this with rfl | rfl | rfl | rfl | rfl | rfl | rfl | rfl <;> rfl

theorem writeRow_ok {s : State K} (hs : Shape s) (cols : List String) (hcols : ∀ c ∈ cols, c ∈ allColumns)
    (h i : Nat) (hh : h < s.nHist) (hi : i < s.nBins) :
    writeRow s cols h i = .ok (cols.map (valueOf s h i)) := by
  unfold writeRow
  rw [data_ok hs h i hh hi]
  exact select_ok h i cols hcols

theorem labelFor_ok {s : State K} (hs : Shape s) (cols : List String) (labels : Labels)
    (hl : LabelsOK s cols labels) (h : Nat) (hh : h < s.nHist) :
    labelFor labels h = .ok (dictFor labels h) := by
  have hnh := hs.nh
  have hne : 0 < labels.length := by rcases hl.1 with h1 | h1 <;> omega
  have h0 : labels[0]? = some (labels.getD 0 []) := by
    rw [List.getD_eq_getElem?_getD, List.getElem?_eq_getElem hne]; rfl
  unfold labelFor dictFor
  by_cases hgt : labels.length > 1
  · have hlt : h < labels.length := by rcases hl.1 with h1 | h1 <;> omega
    have hh' : labels[h]? = some (labels.getD h []) := by
      rw [List.getD_eq_getElem?_getD, List.getElem?_eq_getElem hlt]; rfl
    have hc : (singleLabelShared && !(decide (labels.length > 1))) = false := by
      rw [decide_eq_true hgt]; rfl
    rw [hc, if_neg (by omega : ¬ labels.length = 1)]
    simp only [Bool.false_eq_true, if_false, hh']
  · have h1 : labels.length = 1 := by omega
    have hc : (singleLabelShared && !(decide (labels.length > 1))) = true := by
      rw [decide_eq_false hgt]; rfl
    rw [hc, if_pos h1]
    simp only [if_true, h0]

theorem writeBlock_ok {s : State K} (hs : Shape s) (cols : List String) (hcols : ∀ c ∈ cols, c ∈ allColumns)
    (labels : Labels) (hl : LabelsOK s cols labels) (h : Nat) (hh : h < s.nHist) :
    writeBlock s cols labels h =
      .ok (cols.map (labelOf labels h), (List.range s.nBins).map (fun i => cols.map (valueOf s h i))) := by
  unfold writeBlock
  rw [labelFor_ok hs cols labels hl h hh]
  have hrows : (List.range s.nBins).mapM (writeRow s cols h) =
      .ok ((List.range s.nBins).map (fun i => cols.map (valueOf s h i))) :=
    mapM_ok _ _ _ (fun i hi => writeRow_ok hs cols hcols h i hh (List.mem_range.mp hi))
  simp only [bind, Except.bind]
  rw [mapM_ok (g := labelOf labels h) (l := cols)]
  · simp only []
    rw [hrows]
    rfl
  · intro c hc
    have := hl.2 h hh c hc
    cases hlk : lookup c (dictFor labels h) with
    | none => rw [hlk] at this; simp at this
    | some l => simp [labelOf, hlk]

/-- `write_to_file` with explicit columns on a well-shaped state -/
theorem write_some_ok {s : State K} (hs : Shape s) (cols : List String) (hcols : ∀ c ∈ cols, c ∈ allColumns)
    (labels : Labels) (hl : LabelsOK s cols labels) :
    write s (some cols) labels = .ok ((List.range s.nHist).map (fun h =>
      (cols.map (labelOf labels h), (List.range s.nBins).map (fun i => cols.map (valueOf s h i))))) := by
  have hnh := hs.nh
  have hblocks := mapM_ok (writeBlock s cols labels) _ (List.range s.nHist)
    (fun h hh => writeBlock_ok hs cols hcols labels hl h (List.mem_range.mp hh))
  have hne : labels.length ≠ 0 := by rcases hl.1 with h | h <;> omega
  have hd0 : dictFor labels 0 = labels.getD 0 [] := by unfold dictFor; split <;> rfl
  have h0 : labels[0]? = some (labels.getD 0 []) := by
    simp [List.getD_eq_getElem?_getD, List.getElem?_eq_getElem (by omega : 0 < labels.length)]
  have hkeys : cols.all (fun c => (lookup c (labels.getD 0 [])).isSome) = true := by
    rw [List.all_eq_true]
    intro c hc
    have := hl.2 0 (by omega) c hc
    rwa [hd0] at this
  have hsecond : ¬ (s.nHist > 1 ∧ labels.length > 1 ∧ labels.length < s.nHist) := by
    rintro ⟨_, h2, h3⟩; rcases hl.1 with h | h <;> omega
  have hknown : cols.all (fun c => allColumns.contains c) = true := by
    rw [List.all_eq_true]
    intro c hc
    simpa using hcols c hc
  unfold write
  cases cols with
  | nil =>
    simp only [Option.getD_some] at hblocks ⊢
    rw [if_neg hsecond]
    simp only [rejectsUnknown, List.all_nil, Bool.not_true, Bool.and_false, Bool.false_eq_true, if_false]
    exact hblocks
  | cons c cs =>
    simp only [h0, hkeys, if_true, Option.getD_some]
    rw [if_neg hsecond]
    simp only [rejectsUnknown, hknown, Bool.not_true, Bool.and_false, Bool.false_eq_true, if_false]
    exact hblocks

/-- `columns=None` is `columns=` the default list -/
theorem write_none_eq {s : State K} (hs : Shape s) (labels : Labels) (hl : LabelsOK s defaultColumns labels) :
    write s none labels = write s (some defaultColumns) labels := by
  have hnh := hs.nh
  have hne : labels.length ≠ 0 := by rcases hl.1 with h | h <;> omega
  have hd0 : dictFor labels 0 = labels.getD 0 [] := by unfold dictFor; split <;> rfl
  have h0 : labels[0]? = some (labels.getD 0 []) := by
    simp [List.getD_eq_getElem?_getD, List.getElem?_eq_getElem (by omega : 0 < labels.length)]
  have hkeys : defaultColumns.all (fun c => (lookup c (labels.getD 0 [])).isSome) = true := by
    rw [List.all_eq_true]
    intro c hc
    have := hl.2 0 (by omega) c hc
    rwa [hd0] at this
  unfold write
  simp only [Option.getD_none, Option.getD_some]
  have : defaultColumns = "bin_center" :: defaultColumns.tail := rfl
  rw [this] at hkeys ⊢
  simp only [h0, hkeys, if_true]

end field

end SparkxVerif.Hist
