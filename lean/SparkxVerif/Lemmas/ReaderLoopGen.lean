/-
Tie T for the line loops of the readers — the loop parts REGENERATED from the current `loader/OscarLoader.py` /
`loader/JetscapeLoader.py` (`Gen/ReaderLoop.lean`, written by `harness/translate/readerloop.py`) against the hand-written
loops of the shared reader model (`Core/Reader.lean`), for ALL inputs.

  oscarLoop_eq_lineLoop / jetscapeLoop_eq_lineLoop   the hand-written loops are the loop skeleton `lineLoop` around one
                                                     iteration (`oscarStep`, `jetscapeStep`: the bodies of `Rd.oscarLoop` /
                                                     `Rd.jetscapeLoop` read off as functions)
  genOscarClose1_eq, genJetscapeClose2_eq            generated `finish the event` block = `Rd.closeEvent`
  genJetscapeClose1_clear                            the block of the JETSCAPE trailer line: the source does NOT reset
                                                     `data`, `closeEvent` does — equal up to `clearData`
  genOscarStep_eq, genOscarLoop_eq                   generated Oscar iteration / loop = `oscarStep` / `Rd.oscarLoop`
  genJetscapeStep_eq (non-trailer lines), genJetscapeStep_trailer, genJetscapeLoop_eq (files in which no line follows a
                                                     trailer line, `trailerLastB`; results equal up to the pending `data`,
                                                     which nothing after the loop reads)
  genOscarInit_eq, genJetscapeInit_eq, genOscarFinish_eq, genJetscapeFinish_eq, genOscarNumEvents_eq
  genOscarParts_eq, readOscarParts_core, readOscarParts_gen, readJetscapeParts_core, readJetscapeParts_gen

The case analyses are closed by one generic tactic (`rl_crunch`: split every `if`/`match` on both sides, simplify with the
hypotheses, `omega`), so renamed locals, reordered independent statements, hoisted tests and regrouped conditions of the
source re-prove; a changed pattern, bound, branch order or bookkeeping step does not.  No Mathlib.
-/
import SparkxVerif.Gen.ReaderLoop

namespace SparkxVerif.RdLoop
open SparkxVerif.Rd SparkxVerif.RdSel SparkxVerif.Gen.ReaderLoop

@[simp] theorem eBind_ok' {α β : Type} (a : α) (f : α → Except Err β) : eBind (.ok a) f = f a := rfl
@[simp] theorem eBind_error' {α β : Type} (e : Err) (f : α → Except Err β) :
    eBind (.error e : Except Err α) f = .error e := rfl

/-! ### comparisons of `len(...)` as the loaders write them -/

theorem lenI_ne0 {α : Type} (xs : List α) : (lenI xs != (0 : Int)) = (xs.length != 0) := by
  cases xs with
  | nil => rfl
  | cons a t => simp [lenI] <;> omega

theorem lenI_eq0 {α : Type} (xs : List α) : (lenI xs == (0 : Int)) = (xs.length == 0) := by
  cases xs with
  | nil => rfl
  | cons a t => simp [lenI] <;> omega

theorem lenI_gt0 {α : Type} (xs : List α) : decide (lenI xs > (0 : Int)) = (xs.length != 0) := by
  cases xs with
  | nil => rfl
  | cons a t => simp [lenI] <;> omega

theorem lenI_lt1 {α : Type} (xs : List α) : decide (lenI xs < (1 : Int)) = (xs.length == 0) := by
  cases xs with
  | nil => rfl
  | cons a t => simp [lenI] <;> omega

theorem isEmpty_len {α : Type} (xs : List α) : xs.isEmpty = (xs.length == 0) := by
  cases xs <;> rfl

/-- `deleteRow` through the numpy primitives -/
theorem deleteRow_eq (c : Counts) (idx : Nat) :
    deleteRow c idx = eBind (npDelete2d c idx) (fun c2 =>
      .ok (if npShape0 c2 == 0 then Counts.empty
           else if decide ((idx : Int) < npShape0 c2) then npDecLabelsFrom c2 idx else c2)) := by
  cases c with
  | arr1d r => rfl
  | empty => rfl
  | arr2d rows =>
    by_cases hi : idx < rows.length
    · simp only [npDelete2d, deleteRow, hi, if_true, eBind_ok', npShape0, npDecLabelsFrom]
      cases hr : rows.eraseIdx idx with
      | nil => simp
      | cons r rs =>
        by_cases hlt : idx < rs.length + 1
        · have : (idx : Int) < (rs.length : Int) + 1 := by omega
          simp [this]; omega
        · have h2 : ¬ ((idx : Int) < (rs.length : Int) + 1) := by omega
          have h3 : rs.length + 1 ≤ idx := by omega
          simp [h2]
          have h4 : ¬ ((rs.length : Int) + 1 = 0) := by omega
          simp only [h4, if_false]
          rw [List.take_of_length_le (by simpa using h3), List.drop_eq_nil_of_le (by simpa using h3)]; simp
    · simp [npDelete2d, deleteRow, hi]

/-- split every `if` / `match` on both sides, simplify with what the branches assume, finish arithmetic with `omega` -/
macro "rl_crunch" : tactic =>
  `(tactic| ((repeat' (first | rfl | (split <;> try simp_all))) <;> (try intros) <;> (try simp_all) <;>
    (try simp only [decide_eq_true_eq, decide_eq_false_iff_not] at *) <;>
    (first | omega | (subst_vars; rfl) | skip)))

/-- normal form of the bookkeeping primitives before `rl_crunch` -/
macro "rl_norm" : tactic =>
  `(tactic| ((try simp only [lenI_ne0, lenI_eq0, lenI_gt0, lenI_lt1, deleteRow_eq, npSetRow]);
             (try simp only [lenI, eBind, bind, Except.bind, pure, Except.pure])))

/-! ### one iteration of the hand-written loops -/

/-- the body of `Rd.oscarLoop` for a line that was read -/
def oscarStep (fmt : Fmt) (attrs : List String) (filt : Option EvFilter) (firstLabel : Int) (first : Bool)
    (lineNo : Nat) (l : LineF) (st : LoopSt) : Except Err LoopSt :=
  if first && !l.hasHash && !l.hasOut then .error .value
  else if l.hasEvent && (l.hasOut || l.hasInSp || l.hasStart) then .ok st
  else if l.hasHash && l.hasEnd then closeEvent st filt firstLabel
  else if l.hasHash then .error .value
  else if !colsOk fmt l.toks.length then .error .value
  else if !fieldsOk (colKinds fmt attrs l.toks.length) l.toks then .error .value
  else .ok { st with data := st.data ++ [⟨lineNo, l.toks⟩] }

theorem oscarLoop_eq_lineLoop (fmt : Fmt) (attrs : List String) (filt : Option EvFilter) (fl : Int) :
    ∀ (n lineNo : Nat) (first : Bool) (lines : List LineF) (st : LoopSt),
      oscarLoop fmt attrs filt fl n lineNo first lines st
        = lineLoop .index (oscarStep fmt attrs filt fl) n lineNo first lines st := by
  intro n
  induction n with
  | zero => intro lineNo first lines st; rfl
  | succ n ih =>
    intro lineNo first lines st
    cases lines with
    | nil => rfl
    | cons l ls =>
      simp only [oscarLoop, lineLoop, oscarStep, ih]
      split
      · rfl
      · split
        · rfl
        · split
          · simp only [bind, Except.bind]
            cases closeEvent st filt fl <;> rfl
          · split
            · rfl
            · split
              · rfl
              · split <;> rfl

/-- the body of `Rd.jetscapeLoop` for a line that was read -/
def jetscapeStep (filt : Option EvFilter) (firstLabel firstHeader : Int) (first : Bool) (lineNo : Nat) (l : LineF)
    (st : LoopSt) : Except Err LoopSt :=
  if l.hasHash && l.hasSigma then closeEvent st filt firstLabel
  else if first && !l.hasHash && !l.hasWeight then .error .value
  else if l.hasEventCap && l.hasWeight then
    match l.toksTab[2]? with
    | none => .error .index
    | some t =>
      match pyInt? t with
      | none => .error .value
      | some e => if e == firstHeader then .ok st else closeEvent st filt firstLabel
  else if l.toksTab.length != 7 then .error .value
  else if !fieldsOk [false, false, false, true, true, true, true] l.toksTab then .error .value
  else .ok { st with data := st.data ++ [⟨lineNo, l.toksTab⟩] }

theorem jetscapeLoop_eq_lineLoop (filt : Option EvFilter) (fl fh : Int) :
    ∀ (n lineNo : Nat) (first : Bool) (lines : List LineF) (st : LoopSt),
      jetscapeLoop filt fl fh n lineNo first lines st
        = lineLoop .index (jetscapeStep filt fl fh) n lineNo first lines st := by
  intro n
  induction n with
  | zero => intro lineNo first lines st; rfl
  | succ n ih =>
    intro lineNo first lines st
    cases lines with
    | nil => rfl
    | cons l ls =>
      simp only [jetscapeLoop, lineLoop, jetscapeStep, ih]
      split
      · simp only [bind, Except.bind]
        cases closeEvent st filt fl <;> rfl
      · split
        · rfl
        · split
          · cases l.toksTab[2]? with
            | none => rfl
            | some t =>
              dsimp only
              cases pyInt? t with
              | none => rfl
              | some e =>
                dsimp only
                split
                · rfl
                · simp only [bind, Except.bind]
                  cases closeEvent st filt fl <;> rfl
          · split
            · rfl
            · split <;> rfl

/-! ### the generated `finish the event` blocks -/

theorem map_eBind {α β γ : Type} (x : Except Err α) (k : α → Except Err β) (g : β → γ) :
    (eBind x k).map g = eBind x (fun a => (k a).map g) := by cases x <;> rfl
theorem map_ite {β γ : Type} (c : Prop) [Decidable c] (a b : Except Err β) (g : β → γ) :
    (if c then a else b).map g = if c then a.map g else b.map g := by split <;> rfl
theorem map_ok {β γ : Type} (a : β) (g : β → γ) : (Except.ok a : Except Err β).map g = .ok (g a) := rfl
theorem map_error {β γ : Type} (e : Err) (g : β → γ) : (Except.error e : Except Err β).map g = .error e := rfl

theorem genOscarClose1_eq (fmt : Fmt) (attrs : List String) (filt : Option EvFilter) (fl : Int) (first : Bool)
    (lineNo : Nat) (l : LineF) (st : LoopSt) :
    genOscarClose1 fmt attrs filt fl first lineNo l st = closeEvent st filt fl := by
  unfold genOscarClose1 closeEvent
  rl_norm
  rl_crunch

theorem genJetscapeClose2_eq (filt : Option EvFilter) (fl fh : Int) (first : Bool) (lineNo : Nat) (l : LineF)
    (st : LoopSt) :
    genJetscapeClose2 filt fl fh first lineNo l st = closeEvent st filt fl := by
  unfold genJetscapeClose2 closeEvent
  rl_norm
  rl_crunch

/-- the block of the trailer line keeps the (filtered) `data`; everything else is `closeEvent` -/
theorem genJetscapeClose1_clear (filt : Option EvFilter) (fl fh : Int) (first : Bool) (lineNo : Nat) (l : LineF)
    (st : LoopSt) :
    (genJetscapeClose1 filt fl fh first lineNo l st).map clearData = closeEvent st filt fl := by
  unfold genJetscapeClose1 closeEvent
  cases filt <;> simp only [map_eBind, map_ite, map_ok, clearData] <;> rl_norm <;> rl_crunch

theorem closeEvent_clear (st : LoopSt) (filt : Option EvFilter) (fl : Int) :
    (closeEvent st filt fl).map clearData = closeEvent st filt fl := by
  have h : ∀ x : Except Err LoopSt, (∀ a, x = .ok a → a.data = []) → x.map clearData = x := by
    intro x hx
    cases x with
    | error e => rfl
    | ok a =>
      have := hx a rfl
      cases a
      simp only [Except.map, clearData] at this ⊢
      rw [this]
  apply h
  intro a
  unfold closeEvent
  simp only [bind, Except.bind, pure, Except.pure]
  rl_crunch

/-! ### the generated iterations and loops -/

/-- the column kinds of the fixed formats do not depend on the ASCII attribute list -/
def stdKinds (fmt : Fmt) (n : Nat) : List Bool := colKinds fmt [] n
theorem colKinds_oscar2013 (a : List String) (n : Nat) : colKinds .oscar2013 a n = stdKinds .oscar2013 n := rfl
theorem colKinds_extended (a : List String) (n : Nat) : colKinds .extended a n = stdKinds .extended n := rfl
theorem colKinds_extendedIC (a : List String) (n : Nat) : colKinds .extendedIC a n = stdKinds .extendedIC n := rfl
theorem colKinds_extendedPhotons (a : List String) (n : Nat) :
    colKinds .extendedPhotons a n = stdKinds .extendedPhotons n := rfl

theorem genOscarStep_eq (fmt : Fmt) (attrs : List String) (filt : Option EvFilter) (fl : Int) (first : Bool)
    (lineNo : Nat) (l : LineF) (st : LoopSt) :
    genOscarStep fmt attrs filt fl first lineNo l st = oscarStep fmt attrs filt fl first lineNo l st := by
  unfold genOscarStep oscarStep
  simp only [genOscarClose1_eq, mkPart]
  cases fmt <;>
    (try simp only [colKinds_oscar2013, colKinds_extended, colKinds_extendedIC, colKinds_extendedPhotons]) <;>
    rl_norm <;> rl_crunch

theorem lineLoop_congr (e : Err) (s1 s2 : Bool → Nat → LineF → LoopSt → Except Err LoopSt)
    (h : ∀ first lineNo l st, s1 first lineNo l st = s2 first lineNo l st) :
    lineLoop e s1 = lineLoop e s2 := by
  have : s1 = s2 := by funext a b c d; exact h a b c d
  rw [this]

/-- **the generated Oscar line loop is the loop of the shared reader model** -/
theorem genOscarLoop_eq (fmt : Fmt) (attrs : List String) (filt : Option EvFilter) (fl : Int) (n lineNo : Nat)
    (first : Bool) (lines : List LineF) (st : LoopSt) :
    genOscarLoop fmt attrs filt fl n lineNo first lines st = oscarLoop fmt attrs filt fl n lineNo first lines st := by
  rw [oscarLoop_eq_lineLoop]
  unfold genOscarLoop
  have he : genOscarEof = Err.index := rfl
  rw [he, lineLoop_congr _ _ _ (genOscarStep_eq fmt attrs filt fl)]

/-- on every line that is not a trailer line the generated JETSCAPE iteration is the model's -/
theorem genJetscapeStep_eq (filt : Option EvFilter) (fl fh : Int) (first : Bool) (lineNo : Nat) (l : LineF)
    (st : LoopSt) (h : isTrailer l = false) :
    genJetscapeStep filt fl fh first lineNo l st = jetscapeStep filt fl fh first lineNo l st := by
  unfold isTrailer at h
  unfold genJetscapeStep jetscapeStep
  simp only [genJetscapeClose2_eq, mkPartJ, pyTokInt, h]
  rl_norm
  rl_crunch

/-- on a trailer line they agree up to the pending `data` -/
theorem genJetscapeStep_trailer (filt : Option EvFilter) (fl fh : Int) (first : Bool) (lineNo : Nat) (l : LineF)
    (st : LoopSt) (h : isTrailer l = true) :
    (genJetscapeStep filt fl fh first lineNo l st).map clearData = jetscapeStep filt fl fh first lineNo l st := by
  simp only [isTrailer, Bool.and_eq_true] at h
  obtain ⟨h1, h2⟩ := h
  unfold genJetscapeStep jetscapeStep
  simp [h1, h2, genJetscapeClose1_clear]

theorem jetscapeStep_trailer_clear (filt : Option EvFilter) (fl fh : Int) (first : Bool) (lineNo : Nat) (l : LineF)
    (st : LoopSt) (h : isTrailer l = true) :
    (jetscapeStep filt fl fh first lineNo l st).map clearData = jetscapeStep filt fl fh first lineNo l st := by
  simp only [isTrailer, Bool.and_eq_true] at h
  obtain ⟨h1, h2⟩ := h
  unfold jetscapeStep
  simp [h1, h2, closeEvent_clear]

theorem trailerLastB_tail {l : LineF} {ls : List LineF} (h : trailerLastB (l :: ls) = true) :
    trailerLastB ls = true := by
  simp only [trailerLastB, Bool.and_eq_true] at h
  exact h.2

theorem trailerLastB_drop (k : Nat) : ∀ (ls : List LineF), trailerLastB ls = true → trailerLastB (ls.drop k) = true := by
  induction k with
  | zero => intro ls h; simpa using h
  | succ k ih =>
    intro ls h
    cases ls with
    | nil => simpa using h
    | cons l t => simpa using ih t (trailerLastB_tail h)

/-- **the generated JETSCAPE line loop against the loop of the shared reader model**: on every input in which no line
follows a trailer line the two loops raise the same exception or end in states that differ at most in the pending `data`
(the source keeps the filtered particles of the last event there, the model clears them; nothing after the loop reads it) -/
theorem genJetscapeLoop_eq (filt : Option EvFilter) (fl fh : Int) :
    ∀ (n lineNo : Nat) (first : Bool) (lines : List LineF) (st : LoopSt), trailerLastB lines = true →
      (genJetscapeLoop filt fl fh n lineNo first lines st).map clearData
        = (jetscapeLoop filt fl fh n lineNo first lines st).map clearData := by
  intro n
  induction n with
  | zero => intro lineNo first lines st _; rfl
  | succ n ih =>
    intro lineNo first lines st htl
    rw [jetscapeLoop_eq_lineLoop]
    unfold genJetscapeLoop
    have he : genJetscapeEof = Err.index := rfl
    rw [he]
    cases lines with
    | nil => rfl
    | cons l ls =>
      simp only [lineLoop]
      cases ht : isTrailer l with
      | false =>
        rw [genJetscapeStep_eq filt fl fh first lineNo l st ht]
        cases jetscapeStep filt fl fh first lineNo l st with
        | error e => rfl
        | ok st' =>
          simp only [eBind_ok']
          have := ih (lineNo + 1) false ls st' (trailerLastB_tail htl)
          rw [jetscapeLoop_eq_lineLoop] at this
          unfold genJetscapeLoop at this
          rw [he] at this
          exact this
      | true =>
        have hls : ls = [] := by
          simp only [trailerLastB, ht, Bool.and_eq_true, Bool.not_true, Bool.false_or] at htl
          cases ls with
          | nil => rfl
          | cons a t => simp at htl
        subst hls
        have h1 := genJetscapeStep_trailer filt fl fh first lineNo l st ht
        have h2 := jetscapeStep_trailer_clear filt fl fh first lineNo l st ht
        cases hg : genJetscapeStep filt fl fh first lineNo l st with
        | error e =>
          rw [hg] at h1
          cases hj : jetscapeStep filt fl fh first lineNo l st with
          | error e' => rw [hj] at h1; simp only [Except.map] at h1; cases h1; rfl
          | ok s => rw [hj] at h1; simp only [Except.map] at h1; cases h1
        | ok sg =>
          rw [hg] at h1
          cases hj : jetscapeStep filt fl fh first lineNo l st with
          | error e' => rw [hj] at h1; simp only [Except.map] at h1; cases h1
          | ok s =>
            rw [hj] at h1 h2
            simp only [Except.map, Except.ok.injEq] at h1 h2
            simp only [eBind_ok']
            cases n with
            | zero => simp only [lineLoop, Except.map, h1, h2]
            | succ m => rfl

/-! ### start state, final check, `set_num_events` -/

theorem genOscarInit_eq (rowsSel : List (Int × Int)) : genOscarInit rowsSel = ⟨[], [], .arr2d rowsSel, 0⟩ := rfl
theorem genJetscapeInit_eq (rowsSel : List (Int × Int)) : genJetscapeInit rowsSel = ⟨[], [], .arr2d rowsSel, 0⟩ := rfl

theorem genOscarFinish_eq (st : LoopSt) (ne : Int) (sel : Sel) : genOscarFinish st ne sel = finish st ne sel := by
  unfold genOscarFinish finish
  cases sel <;> rl_norm <;> rl_crunch

theorem genJetscapeFinish_eq (st : LoopSt) (ne : Int) (sel : Sel) : genJetscapeFinish st ne sel = finish st ne sel := by
  unfold genJetscapeFinish finish
  cases sel <;> rl_norm <;> rl_crunch

theorem finish_clear (st : LoopSt) (ne : Int) (sel : Sel) : finish (clearData st) ne sel = finish st ne sel := rfl

theorem genOscarNumEvents_eq (f : FileF) : genOscarNumEvents f = oscarNumEvents f := by
  unfold genOscarNumEvents oscarNumEvents genOscarNumEventsLine pyTokInt
  rl_norm
  rl_crunch

/-! ### the readers built from the parts -/

theorem genOscarParts_eq : genOscarParts = coreOscarParts := by
  unfold genOscarParts coreOscarParts
  congr 1
  · funext f; exact genOscarNumEvents_eq f
  · funext fmt attrs filt fl n lineNo first lines st; exact genOscarLoop_eq fmt attrs filt fl n lineNo first lines st
  · funext st ne sel; exact genOscarFinish_eq st ne sel

theorem readOscarParts_core (P : SelArith) (f : FileF) (sel : Sel) (filt : Option EvFilter) :
    readOscarParts P coreOscarParts f sel filt = readOscarWith P f sel filt := rfl

/-- the Oscar reader built from the generated loop parts is the reader built from the hand-written loop, whatever the
selection arithmetic -/
theorem readOscarParts_gen (P : SelArith) (f : FileF) (sel : Sel) (filt : Option EvFilter) :
    readOscarParts P genOscarParts f sel filt = readOscarWith P f sel filt := by
  rw [genOscarParts_eq, readOscarParts_core]

theorem readJetscapeParts_core (P : SelArith) (f : FileF) (sel : Sel) (partons : Bool) (filt : Option EvFilter) :
    readJetscapeParts P coreJetscapeParts f sel partons filt = readJetscapeWith P f sel partons filt := rfl

theorem map_clear_cases {x y : Except Err LoopSt} (h : x.map clearData = y.map clearData) :
    (∃ e, x = .error e ∧ y = .error e) ∨ (∃ a b, x = .ok a ∧ y = .ok b ∧ clearData a = clearData b) := by
  cases x with
  | error e =>
    cases y with
    | error e' => simp only [Except.map] at h; cases h; exact .inl ⟨e, rfl, rfl⟩
    | ok b => simp only [Except.map] at h; cases h
  | ok a =>
    cases y with
    | error e' => simp only [Except.map] at h; cases h
    | ok b => simp only [Except.map, Except.ok.injEq] at h; exact .inr ⟨a, b, rfl, rfl, h⟩

/-- the JETSCAPE reader built from the generated loop parts, on files in which no line follows a trailer line -/
theorem readJetscapeParts_gen (P : SelArith) (f : FileF) (sel : Sel) (partons : Bool) (filt : Option EvFilter)
    (h : trailerLastB f.lines = true) :
    readJetscapeParts P genJetscapeParts f sel partons filt = readJetscapeWith P f sel partons filt := by
  unfold readJetscapeParts readJetscapeWith genJetscapeParts
  simp only [bind, Except.bind, pure, Except.pure]
  cases jetscapeInitOk f with
  | error e => rfl
  | ok u =>
    dsimp only
    cases P.valid sel with
    | error e => rfl
    | ok u =>
      dsimp only
      cases jetscapeScan partons f.lines with
      | error e => rfl
      | ok rows =>
        dsimp only
        cases P.skip rows sel with
        | error e => rfl
        | ok skip =>
          dsimp only
          cases P.nread rows sel with
          | error e => rfl
          | ok nread =>
            dsimp only
            split
            · rfl
            · cases P.firstHeader sel with
              | error e => rfl
              | ok fh =>
                dsimp only
                cases P.prelude rows (↑rows.length) sel with
                | error e => rfl
                | ok pr =>
                  obtain ⟨rowsSel, neSel, fl⟩ := pr
                  dsimp only
                  have hl := genJetscapeLoop_eq filt fl fh nread.toNat skip.toNat true (f.lines.drop skip.toNat)
                    ⟨[], [], .arr2d rowsSel, 0⟩ (trailerLastB_drop _ _ h)
                  rw [genJetscapeInit_eq]
                  rcases map_clear_cases hl with ⟨e, h1, h2⟩ | ⟨a, b, h1, h2, h3⟩
                  · rw [h1, h2]
                  · rw [h1, h2]
                    dsimp only
                    rw [genJetscapeFinish_eq, ← finish_clear a, h3, finish_clear]

end SparkxVerif.RdLoop
