/-
Helper lemmas for C10: every operation of the Histogram model keeps the shape invariant, keeps the
edges strictly increasing, and succeeds on admissible arguments.  No property statements here.
-/
import SparkxVerif.Lemmas.Histogram
import Mathlib.Tactic.SplitIfs
import Mathlib.Algebra.Order.BigOperators.Group.List

set_option linter.unusedSectionVars false
set_option linter.unusedSimpArgs false

namespace SparkxVerif.Hist

section field
variable {K : Type} [Field K] [LinearOrder K] [IsStrictOrderedRing K]

/-! ### shapes of the averaging helpers -/

theorem ncols_of_rowsOK {h n : Nat} {a : List (List K)} (ha : RowsOK h n a) (hh : 1 ≤ h) : ncols a = n := by
  unfold ncols
  cases a with
  | nil => exact absurd rfl (ha.ne_nil hh)
  | cons r rs => simpa using ha.2 r (by simp)

theorem wavgCols_length (W a : List (List K)) : (wavgCols W a).length = ncols a := by
  simp [wavgCols]

theorem colSums_length (a : List (List K)) : (colSums a).length = ncols a := by
  simp [colSums]

theorem headD_length {h n : Nat} {a : List (List K)} (ha : RowsOK h n a) (hh : 1 ≤ h) :
    (a.headD []).length = n := by
  cases a with
  | nil => exact absurd rfl (ha.ne_nil hh)
  | cons r rs => simpa using ha.2 r (by simp)

/-! ### fills keep the shape (no order assumption needed) -/

theorem foldl_fillCore_shape (xs : List K) {s : State K} (hs : Shape s) (w : K) :
    Shape (xs.foldl (fun s v => fillCore s v w) s) := by
  induction xs generalizing s with
  | nil => exact hs
  | cons x xs ih => exact ih (fillCore_shape hs x w)

theorem fillSeq_shape (ps : List (K × Option K)) {s : State K} (hs : Shape s) : Shape (fillSeq s ps).1 := by
  induction ps generalizing s with
  | nil => exact hs
  | cons p ps ih =>
    obtain ⟨v, w⟩ := p
    cases w with
    | none => exact hs
    | some w => exact ih (fillCore_shape hs v w)

theorem fill_shape {s : State K} (hs : Shape s) (v : Option K) (w : Option (Option K)) :
    Shape (fill s v w).1 := by
  cases v with
  | none =>
    have e : fill s none w = (s, some .value) := by
      cases w with
      | none => rfl
      | some w => cases w <;> rfl
    rw [e]; exact hs
  | some v =>
    cases w with
    | none => exact fillCore_shape hs v one
    | some w =>
      cases w with
      | none => exact hs
      | some w => exact fillCore_shape hs v w

theorem fillList_shape {s : State K} (hs : Shape s) (vs : List (Option K)) (w : WArg K) :
    Shape (fillList s vs w).1 := by
  cases w with
  | none =>
    simp only [fillList]
    rcases allSome_eq_none_or vs with h | ⟨xs, h⟩
    · rw [h]; exact hs
    · rw [h]; exact foldl_fillCore_shape xs hs one
  | scalar w => exact hs
  | list ws =>
    simp only [fillList]
    by_cases hl : ws.length ≠ vs.length
    · rw [if_pos hl]; exact hs
    · rw [if_neg hl]
      rcases allSome_eq_none_or vs with h | ⟨xs, h⟩
      · rw [h]; exact hs
      · rw [h]; exact fillSeq_shape _ hs

theorem makeDensity_shape (sqrt : K → K) {s : State K} (hs : Shape s) : Shape (makeDensity sqrt s).1 := by
  unfold makeDensity
  simp only [statErr_eq sqrt hs]
  have hs1 := statErr_shape sqrt hs
  rw [statErr_eq sqrt hs] at hs1
  split
  · exact hs
  · split
    · exact hs
    · split
      · exact hs
      · exact (scaleList_cstep hs1 _).shape

theorem setErr_shape {s : State K} (hs : Shape s) (es : List K) : Shape (setErr s es).1 := by
  unfold setErr
  split
  · exact hs
  · rename_i hl
    split
    · exact hs
    · split
      · exact hs
      · exact { nh := hs.nh, edges := hs.edges, hist := hs.hist, raw := hs.raw,
                err := hs.err.modifyLast _ (fun _ _ => not_not.mp hl), scal := hs.scal, sys := hs.sys }

theorem setSys_shape {s : State K} (hs : Shape s) (es : List K) : Shape (setSys s es).1 := by
  unfold setSys
  split
  · exact hs
  · rename_i hl
    split
    · exact hs
    · split
      · exact hs
      · exact { nh := hs.nh, edges := hs.edges, hist := hs.hist, raw := hs.raw,
                sys := hs.sys.modifyLast _ (fun _ _ => not_not.mp hl), scal := hs.scal, err := hs.err }

theorem removeBin_shape {s : State K} (hs : Shape s) (i : Int) : Shape (removeBin s i).1 := by
  unfold removeBin
  split
  · exact hs
  · rename_i hi
    simp only
    split
    · exact hs
    · have hk : i.toNat < s.nBins := by omega
      have hf : ∀ r : List K, r.length = s.nBins → (r.eraseIdx i.toNat).length = s.nBins - 1 := by
        intro r hr; rw [List.length_eraseIdx, if_pos (by omega), hr]
      exact { nh := hs.nh,
              edges := by
                show (s.edges.eraseIdx i.toNat).length = s.nBins - 1 + 1
                rw [List.length_eraseIdx, if_pos (by rw [hs.edges]; omega), hs.edges]; omega
              hist := hs.hist.map _ hf, raw := hs.raw.map _ hf, err := hs.err.map _ hf,
              scal := hs.scal.map _ hf, sys := hs.sys.map _ hf }

theorem addBin_shape {s : State K} (hs : Shape s) (i : Int) (e : K) : Shape (addBin s i e).1 := by
  unfold addBin
  simp only
  split_ifs with hi h2 h3 h4
  · exact hs
  · exact hs
  · exact hs
  · exact hs
  · have hk : i.toNat ≤ s.nBins := by have := hs.edges; omega
    have hf : ∀ (x : K) (r : List K), r.length = s.nBins → (r.insertIdx i.toNat x).length = s.nBins + 1 := by
      intro x r hr; rw [List.length_insertIdx, if_pos (by omega), hr]
    exact { nh := hs.nh,
            edges := by
              show (s.edges.insertIdx i.toNat e).length = s.nBins + 1 + 1
              rw [List.length_insertIdx, if_pos (by rw [hs.edges]; omega), hs.edges]
            hist := hs.hist.map _ (hf _), raw := hs.raw.map _ (hf _), err := hs.err.map _ (hf _),
            scal := hs.scal.map _ (hf _), sys := hs.sys.map _ (hf _) }

theorem ncols_map_zipWith {h n : Nat} {a : List (List K)} (ha : RowsOK h n a) (hh : 1 ≤ h)
    (f : K → K → K) (avg : List K) (havg : avg.length = n) :
    ncols (a.map (fun r => List.zipWith f r avg)) = n := by
  cases a with
  | nil => exact absurd rfl (ha.ne_nil hh)
  | cons r rs =>
    have := ha.2 r (by simp)
    simp [ncols, this, havg]

theorem ncols_map_map {h n : Nat} {a : List (List K)} (ha : RowsOK h n a) (hh : 1 ≤ h) (f : K → K) :
    ncols (a.map (fun r => r.map f)) = n := by
  cases a with
  | nil => exact absurd rfl (ha.ne_nil hh)
  | cons r rs =>
    have := ha.2 r (by simp)
    simp [ncols, this]

theorem averageW_shape (sqrt : K → K) {s : State K} (hs : Shape s) (ws : List K) :
    Shape (averageW sqrt s ws).1 := by
  unfold averageW
  split
  · exact hs
  · split
    · exact hs
    · split
      · exact hs
      · have hn := ncols_of_rowsOK hs.hist hs.nh
        exact { nh := le_refl 1, edges := hs.edges,
                hist := RowsOK.single _ (by rw [wavgCols_length, hn]),
                err := RowsOK.single _ (by
                  rw [List.length_map, wavgCols_length]
                  exact ncols_map_zipWith hs.hist hs.nh _ _ (by rw [wavgCols_length, hn])),
                sys := RowsOK.single _ (by
                  rw [List.length_map, wavgCols_length]; exact ncols_map_map hs.sys hs.nh _),
                raw := RowsOK.single _ (by rw [colSums_length]; exact ncols_of_rowsOK hs.raw hs.nh),
                scal := RowsOK.single _ (headD_length hs.scal hs.nh) }

theorem averageByErr_shape (sqrt : K → K) {s : State K} (hs : Shape s) : Shape (averageByErr sqrt s).1 := by
  unfold averageByErr
  split
  · exact hs
  · split
    · exact hs
    · simp only
      split
      · exact hs
      · have hn := ncols_of_rowsOK hs.hist hs.nh
        exact { nh := le_refl 1, edges := hs.edges,
                hist := RowsOK.single _ (by rw [wavgCols_length, hn]),
                err := RowsOK.single _ (by
                  rw [List.length_map, colSums_length]; exact ncols_map_map hs.err hs.nh _),
                sys := RowsOK.single _ (by
                  rw [List.length_map, wavgCols_length]; exact ncols_map_map hs.sys hs.nh _),
                raw := RowsOK.single _ (by rw [colSums_length]; exact ncols_of_rowsOK hs.raw hs.nh),
                scal := RowsOK.single _ (headD_length hs.scal hs.nh) }

/-- every operation keeps the shape invariant, whether it succeeds or raises -/
theorem step_shape (sqrt : K → K) {s : State K} (hs : Shape s) (op : Op K) : Shape (step sqrt s op).1 := by
  cases op with
  | fill v w => exact fill_shape hs v w
  | fillList vs w => exact fillList_shape hs vs w
  | addHist => exact addHist_shape hs
  | scale c => exact (scale_cstep hs c).shape
  | scaleList cs => exact (scaleList_cstep hs cs).shape
  | statErr => exact statErr_shape sqrt hs
  | makeDensity => exact makeDensity_shape sqrt hs
  | setErr es => exact setErr_shape hs es
  | setSys es => exact setSys_shape hs es
  | addBin i e => exact addBin_shape hs i e
  | removeBin i => exact removeBin_shape hs i
  | average => exact averageW_shape sqrt hs _
  | averageW ws => exact averageW_shape sqrt hs ws
  | averageByErr => exact averageByErr_shape sqrt hs

theorem run_shape (sqrt : K → K) (ops : List (Op K)) {s : State K} (hs : Shape s) : Shape (run sqrt s ops) := by
  induction ops generalizing s with
  | nil => exact hs
  | cons op rest ih => rw [run_cons]; exact ih (step_shape sqrt hs op)

/-! ### the edges stay strictly increasing -/

theorem pairwise_insertIdx (l : List K) (hs : l.Pairwise (· < ·)) (k : Nat) (e : K)
    (hlo : ∀ x, 0 < k → l[k - 1]? = some x → x < e) (hhi : ∀ x, l[k]? = some x → e < x) :
    (l.insertIdx k e).Pairwise (· < ·) := by
  induction l generalizing k with
  | nil =>
    cases k with
    | zero => simp
    | succ k => simp
  | cons x xs ih =>
    cases k with
    | zero =>
      rw [List.insertIdx_zero, List.pairwise_cons]
      refine ⟨?_, hs⟩
      have hx : e < x := hhi x (by simp)
      intro a ha
      rcases List.mem_cons.mp ha with rfl | ha'
      · exact hx
      · exact lt_trans hx ((List.pairwise_cons.mp hs).1 a ha')
    | succ k =>
      rw [List.insertIdx_succ_cons, List.pairwise_cons]
      obtain ⟨hx, hxs⟩ := List.pairwise_cons.mp hs
      refine ⟨?_, ih hxs k ?_ ?_⟩
      · intro a ha
        by_cases hk : k ≤ xs.length
        · rcases (List.mem_insertIdx hk).mp ha with rfl | ha'
          · cases k with
            | zero => exact hlo x (by omega) (by simp)
            | succ k =>
              have hk' : k < xs.length := by omega
              have h1 : x < xs[k] := hx _ (List.getElem_mem _)
              have h2 : xs[k] < a := hlo xs[k] (by omega) (by simp [List.getElem?_eq_getElem hk'])
              exact lt_trans h1 h2
          · exact hx a ha'
        · rw [List.insertIdx_of_length_lt (by omega)] at ha
          exact hx a ha
      · intro y hk hy
        apply hlo y (by omega)
        have : k + 1 - 1 = (k - 1) + 1 := by omega
        rw [this, List.getElem?_cons_succ]; exact hy
      · intro y hy
        exact hhi y (by rw [List.getElem?_cons_succ]; exact hy)

theorem addBin_sorted {s : State K} (hsort : s.edges.Pairwise (· < ·)) (i : Int) (e : K) :
    (addBin s i e).1.edges.Pairwise (· < ·) := by
  unfold addBin
  simp only
  split_ifs with hi h2 h3 h4
  · exact hsort
  · exact hsort
  · exact hsort
  · exact hsort
  · apply pairwise_insertIdx _ hsort
    · intro x hk hx
      by_contra hge
      apply h2
      simp [hk, hx, not_lt.mp hge]
    · intro x hx
      by_contra hge
      apply h3
      simp [hx, not_lt.mp hge]

theorem removeBin_sorted {s : State K} (hsort : s.edges.Pairwise (· < ·)) (i : Int) :
    (removeBin s i).1.edges.Pairwise (· < ·) := by
  unfold removeBin
  simp only
  split_ifs
  · exact hsort
  · exact hsort
  · exact hsort.sublist (List.eraseIdx_sublist _ _)

theorem foldl_fillCore_edges (xs : List K) (s : State K) (w : K) :
    (xs.foldl (fun s v => fillCore s v w) s).edges = s.edges := by
  induction xs generalizing s with
  | nil => rfl
  | cons x xs ih => rw [List.foldl_cons, ih, (fillCore_frame s x w).1]

theorem fillSeq_edges (ps : List (K × Option K)) (s : State K) : (fillSeq s ps).1.edges = s.edges := by
  induction ps generalizing s with
  | nil => rfl
  | cons p ps ih =>
    obtain ⟨v, w⟩ := p
    cases w with
    | none => rfl
    | some w => simp only [fillSeq]; rw [ih, (fillCore_frame s v w).1]

theorem scaleList_edges (s : State K) (cs : List K) : (scaleList s cs).1.edges = s.edges := by
  unfold scaleList; split_ifs <;> rfl

theorem statErr_edges (sqrt : K → K) (s : State K) : (statErr sqrt s).1.edges = s.edges := by
  unfold statErr; split_ifs <;> rfl

/-- every operation keeps the edges strictly increasing -/
theorem step_sorted (sqrt : K → K) {s : State K} (hsort : s.edges.Pairwise (· < ·)) (op : Op K) :
    (step sqrt s op).1.edges.Pairwise (· < ·) := by
  cases op with
  | fill v w =>
    have : (fill s v w).1.edges = s.edges := by
      cases v with
      | none =>
        cases w with
        | none => rfl
        | some w => cases w <;> rfl
      | some v =>
        cases w with
        | none => exact (fillCore_frame s v one).1
        | some w =>
          cases w with
          | none => rfl
          | some w => exact (fillCore_frame s v w).1
    simp only [step]; rw [this]; exact hsort
  | fillList vs w =>
    have : (fillList s vs w).1.edges = s.edges := by
      cases w with
      | none =>
        simp only [fillList]
        rcases allSome_eq_none_or vs with h | ⟨xs, h⟩
        · rw [h]
        · rw [h]; exact foldl_fillCore_edges xs s one
      | scalar w => rfl
      | list ws =>
        simp only [fillList]
        split_ifs
        · rfl
        · rcases allSome_eq_none_or vs with h | ⟨xs, h⟩
          · rw [h]
          · rw [h]; exact fillSeq_edges _ s
    simp only [step]; rw [this]; exact hsort
  | addHist =>
    have : (addHist s).1.edges = s.edges := by unfold addHist; split_ifs <;> rfl
    simp only [step]; rw [this]; exact hsort
  | scale c =>
    have : (scale s c).1.edges = s.edges := by unfold scale; split_ifs <;> rfl
    simp only [step]; rw [this]; exact hsort
  | scaleList cs => simp only [step]; rw [scaleList_edges]; exact hsort
  | statErr => simp only [step]; rw [statErr_edges]; exact hsort
  | makeDensity =>
    have : (makeDensity sqrt s).1.edges = s.edges := by
      unfold makeDensity
      simp only
      split_ifs
      · rfl
      · rfl
      · rfl
      · have h1 := statErr_edges sqrt s
        generalize statErr sqrt s = r at h1 ⊢
        obtain ⟨s1, e1⟩ := r
        cases e1 with
        | some e => exact h1
        | none => simp only; rw [scaleList_edges]; exact h1
    simp only [step]; rw [this]; exact hsort
  | setErr es =>
    have : (setErr s es).1.edges = s.edges := by unfold setErr; split_ifs <;> rfl
    simp only [step]; rw [this]; exact hsort
  | setSys es =>
    have : (setSys s es).1.edges = s.edges := by unfold setSys; split_ifs <;> rfl
    simp only [step]; rw [this]; exact hsort
  | addBin i e => exact addBin_sorted hsort i e
  | removeBin i => exact removeBin_sorted hsort i
  | average =>
    have : (averageW sqrt s (List.replicate s.nHist one)).1.edges = s.edges := by
      unfold averageW; split_ifs <;> rfl
    simp only [step]; rw [this]; exact hsort
  | averageW ws =>
    have : (averageW sqrt s ws).1.edges = s.edges := by unfold averageW; split_ifs <;> rfl
    simp only [step]; rw [this]; exact hsort
  | averageByErr =>
    have : (averageByErr sqrt s).1.edges = s.edges := by unfold averageByErr; simp only; split_ifs <;> rfl
    simp only [step]; rw [this]; exact hsort

theorem run_sorted (sqrt : K → K) (ops : List (Op K)) {s : State K} (hsort : s.edges.Pairwise (· < ·)) :
    (run sqrt s ops).edges.Pairwise (· < ·) := by
  induction ops generalizing s with
  | nil => exact hsort
  | cons op rest ih => rw [run_cons]; exact ih (step_sorted sqrt hsort op)

/-! ### admissible calls succeed on well-shaped states -/

/-- the arguments pass the method's own validation (what the property's quantifier ranges over) -/
def Admissible (s : State K) : Op K → Prop
  | .fill v w => v ≠ none ∧ w ≠ some none
  | .fillList vs w => none ∉ vs ∧ (w = .none ∨ ∃ ws, w = .list ws ∧ ws.length = vs.length ∧ none ∉ ws)
  | .addHist => True
  | .scale c => 0 ≤ c
  | .scaleList cs => cs.length = s.nBins ∧ ∀ c ∈ cs, 0 ≤ c
  | .statErr => True
  | .makeDensity => s.edges.Pairwise (· < ·) ∧ 0 < (lastRow s.hist).sum
  | .setErr es => es.length = s.nBins
  | .setSys es => es.length = s.nBins
  | .addBin i e => 0 ≤ i ∧ i ≤ (s.nBins : Int) ∧
      (0 < i → ∀ x, s.edges[i.toNat - 1]? = some x → x < e) ∧ (∀ x, s.edges[i.toNat]? = some x → e < x)
  | .removeBin i => 0 ≤ i ∧ i < (s.nBins : Int)
  | .average => True
  | .averageW ws => ws.length = s.nHist ∧ ws.sum ≠ 0
  | .averageByErr => ∀ r ∈ s.err, ∀ e ∈ r, e ≠ 0

theorem allSome_of_not_mem {β : Type} (vs : List (Option β)) (h : none ∉ vs) : ∃ xs, allSome vs = some xs ∧ xs.length = vs.length := by
  induction vs with
  | nil => exact ⟨[], rfl, rfl⟩
  | cons v vs ih =>
    cases v with
    | none => simp at h
    | some x =>
      obtain ⟨xs, hx, hl⟩ := ih (by intro hm; exact h (List.mem_cons_of_mem _ hm))
      exact ⟨x :: xs, by simp [allSome, hx], by simp [hl]⟩

theorem fillSeq_ok (ps : List (K × Option K)) (s : State K) (h : ∀ p ∈ ps, p.2 ≠ none) : (fillSeq s ps).2 = none := by
  induction ps generalizing s with
  | nil => rfl
  | cons p ps ih =>
    obtain ⟨v, w⟩ := p
    cases w with
    | none => exact absurd rfl (h (v, none) (by simp))
    | some w => exact ih _ (fun q hq => h q (List.mem_cons_of_mem _ hq))

theorem rowsReach_of_rowsOK {h n k : Nat} {a : List (List K)} (ha : RowsOK h n a) (hk : k < n) :
    rowsReach k a = true := by
  unfold rowsReach
  simp only [List.all_eq_true, decide_eq_true_eq]
  intro r hr; rw [ha.2 r hr]; exact hk

theorem rowsAdmit_of_rowsOK {h n k : Nat} {a : List (List K)} (ha : RowsOK h n a) (hk : k ≤ n) :
    rowsAdmit k a = true := by
  unfold rowsAdmit
  simp only [List.all_eq_true, decide_eq_true_eq]
  intro r hr; rw [ha.2 r hr]; exact hk

theorem sumL_replicate_one (n : Nat) : sumL (List.replicate n (one : K)) = (n : K) := by
  rw [sumL_eq_sum]; simp

theorem col_getD_pos {h n : Nat} {a : List (List K)} (ha : RowsOK h n a) (j : Nat) (hj : j < n) (f : K → K)
    (hf : ∀ r ∈ a, ∀ e ∈ r, 0 < f e) :
    ∀ x ∈ col (a.map (fun r => r.map f)) j, 0 < x := by
  intro x hx
  simp only [col, List.map_map, List.mem_map, Function.comp] at hx
  obtain ⟨r, hr, rfl⟩ := hx
  have hl : j < r.length := by rw [ha.2 r hr]; exact hj
  simp only [List.getD_eq_getElem?_getD, List.getElem?_map, List.getElem?_eq_getElem hl, Option.map_some,
    Option.getD_some]
  exact hf r hr _ (List.getElem_mem _)

theorem averageW_ok (sqrt : K → K) {s : State K} (hs : Shape s) (ws : List K) (hl : ws.length = s.nHist)
    (hsum : ws.sum ≠ 0) : (averageW sqrt s ws).2 = none := by
  unfold averageW
  rw [if_neg (by rw [hs.hist.1]; exact not_not.mpr hl),
    if_neg (by rw [Bool.not_eq_true]; cases h : isZero (sumL ws) with
      | false => rfl
      | true => exact absurd ((isZero_iff _).mp h) (by rw [sumL_eq_sum]; exact hsum)),
    if_neg (by
      simp only [Bool.not_eq_true', Bool.and_eq_false_iff, beq_eq_false_iff_ne, ne_eq, not_or, not_not]
      exact ⟨hs.sys.1.trans hl.symm, (ncols_of_rowsOK hs.sys hs.nh).trans (ncols_of_rowsOK hs.hist hs.nh).symm⟩)]

/-- a call whose arguments pass the method's validation does not raise on a well-shaped state -/
theorem step_ok (sqrt : K → K) {s : State K} (hs : Shape s) (op : Op K) (ha : Admissible s op) :
    (step sqrt s op).2 = none := by
  cases op with
  | fill v w =>
    obtain ⟨hv, hw⟩ := ha
    cases v with
    | none => exact absurd rfl hv
    | some v =>
      cases w with
      | none => rfl
      | some w =>
        cases w with
        | none => exact absurd rfl hw
        | some w => rfl
  | fillList vs w =>
    obtain ⟨hv, hw⟩ := ha
    obtain ⟨xs, hx, hxl⟩ := allSome_of_not_mem vs hv
    rcases hw with rfl | ⟨ws, rfl, hl, hws⟩
    · simp [step, fillList, hx]
    · simp only [step, fillList, hx]
      rw [if_neg (not_not.mpr hl)]
      apply fillSeq_ok
      intro p hp hnone
      have := (List.of_mem_zip hp).2
      rw [hnone] at this
      exact hws this
  | addHist => simp only [step]; rw [addHist_eq hs]
  | scale c =>
    simp only [step, scale, zero_eq]
    rw [if_neg (not_lt.mpr ha)]
  | scaleList cs => simp only [step]; rw [scaleList_eq hs cs ha.2 ha.1]
  | statErr => simp only [step]; rw [statErr_eq sqrt hs]
  | makeDensity => exact (makeDensity_spec sqrt hs ha.1 ha.2).1
  | setErr es =>
    have ha : es.length = s.nBins := ha
    simp only [step, setErr]
    rw [if_neg (not_not.mpr ha), if_neg (hs.err.ne_nil hs.nh),
      if_neg (by rw [hs.err.lastRow_length hs.nh]; exact not_not.mpr ha.symm)]
  | setSys es =>
    have ha : es.length = s.nBins := ha
    simp only [step, setSys]
    rw [if_neg (not_not.mpr ha), if_neg (hs.sys.ne_nil hs.nh),
      if_neg (by rw [hs.sys.lastRow_length hs.nh]; exact not_not.mpr ha.symm)]
  | addBin i e =>
    obtain ⟨h0, hn, hlo, hhi⟩ := ha
    have hk : i.toNat ≤ s.nBins := by omega
    simp only [step, addBin]
    rw [if_neg (by rw [hs.edges]; omega)]
    rw [if_neg (by
      simp only [Bool.and_eq_true, decide_eq_true_eq, not_and]
      intro hpos
      cases hx : s.edges[i.toNat - 1]? with
      | none => simp
      | some x => simpa using hlo (by omega) x hx)]
    rw [if_neg (by
      cases hx : s.edges[i.toNat]? with
      | none => simp
      | some x => simpa using hhi x hx)]
    rw [if_neg (by
      simp [rowsAdmit_of_rowsOK hs.hist hk, rowsAdmit_of_rowsOK hs.err hk, rowsAdmit_of_rowsOK hs.raw hk,
        rowsAdmit_of_rowsOK hs.sys hk, rowsAdmit_of_rowsOK hs.scal hk])]
  | removeBin i =>
    obtain ⟨h0, hn⟩ := ha
    have hk : i.toNat < s.nBins := by omega
    simp only [step, removeBin]
    rw [if_neg (by omega)]
    rw [if_neg (by
      simp [rowsReach_of_rowsOK hs.hist hk, rowsReach_of_rowsOK hs.err hk, rowsReach_of_rowsOK hs.raw hk,
        rowsReach_of_rowsOK hs.sys hk, rowsReach_of_rowsOK hs.scal hk, hs.edges]
      omega)]
  | average =>
    simp only [step]
    apply averageW_ok sqrt hs _ (by simp)
    have : (List.replicate s.nHist (one : K)).sum = (s.nHist : K) := by simp
    rw [this]
    have := hs.nh
    exact_mod_cast (by omega : s.nHist ≠ 0)
  | averageW ws => exact averageW_ok sqrt hs ws ha.1 ha.2
  | averageByErr =>
    simp only [step, averageByErr]
    have hn := ncols_of_rowsOK hs.err hs.nh
    rw [if_neg (by
      simp only [List.any_eq_true, not_exists, not_and]
      intro r hr e he hz
      exact ha r hr e he ((isZero_iff _).mp hz))]
    rw [if_neg (by simp [sameShape_of_rowsOK hs.err hs.hist, sameShape_of_rowsOK hs.sys hs.hist])]
    rw [if_neg (by
      simp only [List.any_eq_true, not_exists, not_and, colSums, List.mem_map, List.mem_range]
      rintro x ⟨j, hj, rfl⟩ hz
      rw [ncols_map_map hs.err hs.nh] at hj
      have hpos : 0 < (col (s.err.map (fun r => r.map (fun e => (one : K) / sq e))) j).sum := by
        apply List.sum_pos
        · exact col_getD_pos hs.err j hj _ (fun r hr e he => by
            have hne : e ≠ 0 := ha r hr e he
            have : 0 < e * e := mul_self_pos.mpr hne
            simp only [one_eq, sq]
            exact div_pos one_pos this)
        · simp only [col, List.map_map, ne_eq, List.map_eq_nil_iff]
          exact hs.err.ne_nil hs.nh
      have h0 := (isZero_iff _).mp hz
      rw [sumL_eq_sum] at h0
      linarith)]

end field

end SparkxVerif.Hist
