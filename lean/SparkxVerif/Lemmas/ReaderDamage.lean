/-
C07 — lemmas about the shared reader model R on damaged files (no Mathlib needed).

Part 1 (Oscar): the loop consumes well-observed blocks whatever count they announce (it groups by CONTENT),
the number of lines it reads comes from the announced COUNTS; scan / last-line / spine lemmas; the generic
"well-formed blocks followed by an arbitrary short tail" analysis used by all damage theorems.
Part 2 (JETSCAPE): the same.
-/
import SparkxVerif.Core.ReaderDamage

namespace SparkxVerif.Rd.Dmg
open SparkxVerif.Rd

/-! ## Oscar: the line loop -/

theorem ne_or_eq_zero (n : Nat) : (n != 0 || n == 0) = true := by
  cases n <;> simp

theorem closeEvent_none (pl : List (List PLine)) (d : List PLine) (c : Counts) (cut : Int) (fl : Int) :
    closeEvent ⟨pl, d, c, cut⟩ none fl = .ok ⟨pl ++ [d], [], c, cut⟩ := by
  simp [closeEvent, bind, Except.bind, pure, Except.pure, ne_or_eq_zero]

theorem loop_out (fmt attrs fl) (o : LineF) (e n : Int) (h : isOut o e n = true) (m lineNo : Nat) (first : Bool)
    (rest : List LineF) (st : LoopSt) :
    oscarLoop fmt attrs none fl (m + 1) lineNo first (o :: rest) st
      = oscarLoop fmt attrs none fl m (lineNo + 1) false rest st := by
  simp only [isOut, Bool.and_eq_true] at h
  obtain ⟨⟨⟨⟨⟨⟨h1, _⟩, _⟩, h4⟩, h5⟩, _⟩, _⟩ := h
  simp [oscarLoop, h1, h4, h5]

theorem loop_parts (fmt attrs fl) (ps : List LineF) (hps : ∀ p ∈ ps, isPart fmt attrs p = true) (m lineNo : Nat)
    (rest : List LineF) (pl d c cut) :
    oscarLoop fmt attrs none fl (ps.length + m) lineNo false (ps ++ rest) ⟨pl, d, c, cut⟩
      = oscarLoop fmt attrs none fl m (lineNo + ps.length) false rest ⟨pl, d ++ plinesFrom lineNo ps, c, cut⟩ := by
  induction ps generalizing lineNo d with
  | nil => simp [plinesFrom]
  | cons p ps ih =>
    have hp := hps p (by simp)
    simp only [isPart, evSkip, Bool.and_eq_true, Bool.not_eq_true'] at hp
    obtain ⟨⟨⟨h1, h2⟩, h3⟩, h4⟩ := hp
    have : (p :: ps).length + m = (ps.length + m) + 1 := by simp; omega
    rw [this]
    simp only [List.cons_append, oscarLoop]
    simp only [h1, h2, h3, h4, Bool.false_and, Bool.not_true, if_false, Bool.false_eq_true]
    rw [ih (fun q hq => hps q (by simp [hq]))]
    simp [plinesFrom, Nat.add_assoc, Nat.add_comm 1]

theorem loop_end (fmt attrs fl) (en : LineF) (e : Int) (h : isEnd en e = true) (m lineNo : Nat) (first : Bool)
    (rest : List LineF) (pl d c cut) :
    oscarLoop fmt attrs none fl (m + 1) lineNo first (en :: rest) ⟨pl, d, c, cut⟩
      = oscarLoop fmt attrs none fl m (lineNo + 1) false rest ⟨pl ++ [d], [], c, cut⟩ := by
  simp only [isEnd, Bool.and_eq_true, Bool.not_eq_true'] at h
  obtain ⟨⟨⟨⟨⟨h1, _⟩, h3⟩, h4⟩, _⟩, _⟩ := h
  simp only [evSkip] at h4
  simp [oscarLoop, h1, h3, h4, closeEvent_none, bind, Except.bind]

theorem Block.lines_length (b : Block) : b.lines.length = b.parts.length + 2 := by
  simp [Block.lines]

theorem obs_out {fmt attrs} {b : Block} (h : b.obs fmt attrs = true) : isOut b.out b.label b.announced = true := by
  simp only [Block.obs, Bool.and_eq_true] at h; exact h.1.1
theorem obs_parts {fmt attrs} {b : Block} (h : b.obs fmt attrs = true) : ∀ p ∈ b.parts, isPart fmt attrs p = true := by
  simp only [Block.obs, Bool.and_eq_true, List.all_eq_true] at h; exact h.1.2
theorem obs_end {fmt attrs} {b : Block} (h : b.obs fmt attrs = true) : isEnd b.endl b.label = true := by
  simp only [Block.obs, Bool.and_eq_true] at h; exact h.2

/-- one whole block is consumed whatever count it announces: the loop groups by content -/
theorem loop_block (fmt attrs fl) (b : Block) (hb : b.obs fmt attrs = true) (m lineNo : Nat) (first : Bool)
    (rest : List LineF) (pl c cut) :
    oscarLoop fmt attrs none fl (b.lines.length + m) lineNo first (b.lines ++ rest) ⟨pl, [], c, cut⟩
      = oscarLoop fmt attrs none fl m (lineNo + b.lines.length) false rest ⟨pl ++ [plinesFrom (lineNo + 1) b.parts], [], c, cut⟩ := by
  have e1 : b.lines.length + m = (b.parts.length + (m + 1)) + 1 := by rw [Block.lines_length]; omega
  rw [e1]
  simp only [Block.lines, List.cons_append, List.append_assoc]
  rw [loop_out fmt attrs fl b.out _ _ (obs_out hb)]
  rw [loop_parts fmt attrs fl b.parts (obs_parts hb)]
  simp only [List.nil_append]
  rw [loop_end fmt attrs fl b.endl _ (obs_end hb)]
  congr 1
  simp; omega

theorem blocksLines_cons (b : Block) (bs) : blocksLines (b :: bs) = b.lines ++ blocksLines bs := by
  simp [blocksLines]

theorem loop_blocks (fmt attrs fl) (bs : List Block) (hbs : ∀ b ∈ bs, b.obs fmt attrs = true) (m lineNo : Nat) (first : Bool)
    (rest : List LineF) (pl c cut) :
    oscarLoop fmt attrs none fl ((blocksLines bs).length + m) lineNo first (blocksLines bs ++ rest) ⟨pl, [], c, cut⟩
      = oscarLoop fmt attrs none fl m (lineNo + (blocksLines bs).length) (first && bs.isEmpty) rest
          ⟨pl ++ eventsFrom lineNo bs, [], c, cut⟩ := by
  induction bs generalizing lineNo first pl with
  | nil => simp [blocksLines, eventsFrom]
  | cons b bs ih =>
    rw [blocksLines_cons]
    have : (b.lines ++ blocksLines bs).length + m = b.lines.length + ((blocksLines bs).length + m) := by
      simp; omega
    rw [this, List.append_assoc, loop_block fmt attrs fl b (hbs b (by simp))]
    rw [ih (fun q hq => hbs q (by simp [hq]))]
    simp [eventsFrom, Block.lines_length, Nat.add_assoc]
    

/-- the loop reads exactly `n` lines or fails: a successful loop had at least `n` lines to read -/
theorem loop_ok_le (fmt attrs filt fl) (n : Nat) : ∀ (lineNo : Nat) (first : Bool) (lines : List LineF) (st st' : LoopSt),
    oscarLoop fmt attrs filt fl n lineNo first lines st = .ok st' → n ≤ lines.length := by
  induction n with
  | zero => intros; omega
  | succ n ih =>
    intro lineNo first lines st st' h
    cases lines with
    | nil => simp [oscarLoop] at h
    | cons l ls =>
      simp only [oscarLoop] at h
      simp only [List.length_cons, Nat.add_le_add_iff_right]
      split at h
      · cases h
      · split at h
        · exact ih _ _ _ _ _ h
        · split at h
          · cases hc : closeEvent st filt fl with
            | error e => simp [hc, bind, Except.bind] at h
            | ok s2 => simp only [hc, bind, Except.bind] at h; exact ih _ _ _ _ _ h
          · split at h
            · cases h
            · split at h
              · cases h
              · split at h
                · cases h
                · exact ih _ _ _ _ _ h

/-! ## Oscar: the header scan -/

theorem scan_silent (l : LineF) (ls : List LineF) (h : scanSilent l = true) : oscarScan (l :: ls) = oscarScan ls := by
  simp only [scanSilent, Bool.and_eq_true, Bool.not_eq_true'] at h
  rw [oscarScan]
  simp [h.1, h.2]

theorem isPart_silent {fmt attrs l} (h : isPart fmt attrs l = true) : scanSilent l = true := by
  simp only [isPart, Bool.and_eq_true, Bool.not_eq_true'] at h
  simp [scanSilent, h.1.1.1]

theorem isHdr_silent {l} (h : isHdr l = true) : scanSilent l = true := by
  simp only [isHdr, Bool.and_eq_true] at h; exact h.1

theorem scan_silents (ps : List LineF) (hps : ∀ p ∈ ps, scanSilent p = true) (t : List LineF) :
    oscarScan (ps ++ t) = oscarScan t := by
  induction ps with
  | nil => rfl
  | cons p ps ih =>
    rw [List.cons_append, scan_silent _ _ (hps p (by simp)), ih (fun q hq => hps q (by simp [hq]))]

theorem tokInt_some {ts : List String} {i : Nat} {e : Int} (h : (tokInt ts i == some e) = true) :
    ∃ t, ts[i]? = some t ∧ pyInt? t = some e := by
  simp only [tokInt, beq_iff_eq] at h
  cases hh : ts[i]? with
  | none => simp [hh] at h
  | some t => exact ⟨t, rfl, by simpa [hh] using h⟩

theorem scan_out (o : LineF) (e n : Int) (h : isOut o e n = true) (ls : List LineF) :
    oscarScan (o :: ls) = (oscarScan ls).map (fun rf => ((e, n) :: rf.1, rf.2)) := by
  simp only [isOut, Bool.and_eq_true, Bool.not_eq_true'] at h
  obtain ⟨⟨⟨⟨⟨⟨h1, h2⟩, h3⟩, _⟩, _⟩, h6⟩, h7⟩ := h
  obtain ⟨t2, ht2, hp2⟩ := tokInt_some h6
  obtain ⟨t4, ht4, hp4⟩ := tokInt_some h7
  rw [oscarScan]
  simp only [h1, h2, h3, ht2, ht4, hp4, Bool.and_false, Bool.and_true, if_false, if_true,
    Bool.false_eq_true]
  cases oscarScan ls with
  | error e => simp [hp2, bind, Except.bind, pure, Except.pure, Except.map]
  | ok rf => simp [hp2, bind, Except.bind, pure, Except.pure, Except.map]

theorem scan_end (en : LineF) (e : Int) (h : isEnd en e = true) (ls : List LineF) :
    oscarScan (en :: ls) = (oscarScan ls).map (fun rf => (rf.1, en.raw :: rf.2)) := by
  simp only [isEnd, Bool.and_eq_true] at h
  obtain ⟨⟨⟨⟨⟨h1, h2⟩, _⟩, _⟩, _⟩, _⟩ := h
  rw [oscarScan]
  simp only [h1, h2, Bool.and_true, if_true]
  cases oscarScan ls with
  | error e => rfl
  | ok rf => rfl

def footOf (bs : List Block) : List String := bs.map (fun b => b.endl.raw)

theorem scan_block (fmt attrs) (b : Block) (hb : b.obs fmt attrs = true) (t : List LineF) :
    oscarScan (b.lines ++ t) = (oscarScan t).map (fun rf => ((b.label, b.announced) :: rf.1, b.endl.raw :: rf.2)) := by
  simp only [Block.lines, List.cons_append, List.append_assoc]
  rw [scan_out _ _ _ (obs_out hb), scan_silents _ (fun p hp => isPart_silent (obs_parts hb p hp))]
  simp only [List.nil_append]
  rw [scan_end _ _ (obs_end hb)]
  cases oscarScan t with
  | error e => rfl
  | ok rf => rfl

theorem scan_blocks (fmt attrs) (bs : List Block) (hbs : ∀ b ∈ bs, b.obs fmt attrs = true) (t : List LineF) :
    oscarScan (blocksLines bs ++ t) = (oscarScan t).map (fun rf => (rowsOf bs ++ rf.1, footOf bs ++ rf.2)) := by
  induction bs with
  | nil =>
    simp only [blocksLines, List.flatMap_nil, List.nil_append, rowsOf, footOf, List.map_nil]
    cases oscarScan t with
    | error e => rfl
    | ok rf => rfl
  | cons b bs ih =>
    rw [blocksLines_cons, List.append_assoc, scan_block fmt attrs b (hbs b (by simp)),
      ih (fun q hq => hbs q (by simp [hq]))]
    cases oscarScan t with
    | error e => rfl
    | ok rf => simp [Except.map, rowsOf, footOf]

/-! ## Oscar: counts → number of lines to read -/

theorem sumCounts_acc (rows : List (Int × Int)) (x a : Int) :
    rows.foldl (fun acc r => acc + (r.2 + x)) a = a + sumCounts rows x := by
  induction rows generalizing a with
  | nil => simp [sumCounts]
  | cons r rs ih =>
    simp only [sumCounts, List.foldl_cons]
    rw [ih, ih (0 + (r.2 + x))]
    omega

theorem sumCounts_nil (x : Int) : sumCounts [] x = 0 := rfl

theorem sumCounts_cons (r : Int × Int) (rs : List (Int × Int)) (x : Int) :
    sumCounts (r :: rs) x = (r.2 + x) + sumCounts rs x := by
  simp only [sumCounts, List.foldl_cons]
  rw [sumCounts_acc]
  simp [sumCounts]

theorem sumCounts_append (a b : List (Int × Int)) (x : Int) :
    sumCounts (a ++ b) x = sumCounts a x + sumCounts b x := by
  induction a with
  | nil => simp [sumCounts_nil]
  | cons r rs ih => simp only [List.cons_append, sumCounts_cons, ih]; omega

/-- the number of lines `__get_num_read_lines` asks for -/
def nreadOf (rows : List (Int × Int)) : Int := sumCounts rows 0 + 2 * (rows.length : Int)

theorem nreadOf_nil : nreadOf [] = 0 := rfl

theorem nreadOf_cons (r : Int × Int) (rs) : nreadOf (r :: rs) = r.2 + 2 + nreadOf rs := by
  simp only [nreadOf, sumCounts_cons, List.length_cons]; omega

theorem nreadOf_append (a b) : nreadOf (a ++ b) = nreadOf a + nreadOf b := by
  simp only [nreadOf, sumCounts_append, List.length_append]; omega

/-- total of the announced counts, as lines -/
def annLines : List Block → Int
  | [] => 0
  | b :: bs => b.announced + 2 + annLines bs

theorem nreadOf_rowsOf (bs : List Block) : nreadOf (rowsOf bs) = annLines bs := by
  induction bs with
  | nil => rfl
  | cons b bs ih =>
    have : rowsOf (b :: bs) = (b.label, b.announced) :: rowsOf bs := rfl
    rw [this, nreadOf_cons, annLines, ih]

theorem annLines_consistent (bs : List Block) (h : consistent bs = true) :
    annLines bs = ((blocksLines bs).length : Int) := by
  induction bs with
  | nil => rfl
  | cons b bs ih =>
    simp only [consistent, List.all_cons, Bool.and_eq_true, beq_iff_eq] at h
    rw [blocksLines_cons, annLines, ih (by simpa [consistent] using h.2), h.1]
    simp [Block.lines_length]

/-! ## Oscar: the last line -/

/-- `set_num_events` on the line it reads -/
def numEvOf (l : LineF) : Except Err Int :=
  if lastLineOk l then
    match l.toks[2]? with
    | none => .error .index
    | some t => match pyInt? t with
      | some n => .ok (n + 1)
      | none => .error .value
  else .error .type

theorem oscarNumEvents_eq (f : FileF) :
    oscarNumEvents f = match lastLine f with | .error e => .error e | .ok l => numEvOf l := by
  unfold oscarNumEvents numEvOf lastLineOk
  cases lastLine f with
  | error e => rfl
  | ok l => rfl

theorem lastLine_concat (pre : List LineF) (l : LineF) (nl : Bool) (h : pre ≠ []) :
    lastLine ⟨pre ++ [l], nl⟩ = .ok l := by
  unfold lastLine
  simp only [List.getLast?_append, List.getLast?_singleton, List.length_append, List.length_cons, List.length_nil]
  have : 0 < pre.length := List.length_pos_iff.mpr h
  simp
  omega

theorem lastLine_short (ls : List LineF) (nl : Bool) (h : ls.length < 2) : ∃ e, lastLine ⟨ls, nl⟩ = .error e := by
  unfold lastLine
  cases hl : ls.getLast? with
  | none => exact ⟨_, rfl⟩
  | some l => simp [h]

theorem numEvOf_end {en : LineF} {e : Int} (h : isEnd en e = true) : numEvOf en = .ok (e + 1) := by
  simp only [isEnd, Bool.and_eq_true] at h
  obtain ⟨⟨_, h5⟩, h6⟩ := h
  obtain ⟨t, ht, hp⟩ := tokInt_some h6
  simp [numEvOf, h5, ht, hp]

theorem numEvOf_hdr {l : LineF} (h : isHdr l = true) : numEvOf l = .error .type := by
  simp only [isHdr, Bool.and_eq_true, Bool.not_eq_true'] at h
  simp [numEvOf, h.2]

theorem numEvOf_notOk {l : LineF} (h : lastLineOk l = false) : numEvOf l = .error .type := by
  simp [numEvOf, h]

/-- a line accepted by `set_num_events` announces `label + 1` events, `label` being its third token -/
theorem numEvOf_ok {l : LineF} {ne : Int} (h : numEvOf l = .ok ne) : ∃ e, tokInt l.toks 2 = some e ∧ ne = e + 1 := by
  unfold numEvOf at h
  split at h
  · split at h
    · cases h
    · rename_i t ht
      split at h
      · rename_i n hn
        cases h
        exact ⟨n, by simp [tokInt, ht, hn], rfl⟩
      · cases h
  · cases h

/-! ## Oscar: the spine of `readOscar` (no `events=`, no `filters=`) -/

/-- `first_label` of the loop (only used by constructor filters) -/
def firstLab (rows : List (Int × Int)) : Int := match rows with | r :: _ => r.1 | [] => 0

/-- everything `load` does after the format, the event number and the scan are known -/
def oscarCore (fmt : Fmt) (attrs : List String) (ne : Int) (rows : List (Int × Int)) (foot : List String)
    (body : List LineF) : Except Err Loaded :=
  if nreadOf rows < 0 then .error .index else
  match oscarLoop fmt attrs none (firstLab rows) (nreadOf rows).toNat 3 true body
      ⟨[], [], .arr2d rows, 0⟩ with
  | .error e => .error e
  | .ok st =>
    if (st.plist.length : Int) != ne - st.cut then .error .index else
    .ok { events := if st.plist.isEmpty then [[]] else st.plist, numEvents := ne - st.cut, counts := st.counts,
          fmt := some fmt, customAttrs := attrs, footers := foot }

theorem readOscar_eq (f : FileF) (first : LineF) (fmt : Fmt) (attrs : List String)
    (h1 : f.lines.head? = some first) (h2 : oscarFormat first = .ok (fmt, attrs)) (h3 : fmtModelled fmt = true) :
    readOscar f .all none =
      match oscarNumEvents f with
      | .error e => .error e
      | .ok ne => match oscarScan f.lines with
        | .error e => .error e
        | .ok rf => oscarCore fmt attrs ne rf.1 rf.2 (f.lines.drop 3) := by
  have h3a : (fmt == Fmt.extendedIC) = false := by cases fmt <;> simp_all [fmtModelled]
  have h3b : (fmt == Fmt.extendedPhotons) = false := by cases fmt <;> simp_all [fmtModelled]
  unfold readOscar
  simp only [validSel, h1, h2, h3a, h3b, bind, Except.bind, pure, Except.pure, Bool.or_self, Bool.false_eq_true, if_false]
  cases oscarNumEvents f with
  | error e => rfl
  | ok ne =>
    simp only []
    cases oscarScan f.lines with
    | error e => rfl
    | ok rf =>
      obtain ⟨rows, foot⟩ := rf
      simp only [skipLines, readLines, selectRows, oscarCore, nreadOf, finish, firstLab]
      have e3 : Int.toNat 3 = 3 := rfl
      have e4 : decide ((3 : Int) < 0) = false := by decide
      rw [e3, e4, Bool.or_false]
      by_cases hn : sumCounts rows 0 + 2 * (rows.length : Int) < 0
      · simp [hn, throw, throwThe, MonadExceptOf.throw]
      · simp only [hn, decide_false, Bool.false_eq_true, if_false]
        cases rows with
        | nil =>
          dsimp only
          split
          · rename_i hst; simp only [hst]
          · rename_i st hst
            simp only [hst]
            by_cases hc : ((st.plist.length : Int) != ne - st.cut) = true
            · simp [hc, throw, throwThe, MonadExceptOf.throw, bind, Except.bind]
            · simp [hc, pure, Except.pure]
        | cons r rs =>
          dsimp only
          split
          · rename_i hst; simp only [hst]
          · rename_i st hst
            simp only [hst]
            by_cases hc : ((st.plist.length : Int) != ne - st.cut) = true
            · simp [hc, throw, throwThe, MonadExceptOf.throw, bind, Except.bind]
            · simp [hc, pure, Except.pure]

/-- an error of `set_num_events` is an error of the loader (whatever the format sniffing said before) -/
theorem readOscar_numEvents_error (f : FileF) (e : Err) (h : oscarNumEvents f = .error e) :
    ∃ e', readOscar f .all none = .error e' := by
  unfold readOscar
  simp only [validSel, bind, Except.bind, pure, Except.pure]
  cases f.lines.head? with
  | none => exact ⟨_, rfl⟩
  | some first =>
    simp only []
    cases oscarFormat first with
    | error e1 => exact ⟨_, rfl⟩
    | ok fa =>
      obtain ⟨fmt, attrs⟩ := fa
      simp only []
      split
      · exact ⟨_, rfl⟩
      · simp only [h]; exact ⟨_, rfl⟩

/-! ## Oscar: well-observed blocks followed by an arbitrary tail -/

/-- the fixed part of a (possibly damaged) file: three header lines and a list of well-observed blocks -/
structure Pre (fmt : Fmt) (attrs : List String) (h1 h2 h3 : LineF) (bs : List Block) : Prop where
  hfmt : oscarFormat h1 = .ok (fmt, attrs)
  hmod : fmtModelled fmt = true
  hh1 : isHdr h1 = true
  hh2 : isHdr h2 = true
  hh3 : isHdr h3 = true
  hbs : ∀ b ∈ bs, b.obs fmt attrs = true

theorem read_tail {fmt attrs h1 h2 h3 bs} (H : Pre fmt attrs h1 h2 h3 bs) (tail : List LineF) (nl : Bool) :
    readOscar ⟨h1 :: h2 :: h3 :: (blocksLines bs ++ tail), nl⟩ .all none =
      match oscarNumEvents ⟨h1 :: h2 :: h3 :: (blocksLines bs ++ tail), nl⟩ with
      | .error e => .error e
      | .ok ne => match oscarScan tail with
        | .error e => .error e
        | .ok rf => oscarCore fmt attrs ne (rowsOf bs ++ rf.1) (footOf bs ++ rf.2) (blocksLines bs ++ tail) := by
  rw [readOscar_eq _ h1 fmt attrs rfl H.hfmt H.hmod]
  cases oscarNumEvents ⟨h1 :: h2 :: h3 :: (blocksLines bs ++ tail), nl⟩ with
  | error e => rfl
  | ok ne =>
    simp only []
    rw [scan_silent _ _ (isHdr_silent H.hh1), scan_silent _ _ (isHdr_silent H.hh2),
      scan_silent _ _ (isHdr_silent H.hh3), scan_blocks fmt attrs bs H.hbs]
    cases oscarScan tail with
    | error e => rfl
    | ok rf => rfl

theorem eventsFrom_length (n : Nat) (bs : List Block) : (eventsFrom n bs).length = bs.length := by
  induction bs generalizing n with
  | nil => rfl
  | cons b bs ih => simp [eventsFrom, ih]

theorem eventsFrom_append (n : Nat) (as bs : List Block) :
    eventsFrom n (as ++ bs) = eventsFrom n as ++ eventsFrom (n + (blocksLines as).length) bs := by
  induction as generalizing n with
  | nil => simp [eventsFrom, blocksLines]
  | cons a as ih =>
    simp only [List.cons_append, eventsFrom, ih, blocksLines_cons, List.length_append, Block.lines_length]
    congr 3
    omega

/-- the core after the blocks have been consumed: `x` more lines are asked for by the rows of the tail -/
theorem core_tail {fmt attrs} (bs : List Block) (hbs : ∀ b ∈ bs, b.obs fmt attrs = true)
    (hcons : annLines bs = ((blocksLines bs).length : Int)) (rt : List (Int × Int)) (hx : 0 ≤ nreadOf rt)
    (ne : Int) (foot : List String) (tail : List LineF) :
    oscarCore fmt attrs ne (rowsOf bs ++ rt) foot (blocksLines bs ++ tail) =
      match oscarLoop fmt attrs none (firstLab (rowsOf bs ++ rt)) (nreadOf rt).toNat (3 + (blocksLines bs).length)
          (true && bs.isEmpty) tail ⟨eventsFrom 3 bs, [], .arr2d (rowsOf bs ++ rt), 0⟩ with
      | .error e => .error e
      | .ok st =>
        if (st.plist.length : Int) != ne - st.cut then .error .index else
        .ok { events := if st.plist.isEmpty then [[]] else st.plist, numEvents := ne - st.cut, counts := st.counts,
              fmt := some fmt, customAttrs := attrs, footers := foot } := by
  have hn : nreadOf (rowsOf bs ++ rt) = ((blocksLines bs).length : Int) + nreadOf rt := by
    rw [nreadOf_append, nreadOf_rowsOf, hcons]
  have hn2 : (nreadOf (rowsOf bs ++ rt)).toNat = (blocksLines bs).length + (nreadOf rt).toNat := by
    rw [hn]; omega
  unfold oscarCore
  have : ¬ nreadOf (rowsOf bs ++ rt) < 0 := by rw [hn]; omega
  simp only [this, if_false]
  rw [hn2, loop_blocks fmt attrs _ bs hbs]
  simp

/-- the rows of the tail ask for more lines than the tail has: the loop runs into the end of the file -/
theorem core_short {fmt attrs} (bs : List Block) (hbs : ∀ b ∈ bs, b.obs fmt attrs = true)
    (hcons : annLines bs = ((blocksLines bs).length : Int)) (rt : List (Int × Int)) (hx : 0 ≤ nreadOf rt)
    (ne : Int) (foot : List String) (tail : List LineF) (hshort : tail.length < (nreadOf rt).toNat) :
    ∃ e, oscarCore fmt attrs ne (rowsOf bs ++ rt) foot (blocksLines bs ++ tail) = .error e := by
  rw [core_tail bs hbs hcons rt hx]
  cases hl : oscarLoop fmt attrs none (firstLab (rowsOf bs ++ rt)) (nreadOf rt).toNat (3 + (blocksLines bs).length)
      (true && bs.isEmpty) tail ⟨eventsFrom 3 bs, [], .arr2d (rowsOf bs ++ rt), 0⟩ with
  | error e => exact ⟨e, rfl⟩
  | ok st =>
    have := loop_ok_le _ _ _ _ _ _ _ _ _ _ hl
    omega

theorem numEvents_last (pre : List LineF) (l : LineF) (nl : Bool) (hpre : pre ≠ []) :
    oscarNumEvents ⟨pre ++ [l], nl⟩ = numEvOf l := by
  rw [oscarNumEvents_eq, lastLine_concat pre l nl hpre]

theorem labelsFrom_append (n : Int) (as bs : List Block) :
    labelsFrom n (as ++ bs) = (labelsFrom n as && labelsFrom (n + as.length) bs) := by
  induction as generalizing n with
  | nil => simp [labelsFrom]
  | cons a as ih =>
    simp only [List.cons_append, labelsFrom, ih, List.length_cons, Bool.and_assoc]
    congr 3
    push_cast
    omega

theorem labelsFrom_take (n : Int) (bs : List Block) (k : Nat) (h : labelsFrom n bs = true) :
    labelsFrom n (bs.take k) = true := by
  have := labelsFrom_append n (bs.take k) (bs.drop k)
  rw [List.take_append_drop, h] at this
  simp only [Bool.true_eq, Bool.and_eq_true] at this
  exact this.1

theorem labelsFrom_getElem (n : Int) (bs : List Block) (k : Nat) (b : Block) (h : labelsFrom n bs = true)
    (hk : bs[k]? = some b) : b.label = n + k := by
  induction bs generalizing n k with
  | nil => simp at hk
  | cons a as ih =>
    simp only [labelsFrom, Bool.and_eq_true, beq_iff_eq] at h
    cases k with
    | zero => simp at hk; subst hk; simp [h.1]
    | succ k =>
      simp only [List.getElem?_cons_succ] at hk
      rw [ih (n + 1) k h.2 hk]
      push_cast
      omega

theorem consistent_append (as bs : List Block) : consistent (as ++ bs) = (consistent as && consistent bs) := by
  simp [consistent]

theorem consistent_take (bs : List Block) (k : Nat) (h : consistent bs = true) : consistent (bs.take k) = true := by
  have := consistent_append (bs.take k) (bs.drop k)
  rw [List.take_append_drop, h] at this
  simp only [Bool.true_eq, Bool.and_eq_true] at this
  exact this.1

theorem rowsOf_consistent (bs : List Block) (h : consistent bs = true) :
    rowsOf bs = bs.map (fun b => (b.label, (b.parts.length : Int))) := by
  induction bs with
  | nil => rfl
  | cons b bs ih =>
    simp only [consistent, List.all_cons, Bool.and_eq_true, beq_iff_eq] at h
    simp only [rowsOf, List.map_cons, h.1]
    congr 1
    exact ih (by simpa [consistent] using h.2)

theorem blocksLines_append (as bs : List Block) : blocksLines (as ++ bs) = blocksLines as ++ blocksLines bs := by
  simp [blocksLines]

theorem blocksLines_concat (bs : List Block) (b : Block) :
    blocksLines (bs ++ [b]) = (blocksLines bs ++ b.out :: b.parts) ++ [b.endl] := by
  simp [blocksLines, Block.lines]

/-- **Complete events only.**  Three headers and `k ≥ 1` consistent, consecutively labelled blocks are loaded as
exactly those events, with `num_events = k` and matching `(label, count)` rows. -/
theorem read_complete {fmt attrs h1 h2 h3 bs} (H : Pre fmt attrs h1 h2 h3 bs) (hne : bs ≠ [])
    (hc : consistent bs = true) (hl : labelsFrom 0 bs = true) (nl : Bool) :
    ∃ L, readOscar ⟨h1 :: h2 :: h3 :: blocksLines bs, nl⟩ .all none = .ok L ∧ L.events = eventsFrom 3 bs ∧
      L.numEvents = bs.length ∧ L.counts = .arr2d (rowsOf bs) := by
  have hread := read_tail H [] nl
  rw [List.append_nil] at hread
  -- the last line
  obtain ⟨bs', b, rfl⟩ : ∃ bs' b, bs = bs' ++ [b] := ⟨bs.dropLast, bs.getLast hne, (List.dropLast_concat_getLast hne).symm⟩
  have hlab : b.label = bs'.length := by
    have := labelsFrom_getElem 0 (bs' ++ [b]) bs'.length b hl (by simp)
    simpa using this
  have hb : b.obs fmt attrs = true := H.hbs b (by simp)
  have hnum : oscarNumEvents ⟨h1 :: h2 :: h3 :: blocksLines (bs' ++ [b]), nl⟩ = .ok ((bs' ++ [b]).length : Int) := by
    have e : h1 :: h2 :: h3 :: blocksLines (bs' ++ [b]) = (h1 :: h2 :: h3 :: (blocksLines bs' ++ b.out :: b.parts)) ++ [b.endl] := by
      rw [blocksLines_concat]; simp
    rw [e, numEvents_last _ _ _ (by simp), numEvOf_end (obs_end hb), hlab]
    simp
  rw [hnum] at hread
  simp only [oscarScan, List.append_nil] at hread
  have hcore := core_tail (fmt := fmt) (attrs := attrs) (bs' ++ [b]) H.hbs (annLines_consistent _ hc) [] (by simp [nreadOf_nil])
    ((bs' ++ [b]).length : Int) (footOf (bs' ++ [b])) []
  simp only [List.append_nil, nreadOf_nil, Int.toNat_zero, oscarLoop] at hcore
  rw [hcore] at hread
  simp only [eventsFrom_length, Int.sub_zero, bne_self_eq_false, Bool.false_eq_true, if_false] at hread
  refine ⟨_, hread, ?_, rfl, rfl⟩
  have : (eventsFrom 3 (bs' ++ [b])).isEmpty = false := by
    rw [List.isEmpty_eq_false_iff]
    intro h
    have := congrArg List.length h
    simp [eventsFrom_length] at this
  simp [this]

/-! ## Oscar: the partial last line and the partial last block -/

/-- if the scan takes `P` for an `out` line, the count it reads is not negative -/
def countHyp (P : LineF) : Prop :=
  P.hasHash = true → P.hasOutSp = true → P.hasEndSp = false → ∀ n, tokInt P.toks 4 = some n → 0 ≤ n

/-- what the scan can make of one arbitrary line: nothing, a footer, or one `(label, count)` row -/
theorem scan_single (P : LineF) (rf : List (Int × Int) × List String) (h : oscarScan [P] = .ok rf) :
    rf.1 = [] ∨ ∃ e n, rf.1 = [(e, n)] ∧ P.hasHash = true ∧ P.hasOutSp = true ∧ P.hasEndSp = false ∧
      tokInt P.toks 4 = some n := by
  rw [oscarScan] at h
  simp only [oscarScan, bind, Except.bind, pure, Except.pure] at h
  split at h
  · cases h; exact Or.inl rfl
  · rename_i hE
    split at h
    · rename_i hO
      right
      simp only [Bool.and_eq_true] at hO
      have hE' : P.hasEndSp = false := by
        cases hh : P.hasEndSp with
        | false => rfl
        | true => simp [hO.1, hh] at hE
      cases h2 : P.toks[2]? with
      | none => simp [h2, throw, throwThe, MonadExceptOf.throw] at h
      | some t2 =>
        cases h4 : P.toks[4]? with
        | none => simp [h2, h4, throw, throwThe, MonadExceptOf.throw] at h
        | some t4 =>
          cases p4 : pyInt? t4 with
          | none => simp [h2, h4, p4, throw, throwThe, MonadExceptOf.throw] at h
          | some n =>
            cases p2 : pyInt? t2 with
            | none => simp [h2, h4, p4, p2, throw, throwThe, MonadExceptOf.throw] at h
            | some e =>
              simp only [h2, h4, p4, p2] at h
              cases h
              exact ⟨e, n, rfl, hO.1, hO.2, hE', by simp [tokInt, h4, p4]⟩
    · cases h; exact Or.inl rfl

theorem nread_single {P : LineF} (hP : countHyp P) {rf} (h : oscarScan [P] = .ok rf) :
    rf.1 = [] ∨ 2 ≤ nreadOf rf.1 := by
  rcases scan_single P rf h with h0 | ⟨e, n, hr, a, b, c, d⟩
  · exact Or.inl h0
  · right
    have := hP a b c n d
    rw [hr, nreadOf_cons, nreadOf_nil]
    simp only []
    omega

/-- an `out` line and some of its particle lines -/
theorem loop_partial (fmt attrs fl) (o : LineF) (e n : Int) (ho : isOut o e n = true) (q : List LineF)
    (hq : ∀ p ∈ q, isPart fmt attrs p = true) (m lineNo : Nat) (first : Bool) (rest : List LineF) (pl c cut) :
    oscarLoop fmt attrs none fl (q.length + 1 + m) lineNo first (o :: q ++ rest) ⟨pl, [], c, cut⟩
      = oscarLoop fmt attrs none fl m (lineNo + 1 + q.length) false rest ⟨pl, plinesFrom (lineNo + 1) q, c, cut⟩ := by
  have e1 : q.length + 1 + m = (q.length + m) + 1 := by omega
  rw [e1, List.cons_append, loop_out fmt attrs fl o e n ho, loop_parts fmt attrs fl q hq]
  simp

theorem scan_partial (o : LineF) (e n : Int) (ho : isOut o e n = true) (fmt attrs) (q : List LineF)
    (hq : ∀ p ∈ q, isPart fmt attrs p = true) (t : List LineF) :
    oscarScan (o :: q ++ t) = (oscarScan t).map (fun rf => ((e, n) :: rf.1, rf.2)) := by
  rw [List.cons_append, scan_out o e n ho, scan_silents q (fun p hp => isPart_silent (hq p hp))]

/-- the last line the count-driven loop reads, when it is a comment line that is not skipped:
with `end` in it the event is closed, otherwise "Comment line unexpectedly found" -/
theorem loop_lastP (fmt attrs fl) (P : LineF) (h1 : P.hasHash = true) (h2 : evSkip P = false) (lineNo : Nat)
    (pl d c cut) :
    oscarLoop fmt attrs none fl 1 lineNo false [P] ⟨pl, d, c, cut⟩ =
      if P.hasEnd then .ok ⟨pl ++ [d], [], c, cut⟩ else .error .value := by
  simp only [evSkip] at h2
  cases he : P.hasEnd <;> simp [oscarLoop, h1, h2, he, closeEvent_none, bind, Except.bind]

theorem three_pre (h1 h2 h3 : LineF) (X : List LineF) (P : LineF) :
    h1 :: h2 :: h3 :: (X ++ [P]) = (h1 :: h2 :: h3 :: X) ++ [P] := by simp

/-- **Cut inside an event (whole lines).**  The file ends with an `out` line and at most as many particle lines
as it announces: the loader fails (the counts ask for lines that are not there). -/
theorem read_midevent {fmt attrs h1 h2 h3 bs} (H : Pre fmt attrs h1 h2 h3 bs) (hc : consistent bs = true)
    (o : LineF) (e n : Int) (ho : isOut o e n = true) (q : List LineF) (hq : ∀ p ∈ q, isPart fmt attrs p = true)
    (hlen : (q.length : Int) ≤ n) (nl : Bool) :
    ∃ err, readOscar ⟨h1 :: h2 :: h3 :: (blocksLines bs ++ o :: q), nl⟩ .all none = .error err := by
  rw [read_tail H]
  cases oscarNumEvents ⟨h1 :: h2 :: h3 :: (blocksLines bs ++ o :: q), nl⟩ with
  | error err => exact ⟨_, rfl⟩
  | ok ne =>
    simp only []
    have hs : oscarScan (o :: q) = .ok ([(e, n)], []) := by
      have := scan_partial o e n ho fmt attrs q hq []
      rw [List.append_nil] at this
      rw [this]; rfl
    rw [hs]
    simp only []
    have hx : nreadOf [(e, n)] = n + 2 := by rw [nreadOf_cons, nreadOf_nil]; simp
    exact core_short bs H.hbs (annLines_consistent _ hc) [(e, n)] (by rw [hx]; omega) ne _ _
      (by rw [hx]; simp only [List.length_cons]; omega)

/-- **Cut inside a particle line.**  After the `out` line and fewer complete particle lines than announced comes a
partial line `P`: the loader fails whatever `P` looks like (provided a count read from it is not negative). -/
theorem read_cut_part {fmt attrs h1 h2 h3 bs} (H : Pre fmt attrs h1 h2 h3 bs) (hc : consistent bs = true)
    (o : LineF) (e n : Int) (ho : isOut o e n = true) (q : List LineF) (hq : ∀ p ∈ q, isPart fmt attrs p = true)
    (hlen : (q.length : Int) < n) (P : LineF) (hP : countHyp P) (nl : Bool) :
    ∃ err, readOscar ⟨h1 :: h2 :: h3 :: (blocksLines bs ++ (o :: q ++ [P])), nl⟩ .all none = .error err := by
  rw [read_tail H]
  cases oscarNumEvents ⟨h1 :: h2 :: h3 :: (blocksLines bs ++ (o :: q ++ [P])), nl⟩ with
  | error err => exact ⟨_, rfl⟩
  | ok ne =>
    simp only []
    rw [scan_partial o e n ho fmt attrs q hq [P]]
    cases hs : oscarScan [P] with
    | error err => exact ⟨_, rfl⟩
    | ok rf =>
      simp only [Except.map]
      have hx : nreadOf ((e, n) :: rf.1) = n + 2 + nreadOf rf.1 := nreadOf_cons _ _
      have h0 : 0 ≤ nreadOf rf.1 := by
        rcases nread_single hP hs with h | h
        · rw [h, nreadOf_nil]; omega
        · omega
      exact core_short bs H.hbs (annLines_consistent _ hc) ((e, n) :: rf.1) (by rw [hx]; omega) ne _ _
        (by rw [hx]; simp only [List.length_cons, List.length_append, List.length_nil]; omega)

/-- **Cut inside an `out` line** (or any other last line `P` after `k` complete events).  The loader fails, or —
when `P` happens to announce exactly `k` events — returns exactly those `k` complete events with matching counts. -/
theorem read_cut_out {fmt attrs h1 h2 h3 bs} (H : Pre fmt attrs h1 h2 h3 bs) (hc : consistent bs = true)
    (P : LineF) (hP : countHyp P) (hfirst : bs = [] → tokInt P.toks 2 ≠ some (-1)) (nl : Bool) :
    (∃ err, readOscar ⟨h1 :: h2 :: h3 :: (blocksLines bs ++ [P]), nl⟩ .all none = .error err) ∨
    (bs ≠ [] ∧ ∃ L, readOscar ⟨h1 :: h2 :: h3 :: (blocksLines bs ++ [P]), nl⟩ .all none = .ok L ∧
      L.events = eventsFrom 3 bs ∧ L.numEvents = bs.length ∧ L.counts = .arr2d (rowsOf bs)) := by
  rw [read_tail H, three_pre, numEvents_last _ _ _ (by simp)]
  cases hn : numEvOf P with
  | error err => exact Or.inl ⟨_, rfl⟩
  | ok ne =>
    obtain ⟨e, he, hne⟩ := numEvOf_ok hn
    simp only []
    cases hs : oscarScan [P] with
    | error err => exact Or.inl ⟨_, rfl⟩
    | ok rf =>
      simp only []
      rcases nread_single hP hs with h | h
      · rw [h]
        rw [core_tail bs H.hbs (annLines_consistent _ hc) [] (by simp [nreadOf_nil])]
        simp only [nreadOf_nil, Int.toNat_zero, oscarLoop, eventsFrom_length, Int.sub_zero, List.append_nil]
        by_cases hcount : ((bs.length : Int) != ne) = true
        · left; simp [hcount]
        · right
          have hEq : (bs.length : Int) = ne := by simpa using hcount
          have hbs : bs ≠ [] := by
            intro h0
            apply hfirst h0
            rw [he]
            subst h0
            simp at hEq
            congr 1
            omega
          refine ⟨hbs, ?_⟩
          simp only [hcount]
          refine ⟨_, rfl, ?_, hEq.symm, rfl⟩
          have : (eventsFrom 3 bs).isEmpty = false := by
            rw [List.isEmpty_eq_false_iff]
            intro h
            have := congrArg List.length h
            simp only [eventsFrom_length, List.length_nil] at this
            exact hbs (List.eq_nil_of_length_eq_zero this)
          simp [this]
      · left
        exact core_short bs H.hbs (annLines_consistent _ hc) rf.1 (by omega) ne _ _
          (by simp only [List.length_cons, List.length_nil]; omega)

theorem eventsFrom_concat (n : Nat) (bs : List Block) (b : Block) :
    eventsFrom n (bs ++ [b]) = eventsFrom n bs ++ [plinesFrom (n + (blocksLines bs).length + 1) b.parts] := by
  rw [eventsFrom_append]; simp [eventsFrom]

/-- **Cut inside an `end` line.**  All particle lines of the last event are there; the partial trailer `P` still has
its `#` and is not skipped by the loop.  The loader fails, or returns all events up to and including this one with
matching counts — the latter only if `P` still contains `end`. -/
theorem read_cut_end {fmt attrs h1 h2 h3 bs} (H : Pre fmt attrs h1 h2 h3 bs) (hc : consistent bs = true)
    (b : Block) (hb : b.obs fmt attrs = true) (hbc : b.announced = (b.parts.length : Int))
    (P : LineF) (hP : countHyp P) (hP1 : P.hasHash = true) (hP2 : evSkip P = false) (nl : Bool) :
    (∃ err, readOscar ⟨h1 :: h2 :: h3 :: (blocksLines bs ++ (b.out :: b.parts ++ [P])), nl⟩ .all none = .error err) ∨
    (P.hasEnd = true ∧ ∃ L, readOscar ⟨h1 :: h2 :: h3 :: (blocksLines bs ++ (b.out :: b.parts ++ [P])), nl⟩ .all none = .ok L ∧
      L.events = eventsFrom 3 (bs ++ [b]) ∧ L.numEvents = (bs ++ [b]).length ∧ L.counts = .arr2d (rowsOf (bs ++ [b]))) := by
  have hparts := obs_parts hb
  have hout := obs_out hb
  rw [read_tail H]
  have e0 : h1 :: h2 :: h3 :: (blocksLines bs ++ (b.out :: b.parts ++ [P])) =
      (h1 :: h2 :: h3 :: (blocksLines bs ++ b.out :: b.parts)) ++ [P] := by simp
  rw [e0, numEvents_last _ _ _ (by simp)]
  cases hn : numEvOf P with
  | error err => exact Or.inl ⟨_, rfl⟩
  | ok ne =>
    simp only []
    rw [scan_partial b.out _ _ hout fmt attrs b.parts hparts [P]]
    cases hs : oscarScan [P] with
    | error err => exact Or.inl ⟨_, rfl⟩
    | ok rf =>
      simp only [Except.map]
      have hx : nreadOf ((b.label, b.announced) :: rf.1) = b.announced + 2 + nreadOf rf.1 := nreadOf_cons _ _
      rcases nread_single hP hs with h | h
      · rw [h] at hx ⊢
        rw [nreadOf_nil] at hx
        rw [core_tail bs H.hbs (annLines_consistent _ hc) [(b.label, b.announced)] (by rw [hx, hbc]; omega)]
        have hx2 : (nreadOf [(b.label, b.announced)]).toNat = b.parts.length + 1 + 1 := by rw [hx, hbc]; omega
        rw [hx2, loop_partial fmt attrs _ b.out _ _ hout b.parts hparts 1, loop_lastP fmt attrs _ P hP1 hP2]
        cases hE : P.hasEnd with
        | false => left; exact ⟨_, rfl⟩
        | true =>
          by_cases hcount : (bs.length : Int) + 1 = ne
          · right
            refine ⟨rfl, ?_⟩
            simp only [if_true, List.length_append, List.length_cons, List.length_nil, eventsFrom_length, Int.sub_zero]
            have hc2 : (((bs.length + (0 + 1) : Nat) : Int) != ne) = false := by
              simp only [bne_eq_false_iff_eq]; rw [← hcount]; push_cast; omega
            simp only [hc2, Bool.false_eq_true, if_false]
            refine ⟨_, rfl, ?_, ?_, ?_⟩
            · simp [eventsFrom_concat, Nat.add_assoc]
            · simp only []; rw [← hcount]; push_cast; omega
            · simp [rowsOf]
          · left
            simp only [if_true, List.length_append, List.length_cons, List.length_nil, eventsFrom_length, Int.sub_zero]
            have hc2 : (((bs.length + (0 + 1) : Nat) : Int) != ne) = true := by
              simp only [bne_iff_ne, ne_eq]; intro h; apply hcount; rw [← h]; push_cast; omega
            simp only [hc2, if_true]
            exact ⟨_, rfl⟩
      · left
        exact core_short bs H.hbs (annLines_consistent _ hc) _ (by rw [hx, hbc]; omega) ne _ _
          (by rw [hx, hbc]; simp only [List.length_cons, List.length_append, List.length_nil]; omega)

/-! ## Oscar: cuts inside the header, lost and duplicated lines -/

/-- fewer than two lines: `set_num_events` cannot find a last line -/
theorem read_short (ls : List LineF) (nl : Bool) (h : ls.length < 2) :
    ∃ err, readOscar ⟨ls, nl⟩ .all none = .error err := by
  obtain ⟨e, he⟩ := lastLine_short ls nl h
  exact readOscar_numEvents_error _ e (by rw [oscarNumEvents_eq, he])

/-- the last line is rejected by `set_num_events` -/
theorem read_badlast (pre : List LineF) (l : LineF) (nl : Bool) (h : lastLineOk l = false) :
    ∃ err, readOscar ⟨pre ++ [l], nl⟩ .all none = .error err := by
  cases pre with
  | nil => exact read_short _ nl (by simp)
  | cons a as =>
    exact readOscar_numEvents_error _ .type (by rw [numEvents_last _ _ _ (by simp), numEvOf_notOk h])

theorem isHdr_notOk {l : LineF} (h : isHdr l = true) : lastLineOk l = false := by
  simp only [isHdr, Bool.and_eq_true, Bool.not_eq_true'] at h; exact h.2

theorem numEvents_blocks {fmt attrs h1 h2 h3 bs} (H : Pre fmt attrs h1 h2 h3 bs) (hne : bs ≠ [])
    (hl : labelsFrom 0 bs = true) (nl : Bool) :
    oscarNumEvents ⟨h1 :: h2 :: h3 :: blocksLines bs, nl⟩ = .ok (bs.length : Int) := by
  obtain ⟨bs', b, rfl⟩ : ∃ bs' b, bs = bs' ++ [b] := ⟨bs.dropLast, bs.getLast hne, (List.dropLast_concat_getLast hne).symm⟩
  have hlab : b.label = bs'.length := by
    have := labelsFrom_getElem 0 (bs' ++ [b]) bs'.length b hl (by simp)
    simpa using this
  have hb : b.obs fmt attrs = true := H.hbs b (by simp)
  have e : h1 :: h2 :: h3 :: blocksLines (bs' ++ [b]) = (h1 :: h2 :: h3 :: (blocksLines bs' ++ b.out :: b.parts)) ++ [b.endl] := by
    rw [blocksLines_concat]; simp
  rw [e, numEvents_last _ _ _ (by simp), numEvOf_end (obs_end hb), hlab]
  simp

theorem annLines_append (as bs : List Block) : annLines (as ++ bs) = annLines as + annLines bs := by
  induction as with
  | nil => simp [annLines]
  | cons a as ih => simp only [List.cons_append, annLines, ih]; omega

/-- **One particle line too few** (counts announce one line more than there is): the loop runs into the end of the
file — `IndexError`. -/
theorem read_missing {fmt attrs h1 h2 h3 bs} (H : Pre fmt attrs h1 h2 h3 bs) (hl : labelsFrom 0 bs = true)
    (hcount : annLines bs = ((blocksLines bs).length : Int) + 1) (nl : Bool) :
    readOscar ⟨h1 :: h2 :: h3 :: blocksLines bs, nl⟩ .all none = .error .index := by
  have hne : bs ≠ [] := by
    intro h; subst h; simp [annLines, blocksLines] at hcount
  have hread := read_tail H [] nl
  rw [List.append_nil] at hread
  rw [hread, numEvents_blocks H hne hl]
  simp only [oscarScan, List.append_nil]
  unfold oscarCore
  rw [nreadOf_rowsOf, hcount]
  have h0 : ¬ ((blocksLines bs).length : Int) + 1 < 0 := by omega
  have h1' : (((blocksLines bs).length : Int) + 1).toNat = (blocksLines bs).length + 1 := by omega
  simp only [h0, if_false, h1']
  have := loop_blocks fmt attrs (firstLab (rowsOf bs)) bs H.hbs 1 3 true [] [] (.arr2d (rowsOf bs)) 0
  rw [List.append_nil] at this
  rw [this]
  simp [oscarLoop]

/-- **One particle line too many** (counts announce one line less than there is): the loop stops before the last
`end` line, the last event is never closed, the event-number check fails — `IndexError`. -/
theorem read_extra {fmt attrs h1 h2 h3 bs} (H : Pre fmt attrs h1 h2 h3 bs) (hne : bs ≠ []) (hl : labelsFrom 0 bs = true)
    (hcount : annLines bs + 1 = ((blocksLines bs).length : Int)) (nl : Bool) :
    readOscar ⟨h1 :: h2 :: h3 :: blocksLines bs, nl⟩ .all none = .error .index := by
  have hread := read_tail H [] nl
  rw [List.append_nil] at hread
  rw [hread, numEvents_blocks H hne hl]
  simp only [oscarScan, List.append_nil]
  obtain ⟨bs', b, rfl⟩ : ∃ bs' b, bs = bs' ++ [b] := ⟨bs.dropLast, bs.getLast hne, (List.dropLast_concat_getLast hne).symm⟩
  have hb : b.obs fmt attrs = true := H.hbs b (by simp)
  have hbs' : ∀ b' ∈ bs', b'.obs fmt attrs = true := fun b' hb' => H.hbs b' (by simp [hb'])
  unfold oscarCore
  rw [nreadOf_rowsOf]
  have hlen : ((blocksLines (bs' ++ [b])).length : Int) = (blocksLines bs').length + b.parts.length + 2 := by
    rw [blocksLines_concat]; simp; omega
  have hann : annLines (bs' ++ [b]) = (blocksLines bs').length + b.parts.length + 1 := by omega
  have h0 : ¬ annLines (bs' ++ [b]) < 0 := by omega
  have h1' : (annLines (bs' ++ [b])).toNat = (blocksLines bs').length + (b.parts.length + 1 + 0) := by omega
  simp only [h0, if_false, h1']
  have e : blocksLines (bs' ++ [b]) = blocksLines bs' ++ (b.out :: b.parts ++ [b.endl]) := by
    rw [blocksLines_concat]; simp
  rw [e, loop_blocks fmt attrs _ bs' hbs', loop_partial fmt attrs _ b.out _ _ (obs_out hb) b.parts (obs_parts hb) 0]
  simp only [oscarLoop, eventsFrom_length, Int.sub_zero, List.length_append, List.length_cons, List.length_nil]
  simp
  omega

/-! ## Oscar: from the structured file to positions in its line list -/

theorem take_succ_of_getElem? (bs : List Block) (k : Nat) (b : Block) (h : bs[k]? = some b) :
    bs.take (k + 1) = bs.take k ++ [b] := by
  rw [List.take_add_one, h]; rfl

/-- the first `j` lines of a sequence of blocks: `k` whole blocks, possibly followed by the `out` line and some
particle lines of block `k` -/
theorem take_blocks (bs : List Block) (j : Nat) (hj : j ≤ (blocksLines bs).length) :
    (∃ k, k ≤ bs.length ∧ j = (blocksLines (bs.take k)).length ∧ (blocksLines bs).take j = blocksLines (bs.take k)) ∨
    (∃ k b q r, bs[k]? = some b ∧ b.parts = q ++ r ∧
      (blocksLines bs).take j = blocksLines (bs.take k) ++ b.out :: q ∧
      j = (blocksLines (bs.take k)).length + 1 + q.length) := by
  induction bs generalizing j with
  | nil => left; exact ⟨0, by simp, by simpa [blocksLines] using hj, by simp [blocksLines]⟩
  | cons b bs ih =>
    rw [blocksLines_cons] at hj ⊢
    by_cases h0 : j = 0
    · left; subst h0; exact ⟨0, by simp, by simp [blocksLines], by simp [blocksLines]⟩
    by_cases h1 : b.lines.length ≤ j
    · have hj' : j - b.lines.length ≤ (blocksLines bs).length := by
        simp only [List.length_append] at hj; omega
      have et : (b.lines ++ blocksLines bs).take j = b.lines ++ (blocksLines bs).take (j - b.lines.length) := by
        rw [List.take_append]; simp [List.take_of_length_le h1]
      rcases ih (j - b.lines.length) hj' with ⟨k, hk, hjk, ht⟩ | ⟨k, b', q, r, hb', hqr, ht, hjk⟩
      · left
        refine ⟨k + 1, by simp; omega, ?_, ?_⟩
        · simp only [List.take_succ_cons, blocksLines_cons, List.length_append]; omega
        · rw [et, ht]; simp [blocksLines_cons]
      · right
        refine ⟨k + 1, b', q, r, by simpa using hb', hqr, ?_, ?_⟩
        · rw [et, ht]; simp [blocksLines_cons]
        · simp only [List.take_succ_cons, blocksLines_cons, List.length_append]; omega
    · right
      have hl := Block.lines_length b
      refine ⟨0, b, b.parts.take (j - 1), b.parts.drop (j - 1), by simp, by simp, ?_, ?_⟩
      · simp only [List.take_zero, blocksLines, List.flatMap_nil, List.nil_append]
        rw [List.take_append_of_le_length (by omega)]
        obtain ⟨j', rfl⟩ : ∃ j', j = j' + 1 := ⟨j - 1, by omega⟩
        simp only [Block.lines, List.take_succ_cons, Nat.add_sub_cancel]
        rw [List.take_append_of_le_length (by omega)]
      · simp only [List.take_zero, blocksLines, List.flatMap_nil, List.length_nil, List.length_take]
        omega

theorem countHyp_of (F : OFile) (j : Nat) (P : LineF) (h : prefixHyp F j P = true) : countHyp P := by
  intro a b c n hn
  simp only [prefixHyp, Bool.and_eq_true, Bool.or_eq_true, Bool.not_eq_true'] at h
  rcases h.1.1.1 with h' | h'
  · simp [a, b, c] at h'
  · simpa [hn] using h'

theorem Pre_of_obs {F : OFile} {fmt attrs} (h : F.obs fmt attrs = true) (k : Nat) :
    Pre fmt attrs F.h1 F.h2 F.h3 (F.evs.take k) := by
  simp only [OFile.obs, Bool.and_eq_true, List.all_eq_true] at h
  obtain ⟨⟨⟨⟨⟨⟨hf, hm⟩, a⟩, b⟩, c⟩, d⟩, _⟩ := h
  refine ⟨?_, hm, a, b, c, fun x hx => d x (List.mem_of_mem_take hx)⟩
  split at hf
  · rename_i f a' heq
    simp only [Bool.and_eq_true, beq_iff_eq] at hf
    rw [heq, hf.1, hf.2]
  · cases hf

theorem Pre_of_obs_all {F : OFile} {fmt attrs} (h : F.obs fmt attrs = true) :
    Pre fmt attrs F.h1 F.h2 F.h3 F.evs := by
  have := Pre_of_obs h F.evs.length
  rwa [List.take_length] at this

theorem labels_of_obs {F : OFile} {fmt attrs} (h : F.obs fmt attrs = true) : labelsFrom 0 F.evs = true := by
  simp only [OFile.obs, Bool.and_eq_true] at h; exact h.2

structure WFacts (F : OFile) (fmt : Fmt) (attrs : List String) : Prop where
  obs : F.obs fmt attrs = true
  cons : consistent F.evs = true
  ne : F.evs ≠ []

theorem wf_facts {F : OFile} {fmt attrs} (h : F.wf fmt attrs = true) : WFacts F fmt attrs := by
  simp only [OFile.wf, Bool.and_eq_true, Bool.not_eq_true', List.isEmpty_eq_false_iff] at h
  exact ⟨h.1.1, h.1.2, h.2⟩

theorem agrees_of {F : OFile} (m : Nat) (hm : m ≤ F.evs.length) (hc : consistent F.evs = true) (L : Loaded)
    (h1 : L.events = eventsFrom 3 (F.evs.take m)) (h2 : L.numEvents = ((F.evs.take m).length : Int))
    (h3 : L.counts = .arr2d (rowsOf (F.evs.take m))) : F.agrees m L := by
  refine ⟨h1, ?_, ?_⟩
  · rw [h2, List.length_take]; congr 1; omega
  · rw [h3, rowsOf_consistent _ (consistent_take _ _ hc)]

/-! ## Oscar: a lost / duplicated particle line, located in the line list -/

theorem eraseIdx_at (A : List LineF) (x : LineF) (B : List LineF) : deleteLine (A ++ x :: B) A.length = A ++ B := by
  unfold deleteLine
  rw [List.eraseIdx_append_of_length_le (Nat.le_refl _)]
  simp

theorem dupLine_at (A : List LineF) (x : LineF) (B : List LineF) : dupLine (A ++ x :: B) A.length = A ++ x :: x :: B := by
  unfold dupLine
  rw [List.take_append, List.drop_append]
  simp [List.take_of_length_le]

/-- the block list with the particle lines of block `k` replaced -/
def withParts (bs : List Block) (k : Nat) (b : Block) (ps : List LineF) : List Block :=
  bs.take k ++ { b with parts := ps } :: bs.drop (k + 1)

theorem split_block (bs : List Block) (k : Nat) (b : Block) (h : bs[k]? = some b) :
    bs = bs.take k ++ b :: bs.drop (k + 1) := by
  have hk : k < bs.length := by
    rcases Nat.lt_or_ge k bs.length with h' | h'
    · exact h'
    · rw [List.getElem?_eq_none h'] at h; cases h
  have : bs[k] = b := by
    have := List.getElem?_eq_getElem hk
    rw [this] at h; exact Option.some.inj h
  rw [← this, List.getElem_cons_drop]
  simp

/-- the lines of the file split at particle `p` of event `k` -/
theorem lines_split (F : OFile) (k p : Nat) (b : Block) (x : LineF) (hb : F.evs[k]? = some b) (hx : b.parts[p]? = some x) :
    ∃ A B, F.lines = A ++ x :: B ∧ A.length = F.partPos k p ∧
      A ++ B = F.h1 :: F.h2 :: F.h3 :: blocksLines (withParts F.evs k b (b.parts.take p ++ b.parts.drop (p + 1))) ∧
      A ++ x :: x :: B = F.h1 :: F.h2 :: F.h3 :: blocksLines (withParts F.evs k b (b.parts.take p ++ x :: x :: b.parts.drop (p + 1))) := by
  have hp : p < b.parts.length := by
    rcases Nat.lt_or_ge p b.parts.length with h' | h'
    · exact h'
    · rw [List.getElem?_eq_none h'] at hx; cases hx
  have hxe : b.parts[p] = x := by
    have := List.getElem?_eq_getElem hp
    rw [this] at hx; exact Option.some.inj hx
  have hparts : b.parts = b.parts.take p ++ x :: b.parts.drop (p + 1) := by
    rw [← hxe, List.getElem_cons_drop]; simp
  refine ⟨F.h1 :: F.h2 :: F.h3 :: (blocksLines (F.evs.take k) ++ b.out :: b.parts.take p),
    b.parts.drop (p + 1) ++ [b.endl] ++ blocksLines (F.evs.drop (k + 1)), ?_, ?_, ?_, ?_⟩
  · have h1 : F.lines = F.h1 :: F.h2 :: F.h3 :: blocksLines (F.evs.take k ++ b :: F.evs.drop (k + 1)) := by
      rw [← split_block F.evs k b hb]; rfl
    rw [h1, blocksLines_append, blocksLines_cons]
    conv => lhs; rw [Block.lines, hparts]
    simp
  · simp only [List.length_cons, List.length_append, List.length_take, OFile.partPos, OFile.endPos]
    omega
  · simp [withParts, blocksLines_append, blocksLines_cons, Block.lines]
  · simp [withParts, blocksLines_append, blocksLines_cons, Block.lines]

theorem withParts_obs {fmt attrs} (bs : List Block) (k : Nat) (b : Block) (ps : List LineF) (hb : bs[k]? = some b)
    (hbs : ∀ b' ∈ bs, b'.obs fmt attrs = true) (hps : ∀ q ∈ ps, q ∈ b.parts) :
    ∀ b' ∈ withParts bs k b ps, b'.obs fmt attrs = true := by
  intro b' hb'
  simp only [withParts, List.mem_append, List.mem_cons] at hb'
  have hbo := hbs b (List.mem_of_getElem? hb)
  rcases hb' with h | h | h
  · exact hbs b' (List.mem_of_mem_take h)
  · subst h
    simp only [Block.obs, Bool.and_eq_true, List.all_eq_true] at hbo ⊢
    exact ⟨⟨hbo.1.1, fun q hq => hbo.1.2 q (hps q hq)⟩, hbo.2⟩
  · exact hbs b' (List.mem_of_mem_drop h)

theorem labelsFrom_cons_congr (n : Int) (b b' : Block) (cs : List Block) (h : b'.label = b.label) :
    labelsFrom n (b' :: cs) = labelsFrom n (b :: cs) := by
  simp [labelsFrom, h]

theorem withParts_labels (bs : List Block) (k : Nat) (b : Block) (ps : List LineF) (hb : bs[k]? = some b) (n : Int)
    (h : labelsFrom n bs = true) : labelsFrom n (withParts bs k b ps) = true := by
  have e := split_block bs k b hb
  rw [e, labelsFrom_append] at h
  rw [withParts, labelsFrom_append, labelsFrom_cons_congr _ b { b with parts := ps } _ rfl]
  exact h

theorem withParts_ann (bs : List Block) (k : Nat) (b : Block) (ps : List LineF) (hb : bs[k]? = some b) :
    annLines (withParts bs k b ps) = annLines bs := by
  have e := split_block bs k b hb
  conv => rhs; rw [e]
  simp [withParts, annLines_append, annLines]

theorem withParts_len (bs : List Block) (k : Nat) (b : Block) (ps : List LineF) (hb : bs[k]? = some b) :
    ((blocksLines (withParts bs k b ps)).length : Int) + b.parts.length = (blocksLines bs).length + ps.length := by
  have e := split_block bs k b hb
  conv => rhs; rw [e]
  simp only [withParts, blocksLines_append, blocksLines_cons, List.length_append, Block.lines_length]
  push_cast
  omega

/-! # JETSCAPE -/

/-! ## JETSCAPE: the line loop -/

theorem jhead_facts {pt : Bool} {l : LineF} {e n : Int} (h : isJHead pt l e n = true) :
    l.hasHash = true ∧ jKey pt l = true ∧ l.hasSigma = false ∧ l.hasEventCap = true ∧ l.hasWeight = true ∧
    (∃ t, l.toksTab[2]? = some t ∧ pyInt? t = some e) ∧ (∃ t, l.toksTab[8]? = some t ∧ pyInt? t = some n) := by
  simp only [isJHead, Bool.and_eq_true, Bool.not_eq_true'] at h
  obtain ⟨⟨⟨⟨⟨⟨a, b⟩, c⟩, d⟩, e'⟩, f⟩, g⟩ := h
  exact ⟨a, b, c, d, e', tokInt_some f, tokInt_some g⟩

/-- the header of the first selected event is skipped -/
theorem jloop_head1 (pt : Bool) (fl) (l : LineF) (n : Int) (h : isJHead pt l 1 n = true) (m lineNo : Nat) (first : Bool)
    (rest : List LineF) (st : LoopSt) :
    jetscapeLoop none fl 1 (m + 1) lineNo first (l :: rest) st = jetscapeLoop none fl 1 m (lineNo + 1) false rest st := by
  obtain ⟨a, _, c, d, e', ⟨t, ht, hp⟩, _⟩ := jhead_facts h
  simp [jetscapeLoop, a, c, d, e', ht, hp]

/-- every other event header closes the event before it -/
theorem jloop_head (pt : Bool) (fl) (l : LineF) (e n : Int) (h : isJHead pt l e n = true) (he : e ≠ 1) (m lineNo : Nat)
    (first : Bool) (rest : List LineF) (pl d c cut) :
    jetscapeLoop none fl 1 (m + 1) lineNo first (l :: rest) ⟨pl, d, c, cut⟩
      = jetscapeLoop none fl 1 m (lineNo + 1) false rest ⟨pl ++ [d], [], c, cut⟩ := by
  obtain ⟨a, _, c', d', e', ⟨t, ht, hp⟩, _⟩ := jhead_facts h
  simp [jetscapeLoop, a, c', d', e', ht, hp, he, closeEvent_none, bind, Except.bind]

theorem jloop_parts (fl) (ps : List LineF) (hps : ∀ p ∈ ps, isJPart p = true) (m lineNo : Nat)
    (rest : List LineF) (pl d c cut) :
    jetscapeLoop none fl 1 (ps.length + m) lineNo false (ps ++ rest) ⟨pl, d, c, cut⟩
      = jetscapeLoop none fl 1 m (lineNo + ps.length) false rest ⟨pl, d ++ plinesFromTab lineNo ps, c, cut⟩ := by
  induction ps generalizing lineNo d with
  | nil => simp [plinesFromTab]
  | cons p ps ih =>
    have hp := hps p (by simp)
    simp only [isJPart, Bool.and_eq_true, Bool.not_eq_true', beq_iff_eq] at hp
    obtain ⟨⟨⟨⟨h1, h2⟩, h3⟩, h4⟩, h5⟩ := hp
    have : (p :: ps).length + m = (ps.length + m) + 1 := by simp; omega
    rw [this]
    simp only [List.cons_append, jetscapeLoop]
    simp only [h1, h3, h4, h5, Bool.false_and, Bool.false_eq_true, if_false, bne_self_eq_false, Bool.not_true]
    rw [ih (fun q hq => hps q (by simp [hq]))]
    simp [plinesFromTab, Nat.add_assoc, Nat.add_comm 1]

theorem jloop_trailer (pt : Bool) (fl) (l : LineF) (h : isJTrail pt l = true) (m lineNo : Nat) (first : Bool)
    (rest : List LineF) (pl d c cut) :
    jetscapeLoop none fl 1 (m + 1) lineNo first (l :: rest) ⟨pl, d, c, cut⟩
      = jetscapeLoop none fl 1 m (lineNo + 1) false rest ⟨pl ++ [d], [], c, cut⟩ := by
  simp only [isJTrail, Bool.and_eq_true] at h
  simp [jetscapeLoop, h.1.1, h.1.2, closeEvent_none, bind, Except.bind]

theorem jloop_ok_le (filt fl fh) (n : Nat) : ∀ (lineNo : Nat) (first : Bool) (lines : List LineF) (st st' : LoopSt),
    jetscapeLoop filt fl fh n lineNo first lines st = .ok st' → n ≤ lines.length := by
  induction n with
  | zero => intros; omega
  | succ n ih =>
    intro lineNo first lines st st' h
    cases lines with
    | nil => simp [jetscapeLoop] at h
    | cons l ls =>
      simp only [jetscapeLoop] at h
      simp only [List.length_cons, Nat.add_le_add_iff_right]
      split at h
      · cases hc : closeEvent st filt fl with
        | error e => simp [hc, bind, Except.bind] at h
        | ok s2 => simp only [hc, bind, Except.bind] at h; exact ih _ _ _ _ _ h
      · split at h
        · cases h
        · split at h
          · split at h
            · cases h
            · split at h
              · cases h
              · split at h
                · exact ih _ _ _ _ _ h
                · cases hc : closeEvent st filt fl with
                  | error e => simp [hc, bind, Except.bind] at h
                  | ok s2 => simp only [hc, bind, Except.bind] at h; exact ih _ _ _ _ _ h
          · split at h
            · cases h
            · split at h
              · cases h
              · exact ih _ _ _ _ _ h

theorem JBlock.lines_length (b : JBlock) : b.lines.length = b.parts.length + 1 := by
  simp [JBlock.lines]

theorem jobs_head {pt} {b : JBlock} (h : b.obs pt = true) : isJHead pt b.head b.label b.announced = true := by
  simp only [JBlock.obs, Bool.and_eq_true] at h; exact h.1
theorem jobs_parts {pt} {b : JBlock} (h : b.obs pt = true) : ∀ p ∈ b.parts, isJPart p = true := by
  simp only [JBlock.obs, Bool.and_eq_true, List.all_eq_true] at h; exact h.2

theorem jblocksLines_cons (b : JBlock) (bs) : jblocksLines (b :: bs) = b.lines ++ jblocksLines bs := by
  simp [jblocksLines]

theorem jblocksLines_append (as bs : List JBlock) : jblocksLines (as ++ bs) = jblocksLines as ++ jblocksLines bs := by
  simp [jblocksLines]

/-- events closed while reading blocks whose headers all differ from the first header: the pending data `d`,
then every block but the last -/
def closedBy (d : List PLine) : Nat → List JBlock → List (List PLine)
  | _, [] => []
  | n, b :: bs => d :: closedBy (plinesFromTab (n + 1) b.parts) (n + 1 + b.parts.length) bs

/-- the data still pending afterwards -/
def lastData (d : List PLine) : Nat → List JBlock → List PLine
  | _, [] => d
  | n, b :: bs => lastData (plinesFromTab (n + 1) b.parts) (n + 1 + b.parts.length) bs

theorem closedBy_length (d n) (bs : List JBlock) : (closedBy d n bs).length = bs.length := by
  induction bs generalizing d n with
  | nil => rfl
  | cons b bs ih => simp [closedBy, ih]

theorem closedBy_last (d : List PLine) (n : Nat) (bs : List JBlock) :
    closedBy d n bs ++ [lastData d n bs] = d :: jeventsFrom n bs := by
  induction bs generalizing d n with
  | nil => rfl
  | cons b bs ih =>
    simp only [closedBy, lastData, List.cons_append, ih, jeventsFrom]
    congr 3
    omega

/-- blocks whose labels differ from the first header -/
theorem jloop_blocks (pt : Bool) (fl) (bs : List JBlock) (hbs : ∀ b ∈ bs, b.obs pt = true) (hl : ∀ b ∈ bs, b.label ≠ 1)
    (m lineNo : Nat) (first : Bool) (rest : List LineF) (pl d c cut) :
    jetscapeLoop none fl 1 ((jblocksLines bs).length + m) lineNo first (jblocksLines bs ++ rest) ⟨pl, d, c, cut⟩
      = jetscapeLoop none fl 1 m (lineNo + (jblocksLines bs).length) (first && bs.isEmpty) rest
          ⟨pl ++ closedBy d lineNo bs, lastData d lineNo bs, c, cut⟩ := by
  induction bs generalizing lineNo first pl d with
  | nil => simp [jblocksLines, closedBy, lastData]
  | cons b bs ih =>
    have hb := hbs b (by simp)
    rw [jblocksLines_cons]
    have e1 : (b.lines ++ jblocksLines bs).length + m = (b.parts.length + ((jblocksLines bs).length + m)) + 1 := by
      simp [JBlock.lines_length]; omega
    rw [e1, List.append_assoc]
    simp only [JBlock.lines, List.cons_append]
    rw [jloop_head pt fl b.head _ _ (jobs_head hb) (hl b (by simp)), jloop_parts fl b.parts (jobs_parts hb)]
    rw [ih (fun q hq => hbs q (by simp [hq])) (fun q hq => hl q (by simp [hq]))]
    simp [closedBy, lastData, Nat.add_assoc, Nat.add_comm 1]

theorem jlabels_ne_one (n : Int) (hn : 2 ≤ n) (bs : List JBlock) (h : jlabelsFrom n bs = true) : ∀ b ∈ bs, b.label ≠ 1 := by
  induction bs generalizing n with
  | nil => simp
  | cons a as ih =>
    simp only [jlabelsFrom, Bool.and_eq_true, beq_iff_eq] at h
    intro b hb
    rcases List.mem_cons.mp hb with rfl | hb
    · omega
    · exact ih (n + 1) (by omega) h.2 b hb

/-- the whole body of a well-observed file up to (not including) the trailer: all events but the last are closed,
the particles of the last one are pending -/
theorem jloop_body (pt : Bool) (fl) (b : JBlock) (bs : List JBlock) (hbs : ∀ b' ∈ b :: bs, b'.obs pt = true)
    (hl : jlabelsFrom 1 (b :: bs) = true) (m lineNo : Nat) (first : Bool) (rest : List LineF) (c cut) :
    jetscapeLoop none fl 1 ((jblocksLines (b :: bs)).length + m) lineNo first (jblocksLines (b :: bs) ++ rest) ⟨[], [], c, cut⟩
      = jetscapeLoop none fl 1 m (lineNo + (jblocksLines (b :: bs)).length) false rest
          ⟨closedBy (plinesFromTab (lineNo + 1) b.parts) (lineNo + 1 + b.parts.length) bs,
           lastData (plinesFromTab (lineNo + 1) b.parts) (lineNo + 1 + b.parts.length) bs, c, cut⟩ := by
  simp only [jlabelsFrom, Bool.and_eq_true, beq_iff_eq] at hl
  have hb := hbs b (by simp)
  have hh := jobs_head hb
  rw [hl.1] at hh
  rw [jblocksLines_cons]
  have e1 : (b.lines ++ jblocksLines bs).length + m = (b.parts.length + ((jblocksLines bs).length + m)) + 1 := by
    simp [JBlock.lines_length]; omega
  rw [e1, List.append_assoc]
  simp only [JBlock.lines, List.cons_append]
  rw [jloop_head1 pt fl b.head _ hh, jloop_parts fl b.parts (jobs_parts hb)]
  rw [jloop_blocks pt fl bs (fun q hq => hbs q (by simp [hq])) (jlabels_ne_one 2 (by omega) bs hl.2)]
  simp [Nat.add_assoc, Nat.add_comm 1]

/-! ## JETSCAPE: scan, counts, spine -/

def jscanSilent (pt : Bool) (l : LineF) : Bool := !(l.hasHash && jKey pt l)

theorem jscan_silent (pt : Bool) (l : LineF) (ls : List LineF) (h : jscanSilent pt l = true) :
    jetscapeScan pt (l :: ls) = jetscapeScan pt ls := by
  simp only [jscanSilent, jKey, Bool.not_eq_true'] at h
  rw [jetscapeScan]
  simp [h]

theorem jscan_silents (pt : Bool) (ps : List LineF) (hps : ∀ p ∈ ps, jscanSilent pt p = true) (t : List LineF) :
    jetscapeScan pt (ps ++ t) = jetscapeScan pt t := by
  induction ps with
  | nil => rfl
  | cons p ps ih =>
    rw [List.cons_append, jscan_silent _ _ _ (hps p (by simp)), ih (fun q hq => hps q (by simp [hq]))]

theorem isJPart_silent {pt l} (h : isJPart l = true) : jscanSilent pt l = true := by
  simp only [isJPart, Bool.and_eq_true, Bool.not_eq_true'] at h
  simp [jscanSilent, h.1.1.1.1]

theorem isJHdr_silent {pt l} (h : isJHdr pt l = true) : jscanSilent pt l = true := by
  simp only [isJHdr, Bool.and_eq_true] at h; exact h.1

theorem isJTrail_silent {pt l} (h : isJTrail pt l = true) : jscanSilent pt l = true := by
  simp only [isJTrail, Bool.and_eq_true, Bool.not_eq_true'] at h
  simp [jscanSilent, h.2]

theorem jscan_head (pt : Bool) (l : LineF) (e n : Int) (h : isJHead pt l e n = true) (ls : List LineF) :
    jetscapeScan pt (l :: ls) = (jetscapeScan pt ls).map (fun r => (e, n) :: r) := by
  obtain ⟨a, b, _, _, _, ⟨t2, ht2, hp2⟩, ⟨t8, ht8, hp8⟩⟩ := jhead_facts h
  simp only [jKey] at b
  rw [jetscapeScan]
  simp only [a, b, Bool.and_self, if_true, ht2, ht8]
  cases jetscapeScan pt ls with
  | error e => simp [hp2, hp8, bind, Except.bind, pure, Except.pure, Except.map]
  | ok rf => simp [hp2, hp8, bind, Except.bind, pure, Except.pure, Except.map]

theorem jscan_blocks (pt : Bool) (bs : List JBlock) (hbs : ∀ b ∈ bs, b.obs pt = true) (t : List LineF) :
    jetscapeScan pt (jblocksLines bs ++ t) = (jetscapeScan pt t).map (fun r => jrowsOf bs ++ r) := by
  induction bs with
  | nil =>
    simp only [jblocksLines, List.flatMap_nil, List.nil_append, jrowsOf, List.map_nil]
    cases jetscapeScan pt t with
    | error e => rfl
    | ok rf => rfl
  | cons b bs ih =>
    have hb := hbs b (by simp)
    rw [jblocksLines_cons, List.append_assoc]
    simp only [JBlock.lines, List.cons_append]
    rw [jscan_head pt _ _ _ (jobs_head hb),
      jscan_silents pt _ (fun p hp => isJPart_silent (jobs_parts hb p hp)), ih (fun q hq => hbs q (by simp [hq]))]
    cases jetscapeScan pt t with
    | error e => rfl
    | ok rf => simp [Except.map, jrowsOf]

/-- lines asked for by the rows (without the trailer) -/
def jnreadOf (rows : List (Int × Int)) : Int := sumCounts rows 0 + (rows.length : Int)

theorem jnreadOf_nil : jnreadOf [] = 0 := rfl

theorem jnreadOf_cons (r : Int × Int) (rs) : jnreadOf (r :: rs) = r.2 + 1 + jnreadOf rs := by
  simp only [jnreadOf, sumCounts_cons, List.length_cons]; omega

theorem jnreadOf_append (a b) : jnreadOf (a ++ b) = jnreadOf a + jnreadOf b := by
  simp only [jnreadOf, sumCounts_append, List.length_append]; omega

def jannLines : List JBlock → Int
  | [] => 0
  | b :: bs => b.announced + 1 + jannLines bs

theorem jnreadOf_rowsOf (bs : List JBlock) : jnreadOf (jrowsOf bs) = jannLines bs := by
  induction bs with
  | nil => rfl
  | cons b bs ih =>
    have : jrowsOf (b :: bs) = (b.label, b.announced) :: jrowsOf bs := rfl
    rw [this, jnreadOf_cons, jannLines, ih]

theorem jannLines_consistent (bs : List JBlock) (h : jconsistent bs = true) :
    jannLines bs = ((jblocksLines bs).length : Int) := by
  induction bs with
  | nil => rfl
  | cons b bs ih =>
    simp only [jconsistent, List.all_cons, Bool.and_eq_true, beq_iff_eq] at h
    rw [jblocksLines_cons, jannLines, ih (by simpa [jconsistent] using h.2), h.1]
    simp [JBlock.lines_length]

theorem jannLines_append (as bs : List JBlock) : jannLines (as ++ bs) = jannLines as + jannLines bs := by
  induction as with
  | nil => simp [jannLines]
  | cons a as ih => simp only [List.cons_append, jannLines, ih]; omega

def firstLabJ (rows : List (Int × Int)) : Int := match rows with | r :: _ => r.1 | [] => 1

def jCore (rows : List (Int × Int)) (body : List LineF) : Except Err Loaded :=
  if jnreadOf rows + 1 < 0 then .error .index else
  match jetscapeLoop none (firstLabJ rows) 1 (jnreadOf rows + 1).toNat 1 true body ⟨[], [], .arr2d rows, 0⟩ with
  | .error e => .error e
  | .ok st =>
    if (st.plist.length : Int) != (rows.length : Int) - st.cut then .error .index else
    .ok { events := if st.plist.isEmpty then [[]] else st.plist, numEvents := (rows.length : Int) - st.cut,
          counts := st.counts, fmt := none, customAttrs := [], footers := [] }

theorem readJetscape_eq (f : FileF) (pt : Bool) :
    readJetscape f .all pt none =
      match jetscapeInitOk f with
      | .error e => .error e
      | .ok _ => match jetscapeScan pt f.lines with
        | .error e => .error e
        | .ok rows => jCore rows (f.lines.drop 1) := by
  unfold readJetscape
  simp only [validSel, bind, Except.bind, pure, Except.pure]
  cases jetscapeInitOk f with
  | error e => rfl
  | ok u =>
    simp only []
    cases jetscapeScan pt f.lines with
    | error e => rfl
    | ok rows =>
      simp only [skipLines, readLines, selectRows, jCore, jnreadOf, finish, firstLabJ, Int.one_mul]
      have e3 : Int.toNat 1 = 1 := rfl
      have e4 : decide ((1 : Int) < 0) = false := by decide
      rw [e3, e4, Bool.or_false]
      by_cases hn : sumCounts rows 0 + (rows.length : Int) + 1 < 0
      · simp only [hn, decide_true, if_true]; rfl
      · simp only [hn, decide_false, Bool.false_eq_true, if_false]
        cases rows with
        | nil =>
          dsimp only
          split
          · rename_i hst; simp only [hst]
          · rename_i st hst
            simp only [hst]
            by_cases hc : ((st.plist.length : Int) != ((([] : List (Int × Int)).length : Nat) : Int) - st.cut) = true
            · simp only [hc, if_true]; rfl
            · simp only [hc]; rfl
        | cons r rs =>
          dsimp only
          split
          · rename_i hst; simp only [hst]
          · rename_i st hst
            simp only [hst]
            by_cases hc : ((st.plist.length : Int) != (((r :: rs).length : Nat) : Int) - st.cut) = true
            · simp only [hc, if_true]; rfl
            · simp only [hc]; rfl

/-! ## JETSCAPE: scenarios -/

structure JPre (pt : Bool) (h1 : LineF) (bs : List JBlock) : Prop where
  hh1 : isJHdr pt h1 = true
  hbs : ∀ b ∈ bs, b.obs pt = true

theorem jinit_last (pre : List LineF) (l : LineF) (nl : Bool) (hpre : pre ≠ []) :
    jetscapeInitOk ⟨pre ++ [l], nl⟩ = if l.hasSigma then .ok () else .error .value := by
  unfold jetscapeInitOk
  rw [lastLine_concat pre l nl hpre]
  rfl

theorem readJetscape_init_error (f : FileF) (pt : Bool) (e : Err) (h : jetscapeInitOk f = .error e) :
    readJetscape f .all pt none = .error e := by
  rw [readJetscape_eq, h]

/-- the constructor's last-line test: a file whose last line lacks `sigmaGen` (or that has fewer than two lines)
is rejected -/
theorem jread_nosigma (pre : List LineF) (l : LineF) (nl : Bool) (pt : Bool) (h : l.hasSigma = false) :
    ∃ e, readJetscape ⟨pre ++ [l], nl⟩ .all pt none = .error e := by
  cases pre with
  | nil =>
    obtain ⟨e, he⟩ := lastLine_short [l] nl (by simp)
    exact ⟨e, readJetscape_init_error _ pt e (by simp only [List.nil_append]; unfold jetscapeInitOk; rw [he]; rfl)⟩
  | cons a as =>
    exact ⟨.value, readJetscape_init_error _ pt .value (by rw [jinit_last _ _ _ (by simp), h]; rfl)⟩

theorem jread_empty (nl : Bool) (pt : Bool) : ∃ e, readJetscape ⟨[], nl⟩ .all pt none = .error e :=
  ⟨.os, readJetscape_init_error _ pt .os rfl⟩

theorem jread_tail {pt h1 bs} (H : JPre pt h1 bs) (tail : List LineF) (nl : Bool) :
    readJetscape ⟨h1 :: (jblocksLines bs ++ tail), nl⟩ .all pt none =
      match jetscapeInitOk ⟨h1 :: (jblocksLines bs ++ tail), nl⟩ with
      | .error e => .error e
      | .ok _ => match jetscapeScan pt tail with
        | .error e => .error e
        | .ok r => jCore (jrowsOf bs ++ r) (jblocksLines bs ++ tail) := by
  rw [readJetscape_eq]
  cases jetscapeInitOk ⟨h1 :: (jblocksLines bs ++ tail), nl⟩ with
  | error e => rfl
  | ok u =>
    simp only []
    rw [jscan_silent pt _ _ (isJHdr_silent H.hh1), jscan_blocks pt bs H.hbs]
    cases jetscapeScan pt tail with
    | error e => rfl
    | ok r => rfl

/-- the core after the whole body (all event blocks) has been consumed -/
theorem jcore_body {pt} (b : JBlock) (bs : List JBlock) (hbs : ∀ b' ∈ b :: bs, b'.obs pt = true)
    (hl : jlabelsFrom 1 (b :: bs) = true) (hcons : jannLines (b :: bs) = ((jblocksLines (b :: bs)).length : Int))
    (rt : List (Int × Int)) (hx : 0 ≤ jnreadOf rt) (tail : List LineF) :
    jCore (jrowsOf (b :: bs) ++ rt) (jblocksLines (b :: bs) ++ tail) =
      match jetscapeLoop none (firstLabJ (jrowsOf (b :: bs) ++ rt)) 1 (jnreadOf rt + 1).toNat
          (1 + (jblocksLines (b :: bs)).length) false tail
          ⟨closedBy (plinesFromTab 2 b.parts) (2 + b.parts.length) bs, lastData (plinesFromTab 2 b.parts) (2 + b.parts.length) bs,
            .arr2d (jrowsOf (b :: bs) ++ rt), 0⟩ with
      | .error e => .error e
      | .ok st =>
        if (st.plist.length : Int) != ((jrowsOf (b :: bs) ++ rt).length : Int) - st.cut then .error .index else
        .ok { events := if st.plist.isEmpty then [[]] else st.plist,
              numEvents := ((jrowsOf (b :: bs) ++ rt).length : Int) - st.cut,
              counts := st.counts, fmt := none, customAttrs := [], footers := [] } := by
  have hn : jnreadOf (jrowsOf (b :: bs) ++ rt) = ((jblocksLines (b :: bs)).length : Int) + jnreadOf rt := by
    rw [jnreadOf_append, jnreadOf_rowsOf, hcons]
  have hn2 : (jnreadOf (jrowsOf (b :: bs) ++ rt) + 1).toNat = (jblocksLines (b :: bs)).length + (jnreadOf rt + 1).toNat := by
    rw [hn]; omega
  unfold jCore
  have : ¬ jnreadOf (jrowsOf (b :: bs) ++ rt) + 1 < 0 := by rw [hn]; omega
  simp only [this, if_false]
  rw [hn2, jloop_body pt _ b bs hbs hl]

/-- what the loop can do with one arbitrary last line: fail, close the pending event, or leave the list of closed
events as it is -/
theorem jloop_lastP (fl) (P : LineF) (lineNo : Nat) (pl d c cut) (r : Except Err LoopSt)
    (h : jetscapeLoop none fl 1 1 lineNo false [P] ⟨pl, d, c, cut⟩ = r) :
    (∃ e, r = .error e) ∨ r = .ok ⟨pl ++ [d], [], c, cut⟩ ∨ ∃ d', r = .ok ⟨pl, d', c, cut⟩ := by
  simp only [jetscapeLoop, closeEvent_none, bind, Except.bind, Bool.false_and, Bool.false_eq_true, if_false] at h
  subst h
  split
  · right; left; rfl
  · split
    · split
      · left; exact ⟨_, rfl⟩
      · split
        · left; exact ⟨_, rfl⟩
        · split
          · right; right; exact ⟨_, rfl⟩
          · right; left; rfl
    · split
      · left; exact ⟨_, rfl⟩
      · split
        · left; exact ⟨_, rfl⟩
        · right; right; exact ⟨_, rfl⟩

theorem jeventsFrom_length (n : Nat) (bs : List JBlock) : (jeventsFrom n bs).length = bs.length := by
  induction bs generalizing n with
  | nil => rfl
  | cons b bs ih => simp [jeventsFrom, ih]

theorem closed_all (b : JBlock) (bs : List JBlock) :
    closedBy (plinesFromTab 2 b.parts) (2 + b.parts.length) bs ++ [lastData (plinesFromTab 2 b.parts) (2 + b.parts.length) bs]
      = jeventsFrom 1 (b :: bs) := by
  rw [closedBy_last]
  simp only [jeventsFrom]
  congr 2
  omega

/-- if the scan takes `P` for an event header, the count it reads is not negative -/
def jcountHyp (pt : Bool) (P : LineF) : Prop :=
  P.hasHash = true → jKey pt P = true → ∀ n, tokInt P.toksTab 8 = some n → 0 ≤ n

theorem jscan_single (pt : Bool) (P : LineF) (r : List (Int × Int)) (h : jetscapeScan pt [P] = .ok r) :
    r = [] ∨ ∃ e n, r = [(e, n)] ∧ P.hasHash = true ∧ jKey pt P = true ∧ tokInt P.toksTab 8 = some n := by
  rw [jetscapeScan] at h
  have hk : (if pt then P.hasNPartons else P.hasNHadrons) = jKey pt P := rfl
  simp only [jetscapeScan, bind, Except.bind, pure, Except.pure, hk] at h
  by_cases hO : (P.hasHash && jKey pt P) = true
  · right
    simp only [hO, if_true] at h
    simp only [Bool.and_eq_true] at hO
    cases h2 : P.toksTab[2]? with
    | none => simp [h2, throw, throwThe, MonadExceptOf.throw] at h
    | some t2 =>
      cases h8 : P.toksTab[8]? with
      | none => simp [h2, h8, throw, throwThe, MonadExceptOf.throw] at h
      | some t8 =>
        cases p2 : pyInt? t2 with
        | none => simp [h2, h8, p2, throw, throwThe, MonadExceptOf.throw] at h
        | some e =>
          cases p8 : pyInt? t8 with
          | none => simp [h2, h8, p2, p8, throw, throwThe, MonadExceptOf.throw] at h
          | some n =>
            simp only [h2, h8, p2, p8] at h
            cases h
            exact ⟨e, n, rfl, hO.1, hO.2, by simp [tokInt, h8, p8]⟩
  · simp only [hO] at h
    cases h; exact Or.inl rfl

theorem jscan_trailer (pt : Bool) (t : LineF) (h : isJTrail pt t = true) : jetscapeScan pt [t] = .ok [] := by
  rw [jscan_silent pt _ _ (isJTrail_silent h)]; rfl

theorem jinit_trailer {pt h1} (bs : List JBlock) (t : LineF) (nl : Bool) (h : isJTrail pt t = true) :
    jetscapeInitOk ⟨h1 :: (jblocksLines bs ++ [t]), nl⟩ = .ok () := by
  have e : h1 :: (jblocksLines bs ++ [t]) = (h1 :: jblocksLines bs) ++ [t] := by simp
  simp only [isJTrail, Bool.and_eq_true] at h
  rw [e, jinit_last _ _ _ (by simp), h.1.2]; rfl

theorem jrowsOf_length (bs : List JBlock) : (jrowsOf bs).length = bs.length := by simp [jrowsOf]

/-- **The undamaged JETSCAPE file** is loaded completely. -/
theorem jread_complete {pt h1} (b : JBlock) (bs : List JBlock) (H : JPre pt h1 (b :: bs))
    (hc : jconsistent (b :: bs) = true) (hl : jlabelsFrom 1 (b :: bs) = true) (t : LineF) (ht : isJTrail pt t = true)
    (nl : Bool) :
    ∃ L, readJetscape ⟨h1 :: (jblocksLines (b :: bs) ++ [t]), nl⟩ .all pt none = .ok L ∧
      L.events = jeventsFrom 1 (b :: bs) ∧ L.numEvents = ((b :: bs).length : Int) ∧ L.counts = .arr2d (jrowsOf (b :: bs)) := by
  rw [jread_tail H, jinit_trailer _ t nl ht]
  simp only [jscan_trailer pt t ht]
  rw [jcore_body b bs H.hbs hl (jannLines_consistent _ hc) [] (by simp [jnreadOf_nil])]
  have e1 : (jnreadOf [] + 1).toNat = 0 + 1 := rfl
  rw [e1, jloop_trailer pt _ t ht]
  simp only [jetscapeLoop, closed_all, jeventsFrom_length, List.append_nil, jrowsOf_length, Int.sub_zero,
    bne_self_eq_false, Bool.false_eq_true, if_false]
  refine ⟨_, rfl, ?_, rfl, rfl⟩
  simp [jeventsFrom]

/-- **JETSCAPE, one particle line too few**: after the trailer the loop still wants a line — `IndexError`. -/
theorem jread_missing {pt h1} (b : JBlock) (bs : List JBlock) (H : JPre pt h1 (b :: bs))
    (hl : jlabelsFrom 1 (b :: bs) = true) (hcount : jannLines (b :: bs) = ((jblocksLines (b :: bs)).length : Int) + 1)
    (t : LineF) (ht : isJTrail pt t = true) (nl : Bool) :
    readJetscape ⟨h1 :: (jblocksLines (b :: bs) ++ [t]), nl⟩ .all pt none = .error .index := by
  rw [jread_tail H, jinit_trailer _ t nl ht]
  simp only [jscan_trailer pt t ht, List.append_nil]
  unfold jCore
  rw [jnreadOf_rowsOf, hcount]
  have h0 : ¬ ((jblocksLines (b :: bs)).length : Int) + 1 + 1 < 0 := by omega
  have h1' : (((jblocksLines (b :: bs)).length : Int) + 1 + 1).toNat = (jblocksLines (b :: bs)).length + (1 + 1) := by omega
  simp only [h0, if_false, h1']
  rw [jloop_body pt _ b bs H.hbs hl, jloop_trailer pt _ t ht]
  simp [jetscapeLoop]

/-- **JETSCAPE, one particle line too many**: the loop stops before the trailer, the last event is never closed,
the event-number check fails — `IndexError`. -/
theorem jread_extra {pt h1} (b : JBlock) (bs : List JBlock) (H : JPre pt h1 (b :: bs))
    (hl : jlabelsFrom 1 (b :: bs) = true) (hcount : jannLines (b :: bs) + 1 = ((jblocksLines (b :: bs)).length : Int))
    (t : LineF) (ht : isJTrail pt t = true) (nl : Bool) :
    readJetscape ⟨h1 :: (jblocksLines (b :: bs) ++ [t]), nl⟩ .all pt none = .error .index := by
  rw [jread_tail H, jinit_trailer _ t nl ht]
  simp only [jscan_trailer pt t ht, List.append_nil]
  unfold jCore
  rw [jnreadOf_rowsOf]
  have h0 : ¬ jannLines (b :: bs) + 1 < 0 := by omega
  have h1' : (jannLines (b :: bs) + 1).toNat = (jblocksLines (b :: bs)).length + 0 := by omega
  simp only [h0, if_false, h1']
  rw [jloop_body pt _ b bs H.hbs hl]
  simp only [jetscapeLoop, closedBy_length, jrowsOf_length, Int.sub_zero, List.length_cons]
  have : (((bs.length : Nat) : Int) != ((bs.length + 1 : Nat) : Int)) = true := by
    simp only [bne_iff_ne, ne_eq]; push_cast; omega
  simp only [this, if_true]

/-- **JETSCAPE, cut inside the trailer.**  All event blocks are intact, the last line is a partial line `P`: the loader
fails, or returns all events with matching counts. -/
theorem jread_cut_trailer {pt h1} (b : JBlock) (bs : List JBlock) (H : JPre pt h1 (b :: bs))
    (hc : jconsistent (b :: bs) = true) (hl : jlabelsFrom 1 (b :: bs) = true) (P : LineF) (hP : jcountHyp pt P)
    (nl : Bool) :
    (∃ e, readJetscape ⟨h1 :: (jblocksLines (b :: bs) ++ [P]), nl⟩ .all pt none = .error e) ∨
    (∃ L, readJetscape ⟨h1 :: (jblocksLines (b :: bs) ++ [P]), nl⟩ .all pt none = .ok L ∧
      L.events = jeventsFrom 1 (b :: bs) ∧ L.numEvents = ((b :: bs).length : Int) ∧ L.counts = .arr2d (jrowsOf (b :: bs))) := by
  rw [jread_tail H]
  cases jetscapeInitOk ⟨h1 :: (jblocksLines (b :: bs) ++ [P]), nl⟩ with
  | error e => exact Or.inl ⟨_, rfl⟩
  | ok u =>
    simp only []
    cases hs : jetscapeScan pt [P] with
    | error e => exact Or.inl ⟨_, rfl⟩
    | ok r =>
      simp only []
      rcases jscan_single pt P r hs with h | ⟨e, n, hr, a, b', d⟩
      · subst h
        rw [jcore_body b bs H.hbs hl (jannLines_consistent _ hc) [] (by simp [jnreadOf_nil])]
        have e1 : (jnreadOf [] + 1).toNat = 1 := rfl
        rw [e1]
        rcases jloop_lastP _ P _ _ _ _ _ _ rfl with ⟨e, he⟩ | he | ⟨d', he⟩
        · rw [he]; exact Or.inl ⟨_, rfl⟩
        · rw [he]
          right
          simp only [closed_all, jeventsFrom_length, List.append_nil, jrowsOf_length, Int.sub_zero,
            bne_self_eq_false, Bool.false_eq_true, if_false]
          refine ⟨_, rfl, ?_, rfl, rfl⟩
          simp [jeventsFrom]
        · rw [he]
          left
          simp only [closedBy_length, List.append_nil, jrowsOf_length, Int.sub_zero, List.length_cons]
          have : (((bs.length : Nat) : Int) != ((bs.length + 1 : Nat) : Int)) = true := by
            simp only [bne_iff_ne, ne_eq]; push_cast; omega
          simp only [this, if_true]
          exact ⟨_, rfl⟩
      · left
        have hn := hP a b' n d
        subst hr
        have hx : jnreadOf [(e, n)] = n + 1 := by rw [jnreadOf_cons, jnreadOf_nil]; simp
        rw [jcore_body b bs H.hbs hl (jannLines_consistent _ hc) [(e, n)] (by rw [hx]; omega)]
        cases hloop : jetscapeLoop none (firstLabJ (jrowsOf (b :: bs) ++ [(e, n)])) 1 (jnreadOf [(e, n)] + 1).toNat
            (1 + (jblocksLines (b :: bs)).length) false [P]
            ⟨closedBy (plinesFromTab 2 b.parts) (2 + b.parts.length) bs, lastData (plinesFromTab 2 b.parts) (2 + b.parts.length) bs,
              .arr2d (jrowsOf (b :: bs) ++ [(e, n)]), 0⟩ with
        | error e' => exact ⟨_, rfl⟩
        | ok st =>
          have := jloop_ok_le _ _ _ _ _ _ _ _ _ hloop
          rw [hx] at this
          simp only [List.length_cons, List.length_nil] at this
          omega

/-! ## JETSCAPE: from the structured file to positions in its line list -/

structure JWFacts (F : JFile) (pt : Bool) : Prop where
  pre : JPre pt F.h1 F.evs
  labels : jlabelsFrom 1 F.evs = true
  trailer : isJTrail pt F.trailer = true
  cons : jconsistent F.evs = true
  ne : F.evs ≠ []

theorem jwf_facts {F : JFile} {pt} (h : F.wf pt = true) : JWFacts F pt := by
  simp only [JFile.wf, JFile.obs, Bool.and_eq_true, Bool.not_eq_true', List.isEmpty_eq_false_iff, List.all_eq_true] at h
  obtain ⟨⟨⟨⟨⟨a, b⟩, c⟩, d⟩, e⟩, f⟩ := h
  exact ⟨⟨a, b⟩, c, d, e, f⟩

theorem jagrees_of {F : JFile} (hc : jconsistent F.evs = true) (L : Loaded)
    (h1 : L.events = jeventsFrom 1 F.evs) (h2 : L.numEvents = (F.evs.length : Int))
    (h3 : L.counts = .arr2d (jrowsOf F.evs)) : F.agrees L := by
  refine ⟨h1, h2, ?_⟩
  rw [h3]
  congr 1
  have : ∀ bs : List JBlock, jconsistent bs = true → jrowsOf bs = bs.map (fun b => (b.label, (b.parts.length : Int))) := by
    intro bs
    induction bs with
    | nil => intro _; rfl
    | cons b bs ih =>
      intro h
      simp only [jconsistent, List.all_cons, Bool.and_eq_true, beq_iff_eq] at h
      simp only [jrowsOf, List.map_cons, h.1]
      congr 1
      exact ih (by simpa [jconsistent] using h.2)
  exact this _ hc

/-- no line before the trailer contains `sigmaGen` -/
theorem jbody_nosigma {F : JFile} {pt} (W : JWFacts F pt) : ∀ l ∈ F.h1 :: jblocksLines F.evs, l.hasSigma = false := by
  intro l hl
  rcases List.mem_cons.mp hl with rfl | hl
  · have := W.pre.hh1
    simp only [isJHdr, Bool.and_eq_true, Bool.not_eq_true'] at this
    exact this.2
  · simp only [jblocksLines, List.mem_flatMap] at hl
    obtain ⟨b, hb, hlb⟩ := hl
    have hbo := W.pre.hbs b hb
    rcases List.mem_cons.mp hlb with rfl | hp
    · exact (jhead_facts (jobs_head hbo)).2.2.1
    · have := jobs_parts hbo l hp
      simp only [isJPart, Bool.and_eq_true, Bool.not_eq_true'] at this
      exact this.1.1.1.2

def jwithParts (bs : List JBlock) (k : Nat) (b : JBlock) (ps : List LineF) : List JBlock :=
  bs.take k ++ { b with parts := ps } :: bs.drop (k + 1)

theorem jsplit_block (bs : List JBlock) (k : Nat) (b : JBlock) (h : bs[k]? = some b) :
    bs = bs.take k ++ b :: bs.drop (k + 1) := by
  have hk : k < bs.length := by
    rcases Nat.lt_or_ge k bs.length with h' | h'
    · exact h'
    · rw [List.getElem?_eq_none h'] at h; cases h
  have : bs[k] = b := by
    have := List.getElem?_eq_getElem hk
    rw [this] at h; exact Option.some.inj h
  rw [← this, List.getElem_cons_drop]
  simp

theorem jlines_split (F : JFile) (k p : Nat) (b : JBlock) (x : LineF) (hb : F.evs[k]? = some b) (hx : b.parts[p]? = some x) :
    ∃ A B, F.lines = A ++ x :: B ∧ A.length = F.partPos k p ∧
      A ++ B = F.h1 :: (jblocksLines (jwithParts F.evs k b (b.parts.take p ++ b.parts.drop (p + 1))) ++ [F.trailer]) ∧
      A ++ x :: x :: B = F.h1 :: (jblocksLines (jwithParts F.evs k b (b.parts.take p ++ x :: x :: b.parts.drop (p + 1))) ++ [F.trailer]) := by
  have hp : p < b.parts.length := by
    rcases Nat.lt_or_ge p b.parts.length with h' | h'
    · exact h'
    · rw [List.getElem?_eq_none h'] at hx; cases hx
  have hxe : b.parts[p] = x := by
    have := List.getElem?_eq_getElem hp
    rw [this] at hx; exact Option.some.inj hx
  have hparts : b.parts = b.parts.take p ++ x :: b.parts.drop (p + 1) := by
    rw [← hxe, List.getElem_cons_drop]; simp
  refine ⟨F.h1 :: (jblocksLines (F.evs.take k) ++ b.head :: b.parts.take p),
    b.parts.drop (p + 1) ++ jblocksLines (F.evs.drop (k + 1)) ++ [F.trailer], ?_, ?_, ?_, ?_⟩
  · have h1 : F.lines = F.h1 :: (jblocksLines (F.evs.take k ++ b :: F.evs.drop (k + 1)) ++ [F.trailer]) := by
      rw [← jsplit_block F.evs k b hb]; rfl
    rw [h1, jblocksLines_append, jblocksLines_cons]
    conv => lhs; rw [JBlock.lines, hparts]
    simp
  · simp only [List.length_cons, List.length_append, List.length_take, JFile.partPos, JFile.headPos]
    omega
  · simp [jwithParts, jblocksLines_append, jblocksLines_cons, JBlock.lines]
  · simp [jwithParts, jblocksLines_append, jblocksLines_cons, JBlock.lines]

theorem jwithParts_obs {pt} (bs : List JBlock) (k : Nat) (b : JBlock) (ps : List LineF) (hb : bs[k]? = some b)
    (hbs : ∀ b' ∈ bs, b'.obs pt = true) (hps : ∀ q ∈ ps, q ∈ b.parts) :
    ∀ b' ∈ jwithParts bs k b ps, b'.obs pt = true := by
  intro b' hb'
  simp only [jwithParts, List.mem_append, List.mem_cons] at hb'
  have hbo := hbs b (List.mem_of_getElem? hb)
  rcases hb' with h | h | h
  · exact hbs b' (List.mem_of_mem_take h)
  · subst h
    simp only [JBlock.obs, Bool.and_eq_true, List.all_eq_true] at hbo ⊢
    exact ⟨hbo.1, fun q hq => hbo.2 q (hps q hq)⟩
  · exact hbs b' (List.mem_of_mem_drop h)

theorem jlabelsFrom_append (n : Int) (as bs : List JBlock) :
    jlabelsFrom n (as ++ bs) = (jlabelsFrom n as && jlabelsFrom (n + as.length) bs) := by
  induction as generalizing n with
  | nil => simp [jlabelsFrom]
  | cons a as ih =>
    simp only [List.cons_append, jlabelsFrom, ih, List.length_cons, Bool.and_assoc]
    congr 3
    push_cast
    omega

theorem jwithParts_labels (bs : List JBlock) (k : Nat) (b : JBlock) (ps : List LineF) (hb : bs[k]? = some b) (n : Int)
    (h : jlabelsFrom n bs = true) : jlabelsFrom n (jwithParts bs k b ps) = true := by
  have e := jsplit_block bs k b hb
  rw [e, jlabelsFrom_append] at h
  rw [jwithParts, jlabelsFrom_append]
  simpa [jlabelsFrom] using h

theorem jwithParts_ann (bs : List JBlock) (k : Nat) (b : JBlock) (ps : List LineF) (hb : bs[k]? = some b) :
    jannLines (jwithParts bs k b ps) = jannLines bs := by
  have e := jsplit_block bs k b hb
  conv => rhs; rw [e]
  simp [jwithParts, jannLines_append, jannLines]

theorem jwithParts_len (bs : List JBlock) (k : Nat) (b : JBlock) (ps : List LineF) (hb : bs[k]? = some b) :
    ((jblocksLines (jwithParts bs k b ps)).length : Int) + b.parts.length = (jblocksLines bs).length + ps.length := by
  have e := jsplit_block bs k b hb
  conv => rhs; rw [e]
  simp only [jwithParts, jblocksLines_append, jblocksLines_cons, List.length_append, JBlock.lines_length]
  push_cast
  omega

theorem jwithParts_ne (bs : List JBlock) (k : Nat) (b : JBlock) (ps : List LineF) : jwithParts bs k b ps ≠ [] := by
  simp [jwithParts]

/-! ## the constructor layer only adds errors -/

theorem oscarCtor_of_error (f : FileF) (e : Err) (h : readOscar f .all none = .error e) : oscarCtor f = .error e := by
  simp [oscarCtor, h, bind, Except.bind]

theorem oscarCtor_refines (f : FileF) : (∃ e, oscarCtor f = .error e) ∨ oscarCtor f = readOscar f .all none := by
  unfold oscarCtor
  cases readOscar f .all none with
  | error e => left; exact ⟨e, rfl⟩
  | ok L =>
    cases h : impactOk f L with
    | error e => left; exact ⟨e, by simp [h, bind, Except.bind]⟩
    | ok u => right; simp [h, bind, Except.bind, pure, Except.pure]

theorem jetscapeCtor_of_error (f : FileF) (pt : Bool) (e : Err) (h : readJetscape f .all pt none = .error e) :
    jetscapeCtor f pt = .error e := by
  simp [jetscapeCtor, h, bind, Except.bind]

theorem jetscapeCtor_refines (f : FileF) (pt : Bool) :
    (∃ e, jetscapeCtor f pt = .error e) ∨ jetscapeCtor f pt = readJetscape f .all pt none := by
  unfold jetscapeCtor
  cases readJetscape f .all pt none with
  | error e => left; exact ⟨e, rfl⟩
  | ok L =>
    cases h : sigmaOk f with
    | error e => left; exact ⟨e, by simp [bind, Except.bind]⟩
    | ok u => right; simp [bind, Except.bind, pure, Except.pure]

/-! ## `agrees` spelled out: the counts are the lengths of the returned lists -/

theorem plinesFrom_length (n : Nat) (ls : List LineF) : (plinesFrom n ls).length = ls.length := by
  induction ls generalizing n with
  | nil => rfl
  | cons l ls ih => simp [plinesFrom, ih]

theorem plinesFromTab_length (n : Nat) (ls : List LineF) : (plinesFromTab n ls).length = ls.length := by
  induction ls generalizing n with
  | nil => rfl
  | cons l ls ih => simp [plinesFromTab, ih]

theorem eventsFrom_lengths (n : Nat) (bs : List Block) :
    (eventsFrom n bs).map (fun e => (e.length : Int)) = bs.map (fun b => (b.parts.length : Int)) := by
  induction bs generalizing n with
  | nil => rfl
  | cons b bs ih => simp [eventsFrom, plinesFrom_length, ih]

theorem jeventsFrom_lengths (n : Nat) (bs : List JBlock) :
    (jeventsFrom n bs).map (fun e => (e.length : Int)) = bs.map (fun b => (b.parts.length : Int)) := by
  induction bs generalizing n with
  | nil => rfl
  | cons b bs ih => simp [jeventsFrom, plinesFromTab_length, ih]

/-! # A keep-everything constructor filter (`filters={}`, `{'charged_particles': False}` …)

With `filters=` given, the loaders rewrite the count row of every event they close; nothing else changes.  The loop run
with `idFilter` is simulated by the loop without filters: same closed events, same pending data, same `cut`; only the
counts array differs (or the rewriting fails).  Hence a file rejected without options is rejected with such options,
and a file accepted with them is accepted without them, with the same events and `num_events`. -/

theorem closeEvent_id (pl : List (List PLine)) (d : List PLine) (c : Counts) (cut : Int) (fl : Int) :
    closeEvent ⟨pl, d, c, cut⟩ (some idFilter) fl =
      match setRow c pl.length ((pl.length : Int) + fl, (d.length : Int)) with
      | .error e => .error e
      | .ok c' => .ok ⟨pl ++ [d], [], c', cut⟩ := by
  simp only [closeEvent, idFilter, bind, Except.bind, pure, Except.pure, ne_or_eq_zero, if_true]
  cases setRow c pl.length ((pl.length : Int) + fl, (d.length : Int)) with
  | error e => rfl
  | ok c' => rfl

/-- loop states that differ at most in the counts array -/
def SameBut (s t : LoopSt) : Prop := s.plist = t.plist ∧ s.data = t.data ∧ s.cut = t.cut

theorem loop_id_sim (fmt attrs fl fl') (n : Nat) : ∀ (lineNo : Nat) (first : Bool) (lines : List LineF) (s t s' : LoopSt),
    SameBut s t → oscarLoop fmt attrs (some idFilter) fl n lineNo first lines s = .ok s' →
    ∃ t', oscarLoop fmt attrs none fl' n lineNo first lines t = .ok t' ∧ SameBut s' t' := by
  induction n with
  | zero =>
    intro lineNo first lines s t s' hst h
    simp only [oscarLoop] at h ⊢
    cases h
    exact ⟨t, rfl, hst⟩
  | succ n ih =>
    intro lineNo first lines s t s' hst h
    obtain ⟨spl, sd, sc, scut⟩ := s
    obtain ⟨tpl, td, tc, tcut⟩ := t
    obtain ⟨e1, e2, e3⟩ := hst
    simp only at e1 e2 e3
    subst e1 e2 e3
    cases lines with
    | nil => simp [oscarLoop] at h
    | cons l ls =>
      simp only [oscarLoop] at h ⊢
      split at h
      · cases h
      · rename_i h0
        simp only [h0]
        split at h
        · rename_i h1
          simp only [h1, if_true]
          (refine ih _ _ _ _ _ _ ?_ h; exact ⟨rfl, rfl, rfl⟩)
        · rename_i h1
          simp only [h1]
          split at h
          · rename_i h2
            simp only [h2, if_true]
            rw [closeEvent_id] at h
            rw [closeEvent_none]
            cases hs : setRow sc spl.length ((spl.length : Int) + fl, (sd.length : Int)) with
            | error e => simp [hs, bind, Except.bind] at h
            | ok c' =>
              simp only [hs, bind, Except.bind] at h ⊢
              (refine ih _ _ _ _ _ _ ?_ h; exact ⟨rfl, rfl, rfl⟩)
          · rename_i h2
            simp only [h2]
            split at h
            · cases h
            · rename_i h3
              simp only [h3]
              split at h
              · cases h
              · rename_i h4
                simp only [h4]
                split at h
                · cases h
                · rename_i h5
                  simp only [h5]
                  (refine ih _ _ _ _ _ _ ?_ h; exact ⟨rfl, rfl, rfl⟩)

/-- `oscarCore` with a constructor filter -/
def oscarCoreG (filt : Option EvFilter) (fmt : Fmt) (attrs : List String) (ne : Int) (rows : List (Int × Int))
    (foot : List String) (body : List LineF) : Except Err Loaded :=
  if nreadOf rows < 0 then .error .index else
  match oscarLoop fmt attrs filt (firstLab rows) (nreadOf rows).toNat 3 true body ⟨[], [], .arr2d rows, 0⟩ with
  | .error e => .error e
  | .ok st =>
    if (st.plist.length : Int) != ne - st.cut then .error .index else
    .ok { events := if st.plist.isEmpty then [[]] else st.plist, numEvents := ne - st.cut, counts := st.counts,
          fmt := some fmt, customAttrs := attrs, footers := foot }

theorem readOscar_eqG (filt : Option EvFilter) (f : FileF) (first : LineF) (fmt : Fmt) (attrs : List String)
    (h1 : f.lines.head? = some first) (h2 : oscarFormat first = .ok (fmt, attrs)) (h3 : fmtModelled fmt = true) :
    readOscar f .all filt =
      match oscarNumEvents f with
      | .error e => .error e
      | .ok ne => match oscarScan f.lines with
        | .error e => .error e
        | .ok rf => oscarCoreG filt fmt attrs ne rf.1 rf.2 (f.lines.drop 3) := by
  have h3a : (fmt == Fmt.extendedIC) = false := by cases fmt <;> simp_all [fmtModelled]
  have h3b : (fmt == Fmt.extendedPhotons) = false := by cases fmt <;> simp_all [fmtModelled]
  unfold readOscar
  simp only [validSel, h1, h2, h3a, h3b, bind, Except.bind, pure, Except.pure, Bool.or_self, Bool.false_eq_true, if_false]
  cases oscarNumEvents f with
  | error e => rfl
  | ok ne =>
    simp only []
    cases oscarScan f.lines with
    | error e => rfl
    | ok rf =>
      obtain ⟨rows, foot⟩ := rf
      simp only [skipLines, readLines, selectRows, oscarCoreG, nreadOf, finish, firstLab]
      have e3 : Int.toNat 3 = 3 := rfl
      have e4 : decide ((3 : Int) < 0) = false := by decide
      rw [e3, e4, Bool.or_false]
      by_cases hn : sumCounts rows 0 + 2 * (rows.length : Int) < 0
      · simp [hn, throw, throwThe, MonadExceptOf.throw]
      · simp only [hn, decide_false, Bool.false_eq_true, if_false]
        cases rows with
        | nil =>
          dsimp only
          split
          · rename_i hst; simp only [hst]
          · rename_i st hst
            simp only [hst]
            by_cases hc : ((st.plist.length : Int) != ne - st.cut) = true
            · simp [hc, throw, throwThe, MonadExceptOf.throw, bind, Except.bind]
            · simp [hc, pure, Except.pure]
        | cons r rs =>
          dsimp only
          split
          · rename_i hst; simp only [hst]
          · rename_i st hst
            simp only [hst]
            by_cases hc : ((st.plist.length : Int) != ne - st.cut) = true
            · simp [hc, throw, throwThe, MonadExceptOf.throw, bind, Except.bind]
            · simp [hc, pure, Except.pure]

/-- **Oscar, keep-everything filter**: whatever is loaded with it is loaded without it — same events, same
`num_events`. -/
theorem readOscar_id_sim (f : FileF) (first : LineF) (fmt : Fmt) (attrs : List String)
    (h1 : f.lines.head? = some first) (h2 : oscarFormat first = .ok (fmt, attrs)) (h3 : fmtModelled fmt = true)
    (L : Loaded) (h : readOscar f .all (some idFilter) = .ok L) :
    ∃ L', readOscar f .all none = .ok L' ∧ L'.events = L.events ∧ L'.numEvents = L.numEvents := by
  rw [readOscar_eqG _ f first fmt attrs h1 h2 h3] at h
  rw [readOscar_eqG none f first fmt attrs h1 h2 h3]
  cases hne : oscarNumEvents f with
  | error e => simp [hne] at h
  | ok ne =>
    simp only [hne] at h ⊢
    cases hs : oscarScan f.lines with
    | error e => simp [hs] at h
    | ok rf =>
      simp only [hs] at h ⊢
      unfold oscarCoreG at h ⊢
      split at h
      · cases h
      · rename_i hn
        simp only [hn, if_false]
        cases hl : oscarLoop fmt attrs (some idFilter) (firstLab rf.1) (nreadOf rf.1).toNat 3 true (f.lines.drop 3)
            ⟨[], [], .arr2d rf.1, 0⟩ with
        | error e => simp [hl] at h
        | ok st =>
          obtain ⟨t', ht', hp, _, hc⟩ := loop_id_sim fmt attrs _ (firstLab rf.1) _ _ _ _ _ ⟨[], [], .arr2d rf.1, 0⟩ st
            ⟨rfl, rfl, rfl⟩ hl
          simp only [hl] at h
          simp only [ht']
          rw [← hp, ← hc]
          split at h
          · cases h
          · rename_i hcnt
            simp only [hcnt]
            cases h
            exact ⟨_, rfl, rfl, rfl⟩

theorem readOscar_id_error (f : FileF) (first : LineF) (fmt : Fmt) (attrs : List String)
    (h1 : f.lines.head? = some first) (h2 : oscarFormat first = .ok (fmt, attrs)) (h3 : fmtModelled fmt = true)
    (e : Err) (h : readOscar f .all none = .error e) : ∃ e', readOscar f .all (some idFilter) = .error e' := by
  cases hr : readOscar f .all (some idFilter) with
  | error e' => exact ⟨e', rfl⟩
  | ok L =>
    obtain ⟨L', hL', _⟩ := readOscar_id_sim f first fmt attrs h1 h2 h3 L hr
    rw [h] at hL'; cases hL'

theorem jloop_id_sim (fl fl' fh) (n : Nat) : ∀ (lineNo : Nat) (first : Bool) (lines : List LineF) (s t s' : LoopSt),
    SameBut s t → jetscapeLoop (some idFilter) fl fh n lineNo first lines s = .ok s' →
    ∃ t', jetscapeLoop none fl' fh n lineNo first lines t = .ok t' ∧ SameBut s' t' := by
  induction n with
  | zero =>
    intro lineNo first lines s t s' hst h
    simp only [jetscapeLoop] at h ⊢
    cases h
    exact ⟨t, rfl, hst⟩
  | succ n ih =>
    intro lineNo first lines s t s' hst h
    obtain ⟨spl, sd, sc, scut⟩ := s
    obtain ⟨tpl, td, tc, tcut⟩ := t
    obtain ⟨e1, e2, e3⟩ := hst
    simp only at e1 e2 e3
    subst e1 e2 e3
    cases lines with
    | nil => simp [jetscapeLoop] at h
    | cons l ls =>
      simp only [jetscapeLoop] at h ⊢
      split at h
      · rename_i h0
        simp only [h0, if_true]
        rw [closeEvent_id] at h
        rw [closeEvent_none]
        cases hs : setRow sc spl.length ((spl.length : Int) + fl, (sd.length : Int)) with
        | error e => simp [hs, bind, Except.bind] at h
        | ok c' =>
          simp only [hs, bind, Except.bind] at h ⊢
          (refine ih _ _ _ _ _ _ ?_ h; exact ⟨rfl, rfl, rfl⟩)
      · rename_i h0
        split at h
        · cases h
        · rename_i h1
          split at h
          · rename_i h2
            split at h
            · cases h
            · split at h
              · cases h
              · split at h
                · rename_i h3
                  simp only [h0, h1, h2, h3, Bool.false_eq_true, if_false, if_true]
                  (refine ih _ _ _ _ _ _ ?_ h; exact ⟨rfl, rfl, rfl⟩)
                · rename_i h3
                  simp only [h0, h1, h2, h3, Bool.false_eq_true, if_false, if_true]
                  rw [closeEvent_id] at h
                  rw [closeEvent_none]
                  cases hs : setRow sc spl.length ((spl.length : Int) + fl, (sd.length : Int)) with
                  | error e => simp [hs, bind, Except.bind] at h
                  | ok c' =>
                    simp only [hs, bind, Except.bind] at h ⊢
                    (refine ih _ _ _ _ _ _ ?_ h; exact ⟨rfl, rfl, rfl⟩)
          · rename_i h2
            split at h
            · cases h
            · rename_i h3
              split at h
              · cases h
              · rename_i h4
                simp only [h0, h1, h2, h3, h4, Bool.false_eq_true, if_false]
                (refine ih _ _ _ _ _ _ ?_ h; exact ⟨rfl, rfl, rfl⟩)

def jCoreG (filt : Option EvFilter) (rows : List (Int × Int)) (body : List LineF) : Except Err Loaded :=
  if jnreadOf rows + 1 < 0 then .error .index else
  match jetscapeLoop filt (firstLabJ rows) 1 (jnreadOf rows + 1).toNat 1 true body ⟨[], [], .arr2d rows, 0⟩ with
  | .error e => .error e
  | .ok st =>
    if (st.plist.length : Int) != (rows.length : Int) - st.cut then .error .index else
    .ok { events := if st.plist.isEmpty then [[]] else st.plist, numEvents := (rows.length : Int) - st.cut,
          counts := st.counts, fmt := none, customAttrs := [], footers := [] }

theorem readJetscape_eqG (filt : Option EvFilter) (f : FileF) (pt : Bool) :
    readJetscape f .all pt filt =
      match jetscapeInitOk f with
      | .error e => .error e
      | .ok _ => match jetscapeScan pt f.lines with
        | .error e => .error e
        | .ok rows => jCoreG filt rows (f.lines.drop 1) := by
  unfold readJetscape
  simp only [validSel, bind, Except.bind, pure, Except.pure]
  cases jetscapeInitOk f with
  | error e => rfl
  | ok u =>
    simp only []
    cases jetscapeScan pt f.lines with
    | error e => rfl
    | ok rows =>
      simp only [skipLines, readLines, selectRows, jCoreG, jnreadOf, finish, firstLabJ, Int.one_mul]
      have e3 : Int.toNat 1 = 1 := rfl
      have e4 : decide ((1 : Int) < 0) = false := by decide
      rw [e3, e4, Bool.or_false]
      by_cases hn : sumCounts rows 0 + (rows.length : Int) + 1 < 0
      · simp only [hn, decide_true, if_true]; rfl
      · simp only [hn, decide_false, Bool.false_eq_true, if_false]
        cases rows with
        | nil =>
          dsimp only
          split
          · rename_i hst; simp only [hst]
          · rename_i st hst
            simp only [hst]
            by_cases hc : ((st.plist.length : Int) != ((([] : List (Int × Int)).length : Nat) : Int) - st.cut) = true
            · simp only [hc, if_true]; rfl
            · simp only [hc]; rfl
        | cons r rs =>
          dsimp only
          split
          · rename_i hst; simp only [hst]
          · rename_i st hst
            simp only [hst]
            by_cases hc : ((st.plist.length : Int) != (((r :: rs).length : Nat) : Int) - st.cut) = true
            · simp only [hc, if_true]; rfl
            · simp only [hc]; rfl

/-- **JETSCAPE, keep-everything filter**: whatever is loaded with it is loaded without it — same events, same
`num_events`. -/
theorem readJetscape_id_sim (f : FileF) (pt : Bool) (L : Loaded) (h : readJetscape f .all pt (some idFilter) = .ok L) :
    ∃ L', readJetscape f .all pt none = .ok L' ∧ L'.events = L.events ∧ L'.numEvents = L.numEvents := by
  rw [readJetscape_eqG] at h ⊢
  cases hi : jetscapeInitOk f with
  | error e => rw [hi] at h; cases h
  | ok u =>
    simp only [hi] at h ⊢
    cases hs : jetscapeScan pt f.lines with
    | error e => simp only [hs] at h; cases h
    | ok rows =>
      simp only [hs] at h ⊢
      unfold jCoreG at h ⊢
      split at h
      · cases h
      · rename_i hn
        simp only [hn, if_false]
        cases hl : jetscapeLoop (some idFilter) (firstLabJ rows) 1 (jnreadOf rows + 1).toNat 1 true (f.lines.drop 1)
            ⟨[], [], .arr2d rows, 0⟩ with
        | error e => simp only [hl] at h; cases h
        | ok st =>
          obtain ⟨t', ht', hp, _, hc⟩ := jloop_id_sim _ (firstLabJ rows) 1 _ _ _ _ _ ⟨[], [], .arr2d rows, 0⟩ st
            ⟨rfl, rfl, rfl⟩ hl
          simp only [hl] at h
          simp only [ht']
          rw [← hp, ← hc]
          split at h
          · cases h
          · rename_i hcnt
            simp only [hcnt]
            cases h
            exact ⟨_, rfl, rfl, rfl⟩

theorem readJetscape_id_error (f : FileF) (pt : Bool) (e : Err) (h : readJetscape f .all pt none = .error e) :
    ∃ e', readJetscape f .all pt (some idFilter) = .error e' := by
  cases hr : readJetscape f .all pt (some idFilter) with
  | error e' => exact ⟨e', rfl⟩
  | ok L =>
    obtain ⟨L', hL', _⟩ := readJetscape_id_sim f pt L hr
    rw [h] at hL'; cases hL'

end SparkxVerif.Rd.Dmg
