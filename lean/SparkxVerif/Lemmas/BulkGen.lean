/-
Tie T for C14: the definitions GENERATED from the current `src/sparkx/BulkObservables.py`
(`Gen/Bulk.lean`, written by `harness/translate/bulk.py` on every run) are equal, for ALL inputs, to the
hand-written model `Core/Bulk.lean` about which the property theorems (`Props/C14.lean`) are proved.

  gen_differentialYield_eq : Gen.differentialYield edges evs = (differentialYield edges evs).map (fun r => [r])
  gen_midYield_eq          : Gen.midYield w evs  = midYield w evs
  gen_midMeanPT_eq / gen_midMeanMT_eq : Gen.midMeanPT/MT w evs = midMean w evs
  gen_tables               : which Particle method each wrapper histograms / each mean averages, the defaults

No hypotheses are needed (the Core theorems' hypotheses - increasing edges, positive width - are about what
the functions compute, not about whether the two renderings agree).

The scripts do not mention the generated text.  They unfold both sides, let `simp` remove the `let`s
(renamed locals and hoisted subexpressions vanish here), and normalise what is left: comparisons to `≤`/`<`,
arithmetic by `ring_nf`, `&&`/`||` by ordered rewriting.  The loop of `_differential_yield` is matched against
`dyLoop_eq` by higher-order unification: the "is this the last event" test becomes the parameter `c`, and only
its meaning (`c k ↔ k + 1 < number of events`, by `omega`) is asked for.
-/
import SparkxVerif.Gen.Bulk
import SparkxVerif.Lemmas.Bulk
import Mathlib.Tactic.Ring
import Mathlib.Tactic.Linarith
import Mathlib.Tactic.NormNum

set_option linter.unusedSimpArgs false
set_option linter.unusedTactic false
set_option linter.unreachableTactic false

namespace SparkxVerif.Bulk

/-- normalise both sides of a goal `generated = model` after unfolding: order comparisons, `decide`, pairs,
then arithmetic (`ring_nf`: signs, divisions, casts; its result depends on the order in which the atoms occur,
so it is not yet the same text on both sides), then ONE fixed order of the operands of `&&`, `||`, `+`, `*`
(ordered rewriting with the commutativity / associativity lemmas: `simp`'s term order does not depend on where
a term stands) -/
macro "bulk_norm" : tactic => `(tactic| (
  try simp only [ge_iff_le, gt_iff_lt, decide_eq_true_eq, Prod.mk.eta, Bool.and_eq_true, Bool.not_eq_true',
    decide_eq_false_iff_not, Nat.cast_ofNat, Nat.cast_zero, Nat.cast_one, eq_comm (a := (0 : ℕ))]
  try ring_nf
  try simp only [Bool.and_comm, Bool.and_left_comm, Bool.and_assoc, Bool.or_comm, Bool.or_left_comm, Bool.or_assoc,
    and_comm, and_left_comm, and_assoc, or_comm, or_left_comm, or_assoc,
    add_comm, add_left_comm, add_assoc, mul_comm, mul_left_comm, mul_assoc]
  try rfl))

section
variable {K : Type} [Field K] [LinearOrder K]

/-! ### the window test -/

theorem inWindow_eq_onNum (w : K) (o : Option K) :
    inWindow w o = onNum (fun q => decide (-w / ((2 : ℕ) : K) ≤ q) && decide (q ≤ w / ((2 : ℕ) : K))) o := by
  cases o <;> rfl

/-! ### the histogram object: the particle loop and the event loop of `_differential_yield` -/

theorem modifyLast_append_singleton {β : Type} (f : β → β) (l : List β) (x : β) :
    modifyLast f (l ++ [x]) = l ++ [f x] := by
  induction l with
  | nil => rfl
  | cons a l ih =>
    cases l with
    | nil => rfl
    | cons b r =>
      simp only [List.cons_append] at ih ⊢
      rw [modifyLast, ih]

/-- the particle loop on the histogram object = `fillEvent` on its current row -/
theorem fillEvent_hobj (edges : List K) (done : List (List K)) (cur : List K) (ev : List (Option K)) :
    ev.foldlM (fun h p => HObj.addValue h p) (⟨edges, done ++ [cur]⟩ : HObj K)
      = (fillEvent edges cur ev).map (fun r => ⟨edges, done ++ [r]⟩) := by
  induction ev generalizing cur with
  | nil => rfl
  | cons p ps ih =>
    cases p with
    | none => rfl
    | some v =>
      simp only [List.foldlM_cons, HObj.addValue, modifyLast_append_singleton, fillEvent]
      exact ih _

theorem dyLoop_aux (edges : List K) (evs : List (List (Option K))) (c : ℕ → Bool)
    (hc : ∀ k, k < evs.length → c k = decide (k + 1 < evs.length))
    (suf pre : List (List (Option K))) (done : List (List K)) (cur : List K) (h : evs = pre ++ suf) :
    (List.range' pre.length suf.length).foldlM (fun hist event => getEv evs event >>= fun it =>
        it.foldlM (fun hist particle => HObj.addValue hist particle) hist >>= fun hist =>
        pure (if c event = true then HObj.addHistogram hist else hist)) (⟨edges, done ++ [cur]⟩ : HObj K)
      = (fillRows edges cur suf).map (fun rows => ⟨edges, done ++ rows⟩) := by
  induction suf generalizing pre done cur with
  | nil => rfl
  | cons ev rest ih =>
    have hget : getEv evs pre.length = .ok ev := by
      subst h; simp [getEv]
    have hck : c pre.length = !rest.isEmpty := by
      rw [hc _ (by subst h; simp)]
      subst h
      cases rest <;> simp
    simp only [List.length_cons, List.range'_succ, List.foldlM_cons, hget, fillRows, hck]
    simp only [bind, Except.bind, fillEvent_hobj]
    cases hf : fillEvent edges cur ev with
    | error e => rfl
    | ok r =>
      cases rest with
      | nil => rfl
      | cons e2 rest2 =>
        have := ih (pre ++ [ev]) (done ++ [r]) (zeros (nbins edges)) (by subst h; simp)
        simp only [List.length_append, List.length_cons, List.length_nil, zero_add] at this
        simp only [bind, Except.bind, Except.map, List.isEmpty_cons, Bool.not_false, if_true, pure, Except.pure,
          List.length_cons, HObj.addHistogram, Bool.false_eq_true, if_false] at this ⊢
        rw [this]
        cases fillRows edges (zeros (nbins edges)) (e2 :: rest2) <;> simp

/-- the event loop of `_differential_yield`, for ANY test `c` that means "this is not the last event":
one row per event, in order (`fillRows`) -/
theorem dyLoop_eq (edges : List K) (evs : List (List (Option K))) (c : ℕ → Bool)
    (hc : ∀ k, k < evs.length → c k = decide (k + 1 < evs.length)) :
    (List.range evs.length).foldlM (fun hist event => getEv evs event >>= fun it =>
        it.foldlM (fun hist particle => HObj.addValue hist particle) hist >>= fun hist =>
        pure (if c event = true then HObj.addHistogram hist else hist)) (HObj.new edges)
      = (fillRows edges (zeros (nbins edges)) evs).map (fun rows => ⟨edges, rows⟩) := by
  have := dyLoop_aux edges evs c hc evs [] [] (zeros (nbins edges)) rfl
  simpa [List.range_eq_range', HObj.new] using this

/-! ### generated = model -/

/-- **tie T, differential yields**: the function generated from the current `_differential_yield` returns a
histogram object with exactly one row, the row the model computes; it raises exactly when the model does -/
theorem gen_differentialYield_eq (edges : List K) (evs : List (List (Option K))) :
    Gen.Bulk.differentialYield edges evs = (Bulk.differentialYield edges evs).map (fun r => [r]) := by
  unfold Gen.Bulk.differentialYield Bulk.differentialYield
  simp only [bind_pure]
  rw [dyLoop_eq edges evs _ (by
    intro k hk
    rw [Bool.eq_iff_iff]
    simp only [Bool.and_eq_true, Bool.or_eq_true, Bool.not_eq_true', decide_eq_true_eq, decide_eq_false_iff_not,
      bne_iff_ne, ne_eq, gt_iff_lt, ge_iff_le, Nat.cast_ofNat, Nat.cast_one, Nat.cast_zero]
    omega)]
  cases fillRows edges (zeros (nbins edges)) evs with
  | error e => rfl
  | ok rows =>
    simp only [bind, Except.bind, Except.map, pure, Except.pure, HObj.average, HObj.scaleHistogram, modifyLast,
      sdivV, HObj.binWidth, HObj.new]
    bulk_norm

/-- **tie T, mid-rapidity yield** -/
theorem gen_midYield_eq (w : K) (evs : List (List (Option K × K))) :
    Gen.Bulk.midYield w evs = Bulk.midYield w evs := by
  unfold Gen.Bulk.midYield Bulk.midYield
  simp only [inWindow_eq_onNum]
  bulk_norm

/-- **tie T, mid-rapidity mean pT** -/
theorem gen_midMeanPT_eq (w : K) (evs : List (List (Option K × K))) :
    Gen.Bulk.midMeanPT w evs = Bulk.midMean w evs := by
  unfold Gen.Bulk.midMeanPT Bulk.midMean eventSumCount
  simp only [inWindow_eq_onNum]
  bulk_norm

/-- **tie T, mid-rapidity mean mT** -/
theorem gen_midMeanMT_eq (w : K) (evs : List (List (Option K × K))) :
    Gen.Bulk.midMeanMT w evs = Bulk.midMean w evs := by
  unfold Gen.Bulk.midMeanMT Bulk.midMean eventSumCount
  simp only [inWindow_eq_onNum]
  bulk_norm

end

/-- **tie T, tables**: which Particle method each wrapper histograms and with which default binning, which
method each mid-rapidity mean averages, the default window -/
theorem gen_tables :
    Gen.Bulk.quantityOf = [("dNdy", "rapidity"), ("dNdpT", "pT_abs"), ("dNdEta", "pseudorapidity"), ("dNdmT", "mT")] ∧
    Gen.Bulk.defaultBinsOf = [("dNdy", (-2, 2, 11)), ("dNdpT", (0, 4, 11)), ("dNdEta", (-2, 2, 11)), ("dNdmT", (0, 4, 11))] ∧
    Gen.Bulk.meanValueOf = [("mid_rapidity_mean_pT", "pT_abs"), ("mid_rapidity_mean_mT", "mT")] ∧
    Gen.Bulk.midDefaults = [("mid_rapidity_yield", ((1, 1), "rapidity")), ("mid_rapidity_mean_pT", ((1, 1), "rapidity")),
      ("mid_rapidity_mean_mT", ((1, 1), "rapidity"))] := by
  refine ⟨?_, ?_, ?_, ?_⟩ <;> decide

end SparkxVerif.Bulk
