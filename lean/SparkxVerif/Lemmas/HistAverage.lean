/-
Helper lemmas for C10: what `average_weighted` / `average` compute, and what `write_to_file` writes.
No property statements here.
-/
import SparkxVerif.Lemmas.HistShape

set_option linter.unusedSectionVars false
set_option linter.unusedSimpArgs false

namespace SparkxVerif.Hist
open SparkxVerif.Gen.HistWrite

section field
variable {K : Type} [Field K] [LinearOrder K] [IsStrictOrderedRing K]

/-! ### specification side of averaging -/

/-- weighted arithmetic mean `Σ w_h x_h / Σ w_h` -/
def wmean (ws xs : List K) : K := (List.zipWith (· * ·) ws xs).sum / ws.sum

/-- weighted population standard deviation `sqrt (Σ w_h (x_h − mean)² / Σ w_h)` -/
def wstd (sqrt : K → K) (ws xs : List K) : K :=
  sqrt (wmean ws (xs.map (fun x => (x - wmean ws xs) ^ 2)))

theorem col_bcast (ws : List K) (a : List (List K)) (j : Nat) (hj : j < ncols a) : col (bcast ws a) j = ws := by
  simp only [col, bcast, List.map_map]
  conv_rhs => rw [← List.map_id ws]
  apply List.map_congr_left
  intro w _
  simp [List.getD_eq_getElem?_getD, List.getElem?_replicate, hj]

theorem wavgCols_bcast {h n : Nat} (ws : List K) {a : List (List K)} (ha : RowsOK h n a) (hh : 1 ≤ h) :
    wavgCols (bcast ws a) a = (List.range n).map (fun j => wmean ws (col a j)) := by
  have hn := ncols_of_rowsOK ha hh
  unfold wavgCols
  rw [hn]
  apply List.map_congr_left
  intro j hj
  rw [col_bcast ws a j (by rw [hn]; exact List.mem_range.mp hj), sumL_eq_sum, sumL_eq_sum, wmean,
    List.zipWith_comm_of_comm (fun x y => mul_comm x y)]

/-- `bcast` only looks at the column count -/
theorem bcast_congr (ws : List K) (a b : List (List K)) (h : ncols a = ncols b) : bcast ws a = bcast ws b := by
  simp [bcast, h]

theorem col_map_zipWith {h n : Nat} {a : List (List K)} (ha : RowsOK h n a) (avg : List K) (havg : avg.length = n)
    (f : K → K → K) (j : Nat) (hj : j < n) :
    col (a.map (fun r => List.zipWith f r avg)) j = (col a j).map (fun x => f x (avg.getD j 0)) := by
  simp only [col, List.map_map]
  apply List.map_congr_left
  intro r hr
  have hl : j < r.length := by rw [ha.2 r hr]; exact hj
  simp only [Function.comp, List.getD_eq_getElem?_getD, List.getElem?_zipWith, List.getElem?_eq_getElem hl,
    List.getElem?_eq_getElem (havg ▸ hj), Option.getD_some]

theorem col_map_map {h n : Nat} {a : List (List K)} (ha : RowsOK h n a) (f : K → K) (j : Nat) (hj : j < n) :
    col (a.map (fun r => r.map f)) j = (col a j).map f := by
  simp only [col, List.map_map]
  apply List.map_congr_left
  intro r hr
  have hl : j < r.length := by rw [ha.2 r hr]; exact hj
  simp only [Function.comp, List.getD_eq_getElem?_getD, List.getElem?_map, List.getElem?_eq_getElem hl,
    Option.map_some, Option.getD_some]

theorem getD_range_map (n j : Nat) (hj : j < n) (f : Nat → K) : ((List.range n).map f).getD j 0 = f j := by
  simp [List.getD_eq_getElem?_getD, List.getElem?_map, List.getElem?_range hj]

/-- the successful branch of `average_weighted` in closed form -/
theorem averageW_eq (sqrt : K → K) {s : State K} (hs : Shape s) (ws : List K) (hl : ws.length = s.nHist)
    (hsum : ws.sum ≠ 0) :
    (averageW sqrt s ws).2 = none ∧
    (averageW sqrt s ws).1.nHist = 1 ∧ (averageW sqrt s ws).1.nBins = s.nBins ∧
    (averageW sqrt s ws).1.edges = s.edges ∧
    (averageW sqrt s ws).1.hist = [(List.range s.nBins).map (fun j => wmean ws (col s.hist j))] ∧
    (averageW sqrt s ws).1.err = [(List.range s.nBins).map (fun j => wstd sqrt ws (col s.hist j))] ∧
    (averageW sqrt s ws).1.sys =
      [(List.range s.nBins).map (fun j => sqrt (wmean ws ((col s.sys j).map (fun x => x ^ 2))))] ∧
    (averageW sqrt s ws).1.raw = [(List.range s.nBins).map (fun j => (col s.raw j).sum)] ∧
    (averageW sqrt s ws).1.scal = [s.scal.headD []] := by
  have hn := ncols_of_rowsOK hs.hist hs.nh
  have hns := ncols_of_rowsOK hs.sys hs.nh
  have hnr := ncols_of_rowsOK hs.raw hs.nh
  have havg := wavgCols_bcast ws hs.hist hs.nh
  unfold averageW
  rw [if_neg (by rw [hs.hist.1]; exact not_not.mpr hl),
    if_neg (by rw [Bool.not_eq_true]; cases h : isZero (sumL ws) with
      | false => rfl
      | true => exact absurd ((isZero_iff _).mp h) (by rw [sumL_eq_sum]; exact hsum)),
    if_neg (by
      simp only [Bool.not_eq_true', Bool.and_eq_false_iff, beq_eq_false_iff_ne, ne_eq, not_or, not_not]
      exact ⟨hs.sys.1.trans hl.symm, hns.trans hn.symm⟩)]
  dsimp only
  refine ⟨rfl, rfl, rfl, rfl, ?_, ?_, ?_, ?_, rfl⟩
  · simp only [havg]
  · simp only [havg]
    -- the variance rows
    have hrows : RowsOK s.nHist s.nBins
        (s.hist.map (fun r => List.zipWith (fun x m => sq (x - m)) r
          ((List.range s.nBins).map (fun j => wmean ws (col s.hist j))))) :=
      hs.hist.map _ (fun r hr => by simp [hr])
    have hb : bcast ws s.hist = bcast ws (s.hist.map (fun r => List.zipWith (fun x m => sq (x - m)) r
          ((List.range s.nBins).map (fun j => wmean ws (col s.hist j))))) :=
      bcast_congr ws _ _ (by rw [hn, ncols_of_rowsOK hrows hs.nh])
    rw [hb, wavgCols_bcast ws hrows hs.nh, List.map_map]
    congr 1
    apply List.map_congr_left
    intro j hj
    have hj' := List.mem_range.mp hj
    simp only [Function.comp, wstd]
    rw [col_map_zipWith hs.hist _ (by simp) _ j hj', getD_range_map _ _ hj']
    congr 2
    apply List.map_congr_left
    intro x _
    simp [sq, pow_two]
  · have hrows : RowsOK s.nHist s.nBins (s.sys.map (fun r => r.map sq)) :=
      hs.sys.map _ (fun r hr => by simp [hr])
    have hb : bcast ws s.sys = bcast ws (s.sys.map (fun r => r.map sq)) :=
      bcast_congr ws _ _ (by rw [hns, ncols_of_rowsOK hrows hs.nh])
    rw [hb, wavgCols_bcast ws hrows hs.nh, List.map_map]
    congr 1
    apply List.map_congr_left
    intro j hj
    have hj' := List.mem_range.mp hj
    simp only [Function.comp]
    rw [col_map_map hs.sys _ j hj']
    congr 2
    apply List.map_congr_left
    intro x _
    simp [sq, pow_two]
  · unfold colSums
    rw [hnr]
    congr 1
    apply List.map_congr_left
    intro j _
    rw [sumL_eq_sum]

theorem wmean_ones (xs : List K) (n : Nat) (h : xs.length = n) :
    wmean (List.replicate n (1 : K)) xs = xs.sum / n := by
  unfold wmean
  congr 1
  · subst h
    induction xs with
    | nil => simp
    | cons x xs ih => simp [List.replicate_succ, ih]
  · simp

end field

end SparkxVerif.Hist
