/-
Helper lemmas for C17 (Lattice3D), second part: geometry invariants, point access, histories,
operators / average, several live objects, CSV, nearest-neighbour access.
-/
import SparkxVerif.Lemmas.Lattice

namespace SparkxVerif.Lattice
open List

/-! ### geometry invariants -/
namespace Geom
variable {α : Type}

/-- the node arrays have the advertised numbers of points -/
def Shaped (G : Geom α) : Prop := G.xs.length = G.nx ∧ G.ys.length = G.ny ∧ G.zs.length = G.nz

/-- the three node arrays are strictly increasing -/
def Incr [LinearOrder α] (G : Geom α) : Prop := Increasing G.xs ∧ Increasing G.ys ∧ Increasing G.zs

/-- the node arrays start / end at the stored extents (`np.linspace` with `endpoint=True`) -/
def Anchored (G : Geom α) : Prop :=
  G.xs.head? = some G.xmin ∧ G.xs.getLast? = some G.xmax ∧
  G.ys.head? = some G.ymin ∧ G.ys.getLast? = some G.ymax ∧
  G.zs.head? = some G.zmin ∧ G.zs.getLast? = some G.zmax

/-- the object was produced by the constructor from its own extents and counts -/
def Built (lin : α → α → Nat → List α) (G : Geom α) : Prop :=
  G = mkGeom lin G.xmin G.xmax G.ymin G.ymax G.zmin G.zmax G.nx G.ny G.nz

end Geom

/-- what is assumed of `np.linspace(lo, hi, n)` for `n ≥ 2`, `lo < hi` (checked by the harness on every
geometry it generates) -/
def LinContract {α : Type} [LinearOrder α] (lin : α → α → Nat → List α) : Prop :=
  ∀ lo hi n, 2 ≤ n → lo < hi →
    (lin lo hi n).length = n ∧ Increasing (lin lo hi n) ∧
    (lin lo hi n).head? = some lo ∧ (lin lo hi n).getLast? = some hi

theorem mkGeom_good {α : Type} [LinearOrder α] {lin : α → α → Nat → List α} (hl : LinContract lin)
    {xmin xmax ymin ymax zmin zmax : α} {nx ny nz : Nat} (hx : xmin < xmax) (hy : ymin < ymax) (hz : zmin < zmax)
    (h2x : 2 ≤ nx) (h2y : 2 ≤ ny) (h2z : 2 ≤ nz) :
    let G := mkGeom lin xmin xmax ymin ymax zmin zmax nx ny nz
    G.Shaped ∧ G.Incr ∧ G.Anchored ∧ G.Built lin := by
  obtain ⟨a1, a2, a3, a4⟩ := hl xmin xmax nx h2x hx
  obtain ⟨b1, b2, b3, b4⟩ := hl ymin ymax ny h2y hy
  obtain ⟨c1, c2, c3, c4⟩ := hl zmin zmax nz h2z hz
  exact ⟨⟨a1, b1, c1⟩, ⟨a2, b2, c2⟩, ⟨a3, a4, b3, b4, c3, c4⟩, rfl⟩

namespace Lat
variable {α β : Type}

theorem setByIndex_nat {L : Lat α β} (hwf : L.WF) {i j k : Nat} (hv : i < L.nx ∧ j < L.ny ∧ k < L.nz) (v : β) :
    ∃ L', L.setByIndex i j k v = .ok (L', false) ∧ L'.toGeom = L.toGeom ∧ L'.WF ∧
      ∀ a b c, L'.at? a b c = if (a, b, c) = (i, j, k) then some v else L.at? a b c := by
  obtain ⟨L', h1, h2, h3, h4⟩ := setByIndex_spec hwf (i : Int) j k v
  have hval : L.validIndex i j k = true := (validIndex_nat L i j k).2 hv
  refine ⟨L', by simpa [hval] using h1, h2, h3, fun a b c => ?_⟩
  simpa [hval] using h4 a b c

theorem getByIndex_nat {L : Lat α β} (hwf : L.WF) {i j k : Nat} (hv : i < L.nx ∧ j < L.ny ∧ k < L.nz) :
    L.getByIndex i j k = .ok (L.at? i j k) := by
  have hval : L.validIndex i j k = true := (validIndex_nat L i j k).2 hv
  simpa [hval] using getByIndex_spec hwf (i : Int) j k

section order
variable [LinearOrder α]

theorem getIndices_ok_iff {L : Lat α β} (hinc : L.toGeom.Incr) (x y z : α) (i j k : Nat) :
    L.getIndices x y z = .ok (i, j, k) ↔
      IsLowerCorner L.xs x i ∧ IsLowerCorner L.ys y j ∧ IsLowerCorner L.zs z k := by
  rw [← getIndex_ok_iff hinc.1, ← getIndex_ok_iff hinc.2.1, ← getIndex_ok_iff hinc.2.2]
  unfold getIndices
  cases getIndex L.xs x <;> cases getIndex L.ys y <;> cases getIndex L.zs z <;> simp

theorem getIndices_cases {L : Lat α β} (hinc : L.toGeom.Incr) (x y z : α) :
    (∃ i j k, L.getIndices x y z = .ok (i, j, k) ∧
        IsLowerCorner L.xs x i ∧ IsLowerCorner L.ys y j ∧ IsLowerCorner L.zs z k) ∨
    ((∃ e, L.getIndices x y z = .error e) ∧
        ¬ ∃ i j k, IsLowerCorner L.xs x i ∧ IsLowerCorner L.ys y j ∧ IsLowerCorner L.zs z k) := by
  cases h : L.getIndices x y z with
  | ok p =>
    obtain ⟨i, j, k⟩ := p
    exact Or.inl ⟨i, j, k, rfl, (getIndices_ok_iff hinc x y z i j k).1 h⟩
  | error e =>
    refine Or.inr ⟨⟨e, rfl⟩, ?_⟩
    rintro ⟨i, j, k, hc⟩
    rw [(getIndices_ok_iff hinc x y z i j k).2 hc] at h; cases h

theorem corner_valid {L : Lat α β} (hsh : L.toGeom.Shaped) {x y z : α} {i j k : Nat}
    (h : IsLowerCorner L.xs x i ∧ IsLowerCorner L.ys y j ∧ IsLowerCorner L.zs z k) :
    i < L.nx ∧ j < L.ny ∧ k < L.nz := by
  obtain ⟨⟨h1, -⟩, ⟨h2, -⟩, ⟨h3, -⟩⟩ := h
  exact ⟨hsh.1 ▸ h1, hsh.2.1 ▸ h2, hsh.2.2 ▸ h3⟩

end order
end Lat

/-! ### histories -/
section history
variable {α β : Type} [LT α] [LE α] [DecidableLT α] [DecidableLE α] [Sub α] [Neg α] [NatCast α]

/-- the node a mutating call writes to (none: rejected, warned, or not a write) – depends on the geometry only -/
def Lat.target (L : Lat α β) : Op α β → Option (Nat × Nat × Nat)
  | .setIdx i j k _ => if L.validIndex i j k then some (i.toNat, j.toNat, k.toNat) else none
  | .setPt x y z _ => match L.getIndices x y z with
    | .ok (i, j, k) => if L.validIndex i j k then some (i, j, k) else none
    | .error _ => none
  | .setNN x y z _ => match L.getIndicesNN x y z with
    | .ok (i, j, k) => if L.validIndex i j k then some (i, j, k) else none
    | .error _ => none
  | .rescale _ => none

/-- effect of one call on the value stored at node `p`, given the node `t` the call addresses -/
def Op.stepVal [Mul β] (t : Option (Nat × Nat × Nat)) (p : Nat × Nat × Nat) (cur : β) : Op α β → β
  | .rescale f => cur * f
  | .setIdx _ _ _ v => if t = some p then v else cur
  | .setPt _ _ _ v => if t = some p then v else cur
  | .setNN _ _ _ v => if t = some p then v else cur

theorem Lat.target_congr {L L' : Lat α β} (h : L'.toGeom = L.toGeom) (op : Op α β) : L'.target op = L.target op := by
  obtain ⟨G, g⟩ := L
  obtain ⟨G', g'⟩ := L'
  simp only at h
  subst h
  cases op <;> rfl

variable [Mul β]

set_option linter.unusedSectionVars false

theorem Lat.rescale_at (L : Lat α β) (f : β) (a b c : Nat) :
    (L.rescale f).at? a b c = (L.at? a b c).map (· * f) := by
  unfold Lat.rescale Lat.at?
  by_cases h : a < L.nx ∧ b < L.ny ∧ c < L.nz
  · simp [h]
  · simp [h]

theorem Lat.rescale_wf {L : Lat α β} (hwf : L.WF) (f : β) : (L.rescale f).WF := by
  simpa [Lat.rescale, Lat.WF] using hwf

private theorem setLike_spec {L : Lat α β} (hwf : L.WF) (r : Except Err (Nat × Nat × Nat)) (v : β) :
    let t : Option (Nat × Nat × Nat) := match r with
      | .ok (i, j, k) => if L.validIndex i j k then some (i, j, k) else none
      | .error _ => none
    let L' : Lat α β := match (match r with
        | .error e => (.error e : Except Err (Lat α β × Bool))
        | .ok (i, j, k) => L.setByIndex i j k v) with
      | .ok (L', _) => L'
      | .error _ => L
    L'.toGeom = L.toGeom ∧ L'.WF ∧ ∀ a b c, L'.at? a b c = (L.at? a b c).map (fun cur => if t = some (a, b, c) then v else cur) := by
  cases r with
  | error e => exact ⟨rfl, hwf, fun a b c => by simp⟩
  | ok p =>
    obtain ⟨i, j, k⟩ := p
    obtain ⟨L', h1, h2, h3, h4⟩ := Lat.setByIndex_spec hwf (i : Int) j k v
    simp only [h1]
    refine ⟨h2, h3, fun a b c => ?_⟩
    rw [h4 a b c]
    by_cases hv : L.validIndex i j k = true
    · by_cases he : (a, b, c) = (i, j, k)
      · have hin := (Lat.validIndex_nat L i j k).1 hv
        obtain ⟨v0, hv0⟩ := Lat.at?_isSome hwf hin
        injection he with e1 e2; injection e2 with e2 e3
        subst e1 e2 e3
        simp [hv, hv0]
      · have he' : ¬ ((a, b, c) = ((i : Int).toNat, (j : Int).toNat, (k : Int).toNat)) := by simpa using he
        have he'' : ¬ ((i, j, k) = (a, b, c)) := fun h => he h.symm
        simp only [hv, he', and_false, if_false, if_true, Option.some.injEq, he'']
        cases L.at? a b c <;> rfl
    · simp only [hv]
      cases L.at? a b c <;> simp

/-- one mutating call: geometry and shape survive, and every node changes exactly as `stepVal` says -/
theorem Lat.apply_spec {L : Lat α β} (hwf : L.WF) (op : Op α β) :
    (L.apply op).toGeom = L.toGeom ∧ (L.apply op).WF ∧
    ∀ a b c, (L.apply op).at? a b c = (L.at? a b c).map (fun cur => op.stepVal (L.target op) (a, b, c) cur) := by
  cases op with
  | setIdx i j k v =>
    obtain ⟨L', h1, h2, h3, h4⟩ := Lat.setByIndex_spec hwf i j k v
    simp only [Lat.apply, h1]
    refine ⟨h2, h3, fun a b c => ?_⟩
    rw [h4 a b c]
    simp only [Lat.target, Op.stepVal]
    by_cases hv : L.validIndex i j k = true
    · by_cases he : (a, b, c) = (i.toNat, j.toNat, k.toNat)
      · obtain ⟨⟨hi0, hi⟩, ⟨hj0, hj⟩, ⟨hk0, hk⟩⟩ := (Lat.validIndex_iff L i j k).1 hv
        obtain ⟨v0, hv0⟩ := Lat.at?_isSome hwf (a := i.toNat) (b := j.toNat) (c := k.toNat)
          ⟨by omega, by omega, by omega⟩
        obtain ⟨rfl, rfl, rfl⟩ : a = i.toNat ∧ b = j.toNat ∧ c = k.toNat := by simpa using he
        simp [hv, hv0]
      · have he'' : ¬ ((i.toNat, j.toNat, k.toNat) = (a, b, c)) := fun h => he h.symm
        simp only [hv, he, and_false, if_false, if_true, Option.some.injEq, he'']
        cases L.at? a b c <;> rfl
    · simp only [hv]
      cases L.at? a b c <;> simp
  | setPt x y z v =>
    exact setLike_spec hwf (L.getIndices x y z) v
  | setNN x y z v =>
    exact setLike_spec hwf (L.getIndicesNN x y z) v
  | rescale f =>
    exact ⟨rfl, Lat.rescale_wf hwf f, fun a b c => by simp [Lat.apply, Lat.rescale_at, Op.stepVal]⟩

/-- **all sequences of set / rescale operations**: the flat array behaves like a store indexed by node
triples – after any history every node holds what the calls addressed to it, in order, left there -/
theorem Lat.run_spec {L : Lat α β} (hwf : L.WF) (ops : List (Op α β)) :
    (L.run ops).toGeom = L.toGeom ∧ (L.run ops).WF ∧
    ∀ a b c, (L.run ops).at? a b c =
      (L.at? a b c).map (fun v0 => ops.foldl (fun cur op => op.stepVal (L.target op) (a, b, c) cur) v0) := by
  induction ops generalizing L with
  | nil => exact ⟨rfl, hwf, fun a b c => by simp [Lat.run]⟩
  | cons op t ih =>
    obtain ⟨g1, w1, s1⟩ := Lat.apply_spec hwf op
    obtain ⟨g2, w2, s2⟩ := ih w1
    have hrun : L.run (op :: t) = (L.apply op).run t := rfl
    rw [hrun]
    refine ⟨g2.trans g1, w2, fun a b c => ?_⟩
    rw [s2 a b c, s1 a b c]
    have : ∀ o, (L.apply op).target o = L.target o := Lat.target_congr g1
    simp only [this, List.foldl_cons, Option.map_map]
    rfl

end history

/-! ### operators, average, rescale -/
section ops
variable {α β : Type}

theorem Lat.sameShape_iff (A B : Lat α β) : A.sameShape B = true ↔ A.nx = B.nx ∧ A.ny = B.ny ∧ A.nz = B.nz := by
  simp [Lat.sameShape, and_assoc]

/-- `self ∘ other`: rejected (`ValueError`) for different shapes; otherwise a lattice with `self`'s geometry
whose every node holds `f` of the operands' values at that node -/
theorem Lat.operate_spec (lin : α → α → Nat → List α) (f : β → β → β) (A B : Lat α β)
    (hb : A.toGeom.Built lin) :
    (A.sameShape B = false ∧ A.operate lin f B = .error .value) ∨
    (A.sameShape B = true ∧ ∃ R, A.operate lin f B = .ok R ∧ R.toGeom = A.toGeom ∧
      (A.WF → B.WF → R.WF) ∧
      ∀ a b c, R.at? a b c = (A.at? a b c).bind (fun x => (B.at? a b c).map (fun y => f x y))) := by
  unfold Lat.operate
  by_cases hs : A.sameShape B = true
  · right
    obtain ⟨e1, e2, e3⟩ := (Lat.sameShape_iff A B).1 hs
    refine ⟨hs, ⟨mkGeom lin A.xmin A.xmax A.ymin A.ymax A.zmin A.zmax A.nx A.ny A.nz, List.zipWith f A.grid B.grid⟩,
      by simp [hs], hb.symm, ?_, ?_⟩
    · intro ha hb'
      simp only [Lat.WF, List.length_zipWith] at *
      rw [ha, hb', ← e1, ← e2, ← e3]; simp [mkGeom]
    · intro a b c
      simp only [Lat.at?, mkGeom, ← e1, ← e2, ← e3, List.getElem?_zipWith]
      by_cases h : a < A.nx ∧ b < A.ny ∧ c < A.nz
      · simp only [h, and_self, if_true]
        cases A.grid[flat A.ny A.nz a b c]? <;> cases B.grid[flat A.ny A.nz a b c]? <;> rfl
      · simp [h]
  · left
    have : A.sameShape B = false := by simpa using hs
    exact ⟨this, by simp [this]⟩

private theorem foldl_zipWith_get [Add β] (Bs : List (Lat α β)) (g : List β) (p : Nat) :
    (Bs.foldl (fun acc B => List.zipWith (· + ·) acc B.grid) g)[p]? =
      Bs.foldl (fun s B => s.bind (fun x => (B.grid[p]?).map (fun y => x + y))) g[p]? := by
  induction Bs generalizing g with
  | nil => rfl
  | cons B t ih =>
    simp only [List.foldl_cons]
    rw [ih, List.getElem?_zipWith]
    congr 1
    cases g[p]? <;> cases B.grid[p]? <;> rfl

/-- `average`: every node holds the running sum of the operands' values at that node (in argument order)
divided by the number of operands -/
theorem Lat.average_spec [NatCast β] [Add β] [Div β] (lin : α → α → Nat → List α) (A : Lat α β) (Bs : List (Lat α β))
    (hb : A.toGeom.Built lin) (hs : ∀ B ∈ Bs, A.sameShape B = true) :
    ∃ R, A.average lin Bs = .ok R ∧ R.toGeom = A.toGeom ∧
      ∀ a b c, R.at? a b c =
        (Bs.foldl (fun s B => s.bind (fun x => (B.at? a b c).map (fun y => x + y)))
            ((A.at? a b c).map (fun x => ((0 : Nat) : β) + x))).map
          (fun s => s / ((Bs.length + 1 : Nat) : β)) := by
  unfold Lat.average
  have hall : (Bs.all fun B => A.sameShape B) = true := by simpa using hs
  refine ⟨⟨mkGeom lin A.xmin A.xmax A.ymin A.ymax A.zmin A.zmax A.nx A.ny A.nz, _⟩, by simp only [hall]; rfl, hb.symm, fun a b c => ?_⟩
  simp only [Lat.at?, mkGeom]
  by_cases h : a < A.nx ∧ b < A.ny ∧ c < A.nz
  · simp only [h, and_self, if_true, List.getElem?_map, foldl_zipWith_get]
    congr 1
    have hstep : ∀ (l : List (Lat α β)) (s : Option β), (∀ B ∈ l, A.sameShape B = true) →
        l.foldl (fun s B => s.bind (fun x => (B.grid[flat A.ny A.nz a b c]?).map (fun y => x + y))) s =
        l.foldl (fun s B => s.bind (fun x =>
          (if a < B.nx ∧ b < B.ny ∧ c < B.nz then B.grid[flat B.ny B.nz a b c]? else none).map (fun y => x + y))) s := by
      intro l
      induction l with
      | nil => intro s _; rfl
      | cons B t ih =>
        intro s hl
        obtain ⟨e1, e2, e3⟩ := (Lat.sameShape_iff A B).1 (hl B (by simp))
        simp only [List.foldl_cons]
        rw [← e1, ← e2, ← e3]
        simp only [h, and_self, if_true]
        exact ih _ (fun B' hB' => hl B' (by simp [hB']))
    exact hstep Bs _ hs
  · have hnone : ∀ (l : List (Lat α β)),
        l.foldl (fun s B => s.bind (fun x => (B.at? a b c).map (fun y => x + y))) (none : Option β) = none := by
      intro l; induction l with
      | nil => rfl
      | cons B t ih => simpa using ih
    simp only [h, if_false, Option.map_none]
    have := hnone Bs
    simp only [Lat.at?] at this
    rw [this]; rfl

theorem Lat.average_reject [NatCast β] [Add β] [Div β] (lin : α → α → Nat → List α) (A : Lat α β) (Bs : List (Lat α β))
    (hs : ∃ B ∈ Bs, A.sameShape B = false) : A.average lin Bs = .error .value := by
  unfold Lat.average
  have : (Bs.all fun B => A.sameShape B) = false := by
    rw [List.all_eq_false]; obtain ⟨B, hB, h⟩ := hs; exact ⟨B, hB, by simp [h]⟩
  simp [this]

end ops

/-! ### several live objects: nothing but the addressed object changes -/
section env
variable {α β : Type} [LT α] [LE α] [DecidableLT α] [DecidableLE α] [Sub α] [Neg α] [NatCast α]
  [Add β] [Sub β] [Mul β] [Div β] [NatCast β]

/-- **operands are not modified**: a command changes at most the object it is a mutating call on; `+ - * /`
and `average` only append their result -/
theorem exec_frame (lin : α → α → Nat → List α) (env : List (Lat α β)) (cmd : Cmd α β) (m : Nat)
    (hm : m < env.length) (hne : ∀ o, cmd ≠ .op m o) :
    (exec lin env cmd)[m]? = env[m]? := by
  cases cmd with
  | op l o =>
    have hlm : l ≠ m := fun h => hne o (by rw [h])
    simp only [exec]
    cases env[l]? with
    | none => rfl
    | some L => simp [List.getElem?_set_ne hlm]
  | bin o a b =>
    simp only [exec]
    split
    · split
      · simp [List.getElem?_append_left hm]
      · rfl
    · rfl
  | avg a bs =>
    simp only [exec]
    split
    · split
      · simp [List.getElem?_append_left hm]
      · rfl
    · rfl

theorem exec_length_le (lin : α → α → Nat → List α) (env : List (Lat α β)) (cmd : Cmd α β) :
    env.length ≤ (exec lin env cmd).length := by
  cases cmd with
  | op l o => simp only [exec]; cases env[l]? <;> simp
  | bin o a b =>
    simp only [exec]
    split
    · split <;> simp
    · exact le_rfl
  | avg a bs =>
    simp only [exec]
    split
    · split <;> simp
    · exact le_rfl

end env

/-! ### CSV -/
section csv
variable {α : Type}

private theorem mapM_parse_fmt (fmt : α → String) (parse : String → Option α) (hp : ∀ x, parse (fmt x) = some x)
    (l : List α) : (l.map fmt).mapM parse = some l := by
  induction l with
  | nil => rfl
  | cons a t ih => simp [List.mapM_cons, hp, ih]

/-- **`load_from_csv (save_to_csv L) = L`**, for every lattice built by the constructor, given that the text
format is read back exactly (`parse (fmt x) = x`, the `%.18e` round trip) and `int(float(n)) = n` -/
theorem load_save (lin : α → α → Nat → List α) (ofNat : Nat → α) (toNat : α → Nat)
    (fmt : α → String) (parse : String → Option α)
    (hp : ∀ x, parse (fmt x) = some x) (hn : ∀ n, toNat (ofNat n) = n)
    (L : Lat α α) (hwf : L.WF) (hb : L.toGeom.Built lin) :
    load lin toNat parse (save ofNat fmt L) = .ok L := by
  unfold load save
  rw [mapM_parse_fmt fmt parse hp]
  simp only [List.cons_append, List.nil_append, hn]
  rw [if_pos (show L.grid.length = L.nx * L.ny * L.nz from hwf)]
  obtain ⟨G, g⟩ := L
  congr 2
  exact hb.symm

end csv

/-! ### nearest-neighbour access, closest indices, interpolation guard -/
section nn
variable {α : Type} [LinearOrder α]

/-- `values[0] <= v <= values[-1]` -/
def InRange (xs : List α) (v : α) : Prop :=
  ∃ lo hi, xs.head? = some lo ∧ xs.getLast? = some hi ∧ lo ≤ v ∧ v ≤ hi

theorem rangeOk_true_iff (xs : List α) (v : α) : rangeOk xs v = .ok true ↔ InRange xs v := by
  unfold rangeOk InRange
  cases xs.head? <;> cases xs.getLast? <;> simp

theorem rangeOk_cases (xs : List α) (v : α) :
    (rangeOk xs v = .ok true ∧ InRange xs v) ∨ (rangeOk xs v = .ok false ∧ ¬ InRange xs v) ∨
    (rangeOk xs v = .error .index ∧ ¬ InRange xs v) := by
  cases h : rangeOk xs v with
  | ok b =>
    cases b with
    | true => exact Or.inl ⟨rfl, (rangeOk_true_iff xs v).1 h⟩
    | false =>
      refine Or.inr (Or.inl ⟨rfl, fun hr => ?_⟩)
      rw [(rangeOk_true_iff xs v).2 hr] at h; cases h
  | error e =>
    refine Or.inr (Or.inr ⟨?_, fun hr => ?_⟩)
    · unfold rangeOk at h
      split at h
      · cases h
      · injection h with h; rw [h]
    · rw [(rangeOk_true_iff xs v).2 hr] at h; cases h

end nn

section nnfield
variable {α : Type} [Field α] [LinearOrder α] [IsStrictOrderedRing α]

/-- node `m` is a node of minimal distance to `v`, the first one if there is a tie -/
def IsNearest (xs : List α) (v : α) (m : Nat) : Prop :=
  ∃ h : m < xs.length, (∀ j (hj : j < xs.length), |v - xs[m]| ≤ |v - xs[j]|) ∧
    (∀ j (hj : j < xs.length), j < m → |v - xs[m]| < |v - xs[j]|)

omit [Field α] [IsStrictOrderedRing α] in
theorem InRange.ne_nil {xs : List α} {v : α} (h : InRange xs v) : xs ≠ [] := by
  rintro rfl; obtain ⟨lo, hi, h1, -⟩ := h; simp at h1

/-- `__get_index_nearest_neighbor` answers exactly for points of `[first node, last node]`, and then the
nearest node (first on a tie); everything else is reported -/
theorem getIndexNN_cases (xs : List α) (v : α) :
    (InRange xs v ∧ getIndexNN xs v = .ok (nearestOf xs v) ∧ IsNearest xs v (nearestOf xs v)) ∨
    (¬ InRange xs v ∧ ∃ e, getIndexNN xs v = .error e) := by
  unfold getIndexNN
  rcases rangeOk_cases xs v with ⟨h, hr⟩ | ⟨h, hr⟩ | ⟨h, hr⟩
  · left; rw [h]
    obtain ⟨a, b, c⟩ := nearestOf_min hr.ne_nil v
    exact ⟨hr, rfl, a, b, c⟩
  · right; rw [h]; exact ⟨hr, _, rfl⟩
  · right; rw [h]; exact ⟨hr, _, rfl⟩

end nnfield

namespace Lat
variable {α β : Type} [Field α] [LinearOrder α] [IsStrictOrderedRing α]

theorem getIndicesNN_cases (L : Lat α β) (x y z : α) :
    (∃ i j k, L.getIndicesNN x y z = .ok (i, j, k) ∧
        IsNearest L.xs x i ∧ IsNearest L.ys y j ∧ IsNearest L.zs z k ∧
        InRange L.xs x ∧ InRange L.ys y ∧ InRange L.zs z) ∨
    ((∃ e, L.getIndicesNN x y z = .error e) ∧ ¬ (InRange L.xs x ∧ InRange L.ys y ∧ InRange L.zs z)) := by
  unfold getIndicesNN
  rcases getIndexNN_cases L.xs x with ⟨r1, h1, n1⟩ | ⟨r1, e1, h1⟩
  · rcases getIndexNN_cases L.ys y with ⟨r2, h2, n2⟩ | ⟨r2, e2, h2⟩
    · rcases getIndexNN_cases L.zs z with ⟨r3, h3, n3⟩ | ⟨r3, e3, h3⟩
      · left; rw [h1, h2, h3]; exact ⟨_, _, _, rfl, n1, n2, n3, r1, r2, r3⟩
      · right; rw [h1, h2, h3]; exact ⟨⟨_, rfl⟩, fun h => r3 h.2.2⟩
    · right; rw [h1, h2]; exact ⟨⟨_, rfl⟩, fun h => r2 h.2.1⟩
  · right; rw [h1]; exact ⟨⟨_, rfl⟩, fun h => r1 h.1⟩

end Lat
end SparkxVerif.Lattice
