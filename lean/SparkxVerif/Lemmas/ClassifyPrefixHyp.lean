/-
`Dmg.prefixHyp` — the four facts about the observations of a cut line that C07's byte-level theorem assumes — PROVED for every
non-empty prefix of every line of a rendered Oscar text: the tokens of a prefix (`toks_prefix`), the count read from a cut
`out` line (prefix of a decimal numeral: empty or a natural number), cut header lines (`lastLineOk_prefix_head`, side condition
`hdrCutSafe` on the two free-text lines), the first `out` line, `end` lines (`isEndPos_line`).  Core Lean only.
-/
import SparkxVerif.Lemmas.ClassifyCut

set_option linter.unusedSimpArgs false

namespace SparkxVerif.Rd
open SparkxVerif.Str

/-! ### the tokens of a prefix -/

theorem prefixOf_ofList (t : List Char) (r : Nat) : prefixOf (String.ofList t) r = String.ofList (t.take r) := by
  simp [prefixOf, String.toList_ofList]

/-- `split(' ')` of a prefix: the complete tokens before the cut, then a prefix of the token the cut falls into -/
theorem toks_prefix (s : String) (q : Nat) :
    ∃ pre t post r, (analyse s).toks = pre ++ t :: post ∧ (analyse (prefixOf s q)).toks = pre ++ [prefixOf t r] := by
  obtain ⟨pre, t, post, r, h1, h2⟩ := splitOnChar_take ' ' s.toList q
  refine ⟨pre.map String.ofList, String.ofList t, post.map String.ofList, r, ?_, ?_⟩
  · show splitCh ' ' s = _
    simp [splitCh, h1]
  · show splitCh ' ' (prefixOf s q) = _
    simp [splitCh, prefixOf_toList, h2, prefixOf_ofList]

/-- the same after `replace('\t', ' ')` -/
theorem toksTab_prefix (s : String) (q : Nat) :
    ∃ pre t post r, (analyse s).toksTab = pre ++ t :: post ∧ (analyse (prefixOf s q)).toksTab = pre ++ [prefixOf t r] := by
  obtain ⟨pre, t, post, r, h1, h2⟩ := splitOnChar_take ' ' (s.toList.map tabToSp) q
  refine ⟨pre.map String.ofList, String.ofList t, post.map String.ofList, r, ?_, ?_⟩
  · show (splitOnChar ' ' (s.toList.map tabToSp)).map String.ofList = _
    simp [h1]
  · show (splitOnChar ' ' ((prefixOf s q).toList.map tabToSp)).map String.ofList = _
    rw [prefixOf_toList, List.map_take, h2]
    simp [prefixOf_ofList]

/-- token `i` of the cut line: the complete token, a prefix of it, or nothing -/
theorem getElem?_prefix_toks {T pre post : List String} {t : String} (h : T = pre ++ t :: post) (r i : Nat) :
    (pre ++ [prefixOf t r])[i]? = T[i]? ∨ (∃ t', T[i]? = some t' ∧ (pre ++ [prefixOf t r])[i]? = some (prefixOf t' r)) ∨
    (pre ++ [prefixOf t r])[i]? = none := by
  subst h
  rcases Nat.lt_trichotomy i pre.length with hi | hi | hi
  · left; rw [List.getElem?_append_left hi, List.getElem?_append_left hi]
  · right; left; subst hi
    exact ⟨t, by simp, by simp⟩
  · right; right
    rw [List.getElem?_eq_none]; simp; omega

/-- `int()` of a prefix of a printed natural number is not negative -/
theorem pyInt?_prefix_nat_nonneg (n r : Nat) {v : Int} (h : pyInt? (prefixOf (toString n) r) = some v) : 0 ≤ v := by
  unfold pyInt? at h
  rw [prefixOf_toList] at h
  exact pyIntL_digits_nonneg (fun c hc => natRepr_digits n c (List.mem_of_mem_take hc)) h

theorem toString_ofNat (n : Nat) : toString (Int.ofNat n) = toString n := rfl

/-! ### the count clause (`Dmg.prefixHyp`, first conjunct) -/

/-- if the scan takes the (cut) line for an `out` line, the count it reads is not negative -/
def countOk (P : LineF) : Bool :=
  !(P.hasHash && P.hasOutSp && !P.hasEndSp) ||
    (match Dmg.tokInt P.toks 4 with | some n => decide (0 ≤ n) | none => true)

theorem countOk_of_noOutSp {P : LineF} (h : (P.hasHash && P.hasOutSp) = false) : countOk P = true := by
  simp only [countOk]
  cases h1 : P.hasHash <;> cases h2 : P.hasOutSp <;> simp_all

/-- a line the header scan ignores: so are its prefixes -/
theorem countOk_prefix_notScanned {s : String} (h : notScanned (analyse s) = true) (q : Nat) :
    countOk (analyse (prefixOf s q)) = true := by
  apply countOk_of_noOutSp
  simp only [notScanned, Bool.and_eq_true, Bool.not_eq_true'] at h
  have h2 : (hasSub s "#" && hasSub s " out ") = false := h.2
  show (hasSub (prefixOf s q) "#" && hasSub (prefixOf s q) " out ") = false
  cases ha : hasSub (prefixOf s q) "#" with
  | false => rfl
  | true =>
    have := hasSub_of_prefix ha
    rw [this, Bool.true_and] at h2
    simp [hasSub_prefix_false h2 q]

/-- **a cut `out` line**: whatever survives of the count is a prefix of a decimal numeral — empty (`int('')` raises) or a
natural number -/
theorem countOk_prefix_out (e : OEvent) (q : Nat) : countOk (analyse (prefixOf (outLineText e) q)) = true := by
  obtain ⟨pre, t, post, r, h1, h2⟩ := toks_prefix (outLineText e) q
  have hT : (analyse (outLineText e)).toks = ["#", "event", toString e.label, "out", toString e.parts.length] := by
    rw [analyse_out_line]
  rw [hT] at h1
  simp only [countOk, Bool.or_eq_true]
  right
  rw [h2]
  simp only [Dmg.tokInt]
  rcases getElem?_prefix_toks h1 r 4 with h | ⟨t', ht', h⟩ | h
  · rw [h]
    simp [pyInt?_nat_repr]
  · rw [h]
    have : t' = toString e.parts.length := by simpa using ht'.symm
    subst this
    simp only [Option.bind_some]
    cases hv : pyInt? (prefixOf (toString e.parts.length) r) with
    | none => rfl
    | some v => simpa using pyInt?_prefix_nat_nonneg _ _ hv
  · rw [h]; rfl

/-- a cut first `out` line (event number 0) does not announce event `-1` -/
theorem label_prefix_out {e : OEvent} {i : Nat} (hl : e.label = (i : Int)) (q : Nat) :
    Dmg.tokInt (analyse (prefixOf (outLineText e) q)).toks 2 ≠ some (-1) := by
  obtain ⟨pre, t, post, r, h1, h2⟩ := toks_prefix (outLineText e) q
  have hT : (analyse (outLineText e)).toks = ["#", "event", toString e.label, "out", toString e.parts.length] := by
    rw [analyse_out_line]
  rw [hT] at h1
  rw [h2]
  simp only [Dmg.tokInt]
  have hlab : toString e.label = toString i := by rw [hl]; rfl
  rcases getElem?_prefix_toks h1 r 2 with h | ⟨t', ht', h⟩ | h
  · rw [h]
    simp [hlab, pyInt?_nat_repr]
  · rw [h]
    have : t' = toString i := by rw [← hlab]; simpa using ht'.symm
    subst this
    simp only [Option.bind_some]
    intro hv
    have := pyInt?_prefix_nat_nonneg _ _ hv
    omega
  · rw [h]; simp

/-! ### cut header lines are rejected by `set_num_events` (second conjunct) -/

theorem headTag_toList (f : Fmt) : ∃ r, (headTag f).toList = '#' :: '!' :: r := by cases f <;> exact ⟨_, rfl⟩

/-- every prefix of the first header line is rejected as a last line (its first token is `#!…`, never `#`) -/
theorem lastLineOk_prefix_head (F : OscarSpec) (hc : ∀ c ∈ F.cols, colTok c = true) (q : Nat) :
    Dmg.lastLineOk (analyse (prefixOf (" ".intercalate (headToks F)) q)) = false := by
  obtain ⟨pre, t, post, r, h1, h2⟩ := toks_prefix (" ".intercalate (headToks F)) q
  have hh := head_line F hc
  simp only [isHeadLine, Bool.and_eq_true, beq_iff_eq] at hh
  rw [hh.1] at h1
  rw [Dmg.lastLineOk, h2]
  obtain ⟨tl, htl⟩ := headTag_toList F.fmt
  cases pre with
  | nil =>
    -- the cut is inside the tag: the only token is a prefix of `#!…`
    have ht : t = headTag F.fmt := by simp [headToks] at h1; exact h1.1.symm
    subst ht
    have hne : prefixOf (headTag F.fmt) r ≠ "event" := by
      intro h
      have := congrArg String.toList h
      rw [prefixOf_toList, htl] at this
      cases r with
      | zero => simp at this
      | succ r => simp at this
    simp [hne, Ne.symm hne]
  | cons p0 ps =>
    have hp0 : p0 = headTag F.fmt := by simp [headToks] at h1; exact h1.1.symm
    subst hp0
    have : (headTag F.fmt == "#") = false := by cases F.fmt <;> decide
    simp [this]

/-- no prefix of the line (the whole line included) is an event line for `set_num_events`: first token `#` and a token
`event` -/
def lineCutSafe (h : String) : Bool :=
  (List.range (h.toList.length + 1)).all (fun q => !Dmg.lastLineOk (analyse (prefixOf h q)))

/-- side condition of the byte-level statement on the two free header lines.  Without it the property is FALSE: with
`h3 = "# event -1"` the three-line prefix of the file passes `set_num_events` with `num_events = -1 + 1 = 0`, the scan finds
no event, the loop reads nothing and the loader returns the placeholder `[[]]` with 0 events instead of raising. -/
def hdrCutSafe (F : OscarSpec) : Bool := lineCutSafe F.h2 && lineCutSafe F.h3

theorem prefixOf_full (s : String) {q : Nat} (h : s.toList.length ≤ q) : prefixOf s q = s := by
  apply String.toList_injective
  rw [prefixOf_toList, List.take_of_length_le h]

theorem lineCutSafe_spec {h : String} (hs : lineCutSafe h = true) (q : Nat) :
    Dmg.lastLineOk (analyse (prefixOf h q)) = false := by
  simp only [lineCutSafe, List.all_eq_true, List.mem_range, Bool.not_eq_true'] at hs
  rcases Nat.lt_or_ge q (h.toList.length + 1) with hq | hq
  · exact hs q hq
  · rw [prefixOf_full h (by omega), ← prefixOf_full h (Nat.le_refl _)]
    exact hs _ (by omega)

theorem hdrNotEvent_of_cutSafe {F : OscarSpec} (h : hdrCutSafe F = true) : Bridge.hdrNotEvent F = true := by
  simp only [hdrCutSafe, Bool.and_eq_true] at h
  have a := lineCutSafe_spec h.1 F.h2.toList.length
  have b := lineCutSafe_spec h.2 F.h3.toList.length
  rw [prefixOf_full _ (Nat.le_refl _)] at a b
  simp [Bridge.hdrNotEvent, a, b]

/-! ### positions -/

/-- a position the bookkeeping calls "end of event `m`" holds the `end` line of that event -/
theorem isEndPos_line (G : Dmg.OFile) (j : Nat) (h : G.isEndPos j = true) : ∃ b ∈ G.evs, G.lines[j]? = some b.endl := by
  simp only [Dmg.OFile.isEndPos, List.any_eq_true, List.mem_range, beq_iff_eq] at h
  obtain ⟨m, hm, hj⟩ := h
  have hb : G.evs[m]? = some G.evs[m] := List.getElem?_eq_getElem hm
  refine ⟨G.evs[m], List.getElem_mem hm, ?_⟩
  have hsplit : G.evs = G.evs.take (m + 1) ++ G.evs.drop (m + 1) := (List.take_append_drop _ _).symm
  have hlines : G.lines = (G.h1 :: G.h2 :: G.h3 :: (Dmg.blocksLines (G.evs.take m) ++ G.evs[m].out :: G.evs[m].parts)) ++
      G.evs[m].endl :: Dmg.blocksLines (G.evs.drop (m + 1)) := by
    rw [Dmg.OFile.lines]
    conv => lhs; rw [hsplit]
    rw [Dmg.blocksLines_append, Dmg.take_succ_of_getElem? G.evs m _ hb, Dmg.blocksLines_append, Dmg.blocksLines_cons]
    simp [Dmg.Block.lines, Dmg.blocksLines]
  have hlen : (G.h1 :: G.h2 :: G.h3 :: (Dmg.blocksLines (G.evs.take m) ++ G.evs[m].out :: G.evs[m].parts)).length = j := by
    rw [Dmg.OFile.endPos, Dmg.take_succ_of_getElem? G.evs m _ hb, Dmg.blocksLines_append, Dmg.blocksLines_cons] at hj
    simp only [List.length_append, Dmg.Block.lines_length, Dmg.blocksLines, List.flatMap_nil, List.length_nil] at hj
    simp only [List.length_cons, List.length_append, Dmg.blocksLines]
    omega
  rw [hlines, ← hlen, List.getElem?_append_right (Nat.le_refl _)]
  simp

/-! ### `Dmg.prefixHyp` for every proper prefix of every line of a rendered Oscar text -/

theorem countOk_prefix_line (F : OscarSpec) (hg : grammarOscar F = true) :
    ∀ s ∈ oscarLinesText F, ∀ q, countOk (analyse (prefixOf s q)) = true := by
  obtain ⟨hc, h2, h3, n2, n3, e3, hev⟩ := grammarOscar_unpack hg
  intro s hs q
  simp only [oscarLinesText, List.cons_append, List.nil_append, List.mem_cons, List.mem_flatMap] at hs
  rcases hs with rfl | rfl | rfl | ⟨e, he, hs⟩
  · have hh := head_line F hc
    simp only [isHeadLine, Bool.and_eq_true] at hh
    exact countOk_prefix_notScanned hh.2 q
  · exact countOk_prefix_notScanned h2 q
  · exact countOk_prefix_notScanned h3 q
  · have hok := hev e he
    simp only [eventLinesText, List.mem_cons, List.mem_append, List.mem_map, List.not_mem_nil, or_false] at hs
    rcases hs with rfl | ⟨r, hr, rfl⟩ | rfl
    · exact countOk_prefix_out e q
    · obtain ⟨r1, r2, _, _⟩ := hok.rows r hr
      refine countOk_prefix_notScanned ?_ q
      rw [analyse_particle_line r1 r2]; rfl
    · obtain ⟨pad, tail, hpad, htail, hfoot⟩ := hok.shape
      rw [hfoot]
      obtain ⟨_, _, _, _, h4, _⟩ := footer_flags e.label hpad htail hok.impactTok
      apply countOk_of_noOutSp
      have : (analyse (prefixOf (footerText e.label pad e.impact tail) q)).hasOutSp = false := by
        simp only [analyse] at h4 ⊢
        exact hasSub_prefix_false h4 q
      simp [this]

theorem getElem?_analyse_raw {ls : List String} {j : Nat} {l : LineF} {s : String}
    (h : (ls.map analyse)[j]? = some l) (hs : ls[j]? = some s) : l = analyse s := by
  rw [List.getElem?_map, hs] at h
  simpa using h.symm

/-- all four clauses of `Dmg.prefixHyp` for line `j` of the rendered text cut to a non-empty prefix -/
theorem prefixHyp_text (F : OscarSpec) (hg : grammarOscar F = true) (hwf : wfOscar F) (hh : hdrCutSafe F = true)
    (j : Nat) (s : String) (hs : (oscarLinesText F)[j]? = some s) (q : Nat) (hq : 0 < q) :
    Dmg.prefixHyp (Bridge.ofileOf F) j (analyse (prefixOf s q)) = true := by
  obtain ⟨hc, h2, h3, n2, n3, e3, hev⟩ := grammarOscar_unpack hg
  obtain ⟨hne, hlab, _⟩ := hwf
  simp only [hdrCutSafe, Bool.and_eq_true] at hh
  have hmem : s ∈ oscarLinesText F := List.mem_of_getElem? hs
  have hcount := countOk_prefix_line F hg s hmem q
  simp only [Dmg.prefixHyp, Bool.and_eq_true]
  refine ⟨⟨⟨hcount, ?_⟩, ?_⟩, ?_⟩
  · -- header lines
    by_cases hj : j < 3
    · have : Dmg.lastLineOk (analyse (prefixOf s q)) = false := by
        match j, hj with
        | 0, _ =>
          have : s = " ".intercalate (headToks F) := by simpa [oscarLinesText] using hs.symm
          subst this; exact lastLineOk_prefix_head F hc q
        | 1, _ =>
          have : s = F.h2 := by simpa [oscarLinesText] using hs.symm
          subst this; exact lineCutSafe_spec hh.1 q
        | 2, _ =>
          have : s = F.h3 := by simpa [oscarLinesText] using hs.symm
          subst this; exact lineCutSafe_spec hh.2 q
      simp [this]
    · simp [hj]
  · -- the first `out` line
    by_cases hj : j = 3
    · subst hj
      cases hE : F.events with
      | nil => exact absurd hE hne
      | cons e es =>
        have : s = outLineText e := by simpa [oscarLinesText, hE, eventLinesText] using hs.symm
        subst this
        have hl : e.label = ((0 : Nat) : Int) := by
          have := hlab 0 (by simp [hE])
          simpa [hE] using this
        have := label_prefix_out hl q
        simp [this]
    · simp [hj]
  · -- `end` lines
    cases hE : (Bridge.ofileOf F).isEndPos j with
    | false => rfl
    | true =>
      obtain ⟨b, hb, hline⟩ := isEndPos_line _ j hE
      simp only [Bridge.ofileOf, List.mem_map] at hb
      obtain ⟨e, he, rfl⟩ := hb
      rw [Bridge.ofileOf_lines] at hline
      have := getElem?_analyse_raw hline hs
      have hraw : e.footer = s := by
        have := congrArg LineF.raw this
        simpa [Bridge.blockOf, analyse] using this
      subst hraw
      have hok := hev e he
      obtain ⟨pad, tail, hpad, htail, hfoot⟩ := hok.shape
      have := (prefix_footer_endHyp e.label hpad htail hok.impactTok hq).1
      rw [← hfoot] at this
      simpa using this

end SparkxVerif.Rd
