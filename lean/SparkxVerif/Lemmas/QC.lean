import SparkxVerif.Lemmas.Cx
import SparkxVerif.Lemmas.TupleSum
import SparkxVerif.Core.QCumulant
import Mathlib.Analysis.Complex.Trigonometric

open ComplexConjugate Finset BigOperators
open SparkxVerif.QC SparkxVerif.Cx

namespace SparkxVerif.QCL

variable {M : ℕ}

/-- power sums of unit vectors: `A a = Σ_j z_j^a` (integer powers) -/
noncomputable def A (z : Fin M → ℂ) (a : ℤ) : ℂ := ∑ j, z j ^ a

theorem unit_ne_zero {z : ℂ} (h : z * conj z = 1) : z ≠ 0 := by
  intro h0; rw [h0] at h; simp at h

theorem unit_inv {z : ℂ} (h : z * conj z = 1) : z⁻¹ = conj z := by
  have := unit_ne_zero h
  field_simp
  exact h.symm

theorem A_zero (z : Fin M → ℂ) : A z 0 = M := by simp [A]

theorem A_neg (z : Fin M → ℂ) (hz : ∀ j, z j * conj (z j) = 1) (a : ℤ) : A z (-a) = conj (A z a) := by
  unfold A
  rw [map_sum]
  apply Finset.sum_congr rfl
  intro j _
  rw [zpow_neg, ← inv_zpow, unit_inv (hz j), map_zpow₀]

theorem tuple_eq_Dexp (z : Fin M → ℂ) (hz : ∀ j, z j * conj (z j) = 1) (k : ℕ) (a : Fin k → ℤ) :
    tupleSum k (fun i j => z j ^ a i) = Dexp (A z) (List.ofFn a) := by
  have := tupleSum_eq_Dexp (R := ℂ) (fun (e : ℤ) j => z j ^ e)
    (fun a b j => zpow_add₀ (unit_ne_zero (hz j)) a b) k a
  exact this

/-- the defining correlator: sum over tuples of distinct particles of `cos (Σ_i a_i θ_{t i})` -/
noncomputable def cosTuple (k : ℕ) (a : Fin k → ℤ) (θ : Fin M → ℝ) : ℝ :=
  ∑ t : Fin k → Fin M, if Function.Injective t then Real.cos (∑ i, (a i : ℝ) * θ (t i)) else 0

theorem cosTuple_eq (k : ℕ) (a : Fin k → ℤ) (θ : Fin M → ℝ) :
    cosTuple k a θ = (tupleSum k (fun i j => Complex.exp (θ j * Complex.I) ^ a i)).re := by
  unfold cosTuple tupleSum
  rw [Complex.re_sum]
  apply Finset.sum_congr rfl
  intro t _
  split
  · have : ∏ i, Complex.exp (θ (t i) * Complex.I) ^ a i
        = Complex.exp (((∑ i, (a i : ℝ) * θ (t i) : ℝ) : ℂ) * Complex.I) := by
      rw [Complex.ofReal_sum, Finset.sum_mul, Complex.exp_sum]
      apply Finset.prod_congr rfl
      intro i _
      rw [← Complex.exp_int_mul]
      congr 1
      push_cast
      ring
    rw [this, Complex.exp_ofReal_mul_I_re]
  · simp

theorem exp_unit (x : ℝ) : Complex.exp (x * Complex.I) * conj (Complex.exp (x * Complex.I)) = 1 := by
  rw [← Complex.exp_conj, ← Complex.exp_add]
  simp

/-- the particles of an event as complex numbers -/
def zs (e : Event ℝ) : Fin e.length → ℂ := fun j => toC e[j.1]

def IsUnit (e : Event ℝ) : Prop := ∀ u ∈ e, Cx.normSq u = 1

theorem zs_unit {e : Event ℝ} (he : IsUnit e) (j : Fin e.length) : zs e j * conj (zs e j) = 1 := by
  unfold zs
  rw [← ofReal_normSq, he _ (List.getElem_mem _)]
  simp

theorem toC_Qm (m : ℕ) (e : Event ℝ) : toC (Qm m e) = A (zs e) m := by
  unfold Qm A zs
  rw [toC_sum, List.map_map]
  rw [← Fin.sum_univ_fun_getElem]
  simp

theorem mult_eq (e : Event ℝ) : (mult e : ℝ) = e.length := by simp [mult, nat]

theorem num2_eq {e : Event ℝ} (he : IsUnit e) :
    ((Cx.normSq (Qm 1 e) - mult e : ℝ) : ℂ) = Dexp (A (zs e)) [1, -1] := by
  have hm1 := A_neg (zs e) (zs_unit he) 1
  push_cast
  rw [ofReal_normSq, toC_Qm, mult_eq]
  simp [Dexp, A_zero, hm1]

set_option maxHeartbeats 800000 in
theorem num4_eq {e : Event ℝ} (he : IsUnit e) :
    ((num4 e : ℝ) : ℂ) = Dexp (A (zs e)) [1, 1, -1, -1] := by
  have hm1 := A_neg (zs e) (zs_unit he) 1
  have hm2 := A_neg (zs e) (zs_unit he) 2
  unfold num4
  simp only [nat]
  push_cast
  rw [ofReal_normSq, ofReal_normSq, ofReal_re]
  simp only [toC_mul, toC_conj, toC_Qm, mult_eq, map_mul, Complex.conj_conj]
  simp [Dexp, List.range_succ, A_zero, hm1, hm2]
  ring1

end SparkxVerif.QCL
