/-
Helper lemmas for C20 (jet output).  Pure list reasoning over the executable model `Core/Jets.lean`;
no Mathlib needed here.
-/
import SparkxVerif.Core.Jets

namespace SparkxVerif.Jets

/-! ### parameter normalisation -/

section norm
variable {α : Type} [LT α] [LE α] [DecidableLT α] [DecidableLE α] [NatCast α]

theorem normalise_ok {raw : Raw α} {P : Params α} (h : normalise raw = .ok P) :
    P = ⟨raw.R, (etaRange raw.etaA raw.etaB).1, (etaRange raw.etaA raw.etaB).2,
          (ptRange raw.ptA raw.ptB).1, (ptRange raw.ptA raw.ptB).2, raw.onlyCharged⟩
      ∧ isNeg raw.ptA = false ∧ isNeg raw.ptB = false := by
  unfold normalise at h
  by_cases h1 : raw.R ≤ (zero : α)
  · simp [h1] at h
  · by_cases h2 : (isNeg raw.ptA || isNeg raw.ptB) = true
    · simp [h1, h2] at h
    · simp only [h1, h2, if_false] at h
      simp only [Bool.or_eq_true, not_or, Bool.not_eq_true] at h2
      exact ⟨(Except.ok.inj h).symm, h2.1, h2.2⟩

end norm

/-! ### cone membership loop = filter -/

section fill
variable {α : Type} [LT α] [DecidableLT α]

omit [LT α] [DecidableLT α] in
theorem mem_triples_part {ps : List (Part α)} {ds : List α} {t : Triple α}
    (h : t ∈ triples ps ds) : t.2.1 ∈ ps := by
  obtain ⟨n, p, d⟩ := t
  unfold triples at h
  exact (List.of_mem_zip (List.of_mem_zip h).2).1

theorem fill_positive (R : α) (only : Bool) (ts : List (Triple α))
    (h : ∀ t ∈ ts, t.2.1.status ≠ none) :
    fill R .positive only ts = .ok (ts.filter (isAssoc R only)) := by
  induction ts with
  | nil => rfl
  | cons t ts ih =>
    have ht := h t (by simp)
    have ih' := ih (fun t' ht' => h t' (by simp [ht']))
    cases hs : t.2.1.status with
    | none => exact absurd hs ht
    | some s =>
      by_cases h1 : s < 0 <;> by_cases h2 : t.2.2 < R <;> cases only <;> cases hc : t.2.1.charged <;>
        simp [fill, hs, ih', skip, List.filter_cons, isAssoc, h1, h2, hc] <;> omega

theorem fill_negative (R : α) (ts : List (Triple α))
    (h : ∀ t ∈ ts, t.2.1.status ≠ none) :
    fill R .negative false ts = .ok (ts.filter (isHole R)) := by
  induction ts with
  | nil => rfl
  | cons t ts ih =>
    have ht := h t (by simp)
    have ih' := ih (fun t' ht' => h t' (by simp [ht']))
    cases hs : t.2.1.status with
    | none => exact absurd hs ht
    | some s =>
      by_cases h1 : s < 0 <;> by_cases h2 : t.2.2 < R <;>
        simp [fill, hs, ih', skip, isHole, h1, h2] <;> omega

/-- an unset status anywhere in the event makes the lookup raise, whatever the selection -/
theorem fill_unset (R : α) (sel : Sel) (only : Bool) (ts : List (Triple α))
    (h : ∃ t ∈ ts, t.2.1.status = none) : fill R sel only ts = .error .value := by
  induction ts with
  | nil => obtain ⟨t, ht, _⟩ := h; cases ht
  | cons t ts ih =>
    cases hs : t.2.1.status with
    | none => simp [fill, hs]
    | some s =>
      have : ∃ t' ∈ ts, t'.2.1.status = none := by
        obtain ⟨t', ht', hn⟩ := h
        rcases List.mem_cons.1 ht' with rfl | hm
        · rw [hs] at hn; cases hn
        · exact ⟨t', hm, hn⟩
      simp only [fill, hs, ih this]
      split
      · rfl
      · split <;> rfl

end fill

/-! ### hole accumulation = component sums -/

section holes
variable {α : Type} [Add α] [NatCast α]

omit [NatCast α] in
theorem foldl_addMom (hs : List (Triple α)) (a : Mom α) :
    hs.foldl (fun acc t => addMom acc t.2.1.mom) a =
      ⟨(hs.map (fun t => t.2.1.mom.px)).foldl (· + ·) a.px,
       (hs.map (fun t => t.2.1.mom.py)).foldl (· + ·) a.py,
       (hs.map (fun t => t.2.1.mom.pz)).foldl (· + ·) a.pz,
       (hs.map (fun t => t.2.1.mom.e)).foldl (· + ·) a.e⟩ := by
  induction hs generalizing a with
  | nil => rfl
  | cons h hs ih => rw [List.foldl_cons, ih]; simp [addMom]

theorem holeSum_eq (hs : List (Triple α)) :
    holeSum hs =
      ⟨sumL ((hs.map (fun t => t.2.1.mom)).map Mom.px), sumL ((hs.map (fun t => t.2.1.mom)).map Mom.py),
       sumL ((hs.map (fun t => t.2.1.mom)).map Mom.pz), sumL ((hs.map (fun t => t.2.1.mom)).map Mom.e)⟩ := by
  simp [holeSum, foldl_addMom, sumL, zero, List.map_map, Function.comp_def]

end holes

/-! ### rows -/

section rows
variable {α : Type}

theorem partRows_index (ev : Nat) (k : Nat) (ts : List (Triple α)) :
    ∀ r ∈ partRows ev k ts, k ≤ r.index := by
  induction ts generalizing k with
  | nil => intro r hr; cases hr
  | cons t ts ih =>
    intro r hr
    rcases List.mem_cons.1 hr with rfl | hm
    · exact Nat.le_refl _
    · exact Nat.le_trans (Nat.le_succ k) (ih (k + 1) r hm)

theorem partRows_length (ev : Nat) (k : Nat) (ts : List (Triple α)) :
    (partRows ev k ts).length = ts.length := by
  induction ts generalizing k with
  | nil => rfl
  | cons t ts ih => simp [partRows, ih]

theorem flatten_filter_nonempty {β : Type} (L : List (List β)) :
    (L.filter (fun g => !g.isEmpty)).flatten = L.flatten := by
  induction L with
  | nil => rfl
  | cons g L ih =>
    cases g with
    | nil => simpa [List.filter_cons] using ih
    | cons x xs => simp [ih]

end rows


/-! ### the event / jet loops of the repaired text write exactly the specified rows -/

section machine
variable {α : Type} [LT α] [LE α] [DecidableLT α] [DecidableLE α]
  [Add α] [Sub α] [Mul α] [NatCast α]

/-- every particle of the event has its status set (the class documentation requires it) -/
def StatusSetEv (ev : Event α) : Prop := ∀ p ∈ ev.parts, p.status ≠ none

/-- the same for a whole sample -/
def StatusSet (evs : List (Event α)) : Prop := ∀ ev ∈ evs, StatusSetEv ev

omit [LE α] [DecidableLE α] [Mul α] in
theorem subtract_specHoles (P : Params α) (ev : Event α) (j : Jet α) :
    subtract j.mom (specHoles P ev j) = specMom P ev j := by
  simp [subtract, specMom, holeSum_eq]

omit [LE α] [DecidableLE α] in
theorem jetsLoop_repaired (sqrt : α → α) (P : Params α) (i : Nat) (ev : Event α) (hs : StatusSetEv ev)
    (js : List (Jet α)) : ∀ (nf : Bool) (l : List (Row α)), (nf = true → l = []) →
      jetsLoop repaired sqrt P i ev nf (some l) js
        = .ok (some (l ++ (js.map (specJet sqrt P i ev)).flatten)) := by
  induction js with
  | nil => intro nf l _; simp [jetsLoop]
  | cons j js ih =>
    intro nf l hnf
    have hst : ∀ t ∈ triples ev.parts j.dr, t.2.1.status ≠ none :=
      fun t ht => hs _ (mem_triples_part ht)
    have hneg := fill_negative P.R (triples ev.parts j.dr) hst
    have hpos := fill_positive P.R P.onlyCharged (triples ev.parts j.dr) hst
    have hout : output sqrt P i (specMom P ev j) (specAssoc P ev j) = specJet sqrt P i ev j := rfl
    have hw : writeOut (some l) nf (specJet sqrt P i ev j) = some (l ++ specJet sqrt P i ev j) := by
      cases nf with
      | false => rfl
      | true => simp [writeOut, hnf rfl]
    simp only [jetsLoop, repaired, Bool.false_and, hneg, hpos]
    change jetsLoop repaired sqrt P i ev false
      (writeOut (some l) nf (output sqrt P i (subtract j.mom (specHoles P ev j)) (specAssoc P ev j))) js = _
    rw [subtract_specHoles, hout, hw, ih false _ (by simp)]
    simp [List.append_assoc]

theorem runEvents_repaired (sqrt : α → α) (P : Params α) (evs : List (Event α)) (hs : StatusSet evs) :
    ∀ (i : Nat) (l : List (Row α)), (i = 0 → l = []) →
      runEvents repaired sqrt P i (some l) evs
        = .ok (some (l ++ (specGroupsFrom sqrt P i evs).flatten)) := by
  induction evs with
  | nil => intro i l _; simp [runEvents, specGroupsFrom]
  | cons ev rest ih =>
    intro i l hi
    have hev : StatusSetEv ev := hs ev (by simp)
    have hrest : StatusSet rest := fun e he => hs e (by simp [he])
    have hj := jetsLoop_repaired sqrt P i ev hev (selected P ev) (decide (i = 0)) l (by simpa using hi)
    simp only [runEvents, hj]
    rw [ih hrest (i + 1) _ (by omega)]
    simp [specGroupsFrom, flatten_filter_nonempty, List.append_assoc]

end machine

/-! ### the reader regroups what a sequence of well-formed groups flattens to -/

section reader
variable {ρ : Type} (idx : ρ → Nat)

/-- a group as the writer produces it: one index-0 row followed by rows of non-zero index -/
def WFGroup (g : List ρ) : Prop := ∃ h t, g = h :: t ∧ idx h = 0 ∧ ∀ r ∈ t, idx r ≠ 0

theorem readGo_tail (t rest cur : List ρ) (acc : List (List ρ)) (ht : ∀ r ∈ t, idx r ≠ 0) :
    readGo idx (t ++ rest) cur acc = readGo idx rest (cur ++ t) acc := by
  induction t generalizing cur with
  | nil => simp
  | cons r rs ih =>
    have hr : idx r ≠ 0 := ht r (by simp)
    have := ih (cur ++ [r]) (fun r' hr' => ht r' (by simp [hr']))
    simp [readGo, hr, this]

theorem readGo_groups (G : List (List ρ)) (hG : ∀ g ∈ G, WFGroup idx g) (cur : List ρ) (acc : List (List ρ)) :
    readGo idx G.flatten cur acc = acc ++ (if cur.isEmpty then [] else [cur]) ++ G := by
  induction G generalizing cur acc with
  | nil => cases cur <;> simp [readGo]
  | cons g G ih =>
    obtain ⟨h, t, rfl, h0, ht⟩ := hG g (by simp)
    have ihG := ih (fun g' hg' => hG g' (by simp [hg']))
    cases cur with
    | nil =>
      simp only [List.flatten_cons, List.cons_append, readGo, h0, List.isEmpty_nil, Bool.not_true,
        List.nil_append]
      simp only [Bool.false_eq_true, and_false, if_false]
      rw [readGo_tail idx t G.flatten [h] acc ht, ihG]
      simp
    | cons c cs =>
      simp only [List.flatten_cons, List.cons_append, readGo, h0, List.isEmpty_cons, Bool.not_false,
        and_self, if_true]
      rw [readGo_tail idx t G.flatten [h] _ ht, ihG]
      simp

theorem read_flatten (G : List (List ρ)) (hG : ∀ g ∈ G, WFGroup idx g) : read idx G.flatten = G := by
  simp [read, readGo_groups idx G hG]

end reader

end SparkxVerif.Jets
