/-
C01 — lemmas about the reader model R on files that are well-formed as observed (`Core/Render.lean`).
One lemma per line kind for the header scan and for the line loop, then induction over the events.
No Mathlib needed.
-/
import SparkxVerif.Core.Render

namespace SparkxVerif.Rd

/-! ### generic helpers -/

theorem mapM_except_ok {α β ε} (f : α → Except ε β) (g : α → β) (xs : List α)
    (h : ∀ x ∈ xs, f x = .ok (g x)) : xs.mapM f = .ok (xs.map g) := by
  induction xs with
  | nil => rfl
  | cons x xs ih =>
    have hx := h x (by simp)
    have hxs := ih (fun y hy => h y (by simp [hy]))
    simp [List.mapM_cons, hx, hxs, bind, Except.bind, pure, Except.pure]

theorem sumCounts_acc (rows : List (Int × Int)) (extra acc : Int) :
    rows.foldl (fun a r => a + (r.2 + extra)) acc = acc + sumCounts rows extra := by
  induction rows generalizing acc with
  | nil => simp [sumCounts]
  | cons r rs ih =>
    simp only [List.foldl_cons, sumCounts]
    rw [ih, ih (0 + (r.2 + extra))]
    omega

theorem sumCounts_cons (r : Int × Int) (rows : List (Int × Int)) (extra : Int) :
    sumCounts (r :: rows) extra = (r.2 + extra) + sumCounts rows extra := by
  simp only [sumCounts, List.foldl_cons]
  rw [sumCounts_acc]
  simp [sumCounts]

/-! ### Oscar: header scan -/

theorem oscarScan_skip {l : LineF} {ls : List LineF} (h : notScanned l = true) :
    oscarScan (l :: ls) = oscarScan ls := by
  simp only [notScanned, Bool.and_eq_true, Bool.not_eq_true'] at h
  rw [oscarScan]
  simp [h.1, h.2]

theorem oscarScan_out {l : LineF} {e : OEvent} {ls : List LineF} (h : isOutLine l e = true) :
    oscarScan (l :: ls) =
      (oscarScan ls).map (fun rf => ((e.label, (e.parts.length : Int)) :: rf.1, rf.2)) := by
  simp only [isOutLine, Bool.and_eq_true, Bool.not_eq_true', beq_iff_eq] at h
  obtain ⟨⟨⟨⟨⟨⟨hh, ho⟩, he⟩, _⟩, _⟩, h2⟩, h4⟩ := h
  rw [oscarScan]
  simp only [tokInt] at h2 h4
  cases h2' : l.toks[2]? with
  | none => simp [h2'] at h2
  | some t2 =>
    cases h4' : l.toks[4]? with
    | none => simp [h4'] at h4
    | some t4 =>
      simp [h2', h4'] at h2 h4
      simp [hh, ho, he, h2, h4]
      cases oscarScan ls <;> rfl

theorem oscarScan_end {l : LineF} {e : OEvent} {ls : List LineF} (h : isEndLine l e = true) :
    oscarScan (l :: ls) = (oscarScan ls).map (fun rf => (rf.1, e.footer :: rf.2)) := by
  simp only [isEndLine, Bool.and_eq_true, beq_iff_eq] at h
  obtain ⟨⟨⟨⟨⟨⟨⟨⟨⟨⟨hh, he⟩, _⟩, _⟩, _⟩, hraw⟩, _⟩, _⟩, _⟩, _⟩, _⟩ := h
  rw [oscarScan]
  simp [hh, he, hraw]
  cases oscarScan ls <;> rfl

theorem isPartLine_noHash {fmt attrs l r} (h : isPartLine fmt attrs l r = true) : l.hasHash = false := by
  simp only [isPartLine, Bool.and_eq_true, Bool.not_eq_true'] at h
  exact h.1.1.1.1

theorem oscarScan_parts {fmt : Fmt} {attrs : List String} {ps : List LineF} {rows : List (List String)}
    (ls : List LineF) (h : obsParts fmt attrs ps rows = true) : oscarScan (ps ++ ls) = oscarScan ls := by
  induction ps generalizing rows with
  | nil => rfl
  | cons p ps ih =>
    cases rows with
    | nil => simp [obsParts] at h
    | cons r rs =>
      simp only [obsParts, Bool.and_eq_true] at h
      have hp := isPartLine_noHash h.1
      rw [List.cons_append, oscarScan_skip (by simp [notScanned, hp]), ih h.2]

theorem obsParts_length {fmt : Fmt} {attrs : List String} {ps : List LineF} {rows : List (List String)}
    (h : obsParts fmt attrs ps rows = true) : ps.length = rows.length := by
  induction ps generalizing rows with
  | nil => cases rows <;> simp_all [obsParts]
  | cons p ps ih =>
    cases rows with
    | nil => simp [obsParts] at h
    | cons r rs =>
      simp only [obsParts, Bool.and_eq_true] at h
      simp [ih h.2]

/-- shape of the lines of a non-empty list of events -/
theorem obsBody_cons {fmt : Fmt} {attrs : List String} {ls : List LineF} {e : OEvent} {es : List OEvent}
    (h : obsBody fmt attrs ls (e :: es) = true) :
    ∃ o ps en rest, ls = o :: (ps ++ en :: rest) ∧ isOutLine o e = true ∧ obsParts fmt attrs ps e.parts = true ∧
      isEndLine en e = true ∧ obsBody fmt attrs rest es = true := by
  cases ls with
  | nil => simp [obsBody] at h
  | cons o rest =>
    simp only [obsBody] at h
    cases hd : rest.drop e.parts.length with
    | nil => simp [hd] at h
    | cons en rest' =>
      simp only [hd, Bool.and_eq_true] at h
      refine ⟨o, rest.take e.parts.length, en, rest', ?_, h.1.1.1, h.1.1.2, h.1.2, h.2⟩
      rw [← hd, List.take_append_drop]

theorem oscarScan_body {fmt : Fmt} {attrs : List String} {ls : List LineF} {es : List OEvent}
    (h : obsBody fmt attrs ls es = true) :
    oscarScan ls = .ok (es.map (fun e => (e.label, (e.parts.length : Int))), es.map (·.footer)) := by
  induction es generalizing ls with
  | nil =>
    cases ls with
    | nil => rfl
    | cons _ _ => simp [obsBody] at h
  | cons e es ih =>
    obtain ⟨o, ps, en, rest, rfl, ho, hp, he, hr⟩ := obsBody_cons h
    rw [oscarScan_out ho, oscarScan_parts _ hp, oscarScan_end he, ih hr]
    rfl

/-! ### Oscar: the line loop -/

section loop
variable (fmt : Fmt) (attrs : List String) (fl : Int)

theorem oscarLoop_out {filt : Option EvFilter} {l : LineF} {e : OEvent} (h : isOutLine l e = true)
    (n no : Nat) (first : Bool) (ls : List LineF) (st : LoopSt) :
    oscarLoop fmt attrs filt fl (n + 1) no first (l :: ls) st = oscarLoop fmt attrs filt fl n (no + 1) false ls st := by
  simp only [isOutLine, Bool.and_eq_true, Bool.not_eq_true', beq_iff_eq] at h
  obtain ⟨⟨⟨⟨⟨⟨hh, _⟩, _⟩, hev⟩, hout⟩, _⟩, _⟩ := h
  rw [oscarLoop]
  simp [hh, hev, hout]

theorem oscarLoop_part {filt : Option EvFilter} {l : LineF} {r : List String} (h : isPartLine fmt attrs l r = true)
    (n no : Nat) (ls : List LineF) (st : LoopSt) :
    oscarLoop fmt attrs filt fl (n + 1) no false (l :: ls) st =
      oscarLoop fmt attrs filt fl n (no + 1) false ls { st with data := st.data ++ [⟨no, r⟩] } := by
  simp only [isPartLine, Bool.and_eq_true, Bool.not_eq_true', beq_iff_eq] at h
  obtain ⟨⟨⟨⟨hh, hev⟩, ht⟩, hc⟩, hf⟩ := h
  rw [oscarLoop]
  simp [hh, hev, ht, hc, hf]

theorem oscarLoop_parts {filt : Option EvFilter} {ps : List LineF} {rows : List (List String)}
    (h : obsParts fmt attrs ps rows = true) (n no : Nat) (ls : List LineF) (st : LoopSt) :
    oscarLoop fmt attrs filt fl (ps.length + n) no false (ps ++ ls) st =
      oscarLoop fmt attrs filt fl n (no + ps.length) false ls { st with data := st.data ++ mkPLines no rows } := by
  induction ps generalizing rows no st with
  | nil =>
    cases rows with
    | nil => simp [mkPLines]
    | cons _ _ => simp [obsParts] at h
  | cons p ps ih =>
    cases rows with
    | nil => simp [obsParts] at h
    | cons r rs =>
      simp only [obsParts, Bool.and_eq_true] at h
      have e1 : (p :: ps).length + n = (ps.length + n) + 1 := by simp; omega
      rw [e1, List.cons_append, oscarLoop_part fmt attrs fl h.1, ih h.2]
      have e2 : no + 1 + ps.length = no + (p :: ps).length := by simp; omega
      simp [mkPLines, e2, List.append_assoc]

theorem oscarLoop_end {l : LineF} {e : OEvent} (h : isEndLine l e = true)
    (n no : Nat) (first : Bool) (ls : List LineF) (st : LoopSt) :
    oscarLoop fmt attrs none fl (n + 1) no first (l :: ls) st =
      oscarLoop fmt attrs none fl n (no + 1) false ls { st with plist := st.plist ++ [st.data], data := [] } := by
  simp only [isEndLine, Bool.and_eq_true, Bool.not_eq_true', beq_iff_eq] at h
  obtain ⟨⟨⟨⟨⟨⟨⟨⟨⟨⟨hh, _⟩, hend⟩, _⟩, hnot⟩, _⟩, _⟩, _⟩, _⟩, _⟩, _⟩ := h
  rw [oscarLoop]
  have hc : closeEvent st none fl = .ok { st with plist := st.plist ++ [st.data], data := [] } := by
    simp only [closeEvent, bind, Except.bind, pure, Except.pure]
    by_cases hz : st.data.length = 0 <;> simp [hz]
  simp [hh, hend, hnot, hc, bind, Except.bind]

/-- number of lines of the event blocks -/
def bodyLen : List OEvent → Nat
  | [] => 0
  | e :: es => e.parts.length + 2 + bodyLen es

theorem oscarLoop_body {ls : List LineF} {es : List OEvent} (h : obsBody fmt attrs ls es = true)
    (no : Nat) (first : Bool) (st : LoopSt) (hd : st.data = []) :
    oscarLoop fmt attrs none fl (bodyLen es) no first ls st =
      .ok { st with plist := st.plist ++ absOEvents no es, data := [] } := by
  induction es generalizing ls no first st with
  | nil =>
    cases ls with
    | nil => cases st; simp_all [bodyLen, oscarLoop, absOEvents]
    | cons _ _ => simp [obsBody] at h
  | cons e es ih =>
    obtain ⟨o, ps, en, rest, rfl, ho, hp, he, hr⟩ := obsBody_cons h
    have hlen := obsParts_length hp
    have e1 : bodyLen (e :: es) = (ps.length + (bodyLen es + 1)) + 1 := by simp [bodyLen, hlen]; omega
    rw [e1, oscarLoop_out fmt attrs fl ho, oscarLoop_parts fmt attrs fl hp, oscarLoop_end fmt attrs fl he, ih hr]
    · simp [absOEvents, hd, hlen, List.append_assoc]
      have e3 : no + 1 + e.parts.length + 1 = no + e.parts.length + 2 := by omega
      rw [e3]
    · rfl

end loop

theorem bodyLen_int (es : List OEvent) :
    sumCounts (es.map (fun e => (e.label, (e.parts.length : Int)))) 0 + 2 * (es.length : Int) = (bodyLen es : Int) := by
  induction es with
  | nil => simp [sumCounts, bodyLen]
  | cons e es ih =>
    rw [List.map_cons, sumCounts_cons]
    simp only [bodyLen, List.length_cons]
    push_cast
    omega

theorem absOEvents_length (no : Nat) (es : List OEvent) : (absOEvents no es).length = es.length := by
  induction es generalizing no with
  | nil => rfl
  | cons e es ih => simp [absOEvents, ih]

/-- the last line of the event blocks is the end line of the last event -/
theorem obsBody_getLast {fmt : Fmt} {attrs : List String} {ls : List LineF} {es : List OEvent}
    (h : obsBody fmt attrs ls es = true) (hne : es ≠ []) :
    ∃ en, ls.getLast? = some en ∧ isEndLine en (es.getLast hne) = true := by
  induction es generalizing ls with
  | nil => exact absurd rfl hne
  | cons e es ih =>
    obtain ⟨o, ps, en, rest, rfl, _, _, he, hr⟩ := obsBody_cons h
    cases es with
    | nil =>
      cases rest with
      | nil =>
        refine ⟨en, ?_, ?_⟩
        · have : (o :: (ps ++ [en])) = (o :: ps) ++ [en] := by simp
          rw [this, List.getLast?_concat]
        · simpa using he
      | cons _ _ => simp [obsBody] at hr
    | cons e' es' =>
      obtain ⟨en', hl, he'⟩ := ih hr (by simp)
      refine ⟨en', ?_, by simpa using he'⟩
      have : (o :: (ps ++ en :: rest)) = (o :: ps ++ [en]) ++ rest := by simp
      rw [this, List.getLast?_append, hl]
      rfl

/-! ### JETSCAPE: header scan -/

theorem jetscapeScan_skip {partons : Bool} {l : LineF} {ls : List LineF}
    (h : (l.hasHash && hasKey partons l) = false) : jetscapeScan partons (l :: ls) = jetscapeScan partons ls := by
  rw [jetscapeScan]
  simp only [hasKey] at h
  simp [h]

theorem jetscapeScan_header {partons : Bool} {l : LineF} {e : JEvent} {ls : List LineF}
    (h : isJHeader partons l e = true) :
    jetscapeScan partons (l :: ls) =
      (jetscapeScan partons ls).map (fun rows => (e.label, (e.parts.length : Int)) :: rows) := by
  simp only [isJHeader, Bool.and_eq_true, Bool.not_eq_true', beq_iff_eq] at h
  obtain ⟨⟨⟨⟨⟨⟨⟨hh, hk⟩, _⟩, _⟩, _⟩, _⟩, h2⟩, h8⟩ := h
  rw [jetscapeScan]
  simp only [tokInt] at h2 h8
  simp only [hasKey] at hk
  cases h2' : l.toksTab[2]? with
  | none => simp [h2'] at h2
  | some t2 =>
    cases h8' : l.toksTab[8]? with
    | none => simp [h8'] at h8
    | some t8 =>
      simp [h2', h8'] at h2 h8
      simp [hh, hk, h2, h8]
      cases jetscapeScan partons ls <;> rfl

theorem obsJParts_length {partons : Bool} {ps : List LineF} {rows : List (List String)}
    (h : obsJParts partons ps rows = true) : ps.length = rows.length := by
  induction ps generalizing rows with
  | nil => cases rows <;> simp_all [obsJParts]
  | cons p ps ih =>
    cases rows with
    | nil => simp [obsJParts] at h
    | cons r rs =>
      simp only [obsJParts, Bool.and_eq_true] at h
      simp [ih h.2]

theorem jetscapeScan_parts {partons : Bool} {ps : List LineF} {rows : List (List String)}
    (ls : List LineF) (h : obsJParts partons ps rows = true) :
    jetscapeScan partons (ps ++ ls) = jetscapeScan partons ls := by
  induction ps generalizing rows with
  | nil => rfl
  | cons p ps ih =>
    cases rows with
    | nil => simp [obsJParts] at h
    | cons r rs =>
      simp only [obsJParts, Bool.and_eq_true] at h
      have hp : (p.hasHash && hasKey partons p) = false := by
        have := h.1
        simp only [isJPart, Bool.and_eq_true, Bool.not_eq_true'] at this
        exact this.1.1.1.1.1
      rw [List.cons_append, jetscapeScan_skip hp, ih h.2]

theorem obsJBody_cons {partons : Bool} {F : JetSpec} {ls : List LineF} {e : JEvent} {es : List JEvent}
    (h : obsJBody partons F ls (e :: es) = true) :
    ∃ hd ps rest, ls = hd :: (ps ++ rest) ∧ isJHeader partons hd e = true ∧ obsJParts partons ps e.parts = true ∧
      obsJBody partons F rest es = true := by
  cases ls with
  | nil => simp [obsJBody] at h
  | cons hd rest =>
    simp only [obsJBody, Bool.and_eq_true] at h
    exact ⟨hd, rest.take e.parts.length, rest.drop e.parts.length, by rw [List.take_append_drop], h.1.1, h.1.2, h.2⟩

theorem obsJBody_nil {partons : Bool} {F : JetSpec} {ls : List LineF} (h : obsJBody partons F ls [] = true) :
    ∃ t, ls = [t] ∧ isJTrailer partons t F = true := by
  match ls, h with
  | [t], h => exact ⟨t, rfl, by simpa [obsJBody] using h⟩
  | [], h => simp [obsJBody] at h
  | _ :: _ :: _, h => simp [obsJBody] at h

theorem jetscapeScan_body {partons : Bool} {F : JetSpec} {ls : List LineF} {es : List JEvent}
    (h : obsJBody partons F ls es = true) :
    jetscapeScan partons ls = .ok (es.map (fun e => (e.label, (e.parts.length : Int)))) := by
  induction es generalizing ls with
  | nil =>
    obtain ⟨t, rfl, ht⟩ := obsJBody_nil h
    simp only [isJTrailer, Bool.and_eq_true, Bool.not_eq_true'] at ht
    rw [jetscapeScan_skip (by simp [ht.1.1.2])]
    rfl
  | cons e es ih =>
    obtain ⟨hd, ps, rest, rfl, hh, hp, hr⟩ := obsJBody_cons h
    rw [jetscapeScan_header hh, jetscapeScan_parts _ hp, ih hr]
    rfl

theorem obsJBody_getLast {partons : Bool} {F : JetSpec} {ls : List LineF} {es : List JEvent}
    (h : obsJBody partons F ls es = true) :
    ∃ t, ls.getLast? = some t ∧ isJTrailer partons t F = true := by
  induction es generalizing ls with
  | nil =>
    obtain ⟨t, rfl, ht⟩ := obsJBody_nil h
    exact ⟨t, rfl, ht⟩
  | cons e es ih =>
    obtain ⟨hd, ps, rest, rfl, _, _, hr⟩ := obsJBody_cons h
    obtain ⟨t, hl, ht⟩ := ih hr
    refine ⟨t, ?_, ht⟩
    have : hd :: (ps ++ rest) = (hd :: ps) ++ rest := by simp
    rw [this, List.getLast?_append, hl]
    rfl

/-! ### JETSCAPE: the line loop -/

section jloop
variable (fl fh : Int)

theorem closeEvent_none (st : LoopSt) (fl : Int) :
    closeEvent st none fl = .ok { st with plist := st.plist ++ [st.data], data := [] } := by
  simp only [closeEvent, bind, Except.bind, pure, Except.pure]
  by_cases hz : st.data.length = 0 <;> simp [hz]

theorem jetscapeLoop_first {partons : Bool} {l : LineF} {e : JEvent} (h : isJHeader partons l e = true)
    (hl : e.label = fh) (n no : Nat) (first : Bool) (ls : List LineF) (st : LoopSt) :
    jetscapeLoop none fl fh (n + 1) no first (l :: ls) st = jetscapeLoop none fl fh n (no + 1) false ls st := by
  simp only [isJHeader, Bool.and_eq_true, Bool.not_eq_true', beq_iff_eq] at h
  obtain ⟨⟨⟨⟨⟨⟨⟨hh, _⟩, hs⟩, hcap⟩, hw⟩, _⟩, h2⟩, _⟩ := h
  rw [jetscapeLoop]
  simp only [tokInt] at h2
  cases h2' : l.toksTab[2]? with
  | none => simp [h2'] at h2
  | some t2 =>
    simp [h2'] at h2
    simp [hh, hs, hcap, hw, h2, hl]

theorem jetscapeLoop_header {partons : Bool} {l : LineF} {e : JEvent} (h : isJHeader partons l e = true)
    (hl : e.label ≠ fh) (n no : Nat) (first : Bool) (ls : List LineF) (st : LoopSt) :
    jetscapeLoop none fl fh (n + 1) no first (l :: ls) st =
      jetscapeLoop none fl fh n (no + 1) false ls { st with plist := st.plist ++ [st.data], data := [] } := by
  simp only [isJHeader, Bool.and_eq_true, Bool.not_eq_true', beq_iff_eq] at h
  obtain ⟨⟨⟨⟨⟨⟨⟨hh, _⟩, hs⟩, hcap⟩, hw⟩, _⟩, h2⟩, _⟩ := h
  rw [jetscapeLoop]
  simp only [tokInt] at h2
  cases h2' : l.toksTab[2]? with
  | none => simp [h2'] at h2
  | some t2 =>
    simp [h2'] at h2
    simp [hh, hs, hcap, hw, h2, hl, closeEvent_none, bind, Except.bind]

theorem jetscapeLoop_part {partons : Bool} {l : LineF} {r : List String} (h : isJPart partons l r = true)
    (n no : Nat) (ls : List LineF) (st : LoopSt) :
    jetscapeLoop none fl fh (n + 1) no false (l :: ls) st =
      jetscapeLoop none fl fh n (no + 1) false ls { st with data := st.data ++ [⟨no, r⟩] } := by
  simp only [isJPart, Bool.and_eq_true, Bool.not_eq_true', beq_iff_eq] at h
  obtain ⟨⟨⟨⟨⟨_, hs⟩, hcw⟩, ht⟩, hlen⟩, hf⟩ := h
  rw [jetscapeLoop]
  simp only [jetKinds] at hf
  simp [hs, hcw, ht, hlen, hf]

theorem jetscapeLoop_parts {partons : Bool} {ps : List LineF} {rows : List (List String)}
    (h : obsJParts partons ps rows = true) (n no : Nat) (ls : List LineF) (st : LoopSt) :
    jetscapeLoop none fl fh (ps.length + n) no false (ps ++ ls) st =
      jetscapeLoop none fl fh n (no + ps.length) false ls { st with data := st.data ++ mkPLines no rows } := by
  induction ps generalizing rows no st with
  | nil =>
    cases rows with
    | nil => simp [mkPLines]
    | cons _ _ => simp [obsJParts] at h
  | cons p ps ih =>
    cases rows with
    | nil => simp [obsJParts] at h
    | cons r rs =>
      simp only [obsJParts, Bool.and_eq_true] at h
      have e1 : (p :: ps).length + n = (ps.length + n) + 1 := by simp; omega
      rw [e1, List.cons_append, jetscapeLoop_part fl fh h.1, ih h.2]
      have e2 : no + 1 + ps.length = no + (p :: ps).length := by simp; omega
      simp [mkPLines, e2, List.append_assoc]

theorem jetscapeLoop_trailer {partons : Bool} {F : JetSpec} {l : LineF} (h : isJTrailer partons l F = true)
    (n no : Nat) (first : Bool) (ls : List LineF) (st : LoopSt) :
    jetscapeLoop none fl fh (n + 1) no first (l :: ls) st =
      jetscapeLoop none fl fh n (no + 1) false ls { st with plist := st.plist ++ [st.data], data := [] } := by
  simp only [isJTrailer, Bool.and_eq_true, Bool.not_eq_true'] at h
  rw [jetscapeLoop]
  simp [h.1.1.1.1, h.1.1.1.2, closeEvent_none, bind, Except.bind]

/-- number of lines of the event blocks -/
def jbodyLen : List JEvent → Nat
  | [] => 0
  | e :: es => e.parts.length + 1 + jbodyLen es

/-- from the header of an event that is not the first one: the pending event is closed, the rest follows -/
theorem jetscapeLoop_rest {partons : Bool} {F : JetSpec} {ls : List LineF} {es : List JEvent}
    (h : obsJBody partons F ls es = true) (hl : ∀ e ∈ es, e.label ≠ fh)
    (no : Nat) (first : Bool) (st : LoopSt) :
    jetscapeLoop none fl fh (jbodyLen es + 1) no first ls st =
      .ok { st with plist := st.plist ++ [st.data] ++ absJEvents no es, data := [] } := by
  induction es generalizing ls no first st with
  | nil =>
    obtain ⟨t, rfl, ht⟩ := obsJBody_nil h
    simp only [jbodyLen, Nat.zero_add]
    rw [jetscapeLoop_trailer fl fh ht]
    simp [jetscapeLoop, absJEvents]
  | cons e es ih =>
    obtain ⟨hd, ps, rest, rfl, hh, hp, hr⟩ := obsJBody_cons h
    have hlen := obsJParts_length hp
    have e1 : jbodyLen (e :: es) + 1 = (ps.length + (jbodyLen es + 1)) + 1 := by simp [jbodyLen, hlen]; omega
    rw [e1, jetscapeLoop_header fl fh hh (hl e (by simp)), jetscapeLoop_parts fl fh hp,
      ih hr (fun e' he' => hl e' (by simp [he']))]
    have e3 : no + 1 + e.parts.length = no + e.parts.length + 1 := by omega
    simp [absJEvents, hlen, List.append_assoc, e3]

/-- the whole body, starting at the header of the first event (whose number is the one the loop skips) -/
theorem jetscapeLoop_body {partons : Bool} {F : JetSpec} {ls : List LineF} {e : JEvent} {es : List JEvent}
    (h : obsJBody partons F ls (e :: es) = true) (h1 : e.label = fh) (hl : ∀ e' ∈ es, e'.label ≠ fh)
    (no : Nat) (first : Bool) (st : LoopSt) (hd : st.data = []) :
    jetscapeLoop none fl fh (jbodyLen (e :: es) + 1) no first ls st =
      .ok { st with plist := st.plist ++ absJEvents no (e :: es), data := [] } := by
  obtain ⟨hdr, ps, rest, rfl, hh, hp, hr⟩ := obsJBody_cons h
  have hlen := obsJParts_length hp
  have e1 : jbodyLen (e :: es) + 1 = (ps.length + (jbodyLen es + 1)) + 1 := by simp [jbodyLen, hlen]; omega
  rw [e1, jetscapeLoop_first fl fh hh h1, jetscapeLoop_parts fl fh hp, jetscapeLoop_rest fl fh hr hl]
  have e3 : no + 1 + e.parts.length = no + e.parts.length + 1 := by omega
  simp [absJEvents, hd, hlen, List.append_assoc, e3]

end jloop

theorem jbodyLen_int (es : List JEvent) :
    sumCounts (es.map (fun e => (e.label, (e.parts.length : Int)))) 0 + 1 * (es.length : Int) + 1 = ((jbodyLen es + 1 : Nat) : Int) := by
  induction es with
  | nil => simp [sumCounts, jbodyLen]
  | cons e es ih =>
    rw [List.map_cons, sumCounts_cons]
    simp only [jbodyLen, List.length_cons]
    push_cast at ih ⊢
    omega

theorem absJEvents_length (no : Nat) (es : List JEvent) : (absJEvents no es).length = es.length := by
  induction es generalizing no with
  | nil => rfl
  | cons e es ih => simp [absJEvents, ih]

/-! ### pieces of the top-level theorems -/

theorem customAttrList_known (cols : List String) (h : ∀ c ∈ cols, c ∈ allCols) :
    customAttrList cols = cols.map attrOf := by
  have key : ∀ c ∈ allCols, attrMapKeys.lookup c = some (attrOf c) := by decide
  induction cols with
  | nil => rfl
  | cons c cs ih =>
    have hc := key c (h c (by simp))
    have := ih (fun c' hc' => h c' (by simp [hc']))
    simp only [customAttrList] at this ⊢
    simp [hc, this]

theorem oscarFormat_head {F : OscarSpec} {l : LineF} (h : isHeadLine F l = true)
    (hfmt : match F.fmt with
      | .oscar2013 => True | .extended => F.cols.length ≠ 13 | .ascii => ∀ c ∈ F.cols, c ∈ allCols | _ => False) :
    oscarFormat l = .ok (F.fmt, attrsOf F) := by
  simp only [isHeadLine, Bool.and_eq_true, beq_iff_eq] at h
  have ht := h.1
  unfold oscarFormat
  cases hf : F.fmt <;> simp only [hf] at hfmt
  case oscar2013 => simp [ht, headToks, headTag, hf, attrsOf]
  case extended => simpa [ht, headToks, headTag, hf, attrsOf] using hfmt
  case ascii => simp [ht, headToks, headTag, hf, attrsOf, customAttrList_known _ hfmt]

theorem getLast_label {es : List OEvent} (hne : es ≠ [])
    (hlab : ∀ i (h : i < es.length), (es[i]).label = (i : Int)) : (es.getLast hne).label + 1 = (es.length : Int) := by
  have hpos : 0 < es.length := List.length_pos_iff.mpr hne
  rw [List.getLast_eq_getElem, hlab (es.length - 1) (by omega)]
  omega

theorem oscarNumEvents_ok {f : FileF} {F : OscarSpec} {h1 h2 h3 : LineF} {body : List LineF}
    (hl : f.lines = h1 :: h2 :: h3 :: body) (hbody : obsBody F.fmt (attrsOf F) body F.events = true)
    (hne : F.events ≠ []) (hlab : ∀ i (h : i < F.events.length), (F.events[i]).label = (i : Int)) :
    oscarNumEvents f = .ok (F.events.length : Int) := by
  obtain ⟨en, hlast, hen⟩ := obsBody_getLast hbody hne
  have hbne : body ≠ [] := by intro hb; simp [hb] at hlast
  have hlast' : f.lines.getLast? = some en := by
    rw [hl]
    have : h1 :: h2 :: h3 :: body = [h1, h2, h3] ++ body := rfl
    rw [this, List.getLast?_append, hlast]; rfl
  simp only [isEndLine, Bool.and_eq_true, beq_iff_eq] at hen
  obtain ⟨⟨⟨⟨⟨⟨⟨⟨⟨⟨_, _⟩, _⟩, _⟩, _⟩, _⟩, h0⟩, hev⟩, h2'⟩, _⟩, _⟩ := hen
  have hlen : ¬ f.lines.length < 2 := by rw [hl]; simp
  simp only [tokInt] at h2'
  cases ht : en.toks[2]? with
  | none => simp [ht] at h2'
  | some t =>
    simp [ht] at h2'
    have h0' : en.toks[0]?.getD "" = "#" := by simpa [List.getD_eq_getElem?_getD] using h0
    have hev' : "event" ∈ en.toks := by simpa using hev
    simp [oscarNumEvents, lastLine, hlast', hlen, h0', hev', ht, h2', bind, Except.bind, getLast_label hne hlab]

theorem okEq_eq {α} [BEq α] [LawfulBEq α] {r : Except Err α} {x : α} (h : okEq r x = true) : r = .ok x := by
  cases r with
  | error e => simp [okEq] at h
  | ok y => simp only [okEq, beq_iff_eq] at h; rw [h]

theorem footToks_parts {fmt : Fmt} {attrs : List String} {ps : List LineF} {rows : List (List String)}
    (h : obsParts fmt attrs ps rows = true) (n : Nat) (nl : Bool) (i : Nat) (ls : List LineF) :
    footToks n nl i (ps ++ ls) = footToks n nl (i + ps.length) ls := by
  induction ps generalizing rows i with
  | nil => rfl
  | cons p ps ih =>
    cases rows with
    | nil => simp [obsParts] at h
    | cons r rs =>
      simp only [obsParts, Bool.and_eq_true] at h
      have hp := isPartLine_noHash h.1
      rw [List.cons_append, footToks]
      simp only [hp, Bool.false_and, Bool.false_eq_true, if_false]
      rw [ih h.2]
      congr 1
      simp; omega

theorem footToks_body {fmt : Fmt} {attrs : List String} {ls : List LineF} {es : List OEvent}
    (h : obsBody fmt attrs ls es = true) (n : Nat) (nl : Bool) (i : Nat) :
    footToks n nl i ls = .ok (es.map (·.impact)) := by
  induction es generalizing ls i with
  | nil =>
    cases ls with
    | nil => rfl
    | cons _ _ => simp [obsBody] at h
  | cons e es ih =>
    obtain ⟨o, ps, en, rest, rfl, ho, hp, he, hr⟩ := obsBody_cons h
    simp only [isOutLine, Bool.and_eq_true, Bool.not_eq_true'] at ho
    have hoe : o.hasEndSp = false := ho.1.1.1.1.2
    rw [footToks]
    simp only [hoe, Bool.and_false, Bool.false_eq_true, if_false]
    rw [footToks_parts hp, footToks]
    simp only [isEndLine, Bool.and_eq_true] at he
    obtain ⟨⟨⟨⟨⟨⟨⟨⟨⟨⟨hh, hes⟩, _⟩, _⟩, _⟩, _⟩, _⟩, _⟩, _⟩, ht⟩, hf⟩ := he
    have himp : ∀ b, impactTokOf en.raw b = .ok e.impact := by
      intro b; cases b
      · exact okEq_eq hf
      · exact okEq_eq ht
    simp [hh, hes, himp, ih hr, bind, Except.bind, pure, Except.pure]

theorem pyIndex_nat {α} (xs : List α) (k : Nat) (h : k < xs.length) : pyIndex xs (k : Int) = .ok xs[k] := by
  have h1 : ¬ ((k : Int) < 0) := by omega
  have h2 : ¬ ((xs.length : Int) ≤ (k : Int)) := by omega
  simp [pyIndex, h1, h2, h]

theorem reindex_labels (toks : List String) (pre suf : List OEvent)
    (ht : toks = (pre ++ suf).map (·.impact))
    (hlab : ∀ i (h : i < suf.length), (suf[i]).label = ((pre.length + i : Nat) : Int)) :
    (suf.map (·.label)).mapM (pyIndex toks) = .ok (suf.map (·.impact)) := by
  induction suf generalizing pre with
  | nil => rfl
  | cons e suf ih =>
    have h0 := hlab 0 (by simp)
    simp only [List.getElem_cons_zero, Nat.add_zero] at h0
    have hlen : pre.length < toks.length := by rw [ht]; simp
    have hget : toks[pre.length] = e.impact := by
      subst ht; simp
    have hrec := ih (pre ++ [e]) (by simpa using ht) (by
      intro i hi
      have := hlab (i + 1) (by simp; omega)
      simp only [List.getElem_cons_succ] at this
      rw [this]; simp; omega)
    simp [List.mapM_cons, h0, pyIndex_nat toks pre.length hlen, hget, hrec, bind, Except.bind, pure, Except.pure]

theorem jet_lastLine {f : FileF} {F : JetSpec} {h1 : LineF} {body : List LineF}
    (hl : f.lines = h1 :: body) (hbody : obsJBody F.partons F body F.events = true) :
    ∃ t, lastLine f = .ok t ∧ isJTrailer F.partons t F = true := by
  obtain ⟨t, hlast, ht⟩ := obsJBody_getLast hbody
  have hbne : body ≠ [] := by intro hb; simp [hb] at hlast
  have hlast' : f.lines.getLast? = some t := by
    rw [hl]
    have : h1 :: body = [h1] ++ body := rfl
    rw [this, List.getLast?_append, hlast]; rfl
  have hlen : ¬ f.lines.length < 2 := by
    rw [hl]; cases body with
    | nil => exact absurd rfl hbne
    | cons _ _ => simp
  exact ⟨t, by simp [lastLine, hlast', hlen], ht⟩

theorem takeExact_full {α} (xs : List α) : takeExact xs (xs.length : Int) = .ok xs := by
  have : ¬ ((xs.length : Int) < 0) := by omega
  simp [takeExact, this]

/-- counts consistent with the held events ⇒ `particle_list()` walks exactly the held events -/

theorem particleList_consistent (L : Loaded) (rows : List (Int × Int)) (hc : L.counts = .arr2d rows)
    (hn : L.numEvents = (L.events.length : Int)) (hr : rows.map (·.2) = L.events.map (fun ev => (ev.length : Int))) :
    particleList L = .ok (match L.events with | [ev] => .flat ev | evs => .nested evs) := by
  have hlen : rows.length = L.events.length := by simpa using congrArg List.length hr
  have hrow : ∀ i (h1 : i < rows.length) (h2 : i < L.events.length), (rows[i]).2 = ((L.events[i]).length : Int) := by
    intro i h1 h2
    have := congrArg (fun l => l[i]?) hr
    simpa [h1, h2] using this
  unfold particleList
  rw [hc]
  by_cases h1 : L.numEvents = 1
  · have hl1 : L.events.length = 1 := by omega
    match hE : L.events, hl1 with
    | [ev], _ =>
      match hR : rows, (by rw [hE] at hlen; simpa using hlen : rows.length = 1) with
      | [r], _ =>
        have := hrow 0 (by simp [hR]) (by simp [hE])
        simp only [hR, hE, List.getElem_cons_zero] at this
        simp [h1, this, takeExact_full, bind, Except.bind, pure, Except.pure]
  · have hne1 : L.events.length ≠ 1 := by omega
    have hnn : ¬ (L.numEvents < 0) := by omega
    have hm : (List.range L.numEvents.toNat).mapM (plRow rows L.events) =
        .ok ((List.range L.numEvents.toNat).map (fun i => (L.events[i]?).getD [])) := by
      apply mapM_except_ok
      intro i hi
      have hi' : i < L.events.length := by
        have := List.mem_range.mp hi; omega
      have hi'' : i < rows.length := by omega
      simp [plRow, hi', hi'', hrow i hi'' hi', takeExact_full, bind, Except.bind, pure, Except.pure]
    have hmap : (List.range L.numEvents.toNat).map (fun i => (L.events[i]?).getD []) = L.events := by
      apply List.ext_getElem
      · simp [hn]
      · intro i h1 h2; simp at h1; simp [h2]
    have hmatch : (match L.events with | [ev] => PList.flat ev | evs => PList.nested evs) = .nested L.events := by
      match hE : L.events with
      | [ev] => simp [hE] at hne1
      | [] => rfl
      | _ :: _ :: _ => rfl
    simp only [h1, hnn, hm, hmap, hmatch, bind, Except.bind, pure, Except.pure, beq_iff_eq, if_false]

theorem mkPLines_length (s : Nat) (rows : List (List String)) : (mkPLines s rows).length = rows.length := by
  induction rows generalizing s with
  | nil => rfl
  | cons r rs ih => simp [mkPLines, ih]

theorem absOEvents_lengths (s : Nat) (es : List OEvent) :
    (absOEvents s es).map (fun ev => (ev.length : Int)) = es.map (fun e => (e.parts.length : Int)) := by
  induction es generalizing s with
  | nil => rfl
  | cons e es ih => simp [absOEvents, mkPLines_length, ih]

theorem absJEvents_lengths (s : Nat) (es : List JEvent) :
    (absJEvents s es).map (fun ev => (ev.length : Int)) = es.map (fun e => (e.parts.length : Int)) := by
  induction es generalizing s with
  | nil => rfl
  | cons e es ih => simp [absJEvents, mkPLines_length, ih]

end SparkxVerif.Rd
