/-
Tie T for C09: the definitions regenerated from src/sparkx/Histogram.py (Gen/HistCore.lean) equal the hand
model (Core/Histogram.lean) for ALL inputs.  Filling and scalar scaling: unconditionally.  Per-bin scaling,
add_histogram, statistical_error, make_density: on well-shaped states (`Shape s`, the invariant every Core theorem
about these calls needs and that holds along every history, Lemmas/HistShape) -- the generated definitions render
numpy's element-wise operations by `zipWith` / `List.set` without numpy's refusal of ill-shaped operands, the hand
model answers `Err.shape` there.  Proof scripts use `simp` / `omega` / case splits on the guards, no syntactic `rfl` on
arithmetic, so renamed locals, hoisted sub-expressions and re-ordered guards re-prove.
-/
import SparkxVerif.Gen.HistCore
import SparkxVerif.Lemmas.Histogram
import SparkxVerif.Lemmas.HistShape
set_option linter.unusedSectionVars false
namespace SparkxVerif.HistCoreGen
open SparkxVerif SparkxVerif.Hist SparkxVerif.Gen
open SparkxVerif.Gen.HistCore (addValueS addValueSW addValueL addValueLS addValueLL scaleS forE bindR addAtPy numEq npLinspace)

section field
variable {K : Type} [Field K] [LinearOrder K] [IsStrictOrderedRing K]

theorem addAtPy_pred (r : List K) (b : Nat) (w : K) (hb : b ≠ 0) :
    addAtPy r ((b : Int) - 1) w = addAt r (b - 1) w := by
  unfold addAtPy
  have h : ¬ ((b : Int) - 1 < 0) := by omega
  rw [if_neg h]
  congr 1
  omega

theorem addValueSW_some (s : State K) (v w : K) :
    addValueSW s (some v) (some w) = (fillCore s v w, none) := by
  unfold addValueSW fillCore
  by_cases h0 : digitize s.edges v = 0
  · simp [h0]
  · by_cases h1 : s.nBins < digitize s.edges v
    · simp [h0, h1]
    · simp [h0, h1, addAtPy_pred _ _ _ h0]

theorem addValueS_some (s : State K) (v : K) :
    addValueS s (some v) = (fillCore s v one, none) := by
  unfold addValueS fillCore
  by_cases h0 : digitize s.edges v = 0
  · simp [h0]
  · by_cases h1 : s.nBins < digitize s.edges v
    · simp [h0, h1]
    · simp [h0, h1, addAtPy_pred _ _ _ h0, one]

/-- `add_value(scalar)` -/
theorem addValueS_gen (s : State K) (v : Option K) : addValueS s v = fill s v none := by
  cases v with
  | none => simp [addValueS, fill]
  | some v => rw [addValueS_some]; rfl

/-- `add_value(scalar, weight=scalar)` -/
theorem addValueSW_gen (s : State K) (v w : Option K) : addValueSW s v w = fill s v (some w) := by
  cases v <;> cases w <;> first | (rw [addValueSW_some]; rfl) | simp [addValueSW, fill]

theorem forE_total {β : Type} (f : State K → β → Res K) (g : State K → β → State K)
    (h : ∀ s x, f s x = (g s x, none)) (s : State K) (xs : List β) :
    forE f s xs = (xs.foldl g s, none) := by
  induction xs generalizing s with
  | nil => rfl
  | cons x r ih => simp [forE, h, ih]

theorem forE_fillSeq (f : State K → K × Option K → Res K)
    (h : ∀ s p, f s p = fill s (some p.1) (some p.2)) (s : State K) (ps : List (K × Option K)) :
    forE f s ps = fillSeq s ps := by
  induction ps generalizing s with
  | nil => rfl
  | cons p r ih =>
    obtain ⟨v, w⟩ := p
    cases w with
    | none => simp [forE, h, fill, fillSeq]
    | some w => simp [forE, h, fill, fillSeq, ih]

theorem forE_map {β γ : Type} (f : State K → γ → Res K) (g : β → γ) (s : State K) (l : List β) :
    forE f s (l.map g) = forE (fun s x => f s (g x)) s l := by
  induction l generalizing s with
  | nil => rfl
  | cons x r ih =>
    simp only [List.map_cons, forE]
    cases f s (g x) with
    | mk s' e => cases e <;> simp [ih]

theorem zip_swap' {β γ : Type} (a : List β) (b : List γ) : (a.zip b).map Prod.swap = b.zip a := by
  induction a generalizing b with
  | nil => cases b <;> rfl
  | cons x r ih =>
    cases b with
    | nil => rfl
    | cons y t => simp [ih]

/-- the same loop written over `zip(weight, value)` -/
theorem forE_fillSeq_swap (f : State K → Option K × K → Res K)
    (h : ∀ s p, f s p = fill s (some p.2) (some p.1)) (s : State K) (xs : List K) (ws : List (Option K)) :
    forE f s (ws.zip xs) = fillSeq s (xs.zip ws) := by
  rw [← zip_swap' xs ws, forE_map]
  exact forE_fillSeq _ (fun s p => h s p.swap) s (xs.zip ws)

theorem bindR_ok (s : State K) (k : State K → Res K) : bindR (s, none) k = k s := rfl

theorem bindR_end (r : Res K) : bindR r (fun s => (s, none)) = r := by
  obtain ⟨s, e⟩ := r
  cases e <;> rfl

/-- `add_value(list / array)` -/
theorem addValueL_gen (s : State K) (vs : List (Option K)) : addValueL s vs = fillList s vs .none := by
  unfold addValueL fillList
  cases allSome vs with
  | none => rfl
  | some xs =>
    simp only [bindR_end]
    exact forE_total _ _ (fun s x => addValueS_some s x) s xs

/-- `add_value(list / array, weight=scalar)` -/
theorem addValueLS_gen (s : State K) (vs : List (Option K)) (w : Option K) :
    addValueLS s vs w = fillList s vs (.scalar w) := by
  simp [addValueLS, fillList]

/-- `add_value(list / array, weight=list / array)` -/
theorem addValueLL_gen (s : State K) (vs ws : List (Option K)) :
    addValueLL s vs ws = fillList s vs (.list ws) := by
  unfold addValueLL fillList
  by_cases hl : ws.length ≠ vs.length
  · simp [hl]
  · simp only [hl, decide_false, Bool.false_eq_true, if_false, bindR_end]
    cases allSome vs with
    | none => rfl
    | some xs =>
      first
        | exact forE_fillSeq _ (fun s p => addValueSW_gen s (some p.1) p.2) s (xs.zip ws)
        | exact forE_fillSeq_swap _ (fun s p => addValueSW_gen s (some p.2) p.1) s xs ws

/-- `scale_histogram(number)` -/
theorem scaleS_gen (s : State K) (c : K) : scaleS s c = scale s c := by
  unfold scaleS scale
  by_cases h : c < 0 <;> simp [h]

theorem filter_length_pos_iff_any {β : Type} (p : β → Bool) (l : List β) :
    decide ((l.filter p).length > 0) = l.any p := by
  induction l with
  | nil => rfl
  | cons x r ih =>
    by_cases hx : p x = true
    · simp [List.filter_cons, hx]
    · simp only [Bool.not_eq_true] at hx
      simp only [List.filter_cons, hx, Bool.false_eq_true, if_false, List.any_cons, Bool.false_or]
      exact ih

/-- `scale_histogram(list / array)` on a well-shaped object -/
theorem scaleL_gen {s : State K} (hs : Shape s) (cs : List K) : HistCore.scaleL s cs = scaleList s cs := by
  have h1 := hs.hist.lastRow_length hs.nh
  have h2 := hs.scal.lastRow_length hs.nh
  have h3 := hs.err.lastRow_length hs.nh
  unfold HistCore.scaleL scaleList
  try simp only [filter_length_pos_iff_any]
  by_cases ha : ∃ x ∈ cs, x < 0
  · simp [ha]
  · by_cases hl : cs.length = s.nBins
    · simp [ha, hl, h1, h2, h3, mulRow]
    · simp [ha, hl]

theorem state_eta (s : State K) : { s with err := s.err } = s := rfl

theorem foldl_set_rows (f : List K → List K) (stp : State K × Nat → List K → State K × Nat)
    (hstp : ∀ a row, stp a row = ({ a.1 with err := a.1.err.set a.2 (f row) }, a.2 + 1))
    (rows : List (List K)) (s : State K) (pre tl : List (List K)) (h : tl.length = rows.length) :
    rows.foldl stp ({ s with err := pre ++ tl }, pre.length)
      = ({ s with err := pre ++ rows.map f }, pre.length + rows.length) := by
  induction rows generalizing pre tl with
  | nil =>
    have : tl = [] := List.eq_nil_of_length_eq_zero h
    subst this; rfl
  | cons row r ih =>
    cases tl with
    | nil => simp at h
    | cons t tl =>
      simp only [List.foldl_cons, hstp]
      have e1 : (pre ++ t :: tl).set pre.length (f row) = (pre ++ [f row]) ++ tl := by
        simp [List.set_append]
      have e2 : pre.length + 1 = (pre ++ [f row]).length := by simp
      simp only [e1]
      rw [e2, ih (pre ++ [f row]) tl (by simpa using h)]
      simp only [List.map_cons, List.append_assoc, List.singleton_append, List.length_append, List.length_cons, List.length_nil]
      congr 1
      omega

/-- `statistical_error()` on a well-shaped object -/
theorem statisticalError_gen (sqrt : K → K) {s : State K} (hs : Shape s) :
    HistCore.statisticalError sqrt s = statErr sqrt s := by
  rw [statErr_eq sqrt hs]
  unfold HistCore.statisticalError
  have h := foldl_set_rows (fun r => r.map sqrt)
    (fun (a' : State K × Nat) histogram_ =>
      ({ a'.1 with err := a'.1.err.set a'.2 (histogram_.map sqrt) }, a'.2 + 1))
    (fun _ _ => rfl) s.hist s [] s.err (by rw [hs.err.1, hs.hist.1])
  simp only [List.nil_append, List.length_nil, Nat.zero_add] at h
  have e0 : ({ s with err := s.err }, 0) = (s, 0) := rfl
  rw [e0] at h
  simp only [h]

/-- commutativity of element-wise `*` / `+`, used by `simp` as ordered rewriting: both operand orders of the source
normalise to the same term -/
theorem zipWith_mul_comm' (a b : List K) :
    List.zipWith (fun x y => x * y) a b = List.zipWith (fun x y => x * y) b a := by
  rw [List.zipWith_comm]; simp [mul_comm]

theorem zipWith_add_comm' (a b : List K) :
    List.zipWith (fun x y => x + y) a b = List.zipWith (fun x y => x + y) b a := by
  rw [List.zipWith_comm]; simp [add_comm]

theorem widths_gen (es : List K) : List.zipWith (fun x y => x - y) es.tail es.dropLast = widths es := by
  unfold widths
  rw [List.zipWith_comm]

theorem centers_unfused (es : List K) :
    centers es = (List.zipWith (fun x y => x + y) es.dropLast es.tail).map (fun x => x / 2) := by
  simp [centers, List.map_zipWith, two]

theorem numEq_zero (x : K) : numEq x ((0 : Nat) : K) = isZero x := by
  simp [numEq, isZero, zero]

/-- `make_density()` on a well-shaped object -/
theorem makeDensity_gen (sqrt : K → K) {s : State K} (hs : Shape s) :
    HistCore.makeDensity sqrt s = Hist.makeDensity sqrt s := by
  have hl : (lastRow s.hist).length = (widths s.edges).length := by
    rw [hs.hist.lastRow_length hs.nh, widths_length, hs.edges]; simp
  unfold HistCore.makeDensity Hist.makeDensity
  simp only [widths_gen, numEq_zero, statisticalError_gen sqrt hs, statErr_eq sqrt hs, bindR_ok, bindR_end]
  have hs1 : Shape ({ s with err := s.hist.map (fun r => r.map sqrt) } : State K) := by
    have := statErr_shape sqrt hs
    rwa [statErr_eq sqrt hs] at this
  by_cases h0 : s.nHist = 0
  · simp [h0]
  · simp only [h0, decide_false, Bool.false_eq_true, if_false, hl, ne_eq, not_true_eq_false, zipWith_mul_comm']
    split_ifs
    · rfl
    · simp only [scaleL_gen hs1, one]

/-- `add_histogram()` on a well-shaped object -/
theorem addHistogram_gen {s : State K} (hs : Shape s) : HistCore.addHistogram s = addHist s := by
  rw [addHist_eq hs]
  simp [HistCore.addHistogram, zero, one]

/-- constructor from a non-empty list / array of edges -/
theorem initEdges_gen (edges : List K) (h : edges ≠ []) : HistCore.initEdges edges = .ok (init edges) := by
  have hl : 0 < edges.length := List.length_pos_iff.mpr h
  have h1 : ¬ ((edges.length : Int) - 1 < 0) := by omega
  have h2 : ((edges.length : Int) - 1).toNat = edges.length - 1 := by omega
  simp [HistCore.initEdges, init, h1, h2, zero, one]

/-- constructor from a tuple `(hist_min, hist_max, num_bins)`: rejected unless `hist_min < hist_max` and
`num_bins > 0`, otherwise the object built on the `np.linspace` edges -/
theorem initTuple_gen (lo hi : K) (n : Int) :
    HistCore.initTuple lo hi n =
      if lo < hi ∧ 0 < n then .ok (init (linspace lo hi n.toNat)) else .error .value := by
  unfold HistCore.initTuple
  by_cases h1 : lo < hi
  · by_cases h2 : 0 < n
    · have e1 : ¬ (hi < lo) := not_lt.mpr (le_of_lt h1)
      have e2 : numEq lo hi = false := by
        simp [numEq, not_le.mpr h1]
      have e3 : ¬ (n ≤ 0) := by omega
      have e4 : ¬ (n < 0) := by omega
      have e5 : (n + 1).toNat - 1 = n.toNat := by omega
      simp [h1, h2, e1, e2, e3, e4, e5, npLinspace, init, linspace, zero, one]
    · have e3 : n ≤ 0 := by omega
      simp [h2, e3]
  · have e : (hi < lo) ∨ numEq lo hi = true := by
      rcases lt_or_eq_of_le (not_lt.mp h1) with h | h
      · exact Or.inl h
      · right; subst h; simp [numEq]
    rcases e with e | e <;> simp [h1, e]

/-- `bin_centers()` -/
theorem binCenters_gen (s : State K) : HistCore.binCenters s = centers s.edges := by
  rw [centers_unfused]
  simp only [HistCore.binCenters, zipWith_add_comm', Nat.cast_ofNat]

/-- `bin_width()` -/
theorem binWidth_gen (s : State K) : HistCore.binWidth s = widths s.edges := widths_gen s.edges

/-- `bin_bounds_left()`, `bin_bounds_right()`, `bin_boundaries()` -/
theorem binBounds_gen (s : State K) :
    HistCore.binBoundsLeft s = boundsLeft s.edges ∧ HistCore.binBoundsRight s = boundsRight s.edges ∧
    HistCore.binBoundaries s = s.edges := ⟨rfl, rfl, rfl⟩

/-- one call: the generated dispatch equals the model's `step` on well-shaped states -/
theorem genStep_gen (sqrt : K → K) {s : State K} (hs : Shape s) (op : Op K) :
    HistCore.genStep sqrt s op = step sqrt s op := by
  cases op with
  | fill v w => cases w with
    | none => exact addValueS_gen s v
    | some w => exact addValueSW_gen s v w
  | fillList vs w => cases w with
    | none => exact addValueL_gen s vs
    | scalar w => exact addValueLS_gen s vs w
    | list ws => exact addValueLL_gen s vs ws
  | addHist => exact addHistogram_gen hs
  | scale c => exact scaleS_gen s c
  | scaleList cs => exact scaleL_gen hs cs
  | statErr => exact statisticalError_gen sqrt hs
  | makeDensity => exact makeDensity_gen sqrt hs
  | _ => rfl

/-- every history: running the generated definitions is running the model -/
theorem genRun_gen (sqrt : K → K) (ops : List (Op K)) {s : State K} (hs : Shape s) :
    HistCore.genRun sqrt s ops = run sqrt s ops := by
  induction ops generalizing s with
  | nil => rfl
  | cons op r ih =>
    simp only [HistCore.genRun, run, List.foldl_cons]
    rw [genStep_gen sqrt hs op]
    exact ih (step_shape sqrt hs op)

end field
end SparkxVerif.HistCoreGen
