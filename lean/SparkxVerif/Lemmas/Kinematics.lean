/-
C08 — the real-number instance of the kinematics operations, and helper lemmas.

`XReal` = ℝ plus one element `nan` that stands for every non-finite float (NaN, ±inf):
  * `log x` for `x ≤ 0` (numpy: NaN or -inf), `sqrt x` for `x < 0`, `arccos x` for `|x| > 1`,
    `x / 0` (numpy scalars: ±inf or NaN) are `nan`;
  * arithmetic propagates `nan`; every comparison involving `nan` is `false`; `isnan nan = true`.
`atan2 y x` is `Complex.arg (x + y i)` (range (-π, π], `atan2 0 0 = 0` as in IEEE).
The generated method bodies (`Gen/Kinematics.lean`) are instantiated at this type in `Props/C08.lean`.
What is NOT modelled: rounding, overflow/underflow (the IEEE ↔ ℝ gap of DESIGN §2.2, domain A).
-/
import SparkxVerif.Core.Kinematics
import Mathlib.Analysis.SpecialFunctions.Artanh
import Mathlib.Analysis.SpecialFunctions.Trigonometric.Inverse
import Mathlib.Analysis.SpecialFunctions.Complex.Arg
import Mathlib.Analysis.Real.Sqrt
import Mathlib.Tactic.NormNum
import Mathlib.Tactic.Linarith
import Mathlib.Tactic.Positivity
import Mathlib.Tactic.FieldSimp
import Mathlib.Tactic.Ring

namespace SparkxVerif.Kin

/-- reals extended by a single non-finite value -/
inductive XReal where
  | fin (v : ℝ)
  | nan

namespace XReal
noncomputable section

def add : XReal → XReal → XReal
  | fin x, fin y => fin (x + y)
  | _, _ => nan
def sub : XReal → XReal → XReal
  | fin x, fin y => fin (x - y)
  | _, _ => nan
def mul : XReal → XReal → XReal
  | fin x, fin y => fin (x * y)
  | _, _ => nan
def div : XReal → XReal → XReal
  | fin x, fin y => if y = 0 then nan else fin (x / y)
  | _, _ => nan
def neg : XReal → XReal
  | fin x => fin (-x)
  | nan => nan
def abs : XReal → XReal
  | fin x => fin |x|
  | nan => nan
def sqrt : XReal → XReal
  | fin x => if 0 ≤ x then fin (Real.sqrt x) else nan
  | nan => nan
def log : XReal → XReal
  | fin x => if 0 < x then fin (Real.log x) else nan
  | nan => nan
def acos : XReal → XReal
  | fin x => if -1 ≤ x ∧ x ≤ 1 then fin (Real.arccos x) else nan
  | nan => nan
def atan2 : XReal → XReal → XReal
  | fin y, fin x => fin (Complex.arg ⟨x, y⟩)
  | _, _ => nan
def sq : XReal → XReal
  | fin x => fin (x * x)
  | nan => nan
def isnan : XReal → Bool
  | fin _ => false
  | nan => true
def lt : XReal → XReal → Bool
  | fin x, fin y => decide (x < y)
  | _, _ => false
def le : XReal → XReal → Bool
  | fin x, fin y => decide (x ≤ y)
  | _, _ => false
def eq : XReal → XReal → Bool
  | fin x, fin y => decide (x = y)
  | _, _ => false

instance : KOps XReal where
  add := add
  sub := sub
  mul := mul
  div := div
  neg := neg
  ofScientific m s e := fin (OfScientific.ofScientific m s e)
  abs := abs
  sqrt := sqrt
  log := log
  acos := acos
  atan2 := atan2
  sq := sq
  nan := nan
  isnan := isnan
  lt := lt
  le := le
  eq := eq

end
end XReal

open XReal

section simp_lemmas
variable (x y : ℝ)

@[simp] theorem x_add : (fin x + fin y : XReal) = fin (x + y) := rfl
@[simp] theorem x_sub : (fin x - fin y : XReal) = fin (x - y) := rfl
@[simp] theorem x_mul : (fin x * fin y : XReal) = fin (x * y) := rfl
@[simp] theorem x_div : (fin x / fin y : XReal) = if y = 0 then nan else fin (x / y) := rfl
@[simp] theorem x_neg : (-(fin x) : XReal) = fin (-x) := rfl
@[simp] theorem x_ofSci (m : ℕ) (s : Bool) (e : ℕ) :
    (OfScientific.ofScientific m s e : XReal) = fin (OfScientific.ofScientific m s e) := rfl
@[simp] theorem x_abs : (KOps.abs (fin x) : XReal) = fin |x| := rfl
@[simp] theorem x_sqrt : (KOps.sqrt (fin x) : XReal) = if 0 ≤ x then fin (Real.sqrt x) else nan := rfl
@[simp] theorem x_log : (KOps.log (fin x) : XReal) = if 0 < x then fin (Real.log x) else nan := rfl
@[simp] theorem x_acos : (KOps.acos (fin x) : XReal) = if -1 ≤ x ∧ x ≤ 1 then fin (Real.arccos x) else nan := rfl
@[simp] theorem x_atan2 : (KOps.atan2 (fin y) (fin x) : XReal) = fin (Complex.arg ⟨x, y⟩) := rfl
@[simp] theorem x_sq : (KOps.sq (fin x) : XReal) = fin (x * x) := rfl
@[simp] theorem x_nan : (KOps.nan : XReal) = nan := rfl
@[simp] theorem x_isnan_fin : KOps.isnan (fin x) = false := rfl
@[simp] theorem x_isnan_nan : KOps.isnan (nan : XReal) = true := rfl
@[simp] theorem x_lt : KOps.lt (fin x) (fin y) = decide (x < y) := rfl
@[simp] theorem x_le : KOps.le (fin x) (fin y) = decide (x ≤ y) := rfl
@[simp] theorem x_eq : KOps.eq (fin x) (fin y) = decide (x = y) := rfl
@[simp] theorem x_mul_nan_r (a : XReal) : (a * nan : XReal) = nan := by cases a <;> rfl
@[simp] theorem x_mul_nan_l (a : XReal) : (nan * a : XReal) = nan := rfl
@[simp] theorem x_log_nan : (KOps.log (nan : XReal)) = nan := rfl
@[simp] theorem x_sqrt_nan : (KOps.sqrt (nan : XReal)) = nan := rfl
@[simp] theorem x_toVal (v : XReal) : Res.toVal (Res.val v) = v := rfl

end simp_lemmas

/-- negation of a method result (for the reflection statements) -/
def Res.neg {α : Type} [KOps α] : Res α → Res α
  | .val v => .val (-v)
  | .vec a b c => .vec (-a) (-b) (-c)
  | .raise => .raise

/-- a result is a finite number -/
def Res.isFin : Res XReal → Prop
  | .val (fin _) => True
  | _ => False

/-! ### real-analysis helpers -/

/-- `½ log((1+x)/(1-x))` with `x = a/b` written over the common denominator -/
theorem artanh_div {a b : ℝ} (hb : b ≠ 0) (h : |a| < |b|) :
    Real.artanh (a / b) = 0.5 * Real.log ((b + a) / (b - a)) := by
  have hlt : |a / b| < 1 := by
    rw [abs_div]; exact (div_lt_one (abs_pos.mpr hb)).mpr h
  have hx := abs_lt.mp hlt
  rw [Real.artanh_eq_half_log ⟨hx.1.le, hx.2.le⟩]
  have h1 : (1 + a / b) / (1 - a / b) = (b + a) / (b - a) := by
    have hba : b - a ≠ 0 := by
      intro h0
      have : a = b := by linarith
      rw [this] at h
      exact lt_irrefl _ h
    have : (1 : ℝ) - a / b ≠ 0 := by
      have := hx.2
      intro h0; linarith
    field_simp
  rw [h1]; norm_num

/-- the ratio inside the logarithm is positive exactly in the physical region -/
theorem ratio_pos_iff {a b : ℝ} (hm : b - a ≠ 0) (hp : b + a ≠ 0) :
    0 < (b + a) / (b - a) ↔ |a| < |b| := by
  rw [div_pos_iff]
  constructor
  · rintro (⟨h1, h2⟩ | ⟨h1, h2⟩)
    · have hb : 0 < b := by linarith
      rw [abs_of_pos hb, abs_lt]; constructor <;> linarith
    · have hb : b < 0 := by linarith
      rw [abs_of_neg hb, abs_lt]; constructor <;> linarith
  · intro h
    rcases lt_or_gt_of_ne (show b ≠ 0 by rintro rfl; simp at h; exact absurd h (not_lt.mpr (abs_nonneg a))) with hb | hb
    · right
      rw [abs_of_neg hb, abs_lt] at h
      constructor <;> linarith [h.1, h.2]
    · left
      rw [abs_of_pos hb, abs_lt] at h
      constructor <;> linarith [h.1, h.2]

theorem norm_mk (x y : ℝ) : ‖(⟨x, y⟩ : ℂ)‖ = Real.sqrt (x * x + y * y) := by
  rw [Complex.norm_def, Complex.normSq_mk]

/-- polar decomposition through `Complex.arg` -/
theorem arg_polar (x y : ℝ) :
    Complex.arg ⟨x, y⟩ ∈ Set.Ioc (-Real.pi) Real.pi ∧
    x = Real.sqrt (x * x + y * y) * Real.cos (Complex.arg ⟨x, y⟩) ∧
    y = Real.sqrt (x * x + y * y) * Real.sin (Complex.arg ⟨x, y⟩) := by
  refine ⟨Complex.arg_mem_Ioc _, ?_, ?_⟩
  · have := Complex.norm_mul_cos_arg (⟨x, y⟩ : ℂ)
    rw [norm_mk] at this; simpa using this.symm
  · have := Complex.norm_mul_sin_arg (⟨x, y⟩ : ℂ)
    rw [norm_mk] at this; simpa using this.symm

/-- `-log tan(θ/2) = artanh(cos θ)` for `0 < θ < π` -/
theorem neg_log_tan_half {θ : ℝ} (h0 : 0 < θ) (hpi : θ < Real.pi) :
    -Real.log (Real.tan (θ / 2)) = Real.artanh (Real.cos θ) := by
  have hc1 : Real.cos θ < 1 := by
    rw [← Real.cos_zero]
    exact Real.cos_lt_cos_of_nonneg_of_le_pi (le_refl 0) hpi.le h0
  have hc2 : -1 < Real.cos θ := by
    rw [← Real.cos_pi]
    exact Real.cos_lt_cos_of_nonneg_of_le_pi h0.le (le_refl _) hpi
  have hch : Real.cos (θ / 2) = Real.sqrt ((1 + Real.cos θ) / 2) :=
    Real.cos_half (by linarith [Real.pi_pos]) hpi.le
  have hsh : Real.sin (θ / 2) = Real.sqrt ((1 - Real.cos θ) / 2) :=
    Real.sin_half_eq_sqrt h0.le (by linarith [Real.pi_pos])
  have hp : 0 < (1 + Real.cos θ) / 2 := by linarith
  have hm : 0 < (1 - Real.cos θ) / 2 := by linarith
  rw [Real.tan_eq_sin_div_cos, hch, hsh, ← Real.sqrt_div hm.le, Real.artanh]
  rw [← Real.log_inv, ← Real.sqrt_inv]
  congr 2
  field_simp

/-! ### what each generated method evaluates to on finite inputs (re-checked whenever the source changes) -/

@[simp] theorem zero_lit : (0.0 : ℝ) = 0 := by norm_num

section values
open SparkxVerif.Gen.Kin
variable (a : Attrs XReal) {t x y z E px py pz : ℝ}

theorem pT_val (hx : a.px = fin px) (hy : a.py = fin py) :
    pT_abs a = .val (fin (Real.sqrt (px ^ 2 + py ^ 2))) := by
  have : 0 ≤ px ^ 2 + py ^ 2 := by positivity
  simp [pT_abs, hx, hy, this, ← pow_two]

theorem p_val (hx : a.px = fin px) (hy : a.py = fin py) (hz : a.pz = fin pz) :
    p_abs a = .val (fin (Real.sqrt (px ^ 2 + py ^ 2 + pz ^ 2))) := by
  have : 0 ≤ px ^ 2 + py ^ 2 + pz ^ 2 := by positivity
  simp [p_abs, hx, hy, hz, this, ← pow_two]

set_option linter.unusedSimpArgs false in
/-- value of `rapidity()` for `0 ≤ E` (what the property's theorems use): the sign facts are handed to `simp`
so that the statement survives a source change that treats negative energies separately
(the sign-agnostic version lives in the monitor module `Props/C08/NegE.lean`) -/
theorem rapidity_val_nonneg (hE : a.E = fin E) (hz : a.pz = fin pz) (hE0 : 0 ≤ E) (hreg : ¬ |E - pz| < 1e-10) :
    rapidity a = .val (if 0 < (E + pz) / (E - pz) then fin (0.5 * Real.log ((E + pz) / (E - pz))) else nan) := by
  have h0 : E - pz ≠ 0 := by
    intro h; rw [h] at hreg; norm_num at hreg
  have hE1 : ¬ E < 0 := not_lt.mpr hE0
  have hE2 : |E| = E := abs_of_nonneg hE0
  simp [rapidity, hE, hz, hreg, h0, hE0, hE1, hE2]

theorem eta_val (hx : a.px = fin px) (hy : a.py = fin py) (hz : a.pz = fin pz)
    (hreg : ¬ |Real.sqrt (px ^ 2 + py ^ 2 + pz ^ 2) - pz| < 1e-10) :
    pseudorapidity a = .val (if 0 < (Real.sqrt (px ^ 2 + py ^ 2 + pz ^ 2) + pz) / (Real.sqrt (px ^ 2 + py ^ 2 + pz ^ 2) - pz)
      then fin (0.5 * Real.log ((Real.sqrt (px ^ 2 + py ^ 2 + pz ^ 2) + pz) / (Real.sqrt (px ^ 2 + py ^ 2 + pz ^ 2) - pz))) else nan) := by
  have h0 : Real.sqrt (px ^ 2 + py ^ 2 + pz ^ 2) - pz ≠ 0 := by
    intro h; rw [h] at hreg; norm_num at hreg
  simp [pseudorapidity, p_val a hx hy hz, hx, hy, hz, hreg, h0]

theorem phi_val (hx : a.px = fin px) (hy : a.py = fin py) (hreg : ¬ Real.sqrt (px ^ 2 + py ^ 2) < 1e-6) :
    phi a = .val (fin (Complex.arg ⟨px, py⟩)) := by
  simp [phi, pT_val a hx hy, hx, hy, hreg]

theorem theta_val (hx : a.px = fin px) (hy : a.py = fin py) (hz : a.pz = fin pz)
    (hp : Real.sqrt (px ^ 2 + py ^ 2 + pz ^ 2) ≠ 0) :
    theta a = .val (fin (Real.arccos (pz / Real.sqrt (px ^ 2 + py ^ 2 + pz ^ 2)))) := by
  have hle : |pz| ≤ Real.sqrt (px ^ 2 + py ^ 2 + pz ^ 2) :=
    Real.abs_le_sqrt (by nlinarith [sq_nonneg px, sq_nonneg py])
  have hpos : 0 < Real.sqrt (px ^ 2 + py ^ 2 + pz ^ 2) := lt_of_le_of_ne (Real.sqrt_nonneg _) (Ne.symm hp)
  have h1 : -1 ≤ pz / Real.sqrt (px ^ 2 + py ^ 2 + pz ^ 2) := by
    rw [le_div_iff₀ hpos]; linarith [neg_abs_le pz]
  have h2 : pz / Real.sqrt (px ^ 2 + py ^ 2 + pz ^ 2) ≤ 1 := by
    rw [div_le_iff₀ hpos]; linarith [le_abs_self pz]
  simp [theta, p_val a hx hy hz, hx, hy, hz, hp, h1, h2]

theorem mT_val (hE : a.E = fin E) (hz : a.pz = fin pz) :
    mT a = .val (if |pz| ≤ |E| then fin (Real.sqrt (E ^ 2 - pz ^ 2)) else nan) := by
  by_cases h : |pz| ≤ |E|
  · have : 0 ≤ E ^ 2 - pz ^ 2 := by nlinarith [sq_abs E, sq_abs pz, abs_nonneg pz, abs_nonneg E]
    simp [mT, hE, hz, h, this, ← pow_two]
  · simp [mT, hE, hz, h]


end values

/-! ### vocabulary of the property statements and small helpers -/

/-- `|p|` as a real number -/
noncomputable def pabs (px py pz : ℝ) : ℝ := Real.sqrt (px ^ 2 + py ^ 2 + pz ^ 2)
/-- `pT` as a real number -/
noncomputable def pT (px py : ℝ) : ℝ := Real.sqrt (px ^ 2 + py ^ 2)

theorem abs_pz_le_pabs (px py pz : ℝ) : |pz| ≤ pabs px py pz :=
  Real.abs_le_sqrt (by nlinarith [sq_nonneg px, sq_nonneg py])

theorem artanh_neg' (x : ℝ) (h : |x| < 1) : Real.artanh (-x) = -Real.artanh x := by
  have hx := abs_lt.mp h
  rw [Real.artanh_eq_half_log ⟨by linarith, by linarith⟩, Real.artanh_eq_half_log ⟨by linarith, by linarith⟩]
  have : (1 + -x) / (1 - -x) = ((1 + x) / (1 - x))⁻¹ := by
    rw [inv_div]; ring_nf
  rw [this, Real.log_inv]; ring

theorem rot_sq (α u v : ℝ) :
    (u * Real.cos α - v * Real.sin α) ^ 2 + (u * Real.sin α + v * Real.cos α) ^ 2 = u ^ 2 + v ^ 2 := by
  have := Real.sin_sq_add_cos_sq α
  linear_combination (u ^ 2 + v ^ 2) * this

end SparkxVerif.Kin
