/-
Helper lemmas for the filter model: the sound loop shapes compute `map (filter pred)`, Python's
`lim_min <= v <= lim_max` after the `None -> inf`, `min/max` prelude is the documented inclusive window,
and the documented predicates themselves.
-/
import SparkxVerif.Core.FilterSkel
import Mathlib.Order.Defs.LinearOrder
import Mathlib.Algebra.Order.Group.Defs
import Mathlib.Algebra.Order.Group.Abs

namespace SparkxVerif.Flt
open SparkxVerif.Gen.Filters

variable {α : Type}

/-- the result every particle-level filter must have: per event, the sub-list selected by `pred` -/
def keepSpec (pred : Part α → Bool) (evs : Evs α) : Evs α := evs.map (List.filter pred)

theorem filterE_ok (cond : Part α → Except Err Bool) (pred : Part α → Bool) (ev : Ev α)
    (h : ∀ p ∈ ev, cond p = .ok (pred p)) : filterE cond ev = .ok (ev.filter pred) := by
  induction ev with
  | nil => rfl
  | cons p ps ih =>
    have hp := h p (by simp)
    have hps := ih (fun q hq => h q (by simp [hq]))
    simp only [filterE, hp, hps, List.filter_cons]
    cases pred p <;> rfl

theorem mapM_filterE_ok (cond : Part α → Except Err Bool) (pred : Part α → Bool) (evs : Evs α)
    (h : ∀ ev ∈ evs, ∀ p ∈ ev, cond p = .ok (pred p)) :
    evs.mapM (filterE cond) = .ok (keepSpec pred evs) := by
  induction evs with
  | nil => rfl
  | cons e es ih =>
    have he := filterE_ok cond pred e (h e (by simp))
    have hes := ih (fun ev hev => h ev (by simp [hev]))
    rw [List.mapM_cons, he, hes]
    rfl

/-- the two sound loop shapes compute `keepSpec`; the third one does not (see `appendAfter_wrong`) -/
theorem runLoop_ok (s : LoopShape) (hs : s ≠ .appendAfter) (cond : Part α → Except Err Bool)
    (pred : Part α → Bool) (evs : Evs α) (h : ∀ ev ∈ evs, ∀ p ∈ ev, cond p = .ok (pred p)) :
    runLoop s evs cond = .ok (keepSpec pred evs) := by
  cases s
  · exact mapM_filterE_ok cond pred evs h
  · exact mapM_filterE_ok cond pred evs h
  · exact absurd rfl hs


section combinators
variable {β γ : Type}
@[simp] theorem pure_eq_ok (a : β) : (pure a : Except Err β) = .ok a := rfl
@[simp] theorem bind_ok (x : β) (f : β → Except Err γ) : ((Except.ok x : Except Err β) >>= f) = f x := rfl
@[simp] theorem bind_error (e : Err) (f : β → Except Err γ) : ((Except.error e : Except Err β) >>= f) = .error e := rfl
@[simp] theorem andE_ok_true (f : Unit → Except Err Bool) : andE (.ok true) f = f () := rfl
@[simp] theorem andE_ok_false (f : Unit → Except Err Bool) : andE (.ok false) f = .ok false := rfl
@[simp] theorem andE_ok_ok (a b : Bool) : andE (.ok a) (fun _ => (.ok b : Except Err Bool)) = .ok (a && b) := by
  cases a <;> rfl
@[simp] theorem andE_error (e : Err) (f : Unit → Except Err Bool) : andE (.error e) f = .error e := rfl
@[simp] theorem notE_ok (a : Bool) : notE (.ok a) = .ok (!a) := rfl
@[simp] theorem notE_error (e : Err) : notE (.error e) = .error e := rfl
end combinators

end SparkxVerif.Flt

namespace SparkxVerif.Flt
open SparkxVerif.Gen.Filters

section preds
variable {α : Type}

/-! documented predicates (NaN / unset = `none` is never selected) -/
def chargedP (p : Part α) : Bool := match p.charge with | some c => c != 0 | none => false
def unchargedP (p : Part α) : Bool := match p.charge with | some c => c == 0 | none => false
def participantP (p : Part α) : Bool := match p.ncoll with | some c => c != 0 | none => false
def spectatorP (p : Part α) : Bool := match p.ncoll with | some c => c == 0 | none => false
def speciesP (l : List Int) (p : Part α) : Bool := match p.pdg with | some c => l.contains c | none => false
def notSpeciesP (l : List Int) (p : Part α) : Bool := match p.pdg with | some c => !l.contains c | none => false
def statusP (l : List Int) (p : Part α) : Bool := match p.status with | some c => l.contains c | none => false
def notPhotonP (p : Part α) : Bool := match p.pdg with | some c => c != 22 | none => false
def classP (b : Option Bool) : Bool := b == some true
end preds

section order
variable {α : Type} [LinearOrder α]

/-- inclusive window given by two optional limits in either order; `none` = unbounded -/
def inWindow (a b : Option α) (x : α) : Prop :=
  match a, b with
  | some a, some b => min a b ≤ x ∧ x ≤ max a b
  | none, some b => x ≤ b
  | some a, none => a ≤ x
  | none, none => True

def windowP (a b : Option α) (v : XV α) : Bool :=
  match v with
  | none => false
  | some x =>
    match a, b with
    | some a, some b => decide (min a b ≤ x) && decide (x ≤ max a b)
    | none, some b => decide (x ≤ b)
    | some a, none => decide (a ≤ x)
    | none, none => true

theorem windowP_iff (a b : Option α) (x : α) : windowP a b (some x) = true ↔ inWindow a b x := by
  cases a <;> cases b <;> simp [windowP, inWindow]

theorem inWindow_comm (a b : α) (x : α) : inWindow (some a) (some b) x ↔ inWindow (some b) (some a) x := by
  simp [inWindow, min_comm, max_comm]

theorem Ext.le_fin (a b : α) : Ext.le (.fin a) (.fin b) = decide (a ≤ b) := rfl

/-- the code's `lim_min <= v <= lim_max` with the prelude's `min/max` is the documented window -/
theorem window_chain (a b : Option α) (v : XV α) (hab : ¬ (a = none ∧ b = none)) :
    (leEX (windowOf a b).1 v && leXE v (windowOf a b).2) = windowP a b v := by
  cases v with
  | none => simp [leEX, leXE, windowP]
  | some x =>
    cases a with
    | none =>
      cases b with
      | none => exact absurd ⟨rfl, rfl⟩ hab
      | some b => simp [windowOf, Ext.pymin, Ext.pymax, Ext.le, leEX, leXE, windowP]
    | some a =>
      cases b with
      | none => simp [windowOf, Ext.pymin, Ext.pymax, Ext.le, leEX, leXE, windowP]
      | some b =>
        simp only [windowOf, Ext.pymin, Ext.pymax, Ext.le_fin, leEX, leXE, windowP]
        by_cases h : a ≤ b
        · have h' : decide (a ≤ b) = true := by simpa using h
          by_cases h2 : b ≤ a
          · have : a = b := le_antisymm h h2
            subst this; simp [Ext.le]
          · simp [h, h2, Ext.le, min_eq_left h, max_eq_right h]
        · have hba : b ≤ a := le_of_not_ge h
          simp [h, hba, Ext.le, min_eq_right hba, max_eq_left hba]

end order
end SparkxVerif.Flt

