/-
Helper lemmas for C17 (Lattice3D): one axis (index search, NaN guard, nearest node), Python/numpy
indexing, C-order addressing, by-index access.  The property theorems are in `Props/C17.lean`.
-/
import SparkxVerif.Core.Lattice
import Mathlib.Order.Defs.LinearOrder
import Mathlib.Order.Basic
import Mathlib.Data.List.Basic
import Mathlib.Data.List.Nodup
import Mathlib.Algebra.Order.Field.Basic
import Mathlib.Algebra.Order.Group.Abs
import Mathlib.Tactic.Ring

namespace SparkxVerif.Lattice
open List

section lin
variable {α : Type} [LinearOrder α]

/-- strictly increasing node list -/
def Increasing (xs : List α) : Prop := xs.Pairwise (· < ·)

theorem Increasing.lt {xs : List α} (h : Increasing xs) {i j : Nat} (hi : i < xs.length) (hj : j < xs.length)
    (hij : i < j) : xs[i] < xs[j] := (List.pairwise_iff_getElem.1 h) i j hi hj hij

theorem Increasing.le {xs : List α} (h : Increasing xs) {i j : Nat} (hi : i < xs.length) (hj : j < xs.length)
    (hij : i ≤ j) : xs[i] ≤ xs[j] := by
  rcases Nat.lt_or_ge i j with h' | h'
  · exact le_of_lt (h.lt hi hj h')
  · have : i = j := Nat.le_antisymm hij h'
    subst this; exact le_rfl

theorem searchRight_le_length (xs : List α) (v : α) : searchRight xs v ≤ xs.length := List.countP_le_length

/-- `searchsorted(side="right")` on a strictly increasing list splits it at the returned position -/
theorem searchRight_spec {xs : List α} (hs : Increasing xs) (v : α) :
    (∀ i (h : i < xs.length), i < searchRight xs v → xs[i] ≤ v) ∧
    (∀ i (h : i < xs.length), searchRight xs v ≤ i → v < xs[i]) := by
  induction xs with
  | nil => simp
  | cons x t ih =>
    have ht : Increasing t := (List.pairwise_cons.1 hs).2
    have hx : ∀ y ∈ t, x < y := (List.pairwise_cons.1 hs).1
    obtain ⟨ih1, ih2⟩ := ih ht
    by_cases hv : v < x
    · have h0 : searchRight t v = 0 := by
        unfold searchRight
        rw [List.countP_eq_zero]
        intro a ha
        have : v < a := lt_trans hv (hx a ha)
        simp [this]
      have hc : searchRight (x :: t) v = 0 := by
        unfold searchRight at h0 ⊢
        rw [List.countP_cons, h0]; simp [hv]
      rw [hc]
      refine ⟨fun i h hi => absurd hi (Nat.not_lt_zero _), fun i h _ => ?_⟩
      cases i with
      | zero => simpa using hv
      | succ j =>
        have hj : j < t.length := by simpa using h
        have : t[j] ∈ t := List.getElem_mem hj
        simpa using lt_trans hv (hx _ this)
    · have hc : searchRight (x :: t) v = searchRight t v + 1 := by
        unfold searchRight
        rw [List.countP_cons]; simp [hv]
      rw [hc]
      refine ⟨fun i h hi => ?_, fun i h hi => ?_⟩
      · cases i with
        | zero => simpa using not_lt.1 hv
        | succ j =>
          have hj : j < t.length := by simpa using h
          simpa using ih1 j hj (by omega)
      · cases i with
        | zero => omega
        | succ j =>
          have hj : j < t.length := by simpa using h
          simpa using ih2 j hj (by omega)

/-- node `i` is the lower corner of the cell that contains `v`; the last node is the "lower corner"
only of the upper edge itself -/
def IsLowerCorner (xs : List α) (v : α) (i : Nat) : Prop :=
  ∃ h : i < xs.length, xs[i] ≤ v ∧ (∀ h' : i + 1 < xs.length, v < xs[i + 1]) ∧ (i + 1 = xs.length → v = xs[i])

theorem rangeOk_eq {xs : List α} (hne : xs ≠ []) (v : α) :
    rangeOk xs v = .ok (decide (xs[0]'(List.length_pos_iff.2 hne) ≤ v) &&
      decide (v ≤ xs[xs.length - 1]'(Nat.sub_lt (List.length_pos_iff.2 hne) Nat.one_pos))) := by
  have hpos := List.length_pos_iff.2 hne
  unfold rangeOk
  rw [List.head?_eq_getElem?, List.getLast?_eq_getElem?, List.getElem?_eq_getElem hpos,
    List.getElem?_eq_getElem (Nat.sub_lt hpos Nat.one_pos)]

theorem getIndex_nil (v : α) : getIndex ([] : List α) v = .error .index := rfl

/-- **lower corner.** On a strictly increasing node list `__get_index` answers `i` exactly when node `i`
is the lower corner of the cell containing `v` -/
theorem getIndex_ok_iff {xs : List α} (hs : Increasing xs) (v : α) (i : Nat) :
    getIndex xs v = .ok i ↔ IsLowerCorner xs v i := by
  by_cases hne : xs = []
  · subst hne; simp [getIndex_nil, IsLowerCorner]
  have hpos := List.length_pos_iff.2 hne
  have hlast : xs.length - 1 < xs.length := Nat.sub_lt hpos Nat.one_pos
  obtain ⟨s1, s2⟩ := searchRight_spec hs v
  have hle := searchRight_le_length xs v
  unfold getIndex
  rw [rangeOk_eq hne]
  by_cases hlo : xs[0] ≤ v <;> by_cases hhi : v ≤ xs[xs.length - 1]
  · -- in range
    simp only [hlo, hhi, decide_true, Bool.and_self]
    have hc1 : 1 ≤ searchRight xs v := by
      by_contra hc
      have : searchRight xs v ≤ 0 := by omega
      exact absurd (s2 0 hpos this) (not_lt.2 hlo)
    have hcell : cellOf xs v = searchRight xs v - 1 := by
      unfold cellOf
      have : (searchRight xs v == 0) = false := by simp; omega
      simp [this]
    constructor
    · intro h
      have hi : i = searchRight xs v - 1 := by
        have : cellOf xs v = i := by simpa using h
        omega
      have hil : i < xs.length := by omega
      refine ⟨hil, s1 i hil (by omega), fun h' => s2 (i + 1) h' (by omega), fun he => ?_⟩
      have : xs.length - 1 = i := by omega
      exact le_antisymm (by simpa [this] using hhi) (s1 i hil (by omega))
    · rintro ⟨hil, h1, h2, h3⟩
      have ha : i < searchRight xs v := by
        by_contra hc
        exact absurd (s2 i hil (by omega)) (not_lt.2 h1)
      have hb : searchRight xs v ≤ i + 1 := by
        by_contra hc
        have h' : i + 1 < xs.length := by omega
        exact absurd (s1 (i + 1) h' (by omega)) (not_le.2 (h2 h'))
      have : cellOf xs v = i := by omega
      simp [this]
  · simp only [hlo, hhi, decide_true, decide_false, Bool.and_false]
    constructor
    · intro h; cases h
    · rintro ⟨hil, h1, h2, h3⟩
      exfalso; apply hhi
      rcases Nat.lt_or_ge (i + 1) xs.length with h' | h'
      · exact le_of_lt (lt_of_lt_of_le (h2 h') (hs.le h' hlast (by omega)))
      · have he : i + 1 = xs.length := by omega
        have : xs.length - 1 = i := by omega
        rw [h3 he]; simp [this]
  · simp only [hlo, decide_false, Bool.false_and]
    constructor
    · intro h; cases h
    · rintro ⟨hil, h1, h2, h3⟩
      exact absurd (le_trans (hs.le hpos hil (Nat.zero_le _)) h1) hlo
  · simp only [hlo, decide_false, Bool.false_and]
    constructor
    · intro h; cases h
    · rintro ⟨hil, h1, h2, h3⟩
      exact absurd (le_trans (hs.le hpos hil (Nat.zero_le _)) h1) hlo

/-- `__get_index` either answers a node or raises; on a non-empty list the error is `ValueError` -/
theorem getIndex_error {xs : List α} (hne : xs ≠ []) (v : α) (e : Err) (h : getIndex xs v = .error e) : e = .value := by
  unfold getIndex at h
  rw [rangeOk_eq hne] at h
  split at h <;> simp_all


theorem getIndex_error_iff {xs : List α} (hs : Increasing xs) (hne : xs ≠ []) (v : α) :
    getIndex xs v = .error .value ↔ ¬ ∃ i, IsLowerCorner xs v i := by
  constructor
  · rintro h ⟨i, hi⟩
    rw [(getIndex_ok_iff hs v i).2 hi] at h; cases h
  · intro h
    cases hg : getIndex xs v with
    | ok i => exact absurd ⟨i, (getIndex_ok_iff hs v i).1 hg⟩ h
    | error e => rw [getIndex_error hne v e hg]

/-- a point outside `[first node, last node]` is rejected -/
theorem getIndex_outside {xs : List α} (hne : xs ≠ []) (v : α)
    (h : v < xs[0]'(List.length_pos_iff.2 hne) ∨
         xs[xs.length - 1]'(Nat.sub_lt (List.length_pos_iff.2 hne) Nat.one_pos) < v) :
    getIndex xs v = .error .value := by
  unfold getIndex
  rw [rangeOk_eq hne]
  rcases h with h | h
  · simp [not_le.2 h]
  · simp [not_le.2 h]

/-- a point inside `[first node, last node]` always gets a cell -/
theorem getIndex_inside {xs : List α} (hs : Increasing xs) (hne : xs ≠ []) (v : α)
    (h1 : xs[0]'(List.length_pos_iff.2 hne) ≤ v)
    (h2 : v ≤ xs[xs.length - 1]'(Nat.sub_lt (List.length_pos_iff.2 hne) Nat.one_pos)) :
    ∃ i, getIndex xs v = .ok i ∧ IsLowerCorner xs v i := by
  have : getIndex xs v = .ok (cellOf xs v) := by
    unfold getIndex; rw [rangeOk_eq hne]; simp [h1, h2]
  exact ⟨_, this, (getIndex_ok_iff hs v _).1 this⟩

/-- the lower corner of a cell is unique -/
theorem IsLowerCorner.unique {xs : List α} (hs : Increasing xs) {v : α} {i j : Nat}
    (hi : IsLowerCorner xs v i) (hj : IsLowerCorner xs v j) : i = j := by
  have a := (getIndex_ok_iff hs v i).2 hi
  have b := (getIndex_ok_iff hs v j).2 hj
  rw [a] at b; injection b

/-- at a node, the cell is the node itself -/
theorem getIndex_node {xs : List α} (hs : Increasing xs) (i : Nat) (h : i < xs.length) :
    getIndex xs xs[i] = .ok i := by
  rw [getIndex_ok_iff hs]
  exact ⟨h, le_rfl, fun h' => hs.lt h h' (Nat.lt_succ_self i), fun _ => rfl⟩

end lin

/-! ### NaN: the guard rejects it; the pre-repair guard did not -/
section xval
variable {α : Type} [LinearOrder α]

theorem searchRight_num (xs : List α) (a : α) : searchRight (xs.map XVal.num) (XVal.num a) = searchRight xs a := by
  unfold searchRight
  rw [List.countP_map]
  congr 1

theorem rangeOk_num (xs : List α) (a : α) : rangeOk (xs.map XVal.num) (XVal.num a) = rangeOk xs a := by
  unfold rangeOk
  rw [List.head?_map, List.getLast?_map]
  cases xs.head? <;> cases xs.getLast? <;> rfl

theorem rangeOk_nan {xs : List α} (hne : xs ≠ []) : rangeOk (xs.map XVal.num) (XVal.nan) = .ok false := by
  unfold rangeOk
  rw [List.head?_map, List.getLast?_map]
  cases h1 : xs.head? with
  | none => simp_all
  | some lo =>
    cases h2 : xs.getLast? with
    | none => simp_all
    | some hi => rfl

theorem getIndex_num (xs : List α) (a : α) : getIndex (xs.map XVal.num) (XVal.num a) = getIndex xs a := by
  unfold getIndex cellOf
  rw [rangeOk_num, searchRight_num]

/-- **NaN is reported.** a NaN coordinate never gets a cell -/
theorem getIndex_nan {xs : List α} (hne : xs ≠ []) : getIndex (xs.map XVal.num) XVal.nan = .error .value := by
  unfold getIndex; rw [rangeOk_nan hne]

/-- the index search over doubles-with-NaN: a cell is answered only for a number, and then it is the lower corner -/
theorem getIndex_xval_ok_iff {xs : List α} (hs : Increasing xs) (v : XVal α) (i : Nat) :
    getIndex (xs.map XVal.num) v = .ok i ↔ ∃ a, v = .num a ∧ IsLowerCorner xs a i := by
  cases v with
  | num a => rw [getIndex_num, getIndex_ok_iff hs]; simp
  | nan =>
    by_cases hne : xs = []
    · subst hne; simp [getIndex, rangeOk]
    · rw [getIndex_nan hne]; simp

/-- witness (monitor, not an obligation of the repaired tree): with the guard written as a rejection test
(`value < values[0] or value > values[-1]`), a NaN coordinate is silently mapped to the LAST node -/
theorem getIndexUnguarded_nan_wraps :
    getIndexUnguarded ([0, 1, 2].map XVal.num : List (XVal Int)) XVal.nan = .ok 2 := by decide

end xval

section argmin
variable {α : Type} [LinearOrder α]

theorem argminGo_spec : ∀ (xs pre : List α) (best : α) (bi : Nat), pre[bi]? = some best →
    (∀ j d, pre[j]? = some d → best ≤ d ∧ (j < bi → best < d)) →
    ∃ dr, (pre ++ xs)[argminGo xs best bi pre.length]? = some dr ∧
      ∀ j d, (pre ++ xs)[j]? = some d → dr ≤ d ∧ (j < argminGo xs best bi pre.length → dr < d) := by
  intro xs
  induction xs with
  | nil =>
    intro pre best bi hb hmin
    exact ⟨best, by simpa [argminGo] using hb, by simpa [argminGo] using hmin⟩
  | cons x t ih =>
    intro pre best bi hb hmin
    have hlen : (pre ++ [x]).length = pre.length + 1 := by simp
    have happ : pre ++ x :: t = (pre ++ [x]) ++ t := by simp
    have hbi : bi < pre.length := by
      by_contra h
      rw [List.getElem?_eq_none (by omega)] at hb; cases hb
    unfold argminGo
    by_cases hx : x < best
    · simp only [hx, if_true]
      have := ih (pre ++ [x]) x pre.length (by simp) (by
        intro j d hj
        rcases Nat.lt_or_ge j pre.length with hjl | hjl
        · rw [List.getElem?_append_left hjl] at hj
          have := (hmin j d hj).1
          exact ⟨le_of_lt (lt_of_lt_of_le hx this), fun _ => lt_of_lt_of_le hx this⟩
        · rcases Nat.lt_or_ge pre.length j with h2 | h2
          · rw [List.getElem?_eq_none (by simp; omega)] at hj; cases hj
          · have : j = pre.length := by omega
            subst this
            simp at hj; subst hj
            exact ⟨le_rfl, fun h => absurd h (lt_irrefl _)⟩)
      rw [hlen] at this
      rw [happ]; exact this
    · simp only [hx, if_false]
      have := ih (pre ++ [x]) best bi (by rw [List.getElem?_append_left hbi]; exact hb) (by
        intro j d hj
        rcases Nat.lt_or_ge j pre.length with hjl | hjl
        · rw [List.getElem?_append_left hjl] at hj
          exact hmin j d hj
        · rcases Nat.lt_or_ge pre.length j with h2 | h2
          · rw [List.getElem?_eq_none (by simp; omega)] at hj; cases hj
          · have : j = pre.length := by omega
            subst this
            simp at hj; subst hj
            exact ⟨not_lt.1 hx, fun h => absurd h (by omega)⟩)
      rw [hlen] at this
      rw [happ]; exact this

/-- `np.argmin`: the answer is a position of the list, its entry is minimal, and it is the first such -/
theorem argminFirst_spec {ds : List α} (hne : ds ≠ []) :
    ∃ h : argminFirst ds < ds.length,
      (∀ j (hj : j < ds.length), ds[argminFirst ds] ≤ ds[j]) ∧
      (∀ j (hj : j < ds.length), j < argminFirst ds → ds[argminFirst ds] < ds[j]) := by
  cases ds with
  | nil => exact absurd rfl hne
  | cons x t =>
    obtain ⟨dr, h1, h2⟩ := argminGo_spec t [x] x 0 (by simp) (by
      intro j d hj
      cases j with
      | zero => simp at hj; subst hj; exact ⟨le_rfl, fun h => absurd h (lt_irrefl _)⟩
      | succ j => simp at hj)
    have hm : argminFirst (x :: t) = argminGo t x 0 1 := rfl
    simp only [List.length_singleton, List.singleton_append] at h1 h2
    rw [← hm] at h1 h2
    have hlt : argminFirst (x :: t) < (x :: t).length := by
      by_contra h
      rw [List.getElem?_eq_none (by omega)] at h1; cases h1
    rw [List.getElem?_eq_getElem hlt] at h1
    injection h1 with h1
    refine ⟨hlt, fun j hj => ?_, fun j hj hjm => ?_⟩
    · rw [h1]; exact (h2 j _ (List.getElem?_eq_getElem hj)).1
    · rw [h1]; exact (h2 j _ (List.getElem?_eq_getElem hj)).2 hjm

end argmin

section field
variable {α : Type} [Field α] [LinearOrder α] [IsStrictOrderedRing α]

theorem absG_eq_abs (x : α) : absG x = |x| := by
  unfold absG
  rw [Nat.cast_zero]
  split
  · next h => rw [abs_of_neg h]
  · next h => rw [abs_of_nonneg (not_lt.1 h)]

omit [IsStrictOrderedRing α] in
theorem closestIndex_lt {xs : List α} (hne : xs ≠ []) (v : α) : closestIndex xs v < xs.length := by
  obtain ⟨h, -, -⟩ := argminFirst_spec (ds := xs.map (fun x => absG (x - v))) (by simpa using hne)
  simpa [closestIndex] using h

/-- **closest node.** `__find_closest_index` answers a node of minimal distance, the first one on a tie -/
theorem closestIndex_min {xs : List α} (hne : xs ≠ []) (v : α) :
    ∃ h : closestIndex xs v < xs.length,
      (∀ j (hj : j < xs.length), |xs[closestIndex xs v] - v| ≤ |xs[j] - v|) ∧
      (∀ j (hj : j < xs.length), j < closestIndex xs v → |xs[closestIndex xs v] - v| < |xs[j] - v|) := by
  obtain ⟨h, h1, h2⟩ := argminFirst_spec (ds := xs.map (fun x => absG (x - v))) (by simpa using hne)
  have hl : closestIndex xs v < xs.length := closestIndex_lt hne v
  refine ⟨hl, fun j hj => ?_, fun j hj hjm => ?_⟩
  · have := h1 j (by simpa using hj)
    simpa [closestIndex, absG_eq_abs] using this
  · have := h2 j (by simpa using hj) hjm
    simpa [closestIndex, absG_eq_abs] using this

theorem nearestOf_min {xs : List α} (hne : xs ≠ []) (v : α) :
    ∃ h : nearestOf xs v < xs.length,
      (∀ j (hj : j < xs.length), |v - xs[nearestOf xs v]| ≤ |v - xs[j]|) ∧
      (∀ j (hj : j < xs.length), j < nearestOf xs v → |v - xs[nearestOf xs v]| < |v - xs[j]|) := by
  obtain ⟨h, h1, h2⟩ := argminFirst_spec (ds := xs.map (fun x => absG (v - x))) (by simpa using hne)
  have hl : nearestOf xs v < xs.length := by simpa [nearestOf] using h
  refine ⟨hl, fun j hj => ?_, fun j hj hjm => ?_⟩
  · have := h1 j (by simpa using hj)
    simpa [nearestOf, absG_eq_abs] using this
  · have := h2 j (by simpa using hj) hjm
    simpa [nearestOf, absG_eq_abs] using this

/-- **inverse at every node (1).** on a list without repeated nodes the closest node of node `i` is `i` -/
theorem closestIndex_node {xs : List α} (hd : xs.Nodup) (i : Nat) (h : i < xs.length) :
    closestIndex xs xs[i] = i := by
  have hne : xs ≠ [] := by intro h0; subst h0; simp at h
  obtain ⟨hl, h1, h2⟩ := closestIndex_min hne xs[i]
  have h0 : |xs[closestIndex xs xs[i]] - xs[i]| ≤ 0 := by simpa using h1 i h
  have heq : xs[closestIndex xs xs[i]] = xs[i] := by
    have := abs_nonpos_iff.1 h0
    exact sub_eq_zero.1 this
  exact (List.Nodup.getElem_inj_iff hd).1 heq

theorem nearestOf_node {xs : List α} (hd : xs.Nodup) (i : Nat) (h : i < xs.length) :
    nearestOf xs xs[i] = i := by
  have hne : xs ≠ [] := by intro h0; subst h0; simp at h
  obtain ⟨hl, h1, h2⟩ := nearestOf_min hne xs[i]
  have h0 : |xs[i] - xs[nearestOf xs xs[i]]| ≤ 0 := by simpa using h1 i h
  have heq : xs[i] = xs[nearestOf xs xs[i]] := by
    have := abs_nonpos_iff.1 h0
    exact sub_eq_zero.1 this
  exact ((List.Nodup.getElem_inj_iff hd).1 heq).symm

end field

/-! ### Python indexing: the guards keep numpy's negative-index wrap away -/

/-- what numpy does with an index: accepted iff `-n ≤ i < n`, negative ones counted from the end -/
theorem npAxis_ok_iff (n : Nat) (i : Int) (a : Nat) :
    npAxis n i = .ok a ↔ (0 ≤ i ∧ i < n ∧ a = i.toNat) ∨ (i < 0 ∧ 0 ≤ i + n ∧ a = (i + n).toNat) := by
  unfold npAxis
  by_cases hi : i < 0
  · rw [if_pos hi]
    by_cases h : i + (n : Int) < 0 ∨ (n : Int) ≤ i + n
    · rw [if_pos h]; constructor
      · intro h'; cases h'
      · rintro (⟨h1, -⟩ | ⟨-, h2, -⟩) <;> omega
    · rw [if_neg h]; constructor
      · intro h'; injection h' with h'; right; exact ⟨hi, by omega, h'.symm⟩
      · rintro (⟨h1, -⟩ | ⟨-, h2, h3⟩)
        · omega
        · rw [h3]
  · rw [if_neg hi]
    by_cases h : i < 0 ∨ (n : Int) ≤ i
    · rw [if_pos h]; constructor
      · intro h'; cases h'
      · rintro (⟨h1, h2, -⟩ | ⟨h1, -⟩) <;> omega
    · rw [if_neg h]; constructor
      · intro h'; injection h' with h'; left; exact ⟨by omega, by omega, h'.symm⟩
      · rintro (⟨h1, h2, h3⟩ | ⟨h1, -⟩)
        · rw [h3]
        · omega

theorem npAxis_valid {n : Nat} {i : Int} (h0 : 0 ≤ i) (h : i < n) : npAxis n i = .ok i.toNat := by
  rw [npAxis_ok_iff]; left; exact ⟨h0, h, rfl⟩

theorem npAxis_nat {n a : Nat} (h : a < n) : npAxis n (a : Int) = .ok a := by
  rw [npAxis_ok_iff]; left; exact ⟨by omega, by omega, by simp⟩

section coord
variable {α : Type}

theorem getCoord_nat (xs : List α) (i : Nat) (h : i < xs.length) : getCoord xs xs.length (i : Int) = .ok xs[i] := by
  unfold getCoord pyGet
  have : ¬ ((i : Int) < 0 ∨ (xs.length : Int) ≤ i) := by omega
  simp only [this, if_false, npAxis_nat h, List.getElem?_eq_getElem h]

/-- **`get_coordinates` never wraps**: an index outside `0 … n-1` (negative ones included) is a `ValueError` -/
theorem getCoord_invalid (xs : List α) (n : Nat) (i : Int) (h : i < 0 ∨ (n : Int) ≤ i) :
    getCoord xs n i = .error .value := by
  unfold getCoord; simp only [h, if_true]

theorem getCoord_ok_iff (xs : List α) (i : Int) (a : α) :
    getCoord xs xs.length i = .ok a ↔ 0 ≤ i ∧ xs[i.toNat]? = some a := by
  by_cases h : i < 0 ∨ (xs.length : Int) ≤ i
  · rw [getCoord_invalid xs _ i h]
    constructor
    · intro h'; cases h'
    · rintro ⟨h1, h2⟩
      rcases h with h | h
      · omega
      · rw [List.getElem?_eq_none (by omega)] at h2; cases h2
  · have h0 : 0 ≤ i := by omega
    obtain ⟨n, rfl⟩ := Int.eq_ofNat_of_zero_le h0
    have hl : n < xs.length := by omega
    rw [getCoord_nat xs n hl]
    simp [List.getElem?_eq_getElem hl]

end coord

/-! ### 3-D addressing in C order -/

/-- inverse of `flat`: position in the CSV row ↦ `(i, j, k)` -/
def unflat (ny nz p : Nat) : Nat × Nat × Nat := (p / nz / ny, p / nz % ny, p % nz)

theorem unflat_flat {ny nz : Nat} (i j k : Nat) (hj : j < ny) (hk : k < nz) :
    unflat ny nz (flat ny nz i j k) = (i, j, k) := by
  unfold unflat flat
  have hnz : 0 < nz := by omega
  have hny : 0 < ny := by omega
  have h1 : ((i * ny + j) * nz + k) / nz = i * ny + j := by
    rw [Nat.add_comm, Nat.add_mul_div_right _ _ hnz, Nat.div_eq_of_lt hk, Nat.zero_add]
  have h2 : ((i * ny + j) * nz + k) % nz = k := by
    rw [Nat.add_comm, Nat.add_mul_mod_self_right, Nat.mod_eq_of_lt hk]
  have h3 : (i * ny + j) / ny = i := by
    rw [Nat.add_comm, Nat.add_mul_div_right _ _ hny, Nat.div_eq_of_lt hj, Nat.zero_add]
  have h4 : (i * ny + j) % ny = j := by
    rw [Nat.add_comm, Nat.add_mul_mod_self_right, Nat.mod_eq_of_lt hj]
  rw [h1, h2, h3, h4]

/-- two valid index triples never share a grid position -/
theorem flat_inj {ny nz : Nat} {i j k i' j' k' : Nat} (hj : j < ny) (hk : k < nz) (hj' : j' < ny) (hk' : k' < nz)
    (h : flat ny nz i j k = flat ny nz i' j' k') : (i, j, k) = (i', j', k') := by
  rw [← unflat_flat i j k hj hk, ← unflat_flat i' j' k' hj' hk', h]

theorem flat_lt {nx ny nz i j k : Nat} (hi : i < nx) (hj : j < ny) (hk : k < nz) :
    flat ny nz i j k < nx * ny * nz := by
  unfold flat
  have h1 : i * ny + j + 1 ≤ nx * ny := by
    calc i * ny + j + 1 ≤ i * ny + ny := by omega
      _ = (i + 1) * ny := by ring
      _ ≤ nx * ny := Nat.mul_le_mul_right _ (by omega)
  have h2 : (i * ny + j) * nz + k < (i * ny + j + 1) * nz := by
    rw [Nat.add_mul _ 1, Nat.one_mul]; omega
  exact lt_of_lt_of_le h2 (Nat.mul_le_mul_right nz h1)

/-- `flat`/`unflat` are inverse on the whole CSV row -/
theorem flat_unflat {ny nz : Nat} (p : Nat) :
    flat ny nz (unflat ny nz p).1 (unflat ny nz p).2.1 (unflat ny nz p).2.2 = p := by
  unfold flat unflat
  simp only
  rw [Nat.div_add_mod' (p / nz) ny, Nat.div_add_mod' p nz]

namespace Lat
variable {α β : Type}

/-- the grid has the size of its shape -/
def WF (L : Lat α β) : Prop := L.grid.length = L.nx * L.ny * L.nz

/-- value stored at node `(a, b, c)` (`none` outside the shape) -/
def at? (L : Lat α β) (a b c : Nat) : Option β :=
  if a < L.nx ∧ b < L.ny ∧ c < L.nz then L.grid[flat L.ny L.nz a b c]? else none

theorem validIndex_iff (L : Lat α β) (i j k : Int) :
    L.validIndex i j k = true ↔ (0 ≤ i ∧ i < L.nx) ∧ (0 ≤ j ∧ j < L.ny) ∧ (0 ≤ k ∧ k < L.nz) := by
  simp [validIndex, and_assoc]

theorem validIndex_nat (L : Lat α β) (a b c : Nat) :
    L.validIndex a b c = true ↔ a < L.nx ∧ b < L.ny ∧ c < L.nz := by
  rw [validIndex_iff]; omega

theorem at?_isSome {L : Lat α β} (hwf : L.WF) {a b c : Nat} (h : a < L.nx ∧ b < L.ny ∧ c < L.nz) :
    ∃ v, L.at? a b c = some v := by
  have hl : flat L.ny L.nz a b c < L.grid.length := by rw [hwf]; exact flat_lt h.1 h.2.1 h.2.2
  exact ⟨L.grid[flat L.ny L.nz a b c], by simp [at?, h, List.getElem?_eq_getElem hl]⟩

/-- **`get_value_by_index` never wraps**: an invalid triple (negative indices included) gives the warning /
`None`, a valid one the value stored at exactly that node -/
theorem getByIndex_spec {L : Lat α β} (hwf : L.WF) (i j k : Int) :
    L.getByIndex i j k = .ok (if L.validIndex i j k then L.at? i.toNat j.toNat k.toNat else none) := by
  unfold getByIndex
  by_cases hv : L.validIndex i j k = true
  · obtain ⟨⟨hi0, hi⟩, ⟨hj0, hj⟩, ⟨hk0, hk⟩⟩ := (validIndex_iff L i j k).1 hv
    have ha : i.toNat < L.nx := by omega
    have hb : j.toNat < L.ny := by omega
    have hc : k.toNat < L.nz := by omega
    have hl : flat L.ny L.nz i.toNat j.toNat k.toNat < L.grid.length := by rw [hwf]; exact flat_lt ha hb hc
    have e1 : npAxis L.nx i = .ok i.toNat := npAxis_valid (by omega) (by omega)
    have e2 : npAxis L.ny j = .ok j.toNat := npAxis_valid (by omega) (by omega)
    have e3 : npAxis L.nz k = .ok k.toNat := npAxis_valid (by omega) (by omega)
    simp [hv, rawGet, e1, e2, e3, at?, ha, hb, hc, List.getElem?_eq_getElem hl]
  · simp [hv]

/-- **`set_value_by_index` never wraps**: an invalid triple writes nothing (warning); a valid one changes
exactly its own node -/
theorem setByIndex_spec {L : Lat α β} (hwf : L.WF) (i j k : Int) (v : β) :
    ∃ L', L.setByIndex i j k v = .ok (L', !L.validIndex i j k) ∧ L'.toGeom = L.toGeom ∧ L'.WF ∧
      ∀ a b c, L'.at? a b c =
        if L.validIndex i j k = true ∧ (a, b, c) = (i.toNat, j.toNat, k.toNat) then some v else L.at? a b c := by
  unfold setByIndex
  by_cases hv : L.validIndex i j k = true
  · obtain ⟨⟨hi0, hi⟩, ⟨hj0, hj⟩, ⟨hk0, hk⟩⟩ := (validIndex_iff L i j k).1 hv
    have ha : i.toNat < L.nx := by omega
    have hb : j.toNat < L.ny := by omega
    have hc : k.toNat < L.nz := by omega
    have hl : flat L.ny L.nz i.toNat j.toNat k.toNat < L.grid.length := by rw [hwf]; exact flat_lt ha hb hc
    have e1 : npAxis L.nx i = .ok i.toNat := npAxis_valid (by omega) (by omega)
    have e2 : npAxis L.ny j = .ok j.toNat := npAxis_valid (by omega) (by omega)
    have e3 : npAxis L.nz k = .ok k.toNat := npAxis_valid (by omega) (by omega)
    refine ⟨{ L with grid := L.grid.set (flat L.ny L.nz i.toNat j.toNat k.toNat) v }, ?_, rfl, ?_, ?_⟩
    · simp [hv, rawSet, e1, e2, e3, hl]
    · simpa [WF] using hwf
    · intro a b c
      by_cases hin : a < L.nx ∧ b < L.ny ∧ c < L.nz
      · by_cases heq : (a, b, c) = (i.toNat, j.toNat, k.toNat)
        · injection heq with h1 h2; injection h2 with h2 h3
          subst h1 h2 h3
          simp [at?, ha, hb, hc, hv, hl]
        · have hne : flat L.ny L.nz i.toNat j.toNat k.toNat ≠ flat L.ny L.nz a b c := by
            intro h; exact heq (flat_inj hb hc hin.2.1 hin.2.2 h).symm
          simp [at?, hin, heq, List.getElem?_set_ne hne]
      · have heq : (a, b, c) ≠ (i.toNat, j.toNat, k.toNat) := by
          intro h; injection h with h1 h2; injection h2 with h2 h3
          subst h1 h2 h3; exact hin ⟨ha, hb, hc⟩
        simp [at?, hin, heq]
  · refine ⟨L, by simp [hv], rfl, hwf, fun a b c => by simp [hv]⟩

end Lat

end SparkxVerif.Lattice
