/-
Helper lemmas for C18: the generic eccentricity model of `Core/Ecc.lean` instantiated at `ℝ`
(`realOps`: `Complex.arg`, `Real.cos`, `Real.sin`, `Real.rpow`) equals the complex formula
`-Σ a_j e^{i n φ_j} / Σ a_j`, `a_j = w_j r_j^k`, and the algebra of that formula
(rotation, reflection, scaling, permutation, triangle inequality).
-/
import SparkxVerif.Core.Ecc
import SparkxVerif.Lemmas.Num
import Mathlib.Analysis.SpecialFunctions.Complex.Arg
import Mathlib.Analysis.SpecialFunctions.Pow.Real

namespace SparkxVerif.Ecc
open Complex

/-- the theorem-side instance of the external calls: exact real functions.
`atan2 y x` is the principal argument of `x + i y` (range `(-π, π]`, `0` at the origin, like `np.arctan2`) -/
noncomputable def realOps : Ops ℝ where
  atan2 := fun y x => Complex.arg ⟨x, y⟩
  cos := Real.cos
  sin := Real.sin
  pow := fun a b => a ^ b
  isZero := fun x => decide (x = 0)

/-- a weighted point `(w, x, y)` -/
abbrev Pt := ℝ × ℝ × ℝ

/-- position of a point as a complex number `x + i y` -/
def pos (p : Pt) : ℂ := ⟨p.2.1, p.2.2⟩

/-- `a = w · r^k` -/
noncomputable def amp (k : ℕ) (p : Pt) : ℝ := p.1 * ‖pos p‖ ^ k

/-- `Σ_j w_j r_j^k` -/
noncomputable def normSum (k : ℕ) (pts : List Pt) : ℝ := (pts.map (amp k)).sum

/-- `Σ_j w_j r_j^k e^{i n φ_j}`, `φ_j = arg (x_j + i y_j)` — the numerator as the property states it -/
noncomputable def numSum (n k : ℕ) (pts : List Pt) : ℂ :=
  (pts.map fun p => (amp k p : ℂ) * exp (I * ((n : ℂ) * (arg (pos p) : ℂ)))).sum

/-- the eccentricity as the property states it -/
noncomputable def epsSpec (n k : ℕ) (pts : List Pt) : ℂ := -(numSum n k pts / (normSum k pts : ℂ))

/-- package the model's (real part, imaginary part) pair -/
def toC (e : ℝ × ℝ) : ℂ := ⟨e.1, e.2⟩

/-- the model at `ℝ`, result packaged as a complex number -/
noncomputable def eccCoreC (n k : ℕ) (pts : List Pt) : Except Err ℂ :=
  (eccCore realOps n k pts).map toC

/-! ### the code's `arctan2 / cos / sin / **` form -/

theorem norm_mk (x y : ℝ) : ‖(⟨x, y⟩ : ℂ)‖ = √(x * x + y * y) := by
  rw [Complex.norm_def, Complex.normSq_mk]

/-- `(x² + y²) ** (k / 2.0) = r^k` -/
theorem rpow_half_eq (x y : ℝ) (k : ℕ) :
    (x * x + y * y) ^ (((k : ℕ) : ℝ) / (((2 : ℕ) : ℕ) : ℝ)) = ‖(⟨x, y⟩ : ℂ)‖ ^ k := by
  have h0 : 0 ≤ x * x + y * y := add_nonneg (mul_self_nonneg x) (mul_self_nonneg y)
  rw [norm_mk, Real.sqrt_eq_rpow, ← Real.rpow_natCast, ← Real.rpow_mul h0]
  congr 1
  push_cast
  ring

/-- `cos (n · arg z) = Re e^{i n arg z}` and `sin (n · arg z) = Im e^{i n arg z}` -/
theorem cos_sin_arg (n : ℕ) (z : ℂ) :
    Real.cos ((n : ℝ) * arg z) = (exp (I * ((n : ℂ) * (arg z : ℂ)))).re ∧
    Real.sin ((n : ℝ) * arg z) = (exp (I * ((n : ℂ) * (arg z : ℂ)))).im := by
  have h : I * ((n : ℂ) * (arg z : ℂ)) = (((n : ℝ) * arg z : ℝ) : ℂ) * I := by push_cast; ring
  rw [h]
  exact ⟨(exp_ofReal_mul_I_re _).symm, (exp_ofReal_mul_I_im _).symm⟩

/-- for `z ≠ 0`: `e^{i n arg z} = (z/|z|)^n`; hence `cos (n·arg z) = Re (u^n)`, `sin (n·arg z) = Im (u^n)` -/
theorem exp_arg_eq_unit_pow (n : ℕ) {z : ℂ} (hz : z ≠ 0) :
    exp (I * ((n : ℂ) * (arg z : ℂ))) = (z / (‖z‖ : ℂ)) ^ n := by
  have hn : (‖z‖ : ℂ) ≠ 0 := by
    simpa using hz
  have h1 : z / (‖z‖ : ℂ) = exp (arg z * I) := by
    rw [div_eq_iff hn, mul_comm]
    exact (norm_mul_exp_arg_mul_I z).symm
  rw [h1, ← Complex.exp_nat_mul]
  congr 1
  ring

theorem cos_arg_eq_re_unit_pow (n : ℕ) {z : ℂ} (hz : z ≠ 0) :
    Real.cos ((n : ℝ) * arg z) = ((z / (‖z‖ : ℂ)) ^ n).re ∧
    Real.sin ((n : ℝ) * arg z) = ((z / (‖z‖ : ℂ)) ^ n).im := by
  rw [← exp_arg_eq_unit_pow n hz]
  exact cos_sin_arg n z

/-- the loop: after folding over `pts` the accumulators hold start + the three sums -/
theorem foldl_step (n k : ℕ) (pts : List Pt) (a : Acc ℝ) :
    pts.foldl (step realOps n k) a =
      ⟨a.re + (numSum n k pts).re, a.im + (numSum n k pts).im, a.norm + normSum k pts⟩ := by
  induction pts generalizing a with
  | nil => simp [numSum, normSum]
  | cons p ps ih =>
    rw [List.foldl_cons, ih]
    obtain ⟨w, x, y⟩ := p
    have hc := cos_sin_arg n (⟨x, y⟩ : ℂ)
    have hr := rpow_half_eq x y k
    simp only [step, realOps, numSum, normSum, amp, pos, List.map_cons, List.sum_cons, add_re, add_im,
      re_ofReal_mul, im_ofReal_mul] at hc hr ⊢
    rw [hc.1, hc.2, hr]
    congr 1 <;> ring

theorem eccCore_real (n k : ℕ) (pts : List Pt) :
    eccCore realOps n k pts =
      if normSum k pts = 0 then .error .zerodiv
      else .ok (-((numSum n k pts).re / normSum k pts), -((numSum n k pts).im / normSum k pts)) := by
  unfold eccCore
  rw [foldl_step]
  simp [finish, realOps, Acc.zero]

/-- **the model at `ℝ` is the stated formula** (or the `zerodiv` error exactly when `Σ a_j = 0`) -/
theorem eccCoreC_eq (n k : ℕ) (pts : List Pt) :
    eccCoreC n k pts = if normSum k pts = 0 then .error .zerodiv else .ok (epsSpec n k pts) := by
  unfold eccCoreC
  rw [eccCore_real]
  split
  · rfl
  · simp only [Except.map, toC, epsSpec]
    congr 1
    apply Complex.ext <;> simp [div_ofReal_re, div_ofReal_im]

/-! ### the `u^n` form used for the symmetries -/

/-- `r^k u^n`, `u = z/|z|` (and `0` at the origin) -/
noncomputable def term (n k : ℕ) (z : ℂ) : ℂ := ((‖z‖ ^ k : ℝ) : ℂ) * (z / (‖z‖ : ℂ)) ^ n

theorem term_eq (n : ℕ) {k : ℕ} (hk : 1 ≤ k) (z : ℂ) :
    ((‖z‖ ^ k : ℝ) : ℂ) * exp (I * ((n : ℂ) * (arg z : ℂ))) = term n k z := by
  by_cases hz : z = 0
  · subst hz
    have : (0 : ℝ) ^ k = 0 := zero_pow (by omega)
    simp [term, this]
  · rw [term, exp_arg_eq_unit_pow n hz]

theorem numSum_eq_term (n : ℕ) {k : ℕ} (hk : 1 ≤ k) (pts : List Pt) :
    numSum n k pts = (pts.map fun p => (p.1 : ℂ) * term n k (pos p)).sum := by
  unfold numSum
  congr 1
  apply List.map_congr_left
  intro p _
  rw [← term_eq n hk, amp]
  push_cast
  ring

theorem norm_unit_pow_le (n : ℕ) (z : ℂ) : ‖(z / (‖z‖ : ℂ)) ^ n‖ ≤ 1 := by
  rw [norm_pow, norm_div, Complex.norm_real, norm_norm]
  apply pow_le_one₀ (by positivity)
  exact div_self_le_one _

theorem norm_term_le (n k : ℕ) (z : ℂ) : ‖term n k z‖ ≤ ‖z‖ ^ k := by
  rw [term, norm_mul, Complex.norm_real, Real.norm_eq_abs, abs_of_nonneg (by positivity)]
  exact mul_le_of_le_one_right (by positivity) (norm_unit_pow_le n z)

theorem term_rotate (n k : ℕ) (z : ℂ) (α : ℝ) :
    term n k (z * exp (α * I)) = exp (I * ((n : ℂ) * α)) * term n k z := by
  have hn : ‖z * exp (α * I)‖ = ‖z‖ := by rw [norm_mul, norm_exp_ofReal_mul_I, mul_one]
  have he : exp (I * ((n : ℂ) * α)) = exp (α * I) ^ n := by
    rw [← Complex.exp_nat_mul]; congr 1; ring
  rw [term, term, hn, he, mul_div_right_comm, mul_pow]
  ring

theorem term_reflect (n k : ℕ) (z : ℂ) :
    term n k (-(starRingEnd ℂ) z) = (-1) ^ n * (starRingEnd ℂ) (term n k z) := by
  have hn : ‖-(starRingEnd ℂ) z‖ = ‖z‖ := by rw [norm_neg, Complex.norm_conj]
  rw [term, term, hn, neg_div, neg_pow, map_mul, map_pow, map_div₀, conj_ofReal, conj_ofReal]
  ring

theorem term_scale (n k : ℕ) (z : ℂ) {s : ℝ} (hs : 0 < s) :
    term n k ((s : ℂ) * z) = ((s ^ k : ℝ) : ℂ) * term n k z := by
  have hn : ‖(s : ℂ) * z‖ = s * ‖z‖ := by
    rw [norm_mul, Complex.norm_real, Real.norm_eq_abs, abs_of_pos hs]
  have hs' : (s : ℂ) ≠ 0 := by exact_mod_cast hs.ne'
  rw [term, term, hn]
  have : (s : ℂ) * z / ((s * ‖z‖ : ℝ) : ℂ) = z / (‖z‖ : ℂ) := by
    push_cast
    rw [mul_div_mul_left _ _ hs']
  rw [this]
  push_cast
  ring

/-! ### sums -/

theorem sum_map_range_eq_finset {M : Type} [AddCommMonoid M] (f : ℕ → M) (n : ℕ) :
    ((List.range n).map f).sum = ∑ i ∈ Finset.range n, f i := by
  induction n with
  | zero => simp
  | succ n ih => simp [List.range_succ, Finset.sum_range_succ, ih]

theorem sum_flatMap {M β γ : Type} [AddCommMonoid M] (l : List β) (g : β → List γ) (f : γ → M) :
    ((l.flatMap g).map f).sum = (l.map fun b => ((g b).map f).sum).sum := by
  induction l with
  | nil => simp
  | cons b l ih => simp [List.flatMap_cons, ih]

/-! ### transformations of weighted points and what they do to the two sums -/

/-- rotate the position by `α` about the origin -/
noncomputable def rotPt (α : ℝ) (p : Pt) : Pt :=
  (p.1, p.2.1 * Real.cos α - p.2.2 * Real.sin α, p.2.1 * Real.sin α + p.2.2 * Real.cos α)

/-- reflect `x ↦ -x` -/
def reflPt (p : Pt) : Pt := (p.1, -p.2.1, p.2.2)

/-- scale the position by `s` -/
def scalePt (s : ℝ) (p : Pt) : Pt := (p.1, s * p.2.1, s * p.2.2)

/-- scale the weight by `c` -/
def scaleWPt (c : ℝ) (p : Pt) : Pt := (c * p.1, p.2.1, p.2.2)

theorem pos_rotPt (α : ℝ) (p : Pt) : pos (rotPt α p) = pos p * exp (α * I) := by
  apply Complex.ext <;> simp [pos, rotPt, exp_ofReal_mul_I_re, exp_ofReal_mul_I_im]

theorem pos_reflPt (p : Pt) : pos (reflPt p) = -(starRingEnd ℂ) (pos p) := by
  apply Complex.ext <;> simp [pos, reflPt]

theorem pos_scalePt (s : ℝ) (p : Pt) : pos (scalePt s p) = (s : ℂ) * pos p := by
  apply Complex.ext <;> simp [pos, scalePt]

theorem norm_pos_rotPt (α : ℝ) (p : Pt) : ‖pos (rotPt α p)‖ = ‖pos p‖ := by
  rw [pos_rotPt, norm_mul, norm_exp_ofReal_mul_I, mul_one]

theorem norm_pos_reflPt (p : Pt) : ‖pos (reflPt p)‖ = ‖pos p‖ := by
  rw [pos_reflPt, norm_neg, Complex.norm_conj]

theorem norm_pos_scalePt {s : ℝ} (hs : 0 < s) (p : Pt) : ‖pos (scalePt s p)‖ = s * ‖pos p‖ := by
  rw [pos_scalePt, norm_mul, Complex.norm_real, Real.norm_eq_abs, abs_of_pos hs]

theorem normSum_rot (k : ℕ) (α : ℝ) (pts : List Pt) : normSum k (pts.map (rotPt α)) = normSum k pts := by
  unfold normSum
  rw [List.map_map]
  congr 1
  apply List.map_congr_left
  intro p _
  simp only [Function.comp, amp, norm_pos_rotPt]
  rfl

theorem normSum_refl (k : ℕ) (pts : List Pt) : normSum k (pts.map reflPt) = normSum k pts := by
  unfold normSum
  rw [List.map_map]
  congr 1
  apply List.map_congr_left
  intro p _
  simp only [Function.comp, amp, norm_pos_reflPt]
  rfl

theorem normSum_scale (k : ℕ) {s : ℝ} (hs : 0 < s) (pts : List Pt) :
    normSum k (pts.map (scalePt s)) = s ^ k * normSum k pts := by
  induction pts with
  | nil => simp [normSum]
  | cons p ps ih =>
    simp only [normSum, List.map_cons, List.sum_cons] at ih ⊢
    rw [ih, amp, amp, norm_pos_scalePt hs]
    simp only [scalePt]
    ring

theorem normSum_scaleW (k : ℕ) (c : ℝ) (pts : List Pt) :
    normSum k (pts.map (scaleWPt c)) = c * normSum k pts := by
  induction pts with
  | nil => simp [normSum]
  | cons p ps ih =>
    simp only [normSum, List.map_cons, List.sum_cons] at ih ⊢
    rw [ih, amp, amp]
    simp only [scaleWPt, pos]
    ring

theorem numSum_rot (n : ℕ) {k : ℕ} (hk : 1 ≤ k) (α : ℝ) (pts : List Pt) :
    numSum n k (pts.map (rotPt α)) = exp (I * ((n : ℂ) * α)) * numSum n k pts := by
  rw [numSum_eq_term n hk, numSum_eq_term n hk]
  induction pts with
  | nil => simp
  | cons p ps ih =>
    simp only [List.map_cons, List.sum_cons] at ih ⊢
    rw [ih, pos_rotPt, term_rotate]
    simp only [rotPt]
    ring

theorem numSum_refl (n : ℕ) {k : ℕ} (hk : 1 ≤ k) (pts : List Pt) :
    numSum n k (pts.map reflPt) = (-1) ^ n * (starRingEnd ℂ) (numSum n k pts) := by
  rw [numSum_eq_term n hk, numSum_eq_term n hk]
  induction pts with
  | nil => simp
  | cons p ps ih =>
    simp only [List.map_cons, List.sum_cons] at ih ⊢
    rw [ih, pos_reflPt, term_reflect, map_add, map_mul, conj_ofReal]
    simp only [reflPt]
    ring

theorem numSum_scale (n : ℕ) {k : ℕ} (hk : 1 ≤ k) {s : ℝ} (hs : 0 < s) (pts : List Pt) :
    numSum n k (pts.map (scalePt s)) = ((s ^ k : ℝ) : ℂ) * numSum n k pts := by
  rw [numSum_eq_term n hk, numSum_eq_term n hk]
  induction pts with
  | nil => simp
  | cons p ps ih =>
    simp only [List.map_cons, List.sum_cons] at ih ⊢
    rw [ih, pos_scalePt, term_scale n k _ hs]
    simp only [scalePt]
    ring

theorem numSum_scaleW (n k : ℕ) (c : ℝ) (pts : List Pt) :
    numSum n k (pts.map (scaleWPt c)) = (c : ℂ) * numSum n k pts := by
  induction pts with
  | nil => simp [numSum]
  | cons p ps ih =>
    simp only [numSum, List.map_cons, List.sum_cons] at ih ⊢
    rw [ih, amp, amp]
    simp only [scaleWPt, pos]
    push_cast
    ring

theorem normSum_perm (k : ℕ) {a b : List Pt} (h : a.Perm b) : normSum k a = normSum k b :=
  (h.map _).sum_eq

theorem numSum_perm (n k : ℕ) {a b : List Pt} (h : a.Perm b) : numSum n k a = numSum n k b :=
  (h.map _).sum_eq

theorem normSum_nonneg (k : ℕ) (pts : List Pt) (hw : ∀ p ∈ pts, 0 ≤ p.1) : 0 ≤ normSum k pts := by
  apply List.sum_nonneg
  intro a ha
  obtain ⟨p, hp, rfl⟩ := List.mem_map.1 ha
  exact mul_nonneg (hw p hp) (by positivity)

/-- triangle inequality: `|Σ a_j e^{i n φ_j}| ≤ Σ a_j` for non-negative weights -/
theorem norm_numSum_le (n k : ℕ) (pts : List Pt) (hw : ∀ p ∈ pts, 0 ≤ p.1) :
    ‖numSum n k pts‖ ≤ normSum k pts := by
  induction pts with
  | nil => simp [numSum, normSum]
  | cons p ps ih =>
    have hp : 0 ≤ amp k p := mul_nonneg (hw p (by simp)) (by positivity)
    have h1 : ‖(amp k p : ℂ) * exp (I * ((n : ℂ) * (arg (pos p) : ℂ)))‖ = amp k p := by
      have h : I * ((n : ℂ) * (arg (pos p) : ℂ)) = (((n : ℝ) * arg (pos p) : ℝ) : ℂ) * I := by
        push_cast; ring
      rw [norm_mul, h, norm_exp_ofReal_mul_I, mul_one, Complex.norm_real, Real.norm_eq_abs,
        abs_of_nonneg hp]
    have ih' := ih (fun q hq => hw q (by simp [hq]))
    simp only [numSum, normSum, List.map_cons, List.sum_cons] at ih' ⊢
    calc _ ≤ ‖(amp k p : ℂ) * exp (I * ((n : ℂ) * (arg (pos p) : ℂ)))‖ + _ := norm_add_le _ _
      _ ≤ _ := by rw [h1]; linarith

/-- **bound**: `|ε| ≤ 1` for non-negative weights -/
theorem norm_epsSpec_le (n k : ℕ) (pts : List Pt) (hw : ∀ p ∈ pts, 0 ≤ p.1) :
    ‖epsSpec n k pts‖ ≤ 1 := by
  have h0 := normSum_nonneg k pts hw
  have h1 := norm_numSum_le n k pts hw
  rw [epsSpec, norm_neg, norm_div, Complex.norm_real, Real.norm_eq_abs, abs_of_nonneg h0]
  exact div_le_one_of_le₀ h1 h0

/-! ### the same on the level of the model's result -/

theorem eccCoreC_rot (n : ℕ) {k : ℕ} (hk : 1 ≤ k) (α : ℝ) (pts : List Pt) :
    eccCoreC n k (pts.map (rotPt α)) =
      (eccCoreC n k pts).map (fun e => exp (I * ((n : ℂ) * α)) * e) := by
  rw [eccCoreC_eq, eccCoreC_eq, normSum_rot]
  split
  · rfl
  · simp only [Except.map, epsSpec, numSum_rot n hk, normSum_rot]
    congr 1
    ring

theorem eccCoreC_refl (n : ℕ) {k : ℕ} (hk : 1 ≤ k) (pts : List Pt) :
    eccCoreC n k (pts.map reflPt) =
      (eccCoreC n k pts).map (fun e => (-1) ^ n * (starRingEnd ℂ) e) := by
  rw [eccCoreC_eq, eccCoreC_eq, normSum_refl]
  split
  · rfl
  · simp only [Except.map, epsSpec, numSum_refl n hk, normSum_refl, map_neg, map_div₀, conj_ofReal]
    congr 1
    ring

theorem eccCoreC_scale (n : ℕ) {k : ℕ} (hk : 1 ≤ k) {s : ℝ} (hs : 0 < s) (pts : List Pt) :
    eccCoreC n k (pts.map (scalePt s)) = eccCoreC n k pts := by
  have hsk : s ^ k ≠ 0 := (pow_pos hs k).ne'
  rw [eccCoreC_eq, eccCoreC_eq, normSum_scale k hs]
  simp only [mul_eq_zero, hsk, false_or]
  split
  · rfl
  · simp only [epsSpec, numSum_scale n hk hs, normSum_scale k hs]
    congr 2
    push_cast
    have : ((s : ℂ) ^ k) ≠ 0 := by exact_mod_cast hsk
    rw [mul_div_mul_left _ _ this]

theorem eccCoreC_scaleW (n k : ℕ) {c : ℝ} (hc : c ≠ 0) (pts : List Pt) :
    eccCoreC n k (pts.map (scaleWPt c)) = eccCoreC n k pts := by
  rw [eccCoreC_eq, eccCoreC_eq, normSum_scaleW]
  simp only [mul_eq_zero, hc, false_or]
  split
  · rfl
  · simp only [epsSpec, numSum_scaleW, normSum_scaleW]
    congr 2
    push_cast
    have : (c : ℂ) ≠ 0 := by exact_mod_cast hc
    rw [mul_div_mul_left _ _ this]

theorem eccCoreC_perm (n k : ℕ) {a b : List Pt} (h : a.Perm b) : eccCoreC n k a = eccCoreC n k b := by
  rw [eccCoreC_eq, eccCoreC_eq, epsSpec, epsSpec, normSum_perm k h, numSum_perm n k h]

theorem eccCoreC_bound (n k : ℕ) (pts : List Pt) (hw : ∀ p ∈ pts, 0 ≤ p.1) {e : ℂ}
    (h : eccCoreC n k pts = .ok e) : ‖e‖ ≤ 1 := by
  rw [eccCoreC_eq] at h
  split at h
  · cases h
  · cases h
    exact norm_epsSpec_le n k pts hw

/-! ### the public functions at `ℝ` -/

/-- `EventCharacteristics(particles).eccentricity(n, m, weight_quantity)` at `ℝ` -/
noncomputable def eccParticlesC (n : ℤ) (m : Option ℤ) (wq : Option WQ) (ps : List (Part ℝ)) :
    Except Err ℂ :=
  (eccParticles realOps n m wq ps).map toC

/-- `EventCharacteristics(lattice).eccentricity(n, m)` at `ℝ` -/
noncomputable def eccLatticeC (n : ℤ) (m : Option ℤ) (L : Lattice ℝ) : Except Err ℂ :=
  (eccLattice realOps n m L).map toC

theorem validate_ok {n : ℤ} {m : Option ℤ} {n' k : ℕ} (h : validate n m = .ok (n', k)) :
    1 ≤ n ∧ (∀ m', m = some m' → 1 ≤ m') ∧ (n' : ℤ) = n ∧ 1 ≤ n' ∧ 1 ≤ k ∧
      k = radialPower n.toNat (m.map Int.toNat) := by
  unfold validate at h
  split at h
  · cases h
  · rename_i hn
    have hn1 : 1 ≤ n := by omega
    cases m with
    | none =>
      simp only [Except.ok.injEq, Prod.mk.injEq] at h
      obtain ⟨rfl, rfl⟩ := h
      refine ⟨hn1, by simp, by omega, by omega, ?_, rfl⟩
      simp only [radialPower]
      split <;> omega
    | some m' =>
      simp only at h
      split at h
      · cases h
      · rename_i hm
        simp only [Except.ok.injEq, Prod.mk.injEq] at h
        obtain ⟨rfl, rfl⟩ := h
        refine ⟨hn1, ?_, by omega, by omega, ?_, rfl⟩
        · intro m'' h; cases h; omega
        · simp only [radialPower]; omega

theorem validate_error {n : ℤ} {m : Option ℤ} {e : Err} (h : validate n m = .error e) :
    e = .value ∧ (n < 1 ∨ ∃ m', m = some m' ∧ m' < 1) := by
  unfold validate at h
  split at h
  · rename_i hn; cases h; exact ⟨rfl, Or.inl hn⟩
  · cases m with
    | none => cases h
    | some m' =>
      simp only at h
      split at h
      · rename_i hm; cases h; exact ⟨rfl, Or.inr ⟨m', rfl, hm⟩⟩
      · cases h

theorem validate_of_valid {n : ℤ} {m : Option ℤ} (hn : 1 ≤ n) (hm : ∀ m', m = some m' → 1 ≤ m') :
    validate n m = .ok (n.toNat, radialPower n.toNat (m.map Int.toNat)) := by
  unfold validate
  rw [if_neg (by omega)]
  cases m with
  | none => rfl
  | some m' =>
    have := hm m' rfl
    simp only [Option.map_some]
    rw [if_neg (by omega)]

theorem eccParticlesC_unfold (n : ℤ) (m : Option ℤ) (wq : Option WQ) (ps : List (Part ℝ)) :
    eccParticlesC n m wq ps =
      match validate n m with
      | .error e => .error e
      | .ok (n', k) =>
        match wq with
        | none => if ps.isEmpty then .error .zerodiv else .error .value
        | some q => eccCoreC n' k (ps.map (point q)) := by
  unfold eccParticlesC eccParticles eccCoreC
  cases validate n m with
  | error e => rfl
  | ok v =>
    obtain ⟨n', k⟩ := v
    cases wq with
    | none => simp only; split <;> rfl
    | some q => rfl

theorem eccLatticeC_unfold (n : ℤ) (m : Option ℤ) (L : Lattice ℝ) :
    eccLatticeC n m L =
      match validate n m with
      | .error e => .error e
      | .ok (n', k) => if L.wf then eccCoreC n' k L.nodes else .error .value := by
  unfold eccLatticeC eccLattice eccCoreC
  cases validate n m with
  | error e => rfl
  | ok v =>
    obtain ⟨n', k⟩ := v
    simp only
    split <;> rfl

/-- lifting a fact about `eccCoreC` under a particle-wise transformation to the public function -/
theorem eccParticlesC_map (F : Part ℝ → Part ℝ) (G : ℂ → ℂ) (n : ℤ) (m : Option ℤ) (wq : Option WQ)
    (ps : List (Part ℝ))
    (h : ∀ (n' k : ℕ) (q : WQ), wq = some q → (n' : ℤ) = n → 1 ≤ n' → 1 ≤ k →
      eccCoreC n' k ((ps.map F).map (point q)) = (eccCoreC n' k (ps.map (point q))).map G) :
    eccParticlesC n m wq (ps.map F) = (eccParticlesC n m wq ps).map G := by
  rw [eccParticlesC_unfold, eccParticlesC_unfold]
  cases hv : validate n m with
  | error e => rfl
  | ok v =>
    obtain ⟨n', k⟩ := v
    obtain ⟨_, _, h3, h4, h5, _⟩ := validate_ok hv
    cases wq with
    | none =>
      simp only [List.isEmpty_map]
      split <;> rfl
    | some q => exact h n' k q rfl h3 h4 h5

theorem validate_invalid {n : ℤ} {m : Option ℤ} (h : n < 1 ∨ ∃ m', m = some m' ∧ m' < 1) :
    validate n m = .error .value := by
  cases hv : validate n m with
  | error e => rw [(validate_error hv).1]
  | ok v =>
    obtain ⟨n', k⟩ := v
    obtain ⟨h1, h2, _⟩ := validate_ok hv
    rcases h with h | ⟨m', rfl, hm⟩
    · omega
    · have := h2 m' rfl; omega

/-! ### transformations of particles -/

/-- rotate the transverse position of a particle by `α` about the origin (everything else unchanged) -/
noncomputable def Part.rot (α : ℝ) (p : Part ℝ) : Part ℝ :=
  { p with x := p.x * Real.cos α - p.y * Real.sin α, y := p.x * Real.sin α + p.y * Real.cos α }

/-- reflect `x ↦ -x` -/
def Part.reflX (p : Part ℝ) : Part ℝ := { p with x := -p.x }

/-- scale the transverse position by `s` -/
def Part.scalePos (s : ℝ) (p : Part ℝ) : Part ℝ := { p with x := s * p.x, y := s * p.y }

/-- scale every weight-carrying attribute (energy, charge, baryon number, strangeness) by `c` -/
def Part.scaleW (c : ℝ) (p : Part ℝ) : Part ℝ :=
  { p with E := c * p.E, charge := c * p.charge, baryon := c * p.baryon, strangeness := c * p.strangeness }

/-- a lattice node `(density, x, y)` seen as a particle whose energy is the density -/
def nodePart (p : Pt) : Part ℝ := ⟨p.1, 0, 0, 0, p.2.1, p.2.2⟩

theorem point_rot (q : WQ) (α : ℝ) (p : Part ℝ) : point q (p.rot α) = rotPt α (point q p) := by
  cases q <;> rfl
theorem point_reflX (q : WQ) (p : Part ℝ) : point q p.reflX = reflPt (point q p) := by
  cases q <;> rfl
theorem point_scalePos (q : WQ) (s : ℝ) (p : Part ℝ) : point q (p.scalePos s) = scalePt s (point q p) := by
  cases q <;> rfl
theorem point_scaleW {q : WQ} (hq : q ≠ .number) (c : ℝ) (p : Part ℝ) :
    point q (p.scaleW c) = scaleWPt c (point q p) := by
  cases q <;> first | rfl | exact absurd rfl hq
theorem point_nodePart (p : Pt) : point .energy (nodePart p) = p := rfl

/-! ### the lattice loop as a triple sum over the index ranges -/

/-- node `(i, j, l)`: density and transverse position -/
noncomputable def Lattice.node (L : Lattice ℝ) (i j l : ℕ) : Pt :=
  (L.density i j l, L.xs.getD i 0, L.ys.getD j 0)

theorem nodes_eq (L : Lattice ℝ) :
    L.nodes = (List.range L.xs.length).flatMap fun i => (List.range L.ys.length).flatMap fun j =>
      (List.range L.nz).map fun l => L.node i j l := by
  simp [Lattice.nodes, Lattice.node]

theorem sum_nodes {M : Type} [AddCommMonoid M] (L : Lattice ℝ) (f : Pt → M) :
    (L.nodes.map f).sum =
      ∑ i ∈ Finset.range L.xs.length, ∑ j ∈ Finset.range L.ys.length, ∑ l ∈ Finset.range L.nz,
        f (L.node i j l) := by
  rw [nodes_eq, sum_flatMap, sum_map_range_eq_finset]
  apply Finset.sum_congr rfl
  intro i _
  rw [sum_flatMap, sum_map_range_eq_finset]
  apply Finset.sum_congr rfl
  intro j _
  rw [List.map_map, sum_map_range_eq_finset]
  rfl

end SparkxVerif.Ecc
