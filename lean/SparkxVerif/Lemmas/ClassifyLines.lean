/-
Classification, line by line: `Rd.analyse` of every kind of line the file grammar (`Core/Render.lean`) produces —
particle lines, `# event L out N`, the SMASH footer, the first header line — has the observations of its kind, and
text-mode line splitting (`Proto.fileOfText`) inverts `textOfLines`.  Reusable by C02 / C05 / C06 / C07.
Core Lean only (no Mathlib).
-/
import SparkxVerif.Lemmas.ClassifyBase

set_option linter.unusedSimpArgs false

namespace SparkxVerif.Rd
open SparkxVerif.Str

theorem ne_empty_of_toList_ne_nil {s : String} (h : s.toList ≠ []) : (s != "") = true := by
  simp only [bne_iff_ne, ne_eq]
  rintro rfl
  exact h rfl

/-! ### particle lines -/

/-- alphabet of a particle line -/
def lineCh (c : Char) : Bool := numCh c || c == ' '

theorem partLine_alphabet {r : List String} (h : ∀ t ∈ r, numTok t = true) :
    ∀ c ∈ (" ".intercalate r).toList, lineCh c = true := by
  intro c hc
  rcases mem_toList_intercalate hc with hc | ⟨t, ht, hc⟩
  · have : c = ' ' := by simpa using hc
    subst this; rfl
  · simp [lineCh, numTok_numChars (h t ht) c hc]

/-- a line of numeric tokens joined by single blanks: the tokens come back, no keyword test fires -/
theorem analyse_particle_line {r : List String} (hne : r ≠ []) (h : ∀ t ∈ r, numTok t = true) :
    analyse (" ".intercalate r) =
      { raw := " ".intercalate r, toks := r, toksTab := r, hasHash := false, hasEvent := false, hasOut := false,
        hasOutSp := false, hasInSp := false, hasSpIn := false, hasStart := false, hasEnd := false, hasEndSp := false,
        hasSigma := false, hasWeight := false, hasEventCap := false, hasNHadrons := false, hasNPartons := false } := by
  have hA := partLine_alphabet h
  have hsp : ∀ t ∈ r, ' ' ∉ t.toList := fun t ht => (numTok_numChars (h t ht)).not_mem (by decide)
  have htoks : splitCh ' ' (" ".intercalate r) = r := splitCh_intercalate (by decide) hne hsp
  have htab : (" ".intercalate r).toList.map tabToSp = (" ".intercalate r).toList := by
    apply tabToSp_map_of_not_mem
    intro hm
    have := hA _ hm
    simp [lineCh, numCh] at this
  have htoks' := htoks
  unfold splitCh at htoks'
  have F : ∀ p : String, p.toList.any (fun c => !lineCh c) = true → hasSub (" ".intercalate r) p = false :=
    fun p hp => hasSub_false_of_alphabet lineCh hA hp
  simp only [analyse, htoks, htab, htoks']
  rw [F "#" (by decide), F "event" (by decide), F "out" (by decide), F " out " (by decide), F "in " (by decide),
    F " in " (by decide), F " start" (by decide), F "end" (by decide), F " end " (by decide), F "sigmaGen" (by decide),
    F "weight" (by decide), F "Event" (by decide), F "N_hadrons" (by decide), F "N_partons" (by decide)]

/-! ### `# event L out N` -/

theorem outLineText_eq (e : OEvent) :
    outLineText e = " ".intercalate ["#", "event", toString e.label, "out", toString e.parts.length] := by
  apply String.toList_injective
  simp [outLineText, toString_string, String.toList_append, String.toList_intercalate, List.intercalate, List.intersperse]

theorem outLineText_toList (e : OEvent) :
    (outLineText e).toList = "# event ".toList ++ (toString e.label).toList ++ " out ".toList ++ (toString e.parts.length).toList := by
  simp [outLineText, toString_string, String.toList_append]

/-- alphabet of an `out` line -/
def outCh (c : Char) : Bool := c.isDigit || "# event out-".toList.contains c

theorem outLine_alphabet (e : OEvent) : ∀ c ∈ (outLineText e).toList, outCh c = true := by
    intro c hc
    rw [outLineText_toList] at hc
    simp only [List.mem_append] at hc
    rcases hc with ((hc | hc) | hc) | hc
    · exact (List.all_eq_true.mp (by decide : "# event ".toList.all outCh = true)) c hc
    · rcases intRepr_digits _ c hc with hd | rfl
      · simp [outCh, hd]
      · decide
    · exact (List.all_eq_true.mp (by decide : " out ".toList.all outCh = true)) c hc
    · simp [outCh, natRepr_digits _ c hc]

theorem analyse_out_line (e : OEvent) :
    analyse (outLineText e) =
      { raw := outLineText e, toks := ["#", "event", toString e.label, "out", toString e.parts.length],
        toksTab := ["#", "event", toString e.label, "out", toString e.parts.length],
        hasHash := true, hasEvent := true, hasOut := true,
        hasOutSp := true, hasInSp := false, hasSpIn := false, hasStart := false, hasEnd := false, hasEndSp := false,
        hasSigma := false, hasWeight := false, hasEventCap := false, hasNHadrons := false, hasNPartons := false } := by
  have hA := outLine_alphabet e
  have hsp : ∀ t ∈ ["#", "event", toString e.label, "out", toString e.parts.length], ' ' ∉ t.toList := by
    intro t ht
    simp only [List.mem_cons, List.not_mem_nil, or_false] at ht
    rcases ht with rfl | rfl | rfl | rfl | rfl
    · decide
    · decide
    · exact (intRepr_numChars _).not_mem (by decide)
    · decide
    · exact (natRepr_numChars _).not_mem (by decide)
  have htoks : splitCh ' ' (outLineText e) = ["#", "event", toString e.label, "out", toString e.parts.length] := by
    rw [outLineText_eq]; exact splitCh_intercalate (by decide) (by simp) hsp
  have htab : (outLineText e).toList.map tabToSp = (outLineText e).toList := by
    apply tabToSp_map_of_not_mem
    intro hm
    have := hA _ hm
    revert this; decide
  have htoks' := htoks
  unfold splitCh at htoks'
  have F : ∀ p : String, p.toList.any (fun c => !outCh c) = true → hasSub (outLineText e) p = false :=
    fun p hp => hasSub_false_of_alphabet outCh hA hp
  have T1 : hasSub (outLineText e) "#" = true := by
    rw [hasSub_def, outLineText_toList]
    exact isInfix_append_of_left _ (isInfix_append_of_left _ (isInfix_append_of_left _ (by decide)))
  have T2 : hasSub (outLineText e) "event" = true := by
    rw [hasSub_def, outLineText_toList]
    exact isInfix_append_of_left _ (isInfix_append_of_left _ (isInfix_append_of_left _ (by decide)))
  have T3 : hasSub (outLineText e) "out" = true := by
    rw [hasSub_def, outLineText_toList]
    exact isInfix_append_of_left _ (isInfix_append_of_right _ (by decide))
  have T4 : hasSub (outLineText e) " out " = true := by
    rw [hasSub_def, outLineText_toList]
    exact isInfix_append_of_left _ (isInfix_append_of_right _ (by decide))
  simp only [analyse, htoks, htab, htoks']
  rw [T1, T2, T3, T4, F "in " (by decide),
    F " in " (by decide), F " start" (by decide), F "end" (by decide), F " end " (by decide), F "sigmaGen" (by decide),
    F "weight" (by decide), F "Event" (by decide), F "N_hadrons" (by decide), F "N_partons" (by decide)]

/-! ### `# event L end 0 impact b scattering_projectile_target yes|no` -/

theorem footerText_toList (label : Int) (pad b tail : String) :
    (footerText label pad b tail).toList = "# event ".toList ++ (toString label).toList ++ " end 0 impact".toList ++
      pad.toList ++ b.toList ++ " scattering_projectile_target ".toList ++ tail.toList := by
  simp [footerText, toString_string, String.toList_append]

/-- alphabet of a footer line -/
def endCh (c : Char) : Bool := numCh c || "# event end 0 impact scattering_projectile_target yes no".toList.contains c

theorem numCh_not_mem_of {l : List Char} (hl : l.all (fun c => !numCh c) = true) {t : String} (h : NumChars t) :
    ∀ c ∈ t.toList, c ∉ l := by
  intro c hc hm
  have := List.all_eq_true.mp hl c hm
  simp [h c hc] at this

theorem footer_alphabet (label : Int) {pad b tail : String} (hpad : pad ∈ [" ", "  ", "   "]) (htail : tail ∈ ["yes", "no"])
    (hb : numTok b = true) : ∀ c ∈ (footerText label pad b tail).toList, endCh c = true := by
    have hL := intRepr_numChars label
    have hB := numTok_numChars hb
    intro c hc
    rw [footerText_toList] at hc
    simp only [List.mem_append] at hc
    rcases hc with (((((hc | hc) | hc) | hc) | hc) | hc) | hc
    · exact (List.all_eq_true.mp (by decide : "# event ".toList.all endCh = true)) c hc
    · simp [endCh, hL c hc]
    · exact (List.all_eq_true.mp (by decide : " end 0 impact".toList.all endCh = true)) c hc
    · simp only [List.mem_cons, List.not_mem_nil, or_false] at hpad
      rcases hpad with rfl | rfl | rfl <;> (have : c = ' ' := by simpa using hc) <;> subst this <;> decide
    · simp [endCh, hB c hc]
    · exact (List.all_eq_true.mp (by decide : " scattering_projectile_target ".toList.all endCh = true)) c hc
    · simp only [List.mem_cons, List.not_mem_nil, or_false] at htail
      rcases htail with rfl | rfl
      · exact (List.all_eq_true.mp (by decide : "yes".toList.all endCh = true)) c hc
      · exact (List.all_eq_true.mp (by decide : "no".toList.all endCh = true)) c hc

theorem footer_flags (label : Int) {pad b tail : String} (hpad : pad ∈ [" ", "  ", "   "]) (htail : tail ∈ ["yes", "no"])
    (hb : numTok b = true) :
    let l := analyse (footerText label pad b tail)
    l.raw = footerText label pad b tail ∧ l.hasHash = true ∧ l.hasEvent = true ∧ l.hasOut = false ∧ l.hasOutSp = false ∧
    l.hasInSp = false ∧ l.hasSpIn = false ∧ l.hasStart = false ∧ l.hasEnd = true ∧ l.hasEndSp = true ∧
    l.hasSigma = false ∧ l.hasWeight = false ∧ l.hasNHadrons = false ∧ l.hasNPartons = false := by
  have hL := intRepr_numChars label
  have hB := numTok_numChars hb
  have hLne := intRepr_ne_nil label
  have hBne := numTok_ne_nil hb
  have hA := footer_alphabet label hpad htail hb
  have F : ∀ p : String, p.toList.any (fun c => !endCh c) = true → hasSub (footerText label pad b tail) p = false :=
    fun p hp => hasSub_false_of_alphabet endCh hA hp
  -- tests that need the position: the numeric tokens separate the literal pieces
  have D : ∀ p : String, p.toList ≠ [] → p.toList.all (fun c => !numCh c) = true →
      hasSub (footerText label pad b tail) p =
        (isInfix p.toList "# event ".toList || (isInfix p.toList (" end 0 impact".toList ++ pad.toList) ||
          isInfix p.toList (" scattering_projectile_target ".toList ++ tail.toList))) := by
    intro p hp hd
    rw [hasSub_def, footerText_toList]
    have e : "# event ".toList ++ (toString label).toList ++ " end 0 impact".toList ++ pad.toList ++ b.toList ++
        " scattering_projectile_target ".toList ++ tail.toList =
        "# event ".toList ++ (toString label).toList ++ (" end 0 impact".toList ++ pad.toList ++ b.toList ++
        (" scattering_projectile_target ".toList ++ tail.toList)) := by simp only [List.append_assoc]
    rw [e, isInfix_append_disj _ _ _ hLne (numCh_not_mem_of hd hL) hp,
      isInfix_append_disj _ _ _ hBne (numCh_not_mem_of hd hB) hp]
  simp only [List.mem_cons, List.not_mem_nil, or_false] at hpad htail
  have P : ∀ p : String, isInfix p.toList ("# event ".toList ++ (toString label).toList ++ " end 0 impact".toList) = true →
      hasSub (footerText label pad b tail) p = true := by
    intro p hp
    rw [hasSub_def, footerText_toList]
    iterate 4 apply isInfix_append_of_left
    exact hp
  have P1 : ∀ p : String, isInfix p.toList "# event ".toList = true → hasSub (footerText label pad b tail) p = true :=
    fun p hp => P p (isInfix_append_of_left _ (isInfix_append_of_left _ hp))
  have P2 : ∀ p : String, isInfix p.toList " end 0 impact".toList = true → hasSub (footerText label pad b tail) p = true :=
    fun p hp => P p (isInfix_append_of_right _ hp)
  have N : ∀ p : String, p.toList ≠ [] → p.toList.all (fun c => !numCh c) = true →
      (∀ pad' ∈ [" ", "  ", "   "], ∀ tail' ∈ ["yes", "no"],
        (isInfix p.toList "# event ".toList || (isInfix p.toList (" end 0 impact".toList ++ pad'.toList) ||
          isInfix p.toList (" scattering_projectile_target ".toList ++ tail'.toList))) = false) →
      hasSub (footerText label pad b tail) p = false := by
    intro p hp hd hall
    rw [D p hp hd]
    exact hall pad (by simp [hpad]) tail (by simp [htail])
  simp only [analyse]
  exact ⟨trivial, P1 "#" (by decide), P1 "event" (by decide), F "out" (by decide), F " out " (by decide),
    N "in " (by decide) (by decide) (by decide), N " in " (by decide) (by decide) (by decide),
    N " start" (by decide) (by decide) (by decide), P2 "end" (by decide), P2 " end " (by decide),
    F "sigmaGen" (by decide), F "weight" (by decide), F "N_hadrons" (by decide), F "N_partons" (by decide)⟩

/-- the footer (with or without its newline) as a joined token list; `k` = number of blanks after `impact` -/
def footerToks (label : Int) (k : Nat) (b last : String) : List String :=
  ["#", "event", toString label, "end", "0", "impact"] ++ (List.replicate (k - 1) "" ++ [b, "scattering_projectile_target", last])

theorem footerText_eq_intercalate (label : Int) {pad b tail : String} (hpad : pad ∈ [" ", "  ", "   "]) (x : String) :
    footerText label pad b tail ++ x = " ".intercalate (footerToks label pad.length b (tail ++ x)) := by
  simp only [List.mem_cons, List.not_mem_nil, or_false] at hpad
  apply String.toList_injective
  rcases hpad with rfl | rfl | rfl <;>
  simp [footerText, footerToks, toString_string, String.toList_append, String.toList_intercalate, List.intercalate,
    List.intersperse, List.replicate, (by decide : " ".length = 1), (by decide : "  ".length = 2), (by decide : "   ".length = 3)]

theorem footer_toks_split (label : Int) {pad b tail : String} (hpad : pad ∈ [" ", "  ", "   "]) (htail : tail ∈ ["yes", "no"])
    (hb : numTok b = true) (x : String) (hx : x = "" ∨ x = "\n") :
    splitCh ' ' (footerText label pad b tail ++ x) = footerToks label pad.length b (tail ++ x) := by
  rw [footerText_eq_intercalate label hpad]
  apply splitCh_intercalate (by decide) (by simp [footerToks])
  intro t ht
  simp only [footerToks, List.mem_append, List.mem_cons, List.not_mem_nil, or_false, List.mem_replicate] at ht
  simp only [List.mem_cons, List.not_mem_nil, or_false] at htail
  rcases ht with (rfl | rfl | rfl | rfl | rfl | rfl) | ⟨_, rfl⟩ | rfl | rfl | rfl
  · decide
  · decide
  · exact (intRepr_numChars _).not_mem (by decide)
  · decide
  · decide
  · decide
  · decide
  · exact (numTok_numChars hb).not_mem (by decide)
  · decide
  · rcases htail with rfl | rfl <;> rcases hx with rfl | rfl <;> decide

theorem footer_toks (label : Int) {pad b tail : String} (hpad : pad ∈ [" ", "  ", "   "]) (htail : tail ∈ ["yes", "no"])
    (hb : numTok b = true) :
    (analyse (footerText label pad b tail)).toks = footerToks label pad.length b tail := by
  have := footer_toks_split label hpad htail hb "" (Or.inl rfl)
  simpa [analyse] using this

/-- `float(line.split()[-3])` of `impact_parameter()` finds the impact token, with or without the newline -/
theorem footer_impactTok (label : Int) {pad b tail : String} (hpad : pad ∈ [" ", "  ", "   "]) (htail : tail ∈ ["yes", "no"])
    (hb : numTok b = true) (hf : isPyFloat b = true) (nl : Bool) :
    impactTokOf (footerText label pad b tail) nl = .ok b := by
  have hx : (if nl = true then "\n" else "") = "" ∨ (if nl = true then "\n" else "") = "\n" := by cases nl <;> simp
  have hLne := ne_empty_of_toList_ne_nil (intRepr_ne_nil label)
  have hBne := ne_empty_of_toList_ne_nil (numTok_ne_nil hb)
  have hTne : (tail ++ (if nl = true then "\n" else "") != "") = true := by
    simp only [List.mem_cons, List.not_mem_nil, or_false] at htail
    rcases htail with rfl | rfl <;> cases nl <;> decide
  unfold impactTokOf
  simp only [footer_toks_split label hpad htail hb _ hx]
  have hfil : (footerToks label pad.length b (tail ++ if nl = true then "\n" else "")).filter (fun t => t != "") =
      ["#", "event", toString label, "end", "0", "impact", b, "scattering_projectile_target", tail ++ if nl = true then "\n" else ""] := by
    have h0 : ∀ k, (List.replicate k "").filter (fun t => t != "") = [] := by
      intro k; simp [List.filter_eq_nil_iff]
    simp only [footerToks, List.filter_append, h0, List.nil_append]
    have hLne' : (label.repr != "") = true := hLne
    simp [List.filter, hLne', hBne, hTne]
  simp only [hfil]
  simp [hf]

/-- everything the Oscar loader observes on a SMASH footer line (`hasEventCap`, a JETSCAPE test, is left open: the impact
token may contain an `E`) -/
theorem analyse_end_line (label : Int) {pad b tail : String} (hpad : pad ∈ [" ", "  ", "   "]) (htail : tail ∈ ["yes", "no"])
    (hb : numTok b = true) :
    (analyse (footerText label pad b tail)).toks = footerToks label pad.length b tail ∧
    (let l := analyse (footerText label pad b tail)
     l.raw = footerText label pad b tail ∧ l.hasHash = true ∧ l.hasEvent = true ∧ l.hasOut = false ∧ l.hasOutSp = false ∧
     l.hasInSp = false ∧ l.hasSpIn = false ∧ l.hasStart = false ∧ l.hasEnd = true ∧ l.hasEndSp = true ∧
     l.hasSigma = false ∧ l.hasWeight = false ∧ l.hasNHadrons = false ∧ l.hasNPartons = false) :=
  ⟨footer_toks label hpad htail hb, footer_flags label hpad htail hb⟩

/-! ### the first header line -/

theorem wordTok_no_space {t : String} (h : wordTok t = true) : ' ' ∉ t.toList := by
  simp only [wordTok, Bool.and_eq_true, String.all_bool_eq, List.all_eq_true] at h
  intro hm
  have := h.2 _ hm
  revert this; decide

theorem headTag_no_space (f : Fmt) : ' ' ∉ (headTag f).toList := by cases f <;> decide

theorem splitOnChar_toList_intercalate {toks : List String} (hne : toks ≠ []) (h : ∀ t ∈ toks, ' ' ∉ t.toList) :
    splitOnChar ' ' (" ".intercalate toks).toList = toks.map String.toList := by
  rw [String.toList_intercalate, show " ".toList = [' '] from rfl]
  exact splitOnChar_intercalate (by simpa using hne)
    (by intro t ht; obtain ⟨t', ht', rfl⟩ := List.mem_map.mp ht; exact h t' ht')

/-- ` w ` (a word between blanks) occurs in a joined token list only if `w` is one of the tokens -/
theorem mem_of_hasSub_word {toks : List String} (hne : toks ≠ []) (h : ∀ t ∈ toks, ' ' ∉ t.toList) {w : String}
    (hw : ' ' ∉ w.toList) {p : String} (hp : p.toList = ' ' :: w.toList ++ [' '])
    (hs : hasSub (" ".intercalate toks) p = true) : w ∈ toks := by
  rw [hasSub_def, hp] at hs
  have := mem_splitOnChar_of_isInfix hw hs
  rw [splitOnChar_toList_intercalate hne h] at this
  obtain ⟨t, ht, e⟩ := List.mem_map.mp this
  rw [String.toList_inj] at e
  exact e ▸ ht

theorem head_line (F : OscarSpec) (hc : ∀ c ∈ F.cols, colTok c = true) :
    isHeadLine F (analyse (" ".intercalate (headToks F))) = true := by
  have hsp : ∀ t ∈ headToks F, ' ' ∉ t.toList := by
    intro t ht
    simp only [headToks, List.mem_cons] at ht
    rcases ht with rfl | rfl | ht
    · exact headTag_no_space _
    · decide
    · have := hc t ht
      simp only [colTok, Bool.and_eq_true] at this
      exact wordTok_no_space this.1.1
  have hne : headToks F ≠ [] := by simp [headToks]
  have htoks : (analyse (" ".intercalate (headToks F))).toks = headToks F := splitCh_intercalate (by decide) hne hsp
  have hno : ∀ (w p : String), ' ' ∉ w.toList → p.toList = ' ' :: w.toList ++ [' '] → w ≠ "particle_lists" →
      (∀ f, headTag f ≠ w) → (∀ c ∈ F.cols, c ≠ w) → hasSub (" ".intercalate (headToks F)) p = false := by
    intro w p hw hp h1 h2 h3
    cases hs : hasSub (" ".intercalate (headToks F)) p with
    | false => rfl
    | true =>
      have hm := mem_of_hasSub_word hne hsp hw hp hs
      simp only [headToks, List.mem_cons] at hm
      rcases hm with rfl | rfl | hm
      · exact absurd rfl (h2 _)
      · exact absurd rfl h1
      · exact absurd rfl (h3 w hm)
  have hend : (analyse (" ".intercalate (headToks F))).hasEndSp = false := by
    refine hno "end" " end " (by decide) (by decide) (by decide) (by intro f; cases f <;> decide) ?_
    intro c hcm e
    have := hc c hcm
    simp [colTok, e] at this
  have hout : (analyse (" ".intercalate (headToks F))).hasOutSp = false := by
    refine hno "out" " out " (by decide) (by decide) (by decide) (by intro f; cases f <;> decide) ?_
    intro c hcm e
    have := hc c hcm
    simp [colTok, e] at this
  simp [isHeadLine, notScanned, htoks, hend, hout]

/-! ### lines of a text -/

/-- text-mode line splitting inverts the rendering of a list of lines: no line contains a newline, the last line is not
empty (a text cannot end in an empty unterminated line) -/
theorem fileOfText_textOfLines (ls : List String) (nl : Bool) (hne : ls ≠ [])
    (hnl : ∀ l ∈ ls, '\n' ∉ l.toList) (hlast : ls.getLast hne ≠ "") :
    Proto.fileOfText (textOfLines ls nl) = { lines := ls.map analyse, trailingNL := nl } := by
  have hne' : ls.map String.toList ≠ [] := by simpa using hne
  have hX : ("\n".intercalate ls).toList = ['\n'].intercalate (ls.map String.toList) := by
    rw [String.toList_intercalate]; rfl
  have hlast' : (ls.map String.toList).getLast hne' ≠ [] := by
    rw [List.getLast_map]
    intro e
    exact hlast (String.toList_eq_nil_iff.mp e)
  have hlastnl : '\n' ∉ (ls.map String.toList).getLast hne' := by
    rw [List.getLast_map]
    exact hnl _ (List.getLast_mem hne)
  have hgl := getLast?_intercalate (sep := ['\n']) hne' hlast'
  have hXne : ['\n'].intercalate (ls.map String.toList) ≠ [] := by
    intro e
    rw [e] at hgl
    simp only [List.getLast?_nil] at hgl
    exact hlast' (List.getLast?_eq_none_iff.mp hgl.symm)
  have hsplit : splitOnChar '\n' (['\n'].intercalate (ls.map String.toList)) = ls.map String.toList :=
    splitOnChar_intercalate hne' (by intro t ht; obtain ⟨t', ht', rfl⟩ := List.mem_map.mp ht; exact hnl t' ht')
  have hback : (ls.map String.toList).map String.ofList = ls := by
    simp [List.map_map, Function.comp_def, String.ofList_toList]
  cases nl with
  | true =>
    have hcs : (textOfLines ls true).toList = ['\n'].intercalate (ls.map String.toList) ++ ['\n'] := by
      simp [textOfLines, String.toList_append, hX]
    have hsp : splitCh '\n' (textOfLines ls true) = ls ++ [""] := by
      unfold splitCh
      rw [hcs, splitOnChar_append_sep, hsplit, List.map_append, hback]
      rfl
    simp only [Proto.fileOfText, hcs, hsp]
    simp
  | false =>
    have hcs : (textOfLines ls false).toList = ['\n'].intercalate (ls.map String.toList) := by
      simp [textOfLines, String.toList_append, hX]
    have hsp : splitCh '\n' (textOfLines ls false) = ls := by
      unfold splitCh
      rw [hcs, hsplit, hback]
    have htr : ((['\n'].intercalate (ls.map String.toList)).getLast? == some '\n') = false := by
      rw [hgl]
      cases hg : ((ls.map String.toList).getLast hne').getLast? with
      | none => rfl
      | some c =>
        have hm := List.mem_of_getLast? hg
        have : c ≠ '\n' := fun e => hlastnl (e ▸ hm)
        simp [this]
    simp only [Proto.fileOfText, hcs, hsp, htr]
    simp [hXne]

end SparkxVerif.Rd
