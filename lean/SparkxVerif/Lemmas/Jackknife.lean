/-
Helper lemmas for C15 (Jackknife): `np.delete` model, the pool machine, the estimate over ℝ.
The property theorems themselves are in `Props/C15.lean`.
-/
import SparkxVerif.Core.Jackknife
import SparkxVerif.Lemmas.Num
import Mathlib.Analysis.Real.Sqrt
import Mathlib.Tactic.Ring
import Mathlib.Tactic.FieldSimp
import Mathlib.Tactic.Linarith

namespace SparkxVerif.Jackknife
open SparkxVerif.Gen.Jackknife

section del
variable {ρ ρ' : Type}

theorem deleteFrom_map (f : ρ → ρ') (idx : List Nat) (k : Nat) (xs : List ρ) :
    deleteFrom idx k (xs.map f) = (deleteFrom idx k xs).map f := by
  induction xs generalizing k with
  | nil => simp [deleteFrom]
  | cons x xs ih =>
    simp only [List.map_cons, deleteFrom]
    split <;> simp [ih]

theorem deleteIdx_map (f : ρ → ρ') (data : List ρ) (idx : List Nat) :
    deleteIdx (data.map f) idx = (deleteIdx data idx).map f := deleteFrom_map f idx 0 data

theorem filter_le_length (idx : List Nat) (k : Nat) :
    (idx.filter (fun j => decide (k ≤ j))).length
      = (idx.filter (fun j => decide (k + 1 ≤ j))).length + idx.count k := by
  induction idx with
  | nil => simp
  | cons a as ih =>
    simp only [List.filter_cons, List.count_cons]
    by_cases h1 : k + 1 ≤ a
    · have h0 : k ≤ a := by omega
      have hne : ¬ a = k := by omega
      simp [h1, h0, hne, ih]; omega
    · by_cases h0 : k ≤ a
      · have : a = k := by omega
        simp [this, ih]; omega
      · have hne : ¬ a = k := by omega
        simp [h1, h0, hne, ih]

theorem length_deleteFrom (idx : List Nat) (k : Nat) (xs : List ρ) :
    xs.length ≤ (deleteFrom idx k xs).length + (idx.filter (fun j => decide (k ≤ j))).length := by
  induction xs generalizing k with
  | nil => simp
  | cons x xs ih =>
    have h := ih (k + 1)
    have hf := filter_le_length idx k
    simp only [deleteFrom]
    split
    · rename_i hc
      have : 0 < idx.count k := by
        rw [List.count_pos_iff]; simpa using hc
      simp only [List.length_cons]; omega
    · simp only [List.length_cons]; omega

theorem length_deleteIdx (data : List ρ) (idx : List Nat) :
    data.length ≤ (deleteIdx data idx).length + idx.length := by
  have := length_deleteFrom idx 0 data
  have h2 : (idx.filter (fun j => decide (0 ≤ j))).length ≤ idx.length := List.length_filter_le _ _
  unfold deleteIdx; omega
end del

section pool
variable {σ ρ α : Type}

/-- the statistic of the `i`-th delete-d subsample: `θ(np.delete(data, draw(seed+i)))` -/
def theta (R : Rng σ) (θ : List ρ → α) (data : List ρ) (seed : Int) (d : Nat) (i : Nat) : α :=
  θ (deleteIdx data (R.draw (seed + i) data.length d))

/-- with the per-task reseed, the value a task produces does not depend on the worker's generator state -/
theorem runTaskG_true_fst (R : Rng σ) (θ : List ρ → α) (data : List ρ) (seed : Int) (d i : Nat) (st : σ) :
    (runTaskG true R θ data seed d i st).1 = theta R θ data seed d i := by
  simp [runTaskG, theta, Rng.draw, taskSeed]

theorem foldl_step_slot (R : Rng σ) (θ : List ρ → α) (data : List ρ) (seed : Int) (d : Nat)
    (sched : List (Nat × Nat)) (p : Pool σ α) (j : Nat) :
    (sched.foldl (Pool.step true R θ data seed d) p).slot j
      = if j ∈ sched.map Prod.snd then some (theta R θ data seed d j) else p.slot j := by
  induction sched generalizing p with
  | nil => simp
  | cons e es ih =>
    rw [List.foldl_cons, ih]
    by_cases hj : j ∈ es.map Prod.snd
    · simp [hj]
    · by_cases he : j = e.2
      · subst he
        simp [hj, Pool.step, runTaskG_true_fst]
      · have : j ∉ (e :: es).map Prod.snd := by
          simp only [List.map_cons, List.mem_cons, not_or]; exact ⟨he, hj⟩
        simp [hj, Pool.step, he]

theorem mapM_eq_some_map (l : List Nat) (g : Nat → Option α) (f : Nat → α)
    (h : ∀ x ∈ l, g x = some (f x)) : l.mapM g = some (l.map f) := by
  induction l with
  | nil => simp
  | cons a as ih =>
    have ha := h a (by simp)
    have has := ih (fun x hx => h x (by simp [hx]))
    simp [List.mapM_cons, ha, has]

/-- if every task index below `N` occurs in the schedule, the pool returns the subsample statistics in task order,
whatever the workers' generator states were and whichever worker ran which task in whichever order -/
theorem poolRunG_true_of_covers (R : Rng σ) (θ : List ρ → α) (data : List ρ) (seed : Int) (d N : Nat)
    (init : Nat → σ) (sched : List (Nat × Nat)) (h : ∀ i < N, i ∈ sched.map Prod.snd) :
    poolRunG true R θ data seed d N init sched = some ((List.range N).map (theta R θ data seed d)) := by
  unfold poolRunG
  apply mapM_eq_some_map
  intro i hi
  rw [foldl_step_slot]
  simp [h i (List.mem_range.mp hi)]

end pool

section est

/-- the generated scaling factor is `(n-d)/(d·N)` for every admissible `d`, `d = 1` included -/
theorem scale_eq (n d N : ℕ) (hd : 1 ≤ d) (hdn : d ≤ n) :
    (scale n d N : ℝ) = ((n : ℝ) - d) / (d * N) := by
  by_cases h1 : d = 1
  · subst h1
    simp [scale, Nat.cast_sub hdn]
  · simp [scale, h1, Nat.cast_sub hdn]

theorem sum_map_mul_left' (k : ℝ) (g : ℝ → ℝ) (xs : List ℝ) :
    (xs.map (fun x => k * g x)).sum = k * (xs.map g).sum := by
  induction xs with
  | nil => simp
  | cons a as ih => simp [ih, mul_add]

theorem sum_map_mul_left (k : ℝ) (xs : List ℝ) : (xs.map (fun x => k * x)).sum = k * xs.sum := by
  simpa using sum_map_mul_left' k id xs

theorem sum_map_add_right (s : ℝ) (xs : List ℝ) :
    (xs.map (fun x => x + s)).sum = xs.sum + xs.length * s := by
  induction xs with
  | nil => simp
  | cons a as ih => simp [ih]; ring

/-- the model's estimate in mathematical notation -/
theorem estimate_eq (n d : ℕ) (xs : List ℝ) :
    estimate Real.sqrt n d xs
      = Real.sqrt ((xs.map (fun x => (x - xs.sum / xs.length) ^ 2)).sum * scale n d xs.length) := by
  simp [estimate, meanL, term]

theorem specFormula_eq (n d : ℕ) (xs : List ℝ) :
    specFormula Real.sqrt n d xs
      = Real.sqrt (((n : ℝ) - d) / (d * xs.length) * (xs.map (fun x => (x - xs.sum / xs.length) ^ 2)).sum) := by
  simp [specFormula, sq]

theorem estimate_map_mul (n d : ℕ) (k : ℝ) (xs : List ℝ) :
    estimate Real.sqrt n d (xs.map (fun x => k * x)) = |k| * estimate Real.sqrt n d xs := by
  rw [estimate_eq, estimate_eq, ← Real.sqrt_sq_eq_abs, ← Real.sqrt_mul (sq_nonneg k)]
  congr 1
  simp only [List.map_map, List.length_map, sum_map_mul_left]
  have : ((fun x => (x - k * xs.sum / (xs.length : ℝ)) ^ 2) ∘ fun x => k * x)
      = fun x => k ^ 2 * (x - xs.sum / (xs.length : ℝ)) ^ 2 := by
    funext x; simp only [Function.comp]; ring
  rw [this, sum_map_mul_left']; ring

theorem estimate_map_add (n d : ℕ) (s : ℝ) (xs : List ℝ) :
    estimate Real.sqrt n d (xs.map (fun x => x + s)) = estimate Real.sqrt n d xs := by
  rcases xs with _ | ⟨a, as⟩
  · simp
  rw [estimate_eq, estimate_eq]
  simp only [List.map_map, List.length_map, sum_map_add_right]
  congr 3
  apply List.map_congr_left
  intro x _
  have hne : ((a :: as).length : ℝ) ≠ 0 := by simp; positivity
  simp only [Function.comp]
  congr 1
  field_simp
  ring
end est

section means

theorem meanAll_scale (c : ℝ) (rows : List (List ℝ)) :
    meanAll (rows.map (List.map (fun x => c * x))) = c * meanAll rows := by
  simp only [meanAll, sumL_eq_sum, ← List.map_flatten, List.length_map, sum_map_mul_left]
  ring

theorem meanAll_shift (s : ℝ) (rows : List (List ℝ)) (h : rows.flatten ≠ []) :
    meanAll (rows.map (List.map (fun x => x + s))) = meanAll rows + s := by
  simp only [meanAll, sumL_eq_sum, ← List.map_flatten, List.length_map, sum_map_add_right]
  have hne : ((rows.flatten.length : ℕ) : ℝ) ≠ 0 := by
    have : 0 < rows.flatten.length := List.length_pos_iff.mpr h
    positivity
  field_simp

/-- a non-empty list of non-empty rows has entries -/
theorem flatten_ne_nil_of (rows : List (List ℝ)) (hr : ∀ r ∈ rows, r ≠ []) (hne : rows ≠ []) :
    rows.flatten ≠ [] := by
  rcases rows with _ | ⟨r, rs⟩
  · exact absurd rfl hne
  · have := hr r (by simp)
    simp [this]

theorem mem_deleteFrom {ρ : Type} (idx : List Nat) (k : Nat) (xs : List ρ) (x : ρ)
    (h : x ∈ deleteFrom idx k xs) : x ∈ xs := by
  induction xs generalizing k with
  | nil => simp [deleteFrom] at h
  | cons a as ih =>
    simp only [deleteFrom] at h
    split at h
    · exact List.mem_cons_of_mem _ (ih _ h)
    · rcases List.mem_cons.mp h with h | h
      · simp [h]
      · exact List.mem_cons_of_mem _ (ih _ h)

end means

end SparkxVerif.Jackknife
