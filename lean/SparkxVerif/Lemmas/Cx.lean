/-
`Cx ℝ` (the pair model used by executable code) versus Mathlib's `ℂ`.
`toC` is a ring homomorphism commuting with conjugation; real-valued observables (`re`, `normSq`)
are expressed through `z` and `conj z`, so that identities about model code become ring identities in ℂ.
-/
import SparkxVerif.Core.Cx
import SparkxVerif.Lemmas.Num
import Mathlib.Data.Complex.Basic
import Mathlib.Algebra.BigOperators.Group.List.Basic

open ComplexConjugate

namespace SparkxVerif.Cx

def toC (a : Cx ℝ) : ℂ := ⟨a.re, a.im⟩

@[simp] theorem toC_re (a : Cx ℝ) : (toC a).re = a.re := rfl
@[simp] theorem toC_im (a : Cx ℝ) : (toC a).im = a.im := rfl

@[simp] theorem toC_add (a b : Cx ℝ) : toC (a + b) = toC a + toC b := by
  apply Complex.ext <;> rfl
@[simp] theorem toC_sub (a b : Cx ℝ) : toC (a - b) = toC a - toC b := by
  apply Complex.ext <;> rfl
@[simp] theorem toC_mul (a b : Cx ℝ) : toC (a * b) = toC a * toC b := by
  apply Complex.ext <;> simp [Complex.mul_re, Complex.mul_im] <;> rfl
@[simp] theorem toC_conj (a : Cx ℝ) : toC (Cx.conj a) = conj (toC a) := by
  apply Complex.ext <;> simp [Cx.conj]
@[simp] theorem toC_ofReal (x : ℝ) : toC (Cx.ofReal x) = (x : ℂ) := by
  apply Complex.ext <;> simp [Cx.ofReal]
@[simp] theorem toC_smul (x : ℝ) (a : Cx ℝ) : toC (Cx.smul x a) = (x : ℂ) * toC a := by
  apply Complex.ext <;> simp [Cx.smul]
@[simp] theorem toC_cpow (a : Cx ℝ) (n : ℕ) : toC (Cx.cpow a n) = toC a ^ n := by
  induction n with
  | zero => simp [Cx.cpow]
  | succ n ih => simp [Cx.cpow, ih, pow_succ]
@[simp] theorem toC_sum (xs : List (Cx ℝ)) : toC (Cx.sum xs) = (xs.map toC).sum := by
  unfold Cx.sum
  rw [List.sum_eq_foldl]
  generalize hz : Cx.ofReal ((0 : ℕ) : ℝ) = z
  have : toC z = 0 := by rw [← hz]; simp
  rw [← this]
  clear this hz
  induction xs generalizing z with
  | nil => rfl
  | cons x xs ih => simp only [List.foldl_cons, List.map_cons]; rw [ih]; simp

/-- a real observable as seen in ℂ -/
theorem ofReal_re (a : Cx ℝ) : ((a.re : ℝ) : ℂ) = (toC a + conj (toC a)) / 2 := by
  apply Complex.ext <;> simp
theorem ofReal_normSq (a : Cx ℝ) : ((Cx.normSq a : ℝ) : ℂ) = toC a * conj (toC a) := by
  apply Complex.ext <;> simp [Cx.normSq, Complex.mul_re, Complex.mul_im] <;> ring

end SparkxVerif.Cx
